(* NoEvalFacts.v — C12: short-circuit operands are parsed but never executed.

   In "no-eval" mode (e_noeval > 0) the expression evaluator of Model/Expr.v
     - returns the interpreter state it was given, and leaves the no-eval counter as it found it;
     - produces a result that depends neither on the command executor nor on the interpreter state
       (so no command ran, and every error it reports is a property of the text alone);
   and the AND / OR / ?: branches of expr_loop parse exactly the operands C semantics skips in
   that mode. *)
From Molt Require Import Model.Base Model.Tokenizer Model.ListSyn Model.Float Model.Value
  Model.State Model.Script Model.Parser Model.Eval Model.Expr.
From Coq Require Import Lia ZifyBool ZifyN.

Arguments N.eqb : simpl never.
Arguments N.leb : simpl never.
Arguments N.ltb : simpl never.
Arguments Z.eqb : simpl never.
Arguments Z.leb : simpl never.
Arguments Z.ltb : simpl never.

Local Open Scope Z_scope.

(* ---------- one-step unfolding equations ---------- *)

(* the non-recursive pieces of the four function bodies, named *)

Definition unary_tok (i1 : einfo) : Z :=
  if e_token i1 =? T_MINUS then T_UNARY_MINUS
  else if e_token i1 =? T_PLUS then T_UNARY_PLUS else e_token i1.

Definition unary_apply (tok : Z) (v : datum) : res datum :=
  if tok =? T_UNARY_MINUS then
    match v with
    | DInt z => if in_i64 (- z) then Ok (DInt (- z)) else err (lit "integer overflow")
    | DFlt x => Ok (DFlt (fneg x))
    | DStr _ => illegal_type v tok
    end
  else if tok =? T_UNARY_PLUS then
    match v with DStr _ => illegal_type v tok | _ => Ok v end
  else if tok =? T_NOT then
    match v with
    | DInt z => Ok (d_bool (z =? 0))
    | DFlt x => Ok (d_bool (f_is_zero x))
    | DStr _ => illegal_type v tok
    end
  else if tok =? T_BIT_NOT then
    match v with
    | DInt z => Ok (DInt (Z.lnot z))
    | _ => illegal_type v tok
    end
  else err (lit "unknown unary op").

(* expr_loop's conversion of the left operand of && || ?: to an integer *)
Definition conv_left (info : einfo) (v : datum) : res datum :=
  match v with
  | DFlt x => Ok (d_bool (negb (f_is_zero x)))
  | DStr _ => if noeval info then Ok (DInt 0) else illegal_type v (e_token info)
  | DInt _ => Ok v
  end.

Definition bad_after_token (i2 : einfo) : bool :=
  (e_token i2 <? T_MULT) && negb (e_token i2 =? T_VALUE) && negb (e_token i2 =? T_END)
  && negb (e_token i2 =? T_COMMA) && negb (e_token i2 =? T_CLOSE_PAREN).

Definition lex_number (info : einfo) (p : str) (c : char) : option (res (datum * einfo)) :=
  if N.eqb c c_plus || N.eqb c c_minus then None
  else
    match (if expr_looks_like_int p then read_int p else None) with
    | Some (tok, rest) =>
        Some (match get_int tok with
              | Some z => Ok (DInt z, with_tok_rest info T_VALUE rest)
              | None => err (err_expected_int tok)
              end)
    | None =>
        match read_float p with
        | Some (tok, rest) =>
            Some (match get_float tok with
                  | Some x => Ok (DFlt x, with_tok_rest info T_VALUE rest)
                  | None => err (err_expected_float tok)
                  end)
        | None => None
        end
    end.

Definition lex_value_of (info : einfo) (st1 : interp) (rv : res value) (rest : str)
  (from_string : bool) : eres :=
  match rv with
  | Ok v =>
      let i1 := with_tok_rest info T_VALUE rest in
      if noeval info then (st1, Ok (d_none, i1))
      else
        match (if from_string then expr_parse_string (as_str v) else expr_parse_value v) with
        | Ok d => (st1, Ok (d, i1))
        | Err e => (st1, Err e)
        | Panic q => (st1, Panic q)
        | Fuel => (st1, Fuel)
        end
  | Err e => (st1, Err e)
  | Panic q => (st1, Panic q)
  | Fuel => (st1, Fuel)
  end.

Section Unfold.
Variable ia ib : char -> bool.
Variable exec : executor.
Variable original : str.

Local Notation GV := (expr_get_value ia ib exec original).
Local Notation LOOP := (expr_loop ia ib exec original).
Local Notation LEX := (expr_lex ia ib exec original).
Local Notation MF := (expr_math_func ia ib exec original).

(* the first operand of expr_get_value: (value, info, "the next operator was already lexed") *)
Definition gv_first (f : nat) (st1 : interp) (v0 : datum) (i1 : einfo)
  : interp * res (datum * einfo * bool) :=
  if e_token i1 =? T_OPEN_PAREN then
    match GV f st1 i1 (-1) with
    | (st2, Ok (v, i2)) =>
        if e_token i2 =? T_CLOSE_PAREN then (st2, Ok (v, i2, false))
        else (st2, err (lit "unmatched parentheses in expression """ ++ original ++ lit """"))
    | (st2, Err e) => (st2, Err e)
    | (st2, Panic p) => (st2, Panic p)
    | (st2, Fuel) => (st2, Fuel)
    end
  else
    let tok := unary_tok i1 in
    if T_UNARY_MINUS <=? tok then
      match GV f st1 (with_token i1 tok) (prec tok) with
      | (st2, Ok (v, i2)) =>
          if noeval i2 then (st2, Ok (v, i2, true))
          else
            match unary_apply tok v with
            | Ok v' => (st2, Ok (v', i2, true))
            | Err e => (st2, Err e)
            | Panic p => (st2, Panic p)
            | Fuel => (st2, Fuel)
            end
      | (st2, Err e) => (st2, Err e)
      | (st2, Panic p) => (st2, Panic p)
      | (st2, Fuel) => (st2, Fuel)
      end
    else if negb (tok =? T_VALUE) then (st1, syntax_error original)
    else (st1, Ok (v0, i1, false)).

Lemma expr_get_value_S f st info pr :
  GV (S f) st info pr =
  match LEX f st info with
  | (st1, Ok (v0, i1)) =>
      match gv_first f st1 v0 i1 with
      | (st2, Ok (v, i2, got_op)) =>
          if got_op then LOOP f st2 i2 pr v
          else
            match LEX f st2 i2 with
            | (st3, Ok (_, i3)) => LOOP f st3 i3 pr v
            | (st3, Err e) => (st3, Err e)
            | (st3, Panic p) => (st3, Panic p)
            | (st3, Fuel) => (st3, Fuel)
            end
      | (st2, Err e) => (st2, Err e)
      | (st2, Panic p) => (st2, Panic p)
      | (st2, Fuel) => (st2, Fuel)
      end
  | (st1, Err e) => (st1, Err e)
  | (st1, Panic p) => (st1, Panic p)
  | (st1, Fuel) => (st1, Fuel)
  end.
Proof. reflexivity. Qed.

(* what expr_loop does once both operands of [op] are known *)
Definition loop_after (f : nat) (op : Z) (pr : Z) (st2 : interp) (i2 : einfo) (v1 v2 : datum) : eres :=
  if bad_after_token i2 then (st2, syntax_error original)
  else if noeval i2 then LOOP f st2 i2 pr v1
  else
    match apply_binop op v1 v2 with
    | Ok v' => LOOP f st2 i2 pr v'
    | Err e => (st2, Err e)
    | Panic p => (st2, Panic p)
    | Fuel => (st2, Fuel)
    end.

(* an ordinary (both operands evaluated) binary operator *)
Definition loop_plain (f : nat) (st : interp) (info : einfo) (pr : Z) (v : datum) : eres :=
  match GV f st info (prec (e_token info)) with
  | (st2, Ok (v2, i2)) => loop_after f (e_token info) pr st2 i2 v v2
  | (st2, Err e) => (st2, Err e)
  | (st2, Panic p) => (st2, Panic p)
  | (st2, Fuel) => (st2, Fuel)
  end.

(* the short-circuit case of && and ||: the right operand is parsed in no-eval mode *)
Definition loop_skip_right (f : nat) (st : interp) (info : einfo) (pr : Z) (result : datum) : eres :=
  match GV f st (with_noeval info (e_noeval info + 1)) (prec (e_token info)) with
  | (st2, Ok (_, i2)) => LOOP f st2 (with_noeval i2 (e_noeval i2 - 1)) pr result
  | (st2, Err e) => (st2, Err e)
  | (st2, Panic p) => (st2, Panic p)
  | (st2, Fuel) => (st2, Fuel)
  end.

Definition pq : Z := prec T_QUESTY - 1.

(* c ? x : y with c true: x is evaluated, y is parsed in no-eval mode *)
Definition loop_questy_true (f : nat) (st : interp) (info : einfo) (pr : Z) : eres :=
  match GV f st info pq with
  | (st2, Ok (va, i2)) =>
      if negb (e_token i2 =? T_COLON) then (st2, syntax_error original)
      else
        match GV f st2 (with_noeval i2 (e_noeval i2 + 1)) pq with
        | (st3, Ok (vb, i3)) =>
            loop_after f (e_token info) pr st3 (with_noeval i3 (e_noeval i3 - 1)) va vb
        | (st3, Err e) => (st3, Err e)
        | (st3, Panic p) => (st3, Panic p)
        | (st3, Fuel) => (st3, Fuel)
        end
  | (st2, Err e) => (st2, Err e)
  | (st2, Panic p) => (st2, Panic p)
  | (st2, Fuel) => (st2, Fuel)
  end.

(* c ? x : y with c false: x is parsed in no-eval mode, y is evaluated *)
Definition loop_questy_false (f : nat) (st : interp) (info : einfo) (pr : Z) : eres :=
  match GV f st (with_noeval info (e_noeval info + 1)) pq with
  | (st2, Ok (vb, i2)) =>
      let i2' := with_noeval i2 (e_noeval i2 - 1) in
      if negb (e_token i2' =? T_COLON) then (st2, syntax_error original)
      else
        match GV f st2 i2' pq with
        | (st3, Ok (va, i3)) => loop_after f (e_token info) pr st3 i3 va vb
        | (st3, Err e) => (st3, Err e)
        | (st3, Panic p) => (st3, Panic p)
        | (st3, Fuel) => (st3, Fuel)
        end
  | (st2, Err e) => (st2, Err e)
  | (st2, Panic p) => (st2, Panic p)
  | (st2, Fuel) => (st2, Fuel)
  end.

Lemma expr_loop_S f st info pr v :
  LOOP (S f) st info pr v =
  let op := e_token info in
  if (op <? T_MULT) || (T_UNARY_MINUS <=? op) then
    if (op =? T_END) || (op =? T_CLOSE_PAREN) || (op =? T_COMMA) then (st, Ok (v, info))
    else (st, syntax_error original)
  else if prec op <=? pr then (st, Ok (v, info))
  else if (op =? T_AND) || (op =? T_OR) || (op =? T_QUESTY) then
    match conv_left info v with
    | Ok (DInt x) =>
        if ((op =? T_AND) && (x =? 0)) || ((op =? T_OR) && negb (x =? 0)) then
          loop_skip_right f st info pr (if op =? T_OR then DInt 1 else DInt x)
        else if op =? T_QUESTY then
          if negb (x =? 0) then loop_questy_true f st info pr
          else loop_questy_false f st info pr
        else
          match GV f st info (prec op) with
          | (st2, Ok (v2, i2)) => loop_after f op pr st2 i2 (DInt x) v2
          | (st2, Err e) => (st2, Err e)
          | (st2, Panic p) => (st2, Panic p)
          | (st2, Fuel) => (st2, Fuel)
          end
    | Ok _ => (st, Panic (lit "expr_loop: conversion"))
    | Err e => (st, Err e)
    | Panic p => (st, Panic p)
    | Fuel => (st, Fuel)
    end
  else loop_plain f st info pr v.
Proof. reflexivity. Qed.

Lemma expr_lex_S f st info :
  LEX (S f) st info =
  let p := skip_while is_whitespace (e_rest info) in
  match p with
  | [] => (st, Ok (d_none, with_tok_rest info T_END p))
  | c :: r =>
      match lex_number info p c with
      | Some r0 => (st, r0)
      | None =>
          let value_of := lex_value_of info in
          if N.eqb c c_dollar then
            match r with
            | d :: _ =>
                if is_varname_char ia d || N.eqb d c_lbrace then
                  lift_p st (parse_varname ia (parse_fuel r) parse_bt r)
                    (fun w rest =>
                       if noeval info then value_of st (Ok v_empty) rest false
                       else let '(st1, rv) := eval_word exec st w in value_of st1 rv rest false)
                else (st, err (lit "invalid character ""$"""))
            | [] => (st, err (lit "invalid character ""$"""))
            end
          else if N.eqb c c_lbracket then
            lift_p st (parse_script ia (parse_fuel r) true r [])
              (fun sc rest =>
                 let '(st1, rv) := if noeval info then (st, Ok v_empty) else eval_script exec st sc in
                 match rv with
                 | Ok v =>
                     match rest with
                     | x :: rest' => if N.eqb x c_rbracket then value_of st1 (Ok v) rest' false
                                     else (st1, err (lit "missing close-bracket"))
                     | [] => (st1, err (lit "missing close-bracket"))
                     end
                 | other => value_of st1 other rest false
                 end)
          else if N.eqb c c_dquote then
            lift_p st (parse_quoted ia (parse_fuel r) parse_bt false r tk_new)
              (fun w rest =>
                 if noeval info then value_of st (Ok v_empty) rest true
                 else let '(st1, rv) := eval_word exec st w in value_of st1 rv rest true)
          else if N.eqb c c_lbrace then
            lift_p st (parse_braced_string p)
              (fun w rest =>
                 match w with
                 | WValue s => value_of st (Ok (VStr s)) rest true
                 | _ => (st, Panic (lit "parse_and_eval_braced_word: unreachable"))
                 end)
          else
            match lex_operator p with
            | Some (tok, rest) => (st, Ok (d_none, with_tok_rest info tok rest))
            | None =>
                if ib c then
                  let isw := fun x => ib x || is_digit10 x in
                  let name := take_while isw p in
                  let rest := skip_while isw p in
                  let i1 := with_rest info rest in
                  if str_eqb name (lit "true") || str_eqb name (lit "yes") || str_eqb name (lit "on")
                  then (st, Ok (DInt 1, with_token i1 T_VALUE))
                  else if str_eqb name (lit "false") || str_eqb name (lit "no") || str_eqb name (lit "off")
                  then (st, Ok (DInt 0, with_token i1 T_VALUE))
                  else if str_eqb name (lit "eq") then (st, Ok (d_none, with_token i1 T_STRING_EQ))
                  else if str_eqb name (lit "ne") then (st, Ok (d_none, with_token i1 T_STRING_NE))
                  else if str_eqb name (lit "in") then (st, Ok (d_none, with_token i1 T_IN))
                  else if str_eqb name (lit "ni") then (st, Ok (d_none, with_token i1 T_NI))
                  else MF f st i1 name
                else (st, Ok (d_none, with_tok_rest info T_UNKNOWN r))
            end
      end
  end.
Proof. reflexivity. Qed.

Lemma expr_math_func_S f st info name :
  MF (S f) st info name =
  if negb (expr_find_func name) then (st, err (lit "unknown math function """ ++ name ++ lit """"))
  else
    match LEX f st info with
    | (st1, Ok (_, i1)) =>
        if negb (e_token i1 =? T_OPEN_PAREN) then (st1, syntax_error original)
        else
          match GV f st1 i1 (-1) with
          | (st2, Ok (arg, i2)) =>
              if negb (noeval i2) && is_string arg then
                (st2, err (lit "argument to math function didn't have numeric value"))
              else if e_token i2 =? T_CLOSE_PAREN then
                let i3 := with_token i2 T_VALUE in
                if noeval i2 then (st2, Ok (d_none, i3))
                else
                  match call_func name arg with
                  | Ok d => (st2, Ok (d, i3))
                  | Err e => (st2, Err e)
                  | Panic q => (st2, Panic q)
                  | Fuel => (st2, Fuel)
                  end
              else if e_token i2 =? T_COMMA then (st2, err (lit "too many arguments for math function"))
              else (st2, syntax_error original)
          | (st2, Err e) => (st2, Err e)
          | (st2, Panic p) => (st2, Panic p)
          | (st2, Fuel) => (st2, Fuel)
          end
    | (st1, Err e) => (st1, Err e)
    | (st1, Panic p) => (st1, Panic p)
    | (st1, Fuel) => (st1, Fuel)
    end.
Proof. reflexivity. Qed.

End Unfold.

(* ---------- the no-eval invariant ---------- *)

(* the no-eval counter of a successful result is the one we started with *)
Definition ctr_ok (info : einfo) (r : res (datum * einfo)) : Prop :=
  match r with Ok (_, i') => e_noeval i' = e_noeval info | _ => True end.

(* two runs (different executors, different states) of the same no-eval parse: each returns its
   own state untouched, the results are equal, the counter is preserved *)
Definition agree (info : einfo) (st1 st2 : interp) (a b : eres) : Prop :=
  fst a = st1 /\ fst b = st2 /\ snd a = snd b /\ ctr_ok info (snd a).

Lemma agree_ctr info info' st1 st2 a b :
  agree info st1 st2 a b -> e_noeval info = e_noeval info' -> agree info' st1 st2 a b.
Proof.
  intros (H1 & H2 & H3 & H4) He. repeat split; try assumption.
  destruct (snd a) as [[d i]| | |]; cbn [ctr_ok] in *; congruence.
Qed.

Ltac ne_tac :=
  unfold noeval in *; cbn [e_noeval e_token with_noeval with_token with_tok_rest with_rest] in *; lia.

(* a leaf: both runs return their own state and the same state-independent result *)
Ltac fin :=
  unfold agree; cbn [fst snd];
  repeat split; try reflexivity;
  unfold syntax_error, illegal_type, err; cbn [ctr_ok]; try exact I; ne_tac.

(* rewrite every [noeval i] in the goal whose truth follows from the hypotheses *)
Ltac kill_noeval :=
  repeat match goal with
         | |- context [noeval ?i] =>
             let H := fresh "Hn" in
             assert (H : noeval i = true) by ne_tac; rewrite !H; clear H
         end.

(* destruct the scrutinee of an innermost match of the goal *)
Ltac bm :=
  match goal with
  | |- context [match ?x with _ => _ end] =>
      lazymatch x with
      | context [match _ with _ => _ end] => fail
      | _ => destruct x; cbv beta iota
      end
  end.

Ltac split_call t1 t2 pf :=
  let Hag := fresh "Hag" in
  pose proof pf as Hag;
  let sa := fresh "sa" in let ra := fresh "ra" in
  let sb := fresh "sb" in let rb := fresh "rb" in
  let Ha := fresh "Ha" in let Hb := fresh "Hb" in let Hc := fresh "Hc" in let Hd := fresh "Hd" in
  let d := fresh "d" in let i' := fresh "i'" in
  destruct t1 as [sa ra]; destruct t2 as [sb rb];
  destruct Hag as (Ha & Hb & Hc & Hd); cbn [fst snd] in Ha, Hb, Hc, Hd;
  subst sa sb rb;
  destruct ra as [[d i']| | |]; cbn [ctr_ok] in Hd; cbv beta iota.

Section NoEval.
Variable ia ib : char -> bool.
Variable original : str.
Variable exec1 exec2 : executor.

Local Notation GV e := (expr_get_value ia ib e original).
Local Notation LOOP e := (expr_loop ia ib e original).
Local Notation LEX e := (expr_lex ia ib e original).
Local Notation MF e := (expr_math_func ia ib e original).

Definition GV_inv (f : nat) : Prop := forall st1 st2 info pr, noeval info = true ->
  agree info st1 st2 (GV exec1 f st1 info pr) (GV exec2 f st2 info pr).
Definition LOOP_inv (f : nat) : Prop := forall st1 st2 info pr v, noeval info = true ->
  agree info st1 st2 (LOOP exec1 f st1 info pr v) (LOOP exec2 f st2 info pr v).
Definition LEX_inv (f : nat) : Prop := forall st1 st2 info, noeval info = true ->
  agree info st1 st2 (LEX exec1 f st1 info) (LEX exec2 f st2 info).
Definition MF_inv (f : nat) : Prop := forall st1 st2 info name, noeval info = true ->
  agree info st1 st2 (MF exec1 f st1 info name) (MF exec2 f st2 info name).

Ltac step_gv IHg :=
  match goal with
  | |- context [expr_get_value ia ib exec1 original ?f ?s1 ?i ?pr] =>
    match goal with
    | |- context [expr_get_value ia ib exec2 original f ?s2 i pr] =>
      split_call (GV exec1 f s1 i pr) (GV exec2 f s2 i pr) (IHg s1 s2 i pr ltac:(ne_tac))
    end
  end.
Ltac step_lex IHl :=
  match goal with
  | |- context [expr_lex ia ib exec1 original ?f ?s1 ?i] =>
    match goal with
    | |- context [expr_lex ia ib exec2 original f ?s2 i] =>
      split_call (LEX exec1 f s1 i) (LEX exec2 f s2 i) (IHl s1 s2 i ltac:(ne_tac))
    end
  end.
Ltac tail_loop IHo := eapply agree_ctr; [apply IHo; ne_tac | ne_tac].

Lemma lex_step f : MF_inv f -> LEX_inv (S f).
Proof.
  intros IHm st1 st2 info Hne.
  rewrite !expr_lex_S. unfold lex_value_of, lex_number, lift_p, err. rewrite !Hne.
  cbv beta iota zeta.
  (* no recursive call is the scrutinee of a match here: the two sides differ only in the state
     they return and in the final call of expr_math_func *)
  repeat bm; first [ solve [fin] | eapply agree_ctr; [apply IHm; ne_tac | ne_tac] ].
Qed.

(* destruct an innermost match scrutinee that does not involve a recursive call *)
Ltac bm_safe :=
  match goal with
  | |- context [match ?x with _ => _ end] =>
      lazymatch x with
      | context [match _ with _ => _ end] => fail
      | context [exec1] => fail
      | context [exec2] => fail
      | _ => destruct x; cbv beta iota
      end
  end.

Ltac go IHg IHl :=
  unfold syntax_error, err;
  repeat first [ progress kill_noeval | bm_safe | step_gv IHg | step_lex IHl ].

Lemma mf_step f : GV_inv f -> LEX_inv f -> MF_inv (S f).
Proof.
  intros IHg IHl st1 st2 info name Hne.
  rewrite !expr_math_func_S. cbv zeta.
  go IHg IHl; fin.
Qed.

Lemma gv_step f : GV_inv f -> LOOP_inv f -> LEX_inv f -> GV_inv (S f).
Proof.
  intros IHg IHo IHl st1 st2 info pr Hne.
  rewrite !expr_get_value_S. unfold gv_first. cbv zeta.
  go IHg IHl; first [ solve [fin] | tail_loop IHo ].
Qed.

Lemma loop_step f : GV_inv f -> LOOP_inv f -> LOOP_inv (S f).
Proof.
  intros IHg IHo st1 st2 info pr v Hne.
  rewrite !expr_loop_S.
  unfold conv_left, loop_skip_right, loop_questy_true, loop_questy_false, loop_plain, loop_after,
    d_bool.
  cbv zeta.
  go IHg IHg; first [ solve [fin] | tail_loop IHo ].
Qed.

Lemma noeval_inv : forall f, GV_inv f /\ LOOP_inv f /\ LEX_inv f /\ MF_inv f.
Proof.
  induction f as [|f (IHg & IHo & IHl & IHm)].
  - split; [|split; [|split]]; intros ? **; cbn [expr_get_value expr_loop expr_lex expr_math_func];
      fin.
  - assert (Hl : LEX_inv (S f)) by (apply lex_step; assumption).
    split; [|split; [|split]].
    + apply gv_step; assumption.
    + apply loop_step; assumption.
    + exact Hl.
    + apply mf_step; assumption.
Qed.

End NoEval.

(* ---------- theorem 1: no-eval mode preserves the state and the counter ---------- *)

Section Main.
Variable ia ib : char -> bool.
Variable original : str.

Local Notation GV e := (expr_get_value ia ib e original).
Local Notation LOOP e := (expr_loop ia ib e original).
Local Notation LEX e := (expr_lex ia ib e original).
Local Notation MF e := (expr_math_func ia ib e original).

Lemma agree_unchanged info st a st' r :
  agree info st st a a -> a = (st', r) ->
  st' = st /\ (forall v info', r = Ok (v, info') -> e_noeval info' = e_noeval info).
Proof.
  intros (H1 & _ & _ & H4) ->. cbn [fst snd] in *. split; [assumption|].
  intros v info' ->. exact H4.
Qed.

Theorem noeval_state_unchanged : forall exec fuel st info pr st' r,
  noeval info = true ->
  GV exec fuel st info pr = (st', r) ->
  st' = st /\ (forall v info', r = Ok (v, info') -> e_noeval info' = e_noeval info).
Proof.
  intros exec fuel st info pr st' r Hne. apply agree_unchanged.
  apply (noeval_inv ia ib original exec exec fuel); assumption.
Qed.

Theorem noeval_state_unchanged_loop : forall exec fuel st info pr v0 st' r,
  noeval info = true ->
  LOOP exec fuel st info pr v0 = (st', r) ->
  st' = st /\ (forall v info', r = Ok (v, info') -> e_noeval info' = e_noeval info).
Proof.
  intros exec fuel st info pr v0 st' r Hne. apply agree_unchanged.
  apply (noeval_inv ia ib original exec exec fuel); assumption.
Qed.

Theorem noeval_state_unchanged_lex : forall exec fuel st info st' r,
  noeval info = true ->
  LEX exec fuel st info = (st', r) ->
  st' = st /\ (forall v info', r = Ok (v, info') -> e_noeval info' = e_noeval info).
Proof.
  intros exec fuel st info st' r Hne. apply agree_unchanged.
  apply (noeval_inv ia ib original exec exec fuel); assumption.
Qed.

Theorem noeval_state_unchanged_math_func : forall exec fuel st info name st' r,
  noeval info = true ->
  MF exec fuel st info name = (st', r) ->
  st' = st /\ (forall v info', r = Ok (v, info') -> e_noeval info' = e_noeval info).
Proof.
  intros exec fuel st info name st' r Hne. apply agree_unchanged.
  apply (noeval_inv ia ib original exec exec fuel); assumption.
Qed.

(* ---------- theorem 2: the result depends neither on the executor nor on the state ---------- *)

Theorem noeval_independent : forall exec1 exec2 fuel st1 st2 info pr,
  noeval info = true ->
  snd (GV exec1 fuel st1 info pr) = snd (GV exec2 fuel st2 info pr).
Proof.
  intros exec1 exec2 fuel st1 st2 info pr Hne.
  apply (noeval_inv ia ib original exec1 exec2 fuel); assumption.
Qed.

Theorem noeval_independent_loop : forall exec1 exec2 fuel st1 st2 info pr v,
  noeval info = true ->
  snd (LOOP exec1 fuel st1 info pr v) = snd (LOOP exec2 fuel st2 info pr v).
Proof.
  intros exec1 exec2 fuel st1 st2 info pr v Hne.
  apply (noeval_inv ia ib original exec1 exec2 fuel); assumption.
Qed.

Theorem noeval_independent_lex : forall exec1 exec2 fuel st1 st2 info,
  noeval info = true ->
  snd (LEX exec1 fuel st1 info) = snd (LEX exec2 fuel st2 info).
Proof.
  intros exec1 exec2 fuel st1 st2 info Hne.
  apply (noeval_inv ia ib original exec1 exec2 fuel); assumption.
Qed.

Theorem noeval_independent_math_func : forall exec1 exec2 fuel st1 st2 info name,
  noeval info = true ->
  snd (MF exec1 fuel st1 info name) = snd (MF exec2 fuel st2 info name).
Proof.
  intros exec1 exec2 fuel st1 st2 info name Hne.
  apply (noeval_inv ia ib original exec1 exec2 fuel); assumption.
Qed.

(* "never calls the command executor": an executor that traps as soon as it is called is
   never observed *)
Definition trap_exec : executor := fun st _ _ => (st, Panic (lit "executor called in no-eval mode")).

Corollary noeval_never_executes : forall exec fuel st info pr,
  noeval info = true ->
  GV exec fuel st info pr = (st, snd (GV trap_exec fuel st info pr)).
Proof.
  intros exec fuel st info pr Hne.
  destruct (GV exec fuel st info pr) as [st' r] eqn:E.
  destruct (noeval_state_unchanged _ _ _ _ _ _ _ Hne E) as [-> _].
  f_equal. change r with (snd (st, r)). rewrite <- E. apply noeval_independent; assumption.
Qed.

(* the four claims together, as one statement *)
Theorem noeval_all : forall exec1 exec2 fuel st1 st2 info, noeval info = true ->
  (forall pr, agree info st1 st2 (GV exec1 fuel st1 info pr) (GV exec2 fuel st2 info pr)) /\
  (forall pr v, agree info st1 st2 (LOOP exec1 fuel st1 info pr v) (LOOP exec2 fuel st2 info pr v)) /\
  agree info st1 st2 (LEX exec1 fuel st1 info) (LEX exec2 fuel st2 info) /\
  (forall name, agree info st1 st2 (MF exec1 fuel st1 info name) (MF exec2 fuel st2 info name)).
Proof.
  intros exec1 exec2 fuel st1 st2 info Hne.
  destruct (noeval_inv ia ib original exec1 exec2 fuel) as (Hg & Ho & Hl & Hm).
  split; [|split; [|split]]; intros; [apply Hg | apply Ho | apply Hl | apply Hm]; assumption.
Qed.

End Main.

Print Assumptions noeval_state_unchanged.
Print Assumptions noeval_independent.
Print Assumptions noeval_all.
(* The axioms listed above are exactly those of the model function itself (they come from the
   Reals library underneath Flocq, used by Model/Float.v); the proofs in this file add none. *)
Print Assumptions expr_get_value.

(* ---------- lemma 3: the short-circuit branches of expr_loop use no-eval mode ---------- *)

(* the truth value expr_loop assigns to the left operand of && || ?: *)
Definition datum_truth (v : datum) : option bool :=
  match v with
  | DInt z => Some (negb (z =? 0))
  | DFlt x => Some (negb (f_is_zero x))
  | DStr _ => None
  end.

Lemma conv_left_truth info v b :
  datum_truth v = Some b ->
  exists x, conv_left info v = Ok (DInt x) /\ negb (x =? 0) = b /\ (b = false -> x = 0).
Proof.
  destruct v as [z|x|s]; cbn [datum_truth conv_left]; intros H; inversion H as [Hb]; clear H.
  - exists z. repeat split. lia.
  - unfold d_bool. destruct (negb (f_is_zero x)).
    + exists 1. repeat split. discriminate.
    + exists 0. repeat split.
Qed.

Section ShortCircuit.
Variable ia ib : char -> bool.
Variable exec : executor.
Variable original : str.

Local Notation GV := (expr_get_value ia ib exec original).
Local Notation LOOP := (expr_loop ia ib exec original).

Lemma prec_and : prec T_AND = 4. Proof. reflexivity. Qed.
Lemma prec_or : prec T_OR = 3. Proof. reflexivity. Qed.
Lemma prec_questy : prec T_QUESTY = 2. Proof. reflexivity. Qed.

(* a && b with a false: b is parsed with the no-eval counter incremented, the counter is then
   decremented, and the value of the conjunction is 0 *)
Lemma and_short_circuit f st info pr v :
  e_token info = T_AND -> pr < prec T_AND -> datum_truth v = Some false ->
  LOOP (S f) st info pr v =
  match GV f st (with_noeval info (e_noeval info + 1)) (prec T_AND) with
  | (st2, Ok (_, i2)) => LOOP f st2 (with_noeval i2 (e_noeval i2 - 1)) pr (DInt 0)
  | (st2, Err e) => (st2, Err e)
  | (st2, Panic p) => (st2, Panic p)
  | (st2, Fuel) => (st2, Fuel)
  end.
Proof.
  intros Hop Hpr Hv. rewrite expr_loop_S. cbv zeta. unfold loop_skip_right. rewrite Hop.
  destruct (conv_left_truth info v false Hv) as (x & -> & Hx & Hx0). rewrite (Hx0 eq_refl).
  rewrite prec_and in *.
  replace (4 <=? pr) with false by lia.
  reflexivity.
Qed.

(* a || b with a true: b is parsed in no-eval mode and the value of the disjunction is 1 *)
Lemma or_short_circuit f st info pr v :
  e_token info = T_OR -> pr < prec T_OR -> datum_truth v = Some true ->
  LOOP (S f) st info pr v =
  match GV f st (with_noeval info (e_noeval info + 1)) (prec T_OR) with
  | (st2, Ok (_, i2)) => LOOP f st2 (with_noeval i2 (e_noeval i2 - 1)) pr (DInt 1)
  | (st2, Err e) => (st2, Err e)
  | (st2, Panic p) => (st2, Panic p)
  | (st2, Fuel) => (st2, Fuel)
  end.
Proof.
  intros Hop Hpr Hv. rewrite expr_loop_S. cbv zeta. unfold loop_skip_right. rewrite Hop.
  destruct (conv_left_truth info v true Hv) as (x & -> & Hx & _).
  rewrite prec_or in *.
  replace (3 <=? pr) with false by lia.
  replace (x =? 0) with false by (destruct (x =? 0); [discriminate|reflexivity]).
  reflexivity.
Qed.

(* when && and || do not short-circuit, the right operand is evaluated with the counter as is *)
Lemma and_no_short_circuit f st info pr v :
  e_token info = T_AND -> pr < prec T_AND -> datum_truth v = Some true ->
  exists x, x <> 0 /\
  LOOP (S f) st info pr v =
  match GV f st info (prec T_AND) with
  | (st2, Ok (v2, i2)) => loop_after ia ib exec original f T_AND pr st2 i2 (DInt x) v2
  | (st2, Err e) => (st2, Err e)
  | (st2, Panic p) => (st2, Panic p)
  | (st2, Fuel) => (st2, Fuel)
  end.
Proof.
  intros Hop Hpr Hv. rewrite expr_loop_S. cbv zeta. rewrite Hop.
  destruct (conv_left_truth info v true Hv) as (x & -> & Hx & _).
  exists x. split; [intros ->; discriminate|].
  rewrite prec_and in *.
  replace (4 <=? pr) with false by lia.
  replace (x =? 0) with false by (destruct (x =? 0); [discriminate|reflexivity]).
  reflexivity.
Qed.

Lemma or_no_short_circuit f st info pr v :
  e_token info = T_OR -> pr < prec T_OR -> datum_truth v = Some false ->
  LOOP (S f) st info pr v =
  match GV f st info (prec T_OR) with
  | (st2, Ok (v2, i2)) => loop_after ia ib exec original f T_OR pr st2 i2 (DInt 0) v2
  | (st2, Err e) => (st2, Err e)
  | (st2, Panic p) => (st2, Panic p)
  | (st2, Fuel) => (st2, Fuel)
  end.
Proof.
  intros Hop Hpr Hv. rewrite expr_loop_S. cbv zeta. rewrite Hop.
  destruct (conv_left_truth info v false Hv) as (x & -> & Hx & Hx0). rewrite (Hx0 eq_refl).
  rewrite prec_or in *.
  replace (3 <=? pr) with false by lia.
  reflexivity.
Qed.

(* c ? x : y with c true: x is evaluated with the counter as is, then y is parsed with the
   counter incremented *)
Lemma questy_true f st info pr v :
  e_token info = T_QUESTY -> pr < prec T_QUESTY -> datum_truth v = Some true ->
  LOOP (S f) st info pr v =
  match GV f st info pq with
  | (st2, Ok (va, i2)) =>
      if negb (e_token i2 =? T_COLON) then (st2, syntax_error original)
      else
        match GV f st2 (with_noeval i2 (e_noeval i2 + 1)) pq with
        | (st3, Ok (vb, i3)) =>
            loop_after ia ib exec original f T_QUESTY pr st3 (with_noeval i3 (e_noeval i3 - 1)) va vb
        | (st3, Err e) => (st3, Err e)
        | (st3, Panic p) => (st3, Panic p)
        | (st3, Fuel) => (st3, Fuel)
        end
  | (st2, Err e) => (st2, Err e)
  | (st2, Panic p) => (st2, Panic p)
  | (st2, Fuel) => (st2, Fuel)
  end.
Proof.
  intros Hop Hpr Hv. rewrite expr_loop_S. cbv zeta. unfold loop_questy_true. rewrite Hop.
  destruct (conv_left_truth info v true Hv) as (x & -> & Hx & _).
  rewrite prec_questy in *.
  replace (2 <=? pr) with false by lia.
  rewrite Hx.
  reflexivity.
Qed.

(* c ? x : y with c false: x is parsed with the counter incremented, then y is evaluated with
   the counter as it was *)
Lemma questy_false f st info pr v :
  e_token info = T_QUESTY -> pr < prec T_QUESTY -> datum_truth v = Some false ->
  LOOP (S f) st info pr v =
  match GV f st (with_noeval info (e_noeval info + 1)) pq with
  | (st2, Ok (vb, i2)) =>
      let i2' := with_noeval i2 (e_noeval i2 - 1) in
      if negb (e_token i2' =? T_COLON) then (st2, syntax_error original)
      else
        match GV f st2 i2' pq with
        | (st3, Ok (va, i3)) => loop_after ia ib exec original f T_QUESTY pr st3 i3 va vb
        | (st3, Err e) => (st3, Err e)
        | (st3, Panic p) => (st3, Panic p)
        | (st3, Fuel) => (st3, Fuel)
        end
  | (st2, Err e) => (st2, Err e)
  | (st2, Panic p) => (st2, Panic p)
  | (st2, Fuel) => (st2, Fuel)
  end.
Proof.
  intros Hop Hpr Hv. rewrite expr_loop_S. cbv zeta. unfold loop_questy_false. rewrite Hop.
  destruct (conv_left_truth info v false Hv) as (x & -> & Hx & _).
  rewrite prec_questy in *.
  replace (2 <=? pr) with false by lia.
  rewrite Hx.
  reflexivity.
Qed.

(* the value of c ? x : y is the value of the evaluated branch *)
Lemma loop_after_questy f pr st2 i2 va vb :
  noeval i2 = false ->
  loop_after ia ib exec original f T_QUESTY pr st2 i2 va vb =
  if bad_after_token i2 then (st2, syntax_error original) else LOOP f st2 i2 pr va.
Proof. intros Hn. unfold loop_after. rewrite Hn. reflexivity. Qed.

End ShortCircuit.

(* ---------- corollary: the state that flows on is the state after the required operands ---------- *)

Section Skips.
Variable ia ib : char -> bool.
Variable exec : executor.
Variable original : str.

Local Notation GV := (expr_get_value ia ib exec original).
Local Notation LOOP := (expr_loop ia ib exec original).

Ltac skip_call E Hc :=
  match goal with
  | |- context [expr_get_value ia ib exec original ?f ?s (with_noeval ?i (e_noeval ?i + 1)) ?p] =>
      let st2 := fresh "st2" in let r := fresh "r" in
      destruct (GV f s (with_noeval i (e_noeval i + 1)) p) as [st2 r] eqn:E;
      apply noeval_state_unchanged in E; [|ne_tac];
      destruct E as [-> Hc]; cbn [snd]
  end.

Lemma dec_inc (n : N) : (n + 1 - 1)%N = n. Proof. lia. Qed.

(* In [a && b] with [a] false (value [v], state [st] after evaluating [a]) the operand [b] is only
   parsed: an error of that parse is returned in state [st]; otherwise the rest of the expression
   is processed from state [st] itself, with value 0 and the counter as it was.  By
   [noeval_independent] the scrutinee depends neither on [exec] nor on [st]. *)
Corollary and_skips_right f st info pr v :
  e_token info = T_AND -> pr < prec T_AND -> datum_truth v = Some false ->
  LOOP (S f) st info pr v =
  match snd (GV f st (with_noeval info (e_noeval info + 1)) (prec T_AND)) with
  | Ok (_, i2) => LOOP f st (with_noeval i2 (e_noeval info)) pr (DInt 0)
  | Err e => (st, Err e)
  | Panic p => (st, Panic p)
  | Fuel => (st, Fuel)
  end.
Proof.
  intros Hop Hpr Hv. rewrite and_short_circuit by assumption.
  skip_call E Hc. destruct r as [[d i2]| | |]; try reflexivity.
  rewrite (Hc _ _ eq_refl). cbn [e_noeval with_noeval]. rewrite dec_inc. reflexivity.
Qed.

Corollary or_skips_right f st info pr v :
  e_token info = T_OR -> pr < prec T_OR -> datum_truth v = Some true ->
  LOOP (S f) st info pr v =
  match snd (GV f st (with_noeval info (e_noeval info + 1)) (prec T_OR)) with
  | Ok (_, i2) => LOOP f st (with_noeval i2 (e_noeval info)) pr (DInt 1)
  | Err e => (st, Err e)
  | Panic p => (st, Panic p)
  | Fuel => (st, Fuel)
  end.
Proof.
  intros Hop Hpr Hv. rewrite or_short_circuit by assumption.
  skip_call E Hc. destruct r as [[d i2]| | |]; try reflexivity.
  rewrite (Hc _ _ eq_refl). cbn [e_noeval with_noeval]. rewrite dec_inc. reflexivity.
Qed.

(* [c ? x : y] with [c] true: [x] is evaluated (state [st2]); [y] is only parsed, and everything
   after it happens in state [st2] *)
Corollary questy_true_skips_else f st info pr v :
  e_token info = T_QUESTY -> pr < prec T_QUESTY -> datum_truth v = Some true ->
  LOOP (S f) st info pr v =
  match GV f st info pq with
  | (st2, Ok (va, i2)) =>
      if negb (e_token i2 =? T_COLON) then (st2, syntax_error original)
      else
        match snd (GV f st2 (with_noeval i2 (e_noeval i2 + 1)) pq) with
        | Ok (vb, i3) =>
            loop_after ia ib exec original f T_QUESTY pr st2 (with_noeval i3 (e_noeval i2)) va vb
        | Err e => (st2, Err e)
        | Panic p => (st2, Panic p)
        | Fuel => (st2, Fuel)
        end
  | (st2, Err e) => (st2, Err e)
  | (st2, Panic p) => (st2, Panic p)
  | (st2, Fuel) => (st2, Fuel)
  end.
Proof.
  intros Hop Hpr Hv. rewrite questy_true by assumption.
  destruct (GV f st info pq) as [st2 [[va i2]| | |]]; try reflexivity.
  destruct (negb (e_token i2 =? T_COLON)); [reflexivity|].
  skip_call E Hc. destruct r as [[vb i3]| | |]; try reflexivity.
  rewrite (Hc _ _ eq_refl). cbn [e_noeval with_noeval]. rewrite dec_inc. reflexivity.
Qed.

(* [c ? x : y] with [c] false: [x] is only parsed, and [y] is evaluated from the state [st] the
   condition left behind *)
Corollary questy_false_skips_then f st info pr v :
  e_token info = T_QUESTY -> pr < prec T_QUESTY -> datum_truth v = Some false ->
  LOOP (S f) st info pr v =
  match snd (GV f st (with_noeval info (e_noeval info + 1)) pq) with
  | Ok (vb, i2) =>
      let i2' := with_noeval i2 (e_noeval info) in
      if negb (e_token i2' =? T_COLON) then (st, syntax_error original)
      else
        match GV f st i2' pq with
        | (st3, Ok (va, i3)) => loop_after ia ib exec original f T_QUESTY pr st3 i3 va vb
        | (st3, Err e) => (st3, Err e)
        | (st3, Panic p) => (st3, Panic p)
        | (st3, Fuel) => (st3, Fuel)
        end
  | Err e => (st, Err e)
  | Panic p => (st, Panic p)
  | Fuel => (st, Fuel)
  end.
Proof.
  intros Hop Hpr Hv. rewrite questy_false by assumption.
  skip_call E Hc. destruct r as [[vb i2]| | |]; try reflexivity.
  rewrite (Hc _ _ eq_refl). cbn [e_noeval with_noeval]. rewrite dec_inc. reflexivity.
Qed.

End Skips.

Print Assumptions and_skips_right.
Print Assumptions or_skips_right.
Print Assumptions questy_true_skips_else.
Print Assumptions questy_false_skips_then.

(* ---------- the same on the complete interpreter, by computation ---------- *)
From Molt Require Import Model.Commands Model.Unicode Model.Interp Check.ScriptObs.

(* [rec] is the harness' recording command: its calls are visible in [i_trace] *)
Definition run_expr (s : string) : list (list str) * res value :=
  let '(st, r) := expr std_uni 100 (harness_interp 0) (VStr (lit s)) in (i_trace st, r).

Example skipped_command_not_run :
  run_expr "0 && [rec x]" = ([], Ok (VInt 0)) /\
  run_expr "1 || [rec x]" = ([], Ok (VInt 1)) /\
  run_expr "1 ? 7 : [rec x]" = ([], Ok (VInt 7)) /\
  run_expr "0 ? [rec x] : 8" = ([], Ok (VInt 8)) /\
  run_expr "1 || $nosuch + [nosuchcmd] / 0" = ([], Ok (VInt 1)).
Proof. vm_compute. repeat split. Qed.

Example required_command_run :
  fst (run_expr "1 && [rec x]") = [[lit "rec"; lit "x"]] /\
  fst (run_expr "0 ? [rec a] : [rec b]") = [[lit "rec"; lit "b"]].
Proof. vm_compute. repeat split. Qed.

(* parse errors of a skipped operand are still reported *)
Example skipped_syntax_error :
  match snd (run_expr "0 && [rec x") with
  | Err e => as_str (x_value e) = lit "missing close-bracket"
  | _ => False
  end.
Proof. vm_compute. reflexivity. Qed.
