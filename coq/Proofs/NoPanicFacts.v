(* NoPanicFacts.v — C01: evaluation is total: no script can crash the host.

   Every Rust panic site the code can reach is the explicit outcome [Panic site] of the model.
   From a well-formed interpreter state, evaluation never produces [Panic], and it keeps the
   state well formed (whenever the model does not run out of fuel).  Same shape as
   Proofs/CtlFacts.v: a generic induction over the whole interpreter. *)
From Molt Require Import Model.Base Model.Tokenizer Model.ListSyn Model.Float Model.Value
  Model.State Model.Script Model.Parser Model.Eval Model.Expr Model.Commands Model.Harness Model.Unicode
  Model.Interp.
From Molt Require Import Spec.SpecVars Proofs.ScopeFacts Proofs.NoEvalFacts Proofs.CtlFacts.
From Molt Require Proofs.ListAsCommandFacts.
From Molt Require Gen.SrcFacts.
From Molt Require Check.ScriptObs.
From Coq Require Import Lia ZifyBool ZifyN.

Arguments N.eqb : simpl never.
Arguments N.leb : simpl never.
Arguments N.ltb : simpl never.
Arguments Z.eqb : simpl never.
Arguments Z.leb : simpl never.
Arguments Z.ltb : simpl never.

Local Open Scope N_scope.

(* ====================================================================== *)
(* 1. the invariant on exceptions                                          *)
(* ====================================================================== *)

(* An exception in flight never has code Okay; an Error carries its error data; and so does a
   Return that will become an Error (the third clause is what makes the invariant survive
   decrement_level); its level fits a usize (it comes from [level_of_int] and only decreases:
   this is what makes the -level entry of the options dictionary read back as the same level). *)
Definition exn_ok (e : exn) : Prop :=
  x_code e <> COkay /\
  (x_code e = CError -> x_data e <> None) /\
  (x_code e = CReturn -> x_next e = CError -> x_data e <> None) /\
  x_level e < 2 ^ 64.

Definition no_panic {A} (r : res A) : Prop := forall p, r <> Panic p.

(* a result that is not a panic and whose exception, if any, is well formed *)
Definition rgood {A} (r : res A) : Prop :=
  match r with
  | Ok _ => True
  | Err e => exn_ok e
  | Panic _ => False
  | Fuel => True
  end.

Lemma rgood_no_panic {A} (r : res A) : rgood r -> no_panic r.
Proof. intros H p E. subst r. exact H. Qed.

Lemma exn_ok_molt_err_v m : exn_ok (molt_err_v m).
Proof. unfold exn_ok, molt_err_v. cbn. repeat split; intros; try discriminate; reflexivity. Qed.
Lemma exn_ok_molt_err m : exn_ok (molt_err m).
Proof. apply exn_ok_molt_err_v. Qed.
Lemma exn_ok_molt_err2 c m : exn_ok (molt_err2 c m).
Proof. unfold exn_ok, molt_err2. cbn. repeat split; intros; try discriminate; reflexivity. Qed.
Lemma exn_ok_break : exn_ok molt_break.
Proof. unfold exn_ok, molt_break. cbn. repeat split; intros; try discriminate; reflexivity. Qed.
Lemma exn_ok_continue : exn_ok molt_continue.
Proof. unfold exn_ok, molt_continue. cbn. repeat split; intros; try discriminate; reflexivity. Qed.

Lemma level_of_int_lt z : level_of_int z < 2 ^ 64.
Proof.
  unfold level_of_int. pose proof (Z.mod_pos_bound z (2 ^ 64)%Z ltac:(lia)) as B.
  change (2 ^ 64) with (Z.to_N (2 ^ 64)). lia.
Qed.

Lemma exn_ok_return_err m l ec ei : l < 2 ^ 64 -> exn_ok (molt_return_err m l ec ei).
Proof.
  intros Hl. unfold exn_ok, molt_return_err. cbn [x_code x_data x_next x_level].
  destruct (l =? 0); repeat split; intros; try discriminate; exact Hl.
Qed.

Lemma exn_ok_return_ext v l c :
  l < 2 ^ 64 -> rcode_eqb c CError = false -> (l =? 0) && rcode_eqb c COkay = false ->
  exn_ok (molt_return_ext v l c).
Proof.
  intros Hl H1 H2. unfold exn_ok, molt_return_ext.
  destruct (l =? 0) eqn:El.
  - apply N.eqb_eq in El. subst l.
    destruct c; cbn in H1, H2; try discriminate; cbn [andb rcode_eqb];
      change (0 <? 1) with true; change (0 <? 0) with false; cbn [x_code x_data x_next x_level];
      repeat split; intros; try discriminate; reflexivity.
  - cbn [andb]. cbn [x_code x_data x_next x_level].
    assert (Hl0 : (0 <? l) = true) by lia. rewrite Hl0.
    repeat split; intros; try discriminate; try exact Hl. subst c. discriminate.
Qed.

Lemma exn_ok_return_plain v : exn_ok (molt_return_ext v 1 COkay).
Proof. apply exn_ok_return_ext; reflexivity. Qed.

Lemma exn_ok_add_info e line : exn_ok e -> exn_ok (add_error_info e line).
Proof.
  unfold exn_ok, add_error_info. cbn [x_code x_data x_next x_level]. intros (H1 & H2 & H3 & H4).
  repeat split; [exact H1| | |exact H4]; intros; destruct (x_data e) eqn:E; try discriminate.
  - now apply H2.
  - now apply H3.
Qed.

(* decrement_level may produce an Okay "exception"; its callers test for that at once *)
Lemma decrement_level_ok e :
  exn_ok e -> x_code e = CReturn ->
  x_code (decrement_level e) = COkay \/ exn_ok (decrement_level e).
Proof.
  intros (H1 & H2 & H3 & H4) Hc. unfold decrement_level.
  destruct (x_level e - 1 =? 0).
  - destruct (rcode_eqb (x_next e) CReturn) eqn:En.
    + right. unfold exn_ok. cbn. repeat split; intros; try discriminate; reflexivity.
    + destruct (x_next e) eqn:Ex; cbn in En; try discriminate.
      * left. reflexivity.
      * right. unfold exn_ok. cbn [x_code x_data x_next x_level]. repeat split; intros; try discriminate; try reflexivity.
        apply H3; [exact Hc|reflexivity].
      * right. unfold exn_ok. cbn [x_code x_data x_next x_level]. repeat split; intros; try discriminate; reflexivity.
      * right. unfold exn_ok. cbn [x_code x_data x_next x_level]. repeat split; intros; try discriminate; reflexivity.
      * right. unfold exn_ok. cbn [x_code x_data x_next x_level]. repeat split; intros; try discriminate; reflexivity.
  - right. unfold exn_ok. cbn [x_code x_data x_next x_level]. repeat split; intros; auto. lia.
Qed.

Lemma rgood_err {A} m : rgood (@err A m).
Proof. apply exn_ok_molt_err. Qed.
Lemma rgood_of_sum {A} (r : str + A) : rgood (of_sum r).
Proof. destruct r; cbn; [apply exn_ok_molt_err|exact I]. Qed.

(* ====================================================================== *)
(* 2. well-formed interpreter states                                       *)
(* ====================================================================== *)

(* a parameter specifier the binder can read: a list of one or two fields *)
Definition parm_ok (p : value) : Prop :=
  match v_as_list p with
  | inr [_] | inr [_; _] => True
  | _ => False
  end.

(* the native commands the model implements *)
Definition modelled (n : native) : bool :=
  match n with
  | NTime | NSource | NExit | NParse | NPdump | NPclear => false
  | _ => true
  end.

Definition tbl_all (P : command -> Prop) (cmds : list (str * command)) : Prop :=
  forall name c, In (name, c) cmds -> P c.

Definition proc_ok (c : command) : Prop :=
  match c with CmdProc parms _ => Forall parm_ok parms | _ => True end.
Definition native_ok (c : command) : Prop :=
  match c with CmdNative n _ => modelled n = true | _ => True end.

Definition procs_ok := tbl_all proc_ok.
Definition modelled_only := tbl_all native_ok.

Definition cmd_ok (c : command) : Prop := proc_ok c /\ native_ok c.

(* No condition on the context map is needed: add_context_command (the only function that can
   meet an unknown context id) is not called by any command; see add_context_command_good. *)
Definition wf_state (st : interp) : Prop :=
  scope_inv (i_scopes st) /\ procs_ok (i_cmds st) /\ modelled_only (i_cmds st).

Lemma wf_scopes st : wf_state st -> scope_inv (i_scopes st).
Proof. intros H. apply H. Qed.

Lemma wf_scopes_nonempty st : wf_state st -> (1 <= length (i_scopes st))%nat.
Proof. intros ((Hne & _) & _). destruct (i_scopes st); [contradiction|cbn; lia]. Qed.

Lemma tbl_all_get P cmds name c : tbl_all P cmds -> assoc_get name cmds = Some c -> P c.
Proof. intros H E. apply assoc_get_In in E. exact (H _ _ E). Qed.

Lemma wf_lookup st name c : wf_state st -> assoc_get name (i_cmds st) = Some c -> cmd_ok c.
Proof. intros (_ & H1 & H2) E. split; eapply tbl_all_get; eassumption. Qed.

Lemma tbl_all_set P cmds name c : tbl_all P cmds -> P c -> tbl_all P (assoc_set name c cmds).
Proof.
  intros H Hc n c' Hin. apply In_assoc_set in Hin. destruct Hin as [[_ ->]|Hin]; [exact Hc|].
  exact (H _ _ Hin).
Qed.

Lemma tbl_all_remove P cmds name : tbl_all P cmds -> tbl_all P (assoc_remove name cmds).
Proof. intros H n c' Hin. apply In_assoc_remove in Hin. exact (H _ _ Hin). Qed.

Lemma wf_set_scopes st ss : wf_state st -> scope_inv ss -> wf_state (set_scopes st ss).
Proof. intros (H1 & H2 & H3) H. split; [exact H|split; assumption]. Qed.
Lemma wf_set_cmds st c : wf_state st -> procs_ok c -> modelled_only c -> wf_state (set_cmds st c).
Proof. intros (H1 & H2 & H3) Ha Hb. split; [exact H1|split; assumption]. Qed.
Lemma wf_set_ctx st c l : wf_state st -> wf_state (set_ctx st c l).
Proof. intros H. exact H. Qed.
Lemma wf_set_trace st t : wf_state st -> wf_state (set_trace st t).
Proof. intros H. exact H. Qed.
Lemma wf_set_test st t : wf_state st -> wf_state (set_test st t).
Proof. intros H. exact H. Qed.
Lemma wf_set_levels st n : wf_state st -> wf_state (set_levels st n).
Proof. intros H. exact H. Qed.
Lemma wf_set_limit st n : wf_state st -> wf_state (set_limit st n).
Proof. intros H. exact H. Qed.

(* ====================================================================== *)
(* 3. the predicate on monadic computations, and the proof engine          *)
(* ====================================================================== *)

(* [m] did not panic, its exception (if any) is well formed, and unless the model ran out of
   fuel its final state is well formed (also when the outcome is an error) *)
Definition good {A} (m : interp * res A) : Prop :=
  rgood (snd m) /\ (snd m <> Fuel -> wf_state (fst m)).

(* the same for the scope-stack primitives; they keep the invariant unconditionally *)
Definition sgood {A} (m : scopes * res A) : Prop :=
  rgood (snd m) /\ scope_inv (fst m).

Lemma good_ok {A} st (a : A) : wf_state st -> good (st, Ok a).
Proof. intros H. split; [exact I|intros _; exact H]. Qed.
Lemma good_err {A} st e : wf_state st -> exn_ok e -> good (st, @Err A e).
Proof. intros H He. split; [exact He|intros _; exact H]. Qed.
Lemma good_fuel {A} st : good (st, @Fuel A).
Proof. split; [exact I|intros H; now elim H]. Qed.
Lemma good_res {A} st (r : res A) : wf_state st -> rgood r -> good (st, r).
Proof. intros H Hr. split; [exact Hr|intros _; exact H]. Qed.

Lemma good_ok_inv {A} st (a : A) : good (st, Ok a) -> wf_state st.
Proof. intros [_ H]. apply H. discriminate. Qed.
Lemma good_err_inv {A} st e : good (st, @Err A e) -> wf_state st /\ exn_ok e.
Proof. intros [He H]. split; [apply H; discriminate|exact He]. Qed.
Lemma good_panic_inv {A} st p : good (st, @Panic A p) -> False.
Proof. intros [H _]. exact H. Qed.

Definition exec_np (exec : executor) : Prop :=
  forall st cmd argv, wf_state st -> cmd_ok cmd -> good (exec st cmd argv).

Definition rec_np (rec : recfns) : Prop :=
  (forall st v, wf_state st -> good (r_eval rec st v)) /\
  (forall st e, wf_state st -> good (r_expr rec st e)).

Create HintDb wf.
Create HintDb exn.
Create HintDb rgood.
Create HintDb sgood.
Create HintDb np.

#[local] Hint Resolve wf_set_scopes wf_set_ctx wf_set_trace wf_set_test wf_set_levels wf_set_limit
  wf_scopes : wf.
#[local] Hint Resolve exn_ok_molt_err_v exn_ok_molt_err exn_ok_molt_err2 exn_ok_break exn_ok_continue
  exn_ok_return_err exn_ok_return_plain exn_ok_add_info level_of_int_lt : exn.
#[local] Hint Resolve rgood_err rgood_of_sum : rgood.

Ltac is_M X :=
  let T := type of X in
  let T' := eval hnf in T in
  lazymatch T' with
  | prod interp (res _) => idtac
  end.
Ltac is_S X :=
  let T := type of X in
  let T' := eval hnf in T in
  lazymatch T' with
  | prod scopes (res _) => idtac
  | prod (list scope) (res _) => idtac
  | prod (list (list (prod str var))) (res _) => idtac
  end.
Ltac is_R X :=
  let T := type of X in
  let T' := eval hnf in T in
  lazymatch T' with
  | res _ => idtac
  end.

Ltac np_red :=
  cbv beta iota zeta delta [bind ret fail lift lift_sum ok_empty st_set_var_return
                            loop_body_outcome lift_p].

(* what to try on an impossible (Panic) leaf; redefined locally where a panic site is excluded
   by an argument about the context *)
Ltac np_contra := fail.

Ltac np_wf := solve [eauto 6 with wf].
Ltac np_exn := solve [cbn [rgood]; eauto 6 with exn].

Ltac np_leaf :=
  lazymatch goal with
  | |- good (_, Ok _) => try (apply good_ok; np_wf)
  | |- good (_, Err _) => try (apply good_err; [np_wf | np_exn])
  | |- good (_, err _) => try (apply good_err; [np_wf | np_exn])
  | |- good (_, Fuel) => apply good_fuel
  | |- good (_, Panic _) => try solve [exfalso; np_contra]
  | |- good (_, _) => try (apply good_res; [np_wf | solve [eauto 6 with rgood exn]])
  end.

Ltac np_tac :=
  np_red;
  lazymatch goal with
  | |- good (?st, ?r) => np_leaf
  | |- good (match ?X with _ => _ end) =>
      tryif is_M X then
        (let P := fresh "P" in
         assert (P : good X);
         [ np_tac
         | let st1 := fresh "st" in
           let r1 := fresh "r" in
           revert P; generalize X; intros [st1 r1] P;
           destruct r1;
           [ apply good_ok_inv in P
           | apply good_err_inv in P; destruct P as [P ?]
           | exfalso; exact (good_panic_inv _ _ P)
           | clear P ];
           np_tac ])
      else tryif is_S X then
        (let P := fresh "P" in
         assert (P : sgood X);
         [ try solve [eauto 6 with sgood wf]
         | let ss1 := fresh "ss" in
           let r1 := fresh "r" in
           let P1 := fresh "P" in
           revert P; generalize X; intros [ss1 r1] [P1 P]; cbn [fst snd] in P1, P;
           destruct r1; [ | | exfalso; exact P1 | ]; cbn [rgood] in P1;
           np_tac ])
      else tryif is_R X then
        (let P := fresh "P" in
         assert (P : rgood X);
         [ try solve [eauto 6 with rgood exn]
         | destruct X eqn:?; [ | | exfalso; exact P | ]; cbn [rgood] in P;
           np_tac ])
      else (destruct X eqn:?; np_tac)
  | |- good _ => try solve [eauto 6 with np wf]
  end.

(* ====================================================================== *)
(* 4. the scope stack: no "unreachable" under the invariant               *)
(* ====================================================================== *)

Lemma sc_get_good ss n : scope_inv ss -> rgood (sc_get ss n).
Proof.
  intros H. rewrite (sc_get_by_shape ss n H). destruct (shape_of ss n); cbn; auto with exn.
Qed.

Lemma sc_get_elem_good ss n i : scope_inv ss -> rgood (sc_get_elem ss n i).
Proof.
  intros H. rewrite (sc_get_elem_by_shape ss n i H).
  destruct (shape_of ss n); [| |destruct (assoc_get i m)]; cbn; auto with exn.
Qed.

Lemma sc_set_sgood ss n v : scope_inv ss -> sgood (sc_set ss n v).
Proof.
  intros H. split; [|apply sc_set_inv; exact H].
  pose proof (shape_entry ss n H) as He. unfold sc_set, sc_set_at.
  fold (ent ss (sc_target ss n) n). destruct (shape_of ss n); rewrite He; cbn; auto with exn.
Qed.

Lemma sc_set_global_sgood ss n v : scope_inv ss -> sgood (sc_set_global ss n v).
Proof.
  intros H. split; [|apply sc_set_global_inv; exact H].
  unfold sc_set_global, sc_set_at. fold (ent ss 0 n).
  destruct (ent ss 0 n) as [[w|m|l|]|] eqn:E; cbn; auto with exn.
  destruct (inv_link _ _ _ _ H E) as [Hlt _]. lia.
Qed.

Lemma sc_set_elem_sgood ss n i v : scope_inv ss -> sgood (sc_set_elem ss n i v).
Proof.
  intros H. split; [|apply sc_set_elem_inv; exact H].
  pose proof (shape_entry ss n H) as He. unfold sc_set_elem.
  fold (ent ss (sc_target ss n) n). destruct (shape_of ss n); rewrite He; cbn; auto with exn.
Qed.

Lemma sc_array_set_sgood ss n kv : scope_inv ss -> sgood (sc_array_set ss n kv).
Proof.
  intros H. split; [|apply sc_array_set_inv; exact H].
  pose proof (shape_entry ss n H) as He. unfold sc_array_set.
  fold (ent ss (sc_target ss n) n). destruct (shape_of ss n); rewrite He; cbn; auto with exn.
Qed.

#[local] Hint Resolve sc_set_sgood sc_set_global_sgood sc_set_elem_sgood sc_array_set_sgood : sgood.
#[local] Hint Resolve sc_unset_inv sc_array_unset_inv sc_unset_element_inv : wf.

Lemma st_scalar_good st n : wf_state st -> rgood (st_scalar st n).
Proof. intros H. apply sc_get_good. apply H. Qed.
Lemma st_element_good st n i : wf_state st -> rgood (st_element st n i).
Proof. intros H. apply sc_get_elem_good. apply H. Qed.
Lemma st_var_good st n : wf_state st -> rgood (st_var st n).
Proof.
  intros H. unfold st_var. destruct (as_var_name n) as [a [i|]];
    [apply st_element_good|apply st_scalar_good]; exact H.
Qed.
#[local] Hint Resolve st_scalar_good st_element_good st_var_good : rgood.

Lemma st_set_scalar_good st n v : wf_state st -> good (st_set_scalar st n v).
Proof. intros H. unfold st_set_scalar. np_tac. Qed.
Lemma st_set_element_good st n i v : wf_state st -> good (st_set_element st n i v).
Proof. intros H. unfold st_set_element. np_tac. Qed.
#[local] Hint Resolve st_set_scalar_good st_set_element_good : np.

Lemma st_set_var_good st n v : wf_state st -> good (st_set_var st n v).
Proof. intros H. unfold st_set_var. np_tac. Qed.
#[local] Hint Resolve st_set_var_good : np.

Lemma st_unset_var_wf st n : wf_state st -> wf_state (st_unset_var st n).
Proof. intros H. unfold st_unset_var. destruct (as_var_name n) as [a [i|]]; eauto with wf. Qed.
#[local] Hint Resolve st_unset_var_wf : wf.

(* ====================================================================== *)
(* 5. the command table                                                    *)
(* ====================================================================== *)

Lemma release_binding_wf st n : wf_state st -> wf_state (release_binding st n).
Proof.
  intros H. unfold release_binding.
  destruct (assoc_get n (i_cmds st)) as [[k ctx|]|]; try assumption.
  destruct (ctx =? 0); eauto with wf.
Qed.
#[local] Hint Resolve release_binding_wf : wf.

Lemma release_binding_cmds st n : i_cmds (release_binding st n) = i_cmds st.
Proof.
  unfold release_binding. destruct (assoc_get n (i_cmds st)) as [[k ctx|]|]; try reflexivity.
  destruct (ctx =? 0); reflexivity.
Qed.

Lemma add_proc_wf st n p b : wf_state st -> Forall parm_ok p -> wf_state (add_proc st n p b).
Proof.
  intros H Hp. unfold add_proc. apply wf_set_cmds; [eauto with wf| |];
    rewrite release_binding_cmds; apply tbl_all_set; try apply H; [exact Hp|exact I].
Qed.

Lemma rename_command_wf st a b : wf_state st -> wf_state (rename_command st a b).
Proof.
  intros H. unfold rename_command. destruct (assoc_get a (i_cmds st)) as [c|] eqn:E; [|exact H].
  destruct (wf_lookup _ _ _ H E) as [Hc1 Hc2].
  assert (H1 : wf_state (set_cmds st (assoc_remove a (i_cmds st)))).
  { apply wf_set_cmds; [exact H| |]; apply tbl_all_remove; apply H. }
  apply wf_set_cmds; [eauto with wf| |]; rewrite release_binding_cmds; apply tbl_all_set;
    try apply H1; assumption.
Qed.
#[local] Hint Resolve rename_command_wf : wf.

Lemma remove_command_good st n : has_command st n = true -> wf_state st -> good (remove_command st n).
Proof.
  intros Hh H. unfold remove_command. unfold has_command in Hh.
  destruct (assoc_get n (i_cmds st)) as [c|]; [|discriminate].
  np_red. apply good_ok. apply wf_set_cmds; [eauto with wf| |]; rewrite release_binding_cmds;
    apply tbl_all_remove; apply H.
Qed.

(* add_context_command is not reachable from any command (the harness calls it directly); it
   cannot panic when the context id is live *)
Lemma add_context_command_good st name n ctx :
  wf_state st -> modelled n = true -> (ctx <> 0 -> ctx_get (i_ctx st) ctx <> None) ->
  good (add_context_command st name n ctx).
Proof.
  intros H Hn Hc. unfold add_context_command. destruct (ctx =? 0) eqn:E.
  - np_red. apply good_ok. apply wf_set_cmds; [eauto with wf| |]; rewrite release_binding_cmds;
      apply tbl_all_set; try apply H; [exact I|exact Hn].
  - destruct (ctx_get (i_ctx st) ctx) eqn:Eg; [|exfalso; apply Hc; [lia|reflexivity]].
    np_red. apply good_ok. apply wf_set_cmds; [eauto with wf| |]; rewrite release_binding_cmds;
      apply tbl_all_set; try apply H; [exact I|exact Hn].
Qed.

(* ---------- check_args ---------- *)

Lemma check_args_raw_good a b c sig argv : rgood (check_args_raw a b c sig argv).
Proof. unfold check_args_raw. destruct (_ || _); cbn; auto with exn. Qed.

Lemma check_args_good name argv : args_spec name <> None -> rgood (check_args name argv).
Proof.
  intros H. unfold check_args. destruct (args_spec name) as [[[[a b] c] sig]|]; [|now elim H].
  apply check_args_raw_good.
Qed.

Lemma check_subcommand_good argv : rgood (check_subcommand argv).
Proof. apply check_args_raw_good. Qed.

#[local] Hint Resolve check_args_raw_good check_subcommand_good : rgood.
#[local] Hint Extern 1 (rgood (check_args _ _)) =>
  (apply check_args_good; vm_compute; discriminate) : rgood.

(* the minimum count a successful check guarantees *)
Lemma check_args_min name argv a b c sig :
  args_spec name = Some (a, b, c, sig) -> check_args name argv = Ok tt ->
  (Z.to_nat b <= length argv)%nat.
Proof.
  intros E. unfold check_args. rewrite E. unfold check_args_raw.
  destruct (Nat.ltb (length argv) (Z.to_nat b)) eqn:L; cbn [orb]; [discriminate|].
  intros _. apply PeanoNat.Nat.ltb_ge in L. exact L.
Qed.

(* ====================================================================== *)
(* 6. commands that do not evaluate scripts                                *)
(* ====================================================================== *)

Ltac cmd_np f := intros st argv H; unfold f; np_tac.

Lemma cmd_append_np : forall st argv, wf_state st -> good (cmd_append st argv).
Proof. cmd_np cmd_append. Qed.
Lemma cmd_array_np : forall st argv, wf_state st -> good (cmd_array st argv).
Proof. cmd_np cmd_array. Qed.
Lemma cmd_assert_eq_np : forall st argv, wf_state st -> good (cmd_assert_eq st argv).
Proof. cmd_np cmd_assert_eq. Qed.
Lemma cmd_break_np : forall st argv, wf_state st -> good (cmd_break st argv).
Proof. cmd_np cmd_break. Qed.
Lemma cmd_continue_np : forall st argv, wf_state st -> good (cmd_continue st argv).
Proof. cmd_np cmd_continue. Qed.
Lemma cmd_error_np : forall st argv, wf_state st -> good (cmd_error st argv).
Proof. cmd_np cmd_error. Qed.
Lemma cmd_join_np : forall st argv, wf_state st -> good (cmd_join st argv).
Proof. cmd_np cmd_join. Qed.
Lemma cmd_lappend_np : forall st argv, wf_state st -> good (cmd_lappend st argv).
Proof. cmd_np cmd_lappend. Qed.
Lemma cmd_list_np : forall st argv, wf_state st -> good (cmd_list st argv).
Proof. cmd_np cmd_list. Qed.
Lemma cmd_llength_np : forall st argv, wf_state st -> good (cmd_llength st argv).
Proof. cmd_np cmd_llength. Qed.
Lemma cmd_puts_np : forall st argv, wf_state st -> good (cmd_puts st argv).
Proof. cmd_np cmd_puts. Qed.
Lemma cmd_set_np : forall st argv, wf_state st -> good (cmd_set st argv).
Proof. cmd_np cmd_set. Qed.
Lemma cmd_throw_np : forall st argv, wf_state st -> good (cmd_throw st argv).
Proof. cmd_np cmd_throw. Qed.
Lemma cmd_recorder_np : forall st argv, wf_state st -> good (cmd_recorder st argv).
Proof. cmd_np cmd_recorder. Qed.
Lemma cmd_ident_np : forall st argv, wf_state st -> good (cmd_ident st argv).
Proof. cmd_np cmd_ident. Qed.
Lemma cmd_incr_np : forall st argv, wf_state st -> good (cmd_incr st argv).
Proof. cmd_np cmd_incr. Qed.
Lemma cmd_global_np : forall st argv, wf_state st -> good (cmd_global st argv).
Proof.
  cmd_np cmd_global. apply good_ok. apply wf_set_scopes; [exact H|].
  apply sc_upvar_global_fold_inv; [apply H|]. apply PeanoNat.Nat.ltb_lt. assumption.
Qed.

Lemma lindex_into_good idx : forall v, rgood (lindex_into v idx).
Proof.
  induction idx as [|i r IH]; intros v; cbn [lindex_into]; [exact I|].
  destruct (v_as_list v) as [m|l]; [apply rgood_err|].
  destruct (v_as_int i) as [m|z]; [apply rgood_err|].
  destruct (_ || _); apply IH.
Qed.
#[local] Hint Resolve lindex_into_good : rgood.

Lemma cmd_lindex_np : forall st argv, wf_state st -> good (cmd_lindex st argv).
Proof. cmd_np cmd_lindex. Qed.

Lemma return_options_parse_good l : forall o, rgood (return_options_parse l o).
Proof.
  induction l as [l IH] using (well_founded_induction (Wf_nat.well_founded_ltof _ (@length value))).
  intros o. destruct l as [|k [|v r]]; cbn [return_options_parse]; try exact I.
  assert (IH' : forall o, rgood (return_options_parse r o)).
  { apply IH. unfold Wf_nat.ltof. cbn [length]. lia. }
  destruct (str_eqb (as_str k) (lit "-code")).
  { destruct (rcode_from_str (as_str v)); [apply IH'|apply rgood_err]. }
  destruct (str_eqb (as_str k) (lit "-errorcode")); [apply IH'|].
  destruct (str_eqb (as_str k) (lit "-errorinfo")); [apply IH'|].
  destruct (str_eqb (as_str k) (lit "-level")); [|apply rgood_err].
  destruct (v_as_int v); [apply rgood_err|apply IH'].
Qed.
#[local] Hint Resolve return_options_parse_good : rgood.
#[local] Hint Resolve exn_ok_return_ext : exn.

Lemma cmd_return_np : forall st argv, wf_state st -> good (cmd_return st argv).
Proof. cmd_np cmd_return. Qed.


Lemma cmd_rename_np : forall st argv, wf_state st -> good (cmd_rename st argv).
Proof.
  intros st argv H. unfold cmd_rename. np_tac.
  - apply remove_command_good; [|exact H]. destruct (has_command st (as_str (arg argv 1))); [reflexivity|discriminate].
Qed.

(* the specifier check of cmd_proc *)
Definition proc_bad : list value -> res unit :=
  fix go (l : list value) : res unit :=
    match l with
    | [] => Ok tt
    | a :: r =>
        match v_as_list a with
        | inl m => err m
        | inr [] => err (lit "argument with no name")
        | inr (_ :: _ :: _ :: _) =>
            err (lit "too many fields in argument specifier """ ++ as_str a ++ lit """")
        | inr _ => go r
        end
    end.

Lemma proc_bad_good l : rgood (proc_bad l) /\ (forall u, proc_bad l = Ok u -> Forall parm_ok l).
Proof.
  induction l as [|a r [IH1 IH2]]; cbn [proc_bad].
  - split; [exact I|intros; constructor].
  - fold proc_bad. unfold parm_ok at 1.
    destruct (v_as_list a) as [m|[|x [|y [|z t]]]] eqn:E;
      try (split; [apply rgood_err|intros u Hu; discriminate]).
    + split; [exact IH1|]. intros u Hu. constructor; [unfold parm_ok; rewrite E; exact I|eauto].
    + split; [exact IH1|]. intros u Hu. constructor; [unfold parm_ok; rewrite E; exact I|eauto].
Qed.

Lemma cmd_proc_np : forall st argv, wf_state st -> good (cmd_proc st argv).
Proof.
  intros st argv H. unfold cmd_proc. np_tac.
  - match goal with |- rgood (_ ?l) => exact (proj1 (proc_bad_good l)) end.
  - apply good_ok. apply add_proc_wf; [exact H|].
    match goal with E : _ = Ok ?u |- Forall parm_ok ?l => exact (proj2 (proc_bad_good l) u E) end.
Qed.

Lemma cmd_info_np U : forall st argv, wf_state st -> good (cmd_info U st argv).
Proof.
  intros st argv H. unfold cmd_info. np_tac.
  assert (Hp : Forall parm_ok parms).
  { match goal with E : assoc_get _ (i_cmds st) = Some _ |- _ =>
      exact (proj1 (wf_lookup _ _ _ H E)) end. }
  clear - Hp. induction Hp as [|p r Hp _ IH]; [exact I|].
  unfold parm_ok in Hp. destruct (v_as_list p) as [m|[|x [|y [|z t]]]]; try contradiction.
  - destruct (str_eqb _ _); [exact I|exact IH].
  - destruct (str_eqb _ _); [exact I|exact IH].
Qed.

Lemma compare_options_good sub l : forall o, rgood (compare_options sub l o).
Proof.
  induction l as [l IH] using (well_founded_induction (Wf_nat.well_founded_ltof _ (@length value))).
  intros o. destruct l as [|k r]; cbn [compare_options]; [exact I|].
  destruct (str_eqb (as_str k) (lit "-nocase")).
  { apply IH. unfold Wf_nat.ltof. cbn [length]. lia. }
  destruct (str_eqb (as_str k) (lit "-length")); [|apply rgood_err].
  destruct r as [|v r']; [apply rgood_err|].
  destruct (v_as_int v); [apply rgood_err|]. apply IH. unfold Wf_nat.ltof. cbn [length]. lia.
Qed.
#[local] Hint Resolve compare_options_good : rgood.

Lemma string_compare_np U sub : forall st argv, wf_state st -> good (string_compare U sub st argv).
Proof. cmd_np string_compare. Qed.
#[local] Hint Resolve string_compare_np : np.

Lemma cmd_string_np U : forall st argv, wf_state st -> good (cmd_string U st argv).
Proof. cmd_np cmd_string. Qed.

Lemma cmd_unset_np : forall st argv, wf_state st -> good (cmd_unset st argv).
Proof.
  intros st argv H. unfold cmd_unset. np_tac.
  apply good_ok.
  match goal with
  | |- wf_state (?F st ?ll true) =>
      assert (HF : forall l0 st0 b0, wf_state st0 -> wf_state (F st0 l0 b0)); [|apply HF; exact H]
  end.
  clear. intros l. induction l as [|x l IH]; intros st b H; [assumption|].
  destruct (b && str_eqb (as_str x) (lit "--")); [apply IH; assumption|].
  destruct (b && str_eqb (as_str x) (lit "-nocomplain")); apply IH; eauto with wf.
Qed.

Lemma dict_path_insert_good keys : forall dv v, keys <> [] -> rgood (dict_path_insert dv keys v).
Proof.
  induction keys as [|k r IH]; intros dv v Hne; [now elim Hne|].
  cbn [dict_path_insert]. destruct r as [|k2 r2].
  - destruct (v_as_dict dv); [apply rgood_err|exact I].
  - destruct (v_as_dict dv) as [m|d]; [apply rgood_err|].
    match goal with |- rgood (match ?X with _ => _ end) =>
      assert (Hx : rgood X) by (apply IH; discriminate); destruct X; try exact I; exact Hx end.
Qed.

Lemma dict_path_remove_good keys : forall dv, keys <> [] -> rgood (dict_path_remove dv keys).
Proof.
  induction keys as [|k r IH]; intros dv Hne; [now elim Hne|].
  cbn [dict_path_remove]. destruct r as [|k2 r2].
  - destruct (v_as_dict dv); [apply rgood_err|exact I].
  - destruct (v_as_dict dv) as [m|d]; [apply rgood_err|].
    destruct (dict_get d k) as [sub|]; [|apply rgood_err].
    match goal with |- rgood (match ?X with _ => _ end) =>
      assert (Hx : rgood X) by (apply IH; discriminate); destruct X; try exact I; exact Hx end.
Qed.

Lemma nonempty_length {A} (l : list A) : (1 <= length l)%nat -> l <> [].
Proof. destruct l; cbn; [lia|discriminate]. Qed.

Lemma cmd_dict_np : forall st argv, wf_state st -> good (cmd_dict st argv).
Proof.
  intros st argv H. unfold cmd_dict. np_tac.
  - apply good_res; [exact H|]. generalize (arg argv 2) (skipn 3 argv). intros v ks. revert v.
    induction ks as [|k r IH]; intros v; [exact I|].
    destruct (v_as_dict v) as [m|d]; [apply rgood_err|].
    destruct (dict_get d k); [apply IH|apply rgood_err].
  - apply dict_path_insert_good. apply nonempty_length. rewrite length_removelast, skipn_length.
    match goal with E : check_args "cmd_dict_set" argv = Ok ?u |- _ =>
      destruct u; pose proof (check_args_min "cmd_dict_set" argv _ _ _ _ eq_refl E) as Hlen end.
    change (Z.to_nat 5) with 5%nat in Hlen. lia.
  - apply dict_path_remove_good. apply nonempty_length. rewrite skipn_length.
    match goal with E : check_args "cmd_dict_unset" argv = Ok ?u |- _ =>
      destruct u; pose proof (check_args_min "cmd_dict_unset" argv _ _ _ _ eq_refl E) as Hlen end.
    change (Z.to_nat 4) with 4%nat in Hlen. lia.
Qed.

(* ====================================================================== *)
(* 7. commands that evaluate scripts, for an arbitrary well-behaved [rec]  *)
(* ====================================================================== *)

Lemma return_options_good r : rgood r -> rgood (return_options r).
Proof.
  destruct r as [v|e|p|]; cbn [return_options rgood]; [intros; exact I| |intros []|intros; exact I].
  intros (H1 & H2 & H3). destruct (x_code e) eqn:E; try exact I.
  - now elim H1.
  - destruct (x_data e); [exact I|]. now elim H2.
  - destruct (x_data e); exact I.
Qed.

Section WithRecNp.
Variable U : uni.
Variable rec : recfns.
Hypothesis Hrec : rec_np rec.
Hypothesis Hctl : rec_ok rec.

Let Heval : forall st v, wf_state st -> good (r_eval rec st v) := proj1 Hrec.
Let Hexpr : forall st v, wf_state st -> good (r_expr rec st v) := proj2 Hrec.
#[local] Hint Resolve Heval Hexpr : np.

Lemma cmd_catch_np : forall st argv, wf_state st -> good (cmd_catch rec st argv).
Proof.
  intros st argv H. unfold cmd_catch. np_tac.
  - destruct (x_code e) eqn:E; try exact I. destruct H0 as [H0 _]. now elim H0.
  - apply return_options_good. assumption.
Qed.

Lemma cmd_expr_np : forall st argv, wf_state st -> good (cmd_expr rec st argv).
Proof. cmd_np cmd_expr. Qed.

Lemma expr_bool_np : forall st e, wf_state st -> good (expr_bool rec st e).
Proof. cmd_np expr_bool. Qed.
#[local] Hint Resolve expr_bool_np : np.

Lemma while_loop_np n : forall st test body, wf_state st -> good (while_loop rec n st test body).
Proof.
  induction n as [|k IH]; intros st test body H; cbn [while_loop]; np_tac.
Qed.
#[local] Hint Resolve while_loop_np : np.

Lemma cmd_while_np : forall st argv, wf_state st -> good (cmd_while rec st argv).
Proof. cmd_np cmd_while. Qed.

Lemma for_loop_np n : forall st test next body, wf_state st -> good (for_loop rec n st test next body).
Proof.
  induction n as [|k IH]; intros st test next body H; cbn [for_loop]; np_tac.
Qed.
#[local] Hint Resolve for_loop_np : np.

Lemma cmd_for_np : forall st argv, wf_state st -> good (cmd_for rec st argv).
Proof. cmd_np cmd_for. Qed.

Lemma assign_vars_np vars : forall st l, wf_state st -> good (assign_vars st vars l).
Proof.
  induction vars as [|v vs IH]; intros st l H; cbn [assign_vars]; np_tac.
Qed.
#[local] Hint Resolve assign_vars_np : np.

Lemma foreach_loop_np n : forall st vars l body, wf_state st -> good (foreach_loop rec n st vars l body).
Proof.
  induction n as [|k IH]; intros st vars l body H; cbn [foreach_loop]; np_tac.
Qed.
#[local] Hint Resolve foreach_loop_np : np.

Lemma cmd_foreach_np : forall st argv, wf_state st -> good (cmd_foreach rec st argv).
Proof. cmd_np cmd_foreach. Qed.

Lemma if_machine_np n : forall st argv argi wants, wf_state st -> good (if_machine rec n st argv argi wants).
Proof.
  induction n as [|k IH]; intros st argv argi wants H; cbn [if_machine]; np_tac.
Qed.
#[local] Hint Resolve if_machine_np : np.

Lemma cmd_if_np : forall st argv, wf_state st -> good (cmd_if rec st argv).
Proof. intros st argv H. unfold cmd_if. eauto with np. Qed.

(* Procedure::execute *)
Lemma bind_parms_np parms : Forall parm_ok parms ->
  forall st name all args, wf_state st -> good (bind_parms st name all parms args).
Proof.
  induction 1 as [|p ps Hp Hps IH]; intros st name all args H; cbn [bind_parms]; [np_tac|].
  unfold parm_ok in Hp. destruct (v_as_list p) as [m|[|x [|y [|z t]]]]; try contradiction; np_tac.
Qed.

Lemma proc_boundary_np st r :
  rgood r -> (r <> Fuel -> wf_state st) -> good (proc_boundary st r).
Proof.
  intros Hr Hw. unfold proc_boundary. destruct r as [a|e|p|].
  - apply good_ok. apply Hw. discriminate.
  - assert (H : wf_state st) by (apply Hw; discriminate). cbn [rgood] in Hr.
    assert (Hr' : exn_ok e) by exact Hr.
    destruct (x_code e) eqn:E; try (np_tac; fail).
    destruct (decrement_level_ok e Hr' E) as [D|D].
    + rewrite D. np_tac.
    + destruct (x_code (decrement_level e)); np_tac.
  - destruct Hr.
  - apply good_fuel.
Qed.

Lemma normal_of_rgood {A} (r : res A) : rgood r -> r <> Fuel -> normal r.
Proof. intros Hr Hf. split; [intros p E; subst r; exact Hr|exact Hf]. Qed.

Lemma wf_push st : wf_state st -> wf_state (push_scope st).
Proof. intros H. unfold push_scope. apply wf_set_scopes; [exact H|]. apply sc_push_inv. apply H. Qed.

(* popping the frame pushed by [push_scope st], from a state with as many frames *)
Lemma wf_pop st st' :
  wf_state st -> wf_state st' -> ctl_eq (push_scope st) st' -> wf_state (pop_scope st').
Proof.
  intros H H' (_ & Hlen & _). unfold pop_scope. apply wf_set_scopes; [exact H'|].
  apply sc_pop_inv; [apply H'|]. rewrite Hlen. unfold push_scope, sc_push. cbn [i_scopes set_scopes].
  rewrite app_length. cbn [length]. pose proof (wf_scopes_nonempty st H). lia.
Qed.

Lemma proc_execute_np : forall st parms body argv,
  wf_state st -> Forall parm_ok parms -> good (proc_execute rec st parms body argv).
Proof.
  intros st parms body argv H Hp. unfold proc_execute.
  pose proof (bind_parms_np parms Hp (push_scope st) (arg argv 0) parms (skipn 1 argv) (wf_push st H)) as P.
  pose proof (bind_parms_pres parms (push_scope st) (push_scope st) (arg argv 0) parms (skipn 1 argv)
                (ctl_eq_refl _)) as C.
  destruct (bind_parms (push_scope st) (arg argv 0) parms parms (skipn 1 argv)) as [st2 [u|e|p|]].
  - apply good_ok_inv in P. apply pres_ok_inv in C.
    pose proof (Heval st2 body P) as Q.
    pose proof (proj1 Hctl (push_scope st) st2 body C) as D.
    destruct (r_eval rec st2 body) as [st3 r]. destruct Q as [Q1 Q2]. unfold pres_M in D. cbn [fst snd] in Q1, Q2, D.
    apply proc_boundary_np; [exact Q1|]. intros Hf.
    apply (wf_pop st st3 H (Q2 Hf)). apply D. apply normal_of_rgood; assumption.
  - apply good_err_inv in P. destruct P as [P Pe]. apply pres_err_inv in C.
    apply good_err; [|exact Pe]. apply (wf_pop st st2 H P C).
  - exfalso. exact (good_panic_inv _ _ P).
  - apply good_fuel.
Qed.

(* test_harness.rs *)
Lemma incr_errors_wf st : wf_state st -> wf_state (incr_errors st).
Proof. intros H. unfold incr_errors. destruct (i_test st) as [[[t p] f] e]. apply wf_set_test. exact H. Qed.
#[local] Hint Resolve incr_errors_wf : wf.

Lemma run_test_np : forall st info, wf_state st -> good (run_test rec st info).
Proof.
  intros st info H. unfold run_test.
  (* setup *)
  pose proof (Heval (push_scope st) (VStr (ti_setup info)) (wf_push st H)) as P1.
  pose proof (proj1 Hctl (push_scope st) (push_scope st) (VStr (ti_setup info)) (ctl_eq_refl _)) as C1.
  destruct (r_eval rec (push_scope st) (VStr (ti_setup info))) as [st2 r2].
  destruct P1 as [P1a P1b]. unfold pres_M in C1. cbn [fst snd] in P1a, P1b, C1.
  assert (body : wf_state st2 -> ctl_eq (push_scope st) st2 ->
    good
      match r_eval rec st2 (VStr (ti_body info)) with
      | (st3, Panic p) => (st3, Panic p)
      | (st3, Fuel) => (st3, Fuel)
      | (st3, rbody) =>
          bind (swallow (r_eval rec st3 (VStr (ti_cleanup info))))
            (fun st4 _ =>
             let st5 := pop_scope st4 in
             let '(t, p, f, e) := i_test st5 in
             let t0 := (t + 1)%N in
             let verdict : N * N * N :=
               match rbody, ti_code info with
               | Ok out, TOk => if str_eqb (as_str out) (ti_expect info) then (1, 0, 0)%N else (0, 1, 0)%N
               | Err ex, TError =>
                   if rcode_eqb (x_code ex) CError then
                     (if str_eqb (as_str (x_value ex)) (ti_expect info) then (1, 0, 0)%N else (0, 1, 0)%N)
                   else (0, 0, 1)%N
               | _, _ => (0, 0, 1)%N
               end in
             let '(dp, df, de) := verdict in
             ret (set_test st5 (t0, (p + dp)%N, (f + df)%N, (e + de)%N)) tt)
      end).
  { intros W2 C2.
    pose proof (Heval st2 (VStr (ti_body info)) W2) as P3.
    pose proof (proj1 Hctl (push_scope st) st2 (VStr (ti_body info)) C2) as C3.
    destruct (r_eval rec st2 (VStr (ti_body info))) as [st3 rb].
    destruct P3 as [P3a P3b]. unfold pres_M in C3. cbn [fst snd] in P3a, P3b, C3.
    assert (fin : wf_state st3 -> ctl_eq (push_scope st) st3 -> forall verdict : N * N * N,
      good (bind (swallow (r_eval rec st3 (VStr (ti_cleanup info))))
            (fun st4 _ =>
             let st5 := pop_scope st4 in
             let '(t, p, f, e) := i_test st5 in
             let t0 := (t + 1)%N in
             let '(dp, df, de) := verdict in
             ret (set_test st5 (t0, (p + dp)%N, (f + df)%N, (e + de)%N)) tt))).
    { intros W3 K3 verdict.
      pose proof (Heval st3 (VStr (ti_cleanup info)) W3) as P4.
      pose proof (proj1 Hctl (push_scope st) st3 (VStr (ti_cleanup info)) K3) as C4.
      destruct (r_eval rec st3 (VStr (ti_cleanup info))) as [st4 r4].
      destruct P4 as [P4a P4b]. unfold pres_M in C4. cbn [fst snd] in P4a, P4b, C4.
      destruct r4 as [v4|e4|p4|]; cbn [swallow bind]; [| |destruct P4a|apply good_fuel].
      - destruct (i_test (pop_scope st4)) as [[[t p] f] e]. destruct verdict as [[dp df] de].
        apply good_ok. apply wf_set_test. apply (wf_pop st st4 H); [apply P4b; discriminate|].
        apply C4. split; congruence.
      - destruct (i_test (pop_scope st4)) as [[[t p] f] e]. destruct verdict as [[dp df] de].
        apply good_ok. apply wf_set_test. apply (wf_pop st st4 H); [apply P4b; discriminate|].
        apply C4. split; congruence. }
    destruct rb as [vb|eb|pb|]; [| |destruct P3a|apply good_fuel].
    - apply fin; [apply P3b; discriminate|apply C3; split; congruence].
    - apply fin; [apply P3b; discriminate|apply C3; split; congruence]. }
  destruct r2 as [v2|e2|p2|]; cbn [swallow bind]; [| |destruct P1a|apply good_fuel].
  - apply body; [apply P1b; discriminate|apply C1; split; congruence].
  - apply body; [apply P1b; discriminate|apply C1; split; congruence].
Qed.
#[local] Hint Resolve run_test_np : np.

Lemma cmd_test_np : forall st argv, wf_state st -> good (cmd_test rec st argv).
Proof.
  intros st argv H. unfold cmd_test, fancy_test, simple_test. np_tac.
Qed.

End WithRecNp.

(* ====================================================================== *)
(* 8. Eval.v: words and scripts                                            *)
(* ====================================================================== *)

(* [wok w]: WExpand occurs in [w] only as a whole word of a command of a nested script *)
Fixpoint wok (w : word) : bool :=
  match w with
  | WValue _ | WVarRef _ | WString _ => true
  | WArrayRef _ i => wok i
  | WScript cmds =>
      forallb (forallb (fun w => match w with WExpand w' => wok w' | _ => wok w end)) cmds
  | WTokens ws => forallb wok ws
  | WExpand _ => false
  end.

(* a word of a command: an ordinary word, or the expansion of one *)
Definition cwok (w : word) : bool := match w with WExpand w' => wok w' | _ => wok w end.

(* [expand_ok]: the well-formedness of parsed scripts *)
Definition expand_ok (sc : script) : bool := forallb (forallb cwok) sc.

Lemma wok_script cmds : wok (WScript cmds) = expand_ok cmds.
Proof. reflexivity. Qed.

Section WithExecNp.
Variable exec : executor.
Hypothesis Hexec : exec_np exec.
#[local] Hint Resolve Hexec : np.
#[local] Hint Resolve wf_lookup : wf.

Definition ew_np (ew : interp -> word -> interp * res value) (w : word) : Prop :=
  forall st, wf_state st -> good (ew st w).

Definition ew_np2 (ew : interp -> word -> interp * res value) (w : word) : Prop :=
  (wok w = true -> ew_np ew w) /\ (forall w', w = WExpand w' -> wok w' = true -> ew_np ew w').

Lemma eval_words_with_np ew ws :
  Forall (ew_np2 ew) ws -> forallb cwok ws = true ->
  forall st acc, wf_state st -> good (eval_words_with ew st ws acc).
Proof.
  induction 1 as [|w r [Hw Hw'] Hr IH]; intros Hok st acc H; cbn [eval_words_with]; [np_tac|].
  cbn [forallb] in Hok. apply andb_prop in Hok. destruct Hok as [Hok1 Hok2].
  assert (IH' : forall st acc, wf_state st -> good (eval_words_with ew st r acc)) by (apply IH; exact Hok2).
  clear IH.
  destruct w as [s|n|n i|cmds|ws|w1|s];
    try solve [assert (P0 := Hw Hok1 st H); np_tac].
  assert (P0 := Hw' w1 eq_refl Hok1 st H). np_tac.
Qed.

Lemma command_outcome_np st cmd name argv e :
  wf_state st -> exn_ok e -> good (command_outcome st cmd name argv e).
Proof. intros H He. unfold command_outcome. np_tac. Qed.
#[local] Hint Resolve command_outcome_np : np.

Lemma eval_cmds_with_np ew cmds :
  Forall (Forall (ew_np2 ew)) cmds -> expand_ok cmds = true ->
  forall st result, wf_state st -> good (eval_cmds_with exec ew st cmds result).
Proof.
  induction 1 as [|ws r Hws Hr IH]; intros Hok st result H; cbn [eval_cmds_with]; [np_tac|].
  unfold expand_ok in Hok. cbn [forallb] in Hok. apply andb_prop in Hok. destruct Hok as [Hok1 Hok2].
  assert (IH' : forall st result, wf_state st -> good (eval_cmds_with exec ew st r result))
    by (apply IH; exact Hok2).
  clear IH.
  assert (Hw := eval_words_with_np ew ws Hws Hok1).
  np_tac.
Qed.

Lemma eval_word_np2 w : ew_np2 (eval_word exec) w.
Proof.
  induction w as [s|n|n i IHi|cmds IHc|ws IHw|w IHw|s] using word_ind2;
    (split; [intros Hok|intros w' Hw' Hok'; try discriminate Hw']).
  - intros st H. cbn [eval_word]. np_tac.
  - intros st H. cbn [eval_word]. np_tac.
  - intros st H. cbn [eval_word]. cbn [wok] in Hok. destruct IHi as [IHi _]. specialize (IHi Hok).
    assert (P0 := IHi st H). np_tac.
  - intros st H. cbn [eval_word]. apply eval_cmds_with_np; assumption.
  - intros st H. cbn [eval_word]. cbn [wok] in Hok.
    assert (Hc : forallb cwok ws = true).
    { clear - Hok. induction ws as [|x r IH]; [reflexivity|]. cbn [forallb] in *.
      apply andb_prop in Hok. destruct Hok as [A B]. rewrite (IH B).
      destruct x; cbn [cwok]; try (rewrite A; reflexivity). discriminate A. }
    assert (Hw := eval_words_with_np _ ws IHw Hc). np_tac.
  - discriminate Hok.
  - inversion Hw'; subst. destruct IHw as [IHw _]. exact (IHw Hok').
  - intros st H. cbn [eval_word]. np_tac.
Qed.

Lemma eval_word_np : forall st w, wok w = true -> wf_state st -> good (eval_word exec st w).
Proof. intros st w Hok H. exact (proj1 (eval_word_np2 w) Hok st H). Qed.

Lemma eval_script_np : forall st sc, expand_ok sc = true -> wf_state st -> good (eval_script exec st sc).
Proof.
  intros st sc Hok H. unfold eval_script, eval_cmds. apply eval_cmds_with_np; [|exact Hok|exact H].
  apply Forall_forall. intros ws _. apply Forall_forall. intros w _. apply eval_word_np2.
Qed.

End WithExecNp.

(* ====================================================================== *)
(* 9. Parser.v only produces [expand_ok] scripts                           *)
(* ====================================================================== *)

Lemma forallb_app' {A} (f : A -> bool) l1 l2 : forallb f (l1 ++ l2) = forallb f l1 && forallb f l2.
Proof. induction l1 as [|x r IH]; cbn [forallb app]; [reflexivity|]. rewrite IH. apply andb_assoc. Qed.

Lemma forallb_rev {A} (f : A -> bool) l : forallb f (rev l) = forallb f l.
Proof.
  induction l as [|x r IH]; [reflexivity|]. cbn [rev forallb]. rewrite forallb_app', IH. cbn [forallb].
  rewrite andb_true_r. apply andb_comm.
Qed.

Definition tk_ok (t : tokens) : Prop := forallb wok (tk_list t) = true.

Lemma tk_new_ok : tk_ok tk_new.
Proof. reflexivity. Qed.

Lemma tk_push_ok t w : tk_ok t -> wok w = true -> tk_ok (tk_push t w).
Proof.
  unfold tk_ok, tk_push. intros Ht Hw. destruct (tk_str t); cbn [tk_list forallb wok]; rewrite Hw, Ht; reflexivity.
Qed.

Lemma tk_push_char_ok t c : tk_ok t -> tk_ok (tk_push_char t c).
Proof. unfold tk_ok, tk_push_char. intros Ht. destruct (tk_str t); exact Ht. Qed.

Lemma tk_take_ok t : tk_ok t -> wok (tk_take t) = true.
Proof.
  unfold tk_ok, tk_take. intros Ht. destruct (tk_str t) as [s|].
  - destruct (tk_list t) as [|w l] eqn:El; [reflexivity|].
    assert (Hr : forallb wok (rev (WString (rev s) :: w :: l)) = true).
    { rewrite forallb_rev. cbn [forallb wok]. exact Ht. }
    destruct (rev (WString (rev s) :: w :: l)) as [|a [|b r]]; [reflexivity| |exact Hr].
    cbn [forallb] in Hr. apply andb_prop in Hr. apply Hr.
  - destruct (tk_list t) as [|w [|w2 l]] eqn:El; [reflexivity| |].
    + cbn [forallb] in Ht. apply andb_prop in Ht. apply Ht.
    + cbn [wok]. rewrite forallb_rev. exact Ht.
Qed.

Lemma parse_braced_word_wok bt s w rest : parse_braced_word bt s = POk w rest -> exists t, w = WValue t.
Proof.
  unfold parse_braced_word. destruct s as [|c r]; [discriminate|].
  destruct (parse_braced_body r 0 []) as [text rest'|m|]; try discriminate.
  destruct (_ || _); [|discriminate]. intros E. inversion E. eexists; reflexivity.
Qed.

Lemma parse_braced_string_wok s w rest : parse_braced_string s = POk w rest -> exists t, w = WValue t.
Proof.
  unfold parse_braced_string. destruct s as [|c r]; [discriminate|].
  destruct (parse_braced_body r 0 []) as [text rest'|m|]; try discriminate.
  intros E. inversion E. eexists; reflexivity.
Qed.

Lemma parse_braced_varname_wok s w rest : parse_braced_varname s = POk w rest -> wok w = true.
Proof.
  unfold parse_braced_varname. destruct (skip_while _ s) as [|c r]; [discriminate|].
  destruct (parse_varname_literal _) as [name [idx|]]; intros E; inversion E; reflexivity.
Qed.

Section ParserOk.
Variable isa : char -> bool.

Definition parse_ok_at (fuel : nat) : Prop :=
  (forall bt s acc sc rest,
     parse_script isa fuel bt s acc = POk sc rest -> expand_ok acc = true -> expand_ok sc = true) /\
  (forall bt s ws rest, parse_command isa fuel bt s = POk ws rest -> forallb cwok ws = true) /\
  (forall bt s acc ws rest,
     parse_words isa fuel bt s acc = POk ws rest -> forallb cwok acc = true -> forallb cwok ws = true) /\
  (forall bt s w rest, parse_next_word isa fuel bt s = POk w rest -> cwok w = true) /\
  (forall bt chk s t w rest, parse_quoted isa fuel bt chk s t = POk w rest -> tk_ok t -> wok w = true) /\
  (forall bt fl s t w rest, parse_bare isa fuel bt fl s t = POk w rest -> tk_ok t -> wok w = true) /\
  (forall s sc rest, parse_brackets isa fuel s = POk sc rest -> expand_ok sc = true) /\
  (forall bt s t t' rest, parse_dollar isa fuel bt s t = POk t' rest -> tk_ok t -> tk_ok t') /\
  (forall bt s w rest, parse_varname isa fuel bt s = POk w rest -> wok w = true).


(* one-step unfolding equations of the remaining parser functions (the others are in
   Proofs/ListAsCommandFacts.v) *)
Lemma parse_quoted_eq f bt chk s t :
  parse_quoted isa (S f) bt chk s t =
  match s with
  | [] => PErr (lit "missing """)
  | c :: r =>
      if c =? c_lbracket then
        match parse_brackets isa f r with
        | POk sc rest => parse_quoted isa f bt chk rest (tk_push t (WScript sc))
        | PErr m => PErr m
        | PFuel => PFuel
        end
      else if c =? c_dollar then
        match parse_dollar isa f bt r t with
        | POk t' rest => parse_quoted isa f bt chk rest t'
        | PErr m => PErr m
        | PFuel => PFuel
        end
      else if c =? c_bslash then
        let '(ch, rest) := bsubst r in parse_quoted isa f bt chk rest (tk_push_char t ch)
      else if c =? c_dquote then
        if negb chk || at_end_of_command bt r || next_is_line_white r then POk (tk_take t) r
        else PErr (lit "extra characters after close-quote")
      else parse_quoted isa f bt chk r (tk_push_char t c)
  end.
Proof. reflexivity. Qed.

Lemma parse_brackets_eq f s :
  parse_brackets isa (S f) s =
  match parse_script isa f true s [] with
  | POk sc rest =>
      match rest with
      | c :: r => if c =? c_rbracket then POk sc r else PErr (lit "missing close-bracket")
      | [] => PErr (lit "missing close-bracket")
      end
  | PErr m => PErr m
  | PFuel => PFuel
  end.
Proof. reflexivity. Qed.

Lemma parse_dollar_eq f bt s t :
  parse_dollar isa (S f) bt s t =
  match s with
  | c :: _ =>
      if is_varname_char isa c || (c =? c_lbrace) then
        match parse_varname isa f bt s with
        | POk w rest => POk (tk_push t w) rest
        | PErr m => PErr m
        | PFuel => PFuel
        end
      else POk (tk_push_char t c_dollar) s
  | [] => POk (tk_push_char t c_dollar) s
  end.
Proof. reflexivity. Qed.

Lemma parse_varname_eq f bt s :
  parse_varname isa (S f) bt s =
  match s with
  | c :: r =>
      if c =? c_lbrace then parse_braced_varname r
      else
        let name := take_while (is_varname_char isa) s in
        let rest := skip_while (is_varname_char isa) s in
        match rest with
        | d :: r' =>
            if d =? c_lparen then
              match parse_bare isa f bt true r' tk_new with
              | POk idx rest' =>
                  match rest' with
                  | e :: r'' => if e =? c_rparen then POk (WArrayRef name idx) r''
                                else PErr (lit "missing )")
                  | [] => PErr (lit "missing )")
                  end
              | PErr m => PErr m
              | PFuel => PFuel
              end
            else POk (WVarRef name) rest
        | [] => POk (WVarRef name) rest
        end
  | [] => POk (WVarRef []) s
  end.
Proof. reflexivity. Qed.

Lemma cwok_of_wok w : wok w = true -> cwok w = true.
Proof. destruct w; cbn [cwok]; auto. discriminate. Qed.

Lemma parse_ok_all fuel : parse_ok_at fuel.
Proof.
  induction fuel as [|f (IHs & IHc & IHws & IHnw & IHq & IHb & IHbr & IHd & IHv)].
  - repeat split; intros; discriminate.
  - unfold parse_ok_at. repeat split.
    + (* parse_script *)
      intros bt s acc sc rest. rewrite ListAsCommandFacts.parse_script_eq.
      destruct (at_end_of_script bt s).
      { intros E Ha. inversion E; subst. unfold expand_ok. rewrite forallb_rev. exact Ha. }
      destruct (parse_command isa f bt s) as [cmd rest'|m|] eqn:Ec; try discriminate.
      intros E Ha. apply (IHs _ _ _ _ _ E). unfold expand_ok. cbn [forallb].
      rewrite (IHc _ _ _ _ Ec). exact Ha.
    + (* parse_command *)
      intros bt s ws rest. rewrite ListAsCommandFacts.parse_command_eq. cbv zeta.
      destruct (parse_words isa f bt _ []) as [ws' rest'|m|] eqn:Ew; try discriminate.
      assert (Hws : forallb cwok ws' = true) by (apply (IHws _ _ _ _ _ Ew); reflexivity).
      destruct rest' as [|c r]; [|destruct (c =? c_semi)]; intros E; inversion E; subst; exact Hws.
    + (* parse_words *)
      intros bt s acc ws rest. rewrite ListAsCommandFacts.parse_words_eq.
      destruct (at_end_of_command bt s).
      { intros E Ha. inversion E; subst. rewrite forallb_rev. exact Ha. }
      destruct (parse_next_word isa f bt s) as [w rest'|m|] eqn:En; try discriminate.
      intros E Ha. apply (IHws _ _ _ _ _ E). cbn [forallb]. rewrite (IHnw _ _ _ _ En). exact Ha.
    + (* parse_next_word *)
      intros bt s w rest. rewrite ListAsCommandFacts.parse_next_word_eq.
      destruct s as [|c r].
      { intros E. apply cwok_of_wok. apply (IHb _ _ _ _ _ _ E tk_new_ok). }
      destruct (c =? c_lbrace).
      * destruct (starts_with _ _).
        -- cbv zeta. destruct (skipn 3 (c :: r)) as [|d r3].
           { intros E. inversion E. reflexivity. }
           destruct (is_whitespace d); [intros E; inversion E; reflexivity|].
           destruct (d =? c_lbrace).
           { destruct (parse_braced_word bt (d :: r3)) as [w' rest'|m|] eqn:Eb; try discriminate.
             intros E. inversion E; subst. apply parse_braced_word_wok in Eb. destruct Eb as [t ->]. reflexivity. }
           destruct (d =? c_dquote).
           { destruct (parse_quoted isa f bt true (tl (d :: r3)) tk_new) as [w' rest'|m|] eqn:Eq; try discriminate.
             intros E. inversion E; subst. cbn [cwok]. apply (IHq _ _ _ _ _ _ Eq tk_new_ok). }
           destruct (parse_bare isa f bt false (d :: r3) tk_new) as [w' rest'|m|] eqn:Eb; try discriminate.
           intros E. inversion E; subst. cbn [cwok]. apply (IHb _ _ _ _ _ _ Eb tk_new_ok).
        -- intros E. apply parse_braced_word_wok in E. destruct E as [t ->]. reflexivity.
      * destruct (c =? c_dquote); intros E; apply cwok_of_wok.
        -- apply (IHq _ _ _ _ _ _ E tk_new_ok).
        -- apply (IHb _ _ _ _ _ _ E tk_new_ok).
    + (* parse_quoted *)
      intros bt chk s t w rest. rewrite parse_quoted_eq.
      destruct s as [|c r]; [discriminate|].
      destruct (c =? c_lbracket).
      { destruct (parse_brackets isa f r) as [sc rest'|m|] eqn:Eb; try discriminate.
        intros E Ht. apply (IHq _ _ _ _ _ _ E). apply tk_push_ok; [exact Ht|].
        rewrite wok_script. apply (IHbr _ _ _ Eb). }
      destruct (c =? c_dollar).
      { destruct (parse_dollar isa f bt r t) as [t' rest'|m|] eqn:Ed; try discriminate.
        intros E Ht. apply (IHq _ _ _ _ _ _ E). apply (IHd _ _ _ _ _ Ed Ht). }
      destruct (c =? c_bslash).
      { destruct (bsubst r) as [ch rest']. intros E Ht. apply (IHq _ _ _ _ _ _ E).
        apply tk_push_char_ok. exact Ht. }
      destruct (c =? c_dquote).
      { destruct (_ || _); [|discriminate]. intros E Ht. inversion E; subst. apply tk_take_ok. exact Ht. }
      intros E Ht. apply (IHq _ _ _ _ _ _ E). apply tk_push_char_ok. exact Ht.
    + (* parse_bare *)
      intros bt fl s t w rest. rewrite ListAsCommandFacts.parse_bare_eq.
      destruct (_ || _).
      { intros E Ht. inversion E; subst. apply tk_take_ok. exact Ht. }
      destruct s as [|c r].
      { intros E Ht. inversion E; subst. apply tk_take_ok. exact Ht. }
      destruct (fl && (c =? c_rparen)).
      { intros E Ht. inversion E; subst. apply tk_take_ok. exact Ht. }
      destruct (c =? c_lbracket).
      { destruct (parse_brackets isa f r) as [sc rest'|m|] eqn:Eb; try discriminate.
        intros E Ht. apply (IHb _ _ _ _ _ _ E). apply tk_push_ok; [exact Ht|].
        rewrite wok_script. apply (IHbr _ _ _ Eb). }
      destruct (c =? c_dollar).
      { destruct (parse_dollar isa f bt r t) as [t' rest'|m|] eqn:Ed; try discriminate.
        intros E Ht. apply (IHb _ _ _ _ _ _ E). apply (IHd _ _ _ _ _ Ed Ht). }
      destruct (c =? c_bslash).
      { destruct (bsubst r) as [ch rest']. intros E Ht. apply (IHb _ _ _ _ _ _ E).
        apply tk_push_char_ok. exact Ht. }
      intros E Ht. apply (IHb _ _ _ _ _ _ E). apply tk_push_char_ok. exact Ht.
    + (* parse_brackets *)
      intros s sc rest. rewrite parse_brackets_eq.
      destruct (parse_script isa f true s []) as [sc' rest'|m|] eqn:Es; try discriminate.
      assert (Hsc : expand_ok sc' = true) by (apply (IHs _ _ _ _ _ Es); reflexivity).
      destruct rest' as [|c r]; [discriminate|]. destruct (c =? c_rbracket); [|discriminate].
      intros E. inversion E; subst. exact Hsc.
    + (* parse_dollar *)
      intros bt s t t' rest. rewrite parse_dollar_eq.
      destruct s as [|c r].
      { intros E Ht. inversion E; subst. apply tk_push_char_ok. exact Ht. }
      destruct (_ || _).
      * destruct (parse_varname isa f bt (c :: r)) as [w rest'|m|] eqn:Ev; try discriminate.
        intros E Ht. inversion E; subst. apply tk_push_ok; [exact Ht|]. apply (IHv _ _ _ _ Ev).
      * intros E Ht. inversion E; subst. apply tk_push_char_ok. exact Ht.
    + (* parse_varname *)
      intros bt s w rest. rewrite parse_varname_eq.
      destruct s as [|c r]; [intros E; inversion E; reflexivity|].
      destruct (c =? c_lbrace); [apply parse_braced_varname_wok|].
      cbv zeta. destruct (skip_while (is_varname_char isa) (c :: r)) as [|d r'].
      { intros E. inversion E. reflexivity. }
      destruct (d =? c_lparen); [|intros E; inversion E; reflexivity].
      destruct (parse_bare isa f bt true r' tk_new) as [idx rest'|m|] eqn:Eb; try discriminate.
      destruct rest' as [|e r'']; [discriminate|]. destruct (e =? c_rparen); [|discriminate].
      intros E. inversion E; subst. cbn [wok]. apply (IHb _ _ _ _ _ _ Eb tk_new_ok).
Qed.

Theorem parse_expand_ok s sc rest : parse isa s = POk sc rest -> expand_ok sc = true.
Proof.
  unfold parse. intros E. destruct (parse_ok_all (parse_fuel s)) as (H & _).
  apply (H _ _ _ _ _ E). reflexivity.
Qed.

Lemma parse_script_expand_ok fuel bt s sc rest :
  parse_script isa fuel bt s [] = POk sc rest -> expand_ok sc = true.
Proof.
  intros E. destruct (parse_ok_all fuel) as (H & _). apply (H _ _ _ _ _ E). reflexivity.
Qed.

Lemma parse_varname_wok fuel bt s w rest : parse_varname isa fuel bt s = POk w rest -> wok w = true.
Proof. intros E. destruct (parse_ok_all fuel) as (_ & _ & _ & _ & _ & _ & _ & _ & H). exact (H _ _ _ _ E). Qed.

Lemma parse_quoted_wok fuel bt chk s w rest :
  parse_quoted isa fuel bt chk s tk_new = POk w rest -> wok w = true.
Proof.
  intros E. destruct (parse_ok_all fuel) as (_ & _ & _ & _ & H & _). exact (H _ _ _ _ _ _ E tk_new_ok).
Qed.

End ParserOk.

(* ====================================================================== *)
(* 10. Expr.v                                                              *)
(* ====================================================================== *)

Local Open Scope Z_scope.

Lemma rgood_illegal_type {A} bad op : rgood (@illegal_type A bad op).
Proof. apply rgood_err. Qed.
Lemma rgood_syntax_error {A} orig : rgood (@syntax_error orig A).
Proof. apply rgood_err. Qed.
Lemma rgood_i64_result z : rgood (i64_result z).
Proof. unfold i64_result. destruct (in_i64 z); [exact I|apply rgood_err]. Qed.
#[local] Hint Resolve rgood_illegal_type rgood_syntax_error rgood_i64_result : rgood.

Lemma expr_as_str_str d : exists s, expr_as_str d = DStr s.
Proof. destruct d; eexists; reflexivity. Qed.

(* the "mixed operands" branches are unreachable after the promotion step; AND/OR need an
   integer first operand, which expr_loop's conversion guarantees *)
Lemma apply_binop_good op v v2 :
  (((op =? T_AND) || (op =? T_OR)) = true -> exists x, v = DInt x) ->
  rgood (apply_binop op v v2).
Proof.
  intros Hand. unfold apply_binop.
  destruct (_ || _ || _ || _).
  { destruct v as [x|x|x], v2 as [y|y|y]; cbn [is_string orb to_flt]; auto with rgood;
      repeat match goal with |- rgood (if ?b then _ else _) => destruct b end; auto with rgood; exact I. }
  destruct (_ || _ || _ || _ || _ || _).
  { destruct v as [x|x|x], v2 as [y|y|y]; auto with rgood;
      repeat match goal with |- rgood (if ?b then _ else _) => destruct b end; auto with rgood; exact I. }
  destruct (_ || _ || _ || _ || _ || _).
  { destruct v as [x|x|x], v2 as [y|y|y]; cbn [expr_as_str to_flt]; exact I. }
  destruct (_ || _ || _ || _).
  { destruct (expr_as_str_str v) as [x ->]. destruct (expr_as_str_str v2) as [y ->].
    destruct (op =? T_STRING_EQ); [exact I|]. destruct (op =? T_STRING_NE); [exact I|].
    destruct (get_list y) as [[e|l]|]; auto with rgood; exact I. }
  destruct ((op =? T_AND) || (op =? T_OR)) eqn:E.
  { destruct (Hand eq_refl) as [x ->]. destruct v2; auto with rgood; exact I. }
  destruct (op =? T_COLON); [apply rgood_err|]. destruct (op =? T_QUESTY); [exact I|apply rgood_err].
Qed.

Lemma conv_left_good info v : rgood (conv_left info v).
Proof. unfold conv_left. destruct v; [exact I|exact I|]. destruct (noeval info); auto with rgood. exact I. Qed.

Lemma conv_left_int info v d : conv_left info v = Ok d -> exists x, d = DInt x.
Proof.
  unfold conv_left. destruct v as [x|x|x].
  - intros E. inversion E. eexists; reflexivity.
  - intros E. inversion E. unfold d_bool. eexists; reflexivity.
  - destruct (noeval info); [|discriminate]. intros E. inversion E. eexists; reflexivity.
Qed.

Lemma unary_apply_good tok v : rgood (unary_apply tok v).
Proof.
  unfold unary_apply.
  repeat match goal with |- rgood (if ?b then _ else _) => destruct b end;
    destruct v; auto with rgood;
    repeat match goal with |- rgood (if ?b then _ else _) => destruct b end; auto with rgood; exact I.
Qed.

Lemma call_func_good name arg : rgood (call_func name arg).
Proof.
  unfold call_func.
  repeat match goal with |- rgood (if ?b then _ else _) => destruct b end;
    destruct arg; auto with rgood;
    repeat match goal with |- rgood (if ?b then _ else _) => destruct b end; auto with rgood; exact I.
Qed.

Lemma expr_parse_string_good s : rgood (expr_parse_string s).
Proof.
  unfold expr_parse_string. destruct s as [|c r]; [exact I|].
  destruct (expr_looks_like_int (c :: r)).
  - destruct (read_int _) as [[tok rest]|]; [|exact I].
    destruct (skip_while is_whitespace rest); [|exact I]. destruct (get_int tok); auto with rgood. exact I.
  - destruct (read_float _) as [[tok rest]|]; [|exact I].
    destruct (skip_while is_whitespace rest); [|exact I]. destruct (get_float tok); auto with rgood. exact I.
Qed.

Lemma expr_parse_value_good v : rgood (expr_parse_value v).
Proof.
  unfold expr_parse_value. destruct (already_number v) as [[z|f]|]; try exact I. apply expr_parse_string_good.
Qed.

Lemma lex_number_good info p c r0 : lex_number info p c = Some r0 -> rgood r0.
Proof.
  unfold lex_number. destruct (_ || _); [discriminate|].
  destruct (if expr_looks_like_int p then read_int p else None) as [[tok rest]|].
  - intros E. inversion E. destruct (get_int tok); auto with rgood. exact I.
  - destruct (read_float p) as [[tok rest]|]; [|discriminate].
    intros E. inversion E. destruct (get_float tok); auto with rgood. exact I.
Qed.

#[local] Hint Resolve conv_left_good unary_apply_good call_func_good expr_parse_string_good
  expr_parse_value_good : rgood.

Section ExprNp.
Variable ia ib : char -> bool.
Variable exec : executor.
Hypothesis Hexec : exec_np exec.
Variable orig : str.

Local Notation GV := (expr_get_value ia ib exec orig).
Local Notation LOOP := (expr_loop ia ib exec orig).
Local Notation LEX := (expr_lex ia ib exec orig).
Local Notation MF := (expr_math_func ia ib exec orig).

Definition GV_np f := forall st info pr, wf_state st -> good (GV f st info pr).
Definition LOOP_np f := forall st info pr v, wf_state st -> good (LOOP f st info pr v).
Definition LEX_np f := forall st info, wf_state st -> good (LEX f st info).
Definition MF_np f := forall st info name, wf_state st -> good (MF f st info name).

#[local] Hint Resolve eval_word_np eval_script_np Hexec : np.
#[local] Hint Extern 1 (wok _ = true) => (eapply parse_varname_wok; eassumption) : wf.
#[local] Hint Extern 1 (wok _ = true) => (eapply parse_quoted_wok; eassumption) : wf.
#[local] Hint Extern 1 (expand_ok _ = true) => (eapply parse_script_expand_ok; eassumption) : wf.

Lemma lex_value_of_np info st rv rest b :
  wf_state st -> rgood rv -> good (lex_value_of info st rv rest b).
Proof.
  intros H Hr. unfold lex_value_of. destruct b; (destruct rv as [v|e|p|]; [| |destruct Hr|]); np_tac.
Qed.
#[local] Hint Resolve lex_value_of_np : np.

Lemma lex_step f : MF_np f -> LEX_np (S f).
Proof.
  intros IHmf st info H. rewrite expr_lex_S.
  Ltac np_contra ::=
    match goal with
    | E : parse_braced_string _ = POk _ _ |- _ =>
        apply parse_braced_string_wok in E; destruct E; discriminate
    end.
  cbv zeta. unfold lex_value_of. np_tac.
  apply good_res; [exact H|]. eapply lex_number_good. eassumption.
Qed.

Lemma mf_step f : GV_np f -> LEX_np f -> MF_np (S f).
Proof.
  intros IHgv IHlex st info name H. rewrite expr_math_func_S. np_tac.
Qed.

Lemma gv_step f : GV_np f -> LOOP_np f -> LEX_np f -> GV_np (S f).
Proof.
  intros IHgv IHloop IHlex st info pr H. rewrite expr_get_value_S. unfold gv_first. np_tac.
Qed.

Lemma loop_after_np f : LOOP_np f -> forall op pr st i2 v1 v2,
  wf_state st -> (((op =? T_AND) || (op =? T_OR)) = true -> exists x, v1 = DInt x) ->
  good (loop_after ia ib exec orig f op pr st i2 v1 v2).
Proof.
  intros IHloop op pr st i2 v1 v2 H Hop. unfold loop_after.
  pose proof (apply_binop_good op v1 v2 Hop) as Hb. np_tac.
Qed.

Lemma loop_step f : GV_np f -> LOOP_np f -> LOOP_np (S f).
Proof.
  intros IHgv IHloop st info pr v H. rewrite expr_loop_S. cbv zeta.
  unfold loop_plain, loop_skip_right, loop_questy_true, loop_questy_false.
  Ltac np_contra ::=
    match goal with
    | E : conv_left _ _ = Ok _ |- _ => apply conv_left_int in E; destruct E; discriminate
    end.
  np_tac.
  all: apply loop_after_np; [exact IHloop|assumption|].
  all: try (intros _; eexists; reflexivity).
  all: intros Hc; exfalso; unfold T_AND, T_OR, T_QUESTY in *; lia.
Qed.

Lemma expr_all_np fuel : GV_np fuel /\ LOOP_np fuel /\ LEX_np fuel /\ MF_np fuel.
Proof.
  induction fuel as [|f (IH1 & IH2 & IH3 & IH4)].
  - split; [|split; [|split]]; intro; intros; apply good_fuel.
  - assert (L : LEX_np (S f)) by (apply lex_step; assumption).
    split; [|split; [|split]].
    + apply gv_step; assumption.
    + apply loop_step; assumption.
    + exact L.
    + apply mf_step; assumption.
Qed.

End ExprNp.

Lemma expr_eval_np alnum alpha exec : exec_np exec ->
  forall st e, wf_state st -> good (expr_eval alnum alpha exec st e).
Proof.
  intros Hexec st e H. unfold expr_eval.
  assert (P0 := proj1 (expr_all_np alnum alpha exec Hexec (as_str e) (expr_fuel (as_str e)))
                  st {| e_rest := as_str e; e_token := -1; e_noeval := 0 |} (-1) H).
  np_tac.
Qed.


(* ====================================================================== *)
(* 11. Interp.v: the knot                                                  *)
(* ====================================================================== *)

Local Open Scope N_scope.

Lemma set_global_error_data_np st e : wf_state st -> good (set_global_error_data st e).
Proof. intros H. unfold set_global_error_data. np_tac. Qed.
#[local] Hint Resolve set_global_error_data_np : np.

Lemma toplevel_boundary_good r : rgood r -> rgood (toplevel_boundary r).
Proof.
  destruct r as [a|e|p|]; cbn [toplevel_boundary rgood]; auto.
  intros He.
  assert (Hd : x_code e = CReturn -> x_code (decrement_level e) = COkay \/ exn_ok (decrement_level e))
    by (apply decrement_level_ok; exact He).
  destruct (x_code e) eqn:E.
  - destruct He as [He _]. now elim He.
  - rewrite E. exact He.
  - destruct (Hd eq_refl) as [D|D].
    + rewrite D. exact I.
    + destruct (x_code (decrement_level e)) eqn:E2; try exact D; try apply rgood_err. exact I.
  - rewrite E. apply rgood_err.
  - rewrite E. apply rgood_err.
  - rewrite E. apply rgood_err.
Qed.

Lemma toplevel_boundary_fuel r : toplevel_boundary r = Fuel -> r = Fuel.
Proof.
  destruct r as [a|e|p|]; cbn [toplevel_boundary]; try discriminate; try reflexivity.
  destruct (x_code match x_code e with CReturn => decrement_level e | _ => e end); discriminate.
Qed.

Section InterpNp.
Variable U : uni.

(* the common tail of eval_value_with / expr_with: record the error data of an Error *)
Lemma error_tail_np st3 (r' : res value) :
  rgood r' -> (r' <> Fuel -> wf_state st3) ->
  good match r' with
       | Err e =>
           if rcode_eqb (x_code e) CError then
             do (st4, _) <- set_global_error_data st3 e; (st4, Err e)
           else (st3, r')
       | _ => (st3, r')
       end.
Proof.
  intros Hr Hw. destruct r' as [a|e|p|].
  - apply good_ok. apply Hw. discriminate.
  - assert (H : wf_state st3) by (apply Hw; discriminate). cbn [rgood] in Hr. np_tac.
  - destruct Hr.
  - apply good_fuel.
Qed.

Lemma eval_value_with_np exec : exec_np exec ->
  forall st v, wf_state st -> good (eval_value_with U exec st v).
Proof.
  intros Hexec st v H. unfold eval_value_with.
  set (st1 := set_levels st (i_levels st + 1)).
  assert (H1 : wf_state st1) by (apply wf_set_levels; exact H).
  destruct (i_limit st1 <? i_levels st1); [np_tac|].
  destruct (parse (u_alnum U) (as_str v)) as [sc rest|m|] eqn:Ep; [|np_tac|apply good_fuel].
  pose proof (eval_script_np exec Hexec st1 sc (parse_expand_ok _ _ _ _ Ep) H1) as P.
  destruct (eval_script exec st1 sc) as [st2 r]. destruct P as [P1 P2]. cbn [fst snd] in P1, P2.
  cbv zeta. apply error_tail_np.
  - destruct (_ =? 0); [apply toplevel_boundary_good|]; exact P1.
  - intros Hf. apply wf_set_levels. apply P2. intros ->. apply Hf.
    destruct (_ =? 0); reflexivity.
Qed.

Lemma expr_with_np exec : exec_np exec ->
  forall st e, wf_state st -> good (expr_with U exec st e).
Proof.
  intros Hexec st e H. unfold expr_with.
  assert (P0 := expr_eval_np (u_alnum U) (u_alpha U) exec Hexec st e H).
  np_tac.
Qed.

Lemma run_native_np rec : rec_np rec -> rec_ok rec ->
  forall n st argv, modelled n = true -> wf_state st -> good (run_native U rec n st argv).
Proof.
  intros Hrec Hctl n st argv Hn H.
  destruct n; cbn [run_native]; try discriminate Hn;
    first [ np_tac; fail
          | eauto using cmd_append_np, cmd_array_np, cmd_assert_eq_np, cmd_break_np,
              cmd_catch_np, cmd_continue_np, cmd_dict_np, cmd_error_np, cmd_expr_np,
              cmd_for_np, cmd_foreach_np, cmd_global_np, cmd_if_np, cmd_incr_np,
              cmd_info_np, cmd_join_np, cmd_lappend_np, cmd_lindex_np, cmd_list_np,
              cmd_llength_np, cmd_proc_np, cmd_puts_np, cmd_rename_np, cmd_return_np,
              cmd_set_np, cmd_string_np, cmd_throw_np, cmd_unset_np, cmd_while_np,
              cmd_recorder_np, cmd_ident_np, cmd_test_np ].
Qed.

Theorem run_exec_np fuel : exec_np (run_exec U fuel).
Proof.
  induction fuel as [|f IH]; intros st cmd argv H Hc; cbn [run_exec]; [apply good_fuel|].
  set (rec := {| r_eval := eval_value_with U (run_exec U f);
                 r_expr := expr_with U (run_exec U f); r_loop := S f |}).
  assert (Hrec : rec_np rec).
  { split; cbn [r_eval r_expr rec]; intros; [apply eval_value_with_np|apply expr_with_np]; assumption. }
  assert (Hctl : rec_ok rec).
  { split; cbn [r_eval r_expr rec]; intros;
      [apply eval_value_with_pres|apply expr_with_pres]; try assumption; apply run_exec_ok. }
  destruct cmd as [n ctx|parms body].
  - apply run_native_np; try assumption. apply Hc.
  - apply proc_execute_np; try assumption. apply Hc.
Qed.

(* ---------- main theorems ---------- *)

Theorem eval_no_panic : forall fuel st v st' r,
  wf_state st -> eval_value U fuel st v = (st', r) -> no_panic r /\ (r <> Fuel -> wf_state st').
Proof.
  intros fuel st v st' r H E.
  pose proof (eval_value_with_np (run_exec U fuel) (run_exec_np fuel) st v H) as P.
  unfold eval_value in E. rewrite E in P. destruct P as [P1 P2].
  split; [apply rgood_no_panic; exact P1|exact P2].
Qed.

Theorem expr_no_panic : forall fuel st e st' r,
  wf_state st -> expr U fuel st e = (st', r) -> no_panic r /\ (r <> Fuel -> wf_state st').
Proof.
  intros fuel st e st' r H E.
  pose proof (expr_with_np (run_exec U fuel) (run_exec_np fuel) st e H) as P.
  unfold expr in E. rewrite E in P. destruct P as [P1 P2].
  split; [apply rgood_no_panic; exact P1|exact P2].
Qed.

(* the exception that leaves an evaluation is well formed too *)
Theorem eval_exn_ok : forall fuel st v st' e,
  wf_state st -> eval_value U fuel st v = (st', Err e) -> exn_ok e.
Proof.
  intros fuel st v st' e H E.
  pose proof (eval_value_with_np (run_exec U fuel) (run_exec_np fuel) st v H) as P.
  unfold eval_value in E. rewrite E in P. apply P.
Qed.

(* in particular its level fits a usize: the -level entry `catch` stores for it ([return_options],
   through `as MoltInt`) reads back ([level_of_int]) as the same level *)
Theorem eval_exn_level : forall fuel st v st' e,
  wf_state st -> eval_value U fuel st v = (st', Err e) -> x_level e < 2 ^ 64.
Proof. intros fuel st v st' e H E. apply (eval_exn_ok fuel st v st' e H E). Qed.

(* any sequence of evaluations on one interpreter; the sequence is cut at the first evaluation
   on which the model runs out of fuel (the model says nothing about the state after that) *)
Fixpoint history (fuel : nat) (st : interp) (scripts : list value) : list (res value) :=
  match scripts with
  | [] => []
  | v :: rest =>
      let '(st1, r) := eval_value U fuel st v in
      r :: match r with Fuel => [] | _ => history fuel st1 rest end
  end.

Theorem history_no_panic : forall fuel scripts st,
  wf_state st -> Forall no_panic (history fuel st scripts).
Proof.
  intros fuel scripts. induction scripts as [|v rest IH]; intros st H; cbn [history]; [constructor|].
  destruct (eval_value U fuel st v) as [st1 r] eqn:E.
  destruct (eval_no_panic fuel st v st1 r H E) as [Hp Hw].
  constructor; [exact Hp|].
  destruct r as [a|e|p|]; try (apply IH; apply Hw; discriminate); constructor.
Qed.

(* the same, for the final state: if no evaluation ran out of fuel the interpreter is still well
   formed, so the next script cannot crash it either *)
Theorem history_wf : forall fuel scripts st,
  wf_state st ->
  let run := fold_left (fun acc v => match acc with
                                     | Some st => let '(st', r) := eval_value U fuel st v in
                                                  match r with Fuel => None | _ => Some st' end
                                     | None => None
                                     end) scripts (Some st) in
  forall st', run = Some st' -> wf_state st'.
Proof.
  intros fuel scripts. induction scripts as [|v rest IH]; intros st H run st' Hrun.
  - cbn in Hrun. inversion Hrun. subst. exact H.
  - subst run. cbn [fold_left] in Hrun.
    destruct (eval_value U fuel st v) as [st1 r] eqn:E.
    destruct (eval_no_panic fuel st v st1 r H E) as [Hp Hw].
    assert (Hnone : forall l, fold_left (fun acc v => match acc with
                                     | Some st => let '(st', r) := eval_value U fuel st v in
                                                  match r with Fuel => None | _ => Some st' end
                                     | None => None
                                     end) l (@None interp) = None).
    { induction l as [|x l IHl]; [reflexivity|exact IHl]. }
    destruct r as [x|e|p|].
    + apply (IH st1 (Hw ltac:(discriminate)) st' Hrun).
    + apply (IH st1 (Hw ltac:(discriminate)) st' Hrun).
    + exfalso. exact (Hp p eq_refl).
    + rewrite Hnone in Hrun. discriminate.
Qed.

End InterpNp.

(* ====================================================================== *)
(* 12. the initial interpreters are well formed                            *)
(* ====================================================================== *)

(* remove the commands the model does not implement (time, source, exit, parse, pdump, pclear) *)
Definition keep_modelled (p : str * command) : bool :=
  match snd p with CmdNative n _ => modelled n | CmdProc _ _ => true end.

Definition drop_unmodelled (st : interp) : interp :=
  set_cmds st (filter keep_modelled (i_cmds st)).

Lemma modelled_only_filter cmds : modelled_only (filter keep_modelled cmds).
Proof.
  intros name c Hin. apply filter_In in Hin. destruct Hin as [_ Hk]. unfold keep_modelled in Hk.
  cbn [snd] in Hk. destruct c; [exact Hk|exact I].
Qed.

Lemma procs_ok_filter cmds : procs_ok cmds -> procs_ok (filter keep_modelled cmds).
Proof. intros H name c Hin. apply filter_In in Hin. destruct Hin as [Hin _]. exact (H _ _ Hin). Qed.

(* a table without procedures *)
Lemma procs_ok_natives cmds :
  forallb (fun p : str * command => negb (is_proc (snd p))) cmds = true -> procs_ok cmds.
Proof.
  intros Hf name c Hin. rewrite forallb_forall in Hf. specialize (Hf _ Hin). cbn [snd] in Hf.
  destruct c; [exact I|discriminate].
Qed.

Lemma wf_drop_unmodelled st :
  scope_inv (i_scopes st) -> procs_ok (i_cmds st) -> wf_state (drop_unmodelled st).
Proof.
  intros Hs Hp. unfold drop_unmodelled. split; [exact Hs|]. split; cbn [i_cmds set_cmds].
  - apply procs_ok_filter. exact Hp.
  - apply modelled_only_filter.
Qed.

(* dropping commands preserves well-formedness; on a well-formed state it changes nothing *)
Lemma drop_unmodelled_wf st : wf_state st -> wf_state (drop_unmodelled st).
Proof. intros (H1 & H2 & H3). apply wf_drop_unmodelled; assumption. Qed.

Lemma scope_inv_initial : scope_inv [[(lit "errorInfo", VarScalar v_empty)]].
Proof.
  unfold scope_inv. split; [discriminate|]. split.
  - intros [|[|k]]; cbn; repeat constructor. intros [].
  - intros k n x Hin. destruct k as [|[|k]]; cbn [sc_get_scope nth] in Hin.
    + destruct Hin as [Hin|[]]. inversion Hin; subst. exact I.
    + destruct Hin.
    + destruct Hin.
Qed.

Theorem wf_interp_new : wf_state (drop_unmodelled interp_new).
Proof.
  apply wf_drop_unmodelled.
  - exact scope_inv_initial.
  - apply procs_ok_natives. vm_compute. reflexivity.
Qed.

Theorem wf_harness_interp limit : wf_state (drop_unmodelled (Check.ScriptObs.harness_interp limit)).
Proof.
  apply wf_drop_unmodelled.
  - unfold Check.ScriptObs.harness_interp. destruct (Z.eqb limit 0); exact scope_inv_initial.
  - apply procs_ok_natives. unfold Check.ScriptObs.harness_interp.
    destruct (Z.eqb limit 0); vm_compute; reflexivity.
Qed.

(* exactly the six unmodelled commands are removed *)
Lemma dropped_commands :
  map fst (filter (fun p => negb (keep_modelled p)) (i_cmds (Check.ScriptObs.harness_interp 0)))
  = map lit ["time"; "source"; "exit"; "parse"; "pdump"; "pclear"]%string.
Proof. vm_compute. reflexivity. Qed.

(* the headline statement: whatever scripts are evaluated, in whatever order, on the initial
   interpreter (restricted to the modelled commands), no evaluation panics *)
Corollary initial_history_no_panic : forall U fuel scripts,
  Forall no_panic (history U fuel (drop_unmodelled interp_new) scripts).
Proof. intros. apply history_no_panic. exact wf_interp_new. Qed.

Corollary harness_history_no_panic : forall U fuel limit scripts,
  Forall no_panic (history U fuel (drop_unmodelled (Check.ScriptObs.harness_interp limit)) scripts).
Proof. intros. apply history_no_panic. apply wf_harness_interp. Qed.

(* the hypothesis [modelled_only] is necessary: on the full initial interpreter the six commands
   the model leaves out answer with the model's "not modelled" marker *)
Example unmodelled_command_panics :
  snd (eval std_uni 10 (Check.ScriptObs.harness_interp 0) (lit "pclear"))
  = Panic (lit "command not modelled").
Proof. vm_compute. reflexivity. Qed.

Print Assumptions run_exec_np.
Print Assumptions eval_no_panic.
Print Assumptions expr_no_panic.
Print Assumptions eval_exn_ok.
Print Assumptions eval_exn_level.
Print Assumptions history_no_panic.
Print Assumptions history_wf.
Print Assumptions parse_expand_ok.
Print Assumptions wf_interp_new.
Print Assumptions wf_harness_interp.
Print Assumptions initial_history_no_panic.
Print Assumptions harness_history_no_panic.
(* for comparison: the axioms listed above are exactly those of the model's own definitions
   (Model/Float.v uses Flocq, which is built on Coq's axiomatised reals) *)
Print Assumptions eval_value.
