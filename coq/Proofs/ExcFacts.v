(* ExcFacts.v — C06: the exception-propagation algebra of the model (Spec/SpecExc.v). *)
From Molt Require Import Model.Base Model.Tokenizer Model.ListSyn Model.Float Model.Value
  Model.State Model.Script Model.Parser Model.Eval Model.Expr Model.Commands Model.Unicode
  Model.Interp Spec.SpecExc Proofs.BaseFacts Proofs.ValueFacts.
From Molt Require Proofs.DictFacts.
From Coq Require Import Lia ZifyBool ZifyN.

Arguments N.eqb : simpl never.
Arguments N.leb : simpl never.
Arguments N.ltb : simpl never.

Local Open Scope N_scope.

(* ====================================================================================== *)
(* 1. the boundaries are pure functions of the result                                      *)
(* ====================================================================================== *)

Theorem proc_boundary_pb st r : proc_boundary st r = (st, pb r).
Proof.
  unfold proc_boundary, pb, ret, fail.
  destruct r as [v|e|p|]; try reflexivity.
  destruct (x_code e); try reflexivity.
  destruct (x_code (decrement_level e)); reflexivity.
Qed.
Print Assumptions proc_boundary_pb.

Corollary proc_boundary_state st r : fst (proc_boundary st r) = st.
Proof. rewrite proc_boundary_pb. reflexivity. Qed.

Corollary proc_boundary_result st r : snd (proc_boundary st r) = pb r.
Proof. rewrite proc_boundary_pb. reflexivity. Qed.

Corollary proc_boundary_state_indep st st' r : snd (proc_boundary st r) = snd (proc_boundary st' r).
Proof. rewrite !proc_boundary_result. reflexivity. Qed.

(* the boundary as it sits in Procedure::execute: after the parameters are bound the outcome of
   the call is pb of the outcome of the body, in the state with the scope popped *)
Theorem proc_execute_pb rec st parms body argv st2 st3 r :
  bind_parms (push_scope st) (arg argv 0) parms parms (skipn 1 argv) = (st2, Ok tt) ->
  r_eval rec st2 body = (st3, r) ->
  proc_execute rec st parms body argv = (pop_scope st3, pb r).
Proof.
  intros HB HE. unfold proc_execute. rewrite HB, HE. apply proc_boundary_pb.
Qed.
Print Assumptions proc_execute_pb.

Lemma tb_eq r : tb r = toplevel_boundary r.
Proof. reflexivity. Qed.

(* normal results, panics and fuel exhaustion pass every boundary *)
Lemma pb_ok v : pb (Ok v) = Ok v.          Proof. reflexivity. Qed.
Lemma pb_panic p : pb (Panic p) = Panic p. Proof. reflexivity. Qed.
Lemma pb_fuel : pb Fuel = Fuel.            Proof. reflexivity. Qed.
Lemma tb_ok v : tb (Ok v) = Ok v.          Proof. reflexivity. Qed.

Lemma iter_pb_ok n v : iter_pb n (Ok v) = Ok v.
Proof. induction n as [|n IH]; [reflexivity|]. cbn [iter_pb]. rewrite pb_ok. exact IH. Qed.

Lemma iter_pb_add m n r : iter_pb (m + n) r = iter_pb n (iter_pb m r).
Proof. revert r. induction m as [|m IH]; intros r; [reflexivity|]. cbn [iter_pb Nat.add]. apply IH. Qed.

(* errors pass procedure boundaries unchanged *)
Lemma pb_error e : x_code e = CError -> pb (Err e) = Err e.
Proof. intros H. unfold pb. rewrite H. reflexivity. Qed.

Lemma pb_other e z : x_code e = COther z -> pb (Err e) = Err e.
Proof. intros H. unfold pb. rewrite H. reflexivity. Qed.

Lemma iter_pb_error n e : x_code e = CError -> iter_pb n (Err e) = Err e.
Proof. intros H. induction n as [|n IH]; [reflexivity|]. cbn [iter_pb]. rewrite pb_error by exact H. exact IH. Qed.

Lemma iter_pb_other n e z : x_code e = COther z -> iter_pb n (Err e) = Err e.
Proof.
  intros H. induction n as [|n IH]; [reflexivity|]. cbn [iter_pb]. rewrite (pb_other e z) by exact H. exact IH.
Qed.

(* ====================================================================================== *)
(* 2. return -code C -level L unwinds through exactly L procedure boundaries               *)
(* ====================================================================================== *)

(* the exceptions cmd_return builds *)
Lemma molt_return_ext_level v L C : 1 <= L -> molt_return_ext v L C = ret_exn v L C None.
Proof.
  intros H. unfold molt_return_ext, ret_exn.
  destruct (N.eqb_spec L 0) as [E|_]; [lia|]. cbn [andb].
  destruct (N.ltb_spec 0 L) as [_|E]; [reflexivity|lia].
Qed.

Lemma molt_return_err_level v L ec ei :
  1 <= L -> molt_return_err v L ec ei = ret_exn v L CError (Some (return_err_data v ec ei)).
Proof.
  intros H. unfold molt_return_err, ret_exn, return_err_data.
  destruct (N.eqb_spec L 0) as [E|_]; [lia|]. destruct ei; reflexivity.
Qed.

Lemma molt_return_ext_plain v C :
  C <> CReturn -> molt_return_ext v 0 C = plain_exn v C None.
Proof.
  intros H. unfold molt_return_ext, plain_exn.
  destruct C; try reflexivity. congruence.
Qed.

Lemma molt_return_ext_rearm v : molt_return_ext v 0 CReturn = ret_exn v 1 COkay None.
Proof. reflexivity. Qed.

Lemma molt_return_err_plain v ec ei :
  molt_return_err v 0 ec ei = plain_exn v CError (Some (return_err_data v ec ei)).
Proof. unfold molt_return_err, plain_exn, return_err_data. destruct ei; reflexivity. Qed.

(* one boundary, a level to spare *)
Lemma pb_ret_more v L C d : 1 <= L -> pb (Err (ret_exn v (L + 1) C d)) = Err (ret_exn v L C d).
Proof.
  intros H. unfold pb, ret_exn, decrement_level. cbn [x_code x_level x_value x_next x_data].
  replace (L + 1 - 1) with L by lia.
  destruct (N.eqb_spec L 0) as [E|_]; [lia|]. reflexivity.
Qed.

(* one boundary, the last level *)
Lemma pb_ret_last v C d : pb (Err (ret_exn v 1 C d)) = landed v C d.
Proof.
  unfold pb, ret_exn, decrement_level, landed, plain_exn. cbn [x_code x_level x_value x_next x_data].
  change (1 - 1 =? 0) with true. cbv iota.
  destruct C; reflexivity.
Qed.

(* k boundaries out of k + L leave L levels *)
Lemma iter_pb_ret_partial k : forall v L C d,
  1 <= L -> iter_pb k (Err (ret_exn v (L + N.of_nat k) C d)) = Err (ret_exn v L C d).
Proof.
  induction k as [|k IH]; intros v L C d H.
  - cbn [iter_pb N.of_nat]. rewrite N.add_0_r. reflexivity.
  - cbn [iter_pb]. replace (L + N.of_nat (S k)) with (L + N.of_nat k + 1) by lia.
    rewrite pb_ret_more by lia. apply IH. exact H.
Qed.

Lemma iter_pb_ret_exact_nat n v C d :
  iter_pb (S n) (Err (ret_exn v (N.of_nat (S n)) C d)) = landed v C d.
Proof.
  replace (S n) with (n + 1)%nat at 1 by lia.
  rewrite iter_pb_add.
  replace (N.of_nat (S n)) with (1 + N.of_nat n) by lia.
  rewrite iter_pb_ret_partial by lia.
  cbn [iter_pb]. apply pb_ret_last.
Qed.

(* THE UNWINDING THEOREM, for the in-flight exception in its general form (any error data) *)
Theorem ret_exn_unwinds v L C d :
  1 <= L ->
  (forall k, (k < N.to_nat L)%nat ->
     iter_pb k (Err (ret_exn v L C d)) = Err (ret_exn v (L - N.of_nat k) C d))
  /\ iter_pb (N.to_nat L) (Err (ret_exn v L C d)) = landed v C d.
Proof.
  intros H. split.
  - intros k Hk.
    replace L with ((L - N.of_nat k) + N.of_nat k) at 1 by lia.
    apply iter_pb_ret_partial. lia.
  - destruct (N.to_nat L) as [|n] eqn:E; [lia|].
    replace L with (N.of_nat (S n)) by lia.
    apply iter_pb_ret_exact_nat.
Qed.
Print Assumptions ret_exn_unwinds.

(* `return -code C -level L v` for C other than error *)
Theorem return_unwinds v L C :
  1 <= L ->
  let e := molt_return_ext v L C in
  (* still in flight after k < L boundaries: a return with L - k levels left, same value and code *)
  (forall k, (k < N.to_nat L)%nat ->
     exists e', iter_pb k (Err e) = Err e' /\
       x_code e' = CReturn /\ x_level e' = L - N.of_nat k /\ x_value e' = v /\ x_next e' = C /\
       x_data e' = None)
  (* after exactly L boundaries it has taken effect as code C *)
  /\ iter_pb (N.to_nat L) (Err e) =
       match C with
       | COkay => Ok v
       | CReturn => Err {| x_code := CReturn; x_value := v; x_level := 1; x_next := COkay; x_data := None |}
       | c => Err {| x_code := c; x_value := v; x_level := 0; x_next := c; x_data := None |}
       end.
Proof.
  intros H e. subst e. rewrite molt_return_ext_level by exact H.
  destruct (ret_exn_unwinds v L C None H) as [P Q]. split.
  - intros k Hk. eexists. split; [apply P; exact Hk|]. cbn. repeat split; reflexivity.
  - rewrite Q. unfold landed, ret_exn, plain_exn. destruct C; reflexivity.
Qed.
Print Assumptions return_unwinds.

(* the same, said with the constructors of the model: the landed exception is the one a
   level-0 return of that code would have built *)
Corollary return_unwinds_ext v L C :
  1 <= L -> C <> COkay ->
  iter_pb (N.to_nat L) (Err (molt_return_ext v L C)) = Err (molt_return_ext v 0 C).
Proof.
  intros H HC. destruct (return_unwinds v L C H) as [_ Q]. rewrite Q.
  destruct C; try reflexivity. congruence.
Qed.

Corollary return_unwinds_ok v L : 1 <= L -> iter_pb (N.to_nat L) (Err (molt_return_ext v L COkay)) = Ok v.
Proof. intros H. destruct (return_unwinds v L COkay H) as [_ Q]. exact Q. Qed.

Corollary return_unwinds_break v L :
  1 <= L -> iter_pb (N.to_nat L) (Err (molt_return_ext v L CBreak)) = Err (plain_exn v CBreak None).
Proof. intros H. destruct (return_unwinds v L CBreak H) as [_ Q]. exact Q. Qed.

Corollary return_unwinds_continue v L :
  1 <= L -> iter_pb (N.to_nat L) (Err (molt_return_ext v L CContinue)) = Err (plain_exn v CContinue None).
Proof. intros H. destruct (return_unwinds v L CContinue H) as [_ Q]. exact Q. Qed.

Corollary return_unwinds_other v L z :
  1 <= L -> iter_pb (N.to_nat L) (Err (molt_return_ext v L (COther z))) = Err (plain_exn v (COther z) None).
Proof. intros H. destruct (return_unwinds v L (COther z) H) as [_ Q]. exact Q. Qed.

(* -code return: re-armed as a plain return, which the NEXT boundary turns into Ok v *)
Corollary return_unwinds_return v L :
  1 <= L ->
  iter_pb (N.to_nat L) (Err (molt_return_ext v L CReturn)) = Err (ret_exn v 1 COkay None)
  /\ iter_pb (S (N.to_nat L)) (Err (molt_return_ext v L CReturn)) = Ok v.
Proof.
  intros H. destruct (return_unwinds v L CReturn H) as [_ Q]. split; [exact Q|].
  replace (S (N.to_nat L)) with (N.to_nat L + 1)%nat by lia.
  rewrite iter_pb_add, Q. reflexivity.
Qed.

(* a landed break/continue that meets one more procedure boundary is the documented error;
   a landed other code goes on unchanged and stays catchable *)
Corollary return_break_one_too_far v L :
  1 <= L ->
  iter_pb (S (N.to_nat L)) (Err (molt_return_ext v L CBreak)) = err (lit "invoked ""break"" outside of a loop").
Proof.
  intros H. replace (S (N.to_nat L)) with (N.to_nat L + 1)%nat by lia.
  rewrite iter_pb_add, return_unwinds_break by exact H. reflexivity.
Qed.

(* `return -code error -level L ?-errorcode c? ?-errorinfo i? msg` *)
Theorem return_err_unwinds v L ec ei :
  1 <= L ->
  let e := molt_return_err v L ec ei in
  let d := return_err_data v ec ei in
  (forall k, (k < N.to_nat L)%nat ->
     exists e', iter_pb k (Err e) = Err e' /\
       x_code e' = CReturn /\ x_level e' = L - N.of_nat k /\ x_value e' = v /\ x_next e' = CError /\
       x_data e' = Some d)
  /\ iter_pb (N.to_nat L) (Err e) =
       Err {| x_code := CError; x_value := v; x_level := 0; x_next := CError; x_data := Some d |}
  (* and from then on it is an ordinary error: further boundaries do not touch it *)
  /\ (forall n, iter_pb (N.to_nat L + n) (Err e) =
       Err {| x_code := CError; x_value := v; x_level := 0; x_next := CError; x_data := Some d |}).
Proof.
  intros H e d. subst e d. rewrite molt_return_err_level by exact H.
  destruct (ret_exn_unwinds v L CError (Some (return_err_data v ec ei)) H) as [P Q].
  split; [|split].
  - intros k Hk. eexists. split; [apply P; exact Hk|]. cbn. repeat split; reflexivity.
  - rewrite Q. reflexivity.
  - intros n. rewrite iter_pb_add, Q. apply iter_pb_error. reflexivity.
Qed.
Print Assumptions return_err_unwinds.

Corollary return_err_unwinds_plain v L :
  1 <= L ->
  iter_pb (N.to_nat L) (Err (molt_return_err v L None None)) = Err (molt_err_v v).
Proof.
  intros H. destruct (return_err_unwinds v L None None H) as (_ & Q & _). rewrite Q. reflexivity.
Qed.

Corollary return_err_unwinds_ext v L ec ei :
  1 <= L ->
  iter_pb (N.to_nat L) (Err (molt_return_err v L ec ei)) = Err (molt_return_err v 0 ec ei).
Proof.
  intros H. destruct (return_err_unwinds v L ec ei H) as (_ & Q & _). rewrite Q.
  rewrite molt_return_err_plain. reflexivity.
Qed.

(* ====================================================================================== *)
(* 3. cmd_return builds these exceptions                                                   *)
(* ====================================================================================== *)

Lemma args_spec_return : args_spec "cmd_return" = Some (1, 1, 0, "?options...? ?value?"%string)%Z.
Proof. vm_compute. reflexivity. Qed.

Lemma check_args_return argv : argv <> [] -> check_args "cmd_return" argv = Ok tt.
Proof.
  intros H. unfold check_args. rewrite args_spec_return. unfold check_args_raw.
  destruct argv as [|a r]; [congruence|]. reflexivity.
Qed.

(* i64 -> usize is the identity on the levels that can occur *)
Lemma level_of_int_id L : L < 2 ^ 64 -> level_of_int (Z.of_N L) = L.
Proof.
  intros H. unfold level_of_int. rewrite Z.mod_small; [apply N2Z.id|].
  split; [lia|]. change (2 ^ 64)%Z with (Z.of_N (2 ^ 64)). lia.
Qed.

(* the level goes out through `as MoltInt` (to_i64) and comes back through `as usize`
   (level_of_int): the round trip is the identity on every usize *)
Lemma to_i64_mod z : (to_i64 z mod 2 ^ 64 = z mod 2 ^ 64)%Z.
Proof.
  unfold to_i64. cbv zeta. destruct (z mod 2 ^ 64 <? 2 ^ 63)%Z.
  - apply Z.mod_mod. lia.
  - rewrite <- (Z.mod_add (z mod 2 ^ 64 - 2 ^ 64) 1 (2 ^ 64)) by lia.
    replace (z mod 2 ^ 64 - 2 ^ 64 + 1 * 2 ^ 64)%Z with (z mod 2 ^ 64)%Z by lia. apply Z.mod_mod. lia.
Qed.

Lemma to_i64_range z : in_i64 (to_i64 z) = true.
Proof.
  unfold to_i64, in_i64, i64_min, i64_max. cbv zeta.
  pose proof (Z.mod_pos_bound z (2 ^ 64) ltac:(lia)) as B.
  destruct (z mod 2 ^ 64 <? 2 ^ 63)%Z eqn:E; lia.
Qed.

Lemma to_i64_small z : (0 <= z < 2 ^ 63)%Z -> to_i64 z = z.
Proof. intros H. unfold to_i64. cbv zeta. rewrite Z.mod_small by lia. destruct (z <? 2 ^ 63)%Z eqn:E; lia. Qed.

Lemma level_of_int_to_i64 L : L < 2 ^ 64 -> level_of_int (to_i64 (Z.of_N L)) = L.
Proof. intros H. unfold level_of_int. rewrite to_i64_mod. apply (level_of_int_id L H). Qed.

(* ----- every exception the commands raise has a level that fits a usize ----- *)
Definition lvl_ok (e : exn) : Prop := x_level e < 2 ^ 64.

Lemma level_of_int_bound z : level_of_int z < 2 ^ 64.
Proof.
  unfold level_of_int. pose proof (Z.mod_pos_bound z (2 ^ 64) ltac:(lia)) as B.
  change (2 ^ 64) with (Z.to_N (2 ^ 64)). lia.
Qed.

Lemma molt_return_ext_lvl v L C : L < 2 ^ 64 -> lvl_ok (molt_return_ext v L C).
Proof.
  intros H. unfold lvl_ok, molt_return_ext. destruct ((L =? 0) && rcode_eqb C CReturn); cbn [x_level]; lia.
Qed.

Lemma molt_return_err_lvl v L ec ei : L < 2 ^ 64 -> lvl_ok (molt_return_err v L ec ei).
Proof. intros H. exact H. Qed.

Lemma decrement_level_lvl e : lvl_ok e -> lvl_ok (decrement_level e).
Proof.
  unfold lvl_ok, decrement_level. intros H.
  destruct (x_level e - 1 =? 0); [destruct (rcode_eqb (x_next e) CReturn)|]; cbn [x_level]; lia.
Qed.

Lemma molt_err_v_lvl m : lvl_ok (molt_err_v m).
Proof. unfold lvl_ok. cbn. lia. Qed.
Lemma molt_err2_lvl c m : lvl_ok (molt_err2 c m).
Proof. unfold lvl_ok. cbn. lia. Qed.
Lemma molt_break_lvl : lvl_ok molt_break.
Proof. unfold lvl_ok. cbn. lia. Qed.
Lemma molt_continue_lvl : lvl_ok molt_continue.
Proof. unfold lvl_ok. cbn. lia. Qed.
Lemma add_error_info_lvl e line : lvl_ok e -> lvl_ok (add_error_info e line).
Proof. intros H. exact H. Qed.

(* the level stored in the options dictionary of such an exception is an i64 in any case, and the
   plain number whenever it is below 2^63 *)
Lemma level_entry_small e : x_level e < 2 ^ 63 -> level_entry e = VInt (Z.of_N (x_level e)).
Proof.
  intros H. unfold level_entry. rewrite to_i64_small; [reflexivity|].
  split; [lia|]. change (2 ^ 63)%Z with (Z.of_N (2 ^ 63)). lia.
Qed.

(* `return` itself: whatever it raises has a level below 2^64 *)
Lemma return_options_parse_err l : forall o e, return_options_parse l o = Err e -> lvl_ok e.
Proof.
  induction l as [|k|k v r IH] using DictFacts.pair_ind; intros o e H; cbn [return_options_parse] in H;
    try discriminate.
  repeat match type of H with
         | (if ?b then _ else _) = _ => destruct b
         | match ?x with _ => _ end = _ => destruct x
         end;
    try (apply IH in H; exact H); try (injection H as <-; apply molt_err_v_lvl).
Qed.

Theorem cmd_return_lvl st argv st' e : cmd_return st argv = (st', Err e) -> lvl_ok e.
Proof.
  unfold cmd_return, bind, lift, ret. intros H.
  destruct (check_args "cmd_return" argv) as [[]|e0|p|] eqn:EC; try discriminate.
  2:{ injection H as _ <-. unfold check_args in EC.
      destruct (args_spec "cmd_return") as [[[[a b] c] sig]|]; [|discriminate].
      unfold check_args_raw in EC. destruct (_ || _); [|discriminate]. injection EC as <-. apply molt_err_v_lvl. }
  destruct argv as [|x [|y r]].
  - destruct (Nat.even (length (@nil value))); cbn in H.
    all: injection H as _ <-; apply molt_return_ext_lvl || apply molt_return_err_lvl; try apply level_of_int_bound; try (cbv; reflexivity).
  - injection H as _ <-. apply molt_return_ext_lvl. cbv. reflexivity.
  - revert H.
    generalize (if Nat.even (length (x :: y :: r)) then (last (x :: y :: r) v_empty, removelast (skipn 1 (x :: y :: r)))
                else (v_empty, skipn 1 (x :: y :: r))).
    intros [rv opts] H.
    destruct (return_options_parse opts _) as [o|e1|p|] eqn:EP; try discriminate.
    + destruct (rcode_eqb (ro_code o) CError).
      * injection H as _ <-. apply molt_return_err_lvl. apply level_of_int_bound.
      * destruct (_ && _); [discriminate|]. injection H as _ <-. apply molt_return_ext_lvl. apply level_of_int_bound.
    + injection H as _ <-. eapply return_options_parse_err. exact EP.
Qed.
Print Assumptions cmd_return_lvl.

(* the procedure boundary and the top level keep it *)
Lemma proc_boundary_lvl st r st' e :
  (forall e0, r = Err e0 -> lvl_ok e0) -> proc_boundary st r = (st', Err e) -> lvl_ok e.
Proof.
  intros Hr H. unfold proc_boundary in H. destruct r as [v|e0|p|]; try (injection H as _ E; discriminate E).
  specialize (Hr e0 eq_refl). unfold ret, fail in H.
  destruct (x_code e0); try (injection H as _ <-; try exact Hr; apply molt_err_v_lvl); try discriminate.
  destruct (x_code (decrement_level e0)); try discriminate; injection H as _ <-; apply decrement_level_lvl; exact Hr.
Qed.

Lemma toplevel_boundary_lvl r e :
  (forall e0, r = Err e0 -> lvl_ok e0) -> toplevel_boundary r = Err e -> lvl_ok e.
Proof.
  intros Hr H. unfold toplevel_boundary in H. destruct r as [v|e0|p|]; try discriminate.
  specialize (Hr e0 eq_refl).
  assert (X : lvl_ok match x_code e0 with CReturn => decrement_level e0 | _ => e0 end).
  { destruct (x_code e0); try exact Hr. apply decrement_level_lvl. exact Hr. }
  revert X H. generalize (match x_code e0 with CReturn => decrement_level e0 | _ => e0 end). intros e1 X H.
  destruct (x_code e1); try discriminate; injection H as <-; try exact X; apply molt_err_v_lvl.
Qed.

Lemma level_of_int_small z : (0 <= z < 2 ^ 64)%Z -> level_of_int z = Z.to_N z.
Proof. intros H. unfold level_of_int. rewrite Z.mod_small by exact H. reflexivity. Qed.

(* a negative level wraps around (Rust's `as usize`): documented here, not a protocol case *)
Lemma level_of_int_neg1 : level_of_int (-1) = 2 ^ 64 - 1.
Proof. reflexivity. Qed.

Definition ro_init : ret_opts := {| ro_code := COkay; ro_level := 1; ro_ecode := None; ro_einfo := None |}.

(* what cmd_return does once its options are parsed *)
Definition return_of_opts (st : interp) (rv : value) (o : ret_opts) : M value :=
  let level := level_of_int (ro_level o) in
  if rcode_eqb (ro_code o) CError then (st, Err (molt_return_err rv level (ro_ecode o) (ro_einfo o)))
  else if (level =? 0) && rcode_eqb (ro_code o) COkay then (st, Ok rv)
  else (st, Err (molt_return_ext rv level (ro_code o))).

Lemma cmd_return_bare st r : cmd_return st [r] = (st, Err (molt_return_ext v_empty 1 COkay)).
Proof. reflexivity. Qed.

Lemma cmd_return_value st r v : cmd_return st [r; v] = (st, Err (molt_return_ext v 1 COkay)).
Proof. reflexivity. Qed.

Lemma streq_code_code : str_eqb (lit "-code") (lit "-code") = true.             Proof. reflexivity. Qed.
Lemma streq_level_code : str_eqb (lit "-level") (lit "-code") = false.          Proof. reflexivity. Qed.
Lemma streq_level_ecode : str_eqb (lit "-level") (lit "-errorcode") = false.    Proof. reflexivity. Qed.
Lemma streq_level_einfo : str_eqb (lit "-level") (lit "-errorinfo") = false.    Proof. reflexivity. Qed.
Lemma streq_level_level : str_eqb (lit "-level") (lit "-level") = true.         Proof. reflexivity. Qed.
Lemma streq_ecode_code : str_eqb (lit "-errorcode") (lit "-code") = false.      Proof. reflexivity. Qed.
Lemma streq_ecode_ecode : str_eqb (lit "-errorcode") (lit "-errorcode") = true. Proof. reflexivity. Qed.
Lemma streq_einfo_code : str_eqb (lit "-errorinfo") (lit "-code") = false.      Proof. reflexivity. Qed.
Lemma streq_einfo_ecode : str_eqb (lit "-errorinfo") (lit "-errorcode") = false. Proof. reflexivity. Qed.
Lemma streq_einfo_einfo : str_eqb (lit "-errorinfo") (lit "-errorinfo") = true. Proof. reflexivity. Qed.

(* one step of the option parser for each documented option *)
Lemma parse_code k c r o C :
  as_str k = lit "-code" -> rcode_from_str (as_str c) = Some C ->
  return_options_parse (k :: c :: r) o =
  return_options_parse r {| ro_code := C; ro_level := ro_level o; ro_ecode := ro_ecode o; ro_einfo := ro_einfo o |}.
Proof. intros Hk Hc. cbn [return_options_parse]. rewrite Hk, streq_code_code, Hc. reflexivity. Qed.

Lemma parse_code_bad k c r o :
  as_str k = lit "-code" -> rcode_from_str (as_str c) = None ->
  return_options_parse (k :: c :: r) o = err (lit "invalid result code: """ ++ as_str c ++ lit """").
Proof. intros Hk Hc. cbn [return_options_parse]. rewrite Hk, streq_code_code, Hc. reflexivity. Qed.

Lemma parse_level k l r o z :
  as_str k = lit "-level" -> v_as_int l = inr z ->
  return_options_parse (k :: l :: r) o =
  return_options_parse r {| ro_code := ro_code o; ro_level := z; ro_ecode := ro_ecode o; ro_einfo := ro_einfo o |}.
Proof.
  intros Hk Hl. cbn [return_options_parse].
  rewrite Hk, streq_level_code, streq_level_ecode, streq_level_einfo, streq_level_level, Hl. reflexivity.
Qed.

Lemma parse_level_bad k l r o m :
  as_str k = lit "-level" -> v_as_int l = inl m ->
  return_options_parse (k :: l :: r) o = err m.
Proof.
  intros Hk Hl. cbn [return_options_parse].
  rewrite Hk, streq_level_code, streq_level_ecode, streq_level_einfo, streq_level_level, Hl. reflexivity.
Qed.

Lemma parse_errorcode k c r o :
  as_str k = lit "-errorcode" ->
  return_options_parse (k :: c :: r) o =
  return_options_parse r {| ro_code := ro_code o; ro_level := ro_level o; ro_ecode := Some c; ro_einfo := ro_einfo o |}.
Proof. intros Hk. cbn [return_options_parse]. rewrite Hk, streq_ecode_code, streq_ecode_ecode. reflexivity. Qed.

Lemma parse_errorinfo k i r o :
  as_str k = lit "-errorinfo" ->
  return_options_parse (k :: i :: r) o =
  return_options_parse r {| ro_code := ro_code o; ro_level := ro_level o; ro_ecode := ro_ecode o; ro_einfo := Some i |}.
Proof.
  intros Hk. cbn [return_options_parse]. rewrite Hk, streq_einfo_code, streq_einfo_ecode, streq_einfo_einfo.
  reflexivity.
Qed.

(* an unknown option is the documented error *)
Lemma parse_unknown k x r o :
  as_str k <> lit "-code" -> as_str k <> lit "-errorcode" -> as_str k <> lit "-errorinfo" ->
  as_str k <> lit "-level" ->
  return_options_parse (k :: x :: r) o = err (lit "invalid return option: """ ++ as_str k ++ lit """").
Proof.
  intros H1 H2 H3 H4. cbn [return_options_parse].
  destruct (str_eqb (as_str k) (lit "-code")) eqn:E1; [apply str_eqb_eq in E1; congruence|].
  destruct (str_eqb (as_str k) (lit "-errorcode")) eqn:E2; [apply str_eqb_eq in E2; congruence|].
  destruct (str_eqb (as_str k) (lit "-errorinfo")) eqn:E3; [apply str_eqb_eq in E3; congruence|].
  destruct (str_eqb (as_str k) (lit "-level")) eqn:E4; [apply str_eqb_eq in E4; congruence|].
  reflexivity.
Qed.

(* a trailing option without a value is silently dropped by the parser (the even/odd split of
   cmd_return makes it the VALUE instead: see cmd_return_odd below) *)
Lemma parse_end o : return_options_parse [] o = Ok o.   Proof. reflexivity. Qed.
Lemma parse_end1 k o : return_options_parse [k] o = Ok o. Proof. reflexivity. Qed.

(* cmd_return with at least one argument: split, parse, build *)
Lemma cmd_return_general st r a rest :
  let argv := r :: a :: rest in
  let rv := if Nat.even (length argv) then last argv v_empty else v_empty in
  let opts := if Nat.even (length argv) then removelast (a :: rest) else a :: rest in
  cmd_return st argv =
  match return_options_parse opts ro_init with
  | Ok o => return_of_opts st rv o
  | Err e => (st, Err e)
  | Panic p => (st, Panic p)
  | Fuel => (st, Fuel)
  end.
Proof.
  intros argv rv opts. subst argv rv opts. unfold cmd_return.
  rewrite check_args_return by discriminate. unfold lift. cbn [bind].
  cbn [skipn]. fold ro_init.
  destruct (Nat.even (length (r :: a :: rest)));
    (destruct (return_options_parse _ ro_init) as [o|e|p|]; cbn [bind]; try reflexivity).
Qed.

(* [return -code c v] *)
Theorem cmd_return_code st r k c v C :
  as_str k = lit "-code" -> rcode_from_str (as_str c) = Some C ->
  cmd_return st [r; k; c; v] =
  (st, Err (if rcode_eqb C CError then molt_return_err v 1 None None else molt_return_ext v 1 C)).
Proof.
  intros Hk Hc. rewrite cmd_return_general. cbn [length Nat.even removelast last].
  rewrite (parse_code k c [] ro_init C Hk Hc), parse_end. unfold return_of_opts. cbn [ro_code ro_level ro_ecode ro_einfo ro_init].
  change (level_of_int 1) with 1. change (1 =? 0) with false. cbn [andb].
  destruct (rcode_eqb C CError); reflexivity.
Qed.
Print Assumptions cmd_return_code.

(* [return -code c -level l v] *)
Theorem cmd_return_code_level st r k c kl l v C z :
  as_str k = lit "-code" -> rcode_from_str (as_str c) = Some C ->
  as_str kl = lit "-level" -> v_as_int l = inr z ->
  cmd_return st [r; k; c; kl; l; v] =
  let L := level_of_int z in
  if rcode_eqb C CError then (st, Err (molt_return_err v L None None))
  else if (L =? 0) && rcode_eqb C COkay then (st, Ok v)
  else (st, Err (molt_return_ext v L C)).
Proof.
  intros Hk Hc Hkl Hl. rewrite cmd_return_general. cbn [length Nat.even removelast last].
  rewrite (parse_code k c _ ro_init C Hk Hc), (parse_level kl l [] _ z Hkl Hl), parse_end.
  reflexivity.
Qed.
Print Assumptions cmd_return_code_level.

(* the same with the options in the other order *)
Theorem cmd_return_level_code st r k c kl l v C z :
  as_str k = lit "-code" -> rcode_from_str (as_str c) = Some C ->
  as_str kl = lit "-level" -> v_as_int l = inr z ->
  cmd_return st [r; kl; l; k; c; v] = cmd_return st [r; k; c; kl; l; v].
Proof.
  intros Hk Hc Hkl Hl. rewrite !cmd_return_general. cbn [length Nat.even removelast last].
  rewrite (parse_level kl l _ ro_init z Hkl Hl), (parse_code k c [] _ C Hk Hc).
  rewrite (parse_code k c _ ro_init C Hk Hc), (parse_level kl l [] _ z Hkl Hl). reflexivity.
Qed.

(* [return -code error -level l -errorcode ec -errorinfo ei msg] *)
Theorem cmd_return_error_full st r k c kl l kc ec ki ei v z :
  as_str k = lit "-code" -> rcode_from_str (as_str c) = Some CError ->
  as_str kl = lit "-level" -> v_as_int l = inr z ->
  as_str kc = lit "-errorcode" -> as_str ki = lit "-errorinfo" ->
  cmd_return st [r; k; c; kl; l; kc; ec; ki; ei; v] =
  (st, Err (molt_return_err v (level_of_int z) (Some ec) (Some ei))).
Proof.
  intros Hk Hc Hkl Hl Hkc Hki. rewrite cmd_return_general. cbn [length Nat.even removelast last].
  rewrite (parse_code k c _ ro_init CError Hk Hc), (parse_level kl l _ _ z Hkl Hl),
    (parse_errorcode kc ec _ _ Hkc), (parse_errorinfo ki ei [] _ Hki), parse_end.
  reflexivity.
Qed.
Print Assumptions cmd_return_error_full.

(* `return -code ok -level 0 v` is no exception at all *)
Theorem cmd_return_level0_ok st r k c kl l v :
  as_str k = lit "-code" -> rcode_from_str (as_str c) = Some COkay ->
  as_str kl = lit "-level" -> v_as_int l = inr 0%Z ->
  cmd_return st [r; k; c; kl; l; v] = (st, Ok v).
Proof. intros Hk Hc Hkl Hl. rewrite (cmd_return_code_level st r k c kl l v COkay 0%Z Hk Hc Hkl Hl). reflexivity. Qed.

Theorem cmd_return_level0 st r kl l v :
  as_str kl = lit "-level" -> v_as_int l = inr 0%Z ->
  cmd_return st [r; kl; l; v] = (st, Ok v).
Proof.
  intros Hkl Hl. rewrite cmd_return_general. cbn [length Nat.even removelast last].
  rewrite (parse_level kl l [] ro_init 0%Z Hkl Hl), parse_end. reflexivity.
Qed.

(* [return -level l v] *)
Theorem cmd_return_level st r kl l v z :
  as_str kl = lit "-level" -> v_as_int l = inr z -> level_of_int z <> 0 ->
  cmd_return st [r; kl; l; v] = (st, Err (molt_return_ext v (level_of_int z) COkay)).
Proof.
  intros Hkl Hl Hz. rewrite cmd_return_general. cbn [length Nat.even removelast last].
  rewrite (parse_level kl l [] ro_init z Hkl Hl), parse_end. unfold return_of_opts.
  cbn [ro_code ro_level ro_ecode ro_einfo rcode_eqb].
  destruct (N.eqb_spec (level_of_int z) 0) as [E|_]; [congruence|]. reflexivity.
Qed.

(* the documented errors *)
Theorem cmd_return_unknown_option st r k x v :
  as_str k <> lit "-code" -> as_str k <> lit "-errorcode" -> as_str k <> lit "-errorinfo" ->
  as_str k <> lit "-level" ->
  cmd_return st [r; k; x; v] = (st, err (lit "invalid return option: """ ++ as_str k ++ lit """")).
Proof.
  intros H1 H2 H3 H4. rewrite cmd_return_general. cbn [length Nat.even removelast last].
  rewrite (parse_unknown k x [] ro_init H1 H2 H3 H4). reflexivity.
Qed.

Theorem cmd_return_bad_code st r k c v :
  as_str k = lit "-code" -> rcode_from_str (as_str c) = None ->
  cmd_return st [r; k; c; v] = (st, err (lit "invalid result code: """ ++ as_str c ++ lit """")).
Proof.
  intros Hk Hc. rewrite cmd_return_general. cbn [length Nat.even removelast last].
  rewrite (parse_code_bad k c [] ro_init Hk Hc). reflexivity.
Qed.

Theorem cmd_return_bad_level st r kl l v m :
  as_str kl = lit "-level" -> v_as_int l = inl m ->
  cmd_return st [r; kl; l; v] = (st, err m).
Proof.
  intros Hkl Hl. rewrite cmd_return_general. cbn [length Nat.even removelast last].
  rewrite (parse_level_bad kl l [] ro_init m Hkl Hl). reflexivity.
Qed.

(* an even number of words after `return`: all of them are options and the value is empty.
   (With an odd number the last word is always the VALUE, even if it looks like an option:
   `return -code` returns the string "-code" (cmd_return_value), `return -code break -level`
   breaks with the value "-level" (cmd_return_code).  So the parser never sees a dangling
   option; if it did it would drop it: parse_end1.) *)
Theorem cmd_return_odd st r k c C :
  as_str k = lit "-code" -> rcode_from_str (as_str c) = Some C ->
  cmd_return st [r; k; c] =
  (st, Err (if rcode_eqb C CError then molt_return_err v_empty 1 None None else molt_return_ext v_empty 1 C)).
Proof.
  intros Hk Hc. rewrite cmd_return_general. cbn [length Nat.even].
  rewrite (parse_code k c [] ro_init C Hk Hc), parse_end. unfold return_of_opts. cbn [ro_code ro_level ro_ecode ro_einfo ro_init].
  change (level_of_int 1) with 1. change (1 =? 0) with false. cbn [andb].
  destruct (rcode_eqb C CError); reflexivity.
Qed.

(* the words of the documented codes *)
Lemma rcode_from_str_words :
  rcode_from_str (lit "ok") = Some COkay /\ rcode_from_str (lit "error") = Some CError /\
  rcode_from_str (lit "return") = Some CReturn /\ rcode_from_str (lit "break") = Some CBreak /\
  rcode_from_str (lit "continue") = Some CContinue /\ rcode_from_str (lit "7") = Some (COther 7).
Proof. repeat split; reflexivity. Qed.

(* numeric codes: the printed form of an integer is read back as that code *)
Lemma show_Z_head z : exists c r, show_Z z = c :: r /\ c <= 57.
Proof.
  destruct z as [|p|p]; cbn [show_Z].
  - exists 48, []. split; [reflexivity|lia].
  - destruct (show_N_spec (Npos p)) as [H1 [H2 _]].
    destruct (show_N (N.pos p)) as [|c r]; [congruence|]. exists c, r. split; [reflexivity|].
    cbn [forallb] in H2. apply andb_true_iff in H2. destruct H2 as [H2 _]. unfold is_digit10 in H2. lia.
  - exists c_minus, (show_N (N.pos p)). split; [reflexivity|]. unfold c_minus. lia.
Qed.

Lemma rcode_from_str_int z : in_i64 z = true -> rcode_from_str (show_Z z) = Some (rcode_of_int z).
Proof.
  intros Hz. unfold rcode_from_str. rewrite (int_roundtrip z Hz).
  destruct (show_Z_head z) as (c & r & E & Hc). rewrite E.
  assert (F : forall d w, 98 <= d -> str_eqb (c :: r) (d :: w) = false).
  { intros d w Hd. cbn [str_eqb]. destruct (N.eqb_spec c d) as [X|_]; [lia|]. reflexivity. }
  change (lit "ok") with (111 :: lit "k"). rewrite F by lia.
  change (lit "error") with (101 :: lit "rror"). rewrite F by lia.
  change (lit "return") with (114 :: lit "eturn"). rewrite F by lia.
  change (lit "break") with (98 :: lit "reak"). rewrite F by lia.
  change (lit "continue") with (99 :: lit "ontinue"). rewrite F by lia.
  reflexivity.
Qed.

Lemma rcode_of_as_int C :
  (forall z, C = COther z -> (z < 0 \/ 4 < z)%Z) -> rcode_of_int (rcode_as_int C) = C.
Proof.
  intros H. destruct C as [| | | | |z]; try reflexivity.
  specialize (H z eq_refl). unfold rcode_of_int, rcode_as_int.
  destruct (Z.eqb_spec z 0); [lia|]. destruct (Z.eqb_spec z 1); [lia|].
  destruct (Z.eqb_spec z 2); [lia|]. destruct (Z.eqb_spec z 3); [lia|].
  destruct (Z.eqb_spec z 4); [lia|]. reflexivity.
Qed.

(* the codes `return -code` can produce *)
Definition canonical_code (C : rcode) : Prop :=
  match C with COther z => in_i64 z = true /\ (z < 0 \/ 4 < z)%Z | _ => True end.

Lemma rcode_from_str_canonical s C : rcode_from_str s = Some C -> canonical_code C.
Proof.
  unfold rcode_from_str.
  repeat (match goal with |- context [if ?b then _ else _] => destruct b end;
          [intros H; injection H as <-; exact I|]).
  destruct (get_int s) as [z|] eqn:E; [|discriminate]. intros H. injection H as <-.
  assert (Hz : in_i64 z = true).
  { unfold get_int in E.
    repeat match type of E with
           | context [let '(_, _) := ?x in _] => destruct x
           | context [if ?b then _ else _] => destruct b eqn:?
           end; try discriminate; injection E as <-; assumption. }
  unfold rcode_of_int.
  destruct (Z.eqb_spec z 0); [exact I|]. destruct (Z.eqb_spec z 1); [exact I|].
  destruct (Z.eqb_spec z 2); [exact I|]. destruct (Z.eqb_spec z 3); [exact I|].
  destruct (Z.eqb_spec z 4); [exact I|]. cbn. split; [exact Hz|lia].
Qed.

Lemma rcode_from_str_as_int C :
  canonical_code C -> rcode_from_str (as_str (VInt (rcode_as_int C))) = Some C.
Proof.
  intros H. cbn [as_str].
  destruct C as [| | | | |z]; try reflexivity.
  destruct H as [Hz Hr]. cbn [rcode_as_int]. rewrite (rcode_from_str_int z Hz).
  f_equal. apply (rcode_of_as_int (COther z)). intros z' E. injection E as <-. exact Hr.
Qed.

(* THE PROTOCOL, command and unwinding together: `return -code c -level L v` with 1 <= L < 2^64
   raises an exception that is still a return after fewer than L procedure boundaries and has
   taken effect as code C after exactly L *)
Theorem return_protocol st r k c kl l v C L :
  as_str k = lit "-code" -> rcode_from_str (as_str c) = Some C ->
  as_str kl = lit "-level" -> v_as_int l = inr (Z.of_N L) ->
  1 <= L -> L < 2 ^ 64 ->
  exists e,
    cmd_return st [r; k; c; kl; l; v] = (st, Err e) /\
    (forall j, (j < N.to_nat L)%nat ->
       exists e', iter_pb j (Err e) = Err e' /\ x_code e' = CReturn /\ x_level e' = L - N.of_nat j
                  /\ x_value e' = v /\ x_next e' = C) /\
    iter_pb (N.to_nat L) (Err e) =
      match C with
      | COkay => Ok v
      | CError => Err (molt_err_v v)
      | CReturn => Err (ret_exn v 1 COkay None)
      | c => Err (plain_exn v c None)
      end.
Proof.
  intros Hk Hc Hkl Hl H1 H2.
  rewrite (cmd_return_code_level st r k c kl l v C (Z.of_N L) Hk Hc Hkl Hl).
  cbv zeta. rewrite (level_of_int_id L H2).
  destruct (N.eqb_spec L 0) as [E|_]; [lia|]. cbn [andb].
  destruct (rcode_eqb C CError) eqn:EC.
  - assert (C = CError) as -> by (destruct C; try discriminate; reflexivity).
    eexists. split; [reflexivity|].
    destruct (return_err_unwinds v L None None H1) as (P & Q & _). split.
    + intros j Hj. destruct (P j Hj) as (e' & A & B1 & B2 & B3 & B4 & _). exists e'. auto.
    + rewrite Q. reflexivity.
  - eexists. split; [reflexivity|].
    destruct (return_unwinds v L C H1) as (P & Q). split.
    + intros j Hj. destruct (P j Hj) as (e' & A & B1 & B2 & B3 & B4 & _). exists e'. auto.
    + rewrite Q. destruct C; try reflexivity. discriminate.
Qed.
Print Assumptions return_protocol.

(* ====================================================================================== *)
(* 4. break and continue; the loop frames                                                  *)
(* ====================================================================================== *)

Lemma cmd_break_raises st b : cmd_break st [b] = (st, Err molt_break).
Proof. reflexivity. Qed.
Lemma cmd_continue_raises st c : cmd_continue st [c] = (st, Err molt_continue).
Proof. reflexivity. Qed.

Lemma molt_break_plain : molt_break = plain_exn v_empty CBreak None.          Proof. reflexivity. Qed.
Lemma molt_continue_plain : molt_continue = plain_exn v_empty CContinue None. Proof. reflexivity. Qed.

(* escaping a procedure body or the top level is an error *)
Theorem pb_break : pb (Err molt_break) = err (lit "invoked ""break"" outside of a loop").
Proof. reflexivity. Qed.
Theorem pb_continue : pb (Err molt_continue) = err (lit "invoked ""continue"" outside of a loop").
Proof. reflexivity. Qed.
Theorem tb_break : tb (Err molt_break) = err (lit "invoked ""break"" outside of a loop").
Proof. reflexivity. Qed.
Theorem tb_continue : tb (Err molt_continue) = err (lit "invoked ""continue"" outside of a loop").
Proof. reflexivity. Qed.

(* the same for any exception of those codes, whatever it carries (e.g. one landed from
   `return -code break`) *)
Lemma pb_any_break e : x_code e = CBreak -> pb (Err e) = err (lit "invoked ""break"" outside of a loop").
Proof. intros H. unfold pb. rewrite H. reflexivity. Qed.
Lemma pb_any_continue e : x_code e = CContinue -> pb (Err e) = err (lit "invoked ""continue"" outside of a loop").
Proof. intros H. unfold pb. rewrite H. reflexivity. Qed.
Lemma tb_any_break e : x_code e = CBreak -> tb (Err e) = err (lit "invoked ""break"" outside of a loop").
Proof. intros H. unfold tb, toplevel_boundary. rewrite H. cbv iota. rewrite H. reflexivity. Qed.
Lemma tb_any_continue e : x_code e = CContinue -> tb (Err e) = err (lit "invoked ""continue"" outside of a loop").
Proof. intros H. unfold tb, toplevel_boundary. rewrite H. cbv iota. rewrite H. reflexivity. Qed.

(* the top level: a return with its last level takes effect there, and what is not a normal
   result, an error or a re-armed return is reported as an error *)
Lemma tb_ret_last v C d :
  tb (Err (ret_exn v 1 C d)) =
  match C with
  | COkay => Ok v
  | CError => Err (plain_exn v CError d)
  | CReturn => Err (ret_exn v 1 COkay d)
  | CBreak => err (lit "invoked ""break"" outside of a loop")
  | CContinue => err (lit "invoked ""continue"" outside of a loop")
  | COther _ => err (lit "unexpected result code.")
  end.
Proof. destruct C; reflexivity. Qed.

(* a return with levels to spare leaves the top level as a return with one level less *)
Lemma tb_ret_more v L C d : 1 <= L -> tb (Err (ret_exn v (L + 1) C d)) = Err (ret_exn v L C d).
Proof.
  intros H. unfold tb, toplevel_boundary, ret_exn, decrement_level. cbn [x_code x_level x_value x_next x_data].
  replace (L + 1 - 1) with L by lia.
  destruct (N.eqb_spec L 0) as [E|_]; [lia|]. reflexivity.
Qed.

Lemma tb_error e : x_code e = CError -> tb (Err e) = Err e.
Proof. intros H. unfold tb, toplevel_boundary. rewrite H. cbv iota. rewrite H. reflexivity. Qed.

Lemma tb_other e z : x_code e = COther z -> tb (Err e) = err (lit "unexpected result code.").
Proof. intros H. unfold tb, toplevel_boundary. rewrite H. cbv iota. rewrite H. reflexivity. Qed.

(* loop_body_outcome *)
Theorem loop_body_outcome_break : loop_body_outcome (Err molt_break) = Some false.
Proof. reflexivity. Qed.
Theorem loop_body_outcome_continue : loop_body_outcome (Err molt_continue) = Some true.
Proof. reflexivity. Qed.
Theorem loop_body_outcome_ok v : loop_body_outcome (Ok v) = Some true.
Proof. reflexivity. Qed.
Theorem loop_body_outcome_propagates r :
  (forall v, r <> Ok v) -> (forall e, r = Err e -> x_code e <> CBreak /\ x_code e <> CContinue) ->
  loop_body_outcome r = None.
Proof.
  intros H1 H2. destruct r as [v|e|p|]; try reflexivity.
  - exfalso. exact (H1 v eq_refl).
  - destruct (H2 e eq_refl) as [A B]. unfold loop_body_outcome. destruct (x_code e); congruence.
Qed.

(* it is the loop_action_of of the specification *)
Lemma loop_body_outcome_spec r :
  loop_body_outcome r =
  match loop_action_of r with LoopNext => Some true | LoopStop => Some false | LoopExit _ => None end.
Proof. destruct r as [v|e|p|]; try reflexivity. unfold loop_body_outcome, loop_action_of. destruct (x_code e); reflexivity. Qed.

Lemma loop_action_exit_same r r' : loop_action_of r = LoopExit r' -> r' = r.
Proof.
  destruct r as [v|e|p|]; cbn [loop_action_of]; try congruence.
  destruct (x_code e); congruence.
Qed.

Lemma loop_action_break e : x_code e = CBreak -> loop_action_of (Err e) = LoopStop.
Proof. intros H. unfold loop_action_of. rewrite H. reflexivity. Qed.
Lemma loop_action_continue e : x_code e = CContinue -> loop_action_of (Err e) = LoopNext.
Proof. intros H. unfold loop_action_of. rewrite H. reflexivity. Qed.
Lemma loop_action_other e :
  x_code e <> CBreak -> x_code e <> CContinue -> loop_action_of (Err e) = LoopExit (Err e).
Proof. intros A B. unfold loop_action_of. destruct (x_code e); congruence. Qed.

Section Loops.
Variable rec : recfns.

(* ----- while ----- *)
Theorem while_loop_step n st test body st0 st1 r :
  expr_bool rec st test = (st0, Ok true) ->
  r_eval rec st0 body = (st1, r) ->
  while_loop rec (S n) st test body =
  match loop_action_of r with
  | LoopNext => while_loop rec n st1 test body
  | LoopStop => (st1, Ok v_empty)
  | LoopExit r' => (st1, r')
  end.
Proof.
  intros HT HB. cbn [while_loop]. rewrite HT. cbn [bind]. rewrite HB.
  rewrite loop_body_outcome_spec.
  destruct (loop_action_of r) as [| |r'] eqn:E; try reflexivity.
  rewrite (loop_action_exit_same r r' E). reflexivity.
Qed.

Lemma while_loop_done n st test body st0 :
  expr_bool rec st test = (st0, Ok false) -> while_loop rec (S n) st test body = (st0, Ok v_empty).
Proof. intros HT. cbn [while_loop]. rewrite HT. reflexivity. Qed.

Lemma while_loop_test_error n st test body st0 e :
  expr_bool rec st test = (st0, Err e) -> while_loop rec (S n) st test body = (st0, Err e).
Proof. intros HT. cbn [while_loop]. rewrite HT. reflexivity. Qed.

(* the three cases of the frame lemma for a body that raises *)
Corollary while_loop_break n st test body st0 st1 e :
  expr_bool rec st test = (st0, Ok true) -> r_eval rec st0 body = (st1, Err e) -> x_code e = CBreak ->
  while_loop rec (S n) st test body = (st1, Ok v_empty).
Proof. intros HT HB HC. rewrite (while_loop_step n st test body st0 st1 _ HT HB), (loop_action_break e HC). reflexivity. Qed.

Corollary while_loop_continue n st test body st0 st1 e :
  expr_bool rec st test = (st0, Ok true) -> r_eval rec st0 body = (st1, Err e) -> x_code e = CContinue ->
  while_loop rec (S n) st test body = while_loop rec n st1 test body.
Proof. intros HT HB HC. rewrite (while_loop_step n st test body st0 st1 _ HT HB), (loop_action_continue e HC). reflexivity. Qed.

Corollary while_loop_propagates n st test body st0 st1 e :
  expr_bool rec st test = (st0, Ok true) -> r_eval rec st0 body = (st1, Err e) ->
  x_code e <> CBreak -> x_code e <> CContinue ->
  while_loop rec (S n) st test body = (st1, Err e).
Proof. intros HT HB A B. rewrite (while_loop_step n st test body st0 st1 _ HT HB), (loop_action_other e A B). reflexivity. Qed.

Corollary while_loop_body_ok n st test body st0 st1 v :
  expr_bool rec st test = (st0, Ok true) -> r_eval rec st0 body = (st1, Ok v) ->
  while_loop rec (S n) st test body = while_loop rec n st1 test body.
Proof. intros HT HB. rewrite (while_loop_step n st test body st0 st1 _ HT HB). reflexivity. Qed.

Lemma cmd_while_eq st w test body :
  cmd_while rec st [w; test; body] = while_loop rec (r_loop rec) st test body.
Proof. reflexivity. Qed.

(* ----- for ----- *)

(* what the loop does with the outcome of its `next` script: `next` is not inside the loop
   body, so break still ends the loop but continue is a stray continue *)
Definition for_after_next (n : nat) (test next body : value) (st2 : interp) (r2 : res value) : M value :=
  match r2 with
  | Ok _ => for_loop rec n st2 test next body
  | Err e =>
      match x_code e with
      | CBreak => (st2, Ok v_empty)
      | CContinue => (st2, err (lit "invoked ""continue"" outside of a loop"))
      | _ => (st2, r2)
      end
  | _ => (st2, r2)
  end.

Theorem for_loop_step n st test next body st0 st1 r :
  expr_bool rec st test = (st0, Ok true) ->
  r_eval rec st0 body = (st1, r) ->
  for_loop rec (S n) st test next body =
  match loop_action_of r with
  | LoopNext => let '(st2, r2) := r_eval rec st1 next in for_after_next n test next body st2 r2
  | LoopStop => (st1, Ok v_empty)                 (* `next` does not run after a break *)
  | LoopExit r' => (st1, r')
  end.
Proof.
  intros HT HB. cbn [for_loop]. rewrite HT. cbn [bind]. rewrite HB.
  rewrite loop_body_outcome_spec.
  destruct (loop_action_of r) as [| |r'] eqn:E; try reflexivity.
  rewrite (loop_action_exit_same r r' E). reflexivity.
Qed.

Lemma for_loop_done n st test next body st0 :
  expr_bool rec st test = (st0, Ok false) -> for_loop rec (S n) st test next body = (st0, Ok v_empty).
Proof. intros HT. cbn [for_loop]. rewrite HT. reflexivity. Qed.

Corollary for_loop_break n st test next body st0 st1 e :
  expr_bool rec st test = (st0, Ok true) -> r_eval rec st0 body = (st1, Err e) -> x_code e = CBreak ->
  for_loop rec (S n) st test next body = (st1, Ok v_empty).
Proof. intros HT HB HC. rewrite (for_loop_step n st test next body st0 st1 _ HT HB), (loop_action_break e HC). reflexivity. Qed.

Corollary for_loop_continue n st test next body st0 st1 st2 e w :
  expr_bool rec st test = (st0, Ok true) -> r_eval rec st0 body = (st1, Err e) -> x_code e = CContinue ->
  r_eval rec st1 next = (st2, Ok w) ->
  for_loop rec (S n) st test next body = for_loop rec n st2 test next body.
Proof.
  intros HT HB HC HN. rewrite (for_loop_step n st test next body st0 st1 _ HT HB), (loop_action_continue e HC), HN.
  reflexivity.
Qed.

Corollary for_loop_body_ok n st test next body st0 st1 st2 v w :
  expr_bool rec st test = (st0, Ok true) -> r_eval rec st0 body = (st1, Ok v) ->
  r_eval rec st1 next = (st2, Ok w) ->
  for_loop rec (S n) st test next body = for_loop rec n st2 test next body.
Proof. intros HT HB HN. rewrite (for_loop_step n st test next body st0 st1 _ HT HB). cbn [loop_action_of]. rewrite HN. reflexivity. Qed.

Corollary for_loop_propagates n st test next body st0 st1 e :
  expr_bool rec st test = (st0, Ok true) -> r_eval rec st0 body = (st1, Err e) ->
  x_code e <> CBreak -> x_code e <> CContinue ->
  for_loop rec (S n) st test next body = (st1, Err e).
Proof. intros HT HB A B. rewrite (for_loop_step n st test next body st0 st1 _ HT HB), (loop_action_other e A B). reflexivity. Qed.

(* exceptions raised by `next` (after a completed or continued body) *)
Corollary for_loop_next_break n st test next body st0 st1 st2 r e :
  expr_bool rec st test = (st0, Ok true) -> r_eval rec st0 body = (st1, r) -> loop_action_of r = LoopNext ->
  r_eval rec st1 next = (st2, Err e) -> x_code e = CBreak ->
  for_loop rec (S n) st test next body = (st2, Ok v_empty).
Proof.
  intros HT HB HA HN HC. rewrite (for_loop_step n st test next body st0 st1 _ HT HB), HA, HN.
  unfold for_after_next. rewrite HC. reflexivity.
Qed.

Corollary for_loop_next_continue n st test next body st0 st1 st2 r e :
  expr_bool rec st test = (st0, Ok true) -> r_eval rec st0 body = (st1, r) -> loop_action_of r = LoopNext ->
  r_eval rec st1 next = (st2, Err e) -> x_code e = CContinue ->
  for_loop rec (S n) st test next body = (st2, err (lit "invoked ""continue"" outside of a loop")).
Proof.
  intros HT HB HA HN HC. rewrite (for_loop_step n st test next body st0 st1 _ HT HB), HA, HN.
  unfold for_after_next. rewrite HC. reflexivity.
Qed.

Corollary for_loop_next_propagates n st test next body st0 st1 st2 r e :
  expr_bool rec st test = (st0, Ok true) -> r_eval rec st0 body = (st1, r) -> loop_action_of r = LoopNext ->
  r_eval rec st1 next = (st2, Err e) -> x_code e <> CBreak -> x_code e <> CContinue ->
  for_loop rec (S n) st test next body = (st2, Err e).
Proof.
  intros HT HB HA HN A B. rewrite (for_loop_step n st test next body st0 st1 _ HT HB), HA, HN.
  unfold for_after_next. destruct (x_code e); congruence.
Qed.

(* ----- foreach ----- *)
Theorem foreach_loop_step n st vars l body st0 rest st1 r :
  l <> [] ->
  assign_vars st vars l = (st0, Ok rest) ->
  r_eval rec st0 body = (st1, r) ->
  foreach_loop rec (S n) st vars l body =
  match loop_action_of r with
  | LoopNext => foreach_loop rec n st1 vars rest body
  | LoopStop => (st1, Ok v_empty)
  | LoopExit r' => (st1, r')
  end.
Proof.
  intros HL HA HB. cbn [foreach_loop]. destruct l as [|x l']; [congruence|].
  rewrite HA. cbn [bind]. rewrite HB.
  rewrite loop_body_outcome_spec.
  destruct (loop_action_of r) as [| |r'] eqn:E; try reflexivity.
  rewrite (loop_action_exit_same r r' E). reflexivity.
Qed.

Lemma foreach_loop_done n st vars body : foreach_loop rec (S n) st vars [] body = (st, Ok v_empty).
Proof. reflexivity. Qed.

Corollary foreach_loop_break n st vars l body st0 rest st1 e :
  l <> [] -> assign_vars st vars l = (st0, Ok rest) -> r_eval rec st0 body = (st1, Err e) ->
  x_code e = CBreak ->
  foreach_loop rec (S n) st vars l body = (st1, Ok v_empty).
Proof. intros HL HA HB HC. rewrite (foreach_loop_step n st vars l body st0 rest st1 _ HL HA HB), (loop_action_break e HC). reflexivity. Qed.

Corollary foreach_loop_continue n st vars l body st0 rest st1 e :
  l <> [] -> assign_vars st vars l = (st0, Ok rest) -> r_eval rec st0 body = (st1, Err e) ->
  x_code e = CContinue ->
  foreach_loop rec (S n) st vars l body = foreach_loop rec n st1 vars rest body.
Proof. intros HL HA HB HC. rewrite (foreach_loop_step n st vars l body st0 rest st1 _ HL HA HB), (loop_action_continue e HC). reflexivity. Qed.

Corollary foreach_loop_propagates n st vars l body st0 rest st1 e :
  l <> [] -> assign_vars st vars l = (st0, Ok rest) -> r_eval rec st0 body = (st1, Err e) ->
  x_code e <> CBreak -> x_code e <> CContinue ->
  foreach_loop rec (S n) st vars l body = (st1, Err e).
Proof. intros HL HA HB A B. rewrite (foreach_loop_step n st vars l body st0 rest st1 _ HL HA HB), (loop_action_other e A B). reflexivity. Qed.

End Loops.
Print Assumptions while_loop_step.
Print Assumptions for_loop_step.
Print Assumptions foreach_loop_step.

(* ====================================================================================== *)
(* 5. catch                                                                                *)
(* ====================================================================================== *)

Lemma args_spec_catch :
  args_spec "cmd_catch" = Some (1, 2, 4, "script ?resultVarName? ?optionsVarName?"%string)%Z.
Proof. vm_compute. reflexivity. Qed.

Lemma check_args_catch2 a b : check_args "cmd_catch" [a; b] = Ok tt.
Proof. unfold check_args. rewrite args_spec_catch. reflexivity. Qed.
Lemma check_args_catch3 a b c : check_args "cmd_catch" [a; b; c] = Ok tt.
Proof. unfold check_args. rewrite args_spec_catch. reflexivity. Qed.
Lemma check_args_catch4 a b c d : check_args "cmd_catch" [a; b; c; d] = Ok tt.
Proof. unfold check_args. rewrite args_spec_catch. reflexivity. Qed.

Section Catch.
Variable rec : recfns.

(* catch with both variables, body raises: every code is intercepted *)
Theorem cmd_catch_err st c body rv ov st1 e :
  r_eval rec st body = (st1, Err e) -> x_code e <> COkay ->
  cmd_catch rec st [c; body; rv; ov] =
  (do (st2, _) <- st_set_var st1 rv (x_value e);
   do (st2', o) <- lift st2 (return_options (Err e));
   do (st3, _) <- st_set_var st2' ov o;
   ret st3 (VInt (rcode_as_int (x_code e)))).
Proof.
  intros HE HC. unfold cmd_catch. rewrite check_args_catch4. unfold lift at 1. cbn [bind].
  change (arg [c; body; rv; ov] 1) with body. rewrite HE.
  change (arg [c; body; rv; ov] 2) with rv. change (arg [c; body; rv; ov] 3) with ov.
  cbn [length Nat.leb Nat.eqb].
  destruct (x_code e) eqn:EC; try congruence;
    unfold lift at 1; cbn [bind fst snd];
    (destruct (st_set_var st1 rv (x_value e)) as [st2 [[]|e2|p2|]]; cbn [bind]; try reflexivity;
     unfold lift; destruct (return_options (Err e)) as [o|e3|p3|]; cbn [bind]; try reflexivity;
     destruct (st_set_var st2 ov o) as [st3 [[]|e4|p4|]]; cbn [bind]; reflexivity).
Qed.

(* ... and when the two assignments succeed *)
Corollary cmd_catch_err_ok st c body rv ov st1 e st2 o st3 :
  r_eval rec st body = (st1, Err e) -> x_code e <> COkay ->
  st_set_var st1 rv (x_value e) = (st2, Ok tt) ->
  return_options (Err e) = Ok o ->
  st_set_var st2 ov o = (st3, Ok tt) ->
  cmd_catch rec st [c; body; rv; ov] = (st3, Ok (VInt (rcode_as_int (x_code e)))).
Proof.
  intros HE HC H1 H2 H3. rewrite (cmd_catch_err st c body rv ov st1 e HE HC).
  rewrite H1. cbn [bind]. rewrite H2. unfold lift. cbn [bind]. rewrite H3. reflexivity.
Qed.

(* fewer arguments *)
Theorem cmd_catch_err2 st c body st1 e :
  r_eval rec st body = (st1, Err e) -> x_code e <> COkay ->
  cmd_catch rec st [c; body] = (st1, Ok (VInt (rcode_as_int (x_code e)))).
Proof.
  intros HE HC. unfold cmd_catch. rewrite check_args_catch2. unfold lift at 1. cbn [bind].
  change (arg [c; body] 1) with body. rewrite HE. cbn [length Nat.leb Nat.eqb].
  destruct (x_code e) eqn:EC; try congruence; reflexivity.
Qed.

Theorem cmd_catch_err3 st c body rv st1 e :
  r_eval rec st body = (st1, Err e) -> x_code e <> COkay ->
  cmd_catch rec st [c; body; rv] =
  (do (st2, _) <- st_set_var st1 rv (x_value e); ret st2 (VInt (rcode_as_int (x_code e)))).
Proof.
  intros HE HC. unfold cmd_catch. rewrite check_args_catch3. unfold lift at 1. cbn [bind].
  change (arg [c; body; rv] 1) with body. rewrite HE. change (arg [c; body; rv] 2) with rv.
  cbn [length Nat.leb Nat.eqb].
  destruct (x_code e) eqn:EC; try congruence;
    unfold lift at 1; cbn [bind fst snd];
    (destruct (st_set_var st1 rv (x_value e)) as [st2 [[]|e2|p2|]]; cbn [bind]; reflexivity).
Qed.

(* a body that completes normally: code 0 *)
Theorem cmd_catch_ok st c body rv ov st1 v :
  r_eval rec st body = (st1, Ok v) ->
  cmd_catch rec st [c; body; rv; ov] =
  (do (st2, _) <- st_set_var st1 rv v;
   do (st2', o) <- lift st2 (return_options (Ok v));
   do (st3, _) <- st_set_var st2' ov o;
   ret st3 (VInt 0)).
Proof.
  intros HE. unfold cmd_catch. rewrite check_args_catch4. unfold lift at 1. cbn [bind].
  change (arg [c; body; rv; ov] 1) with body. rewrite HE.
  change (arg [c; body; rv; ov] 2) with rv. change (arg [c; body; rv; ov] 3) with ov.
  cbn [length Nat.leb Nat.eqb]. unfold lift at 1; cbn [bind fst snd].
  destruct (st_set_var st1 rv v) as [st2 [[]|e2|p2|]]; cbn [bind]; reflexivity.
Qed.

(* catch is not a barrier for model panics / fuel exhaustion (they are not outcomes of molt) *)
Lemma cmd_catch_fuel st c body rv ov st1 :
  r_eval rec st body = (st1, Fuel) -> cmd_catch rec st [c; body; rv; ov] = (st1, Fuel).
Proof.
  intros HE. unfold cmd_catch. rewrite check_args_catch4. unfold lift at 1. cbn [bind].
  change (arg [c; body; rv; ov] 1) with body. rewrite HE. reflexivity.
Qed.

End Catch.
Print Assumptions cmd_catch_err.
Print Assumptions cmd_catch_err_ok.
Print Assumptions cmd_catch_ok.

(* the number catch returns is the specification's catch_code, and the FCatch frame *)
Lemma catch_code_err e : catch_code (Err e) = rcode_as_int (x_code e).
Proof. reflexivity. Qed.

(* ----- the options dictionary ----- *)
Definition k_code : value := VStr (lit "-code").
Definition k_level : value := VStr (lit "-level").
Definition k_errorcode : value := VStr (lit "-errorcode").
Definition k_errorinfo : value := VStr (lit "-errorinfo").

Theorem return_options_ok v :
  return_options (Ok v) = Ok (VDict [(k_code, VStr (lit "0")); (k_level, VStr (lit "0"))]).
Proof. reflexivity. Qed.

(* the dictionary, explicitly *)
Theorem return_options_err e :
  x_code e <> COkay -> (x_code e = CError -> x_data e <> None) ->
  return_options (Err e) =
  Ok (VDict (match x_data e with
             | Some d =>
                 if rcode_eqb (x_code e) CError || rcode_eqb (x_code e) CReturn then
                   [(k_code, code_entry e); (k_errorcode, ed_code d); (k_errorinfo, VStr (ed_info d));
                    (k_level, level_entry e)]
                 else [(k_code, code_entry e); (k_level, level_entry e)]
             | None => [(k_code, code_entry e); (k_level, level_entry e)]
             end)).
Proof.
  intros HC HD. unfold return_options, code_entry, level_entry, effective_code.
  destruct (x_code e) eqn:EC; try congruence; cbn [rcode_eqb orb];
    destruct (x_data e) as [d|] eqn:ED; try reflexivity.
  exfalso. apply HD; reflexivity.
Qed.
Print Assumptions return_options_err.

(* its -code and -level entries *)
Theorem return_options_entries e :
  x_code e <> COkay -> (x_code e = CError -> x_data e <> None) ->
  exists d, return_options (Err e) = Ok (VDict d)
    /\ dict_get d k_code = Some (code_entry e)
    /\ dict_get d k_level = Some (level_entry e)
    /\ v_as_int (code_entry e) = inr (rcode_as_int (effective_code e))
    /\ v_as_int (level_entry e) = inr (to_i64 (Z.of_N (x_level e))).
Proof.
  intros HC HD. rewrite (return_options_err e HC HD). eexists. split; [reflexivity|].
  split; [|split; [|split]].
  - destruct (x_data e); [destruct (_ || _)|]; reflexivity.
  - destruct (x_data e); [destruct (_ || _)|]; reflexivity.
  - unfold code_entry, effective_code. destruct (x_code e); reflexivity.
  - reflexivity.
Qed.
Print Assumptions return_options_entries.

(* -code is the code in flight: the NEXT code of a return, the code itself otherwise *)
Corollary code_entry_return e :
  x_code e = CReturn -> v_as_int (code_entry e) = inr (rcode_as_int (x_next e)).
Proof. intros H. unfold code_entry, effective_code. rewrite H. reflexivity. Qed.

Corollary code_entry_plain e :
  x_code e <> CReturn -> x_code e <> COkay -> v_as_int (code_entry e) = inr (rcode_as_int (x_code e)).
Proof. intros H H0. unfold code_entry, effective_code. destruct (x_code e); try reflexivity; congruence. Qed.

(* the error entries *)
Theorem return_options_error_entries e dd :
  (x_code e = CError \/ x_code e = CReturn) -> x_data e = Some dd ->
  exists d, return_options (Err e) = Ok (VDict d)
    /\ dict_get d k_errorcode = Some (ed_code dd)
    /\ dict_get d k_errorinfo = Some (VStr (ed_info dd)).
Proof.
  intros HC HD. unfold return_options. rewrite HD.
  destruct HC as [HC|HC]; rewrite HC; eexists; (split; [reflexivity|split; reflexivity]).
Qed.

(* ====================================================================================== *)
(* 6. re-raising what catch stored reproduces the exception                                *)
(* ====================================================================================== *)

(* the exceptions of the protocol are well formed *)
Lemma ret_exn_wf v L C : 1 <= L -> C <> CError -> exn_wf (ret_exn v L C None).
Proof.
  intros H HC. unfold exn_wf, ret_exn, effective_code. cbn [x_code x_level x_next x_data].
  repeat split; intros; try congruence; try assumption.
Qed.

Lemma plain_exn_wf v C : C <> COkay -> C <> CReturn -> C <> CError -> exn_wf (plain_exn v C None).
Proof.
  intros H1 H2 H3. unfold exn_wf, plain_exn, effective_code. cbn [x_code x_level x_next x_data].
  repeat split; try congruence.
Qed.

Lemma molt_return_ext_wf v L C : C <> CError -> (L = 0 -> C <> COkay) -> exn_wf (molt_return_ext v L C).
Proof.
  intros HC HL. destruct (N.eq_dec L 0) as [->|HN].
  - destruct C; try congruence; try (apply (plain_exn_wf v); congruence).
    + exfalso. apply HL; reflexivity.
    + rewrite molt_return_ext_rearm. apply ret_exn_wf; [lia|congruence].
  - rewrite molt_return_ext_level by lia. apply ret_exn_wf; [lia|exact HC].
Qed.

Lemma molt_return_err_wf v L ec ei : exn_wf (molt_return_err v L ec ei).
Proof.
  unfold exn_wf, molt_return_err, effective_code. cbn [x_code x_level x_next x_data].
  destruct (N.eqb_spec L 0) as [E|E]; repeat split; try congruence; try lia.
Qed.

Lemma molt_break_wf : exn_wf molt_break.
Proof. apply plain_exn_wf; congruence. Qed.
Lemma molt_continue_wf : exn_wf molt_continue.
Proof. apply plain_exn_wf; congruence. Qed.
Lemma molt_err_wf m : exn_wf (molt_err_v m).
Proof. unfold exn_wf, molt_err_v, effective_code. cbn. repeat split; congruence. Qed.

(* well-formedness is kept by the boundaries *)
Lemma pb_wf e e' : exn_wf e -> pb (Err e) = Err e' -> exn_wf e'.
Proof.
  intros W H. destruct e as [c v L nx d]. unfold exn_wf, effective_code in W.
  cbn [x_code x_level x_next x_data] in W. destruct W as (W1 & W2 & W3 & W4).
  unfold pb in H. cbn [x_code] in H.
  destruct c.
  - congruence.
  - injection H as <-. unfold exn_wf, effective_code. cbn [x_code x_level x_next x_data].
    repeat split; intros; try congruence; try (apply W3; congruence).
  - specialize (W2 eq_refl). unfold decrement_level in H. cbn [x_code x_level x_next x_data x_value] in H.
    destruct (N.eqb_spec (L - 1) 0) as [E0|E0].
    + destruct nx; cbn [rcode_eqb x_code] in H; try discriminate H; injection H as <-;
        unfold exn_wf, effective_code; cbn [x_code x_level x_next x_data];
        repeat split; intros; try congruence; try lia; try (apply W4; congruence).
    + cbn [x_code] in H. injection H as <-.
      unfold exn_wf, effective_code; cbn [x_code x_level x_next x_data];
        repeat split; intros; try congruence; try lia; try (apply W4; congruence).
  - injection H as <-. unfold exn_wf, effective_code, molt_err, molt_err_v. cbn [x_code x_level x_next x_data].
    repeat split; intros; congruence.
  - injection H as <-. unfold exn_wf, effective_code, molt_err, molt_err_v. cbn [x_code x_level x_next x_data].
    repeat split; intros; congruence.
  - injection H as <-. unfold exn_wf, effective_code. cbn [x_code x_level x_next x_data].
    repeat split; intros; try congruence; try (apply W3; congruence); try (apply W4; congruence).
Qed.

(* (a) a return in flight *)
Theorem reraise_return_in_flight v L C :
  1 <= L ->
  let e := molt_return_ext v L C in
  x_code e = CReturn /\ molt_return_ext (x_value e) (x_level e) (x_next e) = e.
Proof. intros H e. subst e. rewrite molt_return_ext_level by exact H. split; [reflexivity|]. cbn [x_value x_level x_next ret_exn]. apply molt_return_ext_level. exact H. Qed.

(* (b) a plain break / continue / other code *)
Theorem reraise_plain v C :
  C <> COkay -> C <> CReturn ->
  let e := plain_exn v C None in
  molt_return_ext (x_value e) 0 (x_code e) = e.
Proof. intros H1 H2 e. subst e. cbn [x_value x_code plain_exn]. apply molt_return_ext_plain. exact H2. Qed.

Corollary reraise_break : molt_return_ext (x_value molt_break) 0 (x_code molt_break) = molt_break.
Proof. reflexivity. Qed.
Corollary reraise_continue : molt_return_ext (x_value molt_continue) 0 (x_code molt_continue) = molt_continue.
Proof. reflexivity. Qed.

(* both at once: for every well-formed exception that is not (going to be) an error, the
   exception rebuilt from the stored -code, -level and value is the original one *)
Theorem reraise_id e : exn_wf e -> effective_code e <> CError -> reraise e = e.
Proof.
  intros (W1 & W2 & W3 & W4) HC. unfold reraise.
  destruct (rcode_eqb (effective_code e) CError) eqn:EE.
  { exfalso. apply HC. destruct (effective_code e); try discriminate; reflexivity. }
  specialize (W4 HC). unfold effective_code in *.
  destruct e as [c v L nx d]. cbn [x_code x_value x_level x_next x_data] in *. subst d.
  destruct c.
  - congruence.
  - congruence.
  - specialize (W2 eq_refl). rewrite molt_return_ext_level by exact W2. reflexivity.
  - destruct W3 as [-> ->]; [congruence|]. reflexivity.
  - destruct W3 as [-> ->]; [congruence|]. reflexivity.
  - destruct W3 as [-> ->]; [congruence|]. reflexivity.
Qed.
Print Assumptions reraise_id.

(* errors: code, value, level and next code are reproduced; of the error data the error code
   and the error info (the stack trace, as one string) are reproduced; the trace is no longer
   a list of lines but that one string, and the is_new flag becomes false *)
Theorem reraise_error e d :
  exn_wf e -> effective_code e = CError -> x_data e = Some d ->
  reraise e =
  {| x_code := x_code e; x_value := x_value e; x_level := x_level e; x_next := x_next e;
     x_data := Some {| ed_code := ed_code d; ed_trace := [ed_info d]; ed_new := false |} |}.
Proof.
  intros (W1 & W2 & W3 & W4) HC HD. unfold reraise. rewrite HC, HD. cbn [rcode_eqb option_map].
  unfold effective_code in HC.
  destruct e as [c v L nx dd]. cbn [x_code x_value x_level x_next x_data] in *. subst dd.
  unfold molt_return_err, ed_rethrow. cbn [as_str].
  destruct c; try congruence.
  - destruct W3 as [-> ->]; [congruence|]. reflexivity.
  - subst nx. specialize (W2 eq_refl). destruct (N.eqb_spec L 0) as [E|_]; [lia|]. reflexivity.
Qed.
Print Assumptions reraise_error.

Corollary reraise_error_data e d :
  exn_wf e -> effective_code e = CError -> x_data e = Some d ->
  exists d', x_data (reraise e) = Some d' /\ ed_code d' = ed_code d /\ ed_info d' = ed_info d
             /\ ed_new d' = false
  /\ x_code (reraise e) = x_code e /\ x_value (reraise e) = x_value e
  /\ x_level (reraise e) = x_level e /\ x_next (reraise e) = x_next e.
Proof.
  intros W HC HD. rewrite (reraise_error e d W HC HD). eexists. split; [reflexivity|].
  cbn [ed_code ed_new x_code x_value x_level x_next]. repeat split; reflexivity.
Qed.

(* a re-raised exception is re-raised to itself: reraise is idempotent on well-formed exceptions *)
Corollary reraise_idem e : exn_wf e -> (effective_code e = CError -> x_data e <> None) -> reraise (reraise e) = reraise e.
Proof.
  intros W HD.
  destruct (rcode_eqb (effective_code e) CError) eqn:EE.
  - assert (HC : effective_code e = CError) by (destruct (effective_code e); try discriminate; reflexivity).
    destruct (x_data e) as [d|] eqn:ED; [|exfalso; apply (HD HC); reflexivity].
    rewrite (reraise_error e d W HC ED).
    destruct W as (W1 & W2 & W3 & W4).
    assert (W' : exn_wf {| x_code := x_code e; x_value := x_value e; x_level := x_level e; x_next := x_next e;
                           x_data := Some {| ed_code := ed_code d; ed_trace := [ed_info d]; ed_new := false |} |}).
    { unfold exn_wf, effective_code in *. cbn [x_code x_level x_next x_data].
      repeat split; intros; try tauto; try congruence; try (apply W3; assumption). }
    rewrite (reraise_error _ _ W' HC eq_refl). cbn [x_code x_value x_level x_next ed_code].
    unfold ed_info at 1. cbn [ed_trace join_str]. reflexivity.
  - assert (HC : effective_code e <> CError) by (intros X; rewrite X in EE; discriminate).
    rewrite (reraise_id e W HC). apply reraise_id; assumption.
Qed.

(* ----- the link with cmd_return: `return {*}$opts $value` builds reraise e ----- *)

Lemma code_entry_roundtrip e :
  x_code e <> COkay -> canonical_code (effective_code e) ->
  rcode_from_str (as_str (code_entry e)) = Some (effective_code e).
Proof.
  intros HC HK. unfold code_entry. unfold effective_code in *.
  destruct (x_code e) eqn:EC; try congruence; try reflexivity.
  - apply rcode_from_str_as_int. exact HK.
  - apply (rcode_from_str_as_int (COther z)). exact HK.
Qed.

(* the words of a dictionary, as `{*}$dict` expands them *)
Definition dict_words (d : list (value * value)) : list value := flat_map (fun kv => [fst kv; snd kv]) d.

Theorem cmd_return_reraise st r e d :
  exn_wf e -> (effective_code e = CError -> x_data e <> None) ->
  canonical_code (effective_code e) -> x_level e < 2 ^ 64 ->
  return_options (Err e) = Ok (VDict d) ->
  cmd_return st (r :: dict_words d ++ [x_value e]) = (st, Err (reraise e)).
Proof.
  intros W HD HK HL HO. pose proof W as (W1 & W2 & W3 & W4).
  assert (HD' : x_code e = CError -> x_data e <> None).
  { intros X. apply HD. unfold effective_code. rewrite X. reflexivity. }
  rewrite (return_options_err e W1 HD') in HO. injection HO as <-.
  pose proof (code_entry_roundtrip e W1 HK) as HR.
  unfold reraise.
  destruct (rcode_eqb (effective_code e) CError) eqn:EE.
  - assert (HC : effective_code e = CError) by (destruct (effective_code e); try discriminate; reflexivity).
    destruct (x_data e) as [dd|] eqn:ED; [|exfalso; apply (HD HC); reflexivity].
    assert (HX : rcode_eqb (x_code e) CError || rcode_eqb (x_code e) CReturn = true).
    { unfold effective_code in HC. destruct (x_code e); try reflexivity; congruence. }
    rewrite HX. cbn [dict_words flat_map fst snd app option_map].
    rewrite cmd_return_general. cbn [length Nat.even removelast last].
    rewrite (parse_code k_code (code_entry e) _ ro_init _ eq_refl HR).
    rewrite (parse_errorcode k_errorcode (ed_code dd) _ _ eq_refl).
    rewrite (parse_errorinfo k_errorinfo (VStr (ed_info dd)) _ _ eq_refl).
    rewrite (parse_level k_level (level_entry e) [] _ (to_i64 (Z.of_N (x_level e))) eq_refl eq_refl).
    rewrite parse_end. unfold return_of_opts. cbn [ro_code ro_level ro_ecode ro_einfo ro_init].
    rewrite EE, (level_of_int_to_i64 _ HL). reflexivity.
  - assert (HC : effective_code e <> CError) by (intros X; rewrite X in EE; discriminate).
    rewrite (W4 HC). cbn [dict_words flat_map fst snd app].
    rewrite (cmd_return_code_level st r k_code (code_entry e) k_level (level_entry e) (x_value e)
               (effective_code e) (to_i64 (Z.of_N (x_level e))) eq_refl HR eq_refl eq_refl).
    cbv zeta. rewrite EE, (level_of_int_to_i64 _ HL).
    destruct (N.eqb_spec (x_level e) 0) as [E0|E0]; [|reflexivity].
    cbn [andb].
    assert (HN : x_code e <> CReturn) by (intros X; specialize (W2 X); lia).
    destruct (W3 HN) as [_ _]. unfold effective_code in *.
    destruct (x_code e); try congruence; reflexivity.
Qed.
Print Assumptions cmd_return_reraise.

(* so catching and re-raising is the identity on the exceptions that are not errors *)
Corollary catch_reraise_id st r e d :
  exn_wf e -> effective_code e <> CError ->
  canonical_code (effective_code e) -> x_level e < 2 ^ 64 ->
  return_options (Err e) = Ok (VDict d) ->
  cmd_return st (r :: dict_words d ++ [x_value e]) = (st, Err e).
Proof.
  intros W HC HK HL HO.
  rewrite (cmd_return_reraise st r e d W (fun X => False_ind _ (HC X)) HK HL HO).
  rewrite (reraise_id e W HC). reflexivity.
Qed.

(* ====================================================================================== *)
(* 7. propagation through a stack of frames                                                *)
(* ====================================================================================== *)

Lemma propagate_app fs gs r : propagate (fs ++ gs) r = propagate gs (propagate fs r).
Proof. revert r. induction fs as [|f fs IH]; intros r; [reflexivity|]. cbn [app propagate]. apply IH. Qed.

Theorem propagate_procs n r : propagate (repeat FProc n) r = iter_pb n r.
Proof. revert r. induction n as [|n IH]; intros r; [reflexivity|]. cbn [repeat propagate iter_pb frame_step]. apply IH. Qed.
Print Assumptions propagate_procs.

(* plain frames (if bodies, nested evaluations) do not consume levels *)
Theorem propagate_proc_plain fs r : Forall proc_or_plain fs -> propagate fs r = iter_pb (procs fs) r.
Proof.
  intros H. revert r. induction H as [|f fs Hf _ IH]; intros r; [reflexivity|].
  destruct Hf as [-> | ->]; cbn [propagate procs frame_step iter_pb]; apply IH.
Qed.
Print Assumptions propagate_proc_plain.

Lemma propagate_ok_plain fs v : Forall proc_or_plain fs -> propagate fs (Ok v) = Ok v.
Proof. intros H. rewrite (propagate_proc_plain fs _ H). apply iter_pb_ok. Qed.

(* THE PROTOCOL over frames: through any stack of procedure and plain frames containing exactly
   L procedure frames, `return -code C -level L v` takes effect as code C *)
Theorem return_through_frames v L C fs :
  1 <= L -> Forall proc_or_plain fs -> procs fs = N.to_nat L ->
  propagate fs (Err (molt_return_ext v L C)) = landed v C None.
Proof.
  intros H HF HP. rewrite (propagate_proc_plain fs _ HF), HP.
  rewrite molt_return_ext_level by exact H. apply ret_exn_unwinds. exact H.
Qed.
Print Assumptions return_through_frames.

Theorem return_err_through_frames v L ec ei fs :
  1 <= L -> Forall proc_or_plain fs -> procs fs = N.to_nat L ->
  propagate fs (Err (molt_return_err v L ec ei)) = Err (molt_return_err v 0 ec ei).
Proof.
  intros H HF HP. rewrite (propagate_proc_plain fs _ HF), HP. apply return_err_unwinds_ext. exact H.
Qed.

(* with fewer procedure frames it is still a return in flight *)
Theorem return_in_flight_through_frames v L C fs :
  1 <= L -> Forall proc_or_plain fs -> (procs fs < N.to_nat L)%nat ->
  propagate fs (Err (molt_return_ext v L C)) = Err (ret_exn v (L - N.of_nat (procs fs)) C None).
Proof.
  intros H HF HP. rewrite (propagate_proc_plain fs _ HF).
  rewrite molt_return_ext_level by exact H. apply ret_exn_unwinds; assumption.
Qed.

(* ... acting on the caller's loop *)
Corollary return_break_ends_loop v L fs gs :
  1 <= L -> Forall proc_or_plain fs -> procs fs = N.to_nat L -> Forall proc_or_plain gs ->
  propagate (fs ++ FLoop :: gs) (Err (molt_return_ext v L CBreak)) = Ok v_empty.
Proof.
  intros H HF HP HG. rewrite propagate_app, (return_through_frames v L CBreak fs H HF HP).
  cbn [propagate landed frame_step loop_action_of plain_exn x_code]. apply propagate_ok_plain. exact HG.
Qed.

Corollary return_continue_continues_loop v L fs gs :
  1 <= L -> Forall proc_or_plain fs -> procs fs = N.to_nat L -> Forall proc_or_plain gs ->
  propagate (fs ++ FLoop :: gs) (Err (molt_return_ext v L CContinue)) = Ok v_empty.
Proof.
  intros H HF HP HG. rewrite propagate_app, (return_through_frames v L CContinue fs H HF HP).
  cbn [propagate landed frame_step loop_action_of plain_exn x_code]. apply propagate_ok_plain. exact HG.
Qed.

(* ... or caught: under its own number once it has landed, as 2 (return) while in flight *)
Corollary return_caught_landed v L C fs :
  1 <= L -> Forall proc_or_plain fs -> procs fs = N.to_nat L -> C <> COkay -> C <> CReturn ->
  propagate (fs ++ [FCatch]) (Err (molt_return_ext v L C)) = Ok (VInt (rcode_as_int C)).
Proof.
  intros H HF HP H1 H2. rewrite propagate_app, (return_through_frames v L C fs H HF HP).
  destruct C; try congruence; reflexivity.
Qed.

Corollary return_caught_in_flight v L C fs :
  1 <= L -> Forall proc_or_plain fs -> (procs fs < N.to_nat L)%nat ->
  propagate (fs ++ [FCatch]) (Err (molt_return_ext v L C)) = Ok (VInt 2).
Proof.
  intros H HF HP. rewrite propagate_app, (return_in_flight_through_frames v L C fs H HF HP). reflexivity.
Qed.

(* a plain break/continue: the innermost loop absorbs it; without a loop it is an error at the
   first procedure boundary and at the top level *)
Corollary break_innermost_loop fs gs :
  Forall (fun f => f = FPlain) fs ->
  propagate (fs ++ FLoop :: gs) (Err molt_break) = propagate gs (Ok v_empty).
Proof.
  intros H. rewrite propagate_app.
  assert (E : propagate fs (Err molt_break) = Err molt_break).
  { induction H as [|f fs -> _ IH]; [reflexivity|exact IH]. }
  rewrite E. reflexivity.
Qed.

Corollary break_escapes_proc fs gs :
  Forall (fun f => f = FPlain) fs ->
  propagate (fs ++ FProc :: gs) (Err molt_break) =
  propagate gs (err (lit "invoked ""break"" outside of a loop")).
Proof.
  intros H. rewrite propagate_app.
  assert (E : propagate fs (Err molt_break) = Err molt_break).
  { induction H as [|f fs -> _ IH]; [reflexivity|exact IH]. }
  rewrite E. reflexivity.
Qed.

Corollary break_escapes_toplevel fs :
  Forall (fun f => f = FPlain) fs ->
  toplevel fs (Err molt_break) = err (lit "invoked ""break"" outside of a loop").
Proof.
  intros H. unfold toplevel.
  assert (E : propagate fs (Err molt_break) = Err molt_break).
  { induction H as [|f fs -> _ IH]; [reflexivity|exact IH]. }
  rewrite E. reflexivity.
Qed.

(* the frames are the model's: FProc is proc_boundary (proc_boundary_pb), FCatch is what
   cmd_catch returns, FLoop is the verdict of loop_body_outcome *)
Lemma frame_catch_is_cmd_catch rec st c body st1 r :
  r_eval rec st body = (st1, r) -> (forall e, r = Err e -> x_code e <> COkay) ->
  cmd_catch rec st [c; body] = (st1, frame_step FCatch r).
Proof.
  intros HE HC. destruct r as [v|e|p|].
  - unfold cmd_catch. rewrite check_args_catch2. unfold lift at 1. cbn [bind].
    change (arg [c; body] 1) with body. rewrite HE. reflexivity.
  - rewrite (cmd_catch_err2 rec st c body st1 e HE (HC e eq_refl)). reflexivity.
  - unfold cmd_catch. rewrite check_args_catch2. unfold lift at 1. cbn [bind].
    change (arg [c; body] 1) with body. rewrite HE. reflexivity.
  - unfold cmd_catch. rewrite check_args_catch2. unfold lift at 1. cbn [bind].
    change (arg [c; body] 1) with body. rewrite HE. reflexivity.
Qed.

(* the evaluation of a script value (a body) is a plain frame when nested, and the top-level
   boundary tb at nesting level 0 -- unless the outcome is an error, for which the global
   errorInfo/errorCode are recorded first *)
Lemma eval_value_frame U exec st v sc rest st2 r :
  i_levels st < i_limit st -> parse (u_alnum U) (as_str v) = POk sc rest ->
  eval_script exec (set_levels st (i_levels st + 1)) sc = (st2, r) ->
  let st3 := set_levels st2 (i_levels st2 - 1) in
  let r' := if i_levels st3 =? 0 then tb r else r in
  (forall e, r' = Err e -> x_code e <> CError) ->
  eval_value_with U exec st v = (st3, r').
Proof.
  intros HL HP HE st3 r' HN. unfold eval_value_with. cbn [i_limit i_levels set_levels].
  destruct (N.ltb_spec (i_limit st) (i_levels st + 1)) as [X|_]; [lia|].
  rewrite HP, HE. fold st3. cbn [i_levels set_levels]. fold (tb r).
  change (if i_levels st2 - 1 =? 0 then tb r else r) with r'.
  destruct r' as [w|e|p|] eqn:ER; try reflexivity.
  specialize (HN e eq_refl). destruct (x_code e); try reflexivity. congruence.
Qed.

(* ====================================================================================== *)
(* Examples: the whole interpreter on concrete scripts                                     *)
(* ====================================================================================== *)

Definition run (s : string) : res value := snd (eval std_uni 40 interp_new (lit s)).
Definition shown (r : res value) : res str := match r with Ok v => Ok (as_str v) | Err e => Err e | Panic p => Panic p | Fuel => Fuel end.

(* `return -code break -level 2` through two procedures inside a while loop ends the loop *)
Example ex_break_level2 :
  shown (run "proc a {} {return -code break -level 2}; proc b {} {a; set ::reached 1}; set i 0; while {1} {incr i; b}; list $i [info exists reached]")
  = Ok (lit "1 0").
Proof. vm_compute. reflexivity. Qed.

(* `return -code continue` skips the rest of the caller's loop body *)
Example ex_continue_level1 :
  shown (run "proc a {} {return -code continue}; set i 0; while {$i < 3} {incr i; a; set i 100}; set i")
  = Ok (lit "3").
Proof. vm_compute. reflexivity. Qed.

(* `return -code 7` is caught as 7, with the value and the options in flight *)
Example ex_code7_caught :
  shown (run "proc a {} {return -code 7 hello}; list [catch {a} r o] $r $o")
  = Ok (lit "7 hello {-code 7 -level 0}").
Proof. vm_compute. reflexivity. Qed.

(* with a level to spare it is caught as a return (2) one procedure early, as 7 after both *)
Example ex_code7_level2 :
  shown (run "proc a {} {return -code 7 -level 2 hello}; proc b {} {a}; list [catch {a} r o] $r $o [catch {b} r o] $r $o")
  = Ok (lit "2 hello {-code 7 -level 1} 7 hello {-code 7 -level 0}").
Proof. vm_compute. reflexivity. Qed.

(* `return -code return` makes the caller return *)
Example ex_code_return :
  shown (run "proc a {} {return -code return x}; proc b {} {a; set y 1}; b") = Ok (lit "x").
Proof. vm_compute. reflexivity. Qed.

(* a plain break does not cross a procedure boundary *)
Example ex_break_escapes :
  match run "proc a {} {break}; while 1 {a}" with
  | Err e => x_code e = CError /\ as_str (x_value e) = lit "invoked ""break"" outside of a loop"
  | _ => False
  end.
Proof. vm_compute. split; reflexivity. Qed.

(* catch and re-raise: `return {*}$o $r` in a procedure reproduces the caught exception *)
Example ex_reraise :
  shown (run "proc a {} {return -code 7 -level 2 hello}; proc b {} {set c [catch {a} r o]; return {*}$o $r}; proc c {} {b}; list [catch {c} r o] $r $o")
  = Ok (lit "7 hello {-code 7 -level 0}").
Proof. vm_compute. reflexivity. Qed.

(* `return -code error` is an error in the caller; the top level turns a stray other code into an error *)
Example ex_code_error :
  shown (run "proc a {} {return -code error -level 2 boom}; proc b {} {a}; list [catch {a} r] $r [catch {b} r] $r")
  = Ok (lit "2 boom 1 boom").
Proof. vm_compute. reflexivity. Qed.

Example ex_other_toplevel :
  match run "return -code 7 -level 0 x" with
  | Err e => x_code e = CError /\ as_str (x_value e) = lit "unexpected result code."
  | _ => False
  end.
Proof. vm_compute. split; reflexivity. Qed.
