(* GrammarFacts.v — C02: the model's script reader and evaluator against the grammar
   specification (Spec/SpecGrammar.v).

   G1  reject_exact, reject_top, reject_state_unchanged, reject_top_observables,
       reject_runs_nothing: a script the reader rejects yields a plain error and the interpreter
       is exactly the one before the call.
   G2  parse_render_model: for EVERY well-formed tree, parse (render sc) = POk (ast_of_model sc) [].
       parse_render: parse (render sc) = POk (ast_of sc) [] for well-formed trees satisfying
       [star_safe].  [ast_of] translates the tree construct by construct; [ast_of_model] differs
       from it in one place, which is a DISAGREEMENT between the model and the specification
       (parse_render_star_counterexample): a command whose last word is the braced word {*}
       immediately followed by ";" (or by the "]" closing a command substitution) is read by the
       implementation as the expansion prefix applied to an empty word.
   G3  subst_var_verbatim, subst_elem_verbatim, subst_cmd_verbatim, braces_no_subst,
       tokens_concat_in_order, tokens_two.
   G4  eval_agrees_with_expected (any executor and any relation the commands respect),
       eval_agrees_concrete / render_eval_agrees / eval_text_agrees (the model's own executor with
       the harness commands rec and set; the procedure c is an explicit assumption [c_behaves];
       trees without {*}).

   Structure of G2: fuel monotonicity of the nine mutually recursive readers (mono_holds);
   backslash substitution on the specification's escapes (bsubst_esc); brace bodies (pbb_all);
   white space and comments before a command (junk, skip_junk); a generic reader of segments
   (Section Reader) instantiated for quoted and bare words; words, commands, scripts; a mutual
   induction principle for the tree (seg_ind3 / word_ind3 / item_ind3); parse_fuel is enough by
   totality (TotalFacts.parse_script_total) and monotonicity. *)
From Molt Require Import Model.Base Model.Tokenizer Model.ListSyn Model.Float Model.Value Model.State
  Model.Script Model.Parser Model.Eval Model.Expr Model.Commands Model.Unicode Model.Interp.
From Molt Require Import Spec.SpecGrammar.
From Molt Require Import Spec.SpecVars.
From Molt Require Import Proofs.BaseFacts Proofs.ListAsCommandFacts Proofs.TotalFacts Proofs.InterpFacts
  Proofs.ScopeFacts Proofs.CtlFacts.
From Coq Require Import Lia ZifyBool ZifyN.

Arguments N.eqb : simpl never.
Arguments N.leb : simpl never.
Arguments N.ltb : simpl never.

Local Open Scope N_scope.

(* ====================================================================== *)
(* G2, definitions: the tree translated to the model's AST, by structure  *)
(* ====================================================================== *)

Definition item_pend (i : item) : bool :=
  match i with
  | ICmd _ _ _ term => str_eqb term [c_nl]
  | IComment _ _ _ => true
  | IEmpty _ term => negb (str_eqb term [c_semi])
  end.

Definition items_with (ai : item -> option wordvec) : list item -> bool -> script :=
  fix go (l : list item) (p : bool) : script :=
    match l with
    | [] => if p then [[]] else []
    | x :: r => match ai x with
                | Some c => c :: go r (item_pend x)
                | None => go r true
                end
    end.

(* --- the translation asked for: every tree construct to the corresponding AST node --- *)
Fixpoint tok_seg0 (t : tokens) (s : seg) {struct s} : tokens :=
  match s with
  | SLit x => fold_left tk_push_char x t
  | SEsc k a => tk_push_char t (esc_value k a)
  | SVar n => tk_push t (WVarRef n)
  | SBVar n => tk_push t (WVarRef n)
  | SArr n idx => tk_push t (WArrayRef n (tk_take (fold_left tok_seg0 idx tk_new)))
  | SCmd sc => tk_push t (WScript (items_with ast_item0 sc false))
  end
with ast_word0 (w : wordc) {struct w} : word :=
  match w with
  | CBrace b => WValue (flat_map bseg_value b)
  | CQuote l => tk_take (fold_left tok_seg0 l tk_new)
  | CBare l => tk_take (fold_left tok_seg0 l tk_new)
  | CExpand w' => WExpand (ast_word0 w')
  end
with ast_item0 (i : item) {struct i} : option wordvec :=
  match i with
  | ICmd _ ws _ _ => Some (map (fun gw => match gw with (_, w) => ast_word0 w end) ws)
  | IComment _ _ _ => None
  | IEmpty _ term => if str_eqb term [c_semi] then Some [] else None
  end.

Definition ast_items0 (p : bool) (l : list item) : script := items_with ast_item0 l p.
Definition ast_of (sc : list item) : script := ast_items0 false sc.

(* --- the same translation with the one deviation of the implementation: a command whose last
   word is the braced word {*}, immediately followed by ";" or by the "]" that closes a command
   substitution, gets the expansion of an empty word in its place --- *)
Definition star_word (w : wordc) : bool :=
  match w with
  | CBrace [BText s] => str_eqb s [c_star]
  | _ => false
  end.

Fixpoint lastw (w1 : wordc) (r : list (str * wordc)) : wordc :=
  match r with [] => w1 | (_, w2) :: r' => lastw w2 r' end.
Definition last_word (ws : list (str * wordc)) : wordc :=
  match ws with [] => CBrace [] | (_, w1) :: r => lastw w1 r end.

Definition cmd_bad (nested : bool) (post term : str) : bool :=
  str_eqb post [] && (str_eqb term [c_semi] || (nested && str_eqb term [])).

Definition words_ast (aw : wordc -> word) (bad : bool) : list (str * wordc) -> list word :=
  fix go (l : list (str * wordc)) : list word :=
    match l with
    | [] => []
    | (_, w) :: r =>
        (match r with
         | [] => if star_word w && bad then WExpand (WValue []) else aw w
         | _ :: _ => aw w
         end) :: go r
    end.

Fixpoint tok_seg (t : tokens) (s : seg) {struct s} : tokens :=
  match s with
  | SLit x => fold_left tk_push_char x t
  | SEsc k a => tk_push_char t (esc_value k a)
  | SVar n => tk_push t (WVarRef n)
  | SBVar n => tk_push t (WVarRef n)
  | SArr n idx => tk_push t (WArrayRef n (tk_take (fold_left tok_seg idx tk_new)))
  | SCmd sc => tk_push t (WScript (items_with (ast_item true) sc false))
  end
with ast_word (w : wordc) {struct w} : word :=
  match w with
  | CBrace b => WValue (flat_map bseg_value b)
  | CQuote l => tk_take (fold_left tok_seg l tk_new)
  | CBare l => tk_take (fold_left tok_seg l tk_new)
  | CExpand w' => WExpand (ast_word w')
  end
with ast_item (nested : bool) (i : item) {struct i} : option wordvec :=
  match i with
  | ICmd _ ws post term =>
      Some (words_ast ast_word (cmd_bad nested post term) ws)
  | IComment _ _ _ => None
  | IEmpty _ term => if str_eqb term [c_semi] then Some [] else None
  end.

Definition ast_items (nested p : bool) (l : list item) : script := items_with (ast_item nested) l p.
Definition ast_of_model (sc : list item) : script := ast_items false false sc.

(* ====================================================================== *)
(* A. more fuel never changes an answer of the reader                      *)
(* ====================================================================== *)
Section Mono.
Variable isa : char -> bool.

Definition mono_at (f : nat) : Prop :=
  (forall bt s acc, parse_script isa f bt s acc = PFuel
     \/ parse_script isa (S f) bt s acc = parse_script isa f bt s acc)
  /\ (forall bt s, parse_command isa f bt s = PFuel
     \/ parse_command isa (S f) bt s = parse_command isa f bt s)
  /\ (forall bt s acc, parse_words isa f bt s acc = PFuel
     \/ parse_words isa (S f) bt s acc = parse_words isa f bt s acc)
  /\ (forall bt s, parse_next_word isa f bt s = PFuel
     \/ parse_next_word isa (S f) bt s = parse_next_word isa f bt s)
  /\ (forall bt chk s t, parse_quoted isa f bt chk s t = PFuel
     \/ parse_quoted isa (S f) bt chk s t = parse_quoted isa f bt chk s t)
  /\ (forall bt ix s t, parse_bare isa f bt ix s t = PFuel
     \/ parse_bare isa (S f) bt ix s t = parse_bare isa f bt ix s t)
  /\ (forall s, parse_brackets isa f s = PFuel
     \/ parse_brackets isa (S f) s = parse_brackets isa f s)
  /\ (forall bt s t, parse_dollar isa f bt s t = PFuel
     \/ parse_dollar isa (S f) bt s t = parse_dollar isa f bt s t)
  /\ (forall bt s, parse_varname isa f bt s = PFuel
     \/ parse_varname isa (S f) bt s = parse_varname isa f bt s).

Ltac use_mono IHx :=
  let E := fresh "E" in
  destruct IHx as [E|E]; [left; rewrite E; reflexivity|rewrite E].

Lemma mono_holds : forall f, mono_at f.
Proof.
  induction f as [|f IH].
  { unfold mono_at. repeat split; intros; left; reflexivity. }
  destruct IH as (IHS & IHC & IHW & IHN & IHQ & IHB & IHBR & IHD & IHV).
  unfold mono_at. repeat apply conj.
  - intros bt s acc. rewrite (parse_script_eq isa (S f)), (parse_script_eq isa f).
    destruct (at_end_of_script bt s); [right; reflexivity|].
    use_mono (IHC bt s).
    destruct (parse_command isa f bt s) as [cmd rest| |]; [|right; reflexivity|left; reflexivity].
    apply IHS.
  - intros bt s. rewrite (parse_command_eq isa (S f)), (parse_command_eq isa f). cbv zeta.
    use_mono (IHW bt (skip_to_command (S (length s)) bt s) []). right. reflexivity.
  - intros bt s acc. rewrite (parse_words_eq isa (S f)), (parse_words_eq isa f).
    destruct (at_end_of_command bt s); [right; reflexivity|].
    use_mono (IHN bt s).
    destruct (parse_next_word isa f bt s) as [w rest| |]; [|right; reflexivity|left; reflexivity].
    apply IHW.
  - intros bt s. rewrite (parse_next_word_eq isa (S f)), (parse_next_word_eq isa f).
    destruct s as [|c r]; [apply IHB|].
    destruct (c =? c_lbrace).
    + destruct (starts_with _ _); [|right; reflexivity]. cbv zeta.
      destruct (skipn 3 (c :: r)) as [|d r4]; [right; reflexivity|].
      destruct (is_whitespace d); [right; reflexivity|].
      destruct (d =? c_lbrace); [right; reflexivity|].
      destruct (d =? c_dquote).
      * use_mono (IHQ bt true (tl (d :: r4)) tk_new). right. reflexivity.
      * use_mono (IHB bt false (d :: r4) tk_new). right. reflexivity.
    + destruct (c =? c_dquote); [apply IHQ|apply IHB].
  - intros bt chk s t. rewrite (parse_quoted_eq isa (S f)), (parse_quoted_eq isa f).
    destruct s as [|c r]; [right; reflexivity|].
    destruct (c =? c_lbracket).
    { use_mono (IHBR r).
      destruct (parse_brackets isa f r) as [sc rest| |]; [|right; reflexivity|left; reflexivity].
      apply IHQ. }
    destruct (c =? c_dollar).
    { use_mono (IHD bt r t).
      destruct (parse_dollar isa f bt r t) as [t' rest| |]; [|right; reflexivity|left; reflexivity].
      apply IHQ. }
    destruct (c =? c_bslash).
    { destruct (bsubst r) as [ch rest]. apply IHQ. }
    destruct (c =? c_dquote); [right; reflexivity|]. apply IHQ.
  - intros bt ix s t. rewrite (parse_bare_eq isa (S f)), (parse_bare_eq isa f).
    destruct (_ || _); [right; reflexivity|].
    destruct s as [|c r]; [right; reflexivity|].
    destruct (ix && _); [right; reflexivity|].
    destruct (c =? c_lbracket).
    { use_mono (IHBR r).
      destruct (parse_brackets isa f r) as [sc rest| |]; [|right; reflexivity|left; reflexivity].
      apply IHB. }
    destruct (c =? c_dollar).
    { use_mono (IHD bt r t).
      destruct (parse_dollar isa f bt r t) as [t' rest| |]; [|right; reflexivity|left; reflexivity].
      apply IHB. }
    destruct (c =? c_bslash).
    { destruct (bsubst r) as [ch rest]. apply IHB. }
    apply IHB.
  - intros s. rewrite (parse_brackets_eq isa (S f)), (parse_brackets_eq isa f).
    use_mono (IHS true s []). right. reflexivity.
  - intros bt s t. rewrite (parse_dollar_eq isa (S f)), (parse_dollar_eq isa f).
    destruct s as [|c r]; [right; reflexivity|].
    destruct (_ || _); [|right; reflexivity].
    use_mono (IHV bt (c :: r)). right. reflexivity.
  - intros bt s. rewrite (parse_varname_eq isa (S f)), (parse_varname_eq isa f).
    destruct s as [|c r]; [right; reflexivity|].
    destruct (c =? c_lbrace); [right; reflexivity|].
    destruct (skip_while _ _) as [|d r']; [right; reflexivity|].
    destruct (d =? c_lparen); [|right; reflexivity].
    use_mono (IHB bt true r' tk_new). right. reflexivity.
Qed.

Lemma parse_script_mono f k bt s acc :
  parse_script isa f bt s acc <> PFuel ->
  parse_script isa (k + f) bt s acc = parse_script isa f bt s acc.
Proof.
  intros H. induction k as [|k IH]; [reflexivity|].
  cbn [Nat.add]. destruct (proj1 (mono_holds (k + f)) bt s acc) as [E|E].
  - rewrite IH in E. contradiction.
  - rewrite E. exact IH.
Qed.

End Mono.

(* ====================================================================== *)
(* B. backslash substitution on the escapes of the specification           *)
(* ====================================================================== *)

Ltac closed_tests :=
  repeat match goal with
  | |- context[?a =? ?b] =>
      let v := eval vm_compute in (a =? b) in
      match v with
      | true => change (a =? b) with true
      | false => change (a =? b) with false
      end
  | |- context[is_digit8 ?a] =>
      let v := eval vm_compute in (is_digit8 a) in
      match v with
      | true => change (is_digit8 a) with true
      | false => change (is_digit8 a) with false
      end
  end.

Lemma hex_digit_ok d : d < 16 ->
  is_digit16 (hex_digit d) = true /\ digit_val (hex_digit d) = d.
Proof.
  intros H. unfold hex_digit, is_digit16, digit_val, is_digit10.
  destruct (N.ltb_spec d 10) as [L|L].
  - replace ((48 <=? 48 + d) && (48 + d <=? 57)) with true by lia. split; [reflexivity|lia].
  - replace ((48 <=? 87 + d) && (87 + d <=? 57)) with false by lia.
    replace ((97 <=? 87 + d) && (87 + d <=? 102)) with true by lia. split; [reflexivity|lia].
Qed.

Lemma oct_digit_ok d : d < 8 ->
  is_digit8 (48 + d) = true /\ digit_val (48 + d) = d.
Proof.
  intros H. unfold is_digit8, digit_val, is_digit10.
  replace ((48 <=? 48 + d) && (48 + d <=? 57)) with true by lia. split; lia.
Qed.

Lemma bsubst_hex2 h1 h2 rest :
  is_digit16 h1 = true -> is_digit16 h2 = true ->
  is_scalar (digits_val 16 [h1; h2]) = true ->
  bsubst (120 :: h1 :: h2 :: rest) = (digits_val 16 [h1; h2], rest).
Proof.
  intros H1 H2 Hs. unfold bsubst. closed_tests. cbn [orb]. cbv iota.
  cbn [take_upto]. rewrite H1, H2. rewrite Hs. reflexivity.
Qed.

Lemma bsubst_hex4 h1 h2 h3 h4 rest :
  is_digit16 h1 = true -> is_digit16 h2 = true -> is_digit16 h3 = true -> is_digit16 h4 = true ->
  is_scalar (digits_val 16 [h1; h2; h3; h4]) = true ->
  bsubst (117 :: h1 :: h2 :: h3 :: h4 :: rest) = (digits_val 16 [h1; h2; h3; h4], rest).
Proof.
  intros H1 H2 H3 H4 Hs. unfold bsubst. closed_tests. cbn [orb]. cbv iota.
  cbn [take_upto]. rewrite H1, H2, H3, H4. rewrite Hs. reflexivity.
Qed.

Lemma bsubst_oct3 o1 o2 o3 rest :
  o1 < 56 -> is_digit8 o1 = true -> is_digit8 o2 = true -> is_digit8 o3 = true ->
  bsubst (o1 :: o2 :: o3 :: rest) = (digits_val 8 [o1; o2; o3], rest).
Proof.
  intros L H1 H2 H3. unfold bsubst.
  replace (o1 =? 97) with false by lia. replace (o1 =? 98) with false by lia.
  replace (o1 =? 102) with false by lia. replace (o1 =? 110) with false by lia.
  replace (o1 =? 114) with false by lia. replace (o1 =? 116) with false by lia.
  replace (o1 =? 118) with false by lia. rewrite H1.
  cbn [take_upto]. rewrite H2, H3. reflexivity.
Qed.

Lemma bsubst_esc k a rest : esc_ok k a = true ->
  bsubst (tl (esc_text k a) ++ rest) = (esc_value k a, rest).
Proof.
  intros H.
  assert (Hk : k = 0 \/ k = 1 \/ k = 2 \/ k = 3 \/ k = 4).
  { destruct k as [|p]; [auto|].
    destruct p as [p|p|]; [destruct p as [p|p|]|destruct p as [p|p|]|]; auto; try discriminate H.
    destruct p as [p|p|]; auto; discriminate H. }
  destruct Hk as [E|[E|[E|[E|E]]]]; subst k; unfold esc_ok in H.
  - (* \a \b \f \n \r \t \v *)
    cbn [esc_text tl app]. unfold esc_value.
    assert (Ha : a = 97 \/ a = 98 \/ a = 102 \/ a = 110 \/ a = 114 \/ a = 116 \/ a = 118) by lia.
    destruct Ha as [E|[E|[E|[E|[E|[E|E]]]]]]; subst a; reflexivity.
  - (* punctuation *)
    cbn [esc_text tl app]. unfold esc_value. unfold ascii_name_char, c_underscore in H.
    unfold bsubst.
    replace (a =? 97) with false by lia. replace (a =? 98) with false by lia.
    replace (a =? 102) with false by lia. replace (a =? 110) with false by lia.
    replace (a =? 114) with false by lia. replace (a =? 116) with false by lia.
    replace (a =? 118) with false by lia.
    replace (is_digit8 a) with false by (unfold is_digit8; lia).
    replace ((a =? 120) || (a =? 117) || (a =? 85)) with false by lia. reflexivity.
  - (* \xHH *)
    cbn [esc_text tl app]. unfold esc_value.
    destruct (hex_digit_ok (a / 16)) as [D1 V1]; [lia|].
    destruct (hex_digit_ok (a mod 16)) as [D2 V2]; [lia|].
    assert (V : digits_val 16 [hex_digit (a / 16); hex_digit (a mod 16)] = a).
    { unfold digits_val. cbn [fold_left]. rewrite V1, V2. lia. }
    rewrite bsubst_hex2; [rewrite V; reflexivity|assumption|assumption|].
    rewrite V. unfold is_scalar. lia.
  - (* \uHHHH *)
    cbn [esc_text tl app]. unfold esc_value.
    destruct (hex_digit_ok (a / 4096)) as [D1 V1]; [lia|].
    destruct (hex_digit_ok ((a / 256) mod 16)) as [D2 V2]; [lia|].
    destruct (hex_digit_ok ((a / 16) mod 16)) as [D3 V3]; [lia|].
    destruct (hex_digit_ok (a mod 16)) as [D4 V4]; [lia|].
    assert (V : digits_val 16 [hex_digit (a / 4096); hex_digit ((a / 256) mod 16);
                               hex_digit ((a / 16) mod 16); hex_digit (a mod 16)] = a).
    { unfold digits_val. cbn [fold_left]. rewrite V1, V2, V3, V4. lia. }
    rewrite bsubst_hex4; [rewrite V; reflexivity|assumption|assumption|assumption|assumption|].
    rewrite V. unfold is_scalar. lia.
  - (* \ooo *)
    cbn [esc_text tl app]. unfold esc_value.
    destruct (oct_digit_ok (a / 64)) as [D1 V1]; [lia|].
    destruct (oct_digit_ok ((a / 8) mod 8)) as [D2 V2]; [lia|].
    destruct (oct_digit_ok (a mod 8)) as [D3 V3]; [lia|].
    rewrite bsubst_oct3; [|lia|assumption|assumption|assumption].
    unfold digits_val. cbn [fold_left]. rewrite V1, V2, V3. f_equal. lia.
Qed.

(* ====================================================================== *)
(* C. braced words                                                         *)
(* ====================================================================== *)
Section BsegInd.
Variable P : bseg -> Prop.
Hypothesis HText : forall s, P (BText s).
Hypothesis HNest : forall l, Forall P l -> P (BNest l).
Hypothesis HEsc : forall c, P (BEsc c).
Hypothesis HLine : P BLine.
Fixpoint bseg_ind2 (b : bseg) : P b :=
  match b with
  | BText s => HText s
  | BNest l => HNest l ((fix go (l : list bseg) : Forall P l :=
                           match l with
                           | [] => Forall_nil P
                           | x :: r => Forall_cons x (bseg_ind2 x) (go r)
                           end) l)
  | BEsc c => HEsc c
  | BLine => HLine
  end.
End BsegInd.

Definition pbb_ok (b : bseg) : Prop :=
  wf_bseg b = true -> forall tail count acc,
  parse_braced_body (render_bseg b ++ tail) count acc
  = parse_braced_body tail count (rev (bseg_value b) ++ acc).

Lemma pbb_text : forall s tail count acc, forallb brace_text_char s = true ->
  parse_braced_body (s ++ tail) count acc = parse_braced_body tail count (rev s ++ acc).
Proof.
  induction s as [|c r IH]; intros tail count acc H; [reflexivity|].
  cbn [forallb] in H. apply andb_prop in H. destruct H as [Hc Hr].
  cbn [app parse_braced_body]. unfold brace_text_char in Hc.
  replace (c =? c_lbrace) with false by lia. replace (c =? c_rbrace) with false by lia.
  replace (c =? c_bslash) with false by lia.
  rewrite IH by assumption. cbn [rev]. rewrite <- app_assoc. reflexivity.
Qed.

Lemma pbb_list : forall l, Forall pbb_ok l -> forallb wf_bseg l = true ->
  forall tail count acc,
  parse_braced_body (flat_map render_bseg l ++ tail) count acc
  = parse_braced_body tail count (rev (flat_map bseg_value l) ++ acc).
Proof.
  induction 1 as [|b l Hb Hl IH]; intros Hwf tail count acc; [reflexivity|].
  cbn [forallb] in Hwf. apply andb_prop in Hwf. destruct Hwf as [Wb Wl].
  cbn [flat_map]. rewrite <- app_assoc. rewrite (Hb Wb). rewrite (IH Wl).
  rewrite rev_app_distr, <- app_assoc. reflexivity.
Qed.

Lemma pbb_all : forall b, pbb_ok b.
Proof.
  apply bseg_ind2; unfold pbb_ok.
  - intros s H tail count acc. cbn [wf_bseg] in H. apply andb_prop in H. destruct H as [_ H].
    cbn [render_bseg bseg_value]. apply pbb_text. exact H.
  - intros l Hl H tail count acc. cbn [wf_bseg] in H.
    cbn [render_bseg bseg_value]. cbn [app]. cbn [parse_braced_body].
    change (c_lbrace =? c_lbrace) with true. cbv iota.
    rewrite <- app_assoc. rewrite (pbb_list l Hl H). cbn [app parse_braced_body].
    change (c_rbrace =? c_lbrace) with false. change (c_rbrace =? c_rbrace) with true. cbv iota.
    f_equal. cbn [rev]. rewrite rev_app_distr. cbn [rev app]. rewrite <- app_assoc. reflexivity.
  - intros c H tail count acc. cbn [wf_bseg] in H.
    cbn [render_bseg bseg_value app parse_braced_body].
    change (c_bslash =? c_lbrace) with false. change (c_bslash =? c_rbrace) with false.
    change (c_bslash =? c_bslash) with true. cbv iota.
    replace (c =? c_nl) with false by lia. reflexivity.
  - intros _ tail count acc.
    cbn [render_bseg bseg_value app parse_braced_body].
    change (c_bslash =? c_lbrace) with false. change (c_bslash =? c_rbrace) with false.
    change (c_bslash =? c_bslash) with true. change (c_nl =? c_nl) with true. cbv iota.
    reflexivity.
Qed.

Lemma braced_word_render bt b rest :
  forallb wf_bseg b = true ->
  at_end_of_command bt rest || next_is_line_white rest = true ->
  parse_braced_word bt (render_word (CBrace b) ++ rest) = POk (WValue (flat_map bseg_value b)) rest.
Proof.
  intros Hwf He. cbn [render_word]. cbn [app]. unfold parse_braced_word.
  rewrite <- app_assoc.
  rewrite (pbb_list b); [|apply Forall_forall; intros; apply pbb_all|assumption].
  cbn [app parse_braced_body].
  change (c_rbrace =? c_lbrace) with false. change (c_rbrace =? c_rbrace) with true. cbv iota.
  rewrite He. rewrite rev_fast_eq, app_nil_r, rev_involutive. reflexivity.
Qed.

(* ====================================================================== *)
(* D. white space and comments before a command                            *)
(* ====================================================================== *)
Definition comment_char (c : char) : bool := negb ((c =? c_nl) || (c =? c_bslash)).

Inductive junk : str -> Prop :=
| junk_nil : junk []
| junk_ws c j : is_whitespace c = true -> junk j -> junk (c :: j)
| junk_com text j : forallb comment_char text = true -> junk j ->
    junk (c_hash :: text ++ c_nl :: j).

Lemma junk_app a b : junk a -> junk b -> junk (a ++ b).
Proof.
  intros Ha Hb. induction Ha as [|c j Hc Hj IH|text j Ht Hj IH]; [exact Hb| |].
  - cbn [app]. apply junk_ws; assumption.
  - cbn [app]. rewrite <- app_assoc. cbn [app]. apply junk_com; assumption.
Qed.

Lemma junk_white s : forallb is_whitespace s = true -> junk s.
Proof.
  induction s as [|c r IH]; intros H; [constructor|].
  cbn [forallb] in H. apply andb_prop in H. destruct H. apply junk_ws; auto.
Qed.

Lemma skip_comment_text : forall text x, forallb comment_char text = true ->
  skip_comment_body (text ++ c_nl :: x) = x.
Proof.
  induction text as [|c r IH]; intros x H.
  - cbn [app skip_comment_body]. change (c_nl =? c_nl) with true. reflexivity.
  - cbn [forallb] in H. apply andb_prop in H. destruct H as [Hc Hr]. unfold comment_char in Hc.
    cbn [app skip_comment_body].
    replace (c =? c_nl) with false by lia. replace (c =? c_bslash) with false by lia.
    apply IH. assumption.
Qed.

Lemma skip_comment_text_end : forall text, forallb comment_char text = true ->
  skip_comment_body text = [].
Proof.
  induction text as [|c r IH]; intros H; [reflexivity|].
  cbn [forallb] in H. apply andb_prop in H. destruct H as [Hc Hr]. unfold comment_char in Hc.
  cbn [skip_comment_body].
  replace (c =? c_nl) with false by lia. replace (c =? c_bslash) with false by lia.
  apply IH. assumption.
Qed.

Definition stop_ok (s : str) : Prop :=
  match s with [] => True | c :: _ => is_whitespace c = false /\ c <> c_hash end.

Lemma skip_ws_step f bt c x : is_whitespace c = true ->
  skip_to_command (S f) bt (c :: x) = skip_to_command (S f) bt x.
Proof.
  intros Hc. cbn [skip_to_command].
  assert (E : at_end_of_script bt (c :: x) = false).
  { unfold at_end_of_script. revert Hc. unfold is_whitespace, c_rbracket. lia. }
  rewrite E. cbn [skip_while]. rewrite Hc.
  destruct (at_end_of_script bt x) eqn:Ex; [|reflexivity].
  destruct x as [|d y]; [reflexivity|].
  unfold at_end_of_script in Ex.
  assert (Hd : is_whitespace d = false /\ (d =? c_hash) = false).
  { revert Ex. unfold is_whitespace, c_rbracket, c_hash. lia. }
  destruct Hd as [Hw Hh]. cbn [skip_while]. rewrite Hw, Hh. reflexivity.
Qed.

Lemma skip_com_step f bt text x : forallb comment_char text = true ->
  skip_to_command (S f) bt (c_hash :: text ++ c_nl :: x) = skip_to_command f bt x.
Proof.
  intros Ht. cbn [skip_to_command].
  replace (at_end_of_script bt (c_hash :: text ++ c_nl :: x)) with false
    by (unfold at_end_of_script; change (c_hash =? c_rbracket) with false; lia).
  cbn [skip_while]. change (is_whitespace c_hash) with false. cbv iota.
  change (c_hash =? c_hash) with true. cbv iota.
  cbn [skip_comment_body]. change (c_hash =? c_nl) with false. change (c_hash =? c_bslash) with false.
  cbv iota. rewrite skip_comment_text by assumption. reflexivity.
Qed.

Lemma skip_com_end f bt text : forallb comment_char text = true ->
  skip_to_command (S (S f)) bt (c_hash :: text) = [].
Proof.
  intros Ht. cbn [skip_to_command].
  replace (at_end_of_script bt (c_hash :: text)) with false
    by (unfold at_end_of_script; change (c_hash =? c_rbracket) with false; lia).
  cbn [skip_while]. change (is_whitespace c_hash) with false. cbv iota.
  change (c_hash =? c_hash) with true. cbv iota.
  cbn [skip_comment_body]. change (c_hash =? c_nl) with false. change (c_hash =? c_bslash) with false.
  cbv iota. rewrite skip_comment_text_end by assumption. reflexivity.
Qed.

Lemma skip_stop f bt s : stop_ok s -> skip_to_command (S f) bt s = s.
Proof.
  intros H. cbn [skip_to_command]. destruct (at_end_of_script bt s); [reflexivity|].
  destruct s as [|c r]; [reflexivity|]. destruct H as [Hw Hh].
  cbn [skip_while]. rewrite Hw. replace (c =? c_hash) with false by lia. reflexivity.
Qed.

Lemma skip_junk bt s : forall j, junk j -> forall fuel, (length j <= fuel)%nat ->
  exists fuel', (fuel - length j <= fuel')%nat
    /\ skip_to_command fuel bt (j ++ s) = skip_to_command fuel' bt s.
Proof.
  induction 1 as [|c j Hc Hj IH|text j Ht Hj IH]; intros fuel Hf.
  - exists fuel. split; [cbn; lia|reflexivity].
  - cbn [length] in Hf. destruct fuel as [|f]; [lia|].
    cbn [app]. rewrite skip_ws_step by assumption.
    destruct (IH (S f)) as (f' & L & E); [lia|]. exists f'. split; [cbn [length]; lia|exact E].
  - cbn [length] in Hf. rewrite app_length in Hf. cbn [length] in Hf.
    destruct fuel as [|f]; [lia|].
    cbn [app]. rewrite <- app_assoc. cbn [app]. rewrite skip_com_step by assumption.
    destruct (IH f) as (f' & L & E); [lia|]. exists f'. split; [|exact E].
    cbn [length]. rewrite app_length. cbn [length]. lia.
Qed.

(* what parse_command does first *)
Lemma skip_junk_stop bt j s : junk j -> stop_ok s ->
  skip_to_command (S (length (j ++ s))) bt (j ++ s) = s.
Proof.
  intros Hj Hs. destruct (skip_junk bt s j Hj (S (length (j ++ s)))) as (f' & L & E).
  { rewrite app_length. lia. }
  rewrite E. rewrite app_length in L. destruct f' as [|f']; [lia|]. apply skip_stop. assumption.
Qed.

Lemma skip_junk_com_end bt j text : junk j -> forallb comment_char text = true ->
  skip_to_command (S (length (j ++ c_hash :: text))) bt (j ++ c_hash :: text) = [].
Proof.
  intros Hj Ht. destruct (skip_junk bt (c_hash :: text) j Hj (S (length (j ++ c_hash :: text)))) as (f' & L & E).
  { rewrite app_length. lia. }
  rewrite E. rewrite app_length in L. cbn [length] in L.
  destruct f' as [|[|f']]; [lia|lia|]. apply skip_com_end. assumption.
Qed.

(* ====================================================================== *)
(* E. the readers on rendered trees                                        *)
(* ====================================================================== *)

(* what the theorem needs to know about char::is_alphanumeric *)
Definition name_ok (isa : char -> bool) : Prop :=
  (forall c, c < 128 -> isa c = ascii_alnum c) /\ isa 233 = true /\ isa 252 = true.

Lemma name_ok_std : name_ok (u_alnum std_uni).
Proof.
  split; [|split].
  - intros c H. cbn [u_alnum std_uni]. unfold is_alphanumeric.
    replace (c <? 128) with true by lia. reflexivity.
  - vm_compute. reflexivity.
  - vm_compute. reflexivity.
Qed.

Ltac unfold_chars :=
  unfold at_end_of_command, at_end_of_script, next_is_line_white, next_is_block_white,
    is_line_white, index_lit_char, bare_lit_char, quote_lit_char, is_whitespace,
    is_gap_char, is_pre_char, name_char, ascii_name_char, ascii_alnum, comment_char,
    c_tab, c_nl, c_vt, c_ff, c_cr, c_space, c_dquote, c_hash,
    c_dollar, c_semi, c_star, c_rparen, c_lparen, c_lbracket, c_bslash, c_rbracket, c_lbrace,
    c_rbrace, c_underscore in *.

Fixpoint sok_seg (s : seg) {struct s} : bool :=
  match s with
  | SArr _ idx => forallb sok_seg idx
  | SCmd sc => forallb (sok_item true) sc
  | _ => true
  end
with sok_word (w : wordc) {struct w} : bool :=
  match w with
  | CBrace _ => true
  | CQuote l => forallb sok_seg l
  | CBare l => forallb sok_seg l
  | CExpand w' => sok_word w'
  end
with sok_item (nested : bool) (i : item) {struct i} : bool :=
  match i with
  | ICmd _ ws post term =>
      forallb (fun gw => match gw with (_, w) => sok_word w end) ws
      && negb (star_word (last_word ws) && cmd_bad nested post term)
  | _ => true
  end.

(* no command ends in the word {*} immediately followed by ";" or by the "]" of a command
   substitution: there the implementation reads "{*}" as the expansion prefix of an empty word *)
Definition star_safe (sc : list item) : bool := forallb (sok_item false) sc.

Definition seg_steps (s : seg) : nat := match s with SLit x => length x | _ => 1%nat end.
Fixpoint segs_steps (l : list seg) : nat :=
  match l with [] => O | s :: r => (seg_steps s + segs_steps r)%nat end.

Lemma esc_text_head k a : esc_text k a = c_bslash :: tl (esc_text k a).
Proof.
  unfold esc_text. destruct k as [|p]; [reflexivity|].
  destruct p as [p|p|]; [destruct p; reflexivity|destruct p; reflexivity|reflexivity].
Qed.

Section Main.
Variable isa : char -> bool.
Hypothesis Hisa : name_ok isa.

Lemma vn_true c : name_char c = true -> is_varname_char isa c = true.
Proof.
  destruct Hisa as (H1 & H2 & H3). intros H. unfold is_varname_char.
  destruct (N.eq_dec c 233) as [E|E]; [subst; rewrite H2; reflexivity|].
  destruct (N.eq_dec c 252) as [E'|E']; [subst; rewrite H3; reflexivity|].
  assert (L : c < 128) by (revert H; unfold_chars; lia).
  rewrite (H1 c L). revert H. unfold_chars. lia.
Qed.

Lemma vn_false c : c < 128 -> ascii_name_char c = false -> is_varname_char isa c = false.
Proof.
  destruct Hisa as (H1 & _). intros L H. unfold is_varname_char. rewrite (H1 c L).
  revert H. unfold_chars. lia.
Qed.

Definition nv_head (rest : str) : Prop :=
  match rest with [] => True | c :: _ => is_varname_char isa c = false end.
Definition follow_ok (rest : str) : Prop :=
  match rest with [] => True | c :: _ => is_varname_char isa c = false /\ c <> c_lparen end.

Lemma follow_nv rest : follow_ok rest -> nv_head rest.
Proof. destruct rest; [trivial|]. intros [H _]. exact H. Qed.

Lemma tw_name : forall n rest, forallb name_char n = true -> nv_head rest ->
  take_while (is_varname_char isa) (n ++ rest) = n
  /\ skip_while (is_varname_char isa) (n ++ rest) = rest.
Proof.
  induction n as [|c r IH]; intros rest Hn Hr.
  - cbn [app]. destruct rest as [|d y]; [split; reflexivity|].
    cbn [take_while skip_while]. cbn in Hr. rewrite Hr. split; reflexivity.
  - cbn [forallb] in Hn. apply andb_prop in Hn. destruct Hn as [Hc Hn].
    cbn [app take_while skip_while]. rewrite (vn_true c Hc).
    destruct (IH rest Hn Hr) as [A B]. rewrite A, B. split; reflexivity.
Qed.

(* ---------- what is known about the sub-readers of one segment ---------- *)
Definition dollar_good (s : seg) : Prop :=
  exists f0, forall f, (f0 <= f)%nat -> forall bt t rest,
    (match s with SVar _ => follow_ok rest | _ => True end) ->
    parse_dollar isa f bt (tl (render_seg s) ++ rest) t = POk (tok_seg t s) rest.

Definition cmd_good (sc : list item) : Prop :=
  exists f0, forall f, (f0 <= f)%nat -> forall rest,
    parse_brackets isa f (render sc ++ c_rbracket :: rest) = POk (ast_items true false sc) rest.

Definition seg_good (s : seg) : Prop :=
  match s with
  | SLit _ => True
  | SEsc _ _ => True
  | SCmd sc => cmd_good sc
  | _ => dollar_good s
  end.

(* the first character of a segment that may follow $name *)
Lemma may_follow_head lo x y : may_follow_var x = true -> wf_seg lo x = true ->
  follow_ok (render_seg x ++ y).
Proof.
  intros Hm Hw. destruct x as [t|k a|n|n|n idx|sc].
  - destruct t as [|c t']; [discriminate|]. cbn [render_seg app follow_ok].
    cbn [may_follow_var] in Hm. split.
    + apply vn_false; revert Hm; unfold_chars; lia.
    + revert Hm. unfold_chars. lia.
  - cbn [render_seg]. rewrite esc_text_head. cbn [app follow_ok]. split.
    + apply vn_false; unfold_chars; lia.
    + unfold_chars; lia.
  - cbn [render_seg app follow_ok]. split; [apply vn_false; unfold_chars; lia|unfold_chars; lia].
  - cbn [render_seg app follow_ok]. split; [apply vn_false; unfold_chars; lia|unfold_chars; lia].
  - cbn [render_seg app follow_ok]. split; [apply vn_false; unfold_chars; lia|unfold_chars; lia].
  - cbn [render_seg app follow_ok]. split; [apply vn_false; unfold_chars; lia|unfold_chars; lia].
Qed.

(* ---------- a reader of segments, generically ---------- *)
Section Reader.
Variable R : bool -> nat -> str -> tokens -> pres word.
Variable lo : char -> bool.
Hypothesis R_char : forall bt f c r t, lo c = true -> R bt (S f) (c :: r) t = R bt f r (tk_push_char t c).
Hypothesis R_bslash : forall bt f r t,
  R bt (S f) (c_bslash :: r) t = (let '(ch, rest) := bsubst r in R bt f rest (tk_push_char t ch)).
Hypothesis R_dollar : forall bt f r t,
  R bt (S f) (c_dollar :: r) t =
  match parse_dollar isa f bt r t with
  | POk t' rest => R bt f rest t'
  | PErr m => PErr m
  | PFuel => PFuel
  end.
Hypothesis R_bracket : forall bt f r t,
  R bt (S f) (c_lbracket :: r) t =
  match parse_brackets isa f r with
  | POk sc rest => R bt f rest (tk_push t (WScript sc))
  | PErr m => PErr m
  | PFuel => PFuel
  end.

Lemma reader_lit bt : forall x f t rest, forallb lo x = true ->
  R bt (length x + f) (x ++ rest) t = R bt f rest (fold_left tk_push_char x t).
Proof.
  induction x as [|c r IH]; intros f t rest H; [reflexivity|].
  cbn [forallb] in H. apply andb_prop in H. destruct H as [Hc Hr].
  cbn [length app fold_left Nat.add]. rewrite R_char by assumption. apply IH. assumption.
Qed.

Lemma reader_seg s : seg_good s -> wf_seg lo s = true ->
  exists f0, forall f, (f0 <= f)%nat -> forall bt t rest,
    (match s with SVar _ => follow_ok rest | _ => True end) ->
    R bt (seg_steps s + f) (render_seg s ++ rest) t = R bt f rest (tok_seg t s).
Proof.
  intros Hg Hw. destruct s as [x|k a|n|n|n idx|sc].
  - exists O. intros f _ bt t rest _. cbn [seg_steps render_seg tok_seg].
    cbn [wf_seg] in Hw. apply andb_prop in Hw. destruct Hw as [_ Hw]. apply reader_lit. exact Hw.
  - exists O. intros f _ bt t rest _. cbn [seg_steps render_seg tok_seg Nat.add].
    cbn [wf_seg] in Hw. rewrite esc_text_head. cbn [app]. rewrite R_bslash.
    rewrite bsubst_esc by assumption. reflexivity.
  - destruct Hg as (f0 & Hg). exists f0. intros f Hf bt t rest Hr.
    cbn [seg_steps Nat.add]. change (render_seg (SVar n)) with (c_dollar :: tl (render_seg (SVar n))).
    cbn [app]. rewrite R_dollar. rewrite (Hg f Hf bt t rest Hr). reflexivity.
  - destruct Hg as (f0 & Hg). exists f0. intros f Hf bt t rest Hr.
    cbn [seg_steps Nat.add]. change (render_seg (SBVar n)) with (c_dollar :: tl (render_seg (SBVar n))).
    cbn [app]. rewrite R_dollar. rewrite (Hg f Hf bt t rest Hr). reflexivity.
  - destruct Hg as (f0 & Hg). exists f0. intros f Hf bt t rest Hr.
    cbn [seg_steps Nat.add].
    change (render_seg (SArr n idx)) with (c_dollar :: tl (render_seg (SArr n idx))).
    cbn [app]. rewrite R_dollar. rewrite (Hg f Hf bt t rest Hr). reflexivity.
  - destruct Hg as (f0 & Hg). exists f0. intros f Hf bt t rest _.
    cbn [seg_steps Nat.add render_seg]. cbn [app]. rewrite <- app_assoc. cbn [app].
    rewrite R_bracket. unfold render in Hg. rewrite (Hg f Hf rest). reflexivity.
Qed.

Lemma reader_segs : forall l, Forall seg_good l -> forallb (wf_seg lo) l = true ->
  adjacency_ok l = true ->
  exists f0, forall f, (f0 <= f)%nat -> forall bt t rest, follow_ok rest ->
    R bt (segs_steps l + f) (flat_map render_seg l ++ rest) t = R bt f rest (fold_left tok_seg l t).
Proof.
  induction l as [|s l IH]; intros Hg Hw Ha.
  - exists O. intros f _ bt t rest _. reflexivity.
  - inversion Hg as [|s' l' Gs Gl]; subst s' l'.
    cbn [forallb] in Hw. apply andb_prop in Hw. destruct Hw as [Ws Wl].
    assert (Al : adjacency_ok l = true).
    { destruct s; try exact Ha. cbn [adjacency_ok] in Ha. destruct l as [|x l']; [reflexivity|].
      apply andb_prop in Ha. exact (proj2 Ha). }
    destruct (reader_seg s Gs Ws) as (f1 & H1).
    destruct (IH Gl Wl Al) as (f2 & H2).
    exists (f1 + f2)%nat. intros f Hf bt t rest Hr.
    cbn [segs_steps flat_map fold_left]. rewrite <- app_assoc. rewrite <- Nat.add_assoc.
    rewrite H1; [|lia|].
    + apply H2; [lia|exact Hr].
    + destruct s; try exact I. destruct l as [|x l']; [exact Hr|].
      cbn [adjacency_ok] in Ha. apply andb_prop in Ha. destruct Ha as [Hm _].
      cbn [forallb] in Wl. apply andb_prop in Wl. destruct Wl as [Wx _].
      cbn [flat_map]. rewrite <- app_assoc. exact (may_follow_head lo x _ Hm Wx).
Qed.

End Reader.

(* ---------- the two instances: quoted strings and bare words ---------- *)
Definition bare_lo (ix : bool) : char -> bool := if ix then index_lit_char else bare_lit_char.

Lemma quoted_char f bt chk c r t : quote_lit_char c = true ->
  parse_quoted isa (S f) bt chk (c :: r) t = parse_quoted isa f bt chk r (tk_push_char t c).
Proof.
  intros H. rewrite parse_quoted_eq. unfold quote_lit_char in H.
  replace (c =? c_lbracket) with false by lia. replace (c =? c_dollar) with false by lia.
  replace (c =? c_bslash) with false by lia. replace (c =? c_dquote) with false by lia.
  reflexivity.
Qed.

Lemma bare_char f bt ix c r t : bare_lo ix c = true ->
  parse_bare isa (S f) bt ix (c :: r) t = parse_bare isa f bt ix r (tk_push_char t c).
Proof.
  intros H. rewrite parse_bare_eq.
  assert (A : at_end_of_command bt (c :: r) || next_is_line_white (c :: r) = false
              /\ ix && (c =? c_rparen) = false /\ (c =? c_lbracket) = false
              /\ (c =? c_dollar) = false /\ (c =? c_bslash) = false).
  { destruct ix; cbn [bare_lo] in H; revert H; unfold_chars; lia. }
  destruct A as (A1 & A2 & A3 & A4 & A5). rewrite A1, A2, A3, A4, A5. reflexivity.
Qed.

Lemma quoted_segs chk l : Forall seg_good l -> forallb (wf_seg quote_lit_char) l = true ->
  adjacency_ok l = true ->
  exists f0, forall f, (f0 <= f)%nat -> forall bt t rest, follow_ok rest ->
    parse_quoted isa (segs_steps l + f) bt chk (flat_map render_seg l ++ rest) t
    = parse_quoted isa f bt chk rest (fold_left tok_seg l t).
Proof.
  apply (reader_segs (fun bt f s t => parse_quoted isa f bt chk s t) quote_lit_char).
  - intros. apply quoted_char. assumption.
  - intros. reflexivity.
  - intros. reflexivity.
  - intros. reflexivity.
Qed.

Lemma bare_segs ix l : Forall seg_good l -> forallb (wf_seg (bare_lo ix)) l = true ->
  adjacency_ok l = true ->
  exists f0, forall f, (f0 <= f)%nat -> forall bt t rest, follow_ok rest ->
    parse_bare isa (segs_steps l + f) bt ix (flat_map render_seg l ++ rest) t
    = parse_bare isa f bt ix rest (fold_left tok_seg l t).
Proof.
  apply (reader_segs (fun bt f s t => parse_bare isa f bt ix s t) (bare_lo ix)).
  - intros. apply bare_char. assumption.
  - intros. rewrite parse_bare_eq. destruct bt, ix; reflexivity.
  - intros. rewrite parse_bare_eq. destruct bt, ix; reflexivity.
  - intros. rewrite parse_bare_eq. destruct bt, ix; reflexivity.
Qed.

(* ---------- $name, ${name}, $name(index) ---------- *)
Lemma var_good n lo : wf_seg lo (SVar n) = true -> dollar_good (SVar n).
Proof.
  intros Hw. cbn [wf_seg] in Hw. apply andb_prop in Hw. destruct Hw as [Hne Hn].
  exists 2%nat. intros f Hf bt t rest Hr.
  destruct f as [|[|f]]; [lia|lia|]. cbn [render_seg tl tok_seg].
  destruct n as [|c n']; [discriminate|].
  assert (Hc : name_char c = true) by (cbn [forallb] in Hn; apply andb_prop in Hn; exact (proj1 Hn)).
  rewrite parse_dollar_eq. cbn [app]. rewrite (vn_true c Hc). cbn [orb].
  rewrite parse_varname_eq.
  replace (c =? c_lbrace) with false by (revert Hc; unfold_chars; lia).
  change (c :: n' ++ rest) with ((c :: n') ++ rest).
  destruct (tw_name (c :: n') rest Hn (follow_nv rest Hr)) as [A B]. rewrite A, B.
  destruct rest as [|d y]; [reflexivity|]. destruct Hr as [_ Hd].
  replace (d =? c_lparen) with false by lia. reflexivity.
Qed.

Lemma tw_until (p : char -> bool) : forall n c rest, forallb p n = true -> p c = false ->
  take_while p (n ++ c :: rest) = n /\ skip_while p (n ++ c :: rest) = c :: rest.
Proof.
  induction n as [|a r IH]; intros c rest Hn Hc.
  - cbn [app take_while skip_while]. rewrite Hc. split; reflexivity.
  - cbn [forallb] in Hn. apply andb_prop in Hn. destruct Hn as [Ha Hn].
    cbn [app take_while skip_while]. rewrite Ha. destruct (IH c rest Hn Hc) as [A B].
    rewrite A, B. split; reflexivity.
Qed.

Lemma sw_all (p : char -> bool) : forall n, forallb p n = true -> skip_while p n = [].
Proof.
  induction n as [|a r IH]; intros Hn; [reflexivity|].
  cbn [forallb] in Hn. apply andb_prop in Hn. destruct Hn as [Ha Hn].
  cbn [skip_while]. rewrite Ha. apply IH. exact Hn.
Qed.

Lemma bvar_good n lo : wf_seg lo (SBVar n) = true -> dollar_good (SBVar n).
Proof.
  intros Hw. cbn [wf_seg] in Hw.
  exists 2%nat. intros f Hf bt t rest _.
  destruct f as [|[|f]]; [lia|lia|]. cbn [render_seg tl tok_seg app].
  rewrite parse_dollar_eq. cbv beta iota. change (c_lbrace =? c_lbrace) with true. rewrite orb_true_r.
  rewrite parse_varname_eq. cbv beta iota. change (c_lbrace =? c_lbrace) with true. cbv iota.
  unfold parse_braced_varname. rewrite <- app_assoc. cbn [app].
  destruct (tw_until (fun c => negb (c =? c_rbrace)) n c_rbrace rest) as [A B].
  { rewrite forallb_forall in Hw. apply forallb_forall. intros x Hx. specialize (Hw x Hx). lia. }
  { reflexivity. }
  rewrite A, B. unfold parse_varname_literal.
  rewrite (sw_all (fun c => negb (c =? c_lparen)) n).
  - reflexivity.
  - rewrite forallb_forall in Hw. apply forallb_forall. intros x Hx. specialize (Hw x Hx). lia.
Qed.

Lemma arr_good n idx lo : wf_seg lo (SArr n idx) = true -> Forall seg_good idx ->
  dollar_good (SArr n idx).
Proof.
  intros Hw Hg. cbn [wf_seg] in Hw.
  apply andb_prop in Hw. destruct Hw as [Hw Ha].
  apply andb_prop in Hw. destruct Hw as [Hw Hi].
  apply andb_prop in Hw. destruct Hw as [Hne Hn].
  destruct (bare_segs true idx Hg Hi Ha) as (f1 & H1).
  exists (3 + segs_steps idx + f1)%nat. intros f Hf bt t rest _.
  replace f with (S (S (segs_steps idx + (S (f - 3 - segs_steps idx)))))%nat by lia.
  set (g := (f - 3 - segs_steps idx)%nat).
  cbn [render_seg tl tok_seg].
  destruct n as [|c n']; [discriminate|].
  assert (Hc : name_char c = true) by (cbn [forallb] in Hn; apply andb_prop in Hn; exact (proj1 Hn)).
  rewrite parse_dollar_eq. rewrite <- !app_assoc. cbn [app]. rewrite (vn_true c Hc). cbn [orb].
  rewrite parse_varname_eq.
  replace (c =? c_lbrace) with false by (revert Hc; unfold_chars; lia).
  change (c :: n' ++ c_lparen :: flat_map render_seg idx ++ c_rparen :: rest)
    with ((c :: n') ++ c_lparen :: flat_map render_seg idx ++ c_rparen :: rest).
  destruct (tw_name (c :: n') (c_lparen :: flat_map render_seg idx ++ c_rparen :: rest) Hn) as [A B].
  { cbn. apply vn_false; unfold_chars; lia. }
  rewrite A, B. change (c_lparen =? c_lparen) with true. cbv iota.
  rewrite H1; [|unfold g; lia|split; [apply vn_false; unfold_chars; lia|unfold_chars; lia]].
  rewrite parse_bare_eq.
  replace (at_end_of_command bt (c_rparen :: rest) || next_is_line_white (c_rparen :: rest))
    with false by (destruct bt; reflexivity).
  change (true && (c_rparen =? c_rparen)) with true. cbv iota.
  change (c_rparen =? c_rparen) with true. cbv iota. reflexivity.
Qed.

(* ---------- words ---------- *)
Definition wendb (bt : bool) (rest : str) : bool :=
  match rest with
  | [] => true
  | c :: _ => (c =? c_space) || (c =? c_tab) || (c =? c_nl) || (c =? c_semi) || (bt && (c =? c_rbracket))
  end.
Definition star_tail (rest : str) : bool :=
  match rest with [] => true | c :: _ => is_whitespace c end.

Lemma wendb_end bt rest : wendb bt rest = true ->
  at_end_of_command bt rest || next_is_line_white rest = true.
Proof. destruct rest as [|c r]; [reflexivity|]. unfold wendb. unfold_chars. lia. Qed.

Lemma wendb_follow bt rest : wendb bt rest = true -> follow_ok rest.
Proof.
  destruct rest as [|c r]; [intros _; exact I|]. unfold wendb. intros H. split.
  - apply vn_false; revert H; unfold_chars; lia.
  - revert H. unfold_chars. lia.
Qed.

(* the first character of a word *)
Definition whead (h : char) : Prop :=
  bare_lit_char h = true \/ h = c_bslash \/ h = c_dollar \/ h = c_lbracket
  \/ h = c_lbrace \/ h = c_dquote.

Lemma whead_facts h bt r : whead h ->
  at_end_of_command bt (h :: r) = false /\ is_line_white h = false /\ is_whitespace h = false.
Proof. unfold whead. unfold_chars. lia. Qed.

Lemma seg_head lo s y : wf_seg lo s = true -> (forall c, lo c = true -> bare_lit_char c = true) ->
  exists h r, render_seg s ++ y = h :: r /\ whead h
    /\ (h = c_hash -> exists t', s = SLit (c_hash :: t')).
Proof.
  intros Hw Hlo. destruct s as [x|k a|n|n|n idx|sc].
  - cbn [wf_seg] in Hw. apply andb_prop in Hw. destruct Hw as [Hne Hx].
    destruct x as [|c x']; [discriminate|]. cbn [forallb] in Hx. apply andb_prop in Hx.
    exists c, (x' ++ y). split; [reflexivity|]. split.
    + left. apply Hlo. exact (proj1 Hx).
    + intros E. subst c. exists x'. reflexivity.
  - cbn [render_seg]. rewrite esc_text_head. eexists; eexists. split; [reflexivity|].
    split; [right; left; reflexivity|]. intros E. discriminate E.
  - eexists; eexists. split; [reflexivity|]. split; [right; right; left; reflexivity|discriminate].
  - eexists; eexists. split; [reflexivity|]. split; [right; right; left; reflexivity|discriminate].
  - eexists; eexists. split; [reflexivity|]. split; [right; right; left; reflexivity|discriminate].
  - eexists; eexists. split; [reflexivity|]. split; [right; right; right; left; reflexivity|discriminate].
Qed.

Lemma bare_word_head l y : wf_word (CBare l) = true ->
  exists h r, flat_map render_seg l ++ y = h :: r /\ whead h
    /\ (h = c_hash -> exists t' l', l = SLit (c_hash :: t') :: l')
    /\ h <> c_lbrace /\ h <> c_dquote.
Proof.
  intros Hw. cbn [wf_word] in Hw. apply andb_prop in Hw. destruct Hw as [Hw _].
  apply andb_prop in Hw. destruct Hw as [Hne Hw].
  destruct l as [|s l']; [discriminate|]. cbn [forallb] in Hw. apply andb_prop in Hw.
  destruct Hw as [Hs _]. cbn [flat_map]. rewrite <- app_assoc.
  destruct (seg_head bare_lit_char s (flat_map render_seg l' ++ y) Hs) as (h & r & E & Hh & Hash).
  { intros c Hc. exact Hc. }
  exists h, r. split; [exact E|]. split; [exact Hh|]. split.
  - intros Eh. destruct (Hash Eh) as (t' & Et). subst s. exists t', l'. reflexivity.
  - destruct s as [x|k a|n|n|n idx|sc].
    + cbn [wf_seg] in Hs. apply andb_prop in Hs. destruct Hs as [Hne' Hx].
      destruct x as [|c x']; [discriminate|]. cbn [forallb] in Hx. apply andb_prop in Hx.
      cbn [render_seg app] in E. inversion E. subst h.
      destruct Hx as [Hc _]. revert Hc. unfold_chars. lia.
    + cbn [render_seg] in E. rewrite esc_text_head in E. cbn [app] in E. inversion E.
      unfold_chars. lia.
    + cbn [render_seg app] in E. inversion E. unfold_chars. lia.
    + cbn [render_seg app] in E. inversion E. unfold_chars. lia.
    + cbn [render_seg app] in E. inversion E. unfold_chars. lia.
    + cbn [render_seg app] in E. inversion E. unfold_chars. lia.
Qed.

Lemma word_head w y : wf_word w = true ->
  exists h r, render_word w ++ y = h :: r /\ whead h
    /\ (h = c_hash -> exists t' l', w = CBare (SLit (c_hash :: t') :: l')).
Proof.
  intros Hw. destruct w as [b|l|l|w'].
  - eexists; eexists. split; [reflexivity|]. split; [right; right; right; right; left; reflexivity|discriminate].
  - eexists; eexists. split; [reflexivity|]. split; [right; right; right; right; right; reflexivity|discriminate].
  - cbn [render_word]. destruct (bare_word_head l y Hw) as (h & r & E & Hh & Hash & _).
    exists h, r. split; [exact E|]. split; [exact Hh|].
    intros Eh. destruct (Hash Eh) as (t' & l' & El). subst l. exists t', l'. reflexivity.
  - eexists; eexists. split; [reflexivity|]. split; [right; right; right; right; left; reflexivity|discriminate].
Qed.

(* a braced word other than {*} does not start with the expansion prefix *)
Lemma bseg_head b y : wf_bseg b = true ->
  exists h r, render_bseg b ++ y = h :: r /\ h <> c_rbrace.
Proof.
  intros Hw. destruct b as [s|l|c|].
  - cbn [wf_bseg] in Hw. apply andb_prop in Hw. destruct Hw as [Hne Hs].
    destruct s as [|c s']; [discriminate|]. cbn [forallb] in Hs. apply andb_prop in Hs.
    exists c, (s' ++ y). split; [reflexivity|]. destruct Hs as [Hc _].
    revert Hc. unfold brace_text_char. unfold_chars. lia.
  - eexists; eexists. split; [reflexivity|]. unfold_chars; lia.
  - eexists; eexists. split; [reflexivity|]. unfold_chars; lia.
  - eexists; eexists. split; [reflexivity|]. unfold_chars; lia.
Qed.

Lemma no_star_prefix b rest : forallb wf_bseg b = true -> star_word (CBrace b) = false ->
  starts_with [c_lbrace; c_star; c_rbrace] (render_word (CBrace b) ++ rest) = false.
Proof.
  intros Hw Hs. cbn [render_word]. cbn [app]. cbn [starts_with].
  change (c_lbrace =? c_lbrace) with true. cbn [andb].
  destruct b as [|x b']; [reflexivity|].
  cbn [forallb] in Hw. apply andb_prop in Hw. destruct Hw as [Wx Wb].
  destruct x as [s|l|c|].
  - cbn [wf_bseg] in Wx. apply andb_prop in Wx. destruct Wx as [Hne Hx].
    destruct s as [|c s']; [discriminate|]. cbn [flat_map render_bseg app].
    destruct (N.eqb_spec c_star c) as [Ec|Ec]; [|reflexivity]. subst c. cbn [andb].
    destruct s' as [|d s''].
    + cbn [app]. destruct b' as [|x2 b''].
      * cbn [star_word] in Hs. discriminate Hs.
      * cbn [forallb] in Wb. apply andb_prop in Wb. destruct Wb as [W2 _].
        cbn [flat_map]. rewrite <- !app_assoc.
        destruct (bseg_head x2 (flat_map render_bseg b'' ++ [c_rbrace] ++ rest) W2) as (h & r & E & Hh).
        rewrite E. replace (c_rbrace =? h) with false by lia. reflexivity.
    + cbn [app]. cbn [forallb] in Hx. apply andb_prop in Hx. destruct Hx as [_ Hx].
      apply andb_prop in Hx. destruct Hx as [Hd _].
      replace (c_rbrace =? d) with false by (revert Hd; unfold brace_text_char; unfold_chars; lia).
      reflexivity.
  - reflexivity.
  - reflexivity.
  - reflexivity.
Qed.

Lemma star_word_eq w : star_word w = true -> w = CBrace [BText [c_star]].
Proof.
  destruct w as [b| | |]; try discriminate. destruct b as [|x [|y b']]; try discriminate.
  - destruct x; try discriminate. cbn [star_word]. intros H. apply str_eqb_eq in H. subst. reflexivity.
  - destruct x; discriminate.
Qed.

Definition inner_good (w : wordc) : Prop :=
  exists f0, forall f, (f0 <= f)%nat -> forall bt rest, wendb bt rest = true ->
    match w with
    | CQuote l =>
        parse_quoted isa f bt true (flat_map render_seg l ++ c_dquote :: rest) tk_new
        = POk (ast_word w) rest
    | CBare l =>
        parse_bare isa f bt false (flat_map render_seg l ++ rest) tk_new = POk (ast_word w) rest
    | _ => True
    end.

Definition word_ast_at (w : wordc) (rest : str) : word :=
  if star_word w && negb (star_tail rest) then WExpand (WValue []) else ast_word w.

Definition word_good (w : wordc) : Prop :=
  exists f0, forall f, (f0 <= f)%nat -> forall bt rest, wendb bt rest = true ->
    parse_next_word isa f bt (render_word w ++ rest) = POk (word_ast_at w rest) rest.

Lemma quote_inner l : Forall seg_good l -> wf_word (CQuote l) = true -> inner_good (CQuote l).
Proof.
  intros Hg Hw. cbn [wf_word] in Hw. apply andb_prop in Hw. destruct Hw as [Hw Ha].
  destruct (quoted_segs true l Hg Hw Ha) as (f1 & H1).
  exists (segs_steps l + S f1)%nat. intros f Hf bt rest Hr.
  replace f with (segs_steps l + S (f - segs_steps l - 1))%nat by lia.
  rewrite H1; [|lia|split; [apply vn_false; unfold_chars; lia|unfold_chars; lia]].
  rewrite parse_quoted_eq.
  change (c_dquote =? c_lbracket) with false. change (c_dquote =? c_dollar) with false.
  change (c_dquote =? c_bslash) with false. change (c_dquote =? c_dquote) with true. cbv iota.
  cbn [negb orb]. rewrite (wendb_end bt rest Hr). reflexivity.
Qed.

Lemma bare_inner l : Forall seg_good l -> wf_word (CBare l) = true -> inner_good (CBare l).
Proof.
  intros Hg Hw. cbn [wf_word] in Hw. apply andb_prop in Hw. destruct Hw as [Hw Ha].
  apply andb_prop in Hw. destruct Hw as [_ Hw].
  destruct (bare_segs false l Hg Hw Ha) as (f1 & H1).
  exists (segs_steps l + S f1)%nat. intros f Hf bt rest Hr.
  replace f with (segs_steps l + S (f - segs_steps l - 1))%nat by lia.
  rewrite H1; [|lia|exact (wendb_follow bt rest Hr)].
  rewrite parse_bare_eq. rewrite (wendb_end bt rest Hr). reflexivity.
Qed.

Lemma brace_word b : wf_word (CBrace b) = true -> word_good (CBrace b).
Proof.
  intros Hw. cbn [wf_word] in Hw. exists 2%nat. intros f Hf bt rest Hr.
  destruct f as [|[|f]]; [lia|lia|]. rewrite parse_next_word_eq. unfold word_ast_at.
  destruct (star_word (CBrace b)) eqn:Es.
  - apply star_word_eq in Es. inversion Es. subst b.
    cbn [render_word flat_map render_bseg app]. change (c_lbrace =? c_lbrace) with true. cbv iota.
    change (starts_with [c_lbrace; c_star; c_rbrace] (c_lbrace :: c_star :: c_rbrace :: rest))
      with true. cbv iota zeta. cbn [skipn andb].
    destruct rest as [|d y]; [reflexivity|]. cbn [star_tail].
    destruct (is_whitespace d) eqn:Ew; [reflexivity|]. cbn [negb].
    assert (Hd : (d =? c_lbrace) = false /\ (d =? c_dquote) = false
                 /\ at_end_of_command bt (d :: y) = true).
    { revert Hr Ew. unfold wendb. unfold_chars. lia. }
    destruct Hd as (D1 & D2 & D3). rewrite D1, D2. rewrite parse_bare_eq, D3. reflexivity.
  - cbn [andb]. rewrite (no_star_prefix b rest Hw Es).
    change (render_word (CBrace b) ++ rest)
      with (c_lbrace :: (flat_map render_bseg b ++ [c_rbrace]) ++ rest).
    change (c_lbrace =? c_lbrace) with true. cbv iota.
    change (c_lbrace :: (flat_map render_bseg b ++ [c_rbrace]) ++ rest)
      with (render_word (CBrace b) ++ rest).
    apply braced_word_render; [exact Hw|exact (wendb_end bt rest Hr)].
Qed.

Lemma quote_word l : inner_good (CQuote l) -> word_good (CQuote l).
Proof.
  intros (f1 & H1). exists (S f1). intros f Hf bt rest Hr.
  destruct f as [|f]; [lia|]. rewrite parse_next_word_eq.
  unfold word_ast_at. cbn [star_word andb].
  cbn [render_word]. cbn [app]. change (c_dquote =? c_lbrace) with false.
  change (c_dquote =? c_dquote) with true. cbv iota.
  rewrite <- app_assoc. cbn [app]. apply (H1 f); [lia|exact Hr].
Qed.

Lemma bare_word l : wf_word (CBare l) = true -> inner_good (CBare l) -> word_good (CBare l).
Proof.
  intros Hw (f1 & H1). exists (S f1). intros f Hf bt rest Hr.
  destruct f as [|f]; [lia|]. rewrite parse_next_word_eq.
  unfold word_ast_at. cbn [star_word andb].
  cbn [render_word].
  destruct (bare_word_head l rest Hw) as (h & r & E & Hh & _ & Nb & Nq).
  specialize (H1 f ltac:(lia) bt rest Hr). cbv beta iota in H1. rewrite E in *.
  replace (h =? c_lbrace) with false by lia. replace (h =? c_dquote) with false by lia.
  exact H1.
Qed.

Lemma expand_word w : wf_word (CExpand w) = true -> inner_good w -> word_good (CExpand w).
Proof.
  intros Hw (f1 & H1). cbn [wf_word] in Hw. exists (S f1). intros f Hf bt rest Hr.
  destruct f as [|f]; [lia|]. rewrite parse_next_word_eq.
  unfold word_ast_at. cbn [star_word andb].
  cbn [render_word]. cbn [app]. change (c_lbrace =? c_lbrace) with true. cbv iota.
  change (starts_with [c_lbrace; c_star; c_rbrace]
            (c_lbrace :: c_star :: c_rbrace :: render_word w ++ rest)) with true.
  cbv iota zeta. cbn [skipn].
  specialize (H1 f ltac:(lia) bt rest Hr).
  destruct w as [b|l|l|w']; [| | |discriminate].
  - cbn [render_word]. cbn [app]. change (is_whitespace c_lbrace) with false. cbv iota.
    change (c_lbrace =? c_lbrace) with true. cbv iota.
    change (c_lbrace :: (flat_map render_bseg b ++ [c_rbrace]) ++ rest)
      with (render_word (CBrace b) ++ rest).
    rewrite braced_word_render; [reflexivity|exact Hw|exact (wendb_end bt rest Hr)].
  - cbn [render_word]. cbn [app]. change (is_whitespace c_dquote) with false. cbv iota.
    change (c_dquote =? c_lbrace) with false. change (c_dquote =? c_dquote) with true. cbv iota.
    cbn [tl]. rewrite <- app_assoc. cbn [app]. rewrite H1. reflexivity.
  - cbn [render_word].
    destruct (bare_word_head l rest Hw) as (h & r & E & Hh & _ & Nb & Nq).
    rewrite E in *. destruct (whead_facts h bt r Hh) as (_ & _ & Hws). rewrite Hws.
    replace (h =? c_lbrace) with false by lia. replace (h =? c_dquote) with false by lia.
    rewrite H1. reflexivity.
Qed.

(* ---------- the words of a command ---------- *)
Definition render_gw (gw : str * wordc) : str := match gw with (g, w) => g ++ render_word w end.
Definition ast_gw (gw : str * wordc) : word := match gw with (_, w) => ast_word w end.
Definition gw_ok (gw : str * wordc) : bool :=
  match gw with (g', w') => negb (str_eqb g' []) && forallb is_gap_char g' && wf_word w' end.

Lemma skip_gap : forall g x, forallb is_gap_char g = true ->
  match x with [] => True | c :: _ => is_line_white c = false end ->
  skip_while is_line_white (g ++ x) = x.
Proof.
  induction g as [|c g IH]; intros x Hg Hx.
  - cbn [app]. destruct x as [|d y]; [reflexivity|]. cbn [skip_while]. rewrite Hx. reflexivity.
  - cbn [forallb] in Hg. apply andb_prop in Hg. destruct Hg as [Hc Hg].
    cbn [app skip_while]. replace (is_line_white c) with true by (revert Hc; unfold_chars; lia).
    apply IH; assumption.
Qed.

Lemma end_cmd_facts bt tail : at_end_of_command bt tail = true ->
  wendb bt tail = true /\ match tail with [] => True | c :: _ => is_line_white c = false end.
Proof.
  destruct tail as [|c r]; [split; [reflexivity|exact I]|].
  unfold wendb. unfold_chars. lia.
Qed.

Lemma gap_tail_facts bt g x : forallb is_gap_char g = true -> g <> [] ->
  wendb bt (g ++ x) = true /\ star_tail (g ++ x) = true.
Proof.
  intros Hg Hne. destruct g as [|c g']; [congruence|].
  cbn [forallb] in Hg. apply andb_prop in Hg. destruct Hg as [Hc _].
  cbn [app wendb star_tail]. revert Hc. unfold_chars. lia.
Qed.

Lemma gap_star_tail post tail : forallb is_gap_char post = true ->
  negb (star_tail (post ++ tail)) = str_eqb post [] && negb (star_tail tail).
Proof.
  intros H. destruct post as [|c p]; [reflexivity|].
  cbn [forallb] in H. apply andb_prop in H. destruct H as [Hc _].
  cbn [app star_tail str_eqb andb]. revert Hc. unfold_chars. lia.
Qed.

Lemma words_from : forall r,
  Forall (fun gw => word_good (snd gw)) r -> forallb gw_ok r = true ->
  forall g1 w1, word_good w1 -> wf_word w1 = true ->
  exists f0, forall f, (f0 <= f)%nat -> forall bt acc post tail,
    forallb is_gap_char post = true -> at_end_of_command bt tail = true ->
    parse_words isa f bt (render_word w1 ++ flat_map render_gw r ++ post ++ tail) acc
    = POk (rev acc ++ words_ast ast_word (str_eqb post [] && negb (star_tail tail)) ((g1, w1) :: r))
          tail.
Proof.
  induction r as [|[g w2] r IH]; intros Hg Hok g1 w1 (fw & Hw1) Wf1.
  - exists (2 + fw)%nat. intros f Hf bt acc post tail Hpost Htail.
    destruct f as [|[|f]]; [exfalso; clear - Hf; lia|exfalso; clear - Hf; lia|].
    assert (Hfw : (fw <= S f)%nat) by (clear - Hf; lia).
    cbn [flat_map app words_ast]. rewrite parse_words_eq.
    destruct (word_head w1 (post ++ tail) Wf1) as (h & y & E & Hh & _).
    rewrite E. rewrite (proj1 (whead_facts h bt y Hh)). rewrite <- E.
    destruct (end_cmd_facts bt tail Htail) as [Tw Tl].
    rewrite Hw1; [|exact Hfw|].
    + rewrite skip_gap by assumption. rewrite parse_words_eq, Htail. cbn [rev].
      unfold word_ast_at. rewrite (gap_star_tail post tail Hpost). reflexivity.
    + destruct post as [|c p']; [exact Tw|].
      apply (gap_tail_facts bt (c :: p') tail Hpost). discriminate.
  - inversion Hg as [|x r' G2 Gr]; subst x r'. cbn [snd] in G2.
    cbn [forallb] in Hok. apply andb_prop in Hok. destruct Hok as [Ok2 Okr].
    unfold gw_ok in Ok2. apply andb_prop in Ok2. destruct Ok2 as [Ok2 Wf2].
    apply andb_prop in Ok2. destruct Ok2 as [Gne Ggap].
    assert (Hgne : g <> []) by (intros E; subst g; discriminate Gne).
    destruct (IH Gr Okr g w2 G2 Wf2) as (f2 & H2).
    exists (1 + fw + f2)%nat. intros f Hf bt acc post tail Hpost Htail.
    destruct f as [|f]; [exfalso; clear - Hf; lia|].
    assert (Hfw : (fw <= f)%nat) by (clear - Hf; lia).
    assert (Hf2 : (f2 <= f)%nat) by (clear - Hf; lia).
    cbn [flat_map]. unfold render_gw at 1. rewrite <- !app_assoc.
    rewrite parse_words_eq.
    destruct (word_head w1 (g ++ render_word w2 ++ flat_map render_gw r ++ post ++ tail) Wf1)
      as (h & y & E & Hh & _).
    rewrite E. rewrite (proj1 (whead_facts h bt y Hh)). rewrite <- E.
    rewrite Hw1; [|exact Hfw|exact (proj1 (gap_tail_facts bt g _ Ggap Hgne))].
    rewrite skip_gap; [|exact Ggap|].
    + rewrite (H2 f Hf2 bt (word_ast_at w1 (g ++ render_word w2 ++ flat_map render_gw r ++ post ++ tail) :: acc)
                 post tail Hpost Htail).
      cbn [rev]. rewrite <- app_assoc. unfold word_ast_at at 1.
      rewrite (proj2 (gap_tail_facts bt g _ Ggap Hgne)). rewrite andb_false_r. reflexivity.
    + destruct (word_head w2 (flat_map render_gw r ++ post ++ tail) Wf2) as (h2 & y2 & E2 & Hh2 & _).
      rewrite E2. exact (proj1 (proj2 (whead_facts h2 bt y2 Hh2))).
Qed.

Definition cmd_words_good (i : item) : Prop :=
  match i with
  | ICmd pre ws post term =>
      exists f0, forall f, (f0 <= f)%nat -> forall bt acc tail,
        at_end_of_command bt tail = true ->
        parse_words isa f bt (flat_map render_gw ws ++ post ++ tail) acc
        = POk (rev acc ++ words_ast ast_word (str_eqb post [] && negb (star_tail tail)) ws) tail
  | _ => True
  end.

Lemma cmd_words pre ws post term nested last :
  Forall (fun gw => word_good (snd gw)) ws ->
  wf_item nested last (ICmd pre ws post term) = true ->
  cmd_words_good (ICmd pre ws post term).
Proof.
  intros Hg Hw. cbn [wf_item] in Hw.
  apply andb_prop in Hw. destruct Hw as [Hw Hws].
  apply andb_prop in Hw. destruct Hw as [Hw Hterm].
  apply andb_prop in Hw. destruct Hw as [Hpre Hpost].
  destruct ws as [|[g w1] r]; [discriminate|].
  apply andb_prop in Hws. destruct Hws as [Hws Hr].
  apply andb_prop in Hws. destruct Hws as [Hws _].
  apply andb_prop in Hws. destruct Hws as [Hg0 Wf1].
  apply str_eqb_eq in Hg0. subst g.
  inversion Hg as [|x r' G1 Gr]; subst x r'. cbn [snd] in G1.
  destruct (words_from r Gr Hr [] w1 G1 Wf1) as (f0 & H0).
  exists f0. intros f Hf bt acc tail Htail.
  cbn [flat_map]. unfold render_gw at 1. cbn [app]. rewrite <- app_assoc.
  apply H0; assumption.
Qed.

(* ---------- the commands of a script ---------- *)
Definition nonemptyb (s : str) : bool := match s with [] => false | _ => true end.

Lemma junk_head c p : junk (c :: p) -> is_whitespace c = true \/ c = c_hash.
Proof. intros H. inversion H; [left; assumption|right; reflexivity]. Qed.

(* a text that starts with white space, a comment, or a character that is not "]" *)
Lemma not_end_script bt j x : junk j ->
  (j <> [] \/ match x with [] => False | c :: _ => c <> c_rbracket end) ->
  at_end_of_script bt (j ++ x) = false.
Proof.
  intros Hj Hx. destruct j as [|c p].
  - cbn [app]. destruct Hx as [Hx|Hx]; [congruence|].
    destruct x as [|d y]; [contradiction|]. unfold at_end_of_script.
    replace (d =? c_rbracket) with false by lia. apply andb_false_r.
  - cbn [app]. unfold at_end_of_script. destruct (junk_head c p Hj) as [H|H].
    + replace (c =? c_rbracket) with false by (revert H; unfold_chars; lia). apply andb_false_r.
    + subst c. apply andb_false_r.
Qed.

Lemma end_script_facts bt rest : at_end_of_script bt rest = true ->
  at_end_of_command bt rest = true /\ stop_ok rest
  /\ match rest with [] => True | c :: _ => (c =? c_semi) = false end
  /\ (bt = false -> rest = []).
Proof.
  intros H. destruct rest as [|c r]; [repeat split|]. unfold stop_ok. revert H. unfold_chars. intros H.
  repeat split; lia.
Qed.

Definition item_ok (i : item) : Prop :=
  forall nested last, wf_item nested last i = true -> cmd_words_good i.

(* what follows a script: nothing at top level, the closing bracket in a command substitution *)
Definition rest_ok (nested : bool) (rest : str) : Prop :=
  match rest with [] => nested = false | c :: _ => nested = true /\ c = c_rbracket end.

Lemma rest_ok_end nested rest : rest_ok nested rest -> at_end_of_script nested rest = true.
Proof.
  destruct rest as [|c r]; [reflexivity|]. intros [Hn Hc]. subst nested c. reflexivity.
Qed.

Lemma wf_items_cons nested x r : wf_items nested (x :: r) = true ->
  wf_item nested (match r with [] => true | _ => false end) x = true /\ wf_items nested r = true.
Proof.
  cbn [wf_items]. destruct r as [|y r']; [intros H; split; [exact H|reflexivity]|].
  intros H. apply andb_prop in H. exact H.
Qed.

Lemma term_cases last term :
  str_eqb term [c_semi] || str_eqb term [c_nl] || (last && str_eqb term []) = true ->
  term = [c_semi] \/ term = [c_nl] \/ (last = true /\ term = []).
Proof.
  intros H. destruct (str_eqb term [c_semi]) eqn:E1; [left; apply str_eqb_eq; exact E1|].
  destruct (str_eqb term [c_nl]) eqn:E2; [right; left; apply str_eqb_eq; exact E2|].
  cbn [orb] in H. apply andb_prop in H. destruct H as [Hl Ht]. apply str_eqb_eq in Ht.
  right; right. split; assumption.
Qed.

Lemma whead_not_rb h : whead h -> h <> c_rbracket.
Proof. unfold whead. unfold_chars. lia. Qed.

Lemma pre_junk pre : forallb is_pre_char pre = true -> junk pre.
Proof.
  intros H. apply junk_white. rewrite forallb_forall in H. apply forallb_forall.
  intros c Hc. specialize (H c Hc). revert H. clear. unfold_chars. lia.
Qed.

Definition after_cmd (ws : wordvec) (rest : str) : pres wordvec :=
  match rest with
  | c :: r => if c =? c_semi then POk ws r else POk ws rest
  | [] => POk ws rest
  end.

Lemma parse_command_eq' f bt s :
  parse_command isa (S f) bt s =
  match parse_words isa f bt (skip_to_command (S (length s)) bt s) [] with
  | POk ws rest => after_cmd ws rest
  | PErr m => PErr m
  | PFuel => PFuel
  end.
Proof. reflexivity. Qed.

Lemma after_cmd_end bt ws rest : at_end_of_script bt rest = true -> after_cmd ws rest = POk ws rest.
Proof.
  intros H. destruct (end_script_facts bt rest H) as (_ & _ & E & _).
  destruct rest as [|c r]; [reflexivity|]. unfold after_cmd. rewrite E. reflexivity.
Qed.

Lemma script_items nested : forall sc, Forall item_ok sc ->
  wf_items nested sc = true ->
  exists f0, forall f, (f0 <= f)%nat -> forall pend acc rest,
    junk pend -> rest_ok nested rest ->
    parse_script isa f nested (pend ++ render sc ++ rest) acc
    = POk (rev acc ++ ast_items nested (nonemptyb pend) sc) rest.
Proof.
  induction sc as [|x r IH]; intros Hg Hwf.
  - exists 3%nat. intros f Hf pend acc rest Hj Hro. pose proof (rest_ok_end nested rest Hro) as Hrest.
    destruct f as [|[|[|f]]]; try (exfalso; clear - Hf; lia).
    destruct (end_script_facts nested rest Hrest) as (Ec & Es & Esemi & _).
    cbn [render flat_map app]. destruct pend as [|c p].
    + cbn [app]. rewrite parse_script_eq, Hrest. cbn [nonemptyb]. unfold ast_items. cbn [items_with].
      rewrite app_nil_r. reflexivity.
    + rewrite parse_script_eq. rewrite not_end_script; [|exact Hj|].
      2:{ left. discriminate. }
      rewrite parse_command_eq'. rewrite (skip_junk_stop nested (c :: p) rest Hj Es).
      rewrite parse_words_eq, Ec. cbn [rev]. rewrite (after_cmd_end nested [] rest Hrest).
      rewrite parse_script_eq, Hrest. cbn [nonemptyb rev]. reflexivity.
  - inversion Hg as [|x' r' Gx Gr]; subst x' r'.
    destruct (wf_items_cons nested x r Hwf) as [Wx Wr].
    destruct (IH Gr Wr) as (f1 & H1).
    set (last := match r with [] => true | _ :: _ => false end) in Wx.
    destruct x as [pre ws post term|pre text term|pre term].
    + (* a command *)
      destruct (Gx nested last Wx) as (f2 & H2).
      exists (2 + f1 + f2)%nat. intros f Hf pend acc rest Hj Hro. pose proof (rest_ok_end nested rest Hro) as Hrest.
      destruct f as [|[|f]]; try (exfalso; clear - Hf; lia).
      assert (Hf1 : (f1 <= S f)%nat) by (clear - Hf; lia).
      assert (Hf2 : (f2 <= f)%nat) by (clear - Hf; lia).
      destruct (end_script_facts nested rest Hrest) as (Ec & Es & Esemi & Etop).
      cbn [wf_item] in Wx.
      apply andb_prop in Wx. destruct Wx as [Wx Hws].
      apply andb_prop in Wx. destruct Wx as [Wx Hterm].
      apply andb_prop in Wx. destruct Wx as [Hpre Hpost].
      assert (Hws' : exists w1 ws', ws = ([], w1) :: ws' /\ wf_word w1 = true
                /\ match w1 with
                   | CBare (SLit (c :: _) :: _) => negb (c =? c_hash)
                   | CExpand _ => false
                   | _ => true
                   end = true).
      { destruct ws as [|[g w1] ws']; [discriminate|].
        apply andb_prop in Hws. destruct Hws as [Hws Hr].
        apply andb_prop in Hws. destruct Hws as [Hws Hhash].
        apply andb_prop in Hws. destruct Hws as [Hg0 Wf1].
        apply str_eqb_eq in Hg0. subst g. exists w1, ws'. split; [reflexivity|].
        split; [exact Wf1|exact Hhash]. }
      destruct Hws' as (w1 & ws' & Ews & Wf1 & Hhash).
      set (tail := term ++ render r ++ rest).
      assert (Etxt : pend ++ render (ICmd pre ws post term :: r) ++ rest
                     = (pend ++ pre) ++ flat_map render_gw ws ++ post ++ tail).
      { unfold render, tail. cbn [flat_map render_item]. fold render_gw.
        rewrite <- !app_assoc. reflexivity. }
      rewrite Etxt.
      assert (Jp : junk (pend ++ pre)).
      { apply junk_app; [exact Hj|]. apply pre_junk. exact Hpre. }
      destruct (word_head w1 (flat_map render_gw ws' ++ post ++ tail) Wf1) as (h & y & E & Hh & Hash).
      assert (Ehd : flat_map render_gw ws ++ post ++ tail = h :: y).
      { rewrite Ews. cbn [flat_map]. unfold render_gw at 1. cbn [app]. rewrite <- app_assoc. exact E. }
      assert (Hnh : h <> c_hash).
      { intros Eh. destruct (Hash Eh) as (t' & l' & Ew). subst w1. discriminate Hhash. }
      assert (Htail : at_end_of_command nested tail = true
                      /\ str_eqb post [] && negb (star_tail tail) = cmd_bad nested post term
                      /\ exists pend2,
                           junk pend2 /\ nonemptyb pend2 = str_eqb term [c_nl]
                           /\ forall wsa, after_cmd wsa tail = POk wsa (pend2 ++ render r ++ rest)).
      { destruct (term_cases last term Hterm) as [Et|[Et|[El Et]]]; subst term.
        - split; [reflexivity|]. split; [reflexivity|].
          exists []. split; [constructor|]. split; [reflexivity|]. intros wsa. reflexivity.
        - split; [reflexivity|]. split.
          + unfold cmd_bad, tail. cbn [app star_tail]. change (is_whitespace c_nl) with true.
            change (str_eqb [c_nl] [c_semi]) with false. change (str_eqb [c_nl] []) with false.
            cbn [negb orb]. rewrite !andb_false_r. reflexivity.
          + exists [c_nl]. split; [apply junk_ws; [reflexivity|constructor]|].
            split; [reflexivity|]. intros wsa. reflexivity.
        - unfold last in El. destruct r as [|? ?]; [|discriminate El].
          unfold tail. cbn [render flat_map app]. split; [exact Ec|]. split.
          + unfold cmd_bad. destruct rest as [|c yy].
            * cbn in Hro. subst nested. cbn [star_tail negb]. rewrite !andb_false_r. reflexivity.
            * destruct Hro as [Hn Hc]. subst nested c. reflexivity.
          + exists []. split; [constructor|]. split; [reflexivity|].
            intros wsa. exact (after_cmd_end nested _ rest Hrest). }
      destruct Htail as (Tend & Tbad & pend2 & J2 & N2 & Ecmd).
      rewrite parse_script_eq. rewrite Ehd.
      rewrite not_end_script; [|exact Jp|].
      2:{ right. exact (whead_not_rb h Hh). }
      rewrite parse_command_eq'. rewrite (skip_junk_stop nested (pend ++ pre) (h :: y) Jp).
      2:{ split; [exact (proj2 (proj2 (whead_facts h nested y Hh)))|exact Hnh]. }
      rewrite <- Ehd. rewrite (H2 f Hf2 nested [] tail Tend).
      cbn [rev app]. rewrite Ecmd.
      rewrite (H1 (S f) Hf1 pend2 _ rest J2 Hro).
      cbn [rev]. rewrite <- app_assoc. cbn [app]. unfold ast_items. cbn [items_with ast_item item_pend].
      rewrite N2, Tbad. reflexivity.
    + (* a comment *)
      cbn [wf_item] in Wx.
      apply andb_prop in Wx. destruct Wx as [Wx Hterm].
      apply andb_prop in Wx. destruct Wx as [Hpre Htext].
      apply pre_junk in Hpre.
      destruct (str_eqb term [c_nl]) eqn:Et.
      * apply str_eqb_eq in Et. subst term.
        exists f1. intros f Hf pend acc rest Hj Hro. pose proof (rest_ok_end nested rest Hro) as Hrest.
        replace (pend ++ render (IComment pre text [c_nl] :: r) ++ rest)
          with ((pend ++ pre ++ c_hash :: text ++ [c_nl]) ++ render r ++ rest).
        2:{ unfold render. cbn [flat_map render_item]. rewrite <- !app_assoc. cbn [app]. rewrite <- ?app_assoc. reflexivity. }
        rewrite (H1 f Hf _ acc rest); [|repeat apply junk_app; try assumption|exact Hro].
        2:{ apply (junk_com text []); [exact Htext|constructor]. }
        unfold ast_items. cbn [items_with ast_item].
        replace (nonemptyb (pend ++ pre ++ c_hash :: text ++ [c_nl])) with true; [reflexivity|].
        destruct pend; [|reflexivity]. destruct pre; reflexivity.
      * cbn [orb] in Hterm. apply andb_prop in Hterm. destruct Hterm as [Hl Ht].
        apply andb_prop in Hl. destruct Hl as [Hl Hn]. apply str_eqb_eq in Ht. subst term.
        destruct nested; [discriminate Hn|].
        unfold last in Hl. destruct r as [|? ?]; [|discriminate Hl].
        exists 3%nat. intros f Hf pend acc rest Hj Hro. pose proof (rest_ok_end false rest Hro) as Hrest.
        destruct f as [|[|[|f]]]; try (exfalso; clear - Hf; lia).
        destruct (end_script_facts false rest Hrest) as (_ & _ & _ & Etop).
        assert (Er : rest = []) by exact (Etop eq_refl). clear Etop Hro Hrest. subst rest.
        replace (pend ++ render [IComment pre text []] ++ [])
          with ((pend ++ pre) ++ c_hash :: text).
        2:{ unfold render. cbn [flat_map render_item]. rewrite !app_nil_r. rewrite <- !app_assoc. cbn [app]. rewrite <- ?app_assoc. reflexivity. }
        assert (Jp : junk (pend ++ pre)) by (apply junk_app; assumption).
        rewrite parse_script_eq. rewrite not_end_script; [|exact Jp|right; discriminate].
        rewrite parse_command_eq'. rewrite (skip_junk_com_end false (pend ++ pre) text Jp Htext).
        rewrite parse_words_eq. cbn [at_end_of_command rev after_cmd].
        rewrite parse_script_eq. cbn [at_end_of_script rev]. reflexivity.
    + (* an empty command *)
      cbn [wf_item] in Wx.
      apply andb_prop in Wx. destruct Wx as [Hpre Hterm]. apply pre_junk in Hpre.
      destruct (str_eqb term [c_semi]) eqn:Et.
      * apply str_eqb_eq in Et. subst term.
        exists (3 + f1)%nat. intros f Hf pend acc rest Hj Hro. pose proof (rest_ok_end nested rest Hro) as Hrest.
        destruct f as [|[|[|f]]]; try (exfalso; clear - Hf; lia).
        assert (Hf1 : (f1 <= S (S f))%nat) by (clear - Hf; lia).
        replace (pend ++ render (IEmpty pre [c_semi] :: r) ++ rest)
          with ((pend ++ pre) ++ c_semi :: render r ++ rest).
        2:{ unfold render. cbn [flat_map render_item]. rewrite <- !app_assoc. cbn [app]. rewrite <- ?app_assoc. reflexivity. }
        assert (Jp : junk (pend ++ pre)) by (apply junk_app; assumption).
        rewrite parse_script_eq. rewrite not_end_script; [|exact Jp|right; discriminate].
        rewrite parse_command_eq'. rewrite (skip_junk_stop nested (pend ++ pre) _ Jp).
        2:{ split; [reflexivity|discriminate]. }
        rewrite parse_words_eq.
        replace (at_end_of_command nested (c_semi :: render r ++ rest)) with true by reflexivity.
        cbn [rev]. change (after_cmd [] (c_semi :: render r ++ rest)) with (@POk wordvec [] (render r ++ rest)).
        pose proof (H1 (S (S f)) Hf1 [] ([] :: acc) rest junk_nil Hro) as E1. cbn [app] in E1. cbv beta iota. refine (eq_trans E1 _).
        cbn [rev]. rewrite <- app_assoc. cbn [app]. unfold ast_items. cbn [items_with ast_item item_pend].
        change (str_eqb [c_semi] [c_semi]) with true. reflexivity.
      * cbn [orb] in Hterm. apply str_eqb_eq in Hterm. subst term.
        exists f1. intros f Hf pend acc rest Hj Hro. pose proof (rest_ok_end nested rest Hro) as Hrest.
        replace (pend ++ render (IEmpty pre [c_nl] :: r) ++ rest)
          with ((pend ++ pre ++ [c_nl]) ++ render r ++ rest).
        2:{ unfold render. cbn [flat_map render_item]. rewrite <- !app_assoc. cbn [app]. rewrite <- ?app_assoc. reflexivity. }
        rewrite (H1 f Hf _ acc rest); [|repeat apply junk_app; try assumption|exact Hro].
        2:{ apply junk_ws; [reflexivity|constructor]. }
        unfold ast_items. cbn [items_with ast_item]. rewrite Et.
        replace (nonemptyb (pend ++ pre ++ [c_nl])) with true; [reflexivity|].
        destruct pend; [|reflexivity]. destruct pre; reflexivity.
Qed.

(* ---------- induction over the tree ---------- *)
Section TreeInd.
Variable Ps : seg -> Prop.
Variable Pw : wordc -> Prop.
Variable Pi : item -> Prop.
Hypothesis HLit : forall x, Ps (SLit x).
Hypothesis HEsc : forall k a, Ps (SEsc k a).
Hypothesis HVar : forall n, Ps (SVar n).
Hypothesis HBVar : forall n, Ps (SBVar n).
Hypothesis HArr : forall n idx, Forall Ps idx -> Ps (SArr n idx).
Hypothesis HCmd : forall sc, Forall Pi sc -> Ps (SCmd sc).
Hypothesis HBrace : forall b, Pw (CBrace b).
Hypothesis HQuote : forall l, Forall Ps l -> Pw (CQuote l).
Hypothesis HBare : forall l, Forall Ps l -> Pw (CBare l).
Hypothesis HExpand : forall w, Pw w -> Pw (CExpand w).
Hypothesis HICmd : forall pre ws post term, Forall (fun gw => Pw (snd gw)) ws -> Pi (ICmd pre ws post term).
Hypothesis HComment : forall pre text term, Pi (IComment pre text term).
Hypothesis HEmpty : forall pre term, Pi (IEmpty pre term).

Fixpoint seg_ind3 (s : seg) {struct s} : Ps s :=
  match s with
  | SLit x => HLit x
  | SEsc k a => HEsc k a
  | SVar n => HVar n
  | SBVar n => HBVar n
  | SArr n idx =>
      HArr n idx ((fix go (l : list seg) : Forall Ps l :=
                     match l with
                     | [] => Forall_nil Ps
                     | x :: r => Forall_cons x (seg_ind3 x) (go r)
                     end) idx)
  | SCmd sc =>
      HCmd sc ((fix go (l : list item) : Forall Pi l :=
                  match l with
                  | [] => Forall_nil Pi
                  | x :: r => Forall_cons x (item_ind3 x) (go r)
                  end) sc)
  end
with word_ind3 (w : wordc) {struct w} : Pw w :=
  match w with
  | CBrace b => HBrace b
  | CQuote l =>
      HQuote l ((fix go (l : list seg) : Forall Ps l :=
                   match l with
                   | [] => Forall_nil Ps
                   | x :: r => Forall_cons x (seg_ind3 x) (go r)
                   end) l)
  | CBare l =>
      HBare l ((fix go (l : list seg) : Forall Ps l :=
                  match l with
                  | [] => Forall_nil Ps
                  | x :: r => Forall_cons x (seg_ind3 x) (go r)
                  end) l)
  | CExpand w' => HExpand w' (word_ind3 w')
  end
with item_ind3 (i : item) {struct i} : Pi i :=
  match i with
  | ICmd pre ws post term =>
      HICmd pre ws post term
        ((fix go (l : list (str * wordc)) : Forall (fun gw => Pw (snd gw)) l :=
            match l with
            | [] => Forall_nil _
            | gw :: r =>
                Forall_cons gw (match gw return Pw (snd gw) with (g, w) => word_ind3 w end) (go r)
            end) ws)
  | IComment pre text term => HComment pre text term
  | IEmpty pre term => HEmpty pre term
  end.
End TreeInd.

Definition seg_ok (s : seg) : Prop := forall lo, wf_seg lo s = true -> seg_good s.
Definition word_ok (w : wordc) : Prop := wf_word w = true -> word_good w /\ inner_good w.

Lemma segs_good lo l : Forall seg_ok l -> forallb (wf_seg lo) l = true -> Forall seg_good l.
Proof.
  induction 1 as [|s l Hs Hl IH]; intros Hw; [constructor|].
  cbn [forallb] in Hw. apply andb_prop in Hw. destruct Hw as [Ws Wl].
  constructor; [exact (Hs lo Ws)|exact (IH Wl)].
Qed.

Lemma wf_seg_cmd lo sc : wf_seg lo (SCmd sc) = wf_items true sc.
Proof.
  cbn [wf_seg]. induction sc as [|x r IH]; [reflexivity|].
  cbn [wf_items]. destruct r as [|y r']; [reflexivity|]. rewrite <- IH. reflexivity.
Qed.

Lemma trivial_inner w : match w with CQuote _ => False | CBare _ => False | _ => True end ->
  inner_good w.
Proof.
  intros H. exists O. intros f _ bt rest _. destruct w; try exact I; contradiction.
Qed.

Lemma tree_ok : (forall s, seg_ok s) /\ (forall w, word_ok w) /\ (forall i, item_ok i).
Proof.
  assert (HLit : forall x, seg_ok (SLit x)) by (intros x lo _; exact I).
  assert (HEsc : forall k a, seg_ok (SEsc k a)) by (intros k a lo _; exact I).
  assert (HVar : forall n, seg_ok (SVar n)).
  { intros n lo Hw. exact (var_good n lo Hw). }
  assert (HBVar : forall n, seg_ok (SBVar n)).
  { intros n lo Hw. exact (bvar_good n lo Hw). }
  assert (HArr : forall n idx, Forall seg_ok idx -> seg_ok (SArr n idx)).
  { intros n idx Hidx lo Hw. apply (arr_good n idx lo Hw).
    cbn [wf_seg] in Hw. apply andb_prop in Hw. destruct Hw as [Hw _].
    apply andb_prop in Hw. destruct Hw as [_ Hi].
    exact (segs_good index_lit_char idx Hidx Hi). }
  assert (HCmd : forall sc, Forall item_ok sc -> seg_ok (SCmd sc)).
  { intros sc Hsc lo Hw. rewrite wf_seg_cmd in Hw.
    destruct (script_items true sc Hsc Hw) as (f0 & H0).
    exists (S f0). intros f Hf rest. destruct f as [|f]; [lia|].
    rewrite parse_brackets_eq.
    pose proof (H0 f ltac:(lia) [] [] (c_rbracket :: rest) junk_nil (conj eq_refl eq_refl)) as E.
    cbn [app rev nonemptyb] in E. rewrite E.
    change (c_rbracket =? c_rbracket) with true. reflexivity. }
  assert (HBrace : forall b, word_ok (CBrace b)).
  { intros b Hw. split; [exact (brace_word b Hw)|apply trivial_inner; exact I]. }
  assert (HQuote : forall l, Forall seg_ok l -> word_ok (CQuote l)).
  { intros l Hl Hw. assert (Hi : inner_good (CQuote l)).
    { apply quote_inner; [|exact Hw]. cbn [wf_word] in Hw. apply andb_prop in Hw.
      exact (segs_good quote_lit_char l Hl (proj1 Hw)). }
    split; [exact (quote_word l Hi)|exact Hi]. }
  assert (HBare : forall l, Forall seg_ok l -> word_ok (CBare l)).
  { intros l Hl Hw. assert (Hi : inner_good (CBare l)).
    { apply bare_inner; [|exact Hw]. cbn [wf_word] in Hw. apply andb_prop in Hw.
      destruct Hw as [Hw _]. apply andb_prop in Hw.
      exact (segs_good bare_lit_char l Hl (proj2 Hw)). }
    split; [exact (bare_word l Hw Hi)|exact Hi]. }
  assert (HExpand : forall w, word_ok w -> word_ok (CExpand w)).
  { intros w Hw' Hw.
    assert (Ww : wf_word w = true) by (cbn [wf_word] in Hw; destruct w; try exact Hw; discriminate Hw).
    destruct (Hw' Ww) as [_ Hi].
    split; [exact (expand_word w Hw Hi)|apply trivial_inner; exact I]. }
  assert (HICmd : forall pre ws post term, Forall (fun gw => word_ok (snd gw)) ws ->
                  item_ok (ICmd pre ws post term)).
  { intros pre ws post term Hws nested last Hw.
    apply (cmd_words pre ws post term nested last); [|exact Hw].
    cbn [wf_item] in Hw. apply andb_prop in Hw. destruct Hw as [_ Hw].
    destruct ws as [|[g w1] r]; [constructor|].
    apply andb_prop in Hw. destruct Hw as [Hw Hr].
    apply andb_prop in Hw. destruct Hw as [Hw _].
    apply andb_prop in Hw. destruct Hw as [_ W1].
    inversion Hws as [|x r' G1 Gr]; subst x r'. cbn [snd] in G1.
    constructor; [exact (proj1 (G1 W1))|].
    clear - Gr Hr. induction Gr as [|[g w] r Gw Gr IH]; [constructor|].
    cbn [forallb] in Hr. apply andb_prop in Hr.
    destruct Hr as [Hw Hr]. apply andb_prop in Hw.
    constructor; [exact (proj1 (Gw (proj2 Hw)))|exact (IH Hr)]. }
  assert (HComment : forall pre text term, item_ok (IComment pre text term))
    by (intros pre text term nested last _; exact I).
  assert (HEmpty : forall pre term, item_ok (IEmpty pre term))
    by (intros pre term nested last _; exact I).
  split; [|split].
  - exact (seg_ind3 seg_ok word_ok item_ok HLit HEsc HVar HBVar HArr HCmd HBrace HQuote HBare
             HExpand HICmd HComment HEmpty).
  - exact (word_ind3 seg_ok word_ok item_ok HLit HEsc HVar HBVar HArr HCmd HBrace HQuote HBare
             HExpand HICmd HComment HEmpty).
  - exact (item_ind3 seg_ok word_ok item_ok HLit HEsc HVar HBVar HArr HCmd HBrace HQuote HBare
             HExpand HICmd HComment HEmpty).
Qed.

(* ---------- G2: what the reader makes of every well-formed tree ---------- *)
Theorem parse_render_model_main : forall sc, wf sc = true ->
  parse isa (render sc) = POk (ast_of_model sc) [].
Proof.
  intros sc Hw.
  destruct (script_items false sc) as (f0 & H0).
  { apply Forall_forall. intros i _. exact (proj2 (proj2 tree_ok) i). }
  { exact Hw. }
  unfold parse. set (F := parse_fuel (render sc)).
  pose proof (H0 (f0 + F)%nat ltac:(lia) [] [] [] junk_nil eq_refl) as E.
  cbn [app rev nonemptyb] in E. rewrite app_nil_r in E.
  rewrite parse_script_mono in E; [exact E|].
  apply parse_script_total. unfold F, parse_fuel. lia.
Qed.

End Main.

(* ====================================================================== *)
(* G2, main statements                                                     *)
(* ====================================================================== *)

(* What the reader makes of ANY well-formed tree: [ast_of_model], which is [ast_of] except that
   a command ending in the word {*} immediately followed by ";" or by the closing "]" of a command
   substitution gets the expansion of an empty word instead of the word "*". *)
Theorem parse_render_model : forall isa sc, name_ok isa -> wf sc = true ->
  parse isa (render sc) = POk (ast_of_model sc) [].
Proof. intros isa sc Hisa. exact (parse_render_model_main isa Hisa sc). Qed.

(* where no such command occurs the two translations coincide *)
Lemma words_ast_plain (aw aw0 : wordc -> word) bad : forall ws,
  star_word (last_word ws) && bad = false ->
  Forall (fun gw => aw (snd gw) = aw0 (snd gw)) ws ->
  words_ast aw bad ws = map (fun gw => match gw with (_, w) => aw0 w end) ws.
Proof.
  induction ws as [|[g w] r IH]; intros Hb Hf; [reflexivity|].
  inversion Hf as [|x r' Hw Hr]; subst x r'. cbn [snd] in Hw.
  cbn [words_ast map]. destruct r as [|[g2 w2] r'].
  - cbn [last_word lastw] in Hb. rewrite Hb, Hw. reflexivity.
  - rewrite Hw. f_equal. apply IH; [exact Hb|exact Hr].
Qed.

Lemma ast_agree :
  (forall s, sok_seg s = true -> forall t, tok_seg t s = tok_seg0 t s)
  /\ (forall w, sok_word w = true -> ast_word w = ast_word0 w)
  /\ (forall i, forall nested, sok_item nested i = true -> ast_item nested i = ast_item0 i).
Proof.
  set (Ps := fun s => sok_seg s = true -> forall t, tok_seg t s = tok_seg0 t s).
  set (Pw := fun w => sok_word w = true -> ast_word w = ast_word0 w).
  set (Pi := fun i => forall nested, sok_item nested i = true -> ast_item nested i = ast_item0 i).
  assert (Hfold : forall l, Forall Ps l -> forallb sok_seg l = true ->
                  forall t, fold_left tok_seg l t = fold_left tok_seg0 l t).
  { induction 1 as [|x l Hx Hl IH]; intros Hk t; [reflexivity|].
    cbn [forallb] in Hk. apply andb_prop in Hk. destruct Hk as [Kx Kl].
    cbn [fold_left]. rewrite (Hx Kx). apply IH. exact Kl. }
  assert (Hitems : forall sc, Forall Pi sc -> forallb (sok_item true) sc = true ->
                   forall p, items_with (ast_item true) sc p = items_with ast_item0 sc p).
  { induction 1 as [|x l Hx Hl IH]; intros Hk p; [reflexivity|].
    cbn [forallb] in Hk. apply andb_prop in Hk. destruct Hk as [Kx Kl].
    cbn [items_with]. rewrite (Hx true Kx). destruct (ast_item0 x); rewrite IH by exact Kl; reflexivity. }
  assert (A : (forall s, Ps s) /\ (forall w, Pw w) /\ (forall i, Pi i)).
  { split; [|split].
    - apply (seg_ind3 Ps Pw Pi); unfold Ps, Pw, Pi; try (intros; reflexivity).
      + intros n idx Hidx Hk t. cbn [sok_seg] in Hk. cbn [tok_seg tok_seg0].
        rewrite (Hfold idx Hidx Hk). reflexivity.
      + intros sc Hsc Hk t. cbn [sok_seg] in Hk. cbn [tok_seg tok_seg0].
        rewrite (Hitems sc Hsc Hk). reflexivity.
      + intros l Hl Hk. cbn [sok_word] in Hk. cbn [ast_word ast_word0]. rewrite (Hfold l Hl Hk). reflexivity.
      + intros l Hl Hk. cbn [sok_word] in Hk. cbn [ast_word ast_word0]. rewrite (Hfold l Hl Hk). reflexivity.
      + intros w Hw Hk. cbn [sok_word] in Hk. cbn [ast_word ast_word0]. rewrite (Hw Hk). reflexivity.
      + intros pre ws post term Hws nested Hk. cbn [sok_item] in Hk. apply andb_prop in Hk.
        destruct Hk as [Kw Kb]. cbn [ast_item ast_item0]. f_equal.
        apply words_ast_plain; [destruct (_ && _); [discriminate Kb|reflexivity]|].
        clear Kb. induction Hws as [|[g w] r Hw Hr IH]; [constructor|].
        cbn [forallb] in Kw. apply andb_prop in Kw. destruct Kw as [K1 Kr].
        constructor; [exact (Hw K1)|exact (IH Kr)].
    - apply (word_ind3 Ps Pw Pi); unfold Ps, Pw, Pi; try (intros; reflexivity).
      + intros n idx Hidx Hk t. cbn [sok_seg] in Hk. cbn [tok_seg tok_seg0].
        rewrite (Hfold idx Hidx Hk). reflexivity.
      + intros sc Hsc Hk t. cbn [sok_seg] in Hk. cbn [tok_seg tok_seg0].
        rewrite (Hitems sc Hsc Hk). reflexivity.
      + intros l Hl Hk. cbn [sok_word] in Hk. cbn [ast_word ast_word0]. rewrite (Hfold l Hl Hk). reflexivity.
      + intros l Hl Hk. cbn [sok_word] in Hk. cbn [ast_word ast_word0]. rewrite (Hfold l Hl Hk). reflexivity.
      + intros w Hw Hk. cbn [sok_word] in Hk. cbn [ast_word ast_word0]. rewrite (Hw Hk). reflexivity.
      + intros pre ws post term Hws nested Hk. cbn [sok_item] in Hk. apply andb_prop in Hk.
        destruct Hk as [Kw Kb]. cbn [ast_item ast_item0]. f_equal.
        apply words_ast_plain; [destruct (_ && _); [discriminate Kb|reflexivity]|].
        clear Kb. induction Hws as [|[g w] r Hw Hr IH]; [constructor|].
        cbn [forallb] in Kw. apply andb_prop in Kw. destruct Kw as [K1 Kr].
        constructor; [exact (Hw K1)|exact (IH Kr)].
    - apply (item_ind3 Ps Pw Pi); unfold Ps, Pw, Pi; try (intros; reflexivity).
      + intros n idx Hidx Hk t. cbn [sok_seg] in Hk. cbn [tok_seg tok_seg0].
        rewrite (Hfold idx Hidx Hk). reflexivity.
      + intros sc Hsc Hk t. cbn [sok_seg] in Hk. cbn [tok_seg tok_seg0].
        rewrite (Hitems sc Hsc Hk). reflexivity.
      + intros l Hl Hk. cbn [sok_word] in Hk. cbn [ast_word ast_word0]. rewrite (Hfold l Hl Hk). reflexivity.
      + intros l Hl Hk. cbn [sok_word] in Hk. cbn [ast_word ast_word0]. rewrite (Hfold l Hl Hk). reflexivity.
      + intros w Hw Hk. cbn [sok_word] in Hk. cbn [ast_word ast_word0]. rewrite (Hw Hk). reflexivity.
      + intros pre ws post term Hws nested Hk. cbn [sok_item] in Hk. apply andb_prop in Hk.
        destruct Hk as [Kw Kb]. cbn [ast_item ast_item0]. f_equal.
        apply words_ast_plain; [destruct (_ && _); [discriminate Kb|reflexivity]|].
        clear Kb. induction Hws as [|[g w] r Hw Hr IH]; [constructor|].
        cbn [forallb] in Kw. apply andb_prop in Kw. destruct Kw as [K1 Kr].
        constructor; [exact (Hw K1)|exact (IH Kr)]. }
  exact A.
Qed.

Lemma ast_of_model_safe sc : star_safe sc = true -> ast_of_model sc = ast_of sc.
Proof.
  intros Hs. unfold ast_of_model, ast_of, ast_items, ast_items0, star_safe in *.
  generalize false at 2 3. induction sc as [|x r IH]; intros p; [reflexivity|].
  cbn [forallb] in Hs. apply andb_prop in Hs. destruct Hs as [Kx Kr].
  cbn [items_with]. rewrite (proj2 (proj2 ast_agree) x false Kx).
  destruct (ast_item0 x); rewrite IH by exact Kr; reflexivity.
Qed.

(* The reader inverts [render] on every well-formed tree in which no command ends in the word
   {*} immediately followed by ";" or by the "]" of a command substitution ([star_safe]).
   Without [star_safe] the statement is false: see [parse_render_star_counterexample]. *)
Theorem parse_render : forall isa sc, name_ok isa -> wf sc = true -> star_safe sc = true ->
  parse isa (render sc) = POk (ast_of sc) [].
Proof.
  intros isa sc Hisa Hw Hs. rewrite <- (ast_of_model_safe sc Hs).
  apply parse_render_model; assumption.
Qed.

Corollary parse_render_std : forall sc, wf sc = true -> star_safe sc = true ->
  parse (u_alnum std_uni) (render sc) = POk (ast_of sc) [].
Proof. intros sc. apply parse_render. exact name_ok_std. Qed.

Print Assumptions parse_render_model.
Print Assumptions parse_render.
Print Assumptions parse_render_std.
Print Assumptions name_ok_std.

(* the disagreement between the model and the specification: "rec {*};" *)
Definition star_tree : list item :=
  [ICmd [] [([], CBare [SLit (lit "rec")]); ([c_space], CBrace [BText [c_star]])] [] [c_semi]].
Definition star_tree_nested : list item :=
  [ICmd [] [([], CBare [SLit (lit "rec")]);
            ([c_space], CBare [SCmd [ICmd [] [([], CBare [SLit (lit "rec")]);
                                              ([c_space], CBrace [BText [c_star]])] [] []]])] [] []].

Theorem parse_render_star_counterexample :
  wf star_tree = true
  /\ render star_tree = lit "rec {*};"
  /\ parse (u_alnum std_uni) (render star_tree)
     = POk [[WValue (lit "rec"); WExpand (WValue [])]] []
  /\ ast_of star_tree = [[WValue (lit "rec"); WValue (lit "*")]]
  /\ ast_of_model star_tree = [[WValue (lit "rec"); WExpand (WValue [])]]
  /\ star_safe star_tree = false
  /\ expected [] star_tree = Some ([[lit "rec"; lit "*"]], [], lit "*")
  /\ wf star_tree_nested = true
  /\ render star_tree_nested = lit "rec [rec {*}]"
  /\ parse (u_alnum std_uni) (render star_tree_nested)
     = POk [[WValue (lit "rec"); WScript [[WValue (lit "rec"); WExpand (WValue [])]]]] [].
Proof. vm_compute. repeat split. Qed.
Print Assumptions parse_render_star_counterexample.

Example star_tree_model :
  parse (u_alnum std_uni) (render star_tree) = POk (ast_of_model star_tree) [].
Proof. apply parse_render_model; [exact name_ok_std|reflexivity]. Qed.

(* non-vacuity: a tree using every construct *)
Definition bw (s : string) : wordc := CBare [SLit (lit s)].
Definition example_tree : list item :=
  [ IComment [c_nl; c_space] (lit " a comment ] [ {") [c_nl];
    IEmpty [c_space] [c_nl];
    IEmpty [] [c_semi];
    ICmd [c_tab] [([], bw "set"); ([c_space], bw "x");
                  ([c_space; c_tab], CBrace [BText (lit "a b"); BNest [BText (lit "q"); BEsc c_rbrace];
                                             BLine; BEsc 120])] [c_space] [c_nl];
    ICmd [] [([], bw "rec");
             ([c_space], CQuote [SLit (lit "p ]; q"); SVar (lit "x"); SEsc 1 c_dollar; SEsc 2 171;
                                 SEsc 3 8364; SEsc 4 10; SEsc 0 110;
                                 SCmd [IComment [] (lit "c") [c_nl];
                                       ICmd [c_space] [([], bw "rec");
                                                       ([c_space], CExpand (CBrace [BText (lit "1 2")]));
                                                       ([c_space], CBrace [BText [c_star]])] [c_space] [c_nl];
                                       IEmpty [] [c_semi]];
                                 SBVar (lit "x y");
                                 SArr (lit "ar") [SLit (lit "i"); SVar (lit "x"); SEsc 1 32; SArr (lit "b") []]]);
             ([c_space], CBare [SVar (lit "x"); SLit (lit "-"); SCmd []; SBVar []]);
             ([c_space], CExpand (CQuote [SLit (lit "u v")]));
             ([c_space], CExpand (CBare [SVar (lit "x")]))] [] [c_semi];
    ICmd [] [([], CBrace [BText [c_star]]); ([c_space], CBrace [BText [c_star]])] [] [c_nl];
    IComment [] (lit "last") [] ].

Example example_tree_wf : wf example_tree = true /\ star_safe example_tree = true.
Proof. vm_compute. split; reflexivity. Qed.

Example example_tree_parse :
  parse (u_alnum std_uni) (render example_tree) = POk (ast_of example_tree) [].
Proof. apply parse_render_std; [exact (proj1 example_tree_wf)|exact (proj2 example_tree_wf)]. Qed.

(* the same by computation, and what the two sides are *)
Example example_tree_compute :
  parse (u_alnum std_uni) (render example_tree) = POk (ast_of example_tree) []
  /\ length (ast_of example_tree) = 5%nat.
Proof. vm_compute. split; reflexivity. Qed.

(* ====================================================================== *)
(* G1. a script the grammar rejects yields an error and nothing else       *)
(* ====================================================================== *)

(* below the nesting limit: exactly the reader's message as a plain error, and the interpreter is
   EXACTLY the one before the call, at top level and nested alike: nothing is recorded in
   errorInfo / errorCode (the reader's error carries no error data), whatever the fuel *)
Theorem reject_exact : forall U exec st s m,
  parse (u_alnum U) s = PErr m -> i_levels st < i_limit st ->
  eval_value_with U exec st (VStr s) = (st, Err (molt_err m)).
Proof. intros U exec st s m P L. apply eval_syntax_error; assumption. Qed.

Theorem reject_top : forall U fuel st s m,
  parse (u_alnum U) s = PErr m -> i_levels st < i_limit st ->
  eval U fuel st s = (st, Err (molt_err m))
  /\ x_code (molt_err m) = CError /\ x_value (molt_err m) = VStr m.
Proof.
  intros U fuel st s m P L. split; [|split; reflexivity].
  unfold eval, eval_value. apply reject_exact; assumption.
Qed.

(* with no assumption on the nesting level: the state is unchanged and the outcome is a plain
   error, either the reader's message or the nesting-limit message *)
Theorem reject_state_unchanged : forall U exec st s m,
  parse (u_alnum U) s = PErr m ->
  exists msg, eval_value_with U exec st (VStr s) = (st, Err (molt_err msg))
    /\ (msg = m \/ msg = too_many_nested).
Proof.
  intros U exec st s m P.
  destruct (N.ltb_spec (i_levels st) (i_limit st)) as [L|L].
  - exists m. split; [apply eval_syntax_error; assumption|left; reflexivity].
  - exists too_many_nested. split; [apply eval_at_limit; exact L|right; reflexivity].
Qed.

Corollary reject_top_observables : forall U fuel st s m st' r,
  parse (u_alnum U) s = PErr m -> eval U fuel st s = (st', r) ->
  st' = st
  /\ i_trace st' = i_trace st /\ i_cmds st' = i_cmds st /\ i_levels st' = i_levels st
  /\ (forall name, sc_lookup (i_scopes st') name = sc_lookup (i_scopes st) name)
  /\ exists msg, r = Err (molt_err msg).
Proof.
  intros U fuel st s m st' r P E.
  destruct (reject_state_unchanged U (run_exec U fuel) st s m P) as (msg & E' & _).
  unfold eval, eval_value in E. rewrite E' in E. inversion E. subst st' r.
  repeat split. exists msg. reflexivity.
Qed.

(* no command runs: the outcome does not depend on the executor *)
Theorem reject_runs_nothing : forall U exec1 exec2 st s m,
  parse (u_alnum U) s = PErr m ->
  eval_value_with U exec1 st (VStr s) = eval_value_with U exec2 st (VStr s).
Proof. intros. eapply eval_syntax_error_runs_nothing. eassumption. Qed.

Print Assumptions reject_exact.
Print Assumptions reject_top.
Print Assumptions reject_state_unchanged.
Print Assumptions reject_top_observables.
Print Assumptions reject_runs_nothing.

(* ====================================================================== *)
(* G3. one pass: substitution results are inserted verbatim                *)
(* ====================================================================== *)
Section OnePass.
Variable exec : executor.

(* $name: exactly the stored value, whatever characters it contains; the state is untouched *)
Theorem subst_var_verbatim : forall st n,
  Eval.eval_word exec st (WVarRef n) = (st, sc_get (i_scopes st) n).
Proof. reflexivity. Qed.

Corollary subst_var_verbatim_scalar : forall st n v,
  sc_lookup (i_scopes st) n = Some (VarScalar v) ->
  Eval.eval_word exec st (WVarRef n) = (st, Ok v).
Proof. intros st n v H. rewrite subst_var_verbatim. unfold sc_get. rewrite H. reflexivity. Qed.

(* $name(index): the index is computed first, then exactly the stored element *)
Theorem subst_elem_verbatim : forall st n idx st1 i,
  Eval.eval_word exec st idx = (st1, Ok i) ->
  Eval.eval_word exec st (WArrayRef n idx) = (st1, sc_get_elem (i_scopes st1) n (as_str i)).
Proof. intros st n idx st1 i H. cbn [Eval.eval_word]. rewrite H. reflexivity. Qed.

(* [script]: exactly the result of the script *)
Theorem subst_cmd_verbatim : forall st cmds,
  Eval.eval_word exec st (WScript cmds) = eval_script exec st cmds.
Proof. reflexivity. Qed.

(* {braces} (and every complete literal word): the text, no substitution, no effect *)
Theorem braces_no_subst : forall st s, Eval.eval_word exec st (WValue s) = (st, Ok (VStr s)).
Proof. reflexivity. Qed.
Theorem literal_piece : forall st s, Eval.eval_word exec st (WString s) = (st, Ok (VStr s)).
Proof. reflexivity. Qed.

(* from the text: whatever a well-formed brace body contains ($, [, quotes, escaped braces), the
   word read from it is its raw text, and evaluating it touches nothing *)
Corollary braced_text_no_subst : forall bt b rest st,
  forallb wf_bseg b = true -> at_end_of_command bt rest || next_is_line_white rest = true ->
  exists w, parse_braced_word bt (render_word (CBrace b) ++ rest) = POk w rest
    /\ Eval.eval_word exec st w = (st, Ok (VStr (flat_map bseg_value b))).
Proof.
  intros bt b rest st Hw He. exists (WValue (flat_map bseg_value b)).
  split; [apply braced_word_render; assumption|reflexivity].
Qed.

(* the pieces of a word, left to right, threading the state *)
Fixpoint eval_seq (st : interp) (ws : list word) : interp * res (list value) :=
  match ws with
  | [] => (st, Ok [])
  | w :: r =>
      match Eval.eval_word exec st w with
      | (st1, Ok v) =>
          match eval_seq st1 r with
          | (st2, Ok l) => (st2, Ok (v :: l))
          | (st2, Err e) => (st2, Err e)
          | (st2, Panic p) => (st2, Panic p)
          | (st2, Fuel) => (st2, Fuel)
          end
      | (st1, Err e) => (st1, Err e)
      | (st1, Panic p) => (st1, Panic p)
      | (st1, Fuel) => (st1, Fuel)
      end
  end.

Definition not_expand (w : word) : bool := match w with WExpand _ => false | _ => true end.

Lemma eval_words_seq : forall ws st acc, forallb not_expand ws = true ->
  eval_words_with (Eval.eval_word exec) st ws acc =
  match eval_seq st ws with
  | (st', Ok l) => (st', Ok (rev acc ++ l))
  | (st', Err e) => (st', Err e)
  | (st', Panic p) => (st', Panic p)
  | (st', Fuel) => (st', Fuel)
  end.
Proof.
  induction ws as [|w r IH]; intros st acc H.
  - cbn [eval_words_with eval_seq]. rewrite app_nil_r. reflexivity.
  - cbn [forallb] in H. apply andb_prop in H. destruct H as [Hw Hr].
    cbn [eval_seq].
    assert (E : eval_words_with (Eval.eval_word exec) st (w :: r) acc =
                match Eval.eval_word exec st w with
                | (st1, Ok v) => eval_words_with (Eval.eval_word exec) st1 r (v :: acc)
                | (st1, Err e) => (st1, Err e)
                | (st1, Panic p) => (st1, Panic p)
                | (st1, Fuel) => (st1, Fuel)
                end).
    { destruct w; try reflexivity. discriminate Hw. }
    rewrite E. destruct (Eval.eval_word exec st w) as [st1 [v|e|p|]]; try reflexivity.
    rewrite (IH st1 (v :: acc) Hr).
    destruct (eval_seq st1 r) as [st2 [l|e|p|]]; try reflexivity.
    cbn [rev]. rewrite <- app_assoc. reflexivity.
Qed.

Theorem tokens_concat_in_order : forall st ws, forallb not_expand ws = true ->
  Eval.eval_word exec st (WTokens ws) =
  match eval_seq st ws with
  | (st', Ok l) => (st', Ok (VStr (concat_str (map as_str l))))
  | (st', Err e) => (st', Err e)
  | (st', Panic p) => (st', Panic p)
  | (st', Fuel) => (st', Fuel)
  end.
Proof.
  intros st ws H. cbn [Eval.eval_word]. rewrite (eval_words_seq ws st [] H).
  destruct (eval_seq st ws) as [st' [l|e|p|]]; reflexivity.
Qed.

(* two pieces: the second is evaluated in the state the first left, the strings are glued, and
   nothing of the result is looked at again *)
Corollary tokens_two : forall st a b st1 va st2 vb,
  not_expand a = true -> not_expand b = true ->
  Eval.eval_word exec st a = (st1, Ok va) -> Eval.eval_word exec st1 b = (st2, Ok vb) ->
  Eval.eval_word exec st (WTokens [a; b]) = (st2, Ok (VStr (as_str va ++ as_str vb))).
Proof.
  intros st a b st1 va st2 vb Ha Hb Ea Eb. rewrite tokens_concat_in_order.
  - cbn [eval_seq]. rewrite Ea, Eb. cbn [map concat_str]. rewrite app_nil_r. reflexivity.
  - cbn [forallb]. rewrite Ha, Hb. reflexivity.
Qed.

End OnePass.

Print Assumptions subst_var_verbatim.
Print Assumptions subst_var_verbatim_scalar.
Print Assumptions subst_elem_verbatim.
Print Assumptions subst_cmd_verbatim.
Print Assumptions braces_no_subst.
Print Assumptions braced_text_no_subst.
Print Assumptions tokens_concat_in_order.
Print Assumptions tokens_two.

(* ====================================================================== *)
(* G4. evaluating the translated tree agrees with [expected]               *)
(* ====================================================================== *)

(* sub-language: no {*} (the specification splits expanded values with its own function) *)
Fixpoint nx_seg (s : seg) {struct s} : bool :=
  match s with
  | SArr _ idx => forallb nx_seg idx
  | SCmd sc => forallb nx_item sc
  | _ => true
  end
with nx_word (w : wordc) {struct w} : bool :=
  match w with
  | CBrace _ => true
  | CQuote l => forallb nx_seg l
  | CBare l => forallb nx_seg l
  | CExpand _ => false
  end
with nx_item (i : item) {struct i} : bool :=
  match i with
  | ICmd _ ws _ _ => forallb (fun gw => match gw with (_, w) => nx_word w end) ws
  | _ => true
  end.
Definition no_expand (sc : list item) : bool := forallb nx_item sc.

(* the specification's inner loops, named *)
Definition spec_segs : gst -> list seg -> option (gst * str) :=
  fix go (st : gst) (l : list seg) : option (gst * str) :=
    match l with
    | [] => Some (st, [])
    | x :: r => match eval_seg st x with
                | Some (st1, v) => match go st1 r with
                                   | Some (st2, v2) => Some (st2, v ++ v2)
                                   | None => None
                                   end
                | None => None
                end
    end.

Definition spec_words : gst -> list (str * wordc) -> option (gst * list str) :=
  fix go (st : gst) (l : list (str * wordc)) : option (gst * list str) :=
    match l with
    | [] => Some (st, [])
    | (_, w) :: r =>
        match SpecGrammar.eval_word st w with
        | Some (st1, v) =>
            match (match w with
                   | CExpand _ => split_simple v [] []
                   | _ => Some [v]
                   end) with
            | Some vs => match go st1 r with
                         | Some (st2, vs2) => Some (st2, vs ++ vs2)
                         | None => None
                         end
            | None => None
            end
        | None => None
        end
    end.

Lemma spec_arr g n idx : eval_seg g (SArr n idx) =
  match spec_segs g idx with
  | Some (st1, i) =>
      match env_get (n ++ [c_lparen] ++ i ++ [c_rparen]) (g_env st1) with
      | Some v => Some (st1, v)
      | None => None
      end
  | None => None
  end.
Proof. reflexivity. Qed.

Lemma spec_quote g l : SpecGrammar.eval_word g (CQuote l) = spec_segs g l.
Proof. reflexivity. Qed.
Lemma spec_bare g l : SpecGrammar.eval_word g (CBare l) = spec_segs g l.
Proof. reflexivity. Qed.

Lemma spec_cmd : forall sc g res,
  (fix go (st : gst) (l : list item) (res : str) : option (gst * str) :=
     match l with
     | [] => Some (st, res)
     | x :: r => match eval_item st x with
                 | Some (st1, Some v) => go st1 r v
                 | Some (st1, None) => go st1 r res
                 | None => None
                 end
     end) g sc res = eval_items g sc res.
Proof.
  induction sc as [|x r IH]; intros g res; [reflexivity|].
  cbn [eval_items]. destruct (eval_item g x) as [[g1 [v|]]|]; [apply IH|apply IH|reflexivity].
Qed.

Lemma spec_scmd g sc : eval_seg g (SCmd sc) = eval_items g sc [].
Proof. cbn [eval_seg]. apply spec_cmd. Qed.

Lemma spec_icmd g pre ws post term : eval_item g (ICmd pre ws post term) =
  match spec_words g ws with
  | Some (st1, argv) =>
      match run_command st1 argv with
      | Some (st2, v) => Some (st2, Some v)
      | None => None
      end
  | None => None
  end.
Proof. reflexivity. Qed.

Lemma concat_str_app a b : concat_str (a ++ b) = concat_str a ++ concat_str b.
Proof. induction a as [|x a IH]; [reflexivity|]. cbn [app concat_str]. rewrite IH, app_assoc. reflexivity. Qed.

Section Sim.
Variable exec : executor.
Notation ew := (Eval.eval_word exec).

Lemma eval_seq_app : forall a b st st1 la, eval_seq exec st a = (st1, Ok la) ->
  eval_seq exec st (a ++ b) =
  match eval_seq exec st1 b with
  | (st2, Ok lb) => (st2, Ok (la ++ lb))
  | (st2, Err e) => (st2, Err e)
  | (st2, Panic p) => (st2, Panic p)
  | (st2, Fuel) => (st2, Fuel)
  end.
Proof.
  induction a as [|w a IH]; intros b st st1 la H.
  - cbn [eval_seq] in H. inversion H. subst. cbn [app].
    destruct (eval_seq exec st1 b) as [st2 [lb|e|p|]]; reflexivity.
  - cbn [app eval_seq] in *. destruct (ew st w) as [st' [v|e|p|]]; try discriminate H.
    destruct (eval_seq exec st' a) as [st'' [l|e|p|]] eqn:Ea; try discriminate H.
    inversion H. subst. rewrite (IH b st' st1 l Ea).
    destruct (eval_seq exec st1 b) as [st2 [lb|e|p|]]; reflexivity.
Qed.

Lemma eval_seq_app_inv : forall a b st st2 l, eval_seq exec st (a ++ b) = (st2, Ok l) ->
  exists st1 la lb, eval_seq exec st a = (st1, Ok la) /\ eval_seq exec st1 b = (st2, Ok lb)
    /\ l = la ++ lb.
Proof.
  induction a as [|w a IH]; intros b st st2 l H.
  - exists st, [], l. cbn [app] in H. repeat split; assumption.
  - cbn [app eval_seq] in *. destruct (ew st w) as [st' [v|e|p|]]; try discriminate H.
    destruct (eval_seq exec st' (a ++ b)) as [st'' [l'|e|p|]] eqn:Ea; try discriminate H.
    inversion H. subst. destruct (IH b st' st2 l' Ea) as (st1 & la & lb & A & B & C).
    exists st1, (v :: la), lb. rewrite A. subst l'. repeat split; assumption.
Qed.

(* ---------- the meaning of a token accumulator ---------- *)
Definition tk_pieces (t : tokens) : list word :=
  rev (match tk_str t with Some s => WString (rev s) :: tk_list t | None => tk_list t end).

Definition tk_sem (st0 : interp) (t : tokens) (st : interp) (s : str) : Prop :=
  forallb not_expand (tk_pieces t) = true
  /\ exists l, eval_seq exec st0 (tk_pieces t) = (st, Ok l) /\ concat_str (map as_str l) = s.

Lemma tk_sem_new st : tk_sem st tk_new st [].
Proof. split; [reflexivity|]. exists []. split; reflexivity. Qed.

Lemma tk_sem_push st0 t st1 s w st2 v : tk_sem st0 t st1 s -> not_expand w = true ->
  ew st1 w = (st2, Ok v) -> tk_sem st0 (tk_push t w) st2 (s ++ as_str v).
Proof.
  intros (Hn & l & El & Es) Hw Ew.
  assert (Ep : tk_pieces (tk_push t w) = tk_pieces t ++ [w]).
  { unfold tk_pieces, tk_push. destruct (tk_str t); reflexivity. }
  split.
  - rewrite Ep, forallb_app, Hn. cbn [forallb]. rewrite Hw. reflexivity.
  - exists (l ++ [v]). rewrite Ep. rewrite (eval_seq_app _ [w] _ _ _ El).
    cbn [eval_seq]. rewrite Ew. split; [reflexivity|].
    rewrite map_app, concat_str_app, Es. cbn [map concat_str]. rewrite app_nil_r. reflexivity.
Qed.

Lemma tk_sem_char st0 t st s c : tk_sem st0 t st s -> tk_sem st0 (tk_push_char t c) st (s ++ [c]).
Proof.
  intros (Hn & l & El & Es). destruct t as [tl [x|]].
  - assert (Ep : tk_pieces {| tk_list := tl; tk_str := Some x |} = rev tl ++ [WString (rev x)])
      by reflexivity.
    assert (Ep' : tk_pieces (tk_push_char {| tk_list := tl; tk_str := Some x |} c)
                  = rev tl ++ [WString (rev x ++ [c])]) by reflexivity.
    rewrite Ep in *. rewrite forallb_app in Hn. apply andb_prop in Hn.
    destruct (eval_seq_app_inv _ _ _ _ _ El) as (st1 & la & lb & A & B & C).
    cbn [eval_seq Eval.eval_word] in B. inversion B. subst st1 lb l.
    split.
    + rewrite Ep', forallb_app, (proj1 Hn). reflexivity.
    + exists (la ++ [VStr (rev x ++ [c])]). rewrite Ep'. rewrite (eval_seq_app _ _ _ _ _ A).
      cbn [eval_seq Eval.eval_word]. split; [reflexivity|].
      rewrite map_app, concat_str_app in *. cbn [map concat_str as_str] in *.
      rewrite app_nil_r in *. rewrite <- Es. rewrite app_assoc. reflexivity.
  - assert (Ep : tk_pieces {| tk_list := tl; tk_str := None |} = rev tl) by reflexivity.
    assert (Ep' : tk_pieces (tk_push_char {| tk_list := tl; tk_str := None |} c)
                  = rev tl ++ [WString [c]]) by reflexivity.
    rewrite Ep in *. split.
    + rewrite Ep', forallb_app, Hn. reflexivity.
    + exists (l ++ [VStr [c]]). rewrite Ep'. rewrite (eval_seq_app _ _ _ _ _ El).
      cbn [eval_seq Eval.eval_word]. split; [reflexivity|].
      rewrite map_app, concat_str_app, Es. cbn [map concat_str as_str]. rewrite app_nil_r. reflexivity.
Qed.

Lemma tk_sem_chars st0 st : forall x t s, tk_sem st0 t st s ->
  tk_sem st0 (fold_left tk_push_char x t) st (s ++ x).
Proof.
  induction x as [|c x IH]; intros t s H.
  - cbn [fold_left]. rewrite app_nil_r. exact H.
  - cbn [fold_left]. replace (s ++ c :: x) with ((s ++ [c]) ++ x) by (rewrite <- app_assoc; reflexivity).
    apply IH. apply tk_sem_char. exact H.
Qed.

Definition take_list (P : list word) : word :=
  match P with
  | [] => WTokens []
  | [w] => w
  | w :: w0 :: l1 => WTokens (w :: w0 :: l1)
  end.

Lemma take_list_sem st0 st : forall P l, forallb not_expand P = true ->
  eval_seq exec st0 P = (st, Ok l) ->
  exists v, ew st0 (take_list P) = (st, Ok v)
    /\ as_str v = concat_str (map as_str l)
    /\ not_expand (take_list P) = true.
Proof.
  intros P l Hn El.
  assert (Htok : exists v, ew st0 (WTokens P) = (st, Ok v) /\ as_str v = concat_str (map as_str l)).
  { rewrite (tokens_concat_in_order exec st0 P Hn), El. eexists. split; reflexivity. }
  destruct P as [|w [|w2 P']].
  - destruct Htok as (v & A & B). exists v. repeat split; assumption.
  - cbn [eval_seq] in El. destruct (ew st0 w) as [st1 [v|e|p|]] eqn:Ew0; try discriminate El.
    inversion El. subst. exists v. cbn [map concat_str take_list]. rewrite app_nil_r.
    cbn [forallb] in Hn. apply andb_prop in Hn.
    split; [exact Ew0|]. split; [reflexivity|exact (proj1 Hn)].
  - destruct Htok as (v & A & B). exists v. repeat split; assumption.
Qed.

Lemma tk_take_sem st0 t st s : tk_sem st0 t st s ->
  exists v, ew st0 (tk_take t) = (st, Ok v) /\ as_str v = s /\ not_expand (tk_take t) = true.
Proof.
  intros (Hn & l & El & Es). subst s. destruct t as [tl [x|]].
  - destruct tl as [|w tl'].
    + cbn in El. inversion El. subst. exists (VStr (rev x)). cbn. rewrite app_nil_r. repeat split.
    + change (tk_take {| tk_list := w :: tl'; tk_str := Some x |})
        with (take_list (rev (WString (rev x) :: w :: tl'))).
      change (tk_pieces {| tk_list := w :: tl'; tk_str := Some x |})
        with (rev (WString (rev x) :: w :: tl')) in *.
      exact (take_list_sem st0 st _ l Hn El).
  - destruct tl as [|w [|w2 tl']].
    + cbn in El. inversion El. subst. exists (VStr []). repeat split.
    + exact (take_list_sem st0 st [w] l Hn El).
    + unfold tk_take. cbn [tk_str tk_list].
      change (tk_pieces {| tk_list := w :: w2 :: tl'; tk_str := None |})
        with (rev (w :: w2 :: tl')) in *.
      rewrite (tokens_concat_in_order exec st0 _ Hn), El. eexists. repeat split.
Qed.

(* ---------- the simulation, for any relation the commands respect ---------- *)
Variable R : gst -> interp -> Prop.
Hypothesis R_var : forall g st n s, R g st -> env_get n (g_env g) = Some s ->
  exists v, sc_get (i_scopes st) n = Ok v /\ as_str v = s.
Hypothesis R_elem : forall g st n i s, R g st ->
  env_get (n ++ [c_lparen] ++ i ++ [c_rparen]) (g_env g) = Some s ->
  exists v, sc_get_elem (i_scopes st) n i = Ok v /\ as_str v = s.
Hypothesis R_cmd : forall g st argv g' s, R g st ->
  run_command g (map as_str argv) = Some (g', s) ->
  exists cmd st' v, assoc_get (as_str (hd v_empty argv)) (i_cmds st) = Some cmd
    /\ exec st cmd argv = (st', Ok v) /\ R g' st' /\ as_str v = s.

Definition seg_sim (s : seg) : Prop :=
  forall g g' sv, eval_seg g s = Some (g', sv) -> nx_seg s = true ->
  forall st, R g st -> forall st0 t s0, tk_sem st0 t st s0 ->
  exists st', R g' st' /\ tk_sem st0 (tok_seg0 t s) st' (s0 ++ sv).

Definition word_sim (w : wordc) : Prop :=
  forall g g' sv, SpecGrammar.eval_word g w = Some (g', sv) -> nx_word w = true ->
  forall st, R g st ->
  exists st' v, ew st (ast_word0 w) = (st', Ok v) /\ R g' st' /\ as_str v = sv
    /\ not_expand (ast_word0 w) = true.

Definition item_sim (i : item) : Prop :=
  forall g g' r, eval_item g i = Some (g', r) -> nx_item i = true ->
  forall st, R g st -> forall result,
  match ast_item0 i with
  | Some ws =>
      exists st' result', R g' st'
        /\ (forall rest_cmds, eval_cmds_with exec ew st (ws :: rest_cmds) result
                              = eval_cmds_with exec ew st' rest_cmds result')
        /\ match r with Some sv => as_str result' = sv | None => result' = result end
  | None => g' = g /\ r = None
  end.

Lemma segs_sim : forall l, Forall seg_sim l ->
  forall g g' sv, spec_segs g l = Some (g', sv) -> forallb nx_seg l = true ->
  forall st, R g st -> forall st0 t s0, tk_sem st0 t st s0 ->
  exists st', R g' st' /\ tk_sem st0 (fold_left tok_seg0 l t) st' (s0 ++ sv).
Proof.
  induction 1 as [|x l Hx Hl IH]; intros g g' sv E Hn st HR st0 t s0 Ht.
  - cbn in E. inversion E. subst. exists st. rewrite app_nil_r. split; assumption.
  - cbn [forallb] in Hn. apply andb_prop in Hn. destruct Hn as [Nx Nl].
    cbn [spec_segs] in E. fold spec_segs in E.
    destruct (eval_seg g x) as [[g1 v]|] eqn:Ex; [|discriminate E].
    destruct (spec_segs g1 l) as [[g2 v2]|] eqn:El; [|discriminate E].
    inversion E. subst g' sv.
    destruct (Hx g g1 v Ex Nx st HR st0 t s0 Ht) as (st1 & R1 & T1).
    destruct (IH g1 g2 v2 El Nl st1 R1 st0 _ _ T1) as (st2 & R2 & T2).
    exists st2. split; [exact R2|]. cbn [fold_left]. rewrite app_assoc. exact T2.
Qed.

Lemma items_sim : forall l, Forall item_sim l ->
  forall g g' res res', eval_items g l res = Some (g', res') -> forallb nx_item l = true ->
  forall st, R g st -> forall v0 p, as_str v0 = res ->
  exists st' v, eval_cmds_with exec ew st (items_with ast_item0 l p) v0 = (st', Ok v)
    /\ R g' st' /\ as_str v = res'.
Proof.
  induction 1 as [|x l Hx Hl IH]; intros g g' res res' E Hn st HR v0 p Hv.
  - cbn in E. inversion E. subst. exists st, v0. split; [destruct p; reflexivity|]. split; [assumption|reflexivity].
  - cbn [forallb] in Hn. apply andb_prop in Hn. destruct Hn as [Nx Nl].
    cbn [eval_items] in E. destruct (eval_item g x) as [[g1 r]|] eqn:Ex; [|discriminate E].
    specialize (Hx g g1 r Ex Nx st HR v0). cbn [items_with].
    destruct (ast_item0 x) as [ws|].
    + destruct Hx as (st1 & result' & R1 & Hstep & Hres). rewrite Hstep.
      destruct r as [sv|].
      * exact (IH g1 g' sv res' E Nl st1 R1 result' _ Hres).
      * subst result'. exact (IH g1 g' res res' E Nl st1 R1 v0 _ Hv).
    + destruct Hx as [Eg Er]. subst g1 r. exact (IH g g' res res' E Nl st HR v0 _ Hv).
Qed.

Lemma words_sim : forall ws, Forall (fun gw => word_sim (snd gw)) ws ->
  forall g g' argv, spec_words g ws = Some (g', argv) ->
  forallb (fun gw => match gw with (_, w) => nx_word w end) ws = true ->
  forall st, R g st -> forall acc,
  exists st' vals,
    eval_words_with ew st (map (fun gw => match gw with (_, w) => ast_word0 w end) ws) acc
    = (st', Ok (rev acc ++ vals))
    /\ R g' st' /\ map as_str vals = argv.
Proof.
  induction 1 as [|[g0 w] ws Hw Hws IH]; intros g g' argv E Hn st HR acc.
  - cbn in E. inversion E. subst. exists st, []. cbn. rewrite app_nil_r. repeat split. assumption.
  - cbn [forallb] in Hn. apply andb_prop in Hn. destruct Hn as [Nw Nws]. cbn [snd] in Hw.
    cbn [spec_words] in E. fold spec_words in E.
    destruct (SpecGrammar.eval_word g w) as [[g1 v]|] eqn:Ew; [|discriminate E].
    assert (Evs : match w with CExpand _ => split_simple v [] [] | _ => Some [v] end = Some [v])
      by (destruct w; try reflexivity; discriminate Nw).
    rewrite Evs in E.
    destruct (spec_words g1 ws) as [[g2 vs2]|] eqn:Er; [|discriminate E].
    inversion E. subst g' argv.
    destruct (Hw g g1 v Ew Nw st HR) as (st1 & v1 & E1 & R1 & A1 & X1).
    destruct (IH g1 g2 vs2 Er Nws st1 R1 (v1 :: acc)) as (st2 & vals & E2 & R2 & A2).
    exists st2, (v1 :: vals). cbn [map].
    assert (Estep : eval_words_with ew st (ast_word0 w :: map (fun gw => match gw with (_, w) => ast_word0 w end) ws) acc
                    = eval_words_with ew st1 (map (fun gw => match gw with (_, w) => ast_word0 w end) ws) (v1 :: acc)).
    { destruct (ast_word0 w) eqn:Eaw; try discriminate X1; cbn [eval_words_with]; rewrite E1; reflexivity. }
    rewrite Estep, E2. cbn [rev]. rewrite <- app_assoc. cbn [app].
    split; [reflexivity|]. split; [exact R2|]. rewrite A1, A2. reflexivity.
Qed.

Lemma tree_sim : (forall s, seg_sim s) /\ (forall w, word_sim w) /\ (forall i, item_sim i).
Proof.
  assert (HLit : forall x, seg_sim (SLit x)).
  { intros x g g' sv E _ st HR st0 t s0 Ht. cbn in E. inversion E. subst.
    exists st. split; [assumption|]. cbn [tok_seg0]. apply tk_sem_chars. exact Ht. }
  assert (HEsc : forall k a, seg_sim (SEsc k a)).
  { intros k a g g' sv E _ st HR st0 t s0 Ht. cbn in E. inversion E. subst.
    exists st. split; [assumption|]. cbn [tok_seg0]. apply tk_sem_char. exact Ht. }
  assert (HVar : forall n, seg_sim (SVar n)).
  { intros n g g' sv E _ st HR st0 t s0 Ht. cbn [eval_seg] in E.
    destruct (env_get n (g_env g)) as [v|] eqn:Eg; [|discriminate E]. inversion E. subst.
    destruct (R_var _ _ _ _ HR Eg) as (v' & Gv & Av).
    exists st. split; [assumption|]. cbn [tok_seg0]. rewrite <- Av.
    apply (tk_sem_push st0 t st s0 (WVarRef n) st v' Ht eq_refl).
    cbn [Eval.eval_word]. unfold st_scalar. rewrite Gv. reflexivity. }
  assert (HBVar : forall n, seg_sim (SBVar n)).
  { intros n g g' sv E _ st HR st0 t s0 Ht. cbn [eval_seg] in E.
    destruct (env_get n (g_env g)) as [v|] eqn:Eg; [|discriminate E]. inversion E. subst.
    destruct (R_var _ _ _ _ HR Eg) as (v' & Gv & Av).
    exists st. split; [assumption|]. cbn [tok_seg0]. rewrite <- Av.
    apply (tk_sem_push st0 t st s0 (WVarRef n) st v' Ht eq_refl).
    cbn [Eval.eval_word]. unfold st_scalar. rewrite Gv. reflexivity. }
  assert (HArr : forall n idx, Forall seg_sim idx -> seg_sim (SArr n idx)).
  { intros n idx Hidx g g' sv E Hn st HR st0 t s0 Ht. rewrite spec_arr in E. cbn [nx_seg] in Hn.
    destruct (spec_segs g idx) as [[g1 i]|] eqn:Ei; [|discriminate E].
    destruct (env_get _ (g_env g1)) as [v|] eqn:Eg; [|discriminate E]. inversion E. subst g' sv.
    destruct (segs_sim idx Hidx g g1 i Ei Hn st HR st tk_new [] (tk_sem_new st)) as (st1 & R1 & T1).
    cbn [app] in T1. destruct (tk_take_sem _ _ _ _ T1) as (iv & Ev & Ai & _).
    destruct (R_elem _ _ _ _ _ R1 Eg) as (v' & Gv & Av).
    exists st1. split; [assumption|]. cbn [tok_seg0]. rewrite <- Av.
    apply (tk_sem_push st0 t st s0 (WArrayRef n (tk_take (fold_left tok_seg0 idx tk_new))) st1 v' Ht eq_refl).
    cbn [Eval.eval_word]. rewrite Ev. unfold st_element. rewrite Ai, Gv. reflexivity. }
  assert (HCmd : forall sc, Forall item_sim sc -> seg_sim (SCmd sc)).
  { intros sc Hsc g g' sv E Hn st HR st0 t s0 Ht. rewrite spec_scmd in E. cbn [nx_seg] in Hn.
    destruct (items_sim sc Hsc g g' [] sv E Hn st HR v_empty false eq_refl) as (st1 & v & Ev & R1 & Av).
    exists st1. split; [assumption|]. cbn [tok_seg0]. rewrite <- Av.
    apply (tk_sem_push st0 t st s0 (WScript (items_with ast_item0 sc false)) st1 v Ht eq_refl).
    cbn [Eval.eval_word]. exact Ev. }
  assert (HBrace : forall b, word_sim (CBrace b)).
  { intros b g g' sv E _ st HR. cbn in E. inversion E. subst.
    exists st, (VStr (flat_map bseg_value b)). repeat split. assumption. }
  assert (HSegsWord : forall l, Forall seg_sim l -> forall g g' sv, spec_segs g l = Some (g', sv) ->
            forallb nx_seg l = true -> forall st, R g st ->
            exists st' v, ew st (tk_take (fold_left tok_seg0 l tk_new)) = (st', Ok v) /\ R g' st'
              /\ as_str v = sv /\ not_expand (tk_take (fold_left tok_seg0 l tk_new)) = true).
  { intros l Hl g g' sv E Hn st HR.
    destruct (segs_sim l Hl g g' sv E Hn st HR st tk_new [] (tk_sem_new st)) as (st1 & R1 & T1).
    cbn [app] in T1. destruct (tk_take_sem _ _ _ _ T1) as (v & Ev & Av & Xv).
    exists st1, v. repeat split; assumption. }
  assert (HQuote : forall l, Forall seg_sim l -> word_sim (CQuote l)).
  { intros l Hl g g' sv E Hn st HR. rewrite spec_quote in E. cbn [nx_word] in Hn.
    exact (HSegsWord l Hl g g' sv E Hn st HR). }
  assert (HBare : forall l, Forall seg_sim l -> word_sim (CBare l)).
  { intros l Hl g g' sv E Hn st HR. rewrite spec_bare in E. cbn [nx_word] in Hn.
    exact (HSegsWord l Hl g g' sv E Hn st HR). }
  assert (HExpand : forall w, word_sim w -> word_sim (CExpand w)).
  { intros w _ g g' sv _ Hn. discriminate Hn. }
  assert (HICmd : forall pre ws post term, Forall (fun gw => word_sim (snd gw)) ws ->
                  item_sim (ICmd pre ws post term)).
  { intros pre ws post term Hws g g' r E Hn st HR result. rewrite spec_icmd in E.
    cbn [nx_item] in Hn. cbn [ast_item0].
    destruct (spec_words g ws) as [[g1 argv]|] eqn:Ew; [|discriminate E].
    destruct (run_command g1 argv) as [[g2 v]|] eqn:Erun; [|discriminate E].
    inversion E. subst g' r.
    destruct (words_sim ws Hws g g1 argv Ew Hn st HR []) as (st1 & vals & Ev & R1 & Av).
    cbn [rev app] in Ev. rewrite <- Av in Erun.
    destruct (R_cmd _ _ _ _ _ R1 Erun) as (cmd & st2 & v' & Ecmd & Eexec & R2 & Av').
    exists st2, v'. split; [exact R2|]. split; [|exact Av'].
    intros rest_cmds. cbn [eval_cmds_with]. rewrite Ev.
    destruct vals as [|name_v vals']; [cbn in Erun; discriminate Erun|].
    cbn [hd] in Ecmd. rewrite Ecmd, Eexec. reflexivity. }
  assert (HComment : forall pre text term, item_sim (IComment pre text term)).
  { intros pre text term g g' r E _ st HR result. cbn in E. inversion E. subst. split; reflexivity. }
  assert (HEmpty : forall pre term, item_sim (IEmpty pre term)).
  { intros pre term g g' r E _ st HR result. cbn in E. inversion E. subst.
    cbn [ast_item0]. destruct (str_eqb term [c_semi]); [|split; reflexivity].
    exists st, result. split; [assumption|]. split; [|reflexivity]. intros rest_cmds. reflexivity. }
  split; [|split].
  - exact (seg_ind3 seg_sim word_sim item_sim HLit HEsc HVar HBVar HArr HCmd HBrace HQuote HBare
             HExpand HICmd HComment HEmpty).
  - exact (word_ind3 seg_sim word_sim item_sim HLit HEsc HVar HBVar HArr HCmd HBrace HQuote HBare
             HExpand HICmd HComment HEmpty).
  - exact (item_ind3 seg_sim word_sim item_sim HLit HEsc HVar HBVar HArr HCmd HBrace HQuote HBare
             HExpand HICmd HComment HEmpty).
Qed.

(* the commands invoked, their order and arguments (the trace), the variables left and the
   result are those the specification computes on the tree *)
Theorem eval_agrees_with_expected : forall sc env trace env' res st,
  no_expand sc = true ->
  expected env sc = Some (trace, env', res) ->
  R {| g_env := env; g_trace := [] |} st ->
  exists st' v g', eval_script exec st (ast_of sc) = (st', Ok v)
    /\ R g' st' /\ rev (g_trace g') = trace /\ g_env g' = env' /\ as_str v = res.
Proof.
  intros sc env trace env' res st Hn E HR. unfold expected in E.
  destruct (eval_items {| g_env := env; g_trace := [] |} sc []) as [[g' v]|] eqn:Ei; [|discriminate E].
  inversion E. subst trace env' res.
  destruct (items_sim sc) with (g := {| g_env := env; g_trace := [] |}) (g' := g') (res := @nil char)
    (res' := v) (st := st) (v0 := v_empty) (p := false) as (st' & v' & Ev & R' & Av); try assumption.
  { apply Forall_forall. intros i _. exact (proj2 (proj2 tree_sim) i). }
  { reflexivity. }
  exists st', v', g'. repeat split; assumption.
Qed.

End Sim.

Print Assumptions eval_agrees_with_expected.

(* ---------- the concrete interpreter: rec and set as registered by the harness ---------- *)
Lemma env_get_set_same n v : forall env, env_get n (env_set n v env) = Some v.
Proof.
  induction env as [|[k w] env IH]; cbn [env_set env_get].
  - rewrite str_eqb_refl. reflexivity.
  - destruct (str_eqb n k) eqn:E; cbn [env_get]; [rewrite str_eqb_refl; reflexivity|rewrite E; exact IH].
Qed.

Lemma env_get_set_other n v k : k <> n -> forall env, env_get k (env_set n v env) = env_get k env.
Proof.
  intros Hne. induction env as [|[k' w] env IH]; cbn [env_set env_get].
  - destruct (str_eqb k n) eqn:E; [apply str_eqb_eq in E; contradiction|reflexivity].
  - destruct (str_eqb n k') eqn:E.
    + apply str_eqb_eq in E. subst k'. cbn [env_get].
      destruct (str_eqb k n) eqn:E2; [apply str_eqb_eq in E2; contradiction|reflexivity].
    + cbn [env_get]. destruct (str_eqb k k'); [reflexivity|exact IH].
Qed.

Lemma last_map_as_str : forall l : list value, as_str (last l v_empty) = last (map as_str l) [].
Proof.
  induction l as [|a l IH]; [reflexivity|]. cbn [map last]. destruct l as [|b l']; [reflexivity|].
  cbn [map] in *. exact IH.
Qed.

Lemma no_paren_literal n : has_char c_lparen n = false -> parse_varname_literal n = (n, None).
Proof.
  intros H. unfold parse_varname_literal.
  rewrite (sw_all (fun c => negb (c =? c_lparen)) n); [reflexivity|].
  unfold has_char in H. apply forallb_forall. intros x Hx.
  destruct (x =? c_lparen) eqn:E; [|reflexivity].
  exfalso. assert (T : existsb (fun d => d =? c_lparen) n = true).
  { apply existsb_exists. exists x. split; assumption. }
  rewrite T in H. discriminate H.
Qed.

Section Concrete.
Variable U : uni.
Variable fuel : nat.
Variable cmdC : command.

Definition cexec : executor := run_exec U (S fuel).

Definition Rc (g : gst) (st : interp) : Prop :=
  i_trace st = g_trace g
  /\ (exists c1, assoc_get (lit "rec") (i_cmds st) = Some (CmdNative NRecorder c1))
  /\ (exists c2, assoc_get (lit "set") (i_cmds st) = Some (CmdNative NSet c2))
  /\ assoc_get (lit "c") (i_cmds st) = Some cmdC
  /\ scope_inv (i_scopes st)
  /\ (forall n, has_char c_lparen n = true -> env_get n (g_env g) = None)
  /\ (forall n, match env_get n (g_env g) with
                | Some s => exists v, shape_of (i_scopes st) n = Scalar v /\ as_str v = s
                | None => forall m, shape_of (i_scopes st) n <> Array m
                end).

(* the harness procedure `c` forwards its arguments to `rec c ...`: ASSUMED of the command
   registered under the name c, not proved (it is a Tcl procedure run by proc_execute) *)
Definition c_behaves : Prop := forall g st argv, Rc g st -> as_str (hd v_empty argv) = lit "c" ->
  cexec st cmdC argv
  = (set_trace st ((lit "rec" :: map as_str argv) :: i_trace st), Ok (last argv v_empty)).

Lemma Rc_var : forall g st n s, Rc g st -> env_get n (g_env g) = Some s ->
  exists v, sc_get (i_scopes st) n = Ok v /\ as_str v = s.
Proof.
  intros g st n s (_ & _ & _ & _ & Hinv & _ & Henv) E. specialize (Henv n). rewrite E in Henv.
  destruct Henv as (v & Hs & Hv). exists v. split; [|exact Hv].
  rewrite (sc_get_by_shape _ _ Hinv), Hs. reflexivity.
Qed.

Lemma Rc_elem : forall g st n i s, Rc g st ->
  env_get (n ++ [c_lparen] ++ i ++ [c_rparen]) (g_env g) = Some s ->
  exists v, sc_get_elem (i_scopes st) n i = Ok v /\ as_str v = s.
Proof.
  intros g st n i s (_ & _ & _ & _ & _ & Hnp & _) E. exfalso.
  rewrite Hnp in E; [discriminate E|]. unfold has_char. rewrite existsb_app. cbn [app existsb].
  change (c_lparen =? c_lparen) with true. cbn [orb]. apply orb_true_r.
Qed.

Lemma Rc_cmd : c_behaves -> forall g st argv g' s, Rc g st ->
  run_command g (map as_str argv) = Some (g', s) ->
  exists cmd st' v, assoc_get (as_str (hd v_empty argv)) (i_cmds st) = Some cmd
    /\ cexec st cmd argv = (st', Ok v) /\ Rc g' st' /\ as_str v = s.
Proof.
  intros HC g st argv g' s HR E. pose proof HR as HR0.
  destruct HR as (Htr & (c1 & Hrec) & (c2 & Hset) & Hc & Hinv & Hnp & Henv).
  destruct argv as [|name_v args]; [discriminate E|].
  cbn [map run_command hd] in *.
  destruct (str_eqb (as_str name_v) (lit "rec")) eqn:Er.
  { apply str_eqb_eq in Er. inversion E. subst g' s. rewrite Er.
    exists (CmdNative NRecorder c1), (set_trace st (map as_str (name_v :: args) :: i_trace st)),
           (last (name_v :: args) v_empty).
    split; [exact Hrec|]. split; [reflexivity|]. split.
    - unfold Rc. cbn [i_trace set_trace i_cmds i_scopes g_trace g_env map]. rewrite Htr, Er.
      split; [reflexivity|]. split; [eauto|]. split; [eauto|]. split; [exact Hc|].
      split; [exact Hinv|]. split; [exact Hnp|exact Henv].
    - rewrite last_map_as_str. cbn [map]. rewrite Er. reflexivity. }
  destruct (str_eqb (as_str name_v) (lit "c")) eqn:Ec.
  { apply str_eqb_eq in Ec. inversion E. subst g' s. rewrite Ec.
    exists cmdC, (set_trace st ((lit "rec" :: map as_str (name_v :: args)) :: i_trace st)),
           (last (name_v :: args) v_empty).
    split; [exact Hc|]. split; [apply (HC g); [exact HR0|exact Ec]|]. split.
    - unfold Rc. cbn [i_trace set_trace i_cmds i_scopes g_trace g_env]. rewrite Htr. cbn [map]. rewrite Ec.
      split; [reflexivity|]. split; [eauto|]. split; [eauto|]. split; [exact Hc|].
      split; [exact Hinv|]. split; [exact Hnp|exact Henv].
    - rewrite last_map_as_str. cbn [map]. rewrite Ec. reflexivity. }
  destruct (str_eqb (as_str name_v) (lit "set")) eqn:Es; [|discriminate E].
  apply str_eqb_eq in Es. rewrite Es.
  destruct args as [|nv [|vv [|? ?]]]; try discriminate E; cbn [map] in E.
  - (* set name *)
    destruct (has_char c_lparen (as_str nv)) eqn:Hp; [discriminate E|].
    pose proof (Henv (as_str nv)) as Hn.
    destruct (env_get (as_str nv) (g_env g)) as [v|] eqn:Eg; [|discriminate E].
    inversion E. subst g' s. destruct Hn as (v' & Hs & Hv).
    exists (CmdNative NSet c2), st, v'. split; [exact Hset|]. split.
    + unfold cexec. cbn [run_exec run_native]. unfold cmd_set.
      change (check_args "cmd_set" [name_v; nv]) with (@Ok unit tt). cbn [lift bind].
      cbn [length Nat.eqb]. unfold arg. cbn [nth]. unfold lift, st_var, as_var_name. rewrite (no_paren_literal _ Hp).
      unfold st_scalar. rewrite (sc_get_by_shape _ _ Hinv), Hs. reflexivity.
    + split; [|exact Hv]. unfold Rc.
      split; [exact Htr|]. split; [eauto|]. split; [eauto|]. split; [exact Hc|].
      split; [exact Hinv|]. split; [exact Hnp|exact Henv].
  - (* set name value *)
    destruct (has_char c_lparen (as_str nv)) eqn:Hp; [discriminate E|].
    inversion E. subst g' s.
    assert (Hna : forall m, shape_of (i_scopes st) (as_str nv) <> Array m).
    { pose proof (Henv (as_str nv)) as Hn. destruct (env_get (as_str nv) (g_env g)).
      - destruct Hn as (v' & Hs & _). intros m. rewrite Hs. discriminate.
      - exact Hn. }
    destruct (sc_set_on_unset_or_scalar (i_scopes st) (as_str nv) vv Hinv Hna) as [Eset Hsh].
    destruct (sc_set_get _ _ _ _ Hinv Eset) as (Hinv' & _ & _ & Hoth & _ & _).
    set (ss' := sc_put (i_scopes st) (sc_target (i_scopes st) (as_str nv)) (as_str nv) (VarScalar vv)) in *.
    exists (CmdNative NSet c2), (set_scopes st ss'), vv. split; [exact Hset|]. split.
    + unfold cexec. cbn [run_exec run_native]. unfold cmd_set.
      change (check_args "cmd_set" [name_v; nv; vv]) with (@Ok unit tt). cbn [lift bind].
      cbn [length Nat.eqb]. unfold arg. cbn [nth]. unfold st_set_var_return, st_set_var, as_var_name.
      rewrite (no_paren_literal _ Hp). unfold st_set_scalar. rewrite Eset. reflexivity.
    + split; [|reflexivity]. unfold Rc.
      cbn [i_trace set_scopes i_cmds i_scopes g_trace g_env].
      split; [exact Htr|]. split; [eauto|]. split; [eauto|]. split; [exact Hc|].
      split; [exact Hinv'|]. split.
      * intros n Hn. rewrite env_get_set_other; [apply Hnp; exact Hn|].
        intros En. subst n. rewrite Hn in Hp. discriminate Hp.
      * intros n. destruct (list_eq_dec N.eq_dec n (as_str nv)) as [En|En].
        -- subst n. rewrite env_get_set_same. exists vv. split; [exact Hsh|reflexivity].
        -- rewrite (env_get_set_other _ _ _ En).
           assert (Esh : shape_of ss' n = shape_of (i_scopes st) n).
           { unfold shape_of. rewrite (Hoth n En). reflexivity. }
           rewrite Esh. exact (Henv n).
Qed.

(* C02 for the model's own executor: a tree without {*}, evaluated after translation, invokes
   exactly the commands [expected] lists, leaves the variables it lists and returns its result *)
Theorem eval_agrees_concrete : c_behaves -> forall sc env trace env' res st,
  no_expand sc = true ->
  expected env sc = Some (trace, env', res) ->
  Rc {| g_env := env; g_trace := [] |} st ->
  exists st' v, eval_script cexec st (ast_of sc) = (st', Ok v)
    /\ rev (i_trace st') = trace /\ as_str v = res
    /\ (forall n s, env_get n env' = Some s ->
          exists w, sc_get (i_scopes st') n = Ok w /\ as_str w = s).
Proof.
  intros HC sc env trace env' res st Hn E HR.
  destruct (eval_agrees_with_expected cexec Rc Rc_var Rc_elem (Rc_cmd HC) sc env trace env' res st Hn E HR)
    as (st' & v & g' & Ev & R' & Htr & Henv & Hv).
  exists st', v. split; [exact Ev|]. split; [|split; [exact Hv|]].
  - destruct R' as (Ht & _). rewrite Ht. exact Htr.
  - intros n s En. subst env'. exact (Rc_var g' st' n s R' En).
Qed.

(* and from the text: reading the rendering and evaluating what was read *)
Corollary render_eval_agrees : c_behaves -> forall sc env trace env' res st,
  name_ok (u_alnum U) -> wf sc = true -> star_safe sc = true -> no_expand sc = true ->
  expected env sc = Some (trace, env', res) ->
  Rc {| g_env := env; g_trace := [] |} st ->
  exists ast, parse (u_alnum U) (render sc) = POk ast []
    /\ exists st' v, eval_script cexec st ast = (st', Ok v)
         /\ rev (i_trace st') = trace /\ as_str v = res
         /\ (forall n s, env_get n env' = Some s ->
               exists w, sc_get (i_scopes st') n = Ok w /\ as_str w = s).
Proof.
  intros HC sc env trace env' res st Hisa Hw Hs Hn E HR.
  exists (ast_of sc). split; [apply parse_render; assumption|].
  exact (eval_agrees_concrete HC sc env trace env' res st Hn E HR).
Qed.

(* the same through the top-level entry point [eval] on the text *)
Theorem eval_text_agrees : c_behaves -> forall sc env trace env' res st,
  name_ok (u_alnum U) -> wf sc = true -> star_safe sc = true -> no_expand sc = true ->
  expected env sc = Some (trace, env', res) ->
  Rc {| g_env := env; g_trace := [] |} st -> i_levels st < i_limit st ->
  exists st' v, eval U (S fuel) st (render sc) = (st', Ok v)
    /\ rev (i_trace st') = trace /\ as_str v = res /\ i_levels st' = i_levels st
    /\ (forall n s, env_get n env' = Some s ->
          exists w, sc_get (i_scopes st') n = Ok w /\ as_str w = s).
Proof.
  intros HC sc env trace env' res st Hisa Hw Hs Hn E HR Hlim.
  set (st1 := set_levels st (i_levels st + 1)).
  assert (HR1 : Rc {| g_env := env; g_trace := [] |} st1) by exact HR.
  destruct (eval_agrees_with_expected cexec Rc Rc_var Rc_elem (Rc_cmd HC) sc env trace env' res st1 Hn E HR1)
    as (st2 & v & g' & Ev & R2 & Htr & Henv & Hv).
  assert (Hlev : i_levels st2 = i_levels st1).
  { pose proof (eval_script_pres cexec (run_exec_ok U (S fuel)) st1 st1 (ast_of sc) (ctl_eq_refl st1)) as P.
    unfold pres_M in P. rewrite Ev in P. cbn [fst snd] in P.
    exact (proj1 (P (normal_ok v))). }
  exists (set_levels st2 (i_levels st2 - 1)), v.
  split.
  - unfold eval, eval_value, eval_value_with. cbn [i_limit i_levels set_levels].
    destruct (N.ltb_spec (i_limit st) (i_levels st + 1)) as [C|_]; [lia|].
    cbn [as_str]. rewrite (parse_render (u_alnum U) sc Hisa Hw Hs).
    unfold cexec, st1 in Ev. rewrite Ev. cbn [i_levels set_levels].
    destruct (i_levels st2 - 1 =? 0); reflexivity.
  - cbn [i_trace i_levels i_scopes set_levels]. split; [|split; [exact Hv|split]].
    + destruct R2 as (Ht & _). rewrite Ht. exact Htr.
    + rewrite Hlev. unfold st1. cbn [i_levels set_levels]. lia.
    + intros n s En. subst env'. exact (Rc_var g' st2 n s R2 En).
Qed.

End Concrete.

Print Assumptions eval_agrees_concrete.
Print Assumptions eval_text_agrees.
Print Assumptions render_eval_agrees.
