(* BaseFacts.v — lemmas about Base.v *)
From Molt Require Import Model.Base.
From Coq Require Import Lia.
Local Open Scope N_scope.

Lemma str_eqb_refl s : str_eqb s s = true.
Proof. induction s as [|c r IH]; [reflexivity|]. cbn. rewrite N.eqb_refl. exact IH. Qed.

Lemma str_eqb_eq a b : str_eqb a b = true <-> a = b.
Proof.
  split.
  - revert b. induction a as [|x a IH]; intros [|y b] H; try discriminate; [reflexivity|].
    cbn in H. apply andb_true_iff in H. destruct H as [H1 H2].
    apply N.eqb_eq in H1. subst. f_equal. apply IH. assumption.
  - intros ->. apply str_eqb_refl.
Qed.

Fixpoint term_eqb_refl (t : term) : term_eqb t t = true.
Proof.
  destruct t as [s|z|l].
  - apply str_eqb_refl.
  - apply Z.eqb_refl.
  - cbn. induction l as [|x l IH]; [reflexivity|].
    rewrite term_eqb_refl. exact IH.
Qed.

Lemma term_strs_TStrs l : term_strs (TStrs l) = l.
Proof.
  unfold term_strs, TStrs. cbn. rewrite map_map. cbn. induction l; [reflexivity|cbn; congruence].
Qed.

Lemma rev_fast_eq {A} (l : list A) : rev_fast l = rev l.
Proof. unfold rev_fast. symmetry. apply rev_alt. Qed.
