(* HarnessFacts.v — C20: the test command's verdicts (model of test_harness.rs). *)
From Molt Require Import Model.Base Model.ListSyn Model.Float Model.Value Model.State Model.Script
  Model.Parser Model.Eval Model.Commands Model.Harness.
From Molt Require Proofs.BaseFacts.
From Coq Require Import Lia.
Local Open Scope N_scope.

(* the verdict as a specification: which counter moves *)
Inductive outcome_matches (code : tcode) (expect : str) : res value -> Prop :=
| match_ok : forall out, code = TOk -> as_str out = expect -> outcome_matches code expect (Ok out)
| match_err : forall ex, code = TError -> x_code ex = CError -> as_str (x_value ex) = expect ->
    outcome_matches code expect (Err ex).

(* same kind of outcome as expected (ok / error) but another value: a failure *)
Inductive outcome_differs (code : tcode) (expect : str) : res value -> Prop :=
| differ_ok : forall out, code = TOk -> as_str out <> expect -> outcome_differs code expect (Ok out)
| differ_err : forall ex, code = TError -> x_code ex = CError -> as_str (x_value ex) <> expect ->
    outcome_differs code expect (Err ex).

Definition is_value_or_exception {A} (r : res A) : Prop :=
  match r with Ok _ | Err _ => True | _ => False end.

Lemma rcode_eqb_error c : rcode_eqb c CError = true <-> c = CError.
Proof. destruct c; cbn; split; intros H; try discriminate; try reflexivity. Qed.

Section WithRec.
Variable rec : recfns.

(* One executed test: setup, body and cleanup run in that order in a pushed scope, which is
   popped afterwards; the test counter and exactly one of passed / failed / errors move. *)
Theorem run_test_spec : forall st info st2 r2 st3 rb st4 r4,
  r_eval rec (push_scope st) (VStr (ti_setup info)) = (st2, r2) -> is_value_or_exception r2 ->
  r_eval rec st2 (VStr (ti_body info)) = (st3, rb) -> is_value_or_exception rb ->
  r_eval rec st3 (VStr (ti_cleanup info)) = (st4, r4) -> is_value_or_exception r4 ->
  exists dp df de,
    run_test rec st info =
      (let '(t, p, f, e) := i_test (pop_scope st4) in
       set_test (pop_scope st4) (t + 1, p + dp, f + df, e + de), Ok tt)
    /\ dp + df + de = 1
    /\ (dp = 1 <-> outcome_matches (ti_code info) (ti_expect info) rb)
    /\ (df = 1 <-> outcome_differs (ti_code info) (ti_expect info) rb).
Proof.
  intros st info st2 r2 st3 rb st4 r4 E2 N2 E3 N3 E4 N4.
  unfold run_test. rewrite E2.
  assert (S2 : swallow (st2, r2) = (st2, Ok tt)) by (destruct r2; try contradiction; reflexivity).
  rewrite S2. cbn [bind]. rewrite E3.
  assert (S4 : swallow (st4, r4) = (st4, Ok tt)) by (destruct r4; try contradiction; reflexivity).
  destruct (i_test (pop_scope st4)) as [[[t p] f] e] eqn:Et.
  destruct rb as [out|ex|pp|]; try contradiction.
  - rewrite E4, S4. cbn [bind]. rewrite Et.
    destruct (ti_code info) eqn:Ec.
    + destruct (str_eqb (as_str out) (ti_expect info)) eqn:Es.
      * exists 1, 0, 0. split; [reflexivity|]. split; [reflexivity|].
        apply Proofs.BaseFacts.str_eqb_eq in Es.
        split; split; intros H; try reflexivity; try discriminate.
        -- constructor; [reflexivity|assumption].
        -- inversion H; subst; congruence.
      * exists 0, 1, 0. split; [reflexivity|]. split; [reflexivity|].
        assert (Hne : as_str out <> ti_expect info).
        { intros C. apply Proofs.BaseFacts.str_eqb_eq in C. congruence. }
        split; split; intros H; try reflexivity; try discriminate.
        -- inversion H; subst; congruence.
        -- constructor; [reflexivity|assumption].
    + exists 0, 0, 1. split; [reflexivity|]. split; [reflexivity|].
      split; split; intros H; try discriminate; inversion H; subst; congruence.
  - rewrite E4, S4. cbn [bind]. rewrite Et.
    destruct (ti_code info) eqn:Ec.
    + exists 0, 0, 1. split; [reflexivity|]. split; [reflexivity|].
      split; split; intros H; try discriminate; inversion H; subst; congruence.
    + destruct (rcode_eqb (x_code ex) CError) eqn:Ee.
      * apply rcode_eqb_error in Ee.
        destruct (str_eqb (as_str (x_value ex)) (ti_expect info)) eqn:Es.
        -- exists 1, 0, 0. split; [reflexivity|]. split; [reflexivity|].
           apply Proofs.BaseFacts.str_eqb_eq in Es.
           split; split; intros H; try reflexivity; try discriminate.
           ++ constructor; [reflexivity|assumption|assumption].
           ++ inversion H; subst; congruence.
        -- exists 0, 1, 0. split; [reflexivity|]. split; [reflexivity|].
           assert (Hne : as_str (x_value ex) <> ti_expect info).
           { intros C. apply Proofs.BaseFacts.str_eqb_eq in C. congruence. }
           split; split; intros H; try reflexivity; try discriminate.
           ++ inversion H; subst; congruence.
           ++ constructor; [reflexivity|assumption|assumption].
      * exists 0, 0, 1. split; [reflexivity|]. split; [reflexivity|].
        assert (Hne : x_code ex <> CError).
        { intros C. apply rcode_eqb_error in C. congruence. }
        split; split; intros H; try discriminate; inversion H; subst; congruence.
Qed.

(* isolation: the scopes after a test are those the cleanup left, minus the test's own scope;
   with the C08 theorem (evaluation keeps the stack depth) this is the caller's stack depth *)
Corollary run_test_pops_scope : forall st info st2 r2 st3 rb st4 r4,
  r_eval rec (push_scope st) (VStr (ti_setup info)) = (st2, r2) -> is_value_or_exception r2 ->
  r_eval rec st2 (VStr (ti_body info)) = (st3, rb) -> is_value_or_exception rb ->
  r_eval rec st3 (VStr (ti_cleanup info)) = (st4, r4) -> is_value_or_exception r4 ->
  i_scopes (fst (run_test rec st info)) = sc_pop (i_scopes st4).
Proof.
  intros st info st2 r2 st3 rb st4 r4 E2 N2 E3 N3 E4 N4.
  destruct (run_test_spec st info st2 r2 st3 rb st4 r4 E2 N2 E3 N3 E4 N4) as (dp & df & de & -> & _).
  destruct (i_test (pop_scope st4)) as [[[t p] f] e]. reflexivity.
Qed.

End WithRec.

(* overall verdict: success exactly when nothing failed or errored (and the script ran) *)
Theorem harness_verdict_spec : forall st v,
  harness_verdict st (Ok v) = true <-> (let '(_, _, f, e) := i_test st in f + e = 0).
Proof.
  intros st v. unfold harness_verdict. destruct (i_test st) as [[[t p] f] e].
  split; intros H; [apply N.eqb_eq in H; exact H | apply N.eqb_eq; exact H].
Qed.

Theorem harness_verdict_script_error : forall st e, harness_verdict st (Err e) = false.
Proof. reflexivity. Qed.
