(* ScopeFacts.v — C07: variables live in the right scope and keep one shape. *)
From Molt Require Import Model.Base Model.ListSyn Model.Float Model.Value Model.State.
From Molt Require Import Proofs.BaseFacts Proofs.BindFacts Spec.SpecVars.
From Coq Require Import Lia.

Arguments N.eqb : simpl never.
Arguments N.leb : simpl never.
Arguments N.ltb : simpl never.

Local Open Scope N_scope.

(* ---------- association lists ---------- *)

Lemma assoc_get_In {A} k (a : A) m : assoc_get k m = Some a -> In (k, a) m.
Proof.
  induction m as [|[k' a'] m IH]; cbn [assoc_get]; [discriminate|].
  destruct (str_eqb k' k) eqn:E.
  - intros H. injection H as ->. apply str_eqb_eq in E. subst k'. now left.
  - intros H. right. exact (IH H).
Qed.

Lemma assoc_get_none_notin {A} k m : @assoc_get A k m = None -> ~ In k (map fst m).
Proof.
  induction m as [|[k' a'] m IH]; cbn [assoc_get map fst]; [intros _ []|].
  destruct (str_eqb k' k) eqn:E; [discriminate|].
  intros H [Heq|Hin].
  - cbn [fst] in Heq. subst k'. now rewrite str_eqb_refl in E.
  - exact (IH H Hin).
Qed.

Lemma In_assoc_get {A} k (a : A) m : NoDup (map fst m) -> In (k, a) m -> assoc_get k m = Some a.
Proof.
  induction m as [|[k' a'] m IH]; intros Hnd Hin; [destruct Hin|].
  cbn [map fst] in Hnd. inversion Hnd as [|x l Hnotin Hnd']; subst.
  cbn [assoc_get]. destruct Hin as [Heq|Hin].
  - injection Heq as -> ->. now rewrite str_eqb_refl.
  - destruct (str_eqb k' k) eqn:E.
    + apply str_eqb_eq in E. subst k'. exfalso. apply Hnotin.
      change k with (fst (k, a)). now apply in_map.
    + now apply IH.
Qed.

Lemma In_assoc_set {A} k (a : A) m k' y :
  In (k', y) (assoc_set k a m) -> (k' = k /\ y = a) \/ In (k', y) m.
Proof.
  induction m as [|[k2 a2] m IH]; cbn [assoc_set].
  - intros [Heq|[]]. injection Heq as <- <-. now left.
  - destruct (str_eqb k2 k) eqn:E.
    + apply str_eqb_eq in E. subst k2. intros [Heq|Hin].
      * injection Heq as <- <-. now left.
      * right. now right.
    + intros [Heq|Hin].
      * right. now left.
      * destruct (IH Hin) as [H|H]; [now left|right; now right].
Qed.

Lemma keys_assoc_set {A} k (a : A) m :
  map fst (assoc_set k a m)
  = match assoc_get k m with Some _ => map fst m | None => map fst m ++ [k] end.
Proof.
  induction m as [|[k2 a2] m IH]; cbn [assoc_set assoc_get map fst app]; [reflexivity|].
  destruct (str_eqb k2 k) eqn:E; cbn [map fst]; [reflexivity|].
  rewrite IH. now destruct (assoc_get k m).
Qed.

Lemma NoDup_assoc_set {A} k (a : A) m : NoDup (map fst m) -> NoDup (map fst (assoc_set k a m)).
Proof.
  intros Hnd. rewrite keys_assoc_set. destruct (assoc_get k m) eqn:E; [exact Hnd|].
  apply assoc_get_none_notin in E.
  apply NoDup_rev in Hnd. rewrite <- (rev_involutive (map fst m ++ [k])).
  apply NoDup_rev. rewrite rev_app_distr. cbn [rev app]. constructor; [|exact Hnd].
  now rewrite <- in_rev.
Qed.

Lemma In_assoc_remove {A} k m (p : str * A) : In p (assoc_remove k m) -> In p m.
Proof.
  induction m as [|[k2 a2] m IH]; cbn [assoc_remove]; [intros []|].
  destruct (str_eqb k2 k).
  - intros H. now right.
  - intros [H|H]; [now left|right; exact (IH H)].
Qed.

Lemma NoDup_assoc_remove {A} k (m : list (str * A)) :
  NoDup (map fst m) -> NoDup (map fst (assoc_remove k m)).
Proof.
  induction m as [|[k2 a2] m IH]; cbn [assoc_remove map fst]; intros Hnd; [exact Hnd|].
  inversion Hnd as [|x l Hnotin Hnd']; subst. destruct (str_eqb k2 k); [exact Hnd'|].
  cbn [map fst]. constructor; [|exact (IH Hnd')].
  intros Hin. apply Hnotin. apply in_map_iff in Hin. destruct Hin as [p [Hp Hin]].
  apply in_map_iff. exists p. split; [exact Hp|]. exact (In_assoc_remove _ _ _ Hin).
Qed.

Lemma assoc_get_remove_same {A} k (m : list (str * A)) :
  NoDup (map fst m) -> assoc_get k (assoc_remove k m) = None.
Proof.
  induction m as [|[k2 a2] m IH]; cbn [assoc_remove map fst]; intros Hnd; [reflexivity|].
  inversion Hnd as [|x l Hnotin Hnd']; subst. destruct (str_eqb k2 k) eqn:E.
  - apply str_eqb_eq in E. subst k2.
    destruct (assoc_get k m) as [a|] eqn:G; [|reflexivity].
    exfalso. apply Hnotin. apply assoc_get_In in G. change k with (fst (k, a)). now apply in_map.
  - cbn [assoc_get]. rewrite E. exact (IH Hnd').
Qed.

Lemma assoc_get_remove_other {A} k k' (m : list (str * A)) :
  k <> k' -> assoc_get k' (assoc_remove k m) = assoc_get k' m.
Proof.
  intros Hne. induction m as [|[k2 a2] m IH]; cbn [assoc_remove assoc_get]; [reflexivity|].
  destruct (str_eqb k2 k) eqn:E.
  - apply str_eqb_eq in E. subst k2. now rewrite (str_eqb_neq _ _ Hne).
  - cbn [assoc_get]. now rewrite IH.
Qed.

Lemma assoc_remove_absent {A} k (m : list (str * A)) : assoc_get k m = None -> assoc_remove k m = m.
Proof.
  induction m as [|[k2 a2] m IH]; cbn [assoc_remove assoc_get]; [reflexivity|].
  destruct (str_eqb k2 k); [discriminate|]. intros H. now rewrite (IH H).
Qed.

(* ---------- frames of a modified stack ---------- *)

Lemma update_nth_oob {A} n (f : A -> A) l : (length l <= n)%nat -> update_nth n f l = l.
Proof.
  revert n. induction l as [|x l IH]; intros [|n] Hle; cbn [update_nth length] in *; try reflexivity; try lia.
  rewrite IH by lia. reflexivity.
Qed.

Lemma update_nth_ext_at {A} n (f g : A -> A) l d :
  f (nth n l d) = g (nth n l d) -> update_nth n f l = update_nth n g l.
Proof.
  revert n. induction l as [|x l IH]; intros [|n] H; cbn [update_nth nth] in *; try reflexivity.
  - now rewrite H.
  - now rewrite (IH n H).
Qed.

Lemma update_nth_fix {A} n (f : A -> A) l d : f (nth n l d) = nth n l d -> update_nth n f l = l.
Proof.
  intros H. rewrite (update_nth_ext_at n f (fun x => x) l d H). apply update_nth_id.
Qed.

Lemma firstn_update_nth {A} n (f : A -> A) l : firstn n (update_nth n f l) = firstn n l.
Proof.
  revert n. induction l as [|x l IH]; intros [|n]; cbn [update_nth firstn]; try reflexivity.
  now rewrite IH.
Qed.

Lemma frame_in_range ss k p : In p (sc_get_scope ss k) -> (k < length ss)%nat.
Proof.
  unfold sc_get_scope. intros Hin. destruct (Nat.lt_ge_cases k (length ss)) as [H|H]; [exact H|].
  rewrite nth_overflow in Hin by exact H. destruct Hin.
Qed.

Lemma frame_update_same ss L f :
  (L < length ss)%nat -> sc_get_scope (update_nth L f ss) L = f (sc_get_scope ss L).
Proof. intros H. unfold sc_get_scope. now apply nth_update_nth_same. Qed.

Lemma frame_update_other ss L f k : k <> L -> sc_get_scope (update_nth L f ss) k = sc_get_scope ss k.
Proof. intros H. unfold sc_get_scope. apply nth_update_nth_other. congruence. Qed.

Lemma sc_current_update ss L f : sc_current (update_nth L f ss) = sc_current ss.
Proof. unfold sc_current. now rewrite length_update_nth. Qed.

(* entries after a store / a removal *)
Lemma ent_put_same ss L n x : (L < length ss)%nat -> ent (sc_put ss L n x) L n = Some x.
Proof. intros H. unfold ent, sc_put. rewrite frame_update_same by exact H. apply assoc_get_set_same. Qed.

Lemma ent_put_other_level ss L n x k n' : k <> L -> ent (sc_put ss L n x) k n' = ent ss k n'.
Proof. intros H. unfold ent, sc_put. now rewrite frame_update_other. Qed.

Lemma ent_put_other_name ss L n x k n' : n <> n' -> ent (sc_put ss L n x) k n' = ent ss k n'.
Proof.
  intros H. unfold ent, sc_put. destruct (Nat.eq_dec k L) as [->|Hk].
  - destruct (Nat.lt_ge_cases L (length ss)) as [Hl|Hl].
    + rewrite frame_update_same by exact Hl. now apply assoc_get_set_other.
    + now rewrite update_nth_oob.
  - now rewrite frame_update_other.
Qed.

Lemma In_put ss L n x k n' y :
  In (n', y) (sc_get_scope (sc_put ss L n x) k) ->
  (k = L /\ n' = n /\ y = x) \/ In (n', y) (sc_get_scope ss k).
Proof.
  unfold sc_put. destruct (Nat.eq_dec k L) as [->|Hk].
  - destruct (Nat.lt_ge_cases L (length ss)) as [Hl|Hl].
    + rewrite frame_update_same by exact Hl. intros Hin.
      destruct (In_assoc_set _ _ _ _ _ Hin) as [[-> ->]|H]; [now left|now right].
    + rewrite update_nth_oob by exact Hl. now right.
  - rewrite frame_update_other by exact Hk. now right.
Qed.

Lemma In_del ss L n k p : In p (sc_get_scope (sc_del ss L n) k) -> In p (sc_get_scope ss k).
Proof.
  unfold sc_del. destruct (Nat.eq_dec k L) as [->|Hk].
  - destruct (Nat.lt_ge_cases L (length ss)) as [Hl|Hl].
    + rewrite frame_update_same by exact Hl. apply In_assoc_remove.
    + now rewrite update_nth_oob.
  - now rewrite frame_update_other.
Qed.

Lemma ent_del_other_level ss L n k n' : k <> L -> ent (sc_del ss L n) k n' = ent ss k n'.
Proof. intros H. unfold ent, sc_del. now rewrite frame_update_other. Qed.

Lemma ent_del_other_name ss L n k n' : n <> n' -> ent (sc_del ss L n) k n' = ent ss k n'.
Proof.
  intros H. unfold ent, sc_del. destruct (Nat.eq_dec k L) as [->|Hk].
  - destruct (Nat.lt_ge_cases L (length ss)) as [Hl|Hl].
    + rewrite frame_update_same by exact Hl. now apply assoc_get_remove_other.
    + now rewrite update_nth_oob.
  - now rewrite frame_update_other.
Qed.

Lemma sc_del_absent ss L n : ent ss L n = None -> sc_del ss L n = ss.
Proof.
  intros H. unfold sc_del. apply update_nth_fix with (d := []).
  apply assoc_remove_absent. exact H.
Qed.

(* ---------- lookups depend only on the entries of the name looked up ---------- *)

Lemma sc_var_ext ss ss' n :
  (forall k, ent ss' k n = ent ss k n) ->
  forall f k, sc_var f ss' k n = sc_var f ss k n.
Proof.
  intros Hent. induction f as [|f IH]; intros k; cbn [sc_var]; [reflexivity|].
  change (assoc_get n (sc_get_scope ss' k)) with (ent ss' k n).
  change (assoc_get n (sc_get_scope ss k)) with (ent ss k n).
  rewrite Hent. destruct (ent ss k n) as [[v|m|l|]|]; try reflexivity. apply IH.
Qed.

Lemma sc_resolve_ext ss ss' n :
  (forall k, ent ss' k n = ent ss k n) ->
  forall f k, sc_resolve f ss' k n = sc_resolve f ss k n.
Proof.
  intros Hent. induction f as [|f IH]; intros k; cbn [sc_resolve]; [reflexivity|].
  change (assoc_get n (sc_get_scope ss' k)) with (ent ss' k n).
  change (assoc_get n (sc_get_scope ss k)) with (ent ss k n).
  rewrite Hent. destruct (ent ss k n) as [[v|m|l|]|]; try reflexivity. apply IH.
Qed.

Lemma sc_lookup_ext ss ss' n :
  length ss' = length ss -> (forall k, ent ss' k n = ent ss k n) -> sc_lookup ss' n = sc_lookup ss n.
Proof.
  intros Hlen Hent. unfold sc_lookup, sc_current. rewrite Hlen. now apply sc_var_ext.
Qed.

Lemma sc_target_ext ss ss' n :
  length ss' = length ss -> (forall k, ent ss' k n = ent ss k n) -> sc_target ss' n = sc_target ss n.
Proof.
  intros Hlen Hent. unfold sc_target, sc_current. rewrite Hlen. now apply sc_resolve_ext.
Qed.

(* ---------- under the invariant a link is followed at most once ---------- *)

Lemma inv_entry ss k n x : scope_inv ss -> ent ss k n = Some x -> entry_ok ss k n x.
Proof. intros (_ & _ & Hok) H. apply Hok. now apply assoc_get_In. Qed.

Lemma inv_link ss k n l :
  scope_inv ss -> ent ss k n = Some (VarUpvar l) ->
  (l < k)%nat /\ forall l2, ent ss l n <> Some (VarUpvar l2).
Proof.
  intros Hinv H. destruct (inv_entry _ _ _ _ Hinv H) as [Hlt Htgt]. split; [exact Hlt|].
  intros l2 H2. apply assoc_get_In in H2. specialize (Htgt _ H2). discriminate.
Qed.

Lemma sc_target_spec ss n : scope_inv ss -> sc_target ss n = spec_target ss n.
Proof.
  intros Hinv. unfold sc_target, spec_target. remember (sc_current ss) as cur eqn:Hcur.
  cbn [sc_resolve]. change (assoc_get n (sc_get_scope ss cur)) with (ent ss cur n).
  destruct (ent ss cur n) as [[v|m|l|]|] eqn:E; try reflexivity.
  destruct (inv_link _ _ _ _ Hinv E) as [Hlt Hno].
  destruct cur as [|c]; [lia|]. cbn [sc_resolve].
  change (assoc_get n (sc_get_scope ss l)) with (ent ss l n).
  destruct (ent ss l n) as [[v|m|l2|]|] eqn:E2; try reflexivity. now elim (Hno l2).
Qed.

Lemma sc_lookup_spec ss n : scope_inv ss -> sc_lookup ss n = spec_lookup ss n.
Proof.
  intros Hinv. unfold sc_lookup, spec_lookup. remember (sc_current ss) as cur eqn:Hcur.
  cbn [sc_var]. change (assoc_get n (sc_get_scope ss cur)) with (ent ss cur n).
  destruct (ent ss cur n) as [[v|m|l|]|] eqn:E; try reflexivity.
  destruct (inv_link _ _ _ _ Hinv E) as [Hlt Hno].
  destruct cur as [|c]; [lia|]. cbn [sc_var].
  change (assoc_get n (sc_get_scope ss l)) with (ent ss l n).
  destruct (ent ss l n) as [[v|m|l2|]|] eqn:E2; try reflexivity. now elim (Hno l2).
Qed.

(* what is known about the place a name resolves to *)
Lemma target_facts ss n :
  scope_inv ss ->
  let L := sc_target ss n in
  (L < length ss)%nat /\
  sc_lookup ss n = ent ss L n /\
  (forall l, ent ss L n <> Some (VarUpvar l)) /\
  ent ss L n <> Some VarNew /\
  ((L = sc_current ss /\ unlinked ss n) \/
   (ent ss (sc_current ss) n = Some (VarUpvar L) /\ (L < sc_current ss)%nat)).
Proof.
  intros Hinv L. subst L. rewrite sc_target_spec, sc_lookup_spec by exact Hinv.
  unfold spec_target, spec_lookup.
  assert (sc_current ss < length ss)%nat as Hcur by (apply sc_current_lt; apply Hinv).
  assert (forall k, ent ss k n <> Some VarNew) as Hnew.
  { intros k H. exact (inv_entry _ _ _ _ Hinv H). }
  destruct (ent ss (sc_current ss) n) as [[v|m|l|]|] eqn:E.
  - rewrite E. repeat split; try exact Hcur; try discriminate. left. split; [reflexivity|].
    unfold unlinked. intros l. rewrite E. discriminate.
  - rewrite E. repeat split; try exact Hcur; try discriminate. left. split; [reflexivity|].
    unfold unlinked. intros l. rewrite E. discriminate.
  - destruct (inv_link _ _ _ _ Hinv E) as [Hlt Hno]. repeat split; try lia; try exact Hno; try apply Hnew.
    right. split; [reflexivity|exact Hlt].
  - now elim (Hnew (sc_current ss)).
  - rewrite E. repeat split; try exact Hcur; try discriminate. left. split; [reflexivity|].
    unfold unlinked. intros l. rewrite E. discriminate.
Qed.

(* a name that is not linked resolves to the current frame, invariant or not *)
Lemma unlinked_target ss n : unlinked ss n -> sc_target ss n = sc_current ss.
Proof.
  intros Hun. unfold sc_target. cbn [sc_resolve].
  change (assoc_get n (sc_get_scope ss (sc_current ss))) with (ent ss (sc_current ss) n).
  destruct (ent ss (sc_current ss) n) as [[v|m|l|]|] eqn:E; try reflexivity. now elim (Hun l).
Qed.

Lemma shape_of_lookup ss n :
  scope_inv ss ->
  match shape_of ss n with
  | Unset => sc_lookup ss n = None
  | Scalar v => sc_lookup ss n = Some (VarScalar v)
  | Array m => sc_lookup ss n = Some (VarArray m)
  end.
Proof.
  intros Hinv. unfold shape_of.
  destruct (target_facts ss n Hinv) as (_ & Hlk & Hnoup & Hnonew & _).
  destruct (sc_lookup ss n) as [[v|m|l|]|] eqn:E; try reflexivity.
  - now elim (Hnoup l).
  - now elim Hnonew.
Qed.

(* ====================================================================== *)
(* (a) every operation preserves the invariant                            *)
(* ====================================================================== *)

Lemma NoDup_frame_update ss L f k :
  (forall sc, NoDup (map fst sc) -> NoDup (map fst (f sc))) ->
  NoDup (map fst (sc_get_scope ss k)) -> NoDup (map fst (sc_get_scope (update_nth L f ss) k)).
Proof.
  intros Hf Hnd. destruct (Nat.eq_dec k L) as [->|Hk].
  - destruct (Nat.lt_ge_cases L (length ss)) as [Hl|Hl].
    + rewrite frame_update_same by exact Hl. now apply Hf.
    + now rewrite update_nth_oob.
  - now rewrite frame_update_other.
Qed.

Lemma nonempty_update ss L (f : scope -> scope) : ss <> [] -> update_nth L f ss <> [].
Proof.
  intros Hne Heq. apply (f_equal (@length _)) in Heq. rewrite length_update_nth in Heq.
  destruct ss; [contradiction|discriminate].
Qed.

(* storing something that is neither a link nor the placeholder, anywhere *)
Lemma inv_put_plain ss L n x :
  scope_inv ss -> is_upvar x = false -> x <> VarNew -> scope_inv (sc_put ss L n x).
Proof.
  intros (Hne & Hnd & Hok) Hup Hnew. unfold scope_inv. split; [|split].
  - now apply nonempty_update.
  - intros k. apply NoDup_frame_update; [|apply Hnd]. intros sc. apply NoDup_assoc_set.
  - intros k n' y Hin.
    assert (forall l z, In (n', z) (sc_get_scope (sc_put ss L n x) l) ->
                        (forall y0, In (n', y0) (sc_get_scope ss l) -> is_upvar y0 = false) ->
                        is_upvar z = false) as Htgt.
    { intros l z Hz Hold. destruct (In_put _ _ _ _ _ _ _ Hz) as [(_ & _ & ->)|Hz']; [exact Hup|now apply Hold]. }
    destruct (In_put _ _ _ _ _ _ _ Hin) as [(-> & -> & ->)|Hin'].
    + destruct x; try exact I; [discriminate|contradiction].
    + specialize (Hok _ _ _ Hin'). destruct y as [v|m|l|]; try exact Hok.
      destruct Hok as [Hlt Hold]. split; [exact Hlt|]. intros z Hz. exact (Htgt l z Hz Hold).
Qed.

Lemma inv_del ss L n : scope_inv ss -> scope_inv (sc_del ss L n).
Proof.
  intros (Hne & Hnd & Hok). unfold scope_inv. split; [|split].
  - now apply nonempty_update.
  - intros k. apply NoDup_frame_update; [|apply Hnd]. intros sc. apply NoDup_assoc_remove.
  - intros k n' y Hin. apply In_del in Hin. specialize (Hok _ _ _ Hin).
    destruct y as [v|m|l|]; try exact Hok. destruct Hok as [Hlt Hold]. split; [exact Hlt|].
    intros z Hz. apply In_del in Hz. now apply Hold.
Qed.

Lemma sc_set_at_shape ss L n v :
  sc_set_at ss L n v = (ss, snd (sc_set_at ss L n v)) \/
  sc_set_at ss L n v = (sc_put ss L n (VarScalar v), Ok tt).
Proof. unfold sc_set_at. destruct (assoc_get n (sc_get_scope ss L)) as [[w|m|l|]|]; auto. Qed.

Theorem sc_set_inv ss n v : scope_inv ss -> scope_inv (fst (sc_set ss n v)).
Proof.
  intros Hinv. unfold sc_set. destruct (sc_set_at_shape ss (sc_target ss n) n v) as [H|H]; rewrite H; cbn [fst].
  - exact Hinv.
  - apply inv_put_plain; [exact Hinv|reflexivity|discriminate].
Qed.

Theorem sc_set_global_inv ss n v : scope_inv ss -> scope_inv (fst (sc_set_global ss n v)).
Proof.
  intros Hinv. unfold sc_set_global. destruct (sc_set_at_shape ss O n v) as [H|H]; rewrite H; cbn [fst].
  - exact Hinv.
  - apply inv_put_plain; [exact Hinv|reflexivity|discriminate].
Qed.

Theorem sc_set_elem_inv ss n i v : scope_inv ss -> scope_inv (fst (sc_set_elem ss n i v)).
Proof.
  intros Hinv. unfold sc_set_elem.
  destruct (assoc_get n (sc_get_scope ss (sc_target ss n))) as [[w|m|l|]|]; cbn [fst]; try exact Hinv;
    (apply inv_put_plain; [exact Hinv|reflexivity|discriminate]).
Qed.

Theorem sc_array_set_inv ss n kv : scope_inv ss -> scope_inv (fst (sc_array_set ss n kv)).
Proof.
  intros Hinv. unfold sc_array_set.
  destruct (assoc_get n (sc_get_scope ss (sc_target ss n))) as [[w|m|l|]|]; cbn [fst]; try exact Hinv;
    (apply inv_put_plain; [exact Hinv|reflexivity|discriminate]).
Qed.

Theorem sc_unset_element_inv ss n i : scope_inv ss -> scope_inv (sc_unset_element ss n i).
Proof.
  intros Hinv. unfold sc_unset_element.
  destruct (assoc_get n (sc_get_scope ss (sc_target ss n))) as [[w|m|l|]|]; try exact Hinv.
  apply inv_put_plain; [exact Hinv|reflexivity|discriminate].
Qed.

(* unset_at removes entries only, whatever the fuel, the level and the flag *)
Lemma sc_unset_at_inv f : forall ss k n b, scope_inv ss -> scope_inv (sc_unset_at f ss k n b).
Proof.
  induction f as [|f IH]; intros ss k n b Hinv; cbn [sc_unset_at]; [exact Hinv|].
  set (ss1 := match assoc_get n (sc_get_scope ss k) with
              | Some (VarUpvar at_) => sc_unset_at f ss at_ n b
              | _ => ss
              end).
  assert (scope_inv ss1) as H1.
  { subst ss1. destruct (assoc_get n (sc_get_scope ss k)) as [[w|m|l|]|]; try exact Hinv. now apply IH. }
  destruct b.
  - destruct (assoc_get n (sc_get_scope ss1 k)) as [[w|m|l|]|]; try exact H1. now apply inv_del.
  - now apply inv_del.
Qed.

Theorem sc_unset_inv ss n : scope_inv ss -> scope_inv (sc_unset ss n).
Proof. apply sc_unset_at_inv. Qed.

Theorem sc_array_unset_inv ss n : scope_inv ss -> scope_inv (sc_array_unset ss n).
Proof. apply sc_unset_at_inv. Qed.

(* a link to a lower frame whose entry for the name is not itself a link *)
Theorem sc_upvar_inv ss lvl n :
  scope_inv ss -> (lvl < sc_current ss)%nat ->
  (forall l2, ent ss lvl n <> Some (VarUpvar l2)) ->
  scope_inv (sc_upvar ss lvl n).
Proof.
  intros Hinv Hlt Htgt. pose proof Hinv as (Hne & Hnd & Hok). unfold sc_upvar, scope_inv. split; [|split].
  - now apply nonempty_update.
  - intros k. apply NoDup_frame_update; [|apply Hnd]. intros sc. apply NoDup_assoc_set.
  - intros k n' y Hin.
    assert (forall l, (l < sc_current ss)%nat ->
              sc_get_scope (sc_put ss (sc_current ss) n (VarUpvar lvl)) l = sc_get_scope ss l) as Hlow.
    { intros l Hl. unfold sc_put. apply frame_update_other. lia. }
    destruct (In_put _ _ _ _ _ _ _ Hin) as [(-> & -> & ->)|Hin'].
    + cbn [entry_ok]. split; [exact Hlt|]. intros z Hz. rewrite Hlow in Hz by exact Hlt.
      destruct z as [w|m|l2|]; try reflexivity. exfalso. apply (Htgt l2).
      apply In_assoc_get; [apply Hnd|exact Hz].
    + pose proof (frame_in_range _ _ _ Hin') as Hk.
      specialize (Hok _ _ _ Hin'). destruct y as [w|m|l|]; try exact Hok.
      destruct Hok as [Hl Hold]. split; [exact Hl|]. intros z Hz.
      rewrite Hlow in Hz; [now apply Hold|]. unfold sc_current. lia.
Qed.

(* the way cmd_global uses it: level 0, from inside a procedure *)
Theorem sc_upvar_global_inv ss n :
  scope_inv ss -> (0 < sc_current ss)%nat -> scope_inv (sc_upvar ss 0 n).
Proof.
  intros Hinv Hlt. apply sc_upvar_inv; [exact Hinv|exact Hlt|].
  intros l2 H. destruct (inv_link _ _ _ _ Hinv H) as [H0 _]. lia.
Qed.

Theorem sc_push_inv ss : scope_inv ss -> scope_inv (sc_push ss).
Proof.
  intros (Hne & Hnd & Hok). unfold sc_push.
  assert (forall k, (k < length ss)%nat -> sc_get_scope (ss ++ [[]]) k = sc_get_scope ss k) as Hlow.
  { intros k Hk. unfold sc_get_scope. now apply app_nth1. }
  assert (forall k, (length ss <= k)%nat -> sc_get_scope (ss ++ [[]]) k = []) as Hhigh.
  { intros k Hk. unfold sc_get_scope. rewrite app_nth2 by lia.
    destruct (k - length ss)%nat as [|[|j]]; reflexivity. }
  unfold scope_inv. split; [|split].
  - now destruct ss.
  - intros k. destruct (Nat.lt_ge_cases k (length ss)) as [Hk|Hk].
    + rewrite Hlow by exact Hk. apply Hnd.
    + rewrite Hhigh by exact Hk. constructor.
  - intros k n y Hin. destruct (Nat.lt_ge_cases k (length ss)) as [Hk|Hk].
    + rewrite Hlow in Hin by exact Hk. specialize (Hok _ _ _ Hin).
      destruct y as [w|m|l|]; try exact Hok. destruct Hok as [Hl Hold]. split; [exact Hl|].
      intros z Hz. rewrite Hlow in Hz by lia. now apply Hold.
    + rewrite Hhigh in Hin by exact Hk. destruct Hin.
Qed.

Lemma nth_removelast {A} (l : list A) k d :
  (k < pred (length l))%nat -> nth k (removelast l) d = nth k l d.
Proof.
  revert k. induction l as [|x l IH]; intros k Hk; [cbn in Hk; lia|].
  destruct l as [|y l]; [cbn in Hk; lia|].
  change (removelast (x :: y :: l)) with (x :: removelast (y :: l)).
  destruct k as [|k]; [reflexivity|]. cbn [nth]. apply IH. cbn [length pred] in *. lia.
Qed.

Lemma length_removelast {A} (l : list A) : length (removelast l) = pred (length l).
Proof.
  induction l as [|x l IH]; [reflexivity|]. destruct l as [|y l]; [reflexivity|].
  change (removelast (x :: y :: l)) with (x :: removelast (y :: l)). cbn [length] in *. now rewrite IH.
Qed.

(* leaving a procedure: the global frame is never popped *)
Theorem sc_pop_inv ss : scope_inv ss -> (2 <= length ss)%nat -> scope_inv (sc_pop ss).
Proof.
  intros (Hne & Hnd & Hok) Hlen. unfold sc_pop.
  assert (forall k, (k < pred (length ss))%nat -> sc_get_scope (removelast ss) k = sc_get_scope ss k) as Hlow.
  { intros k Hk. unfold sc_get_scope. now apply nth_removelast. }
  assert (forall k, (pred (length ss) <= k)%nat -> sc_get_scope (removelast ss) k = []) as Hhigh.
  { intros k Hk. unfold sc_get_scope. apply nth_overflow. now rewrite length_removelast. }
  unfold scope_inv. split; [|split].
  - intros Heq. apply (f_equal (@length _)) in Heq. rewrite length_removelast in Heq. cbn [length] in Heq. lia.
  - intros k. destruct (Nat.lt_ge_cases k (pred (length ss))) as [Hk|Hk].
    + rewrite Hlow by exact Hk. apply Hnd.
    + rewrite Hhigh by exact Hk. constructor.
  - intros k n y Hin. destruct (Nat.lt_ge_cases k (pred (length ss))) as [Hk|Hk].
    + rewrite Hlow in Hin by exact Hk. specialize (Hok _ _ _ Hin).
      destruct y as [w|m|l|]; try exact Hok. destruct Hok as [Hl Hold]. split; [exact Hl|].
      intros z Hz. rewrite Hlow in Hz by lia. now apply Hold.
    + rewrite Hhigh in Hin by exact Hk. destruct Hin.
Qed.

(* the initial stack *)
Lemma scope_inv_init : scope_inv [[]].
Proof.
  unfold scope_inv. split; [discriminate|]. split.
  - intros [|[|k]]; constructor.
  - intros [|[|k]] n x [].
Qed.

Lemma sc_current_upvar ss l n : sc_current (sc_upvar ss l n) = sc_current ss.
Proof. unfold sc_upvar, sc_put. apply sc_current_update. Qed.

(* all the links one [global] command creates *)
Theorem sc_upvar_global_fold_inv (names : list value) ss :
  scope_inv ss -> (0 < sc_current ss)%nat ->
  scope_inv (fold_left (fun ss n => sc_upvar ss O (as_str n)) names ss).
Proof.
  revert ss. induction names as [|a r IH]; intros ss Hinv Hlt; cbn [fold_left]; [exact Hinv|].
  apply IH; [now apply sc_upvar_global_inv|now rewrite sc_current_upvar].
Qed.

(* ====================================================================== *)
(* (b) one shape at a time                                                *)
(* ====================================================================== *)

(* errors never change the stack (no invariant needed) *)
Theorem sc_set_error_unchanged ss n v ss' e : sc_set ss n v = (ss', Err e) -> ss' = ss.
Proof.
  unfold sc_set, sc_set_at. destruct (assoc_get n (sc_get_scope ss (sc_target ss n))) as [[w|m|l|]|];
    intros H; inversion H; reflexivity.
Qed.

Theorem sc_set_elem_error_unchanged ss n i v ss' e : sc_set_elem ss n i v = (ss', Err e) -> ss' = ss.
Proof.
  unfold sc_set_elem. destruct (assoc_get n (sc_get_scope ss (sc_target ss n))) as [[w|m|l|]|];
    intros H; inversion H; reflexivity.
Qed.

Theorem sc_array_set_error_unchanged ss n kv ss' e : sc_array_set ss n kv = (ss', Err e) -> ss' = ss.
Proof.
  unfold sc_array_set. destruct (assoc_get n (sc_get_scope ss (sc_target ss n))) as [[w|m|l|]|];
    intros H; inversion H; reflexivity.
Qed.

(* the entry at the resolved place, from the shape *)
Lemma shape_entry ss n :
  scope_inv ss ->
  match shape_of ss n with
  | Unset => ent ss (sc_target ss n) n = None
  | Scalar v => ent ss (sc_target ss n) n = Some (VarScalar v)
  | Array m => ent ss (sc_target ss n) n = Some (VarArray m)
  end.
Proof.
  intros Hinv. pose proof (shape_of_lookup ss n Hinv) as H.
  destruct (target_facts ss n Hinv) as (_ & Hlk & _). rewrite Hlk in H. exact H.
Qed.

(* reading back what was stored at the resolved place *)
Lemma lookup_put_same ss n x :
  scope_inv ss -> is_upvar x = false -> x <> VarNew ->
  sc_lookup (sc_put ss (sc_target ss n) n x) n = Some x.
Proof.
  intros Hinv Hup Hnew.
  pose proof (inv_put_plain ss (sc_target ss n) n x Hinv Hup Hnew) as Hinv'.
  destruct (target_facts ss n Hinv) as (HL & _ & _ & _ & Hcase).
  rewrite (sc_lookup_spec _ _ Hinv'). unfold spec_lookup, sc_put. rewrite sc_current_update. fold (sc_put ss (sc_target ss n) n x).
  destruct Hcase as [[HLc _]|[Hlink Hlt]].
  - rewrite <- HLc. rewrite ent_put_same by exact HL. destruct x; try reflexivity; discriminate.
  - rewrite ent_put_other_level by lia. rewrite Hlink. now apply ent_put_same.
Qed.

Lemma lookup_put_other ss L n x n' : n <> n' -> sc_lookup (sc_put ss L n x) n' = sc_lookup ss n'.
Proof.
  intros Hne. apply sc_lookup_ext.
  - unfold sc_put. apply length_update_nth.
  - intros k. now apply ent_put_other_name.
Qed.

Lemma lookup_del_other ss L n n' : n <> n' -> sc_lookup (sc_del ss L n) n' = sc_lookup ss n'.
Proof.
  intros Hne. apply sc_lookup_ext.
  - unfold sc_del. apply length_update_nth.
  - intros k. now apply ent_del_other_name.
Qed.

(* --- sc_set --- *)
Theorem sc_set_on_array ss n v m :
  scope_inv ss -> shape_of ss n = Array m ->
  sc_set ss n v = (ss, err (lit "can't set """ ++ n ++ lit """: variable is array")).
Proof.
  intros Hinv Hsh. pose proof (shape_entry ss n Hinv) as He. rewrite Hsh in He.
  unfold sc_set, sc_set_at. fold (ent ss (sc_target ss n) n). now rewrite He.
Qed.

Theorem sc_set_on_unset_or_scalar ss n v :
  scope_inv ss -> (forall m, shape_of ss n <> Array m) ->
  sc_set ss n v = (sc_put ss (sc_target ss n) n (VarScalar v), Ok tt) /\
  shape_of (sc_put ss (sc_target ss n) n (VarScalar v)) n = Scalar v.
Proof.
  intros Hinv Hsh. pose proof (shape_entry ss n Hinv) as He. split.
  - unfold sc_set, sc_set_at. fold (ent ss (sc_target ss n) n).
    destruct (shape_of ss n) as [|w|m]; rewrite He; try reflexivity. now elim (Hsh m).
  - unfold shape_of. rewrite lookup_put_same; [reflexivity|exact Hinv|reflexivity|discriminate].
Qed.

Corollary sc_set_creates_scalar ss n v :
  scope_inv ss -> shape_of ss n = Unset ->
  exists ss', sc_set ss n v = (ss', Ok tt) /\ shape_of ss' n = Scalar v.
Proof.
  intros Hinv Hsh. eexists. apply sc_set_on_unset_or_scalar; [exact Hinv|]. intros m. rewrite Hsh. discriminate.
Qed.

(* --- sc_set_elem --- *)
Theorem sc_set_elem_on_scalar ss n i v w :
  scope_inv ss -> shape_of ss n = Scalar w ->
  sc_set_elem ss n i v
  = (ss, err (lit "can't set """ ++ n ++ lit "(" ++ i ++ lit ")"": variable isn't array")).
Proof.
  intros Hinv Hsh. pose proof (shape_entry ss n Hinv) as He. rewrite Hsh in He.
  unfold sc_set_elem. fold (ent ss (sc_target ss n) n). now rewrite He.
Qed.

Theorem sc_set_elem_on_unset ss n i v :
  scope_inv ss -> shape_of ss n = Unset ->
  sc_set_elem ss n i v = (sc_put ss (sc_target ss n) n (VarArray [(i, v)]), Ok tt) /\
  shape_of (sc_put ss (sc_target ss n) n (VarArray [(i, v)])) n = Array [(i, v)].
Proof.
  intros Hinv Hsh. pose proof (shape_entry ss n Hinv) as He. rewrite Hsh in He. split.
  - unfold sc_set_elem. fold (ent ss (sc_target ss n) n). now rewrite He.
  - unfold shape_of. rewrite lookup_put_same; [reflexivity|exact Hinv|reflexivity|discriminate].
Qed.

Theorem sc_set_elem_on_array ss n i v m :
  scope_inv ss -> shape_of ss n = Array m ->
  sc_set_elem ss n i v = (sc_put ss (sc_target ss n) n (VarArray (assoc_set i v m)), Ok tt) /\
  shape_of (sc_put ss (sc_target ss n) n (VarArray (assoc_set i v m))) n = Array (assoc_set i v m).
Proof.
  intros Hinv Hsh. pose proof (shape_entry ss n Hinv) as He. rewrite Hsh in He. split.
  - unfold sc_set_elem. fold (ent ss (sc_target ss n) n). now rewrite He.
  - unfold shape_of. rewrite lookup_put_same; [reflexivity|exact Hinv|reflexivity|discriminate].
Qed.

(* --- sc_array_set --- *)
Theorem sc_array_set_on_scalar ss n kv w :
  scope_inv ss -> shape_of ss n = Scalar w ->
  sc_array_set ss n kv = (ss, err (lit "can't array set """ ++ n ++ lit """: variable isn't array")).
Proof.
  intros Hinv Hsh. pose proof (shape_entry ss n Hinv) as He. rewrite Hsh in He.
  unfold sc_array_set. fold (ent ss (sc_target ss n) n). now rewrite He.
Qed.

Theorem sc_array_set_on_unset_or_array ss n kv :
  scope_inv ss -> (forall w, shape_of ss n <> Scalar w) ->
  let m0 := match shape_of ss n with Array m => m | _ => [] end in
  sc_array_set ss n kv = (sc_put ss (sc_target ss n) n (VarArray (insert_kvlist m0 kv)), Ok tt) /\
  shape_of (sc_put ss (sc_target ss n) n (VarArray (insert_kvlist m0 kv))) n = Array (insert_kvlist m0 kv).
Proof.
  intros Hinv Hsh m0. pose proof (shape_entry ss n Hinv) as He. split.
  - unfold sc_array_set. fold (ent ss (sc_target ss n) n). subst m0.
    destruct (shape_of ss n) as [|w|m]; rewrite He; try reflexivity. now elim (Hsh w).
  - unfold shape_of. rewrite lookup_put_same; [reflexivity|exact Hinv|reflexivity|discriminate].
Qed.

(* --- reads --- *)
Theorem sc_get_by_shape ss n :
  scope_inv ss ->
  sc_get ss n = match shape_of ss n with
                | Scalar v => Ok v
                | Array _ => err (lit "can't read """ ++ n ++ lit """: variable is array")
                | Unset => err (lit "can't read """ ++ n ++ lit """: no such variable")
                end.
Proof.
  intros Hinv. pose proof (shape_of_lookup ss n Hinv) as H. unfold sc_get.
  destruct (shape_of ss n); now rewrite H.
Qed.

Theorem sc_get_elem_by_shape ss n i :
  scope_inv ss ->
  sc_get_elem ss n i
  = match shape_of ss n with
    | Scalar _ => err (lit "can't read """ ++ n ++ lit "(" ++ i ++ lit ")"": variable isn't array")
    | Array m =>
        match assoc_get i m with
        | Some v => Ok v
        | None => err (lit "can't read """ ++ n ++ lit "(" ++ i ++ lit ")"": no such element in array")
        end
    | Unset => err (lit "can't read """ ++ n ++ lit """: no such variable")
    end.
Proof.
  intros Hinv. pose proof (shape_of_lookup ss n Hinv) as H. unfold sc_get_elem.
  destruct (shape_of ss n); now rewrite H.
Qed.

(* the headline form of (b): the wrong-shape operations are errors and change nothing *)
Theorem one_shape ss n :
  scope_inv ss ->
  (forall m v, shape_of ss n = Array m ->
     (exists e, sc_set ss n v = (ss, Err e)) /\ (exists e, sc_get ss n = Err e)) /\
  (forall w i v kv, shape_of ss n = Scalar w ->
     (exists e, sc_set_elem ss n i v = (ss, Err e)) /\ (exists e, sc_get_elem ss n i = Err e) /\
     (exists e, sc_array_set ss n kv = (ss, Err e))) /\
  (forall i, shape_of ss n = Unset ->
     (exists e, sc_get ss n = Err e) /\ (exists e, sc_get_elem ss n i = Err e)).
Proof.
  intros Hinv. split; [|split].
  - intros m v Hsh. split.
    + eexists. now apply sc_set_on_array with (m := m).
    + rewrite sc_get_by_shape by exact Hinv. rewrite Hsh. eexists. reflexivity.
  - intros w i v kv Hsh. split; [|split].
    + eexists. now apply sc_set_elem_on_scalar with (w := w).
    + rewrite sc_get_elem_by_shape by exact Hinv. rewrite Hsh. eexists. reflexivity.
    + eexists. now apply sc_array_set_on_scalar with (w := w).
  - intros i Hsh. split.
    + rewrite sc_get_by_shape by exact Hinv. rewrite Hsh. eexists. reflexivity.
    + rewrite sc_get_elem_by_shape by exact Hinv. rewrite Hsh. eexists. reflexivity.
Qed.
Print Assumptions one_shape.

(* ====================================================================== *)
(* (c) set / get                                                          *)
(* ====================================================================== *)

Theorem sc_set_get ss n v ss' :
  scope_inv ss -> sc_set ss n v = (ss', Ok tt) ->
  scope_inv ss' /\
  sc_get ss' n = Ok v /\
  length ss' = length ss /\
  (forall n', n' <> n -> sc_lookup ss' n' = sc_lookup ss n') /\
  (forall n', n' <> n -> sc_get ss' n' = sc_get ss n') /\
  (forall n' i, n' <> n -> sc_get_elem ss' n' i = sc_get_elem ss n' i).
Proof.
  intros Hinv Hset.
  assert (forall m, shape_of ss n <> Array m) as Hsh.
  { intros m Hm. rewrite (sc_set_on_array ss n v m Hinv Hm) in Hset. discriminate. }
  destruct (sc_set_on_unset_or_scalar ss n v Hinv Hsh) as [Heq Hshape].
  rewrite Heq in Hset. injection Hset as <-.
  assert (scope_inv (sc_put ss (sc_target ss n) n (VarScalar v))) as Hinv'.
  { apply inv_put_plain; [exact Hinv|reflexivity|discriminate]. }
  assert (forall n', n' <> n -> sc_lookup (sc_put ss (sc_target ss n) n (VarScalar v)) n' = sc_lookup ss n') as Hoth.
  { intros n' Hne. apply lookup_put_other. congruence. }
  split; [exact Hinv'|]. split; [|split; [|split; [|split]]].
  - rewrite sc_get_by_shape by exact Hinv'. now rewrite Hshape.
  - unfold sc_put. apply length_update_nth.
  - exact Hoth.
  - intros n' Hne. unfold sc_get. now rewrite Hoth.
  - intros n' i Hne. unfold sc_get_elem. now rewrite Hoth.
Qed.
Print Assumptions sc_set_get.

Theorem sc_set_elem_get ss n i v ss' :
  scope_inv ss -> sc_set_elem ss n i v = (ss', Ok tt) ->
  scope_inv ss' /\
  sc_get_elem ss' n i = Ok v /\
  shape_of ss' n = Array (assoc_set i v (match shape_of ss n with Array m => m | _ => [] end)) /\
  (forall i' w, i' <> i -> sc_get_elem ss' n i' = Ok w <-> sc_get_elem ss n i' = Ok w) /\
  length ss' = length ss /\
  (forall n', n' <> n -> sc_lookup ss' n' = sc_lookup ss n').
Proof.
  intros Hinv Hset.
  assert (exists m', ss' = sc_put ss (sc_target ss n) n (VarArray (assoc_set i v m')) /\
                     shape_of ss' n = Array (assoc_set i v m') /\
                     m' = match shape_of ss n with Array m => m | _ => [] end) as (m' & Hss' & Hshape & Hm').
  { destruct (shape_of ss n) as [|w|m] eqn:Hsh.
    - destruct (sc_set_elem_on_unset ss n i v Hinv Hsh) as [Heq Hs]. rewrite Heq in Hset.
      injection Hset as <-. exists []. now repeat split.
    - rewrite (sc_set_elem_on_scalar ss n i v w Hinv Hsh) in Hset. discriminate.
    - destruct (sc_set_elem_on_array ss n i v m Hinv Hsh) as [Heq Hs]. rewrite Heq in Hset.
      injection Hset as <-. exists m. now repeat split. }
  assert (scope_inv ss') as Hinv'.
  { rewrite Hss'. apply inv_put_plain; [exact Hinv|reflexivity|discriminate]. }
  split; [exact Hinv'|]. split; [|split; [|split; [|split]]].
  - rewrite sc_get_elem_by_shape by exact Hinv'. rewrite Hshape. now rewrite assoc_get_set_same.
  - now rewrite Hshape, Hm'.
  - intros i' w Hne. rewrite !sc_get_elem_by_shape by assumption. rewrite Hshape.
    rewrite assoc_get_set_other by congruence. rewrite Hm'.
    destruct (shape_of ss n) as [|w0|m]; cbn [assoc_get]; try tauto; split; discriminate.
  - rewrite Hss'. unfold sc_put. apply length_update_nth.
  - intros n' Hne. rewrite Hss'. apply lookup_put_other. congruence.
Qed.
Print Assumptions sc_set_elem_get.

(* ====================================================================== *)
(* (d) removing what does not exist creates nothing                       *)
(* ====================================================================== *)

(* what unset does, under the invariant: it removes the variable at the place the name resolves
   to and, if the name is a link, the link as well *)
Lemma sc_unset_unlinked ss n : unlinked ss n -> sc_unset ss n = sc_del ss (sc_current ss) n.
Proof.
  intros Hun. unfold sc_unset. cbn [sc_unset_at].
  change (assoc_get n (sc_get_scope ss (sc_current ss))) with (ent ss (sc_current ss) n).
  destruct (ent ss (sc_current ss) n) as [[w|m|l|]|] eqn:E; try reflexivity. now elim (Hun l).
Qed.

Lemma sc_unset_linked ss n L :
  scope_inv ss -> ent ss (sc_current ss) n = Some (VarUpvar L) ->
  sc_unset ss n = sc_del (sc_del ss L n) (sc_current ss) n.
Proof.
  intros Hinv Hlink. destruct (inv_link _ _ _ _ Hinv Hlink) as [Hlt Hno].
  unfold sc_unset. remember (sc_current ss) as cur eqn:Hcur. cbn [sc_unset_at].
  change (assoc_get n (sc_get_scope ss cur)) with (ent ss cur n). rewrite Hlink.
  destruct cur as [|c]; [lia|]. cbn [sc_unset_at].
  change (assoc_get n (sc_get_scope ss L)) with (ent ss L n).
  destruct (ent ss L n) as [[w|m|l2|]|] eqn:E; try reflexivity. now elim (Hno l2).
Qed.

Lemma sc_array_unset_unlinked ss n :
  unlinked ss n ->
  sc_array_unset ss n = match ent ss (sc_current ss) n with
                        | Some (VarArray _) => sc_del ss (sc_current ss) n
                        | _ => ss
                        end.
Proof.
  intros Hun. unfold sc_array_unset. cbn [sc_unset_at].
  change (assoc_get n (sc_get_scope ss (sc_current ss))) with (ent ss (sc_current ss) n).
  destruct (ent ss (sc_current ss) n) as [[w|m|l|]|] eqn:E;
    try (change (assoc_get n (sc_get_scope ss (sc_current ss))) with (ent ss (sc_current ss) n);
         rewrite E; reflexivity).
  now elim (Hun l).
Qed.

Lemma sc_array_unset_linked ss n L :
  scope_inv ss -> ent ss (sc_current ss) n = Some (VarUpvar L) ->
  sc_array_unset ss n = match ent ss L n with
                        | Some (VarArray _) => sc_del ss L n
                        | _ => ss
                        end.
Proof.
  intros Hinv Hlink. destruct (inv_link _ _ _ _ Hinv Hlink) as [Hlt Hno].
  unfold sc_array_unset. remember (sc_current ss) as cur eqn:Hcur. cbn [sc_unset_at].
  change (assoc_get n (sc_get_scope ss cur)) with (ent ss cur n). rewrite Hlink.
  destruct cur as [|c]; [lia|]. cbn [sc_unset_at].
  change (assoc_get n (sc_get_scope ss L)) with (ent ss L n).
  assert (forall ss1, ent ss1 (S c) n = Some (VarUpvar L) ->
            match assoc_get n (sc_get_scope ss1 (S c)) with
            | Some (VarArray _) => sc_del ss1 (S c) n
            | _ => ss1
            end = ss1) as Houter.
  { intros ss1 H1. change (assoc_get n (sc_get_scope ss1 (S c))) with (ent ss1 (S c) n). now rewrite H1. }
  destruct (ent ss L n) as [[w|m|l2|]|] eqn:E.
  - change (assoc_get n (sc_get_scope ss L)) with (ent ss L n). rewrite E. now apply Houter.
  - change (assoc_get n (sc_get_scope ss L)) with (ent ss L n). rewrite E. apply Houter.
    rewrite ent_del_other_level by lia. exact Hlink.
  - now elim (Hno l2).
  - change (assoc_get n (sc_get_scope ss L)) with (ent ss L n). rewrite E. now apply Houter.
  - change (assoc_get n (sc_get_scope ss L)) with (ent ss L n). rewrite E. now apply Houter.
Qed.

Theorem sc_unset_element_absent ss n i :
  scope_inv ss -> (forall m, shape_of ss n <> Array m) -> sc_unset_element ss n i = ss.
Proof.
  intros Hinv Hsh. pose proof (shape_entry ss n Hinv) as He. unfold sc_unset_element.
  fold (ent ss (sc_target ss n) n).
  destruct (shape_of ss n) as [|w|m]; rewrite He; try reflexivity. now elim (Hsh m).
Qed.

Theorem sc_array_unset_absent ss n :
  scope_inv ss -> (forall m, shape_of ss n <> Array m) -> sc_array_unset ss n = ss.
Proof.
  intros Hinv Hsh. pose proof (shape_entry ss n Hinv) as He.
  destruct (target_facts ss n Hinv) as (_ & _ & _ & _ & [[HL Hun]|[Hlink Hlt]]).
  - rewrite sc_array_unset_unlinked by exact Hun. rewrite <- HL.
    destruct (shape_of ss n) as [|w|m]; rewrite He; try reflexivity. now elim (Hsh m).
  - rewrite (sc_array_unset_linked ss n _ Hinv Hlink).
    destruct (shape_of ss n) as [|w|m]; rewrite He; try reflexivity. now elim (Hsh m).
Qed.

Lemma vars_in_scope_del ss L n : incl (sc_vars_in_scope (sc_del ss L n)) (sc_vars_in_scope ss).
Proof.
  unfold sc_vars_in_scope, sc_del. rewrite sc_current_update. fold (sc_del ss L n).
  intros k Hk. apply in_map_iff in Hk. destruct Hk as [p [Hp Hin]]. apply In_del in Hin.
  apply in_map_iff. now exists p.
Qed.

(* unsetting a name that has no value: nothing is created and nothing visible changes.  The
   stack is literally unchanged unless the name is a dangling link (global x, never set), in
   which case that link, and only it, is dropped from the current frame. *)
Theorem sc_unset_absent ss n :
  scope_inv ss -> shape_of ss n = Unset ->
  sc_unset ss n = sc_del ss (sc_current ss) n /\
  (unlinked ss n -> sc_unset ss n = ss) /\
  (forall n', sc_lookup (sc_unset ss n) n' = sc_lookup ss n') /\
  incl (sc_vars_in_scope (sc_unset ss n)) (sc_vars_in_scope ss) /\
  (forall k p, In p (sc_get_scope (sc_unset ss n) k) -> In p (sc_get_scope ss k)).
Proof.
  intros Hinv Hsh. pose proof (shape_entry ss n Hinv) as He. rewrite Hsh in He.
  pose proof (shape_of_lookup ss n Hinv) as Hlk. rewrite Hsh in Hlk.
  assert (sc_unset ss n = sc_del ss (sc_current ss) n) as Heq.
  { destruct (target_facts ss n Hinv) as (_ & _ & _ & _ & [[HL Hun]|[Hlink Hlt]]).
    - now apply sc_unset_unlinked.
    - rewrite (sc_unset_linked ss n _ Hinv Hlink). now rewrite (sc_del_absent ss _ n He). }
  split; [exact Heq|]. split; [|split; [|split]].
  - intros Hun. rewrite Heq. apply sc_del_absent. rewrite <- (unlinked_target ss n Hun). exact He.
  - intros n'. rewrite Heq. destruct (list_eq_dec N.eq_dec n n') as [<-|Hne].
    + rewrite Hlk. pose proof (inv_del ss (sc_current ss) n Hinv) as Hinv'.
      rewrite (sc_lookup_spec _ _ Hinv'). unfold spec_lookup, sc_del. rewrite sc_current_update.
      unfold ent. destruct (Nat.lt_ge_cases (sc_current ss) (length ss)) as [Hl|Hl].
      * rewrite frame_update_same by exact Hl. rewrite assoc_get_remove_same; [reflexivity|apply Hinv].
      * exfalso. pose proof (sc_current_lt ss (proj1 Hinv)). lia.
    + now apply lookup_del_other.
  - rewrite Heq. apply vars_in_scope_del.
  - intros k p. rewrite Heq. apply In_del.
Qed.
Print Assumptions sc_unset_absent.

(* and what was there is gone *)
Theorem sc_unset_shape ss n : scope_inv ss -> shape_of (sc_unset ss n) n = Unset.
Proof.
  intros Hinv. pose proof (sc_unset_inv ss n Hinv) as Hinv'.
  assert (ent (sc_unset ss n) (sc_current ss) n = None) as Hnone.
  { assert (forall ss1, scope_inv ss1 -> length ss1 = length ss ->
                        ent (sc_del ss1 (sc_current ss) n) (sc_current ss) n = None) as Hdel.
    { intros ss1 H1 Hlen. unfold ent, sc_del. rewrite frame_update_same.
      - apply assoc_get_remove_same. apply H1.
      - rewrite Hlen. apply sc_current_lt. apply Hinv. }
    destruct (target_facts ss n Hinv) as (_ & _ & _ & _ & [[HL Hun]|[Hlink Hlt]]).
    - rewrite sc_unset_unlinked by exact Hun. now apply Hdel.
    - rewrite (sc_unset_linked ss n _ Hinv Hlink). apply Hdel; [now apply inv_del|].
      unfold sc_del. apply length_update_nth. }
  unfold shape_of. rewrite (sc_lookup_spec _ _ Hinv'). unfold spec_lookup.
  assert (sc_current (sc_unset ss n) = sc_current ss) as Hc.
  { destruct (target_facts ss n Hinv) as (_ & _ & _ & _ & [[HL Hun]|[Hlink Hlt]]).
    - rewrite sc_unset_unlinked by exact Hun. unfold sc_del. apply sc_current_update.
    - rewrite (sc_unset_linked ss n _ Hinv Hlink). unfold sc_del. now rewrite !sc_current_update. }
  rewrite Hc, Hnone. reflexivity.
Qed.

(* ====================================================================== *)
(* (e) locals vanish; a link reaches the global itself                    *)
(* ====================================================================== *)

Lemma local_step_frames ss ss' :
  local_step ss ss' -> exists f, ss' = update_nth (sc_current ss) f ss.
Proof.
  assert (ss = update_nth (sc_current ss) (fun sc => sc) ss) as Hid by (now rewrite update_nth_id).
  intros Hstep. destruct Hstep as [ss n v Hun|ss n i v Hun|ss n kv Hun|ss n Hun|ss n Hun|ss n i Hun].
  - unfold sc_set. rewrite (unlinked_target ss n Hun).
    destruct (sc_set_at_shape ss (sc_current ss) n v) as [H|H]; rewrite H; cbn [fst].
    + eexists. exact Hid.
    + eexists. reflexivity.
  - unfold sc_set_elem. rewrite (unlinked_target ss n Hun).
    destruct (assoc_get n (sc_get_scope ss (sc_current ss))) as [[w|m|l|]|]; cbn [fst];
      try (eexists; exact Hid); eexists; reflexivity.
  - unfold sc_array_set. rewrite (unlinked_target ss n Hun).
    destruct (assoc_get n (sc_get_scope ss (sc_current ss))) as [[w|m|l|]|]; cbn [fst];
      try (eexists; exact Hid); eexists; reflexivity.
  - rewrite (sc_unset_unlinked ss n Hun). eexists. reflexivity.
  - rewrite (sc_array_unset_unlinked ss n Hun).
    destruct (ent ss (sc_current ss) n) as [[w|m|l|]|]; try (eexists; exact Hid). eexists. reflexivity.
  - unfold sc_unset_element. rewrite (unlinked_target ss n Hun).
    destruct (assoc_get n (sc_get_scope ss (sc_current ss))) as [[w|m|l|]|];
      try (eexists; exact Hid); eexists; reflexivity.
Qed.

Lemma local_steps_frames ss ss' :
  local_steps ss ss' ->
  length ss' = length ss /\ firstn (sc_current ss) ss' = firstn (sc_current ss) ss.
Proof.
  induction 1 as [ss|ss1 ss2 ss3 Hstep Hsteps IH]; [now split|].
  destruct (local_step_frames _ _ Hstep) as [f ->]. destruct IH as [Hlen Hfirst].
  rewrite length_update_nth in Hlen. rewrite sc_current_update in Hfirst.
  rewrite firstn_update_nth in Hfirst. now split.
Qed.

Lemma local_steps_inv ss ss' : local_steps ss ss' -> scope_inv ss -> scope_inv ss'.
Proof.
  induction 1 as [ss|ss1 ss2 ss3 Hstep Hsteps IH]; intros Hinv; [exact Hinv|]. apply IH.
  destruct Hstep.
  - now apply sc_set_inv.
  - now apply sc_set_elem_inv.
  - now apply sc_array_set_inv.
  - now apply sc_unset_inv.
  - now apply sc_array_unset_inv.
  - now apply sc_unset_element_inv.
Qed.

(* whatever a procedure does to names it has not linked, popping its frame restores the stack
   it was called on exactly *)
Theorem locals_vanish ss ss'' :
  local_steps (sc_push ss) ss'' ->
  length ss'' = S (length ss) /\ firstn (length ss) ss'' = ss /\ sc_pop ss'' = ss.
Proof.
  intros Hsteps. destruct (local_steps_frames _ _ Hsteps) as [Hlen Hfirst].
  rewrite sc_current_push in Hfirst. unfold sc_push in *.
  rewrite app_length in Hlen. cbn [length] in Hlen.
  rewrite (firstn_app (length ss) ss [[]]), Nat.sub_diag, firstn_all in Hfirst.
  cbn [firstn] in Hfirst. rewrite app_nil_r in Hfirst.
  split; [lia|]. split; [exact Hfirst|].
  unfold sc_pop. rewrite removelast_firstn_len. rewrite Hlen.
  replace (Nat.pred (length ss + 1)) with (length ss) by lia. exact Hfirst.
Qed.
Print Assumptions locals_vanish.

(* through a link made by [global] the operations act on frame 0 *)
Theorem global_link ss n :
  scope_inv ss -> (0 < sc_current ss)%nat ->
  let ss1 := sc_upvar ss 0 n in
  scope_inv ss1 /\
  sc_target ss1 n = O /\
  sc_lookup ss1 n = ent ss O n /\
  (forall v, sc_set ss1 n v = sc_set_global ss1 n v) /\
  (forall v ss2, sc_set ss1 n v = (ss2, Ok tt) ->
     ss2 = sc_put ss1 O n (VarScalar v) /\
     ent ss2 O n = Some (VarScalar v) /\
     (forall k, k <> O -> sc_get_scope ss2 k = sc_get_scope ss1 k) /\
     sc_get (firstn 1 ss2) n = Ok v).
Proof.
  intros Hinv Hlt ss1.
  assert (scope_inv ss1) as Hinv1 by (now apply sc_upvar_global_inv).
  assert (sc_current ss < length ss)%nat as Hcur by (apply sc_current_lt; apply Hinv).
  assert (ent ss1 (sc_current ss1) n = Some (VarUpvar O)) as Hlink.
  { subst ss1. rewrite sc_current_upvar. unfold sc_upvar. now apply ent_put_same. }
  assert (sc_target ss1 n = O) as Htgt.
  { rewrite (sc_target_spec _ _ Hinv1). unfold spec_target. now rewrite Hlink. }
  split; [exact Hinv1|]. split; [exact Htgt|]. split; [|split].
  - rewrite (sc_lookup_spec _ _ Hinv1). unfold spec_lookup. rewrite Hlink.
    subst ss1. unfold sc_upvar. apply ent_put_other_level. lia.
  - intros v. unfold sc_set, sc_set_global. now rewrite Htgt.
  - intros v ss2 Hset.
    assert (forall m, shape_of ss1 n <> Array m) as Hsh.
    { intros m Hm. rewrite (sc_set_on_array ss1 n v m Hinv1 Hm) in Hset. discriminate. }
    destruct (sc_set_on_unset_or_scalar ss1 n v Hinv1 Hsh) as [Heq _].
    rewrite Heq, Htgt in Hset. injection Hset as <-.
    assert (0 < length ss1)%nat as Hlen1.
    { subst ss1. unfold sc_upvar, sc_put. rewrite length_update_nth. lia. }
    assert (ent (sc_put ss1 O n (VarScalar v)) O n = Some (VarScalar v)) as Hent
      by (now apply ent_put_same).
    split; [reflexivity|]. split; [exact Hent|]. split.
    + intros k Hk. unfold sc_put. now apply frame_update_other.
    + remember (sc_put ss1 O n (VarScalar v)) as ss2 eqn:H2.
      assert (firstn 1 ss2 = [sc_get_scope ss2 O]) as Hf.
      { assert (0 < length ss2)%nat as Hl2.
        { rewrite H2. unfold sc_put. now rewrite length_update_nth. }
        destruct ss2 as [|f0 r]; [cbn in Hl2; lia|reflexivity]. }
      rewrite Hf. unfold ent in Hent. set (f0 := sc_get_scope ss2 O) in *.
      unfold sc_get, sc_lookup, sc_current. cbn [length pred sc_var sc_get_scope nth].
      now rewrite Hent.
Qed.
Print Assumptions global_link.

(* ====================================================================== *)
(* (f) introspection agrees with the shape                                *)
(* ====================================================================== *)

Theorem sc_exists_shape ss n : scope_inv ss -> (sc_exists ss n = true <-> shape_of ss n <> Unset).
Proof.
  intros Hinv. pose proof (shape_of_lookup ss n Hinv) as H. unfold sc_exists.
  destruct (shape_of ss n); rewrite H; split; try discriminate; try reflexivity; intros H0; now elim H0.
Qed.

Theorem sc_array_exists_shape ss n : sc_array_exists ss n = true <-> exists m, shape_of ss n = Array m.
Proof.
  unfold sc_array_exists, shape_of.
  destruct (sc_lookup ss n) as [[w|m|l|]|]; split; try discriminate; try (intros [m0 H0]; discriminate).
  - intros _. now exists m.
  - reflexivity.
Qed.

Theorem sc_array_map_shape ss n :
  sc_array_map ss n = match shape_of ss n with Array m => m | _ => [] end.
Proof. unfold sc_array_map, shape_of. now destruct (sc_lookup ss n) as [[w|m|l|]|]. Qed.

Theorem sc_elem_exists_shape ss n i :
  scope_inv ss ->
  (sc_elem_exists ss n i = true <-> exists m v, shape_of ss n = Array m /\ assoc_get i m = Some v).
Proof.
  intros Hinv. unfold sc_elem_exists. rewrite sc_get_elem_by_shape by exact Hinv.
  destruct (shape_of ss n) as [|w|m]; split; try discriminate; try (intros (m0 & v & H0 & _); discriminate).
  - destruct (assoc_get i m) as [v|] eqn:E; [|discriminate]. intros _. now exists m, v.
  - intros (m0 & v & H0 & H1). injection H0 as <-. now rewrite H1.
Qed.

(* a variable that has a value is listed among the names visible in the current frame *)
Theorem visible_in_scope ss n : scope_inv ss -> shape_of ss n <> Unset -> In n (sc_vars_in_scope ss).
Proof.
  intros Hinv Hsh. pose proof (shape_of_lookup ss n Hinv) as H.
  rewrite (sc_lookup_spec _ _ Hinv) in H. unfold spec_lookup in H.
  unfold sc_vars_in_scope.
  destruct (ent ss (sc_current ss) n) as [x|] eqn:E.
  - apply assoc_get_In in E. change n with (fst (n, x)). now apply in_map.
  - destruct (shape_of ss n); try discriminate. now elim Hsh.
Qed.

(* locals are the entries of the current frame that are not links; none at global level *)
Theorem vars_in_local_spec ss n :
  In n (sc_vars_in_local ss) <->
  (0 < sc_current ss)%nat /\ exists x, In (n, x) (sc_get_scope ss (sc_current ss)) /\ is_upvar x = false.
Proof.
  unfold sc_vars_in_local. destruct (sc_current ss) as [|c] eqn:Hc.
  - split; [intros []|intros [H _]; lia].
  - rewrite in_map_iff. split.
    + intros [[k x] [Hk Hin]]. cbn [fst] in Hk. subst k. apply filter_In in Hin.
      destruct Hin as [Hin Hf]. cbn [snd] in Hf. split; [lia|]. exists x. split; [exact Hin|].
      now destruct (is_upvar x).
    + intros [_ [x [Hin Hup]]]. exists (n, x). split; [reflexivity|]. apply filter_In.
      split; [exact Hin|]. cbn [snd]. now rewrite Hup.
Qed.

(* ---------- assumptions of the main theorems ---------- *)
(* Everything that mentions an error result ([err] = molt_err, which calls as_str, which calls
   fmt_float) inherits the four axioms of the Coq Reals library through Flocq in Model/Float.v;
   the theorems that only move entries around are closed. *)
Print Assumptions sc_set_inv.
Print Assumptions sc_set_global_inv.
Print Assumptions sc_set_elem_inv.
Print Assumptions sc_array_set_inv.
Print Assumptions sc_unset_element_inv.
Print Assumptions sc_unset_inv.
Print Assumptions sc_array_unset_inv.
Print Assumptions sc_upvar_inv.
Print Assumptions sc_upvar_global_inv.
Print Assumptions sc_upvar_global_fold_inv.
Print Assumptions sc_push_inv.
Print Assumptions sc_pop_inv.
Print Assumptions sc_set_error_unchanged.
Print Assumptions sc_set_elem_error_unchanged.
Print Assumptions sc_array_set_error_unchanged.
Print Assumptions sc_set_on_array.
Print Assumptions sc_set_on_unset_or_scalar.
Print Assumptions sc_set_elem_on_scalar.
Print Assumptions sc_set_elem_on_unset.
Print Assumptions sc_set_elem_on_array.
Print Assumptions sc_array_set_on_scalar.
Print Assumptions sc_array_set_on_unset_or_array.
Print Assumptions sc_get_by_shape.
Print Assumptions sc_get_elem_by_shape.
Print Assumptions sc_unset_element_absent.
Print Assumptions sc_array_unset_absent.
Print Assumptions sc_unset_shape.
Print Assumptions sc_exists_shape.
Print Assumptions sc_array_exists_shape.
Print Assumptions sc_array_map_shape.
Print Assumptions sc_elem_exists_shape.
Print Assumptions visible_in_scope.
Print Assumptions vars_in_local_spec.
