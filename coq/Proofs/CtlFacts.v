(* CtlFacts.v — C08/C16: evaluating a script restores the interpreter's control state
   (nesting level counter, number of scopes, recursion limit) whenever the outcome is not a
   model panic / fuel exhaustion. *)
From Molt Require Import Model.Base Model.Tokenizer Model.ListSyn Model.Float Model.Value
  Model.State Model.Script Model.Parser Model.Eval Model.Expr Model.Commands Model.Harness Model.Unicode
  Model.Interp.
From Coq Require Import Lia ZifyBool ZifyN.

Arguments N.eqb : simpl never.
Arguments N.leb : simpl never.
Arguments N.ltb : simpl never.

Local Open Scope N_scope.

(* ---------- the property ---------- *)

Definition ctl_eq (st st' : interp) : Prop :=
  i_levels st' = i_levels st /\ length (i_scopes st') = length (i_scopes st) /\ i_limit st' = i_limit st.

Definition normal {A} (r : res A) : Prop := (forall p, r <> Panic p) /\ r <> Fuel.

(* [m] was run from a state control-equal to [s0]; its final state is control-equal to [s0] *)
Definition pres_M {A} (s0 : interp) (m : interp * res A) : Prop :=
  normal (snd m) -> ctl_eq s0 (fst m).

Definition exec_ok (exec : executor) : Prop :=
  forall s0 st cmd argv, ctl_eq s0 st -> pres_M s0 (exec st cmd argv).

Definition rec_ok (rec : recfns) : Prop :=
  (forall s0 st v, ctl_eq s0 st -> pres_M s0 (r_eval rec st v)) /\
  (forall s0 st e, ctl_eq s0 st -> pres_M s0 (r_expr rec st e)).

Lemma ctl_eq_refl st : ctl_eq st st.
Proof. repeat split. Qed.

Lemma ctl_eq_trans a b c : ctl_eq a b -> ctl_eq b c -> ctl_eq a c.
Proof. unfold ctl_eq. intros (h1 & h2 & h3) (k1 & k2 & k3). repeat split; congruence. Qed.

Lemma ctl_eq_sym a b : ctl_eq a b -> ctl_eq b a.
Proof. unfold ctl_eq. intros (h1 & h2 & h3). repeat split; congruence. Qed.

Lemma normal_ok {A} (a : A) : normal (Ok a).
Proof. split; [intros p|]; discriminate. Qed.
Lemma normal_err {A} e : normal (@Err A e).
Proof. split; [intros p|]; discriminate. Qed.

Lemma pres_ok_inv {A} s0 st (a : A) : pres_M s0 (st, Ok a) -> ctl_eq s0 st.
Proof. intros H. apply H. apply normal_ok. Qed.
Lemma pres_err_inv {A} s0 st e : pres_M s0 (st, @Err A e) -> ctl_eq s0 st.
Proof. intros H. apply H. apply normal_err. Qed.

(* the simple ("absolute") reading of pres_M *)
Lemma pres_M_abs {A} (st : interp) (m : interp * res A) :
  pres_M st m <-> (normal (snd m) -> ctl_eq st (fst m)).
Proof. reflexivity. Qed.

(* the monadic combinators (the engine below unfolds them; stated for reference) *)
Lemma pres_ret {A} s0 st (a : A) : ctl_eq s0 st -> pres_M s0 (ret st a).
Proof. intros H _. exact H. Qed.
Lemma pres_fail {A} s0 st m : ctl_eq s0 st -> pres_M s0 (@fail A st m).
Proof. intros H _. exact H. Qed.
Lemma pres_lift {A} s0 st (r : res A) : ctl_eq s0 st -> pres_M s0 (lift st r).
Proof. intros H _. exact H. Qed.
Lemma pres_lift_sum {A} s0 st (r : str + A) : ctl_eq s0 st -> pres_M s0 (lift_sum st r).
Proof. intros H _. exact H. Qed.
Lemma pres_bind {A B} s0 (m : M A) (k : interp -> A -> M B) :
  pres_M s0 m -> (forall st a, ctl_eq s0 st -> pres_M s0 (k st a)) -> pres_M s0 (bind m k).
Proof.
  destruct m as [st [a|e|p|]]; intros Hm Hk; unfold bind.
  - apply Hk. apply (pres_ok_inv _ _ _ Hm).
  - intros _. apply (pres_err_inv _ _ _ Hm).
  - intros [Hp _]. exfalso. apply (Hp p). reflexivity.
  - intros [_ Hf]. exfalso. apply Hf. reflexivity.
Qed.

(* the relative formulations are equivalent to the simple ones *)
Lemma exec_ok_abs exec :
  exec_ok exec <-> (forall st cmd argv, pres_M st (exec st cmd argv)).
Proof.
  split.
  - intros H st cmd argv. apply H. apply ctl_eq_refl.
  - intros H s0 st cmd argv H0 Hn. eapply ctl_eq_trans; [exact H0|]. apply H. exact Hn.
Qed.

Lemma rec_ok_abs rec :
  rec_ok rec <-> ((forall st v, pres_M st (r_eval rec st v)) /\ (forall st e, pres_M st (r_expr rec st e))).
Proof.
  split.
  - intros [H1 H2]. split; intros st v; [apply H1|apply H2]; apply ctl_eq_refl.
  - intros [H1 H2]. split; intros s0 st v H0 Hn; (eapply ctl_eq_trans; [exact H0|]);
      [apply H1|apply H2]; exact Hn.
Qed.

(* ---------- state updates that keep the control state ---------- *)

Lemma ctl_set_scopes s0 st ss :
  ctl_eq s0 st -> length ss = length (i_scopes st) -> ctl_eq s0 (set_scopes st ss).
Proof. unfold ctl_eq. cbn. intros (h1 & h2 & h3) H. repeat split; congruence. Qed.
Lemma ctl_set_cmds s0 st c : ctl_eq s0 st -> ctl_eq s0 (set_cmds st c).
Proof. unfold ctl_eq. cbn. intros (h1 & h2 & h3). repeat split; congruence. Qed.
Lemma ctl_set_ctx s0 st c l : ctl_eq s0 st -> ctl_eq s0 (set_ctx st c l).
Proof. unfold ctl_eq. cbn. intros (h1 & h2 & h3). repeat split; congruence. Qed.
Lemma ctl_set_trace s0 st t : ctl_eq s0 st -> ctl_eq s0 (set_trace st t).
Proof. unfold ctl_eq. cbn. intros (h1 & h2 & h3). repeat split; congruence. Qed.
Lemma ctl_set_test s0 st t : ctl_eq s0 st -> ctl_eq s0 (set_test st t).
Proof. unfold ctl_eq. cbn. intros (h1 & h2 & h3). repeat split; congruence. Qed.

Create HintDb ctl.
Create HintDb pres.
#[local] Hint Resolve ctl_set_scopes ctl_set_cmds ctl_set_ctx ctl_set_trace ctl_set_test : ctl.

(* ---------- lengths of scope stacks ---------- *)

Lemma update_nth_length {A} n (f : A -> A) l : length (update_nth n f l) = length l.
Proof.
  revert n. induction l as [|x l IH]; intros [|n]; cbn; try reflexivity. now rewrite IH.
Qed.

Lemma sc_put_length ss l n v : length (sc_put ss l n v) = length ss.
Proof. apply update_nth_length. Qed.
Lemma sc_del_length ss l n : length (sc_del ss l n) = length ss.
Proof. apply update_nth_length. Qed.

Lemma sc_set_at_length ss l n v ss' r : sc_set_at ss l n v = (ss', r) -> length ss' = length ss.
Proof.
  unfold sc_set_at. intros H.
  destruct (assoc_get n (sc_get_scope ss l)) as [[| | |]|]; inversion H; subst;
    try reflexivity; apply sc_put_length.
Qed.

Lemma sc_set_length ss n v ss' r : sc_set ss n v = (ss', r) -> length ss' = length ss.
Proof. apply sc_set_at_length. Qed.
Lemma sc_set_global_length ss n v ss' r : sc_set_global ss n v = (ss', r) -> length ss' = length ss.
Proof. apply sc_set_at_length. Qed.

Lemma sc_set_elem_length ss n i v ss' r : sc_set_elem ss n i v = (ss', r) -> length ss' = length ss.
Proof.
  unfold sc_set_elem. intros H.
  destruct (assoc_get n (sc_get_scope ss (sc_target ss n))) as [[| | |]|]; inversion H; subst;
    try reflexivity; apply sc_put_length.
Qed.

Lemma sc_array_set_length ss n kv ss' r : sc_array_set ss n kv = (ss', r) -> length ss' = length ss.
Proof.
  unfold sc_array_set. intros H.
  destruct (assoc_get n (sc_get_scope ss (sc_target ss n))) as [[| | |]|]; inversion H; subst;
    try reflexivity; apply sc_put_length.
Qed.

Lemma sc_unset_at_length fuel : forall ss l n b, length (sc_unset_at fuel ss l n b) = length ss.
Proof.
  induction fuel as [|f IH]; intros ss l n b; [reflexivity|].
  cbn [sc_unset_at].
  set (ss1 := match assoc_get n (sc_get_scope ss l) with
              | Some (VarUpvar at_) => sc_unset_at f ss at_ n b
              | _ => ss
              end).
  assert (H1 : length ss1 = length ss).
  { subst ss1. destruct (assoc_get n (sc_get_scope ss l)) as [[| | |]|]; try reflexivity. apply IH. }
  destruct b.
  - destruct (assoc_get n (sc_get_scope ss1 l)) as [[| | |]|]; try exact H1.
    rewrite sc_del_length. exact H1.
  - rewrite sc_del_length. exact H1.
Qed.

Lemma sc_unset_length ss n : length (sc_unset ss n) = length ss.
Proof. apply sc_unset_at_length. Qed.
Lemma sc_array_unset_length ss n : length (sc_array_unset ss n) = length ss.
Proof. apply sc_unset_at_length. Qed.
Lemma sc_unset_element_length ss n i : length (sc_unset_element ss n i) = length ss.
Proof.
  unfold sc_unset_element.
  destruct (assoc_get n (sc_get_scope ss (sc_target ss n))) as [[| | |]|]; try reflexivity.
  apply sc_put_length.
Qed.
Lemma sc_upvar_length ss l n : length (sc_upvar ss l n) = length ss.
Proof. apply sc_put_length. Qed.

Lemma sc_upvar_fold_length (l : list value) : forall ss,
  length (fold_left (fun ss n => sc_upvar ss O (as_str n)) l ss) = length ss.
Proof.
  induction l as [|x l IH]; intros ss; [reflexivity|]. cbn [fold_left]. rewrite IH. apply sc_upvar_length.
Qed.

Lemma sc_push_pop_length ss ss' : length ss' = length (sc_push ss) -> length (sc_pop ss') = length ss.
Proof.
  unfold sc_push, sc_pop. rewrite app_length. cbn [length]. intros H.
  destruct ss' as [|x r] using rev_ind; [cbn in H; lia|].
  rewrite removelast_last. rewrite app_length in H. cbn [length] in H. lia.
Qed.

#[local] Hint Resolve sc_set_length sc_set_global_length sc_set_elem_length sc_array_set_length
  sc_unset_length sc_array_unset_length sc_unset_element_length sc_upvar_length
  sc_upvar_fold_length : ctl.

(* ---------- the proof engine ---------- *)

Ltac is_M X :=
  let T := type of X in
  let T' := eval hnf in T in
  lazymatch T' with
  | prod interp (res _) => idtac
  end.

Ltac pres_red :=
  cbv beta iota zeta delta [bind ret fail lift lift_sum ok_empty st_set_var_return
                            loop_body_outcome lift_p].

Ltac pres_leaf :=
  unfold pres_M; cbn [fst snd];
  try first
    [ solve [intros _; eauto with ctl]
    | solve [let Hn := fresh "Hn" in
             intros Hn; exfalso; destruct Hn as [Hp Hf];
             first [apply Hf; reflexivity | eapply Hp; reflexivity]] ].

Ltac pres_tac :=
  pres_red;
  lazymatch goal with
  | |- pres_M ?s0 (?st, ?r) => pres_leaf
  | |- pres_M ?s0 (match ?X with _ => _ end) =>
      tryif is_M X then
        (let P := fresh "P" in
         assert (P : pres_M s0 X);
         [ pres_tac
         | let st1 := fresh "st" in
           let r1 := fresh "r" in
           revert P; generalize X; intros [st1 r1] P;
           destruct r1;
           [ apply pres_ok_inv in P | apply pres_err_inv in P | clear P | clear P ];
           pres_tac ])
      else (destruct X eqn:?; pres_tac)
  | |- pres_M ?s0 _ => try solve [eauto with pres ctl]
  end.

(* ---------- variable primitives ---------- *)

Lemma st_set_scalar_pres s0 st n v : ctl_eq s0 st -> pres_M s0 (st_set_scalar st n v).
Proof. intros H. unfold st_set_scalar. pres_tac. Qed.

Lemma st_set_element_pres s0 st n i v : ctl_eq s0 st -> pres_M s0 (st_set_element st n i v).
Proof. intros H. unfold st_set_element. pres_tac. Qed.

#[local] Hint Resolve st_set_scalar_pres st_set_element_pres : pres.

Lemma st_set_var_pres s0 st n v : ctl_eq s0 st -> pres_M s0 (st_set_var st n v).
Proof. intros H. unfold st_set_var. pres_tac. Qed.
#[local] Hint Resolve st_set_var_pres : pres.

Lemma st_unset_var_ctl s0 st n : ctl_eq s0 st -> ctl_eq s0 (st_unset_var st n).
Proof. intros H. unfold st_unset_var. destruct (as_var_name n) as [a [i|]]; eauto with ctl. Qed.
#[local] Hint Resolve st_unset_var_ctl : ctl.

Lemma release_binding_ctl s0 st n : ctl_eq s0 st -> ctl_eq s0 (release_binding st n).
Proof.
  intros H. unfold release_binding.
  destruct (assoc_get n (i_cmds st)) as [[k ctx|]|]; try assumption.
  destruct (ctx =? 0); eauto with ctl.
Qed.
#[local] Hint Resolve release_binding_ctl : ctl.

Lemma add_proc_ctl s0 st n p b : ctl_eq s0 st -> ctl_eq s0 (add_proc st n p b).
Proof. intros H. unfold add_proc. eauto with ctl. Qed.

Lemma rename_command_ctl s0 st a b : ctl_eq s0 st -> ctl_eq s0 (rename_command st a b).
Proof. intros H. unfold rename_command. destruct (assoc_get a (i_cmds st)); eauto with ctl. Qed.
#[local] Hint Resolve add_proc_ctl rename_command_ctl : ctl.

Lemma remove_command_pres s0 st n : ctl_eq s0 st -> pres_M s0 (remove_command st n).
Proof. intros H. unfold remove_command. pres_tac. Qed.
#[local] Hint Resolve remove_command_pres : pres.

Lemma add_context_command_pres s0 st name n ctx :
  ctl_eq s0 st -> pres_M s0 (add_context_command st name n ctx).
Proof. intros H. unfold add_context_command. pres_tac. Qed.

(* ---------- commands that do not evaluate scripts ---------- *)

Ltac cmd_pres f := intros s0 st argv H; unfold f; pres_tac.

Lemma cmd_append_pres : forall s0 st argv, ctl_eq s0 st -> pres_M s0 (cmd_append st argv).
Proof. cmd_pres cmd_append. Qed.
Lemma cmd_array_pres : forall s0 st argv, ctl_eq s0 st -> pres_M s0 (cmd_array st argv).
Proof. cmd_pres cmd_array. Qed.
Lemma cmd_assert_eq_pres : forall s0 st argv, ctl_eq s0 st -> pres_M s0 (cmd_assert_eq st argv).
Proof. cmd_pres cmd_assert_eq. Qed.
Lemma cmd_break_pres : forall s0 st argv, ctl_eq s0 st -> pres_M s0 (cmd_break st argv).
Proof. cmd_pres cmd_break. Qed.
Lemma cmd_continue_pres : forall s0 st argv, ctl_eq s0 st -> pres_M s0 (cmd_continue st argv).
Proof. cmd_pres cmd_continue. Qed.

Lemma cmd_dict_pres : forall s0 st argv, ctl_eq s0 st -> pres_M s0 (cmd_dict st argv).
Proof. cmd_pres cmd_dict. Qed.
Lemma cmd_error_pres : forall s0 st argv, ctl_eq s0 st -> pres_M s0 (cmd_error st argv).
Proof. cmd_pres cmd_error. Qed.
Lemma cmd_global_pres : forall s0 st argv, ctl_eq s0 st -> pres_M s0 (cmd_global st argv).
Proof. cmd_pres cmd_global. Qed.
Lemma cmd_incr_pres : forall s0 st argv, ctl_eq s0 st -> pres_M s0 (cmd_incr st argv).
Proof. cmd_pres cmd_incr. Qed.
Lemma cmd_info_pres U : forall s0 st argv, ctl_eq s0 st -> pres_M s0 (cmd_info U st argv).
Proof. cmd_pres cmd_info. Qed.
Lemma cmd_join_pres : forall s0 st argv, ctl_eq s0 st -> pres_M s0 (cmd_join st argv).
Proof. cmd_pres cmd_join. Qed.
Lemma cmd_lappend_pres : forall s0 st argv, ctl_eq s0 st -> pres_M s0 (cmd_lappend st argv).
Proof. cmd_pres cmd_lappend. Qed.
Lemma cmd_lindex_pres : forall s0 st argv, ctl_eq s0 st -> pres_M s0 (cmd_lindex st argv).
Proof. cmd_pres cmd_lindex. Qed.
Lemma cmd_list_pres : forall s0 st argv, ctl_eq s0 st -> pres_M s0 (cmd_list st argv).
Proof. cmd_pres cmd_list. Qed.
Lemma cmd_llength_pres : forall s0 st argv, ctl_eq s0 st -> pres_M s0 (cmd_llength st argv).
Proof. cmd_pres cmd_llength. Qed.
Lemma cmd_proc_pres : forall s0 st argv, ctl_eq s0 st -> pres_M s0 (cmd_proc st argv).
Proof. cmd_pres cmd_proc. Qed.
Lemma cmd_puts_pres : forall s0 st argv, ctl_eq s0 st -> pres_M s0 (cmd_puts st argv).
Proof. cmd_pres cmd_puts. Qed.
Lemma cmd_rename_pres : forall s0 st argv, ctl_eq s0 st -> pres_M s0 (cmd_rename st argv).
Proof. cmd_pres cmd_rename. Qed.
Lemma cmd_return_pres : forall s0 st argv, ctl_eq s0 st -> pres_M s0 (cmd_return st argv).
Proof. cmd_pres cmd_return. Qed.
Lemma cmd_set_pres : forall s0 st argv, ctl_eq s0 st -> pres_M s0 (cmd_set st argv).
Proof. cmd_pres cmd_set. Qed.
Lemma cmd_throw_pres : forall s0 st argv, ctl_eq s0 st -> pres_M s0 (cmd_throw st argv).
Proof. cmd_pres cmd_throw. Qed.
Lemma cmd_recorder_pres : forall s0 st argv, ctl_eq s0 st -> pres_M s0 (cmd_recorder st argv).
Proof. cmd_pres cmd_recorder. Qed.
Lemma cmd_ident_pres : forall s0 st argv, ctl_eq s0 st -> pres_M s0 (cmd_ident st argv).
Proof. cmd_pres cmd_ident. Qed.

Lemma string_compare_pres U sub : forall s0 st argv, ctl_eq s0 st -> pres_M s0 (string_compare U sub st argv).
Proof. cmd_pres string_compare. Qed.
#[local] Hint Resolve string_compare_pres : pres.
Lemma cmd_string_pres U : forall s0 st argv, ctl_eq s0 st -> pres_M s0 (cmd_string U st argv).
Proof. cmd_pres cmd_string. Qed.

Lemma cmd_unset_pres : forall s0 st argv, ctl_eq s0 st -> pres_M s0 (cmd_unset st argv).
Proof.
  intros s0 st argv H. unfold cmd_unset. pres_tac.
  intros _.
  match goal with
  | |- ctl_eq _ (?F st ?ll true) =>
      assert (HF : forall l0 st0 b0, ctl_eq s0 st0 -> ctl_eq s0 (F st0 l0 b0)); [|apply HF; exact H]
  end.
  clear. intros l. induction l as [|x l IH]; intros st b H; [assumption|].
  destruct (b && str_eqb (as_str x) (lit "--")); [apply IH; assumption|].
  destruct (b && str_eqb (as_str x) (lit "-nocomplain")); apply IH; eauto with ctl.
Qed.


(* ---------- commands that evaluate scripts, for an arbitrary well-behaved [rec] ---------- *)
Section WithRecOk.
Variable U : uni.
Variable rec : recfns.
Hypothesis Hrec : rec_ok rec.

Let Heval : forall s0 st v, ctl_eq s0 st -> pres_M s0 (r_eval rec st v) := proj1 Hrec.
Let Hexpr : forall s0 st v, ctl_eq s0 st -> pres_M s0 (r_expr rec st v) := proj2 Hrec.
#[local] Hint Resolve Heval Hexpr : pres.

Lemma cmd_catch_pres : forall s0 st argv, ctl_eq s0 st -> pres_M s0 (cmd_catch rec st argv).
Proof. cmd_pres cmd_catch. Qed.

Lemma cmd_expr_pres : forall s0 st argv, ctl_eq s0 st -> pres_M s0 (cmd_expr rec st argv).
Proof. cmd_pres cmd_expr. Qed.

Lemma expr_bool_pres : forall s0 st e, ctl_eq s0 st -> pres_M s0 (expr_bool rec st e).
Proof. cmd_pres expr_bool. Qed.
#[local] Hint Resolve expr_bool_pres : pres.

Lemma while_loop_pres n : forall s0 st test body, ctl_eq s0 st -> pres_M s0 (while_loop rec n st test body).
Proof.
  induction n as [|k IH]; intros s0 st test body H; cbn [while_loop]; pres_tac.
Qed.
#[local] Hint Resolve while_loop_pres : pres.

Lemma cmd_while_pres : forall s0 st argv, ctl_eq s0 st -> pres_M s0 (cmd_while rec st argv).
Proof. cmd_pres cmd_while. Qed.

Lemma for_loop_pres n : forall s0 st test next body,
  ctl_eq s0 st -> pres_M s0 (for_loop rec n st test next body).
Proof.
  induction n as [|k IH]; intros s0 st test next body H; cbn [for_loop]; pres_tac.
Qed.
#[local] Hint Resolve for_loop_pres : pres.

Lemma cmd_for_pres : forall s0 st argv, ctl_eq s0 st -> pres_M s0 (cmd_for rec st argv).
Proof. cmd_pres cmd_for. Qed.

Lemma assign_vars_pres vars : forall s0 st l, ctl_eq s0 st -> pres_M s0 (assign_vars st vars l).
Proof.
  induction vars as [|v vs IH]; intros s0 st l H; cbn [assign_vars]; pres_tac.
Qed.
#[local] Hint Resolve assign_vars_pres : pres.

Lemma foreach_loop_pres n : forall s0 st vars l body,
  ctl_eq s0 st -> pres_M s0 (foreach_loop rec n st vars l body).
Proof.
  induction n as [|k IH]; intros s0 st vars l body H; cbn [foreach_loop]; pres_tac.
Qed.
#[local] Hint Resolve foreach_loop_pres : pres.

Lemma cmd_foreach_pres : forall s0 st argv, ctl_eq s0 st -> pres_M s0 (cmd_foreach rec st argv).
Proof. cmd_pres cmd_foreach. Qed.

Lemma if_machine_pres n : forall s0 st argv argi wants,
  ctl_eq s0 st -> pres_M s0 (if_machine rec n st argv argi wants).
Proof.
  induction n as [|k IH]; intros s0 st argv argi wants H; cbn [if_machine]; pres_tac.
Qed.
#[local] Hint Resolve if_machine_pres : pres.

Lemma cmd_if_pres : forall s0 st argv, ctl_eq s0 st -> pres_M s0 (cmd_if rec st argv).
Proof. intros s0 st argv H. unfold cmd_if. eauto with pres. Qed.

Lemma bind_parms_pres parms : forall s0 st name all args,
  ctl_eq s0 st -> pres_M s0 (bind_parms st name all parms args).
Proof.
  induction parms as [|p ps IH]; intros s0 st name all args H; cbn [bind_parms]; pres_tac.
Qed.
#[local] Hint Resolve bind_parms_pres : pres.

Lemma proc_boundary_pres {s0 st} r :
  (normal r -> ctl_eq s0 st) -> pres_M s0 (proc_boundary st r).
Proof.
  intros H. unfold proc_boundary.
  destruct r as [a|e|p|].
  - assert (H' : ctl_eq s0 st) by (apply H; apply normal_ok). pres_tac.
  - assert (H' : ctl_eq s0 st) by (apply H; apply normal_err). pres_tac.
  - pres_tac.
  - pres_tac.
Qed.

Lemma pop_push_ctl s0 st st' : ctl_eq s0 st -> ctl_eq (push_scope st) st' -> ctl_eq s0 (pop_scope st').
Proof.
  unfold ctl_eq, pop_scope, push_scope. cbn. intros (h1 & h2 & h3) (k1 & k2 & k3).
  repeat split; try congruence.
  rewrite (sc_push_pop_length (i_scopes st)); assumption.
Qed.

Lemma proc_execute_pres : forall s0 st parms body argv,
  ctl_eq s0 st -> pres_M s0 (proc_execute rec st parms body argv).
Proof.
  intros s0 st parms body argv H. unfold proc_execute.
  assert (P : pres_M (push_scope st) (bind_parms (push_scope st) (arg argv 0) parms parms (skipn 1 argv)))
    by (apply bind_parms_pres, ctl_eq_refl).
  revert P. generalize (bind_parms (push_scope st) (arg argv 0) parms parms (skipn 1 argv)).
  intros [st2 [u|e|p|]] P; [| |pres_tac|pres_tac].
  - apply pres_ok_inv in P.
    assert (Q : pres_M (push_scope st) (r_eval rec st2 body)) by (apply Heval; assumption).
    revert Q. generalize (r_eval rec st2 body). intros [st3 r] Q.
    apply proc_boundary_pres. intros Hn. eapply pop_push_ctl; [eassumption|]. apply Q. exact Hn.
  - apply pres_err_inv in P. intros _. eapply pop_push_ctl; eassumption.
Qed.

(* test_harness.rs: run_test pushes a scope around setup/body/cleanup and pops it *)
Lemma swallow_pres {s0} (m : M value) : pres_M s0 m -> pres_M s0 (swallow m).
Proof.
  destruct m as [st [v|e|p|]]; unfold swallow, pres_M; cbn [fst snd]; intros P Hn.
  - apply P. apply normal_ok.
  - apply P. apply normal_err.
  - destruct Hn as [A _]. exfalso. apply (A p). reflexivity.
  - destruct Hn as [_ A]. exfalso. apply A. reflexivity.
Qed.

Lemma run_test_pres : forall s0 st info, ctl_eq s0 st -> pres_M s0 (run_test rec st info).
Proof.
  intros s0 st info H. unfold run_test.
  pose proof (Heval (push_scope st) (push_scope st) (VStr (ti_setup info)) (ctl_eq_refl _)) as P1.
  destruct (r_eval rec (push_scope st) (VStr (ti_setup info))) as [st2 r2].
  assert (C2 : normal r2 -> ctl_eq (push_scope st) st2) by exact P1. clear P1.
  assert (V : forall (A : Type) (x : interp) (p : str), pres_M s0 (x, @Panic A p)).
  { intros A x p [N1 _]. exfalso. apply (N1 p). reflexivity. }
  assert (W : forall (A : Type) (x : interp), pres_M s0 (x, @Fuel A)).
  { intros A x [_ N2]. exfalso. apply N2. reflexivity. }
  assert (body :
    forall st2, ctl_eq (push_scope st) st2 ->
    pres_M s0
      match r_eval rec st2 (VStr (ti_body info)) with
      | (st3, Panic p) => (st3, Panic p)
      | (st3, Fuel) => (st3, Fuel)
      | (st3, rbody) =>
          bind (swallow (r_eval rec st3 (VStr (ti_cleanup info))))
            (fun st4 _ =>
             let st5 := pop_scope st4 in
             let '(t, p, f, e) := i_test st5 in
             let t0 := (t + 1)%N in
             let verdict : N * N * N :=
               match rbody, ti_code info with
               | Ok out, TOk => if str_eqb (as_str out) (ti_expect info) then (1, 0, 0)%N else (0, 1, 0)%N
               | Err ex, TError =>
                   if rcode_eqb (x_code ex) CError then
                     (if str_eqb (as_str (x_value ex)) (ti_expect info) then (1, 0, 0)%N else (0, 1, 0)%N)
                   else (0, 0, 1)%N
               | _, _ => (0, 0, 1)%N
               end in
             let '(dp, df, de) := verdict in
             ret (set_test st5 (t0, (p + dp)%N, (f + df)%N, (e + de)%N)) tt)
      end).
  { intros st2' C. pose proof (Heval (push_scope st) st2' (VStr (ti_body info)) C) as Q.
    destruct (r_eval rec st2' (VStr (ti_body info))) as [st3 rb].
    assert (C3 : normal rb -> ctl_eq (push_scope st) st3) by exact Q. clear Q.
    assert (fin : forall (nb : normal rb) (verdict : N * N * N),
      pres_M s0 (bind (swallow (r_eval rec st3 (VStr (ti_cleanup info))))
            (fun st4 _ =>
             let st5 := pop_scope st4 in
             let '(t, p, f, e) := i_test st5 in
             let t0 := (t + 1)%N in
             let '(dp, df, de) := verdict in
             ret (set_test st5 (t0, (p + dp)%N, (f + df)%N, (e + de)%N)) tt))).
    { intros nb verdict.
      pose proof (Heval (push_scope st) st3 (VStr (ti_cleanup info)) (C3 nb)) as R.
      destruct (r_eval rec st3 (VStr (ti_cleanup info))) as [st4 r4].
      assert (C4 : normal r4 -> ctl_eq (push_scope st) st4) by exact R. clear R.
      destruct r4 as [v4|e4|p4|]; cbn [swallow bind]; try apply V; try apply W.
      - destruct (i_test (pop_scope st4)) as [[[t p] f] e]. destruct verdict as [[dp df] de].
        intros _. cbn [fst ret]. apply ctl_set_test. eapply pop_push_ctl; [eassumption|].
        apply C4. split; congruence.
      - destruct (i_test (pop_scope st4)) as [[[t p] f] e]. destruct verdict as [[dp df] de].
        intros _. cbn [fst ret]. apply ctl_set_test. eapply pop_push_ctl; [eassumption|].
        apply C4. split; congruence. }
    destruct rb as [vb|eb|pb|]; try apply V; try apply W.
    - apply fin. split; congruence.
    - apply fin. split; congruence. }
  destruct r2 as [v2|e2|p2|]; cbn [swallow bind]; try apply V; try apply W.
  - apply body. apply C2. split; congruence.
  - apply body. apply C2. split; congruence.
Qed.

#[local] Hint Resolve run_test_pres : pres.

Lemma incr_errors_ctl s0 st : ctl_eq s0 st -> ctl_eq s0 (incr_errors st).
Proof. intros H. unfold incr_errors. destruct (i_test st) as [[[t p] f] e]. apply ctl_set_test. assumption. Qed.
#[local] Hint Resolve incr_errors_ctl : ctl.

Lemma cmd_test_pres : forall s0 st argv, ctl_eq s0 st -> pres_M s0 (cmd_test rec st argv).
Proof.
  intros s0 st argv H. unfold cmd_test, fancy_test, simple_test. pres_tac.
Qed.

End WithRecOk.

(* ---------- Eval.v: words and scripts, for an arbitrary well-behaved executor ---------- *)

(* induction principle for the nested inductive [word] *)
Section WordInd.
Variable P : word -> Prop.
Hypothesis HValue : forall s, P (WValue s).
Hypothesis HVarRef : forall n, P (WVarRef n).
Hypothesis HArrayRef : forall n i, P i -> P (WArrayRef n i).
Hypothesis HScript : forall cmds, Forall (Forall P) cmds -> P (WScript cmds).
Hypothesis HTokens : forall ws, Forall P ws -> P (WTokens ws).
Hypothesis HExpand : forall w, P w -> P (WExpand w).
Hypothesis HString : forall s, P (WString s).

Fixpoint word_ind2 (w : word) : P w :=
  match w with
  | WValue s => HValue s
  | WVarRef n => HVarRef n
  | WArrayRef n i => HArrayRef n i (word_ind2 i)
  | WScript cmds =>
      HScript cmds
        ((fix go (c : list (list word)) : Forall (Forall P) c :=
            match c with
            | [] => Forall_nil _
            | ws :: r =>
                Forall_cons ws
                  ((fix go2 (l : list word) : Forall P l :=
                      match l with
                      | [] => Forall_nil _
                      | x :: r2 => Forall_cons x (word_ind2 x) (go2 r2)
                      end) ws)
                  (go r)
            end) cmds)
  | WTokens ws =>
      HTokens ws
        ((fix go2 (l : list word) : Forall P l :=
            match l with
            | [] => Forall_nil _
            | x :: r2 => Forall_cons x (word_ind2 x) (go2 r2)
            end) ws)
  | WExpand w' => HExpand w' (word_ind2 w')
  | WString s => HString s
  end.
End WordInd.

Section WithExecOk.
Variable exec : executor.
Hypothesis Hexec : exec_ok exec.
#[local] Hint Resolve Hexec : pres.

Definition ew_ok (ew : interp -> word -> interp * res value) (w : word) : Prop :=
  forall s0 st, ctl_eq s0 st -> pres_M s0 (ew st w).

(* what eval_words_with needs of each word: the word itself, and the inside of an expansion *)
Definition ew_ok2 (ew : interp -> word -> interp * res value) (w : word) : Prop :=
  ew_ok ew w /\ (forall w', w = WExpand w' -> ew_ok ew w').

Lemma eval_words_with_pres ew ws :
  Forall (ew_ok2 ew) ws ->
  forall s0 st acc, ctl_eq s0 st -> pres_M s0 (eval_words_with ew st ws acc).
Proof.
  induction 1 as [|w r [Hw Hw'] Hr IH]; intros s0 st acc H; cbn [eval_words_with]; [pres_tac|].
  assert (IH' : forall s0 st acc, ctl_eq s0 st -> pres_M s0 (eval_words_with ew st r acc)) by exact IH.
  clear IH.
  destruct w as [s|n|n i|cmds|ws|w1|s];
    try solve [assert (P0 := Hw s0 st H); pres_tac].
  assert (P0 := Hw' w1 eq_refl s0 st H). pres_tac.
Qed.

Lemma command_outcome_pres s0 st cmd name argv e :
  ctl_eq s0 st -> pres_M s0 (command_outcome st cmd name argv e).
Proof. intros H. unfold command_outcome. pres_tac. Qed.
#[local] Hint Resolve command_outcome_pres : pres.

Lemma eval_cmds_with_pres ew cmds :
  Forall (Forall (ew_ok2 ew)) cmds ->
  forall s0 st result, ctl_eq s0 st -> pres_M s0 (eval_cmds_with exec ew st cmds result).
Proof.
  induction 1 as [|ws r Hws Hr IH]; intros s0 st result H; cbn [eval_cmds_with]; [pres_tac|].
  assert (IH' : forall s0 st result, ctl_eq s0 st -> pres_M s0 (eval_cmds_with exec ew st r result))
    by exact IH.
  clear IH.
  assert (Hw := eval_words_with_pres ew ws Hws).
  pres_tac.
Qed.

Lemma eval_word_ok2 w : ew_ok2 (eval_word exec) w.
Proof.
  induction w as [s|n|n i IHi|cmds IHc|ws IHw|w IHw|s] using word_ind2;
    (split; [|intros w' Hw'; try discriminate Hw']).
  - intros s0 st H. cbn [eval_word]. pres_tac.
  - intros s0 st H. cbn [eval_word]. pres_tac.
  - intros s0 st H. cbn [eval_word]. destruct IHi as [IHi _]. pres_tac.
  - intros s0 st H. cbn [eval_word]. apply eval_cmds_with_pres; assumption.
  - intros s0 st H. cbn [eval_word]. assert (Hw := eval_words_with_pres _ ws IHw). pres_tac.
  - intros s0 st H. cbn [eval_word]. pres_tac.
  - inversion Hw'; subst. destruct IHw as [IHw _]. exact IHw.
  - intros s0 st H. cbn [eval_word]. pres_tac.
Qed.

Lemma eval_word_pres : forall s0 st w, ctl_eq s0 st -> pres_M s0 (eval_word exec st w).
Proof. intros s0 st w. apply eval_word_ok2. Qed.

Lemma eval_script_pres : forall s0 st sc, ctl_eq s0 st -> pres_M s0 (eval_script exec st sc).
Proof.
  intros s0 st sc H. unfold eval_script, eval_cmds. apply eval_cmds_with_pres; [|assumption].
  apply Forall_forall. intros ws _. apply Forall_forall. intros w _. apply eval_word_ok2.
Qed.
#[local] Hint Resolve eval_word_pres eval_script_pres : pres.

End WithExecOk.

#[local] Hint Resolve eval_word_pres eval_script_pres : pres.

(* ---------- Expr.v ---------- *)
Section ExprOk.
Variable alnum alpha : char -> bool.
Variable exec : executor.
Hypothesis Hexec : exec_ok exec.
Variable orig : str.

Lemma expr_all_pres fuel :
  (forall s0 st info pr, ctl_eq s0 st ->
     pres_M s0 (expr_get_value alnum alpha exec orig fuel st info pr)) /\
  (forall s0 st info pr v, ctl_eq s0 st ->
     pres_M s0 (expr_loop alnum alpha exec orig fuel st info pr v)) /\
  (forall s0 st info, ctl_eq s0 st ->
     pres_M s0 (expr_lex alnum alpha exec orig fuel st info)) /\
  (forall s0 st info name, ctl_eq s0 st ->
     pres_M s0 (expr_math_func alnum alpha exec orig fuel st info name)).
Proof.
  induction fuel as [|f (IH1 & IH2 & IH3 & IH4)].
  - split; [|split; [|split]]; intros;
      cbn [expr_get_value expr_loop expr_lex expr_math_func]; pres_tac.
  - split; [|split; [|split]].
    + intros s0 st info pr H. cbn [expr_get_value]. pres_tac.
    + intros s0 st info pr v H. cbn [expr_loop]. pres_tac.
    + intros s0 st info H. cbn [expr_lex]. pres_tac.
    + intros s0 st info name H. cbn [expr_math_func]. pres_tac.
Qed.

End ExprOk.

Lemma expr_eval_pres alnum alpha exec : exec_ok exec ->
  forall s0 st e, ctl_eq s0 st -> pres_M s0 (expr_eval alnum alpha exec st e).
Proof.
  intros Hexec s0 st e H. unfold expr_eval.
  assert (P0 := proj1 (expr_all_pres alnum alpha exec Hexec (as_str e) (expr_fuel (as_str e)))).
  pres_tac.
Qed.
#[local] Hint Resolve expr_eval_pres : pres.

(* ---------- Interp.v ---------- *)

Lemma set_global_error_data_pres s0 st e :
  ctl_eq s0 st -> pres_M s0 (set_global_error_data st e).
Proof.
  intros H. unfold set_global_error_data.
  destruct (x_data e) as [d|]; [|pres_tac].
  destruct (sc_set_global (i_scopes st) (lit "errorInfo") (VStr (ed_info d))) as [ss1 r1] eqn:E1.
  apply sc_set_global_length in E1.
  destruct r1 as [u|e1|p|]; try pres_tac.
  destruct (sc_set_global ss1 (lit "errorCode") (ed_code d)) as [ss2 r2] eqn:E2.
  apply sc_set_global_length in E2.
  intros _. cbn [fst]. apply ctl_set_scopes; [assumption|congruence].
Qed.
#[local] Hint Resolve set_global_error_data_pres : pres.

Lemma levels_restore s0 st st2 :
  ctl_eq s0 st -> ctl_eq (set_levels st (i_levels st + 1)) st2 ->
  ctl_eq s0 (set_levels st2 (i_levels st2 - 1)).
Proof.
  unfold ctl_eq. cbn. intros (h1 & h2 & h3) (k1 & k2 & k3).
  repeat split; try congruence. rewrite k1, h1. lia.
Qed.

Lemma toplevel_boundary_panic r : ~ normal r -> toplevel_boundary r = r.
Proof.
  destruct r as [a|e|p|]; try reflexivity. intros H. exfalso. apply H. apply normal_err.
Qed.

Section InterpOk.
Variable U : uni.

Lemma eval_value_with_pres exec : exec_ok exec ->
  forall s0 st v, ctl_eq s0 st -> pres_M s0 (eval_value_with U exec st v).
Proof.
  intros Hexec s0 st v H. unfold eval_value_with.
  set (st1 := set_levels st (i_levels st + 1)).
  assert (H1 : ctl_eq s0 (set_levels st1 (i_levels st1 - 1))).
  { apply (levels_restore s0 st st1 H). apply ctl_eq_refl. }
  destruct (i_limit st1 <? i_levels st1); [pres_tac|].
  destruct (parse (u_alnum U) (as_str v)) as [sc rest|m|]; [|pres_tac|pres_tac].
  assert (P : pres_M st1 (eval_script exec st1 sc)) by (apply eval_script_pres; [assumption|apply ctl_eq_refl]).
  revert P. generalize (eval_script exec st1 sc). intros [st2 r] P.
  cbv zeta.
  destruct r as [a|e|p|].
  - apply pres_ok_inv in P. assert (H3 := levels_restore s0 st st2 H P).
    generalize (if i_levels (set_levels st2 (i_levels st2 - 1)) =? 0
                then toplevel_boundary (Ok a) else Ok a).
    intros r'. pres_tac.
  - apply pres_err_inv in P. assert (H3 := levels_restore s0 st st2 H P).
    generalize (if i_levels (set_levels st2 (i_levels st2 - 1)) =? 0
                then toplevel_boundary (Err e) else Err e).
    intros r'. pres_tac.
  - replace (if i_levels (set_levels st2 (i_levels st2 - 1)) =? 0
             then toplevel_boundary (Panic p) else Panic p) with (@Panic value p)
      by (destruct (_ =? 0); reflexivity).
    pres_tac.
  - replace (if i_levels (set_levels st2 (i_levels st2 - 1)) =? 0
             then toplevel_boundary Fuel else Fuel) with (@Fuel value)
      by (destruct (_ =? 0); reflexivity).
    pres_tac.
Qed.

Lemma expr_with_pres exec : exec_ok exec ->
  forall s0 st e, ctl_eq s0 st -> pres_M s0 (expr_with U exec st e).
Proof.
  intros Hexec s0 st e H. unfold expr_with. pres_tac.
Qed.

Lemma run_native_pres rec : rec_ok rec ->
  forall n s0 st argv, ctl_eq s0 st -> pres_M s0 (run_native U rec n st argv).
Proof.
  intros Hrec n s0 st argv H.
  destruct n; cbn [run_native];
    first [ pres_tac; fail
          | eauto using cmd_append_pres, cmd_array_pres, cmd_assert_eq_pres, cmd_break_pres,
              cmd_catch_pres, cmd_continue_pres, cmd_dict_pres, cmd_error_pres, cmd_expr_pres,
              cmd_for_pres, cmd_foreach_pres, cmd_global_pres, cmd_if_pres, cmd_incr_pres,
              cmd_info_pres, cmd_join_pres, cmd_lappend_pres, cmd_lindex_pres, cmd_list_pres,
              cmd_llength_pres, cmd_proc_pres, cmd_puts_pres, cmd_rename_pres, cmd_return_pres,
              cmd_set_pres, cmd_string_pres, cmd_throw_pres, cmd_unset_pres, cmd_while_pres,
              cmd_recorder_pres, cmd_ident_pres, cmd_test_pres ].
Qed.

Theorem run_exec_ok fuel : exec_ok (run_exec U fuel).
Proof.
  induction fuel as [|f IH]; intros s0 st cmd argv H; cbn [run_exec]; [pres_tac|].
  set (rec := {| r_eval := eval_value_with U (run_exec U f);
                 r_expr := expr_with U (run_exec U f); r_loop := S f |}).
  assert (Hrec : rec_ok rec).
  { split; cbn [r_eval r_expr rec]; intros; [apply eval_value_with_pres|apply expr_with_pres]; assumption. }
  destruct cmd as [n ctx|parms body].
  - apply run_native_pres; assumption.
  - apply proc_execute_pres; assumption.
Qed.

(* ---------- main theorems ---------- *)

Theorem eval_value_restores : forall fuel st v st' r,
  eval_value U fuel st v = (st', r) -> normal r -> ctl_eq st st'.
Proof.
  intros fuel st v st' r E Hn.
  assert (P := eval_value_with_pres (run_exec U fuel) (run_exec_ok fuel) st st v (ctl_eq_refl st)).
  unfold eval_value in E. rewrite E in P. apply P. exact Hn.
Qed.

Theorem expr_restores : forall fuel st e st' r,
  expr U fuel st e = (st', r) -> normal r -> ctl_eq st st'.
Proof.
  intros fuel st e st' r E Hn.
  assert (P := expr_with_pres (run_exec U fuel) (run_exec_ok fuel) st st e (ctl_eq_refl st)).
  unfold expr in E. rewrite E in P. apply P. exact Hn.
Qed.

Corollary toplevel_clean : forall fuel st v st' r,
  i_levels st = 0%N -> length (i_scopes st) = 1%nat ->
  eval_value U fuel st v = (st', r) -> normal r ->
  i_levels st' = 0%N /\ length (i_scopes st') = 1%nat.
Proof.
  intros fuel st v st' r HL HS E Hn.
  destruct (eval_value_restores fuel st v st' r E Hn) as (h1 & h2 & h3).
  split; congruence.
Qed.

(* the scope stack never becomes empty (not needed above; a consequence of ctl_eq) *)
Corollary scopes_nonempty_inv : forall fuel st v st' r,
  (1 <= length (i_scopes st))%nat ->
  eval_value U fuel st v = (st', r) -> normal r -> (1 <= length (i_scopes st'))%nat.
Proof.
  intros fuel st v st' r HS E Hn.
  destruct (eval_value_restores fuel st v st' r E Hn) as (h1 & h2 & h3).
  rewrite h2. exact HS.
Qed.

End InterpOk.

Print Assumptions run_exec_ok.
Print Assumptions eval_value_restores.
Print Assumptions expr_restores.
Print Assumptions toplevel_clean.
Print Assumptions scopes_nonempty_inv.
(* for comparison: the axioms listed above are exactly those of the model's own definitions
   (Model/Float.v uses Flocq, which is built on Coq's axiomatised reals) *)
Print Assumptions eval_value.

Lemma normal_cases {A} (r : res A) : match r with Panic _ | Fuel => False | _ => True end -> normal r.
Proof. destruct r; intros H; try contradiction; split; congruence. Qed.

Lemma history_clean : forall U fuel (scripts : list value) st,
  i_levels st = 0%N -> length (i_scopes st) = 1%nat ->
  let run := fold_left (fun acc v => match acc with
                                     | Some st => let '(st', r) := eval_value U fuel st v in
                                                  match r with Panic _ | Fuel => None | _ => Some st' end
                                     | None => None
                                     end) scripts (Some st) in
  forall st', run = Some st' -> i_levels st' = 0%N /\ length (i_scopes st') = 1%nat.
Proof.
  intros U fuel scripts. induction scripts as [|v rest IH]; intros st HL HS run st' Hrun.
  - cbn in Hrun. inversion Hrun. subst. split; assumption.
  - subst run. cbn [fold_left] in Hrun.
    destruct (eval_value U fuel st v) as [st1 r] eqn:E.
    assert (Hnone : forall l, fold_left (fun acc v => match acc with
                                     | Some st => let '(st', r) := eval_value U fuel st v in
                                                  match r with Panic _ | Fuel => None | _ => Some st' end
                                     | None => None
                                     end) l (@None interp) = None).
    { induction l as [|x l IHl]; [reflexivity|exact IHl]. }
    destruct r as [x|e|p|].
    + destruct (toplevel_clean U fuel st v st1 (Ok x) HL HS E) as [A B]; [split; congruence|].
      apply (IH st1 A B st' Hrun).
    + destruct (toplevel_clean U fuel st v st1 (Err e) HL HS E) as [A B]; [split; congruence|].
      apply (IH st1 A B st' Hrun).
    + rewrite Hnone in Hrun. discriminate.
    + rewrite Hnone in Hrun. discriminate.
Qed.
