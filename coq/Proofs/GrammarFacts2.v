(* GrammarFacts2.v — C02, continued (see Proofs/GrammarFacts.v).

   1  split_simple_as_list: on values made of the specification's simple characters and spaces,
      the model's list reader splits exactly as SpecGrammar.split_simple.
   2  c_proc_behaves: the procedure registered by `proc c args {rec c {*}$args}` records
      rec c <args> and returns its last word, leaving the interpreter otherwise EXACTLY as it
      was, provided i_levels st < i_limit st at the call (one level of headroom for the body).
      c_behaves_with_headroom: GrammarFacts.c_behaves as far as it is true.
   3  eval_agrees_with_expected2: the simulation of GrammarFacts redone with {*} included and
      every value a string (VStr), for any executor and relation, with a predicate [Good] that
      the specification's runs must respect.
   4  Rc2 / eval_agrees_concrete2 / eval_text_agrees2: the model's own executor with rec, set
      and the procedure c; no c_behaves premise, no no_expand premise; array elements allowed in
      the environment.  New premises: the headroom i_levels st + 1 < i_limit st, and
      [consistent env'] (no name is both a scalar and the name of array elements in the final
      environment): the specification lets `set b 5` succeed next to keys b(1), the
      implementation refuses; see set_array_name_disagreement.
   5  prelude_Rc2, example_c02_agrees: the state after a prelude producing Check.C02.c02_env0 and
      the procedure c satisfies Rc2, and eval_text_agrees2 applied to a tree over it. *)
From Molt Require Import Model.Base Model.Tokenizer Model.ListSyn Model.Float Model.Value Model.State
  Model.Script Model.Parser Model.Eval Model.Expr Model.Commands Model.Unicode Model.Interp.
From Molt Require Import Spec.SpecGrammar Spec.SpecVars Spec.SpecBind.
From Molt Require Import Proofs.BaseFacts Proofs.ListSynFacts Proofs.ListAsCommandFacts Proofs.TotalFacts
  Proofs.InterpFacts Proofs.ScopeFacts Proofs.CtlFacts Proofs.BindFacts Proofs.GrammarFacts.
From Molt Require Check.ScriptObs Check.C02.
From Coq Require Import Lia ZifyBool ZifyN.

Arguments N.eqb : simpl never.
Arguments N.leb : simpl never.
Arguments N.ltb : simpl never.

Local Open Scope N_scope.

(* ====================================================================== *)
(* 1. the specification's splitter and the model's list reader             *)
(* ====================================================================== *)

Lemma simple_char_facts c : simple_char c = true ->
  is_list_white c = false /\ (c =? c_bslash) = false /\ (c =? c_lbrace) = false
  /\ (c =? c_dquote) = false /\ (c =? c_space) = false.
Proof.
  unfold simple_char, is_list_white, is_whitespace, c_underscore, c_dot, c_minus, c_bslash,
    c_lbrace, c_dquote, c_space. lia.
Qed.

Lemma split_pbare : forall s cur acc l f, (length s < f)%nat -> cur <> [] ->
  split_simple s cur acc = Some l ->
  exists tok r', pbare f s cur = (tok, r') /\ (length r' <= length s)%nat
    /\ split_simple r' [] (tok :: acc) = Some l.
Proof.
  induction s as [|c r IH]; intros cur acc l f Hf Hc H.
  - destruct f as [|f]; [cbn in Hf; lia|]. cbn [pbare]. exists (rev cur), []. rewrite rev_fast_eq.
    split; [reflexivity|]. split; [lia|]. cbn [split_simple] in *. destruct cur; [congruence|exact H].
  - destruct f as [|f]; [cbn in Hf; lia|]. cbn [length] in Hf. cbn [split_simple] in H. cbn [pbare].
    destruct (c =? c_space) eqn:Es.
    + assert (Ew : is_list_white c = true) by (revert Es; unfold is_list_white, c_space; lia).
      rewrite Ew. exists (rev cur), (c :: r). rewrite rev_fast_eq. split; [reflexivity|].
      split; [lia|]. cbn [split_simple]. rewrite Es. destruct cur; [congruence|exact H].
    + destruct (simple_char c) eqn:Ec; [|discriminate H].
      destruct (simple_char_facts c Ec) as (A & B & _). rewrite A, B.
      destruct (IH (c :: cur) acc l f ltac:(lia) ltac:(discriminate) H) as (tok & r' & E1 & L & E2).
      exists tok, r'. split; [exact E1|]. split; [cbn [length]; lia|exact E2].
Qed.

Lemma split_parse_list : forall n s acc l f, (length s <= n)%nat -> (length s < f)%nat ->
  split_simple s [] acc = Some l -> parse_list f s acc = Some (inr l).
Proof.
  induction n as [|n IH]; intros s acc l f Hn Hf H.
  - destruct s; [|cbn in Hn; lia]. destruct f as [|f]; [lia|]. cbn in *. rewrite rev_fast_eq.
    inversion H. reflexivity.
  - destruct s as [|c r].
    + destruct f as [|f]; [cbn in Hf; lia|]. cbn in *. rewrite rev_fast_eq. inversion H. reflexivity.
    + destruct f as [|f]; [lia|]. cbn [length] in *. cbn [split_simple] in H.
      destruct (c =? c_space) eqn:Es.
      * assert (Ew : is_list_white c = true) by (revert Es; unfold is_list_white, c_space; lia).
        pose proof (IH r acc l (S f) ltac:(lia) ltac:(lia) H) as E.
        cbn [parse_list] in *. cbn [skip_while]. rewrite Ew. exact E.
      * destruct (simple_char c) eqn:Ec; [|discriminate H].
        destruct (simple_char_facts c Ec) as (A & B & C & D & _).
        cbn [parse_list skip_while]. rewrite A. unfold parse_item. rewrite C, D.
        assert (Ep : pbare (S (length (c :: r))) (c :: r) [] = pbare (S (length r)) r [c]).
        { cbn [length]. set (k := S (length r)). cbn [pbare]. rewrite A, B. reflexivity. }
        rewrite Ep.
        destruct (split_pbare r [c] acc l (S (length r)) ltac:(lia) ltac:(discriminate) H)
          as (tok & r' & E1 & L & E2).
        rewrite E1. apply (IH r' (tok :: acc) l f); [lia|lia|exact E2].
Qed.

(* {*}: a value made of the specification's "simple" characters and spaces is split by the model's
   list reader exactly as the specification splits it *)
Theorem split_simple_as_list : forall s l,
  split_simple s [] [] = Some l -> v_as_list (VStr s) = inr (map VStr l).
Proof.
  intros s l H. cbn [v_as_list as_str]. unfold str_as_list, get_list.
  rewrite (split_parse_list (length s) s [] l (S (length s))); [reflexivity|lia|lia|exact H].
Qed.
Print Assumptions split_simple_as_list.

(* ====================================================================== *)
(* 2. the procedure c of the checker's prelude                             *)
(* ====================================================================== *)
Definition c_parms : list value := [VStr (lit "args")].
Definition c_body_text : str := lit "rec c {*}$args".
Definition c_proc : command := CmdProc c_parms (VStr c_body_text).

(* it is what `proc c args {rec c {*}$args}` registers *)
Example c_proc_registered :
  assoc_get (lit "c")
    (i_cmds (fst (eval std_uni 10 (Check.ScriptObs.harness_interp 0)
                    (lit "proc c args {rec c {*}$args}"))))
  = Some c_proc.
Proof. vm_compute. reflexivity. Qed.

(* the body as a tree, so that its reading follows from parse_render for any Unicode table *)
Definition c_body_tree : list item :=
  [ICmd [] [([], CBare [SLit (lit "rec")]); ([c_space], CBare [SLit (lit "c")]);
            ([c_space], CExpand (CBare [SVar (lit "args")]))] [] []].

Lemma c_body_parse isa : name_ok isa ->
  parse isa c_body_text
  = POk [[WValue (lit "rec"); WValue (lit "c"); WExpand (WVarRef (lit "args"))]] [].
Proof.
  intros H. change c_body_text with (SpecGrammar.render c_body_tree).
  rewrite (parse_render isa c_body_tree H); reflexivity.
Qed.

Lemma lookup_top ss n v : sc_lookup (ss ++ [[(n, VarScalar v)]]) n = Some (VarScalar v).
Proof.
  unfold sc_lookup, sc_current. rewrite app_length. cbn [length].
  replace (pred (length ss + 1)) with (length ss) by lia. cbn [sc_var]. unfold sc_get_scope.
  rewrite app_nth2 by lia. rewrite Nat.sub_diag. cbn [nth assoc_get]. rewrite str_eqb_refl. reflexivity.
Qed.

Lemma last_VStr : forall l : list str, last (map VStr l) v_empty = VStr (last l []).
Proof.
  induction l as [|a l IH]; [reflexivity|]. cbn [map last]. destruct l as [|b l']; [reflexivity|].
  exact IH.
Qed.

Theorem c_proc_behaves : forall U f st name_v args c1,
  name_ok (u_alnum U) ->
  assoc_get (lit "rec") (i_cmds st) = Some (CmdNative NRecorder c1) ->
  i_levels st < i_limit st ->
  run_exec U (S (S f)) st c_proc (name_v :: args)
  = (set_trace st ((lit "rec" :: lit "c" :: map as_str args) :: i_trace st),
     Ok (last (VStr (lit "rec") :: VStr (lit "c") :: args) v_empty)).
Proof.
  intros U f st name_v args c1 HU Hrec Hlev.
  change (run_exec U (S (S f)) st c_proc (name_v :: args))
    with (proc_execute {| r_eval := eval_value_with U (run_exec U (S f));
                          r_expr := expr_with U (run_exec U (S f)); r_loop := S (S f) |}
            st c_parms (VStr c_body_text) (name_v :: args)).
  rewrite (proc_execute_bound _ st c_parms (VStr c_body_text) (name_v :: args) [PArgs]
             [(lit "args", VList args)]); [|reflexivity|reflexivity].
  cbn [r_eval].
  set (fr := bind_scope [(lit "args", VList args)] []).
  change fr with [(lit "args", VarScalar (VList args))]. clear fr.
  set (stb := set_scopes st (i_scopes st ++ [[(lit "args", VarScalar (VList args))]])).
  set (st1 := set_levels stb (i_levels stb + 1)).
  set (argv' := VStr (lit "rec") :: VStr (lit "c") :: args).
  assert (E : eval_value_with U (run_exec U (S f)) stb (VStr c_body_text)
              = (set_levels (set_trace st1 (map as_str argv' :: i_trace st1)) (i_levels st1 - 1),
                 Ok (last argv' v_empty))).
  { unfold eval_value_with. fold st1. cbn [as_str].
    replace (i_limit st1 <? i_levels st1) with false.
    2:{ unfold st1, stb. cbn [i_limit i_levels set_levels set_scopes]. lia. }
    rewrite (c_body_parse (u_alnum U) HU).
    unfold eval_script, eval_cmds. cbn [eval_cmds_with eval_words_with Eval.eval_word].
    assert (Ea : st_scalar st1 (lit "args") = Ok (VList args)).
    { unfold st_scalar, sc_get, st1, stb. cbn [i_scopes set_levels set_scopes].
      rewrite lookup_top. reflexivity. }
    rewrite Ea. cbn [v_as_list]. cbn [eval_words_with].
    rewrite rev_app_distr, rev_involutive. cbn [rev app]. fold argv'.
    cbn [as_str]. replace (i_cmds st1) with (i_cmds st) by reflexivity. rewrite Hrec.
    change (run_exec U (S f) st1 (CmdNative NRecorder c1) argv') with (cmd_recorder st1 argv').
    unfold cmd_recorder, ret. cbn [eval_cmds_with].
    cbn [i_levels set_levels set_trace].
    destruct (i_levels st1 - 1 =? 0); reflexivity. }
  change ((let '(st3, r) := eval_value_with U (run_exec U (S f)) stb (VStr c_body_text) in
           proc_boundary (pop_scope st3) r)
          = (set_trace st ((lit "rec" :: lit "c" :: map as_str args) :: i_trace st),
             Ok (last argv' v_empty))).
  rewrite E. unfold proc_boundary, ret, pop_scope.
  unfold st1, stb, argv' in *. clear E st1 stb argv'. clear Hrec Hlev.
  destruct st as [cmds ss lim lev ctx lctx tr tst].
  unfold set_levels, set_trace, set_scopes.
  cbn [i_cmds i_scopes i_limit i_levels i_ctx i_last_ctx i_trace i_test map as_str].
  rewrite sc_pop_push_upd. f_equal. f_equal. lia.
Qed.
Print Assumptions c_proc_behaves.

(* ====================================================================== *)
(* 3. the simulation again: all values are strings, {*} included           *)
(* ====================================================================== *)

(* {*} applies to an ordinary word *)
Definition is_expand (w : wordc) : bool := match w with CExpand _ => true | _ => false end.
Fixpoint xp_seg (s : seg) {struct s} : bool :=
  match s with
  | SVar n => negb (has_char c_lparen n)
  | SBVar n => negb (has_char c_lparen n)
  | SArr _ idx => forallb xp_seg idx
  | SCmd sc => forallb xp_item sc
  | _ => true
  end
with xp_word (w : wordc) {struct w} : bool :=
  match w with
  | CBrace _ => true
  | CQuote l => forallb xp_seg l
  | CBare l => forallb xp_seg l
  | CExpand w' => negb (is_expand w') && xp_word w'
  end
with xp_item (i : item) {struct i} : bool :=
  match i with
  | ICmd _ ws _ _ => forallb (fun gw => match gw with (_, w) => xp_word w end) ws
  | _ => true
  end.

Lemma wf_items_forall nested : forall sc, wf_items nested sc = true ->
  Forall (fun i => exists last, wf_item nested last i = true) sc.
Proof.
  induction sc as [|x r IH]; intros H; [constructor|].
  cbn [wf_items] in H. destruct r as [|y r'].
  - constructor; [exists true; exact H|constructor].
  - apply andb_prop in H. destruct H as [Hx Hr]. constructor; [exists false; exact Hx|exact (IH Hr)].
Qed.

Lemma wf_seg_cmd2 lo sc : wf_seg lo (SCmd sc) = wf_items true sc.
Proof.
  cbn [wf_seg]. induction sc as [|x r IH]; [reflexivity|].
  cbn [wf_items]. destruct r as [|y r']; [reflexivity|]. rewrite <- IH. reflexivity.
Qed.

Lemma wf_xp :
  (forall s lo, wf_seg lo s = true -> xp_seg s = true)
  /\ (forall w, wf_word w = true -> xp_word w = true)
  /\ (forall i nested last, wf_item nested last i = true -> xp_item i = true).
Proof.
  set (Ps := fun s => forall lo, wf_seg lo s = true -> xp_seg s = true).
  set (Pw := fun w => wf_word w = true -> xp_word w = true).
  set (Pi := fun i => forall nested last, wf_item nested last i = true -> xp_item i = true).
  assert (Hsegs : forall l lo, Forall Ps l -> forallb (wf_seg lo) l = true -> forallb xp_seg l = true).
  { intros l lo Hl. induction Hl as [|x l Hx Hl IH]; intros H; [reflexivity|].
    cbn [forallb] in *. apply andb_prop in H. destruct H as [A B]. rewrite (Hx lo A), (IH B). reflexivity. }
  assert (Hnp : forall (p : char -> bool) n, (forall c, p c = true -> (c =? c_lparen) = false) ->
                forallb p n = true -> negb (has_char c_lparen n) = true).
  { intros p n Hp. unfold has_char. induction n as [|c n IH]; intros H; [reflexivity|].
    cbn [forallb existsb] in *. apply andb_prop in H. destruct H as [Hc Hn].
    rewrite (Hp c Hc). cbn [orb]. exact (IH Hn). }
  assert (HVar : forall n, Ps (SVar n)).
  { intros n lo H. cbn [wf_seg] in H. apply andb_prop in H. cbn [xp_seg].
    apply (Hnp name_char); [|exact (proj2 H)].
    intros c Hc. revert Hc. unfold name_char, ascii_name_char, c_underscore, c_lparen. lia. }
  assert (HBVar : forall n, Ps (SBVar n)).
  { intros n lo H. cbn [wf_seg] in H. cbn [xp_seg].
    apply (Hnp (fun c => negb ((c =? c_rbrace) || (c =? c_lparen)))); [|exact H].
    intros c Hc. lia. }
  assert (HArr : forall n idx, Forall Ps idx -> Ps (SArr n idx)).
  { intros n idx Hidx lo H. cbn [wf_seg] in H. apply andb_prop in H. destruct H as [H _].
    apply andb_prop in H. destruct H as [_ H]. cbn [xp_seg]. exact (Hsegs idx _ Hidx H). }
  assert (HCmd : forall sc, Forall Pi sc -> Ps (SCmd sc)).
  { intros sc Hsc lo H. rewrite wf_seg_cmd2 in H. cbn [xp_seg].
    pose proof (wf_items_forall true sc H) as Hf. clear H.
    induction Hsc as [|x l Hx Hl IH]; [reflexivity|].
    inversion Hf as [|x' l' [last Hw] Hf']; subst x' l'.
    cbn [forallb]. rewrite (Hx true last Hw), (IH Hf'). reflexivity. }
  assert (HQuote : forall l, Forall Ps l -> Pw (CQuote l)).
  { intros l Hl H. cbn [wf_word] in H. apply andb_prop in H. cbn [xp_word]. exact (Hsegs l _ Hl (proj1 H)). }
  assert (HBare : forall l, Forall Ps l -> Pw (CBare l)).
  { intros l Hl H. cbn [wf_word] in H. apply andb_prop in H. destruct H as [H _].
    apply andb_prop in H. cbn [xp_word]. exact (Hsegs l _ Hl (proj2 H)). }
  assert (HExpand : forall w, Pw w -> Pw (CExpand w)).
  { intros w Hw H. cbn [wf_word] in H. cbn [xp_word].
    destruct w; try (rewrite (Hw H); reflexivity). discriminate H. }
  assert (HICmd : forall pre ws post term, Forall (fun gw => Pw (snd gw)) ws -> Pi (ICmd pre ws post term)).
  { intros pre ws post term Hws nested last H. cbn [wf_item] in H. apply andb_prop in H.
    destruct H as [_ H]. cbn [xp_item]. destruct ws as [|[g w1] r]; [reflexivity|].
    apply andb_prop in H. destruct H as [H Hr]. apply andb_prop in H. destruct H as [H _].
    apply andb_prop in H. destruct H as [_ W1].
    inversion Hws as [|x r' G1 Gr]; subst x r'. cbn [snd] in G1. cbn [forallb]. rewrite (G1 W1).
    clear - Gr Hr. induction Gr as [|[g w] r Gw Gr IH]; [reflexivity|].
    cbn [forallb] in *. apply andb_prop in Hr. destruct Hr as [Hw Hr]. apply andb_prop in Hw.
    cbn [snd] in Gw. rewrite (Gw (proj2 Hw)), (IH Hr). reflexivity. }
  split; [|split].
  - intros s. apply (seg_ind3 Ps Pw Pi); unfold Ps, Pw, Pi; try (intros; reflexivity); assumption.
  - intros w. apply (word_ind3 Ps Pw Pi); unfold Ps, Pw, Pi; try (intros; reflexivity); assumption.
  - intros i. apply (item_ind3 Ps Pw Pi); unfold Ps, Pw, Pi; try (intros; reflexivity); assumption.
Qed.

Lemma wf_xp_items sc : wf sc = true -> forallb xp_item sc = true.
Proof.
  intros H. pose proof (wf_items_forall false sc H) as Hf. clear H.
  induction Hf as [|x l [last Hx] Hl IH]; [reflexivity|].
  cbn [forallb]. rewrite (proj2 (proj2 wf_xp) x false last Hx), IH. reflexivity.
Qed.

Lemma map_as_str_VStr : forall l : list str, map as_str (map VStr l) = l.
Proof. induction l as [|a l IH]; [reflexivity|]. cbn [map as_str]. rewrite IH. reflexivity. Qed.

Section Sim2.
Variable exec : executor.
Notation ew := (Eval.eval_word exec).

Definition tk_semV (st0 : interp) (t : tokens) (st : interp) (s : str) : Prop :=
  forallb not_expand (tk_pieces t) = true
  /\ exists ls, eval_seq exec st0 (tk_pieces t) = (st, Ok (map VStr ls)) /\ concat_str ls = s.

Lemma tk_semV_new st : tk_semV st tk_new st [].
Proof. split; [reflexivity|]. exists []. split; reflexivity. Qed.

Lemma tk_semV_push st0 t st1 s w st2 v : tk_semV st0 t st1 s -> not_expand w = true ->
  ew st1 w = (st2, Ok (VStr v)) -> tk_semV st0 (tk_push t w) st2 (s ++ v).
Proof.
  intros (Hn & l & El & Es) Hw Ew.
  assert (Ep : tk_pieces (tk_push t w) = tk_pieces t ++ [w]).
  { unfold tk_pieces, tk_push. destruct (tk_str t); reflexivity. }
  split.
  - rewrite Ep, forallb_app, Hn. cbn [forallb]. rewrite Hw. reflexivity.
  - exists (l ++ [v]). rewrite Ep. rewrite (eval_seq_app exec _ [w] _ _ _ El).
    cbn [eval_seq]. rewrite Ew. rewrite map_app. split; [reflexivity|].
    rewrite concat_str_app, Es. cbn [concat_str]. rewrite app_nil_r. reflexivity.
Qed.

Lemma VStr_map_inv1 (x : str) ls : [VStr x] = map VStr ls -> ls = [x].
Proof. destruct ls as [|a [|b r]]; intros H; inversion H. reflexivity. Qed.

Lemma VStr_map_app_inv : forall la (y : str) ls, la ++ [VStr y] = map VStr ls ->
  exists l0, ls = l0 ++ [y] /\ la = map VStr l0.
Proof.
  induction la as [|a la IH]; intros y ls H.
  - apply VStr_map_inv1 in H. subst. exists []. split; reflexivity.
  - destruct ls as [|x ls]; [discriminate H|]. cbn [app map] in H. inversion H. subst a.
    destruct (IH y ls H2) as (l0 & A & B). exists (x :: l0). subst. split; reflexivity.
Qed.

Lemma tk_semV_char st0 t st s c : tk_semV st0 t st s -> tk_semV st0 (tk_push_char t c) st (s ++ [c]).
Proof.
  intros (Hn & l & El & Es). destruct t as [tl [x|]].
  - assert (Ep : tk_pieces {| tk_list := tl; tk_str := Some x |} = rev tl ++ [WString (rev x)])
      by reflexivity.
    assert (Ep' : tk_pieces (tk_push_char {| tk_list := tl; tk_str := Some x |} c)
                  = rev tl ++ [WString (rev x ++ [c])]) by reflexivity.
    rewrite Ep in *. rewrite forallb_app in Hn. apply andb_prop in Hn.
    destruct (eval_seq_app_inv exec _ _ _ _ _ El) as (st1 & la & lb & A & B & C).
    cbn [eval_seq Eval.eval_word] in B. inversion B. subst st1 lb.
    destruct (VStr_map_app_inv la (rev x) l (eq_sym C)) as (l0 & E0 & E1). subst l la.
    split.
    + rewrite Ep', forallb_app, (proj1 Hn). reflexivity.
    + exists (l0 ++ [rev x ++ [c]]). rewrite Ep'. rewrite (eval_seq_app exec _ _ _ _ _ A).
      cbn [eval_seq Eval.eval_word]. rewrite map_app. split; [reflexivity|].
      rewrite concat_str_app in *. cbn [concat_str] in *.
      rewrite app_nil_r in *. rewrite <- Es. rewrite app_assoc. reflexivity.
  - assert (Ep : tk_pieces {| tk_list := tl; tk_str := None |} = rev tl) by reflexivity.
    assert (Ep' : tk_pieces (tk_push_char {| tk_list := tl; tk_str := None |} c)
                  = rev tl ++ [WString [c]]) by reflexivity.
    rewrite Ep in *. split.
    + rewrite Ep', forallb_app, Hn. reflexivity.
    + exists (l ++ [[c]]). rewrite Ep'. rewrite (eval_seq_app exec _ _ _ _ _ El).
      cbn [eval_seq Eval.eval_word]. rewrite map_app. split; [reflexivity|].
      rewrite concat_str_app, Es. cbn [concat_str]. rewrite app_nil_r. reflexivity.
Qed.

Lemma tk_semV_chars st0 st : forall x t s, tk_semV st0 t st s ->
  tk_semV st0 (fold_left tk_push_char x t) st (s ++ x).
Proof.
  induction x as [|c x IH]; intros t s H.
  - cbn [fold_left]. rewrite app_nil_r. exact H.
  - cbn [fold_left]. replace (s ++ c :: x) with ((s ++ [c]) ++ x) by (rewrite <- app_assoc; reflexivity).
    apply IH. apply tk_semV_char. exact H.
Qed.

Lemma VStr_map_inv1' (v : value) ls : [v] = map VStr ls -> exists x, ls = [x] /\ v = VStr x.
Proof. destruct ls as [|a [|b r]]; intros H; inversion H. exists a. split; reflexivity. Qed.

Lemma take_listV st0 st : forall P ls, forallb not_expand P = true ->
  eval_seq exec st0 P = (st, Ok (map VStr ls)) ->
  ew st0 (take_list P) = (st, Ok (VStr (concat_str ls))) /\ not_expand (take_list P) = true.
Proof.
  intros P ls Hn El.
  assert (Htok : ew st0 (WTokens P) = (st, Ok (VStr (concat_str ls)))).
  { rewrite (tokens_concat_in_order exec st0 P Hn), El. rewrite map_as_str_VStr. reflexivity. }
  destruct P as [|w [|w2 P']].
  - split; [exact Htok|reflexivity].
  - cbn [eval_seq] in El. destruct (ew st0 w) as [st1 [v|e|p|]] eqn:Ew0; try discriminate El.
    inversion El. subst st1. apply VStr_map_inv1' in H1.
    cbn [forallb] in Hn. apply andb_prop in Hn. cbn [take_list].
    destruct H1 as (x & Ex & Ev). subst ls v. cbn [concat_str]. rewrite app_nil_r.
    split; [exact Ew0|exact (proj1 Hn)].
  - split; [exact Htok|reflexivity].
Qed.

Lemma tk_takeV st0 t st s : tk_semV st0 t st s ->
  ew st0 (tk_take t) = (st, Ok (VStr s)) /\ not_expand (tk_take t) = true.
Proof.
  intros (Hn & l & El & Es). subst s. destruct t as [tl [x|]].
  - destruct tl as [|w tl'].
    + cbn in El. inversion El. subst st. apply VStr_map_inv1 in H1. subst l.
      cbn. rewrite app_nil_r. split; reflexivity.
    + change (tk_take {| tk_list := w :: tl'; tk_str := Some x |})
        with (take_list (rev (WString (rev x) :: w :: tl'))).
      change (tk_pieces {| tk_list := w :: tl'; tk_str := Some x |})
        with (rev (WString (rev x) :: w :: tl')) in *.
      exact (take_listV st0 st _ l Hn El).
  - destruct tl as [|w [|w2 tl']].
    + cbn in El. inversion El. subst st. destruct l; [|discriminate]. split; reflexivity.
    + exact (take_listV st0 st [w] l Hn El).
    + unfold tk_take. cbn [tk_str tk_list].
      change (tk_pieces {| tk_list := w :: w2 :: tl'; tk_str := None |})
        with (rev (w :: w2 :: tl')) in *.
      rewrite (tokens_concat_in_order exec st0 _ Hn), El. rewrite map_as_str_VStr.
      split; reflexivity.
Qed.

(* ---------- the simulation, for any relation the commands respect ---------- *)
Variable R : gst -> interp -> Prop.
Variable Good : gst -> Prop.
Hypothesis Good_step : forall g argv g' s, run_command g argv = Some (g', s) -> Good g' -> Good g.
Hypothesis R_var : forall g st n s, R g st -> has_char c_lparen n = false ->
  env_get n (g_env g) = Some s -> sc_get (i_scopes st) n = Ok (VStr s).
Hypothesis R_elem : forall g st n i s, R g st ->
  env_get (n ++ [c_lparen] ++ i ++ [c_rparen]) (g_env g) = Some s ->
  sc_get_elem (i_scopes st) n i = Ok (VStr s).
Hypothesis R_cmd : forall g st strs g' s, R g st ->
  run_command g strs = Some (g', s) -> Good g' ->
  exists cmd st', assoc_get (hd [] strs) (i_cmds st) = Some cmd
    /\ exec st cmd (map VStr strs) = (st', Ok (VStr s)) /\ R g' st'.

(* Good goes backwards along the specification's evaluation *)
Definition seg_back (s : seg) : Prop :=
  forall g g' v, eval_seg g s = Some (g', v) -> Good g' -> Good g.
Definition word_back (w : wordc) : Prop :=
  forall g g' v, SpecGrammar.eval_word g w = Some (g', v) -> Good g' -> Good g.
Definition item_back (i : item) : Prop :=
  forall g g' r, eval_item g i = Some (g', r) -> Good g' -> Good g.

Lemma segs_back : forall l, Forall seg_back l ->
  forall g g' v, spec_segs g l = Some (g', v) -> Good g' -> Good g.
Proof.
  induction 1 as [|x l Hx Hl IH]; intros g g' v E HG.
  - cbn in E. inversion E. subst. exact HG.
  - cbn [spec_segs] in E. fold spec_segs in E.
    destruct (eval_seg g x) as [[g1 v1]|] eqn:Ex; [|discriminate E].
    destruct (spec_segs g1 l) as [[g2 v2]|] eqn:El; [|discriminate E].
    inversion E. subst. exact (Hx g g1 v1 Ex (IH g1 g' v2 El HG)).
Qed.

Lemma items_back : forall l, Forall item_back l ->
  forall g g' res res', eval_items g l res = Some (g', res') -> Good g' -> Good g.
Proof.
  induction 1 as [|x l Hx Hl IH]; intros g g' res res' E HG.
  - cbn in E. inversion E. subst. exact HG.
  - cbn [eval_items] in E. destruct (eval_item g x) as [[g1 [v|]]|] eqn:Ex; [| |discriminate E].
    + exact (Hx g g1 _ Ex (IH g1 g' _ _ E HG)).
    + exact (Hx g g1 _ Ex (IH g1 g' _ _ E HG)).
Qed.

Lemma words_back : forall ws, Forall (fun gw => word_back (snd gw)) ws ->
  forall g g' argv, spec_words g ws = Some (g', argv) -> Good g' -> Good g.
Proof.
  induction 1 as [|[g0 w] ws Hw Hws IH]; intros g g' argv E HG.
  - cbn in E. inversion E. subst. exact HG.
  - cbn [spec_words] in E. fold spec_words in E. cbn [snd] in Hw.
    destruct (SpecGrammar.eval_word g w) as [[g1 v]|] eqn:Ew; [|discriminate E].
    destruct (match w with CExpand _ => split_simple v [] [] | _ => Some [v] end); [|discriminate E].
    destruct (spec_words g1 ws) as [[g2 vs2]|] eqn:Er; [|discriminate E].
    inversion E. subst. exact (Hw g g1 v Ew (IH g1 g' vs2 Er HG)).
Qed.

Lemma tree_back : (forall s, seg_back s) /\ (forall w, word_back w) /\ (forall i, item_back i).
Proof.
  assert (HLit : forall x, seg_back (SLit x)) by (intros x g g' v E HG; cbn in E; inversion E; subst; exact HG).
  assert (HEsc : forall k a, seg_back (SEsc k a)) by (intros k a g g' v E HG; cbn in E; inversion E; subst; exact HG).
  assert (HVar : forall n, seg_back (SVar n)).
  { intros n g g' v E HG. cbn [eval_seg] in E. destruct (env_get n (g_env g)); [|discriminate E].
    inversion E. subst. exact HG. }
  assert (HBVar : forall n, seg_back (SBVar n)).
  { intros n g g' v E HG. cbn [eval_seg] in E. destruct (env_get n (g_env g)); [|discriminate E].
    inversion E. subst. exact HG. }
  assert (HArr : forall n idx, Forall seg_back idx -> seg_back (SArr n idx)).
  { intros n idx Hidx g g' v E HG. rewrite spec_arr in E.
    destruct (spec_segs g idx) as [[g1 i]|] eqn:Ei; [|discriminate E].
    destruct (env_get _ (g_env g1)); [|discriminate E]. inversion E. subst.
    exact (segs_back idx Hidx g g' i Ei HG). }
  assert (HCmd : forall sc, Forall item_back sc -> seg_back (SCmd sc)).
  { intros sc Hsc g g' v E HG. rewrite spec_scmd in E. exact (items_back sc Hsc g g' [] v E HG). }
  assert (HBrace : forall b, word_back (CBrace b)) by (intros b g g' v E HG; cbn in E; inversion E; subst; exact HG).
  assert (HQuote : forall l, Forall seg_back l -> word_back (CQuote l)).
  { intros l Hl g g' v E HG. rewrite spec_quote in E. exact (segs_back l Hl g g' v E HG). }
  assert (HBare : forall l, Forall seg_back l -> word_back (CBare l)).
  { intros l Hl g g' v E HG. rewrite spec_bare in E. exact (segs_back l Hl g g' v E HG). }
  assert (HExpand : forall w, word_back w -> word_back (CExpand w)).
  { intros w Hw g g' v E HG. exact (Hw g g' v E HG). }
  assert (HICmd : forall pre ws post term, Forall (fun gw => word_back (snd gw)) ws ->
                  item_back (ICmd pre ws post term)).
  { intros pre ws post term Hws g g' r E HG. rewrite spec_icmd in E.
    destruct (spec_words g ws) as [[g1 argv]|] eqn:Ew; [|discriminate E].
    destruct (run_command g1 argv) as [[g2 v]|] eqn:Erun; [|discriminate E].
    inversion E. subst. exact (words_back ws Hws g g1 argv Ew (Good_step _ _ _ _ Erun HG)). }
  assert (HComment : forall pre text term, item_back (IComment pre text term))
    by (intros pre text term g g' r E HG; cbn in E; inversion E; subst; exact HG).
  assert (HEmpty : forall pre term, item_back (IEmpty pre term))
    by (intros pre term g g' r E HG; cbn in E; inversion E; subst; exact HG).
  split; [|split].
  - exact (seg_ind3 seg_back word_back item_back HLit HEsc HVar HBVar HArr HCmd HBrace HQuote HBare
             HExpand HICmd HComment HEmpty).
  - exact (word_ind3 seg_back word_back item_back HLit HEsc HVar HBVar HArr HCmd HBrace HQuote HBare
             HExpand HICmd HComment HEmpty).
  - exact (item_ind3 seg_back word_back item_back HLit HEsc HVar HBVar HArr HCmd HBrace HQuote HBare
             HExpand HICmd HComment HEmpty).
Qed.

Lemma all_seg_back l : Forall seg_back l.
Proof. apply Forall_forall. intros x _. exact (proj1 tree_back x). Qed.
Lemma all_item_back l : Forall item_back l.
Proof. apply Forall_forall. intros x _. exact (proj2 (proj2 tree_back) x). Qed.
Lemma all_word_back (ws : list (str * wordc)) : Forall (fun gw => word_back (snd gw)) ws.
Proof. apply Forall_forall. intros x _. exact (proj1 (proj2 tree_back) (snd x)). Qed.

Definition inner_ast (w : wordc) : word :=
  match w with CExpand w' => ast_word0 w' | _ => ast_word0 w end.

Definition seg_simV (s : seg) : Prop :=
  forall g g' sv, eval_seg g s = Some (g', sv) -> xp_seg s = true -> Good g' ->
  forall st, R g st -> forall st0 t s0, tk_semV st0 t st s0 ->
  exists st', R g' st' /\ tk_semV st0 (tok_seg0 t s) st' (s0 ++ sv).

Definition word_simV (w : wordc) : Prop :=
  forall g g' sv, SpecGrammar.eval_word g w = Some (g', sv) -> xp_word w = true -> Good g' ->
  forall st, R g st ->
  exists st', ew st (inner_ast w) = (st', Ok (VStr sv)) /\ R g' st'
    /\ not_expand (inner_ast w) = true.

Definition item_simV (i : item) : Prop :=
  forall g g' r, eval_item g i = Some (g', r) -> xp_item i = true -> Good g' ->
  forall st, R g st -> forall result,
  match ast_item0 i with
  | Some ws =>
      exists st' result', R g' st'
        /\ (forall rest_cmds, eval_cmds_with exec ew st (ws :: rest_cmds) result
                              = eval_cmds_with exec ew st' rest_cmds result')
        /\ match r with Some sv => result' = VStr sv | None => result' = result end
  | None => g' = g /\ r = None
  end.

Lemma segs_simV : forall l, Forall seg_simV l ->
  forall g g' sv, spec_segs g l = Some (g', sv) -> forallb xp_seg l = true -> Good g' ->
  forall st, R g st -> forall st0 t s0, tk_semV st0 t st s0 ->
  exists st', R g' st' /\ tk_semV st0 (fold_left tok_seg0 l t) st' (s0 ++ sv).
Proof.
  induction 1 as [|x l Hx Hl IH]; intros g g' sv E Hn HG st HR st0 t s0 Ht.
  - cbn in E. inversion E. subst. exists st. rewrite app_nil_r. split; assumption.
  - cbn [forallb] in Hn. apply andb_prop in Hn. destruct Hn as [Nx Nl].
    cbn [spec_segs] in E. fold spec_segs in E.
    destruct (eval_seg g x) as [[g1 v]|] eqn:Ex; [|discriminate E].
    destruct (spec_segs g1 l) as [[g2 v2]|] eqn:El; [|discriminate E].
    inversion E. subst g' sv.
    pose proof (segs_back l (all_seg_back l) g1 g2 v2 El HG) as HG1.
    destruct (Hx g g1 v Ex Nx HG1 st HR st0 t s0 Ht) as (st1 & R1 & T1).
    destruct (IH g1 g2 v2 El Nl HG st1 R1 st0 _ _ T1) as (st2 & R2 & T2).
    exists st2. split; [exact R2|]. cbn [fold_left]. rewrite app_assoc. exact T2.
Qed.

Lemma items_simV : forall l, Forall item_simV l ->
  forall g g' res res', eval_items g l res = Some (g', res') -> forallb xp_item l = true -> Good g' ->
  forall st, R g st -> forall p,
  exists st', eval_cmds_with exec ew st (items_with ast_item0 l p) (VStr res) = (st', Ok (VStr res'))
    /\ R g' st'.
Proof.
  induction 1 as [|x l Hx Hl IH]; intros g g' res res' E Hn HG st HR p.
  - cbn in E. inversion E. subst. exists st. split; [destruct p; reflexivity|assumption].
  - cbn [forallb] in Hn. apply andb_prop in Hn. destruct Hn as [Nx Nl].
    cbn [eval_items] in E. destruct (eval_item g x) as [[g1 r]|] eqn:Ex; [|discriminate E].
    assert (HG1 : Good g1).
    { destruct r; exact (items_back l (all_item_back l) g1 g' _ _ E HG). }
    specialize (Hx g g1 r Ex Nx HG1 st HR (VStr res)). cbn [items_with].
    destruct (ast_item0 x) as [ws|].
    + destruct Hx as (st1 & result' & R1 & Hstep & Hres). rewrite Hstep.
      destruct r as [sv|]; subst result'.
      * exact (IH g1 g' sv res' E Nl HG st1 R1 _).
      * exact (IH g1 g' res res' E Nl HG st1 R1 _).
    + destruct Hx as [Eg Er]. subst g1 r. exact (IH g g' res res' E Nl HG st HR _).
Qed.

Lemma words_simV : forall ws, Forall (fun gw => word_simV (snd gw)) ws ->
  forall g g' argv, spec_words g ws = Some (g', argv) ->
  forallb (fun gw => match gw with (_, w) => xp_word w end) ws = true -> Good g' ->
  forall st, R g st -> forall acc,
  exists st',
    eval_words_with ew st (map (fun gw => match gw with (_, w) => ast_word0 w end) ws) acc
    = (st', Ok (rev acc ++ map VStr argv))
    /\ R g' st'.
Proof.
  induction 1 as [|[g0 w] ws Hw Hws IH]; intros g g' argv E Hn HG st HR acc.
  - cbn in E. inversion E. subst. exists st. cbn. rewrite app_nil_r. split; [reflexivity|assumption].
  - cbn [forallb] in Hn. apply andb_prop in Hn. destruct Hn as [Nw Nws]. cbn [snd] in Hw.
    cbn [spec_words] in E. fold spec_words in E.
    destruct (SpecGrammar.eval_word g w) as [[g1 v]|] eqn:Ew; [|discriminate E].
    destruct (match w with CExpand _ => split_simple v [] [] | _ => Some [v] end) as [vs|] eqn:Evs;
      [|discriminate E].
    destruct (spec_words g1 ws) as [[g2 vs2]|] eqn:Er; [|discriminate E].
    inversion E. subst g' argv.
    pose proof (words_back ws (all_word_back ws) g1 g2 vs2 Er HG) as HG1.
    destruct (Hw g g1 v Ew Nw HG1 st HR) as (st1 & E1 & R1 & X1).
    destruct (IH g1 g2 vs2 Er Nws HG st1 R1 (rev (map VStr vs) ++ acc)) as (st2 & E2 & R2).
    exists st2. split; [|exact R2]. cbn [map].
    assert (Estep : eval_words_with ew st (ast_word0 w :: map (fun gw => match gw with (_, w) => ast_word0 w end) ws) acc
                    = eval_words_with ew st1 (map (fun gw => match gw with (_, w) => ast_word0 w end) ws)
                        (rev (map VStr vs) ++ acc)).
    { destruct w as [b|l|l|w'].
      - inversion Evs. subst vs. cbn [inner_ast] in *.
        destruct (ast_word0 (CBrace b)) eqn:Eaw; try discriminate X1; cbn [eval_words_with]; rewrite E1; reflexivity.
      - inversion Evs. subst vs. cbn [inner_ast] in *.
        destruct (ast_word0 (CQuote l)) eqn:Eaw; try discriminate X1; cbn [eval_words_with]; rewrite E1; reflexivity.
      - inversion Evs. subst vs. cbn [inner_ast] in *.
        destruct (ast_word0 (CBare l)) eqn:Eaw; try discriminate X1; cbn [eval_words_with]; rewrite E1; reflexivity.
      - cbn [inner_ast] in *. cbn [ast_word0 eval_words_with]. rewrite E1.
        rewrite (split_simple_as_list v vs Evs). reflexivity. }
    rewrite Estep, E2. f_equal. f_equal.
    rewrite rev_app_distr, rev_involutive, map_app, <- app_assoc. reflexivity.
Qed.

Lemma tree_simV : (forall s, seg_simV s) /\ (forall w, word_simV w) /\ (forall i, item_simV i).
Proof.
  assert (HLit : forall x, seg_simV (SLit x)).
  { intros x g g' sv E _ _ st HR st0 t s0 Ht. cbn in E. inversion E. subst.
    exists st. split; [assumption|]. cbn [tok_seg0]. apply tk_semV_chars. exact Ht. }
  assert (HEsc : forall k a, seg_simV (SEsc k a)).
  { intros k a g g' sv E _ _ st HR st0 t s0 Ht. cbn in E. inversion E. subst.
    exists st. split; [assumption|]. cbn [tok_seg0]. apply tk_semV_char. exact Ht. }
  assert (HVar : forall n, seg_simV (SVar n)).
  { intros n g g' sv E Hnp _ st HR st0 t s0 Ht. cbn [eval_seg] in E. cbn [xp_seg] in Hnp.
    apply negb_true_iff in Hnp.
    destruct (env_get n (g_env g)) as [v|] eqn:Eg; [|discriminate E]. inversion E. subst.
    pose proof (R_var _ _ _ _ HR Hnp Eg) as Gv.
    exists st. split; [assumption|]. cbn [tok_seg0].
    apply (tk_semV_push st0 t st s0 (WVarRef n) st sv Ht eq_refl).
    cbn [Eval.eval_word]. unfold st_scalar. rewrite Gv. reflexivity. }
  assert (HBVar : forall n, seg_simV (SBVar n)).
  { intros n g g' sv E Hnp _ st HR st0 t s0 Ht. cbn [eval_seg] in E. cbn [xp_seg] in Hnp.
    apply negb_true_iff in Hnp.
    destruct (env_get n (g_env g)) as [v|] eqn:Eg; [|discriminate E]. inversion E. subst.
    pose proof (R_var _ _ _ _ HR Hnp Eg) as Gv.
    exists st. split; [assumption|]. cbn [tok_seg0].
    apply (tk_semV_push st0 t st s0 (WVarRef n) st sv Ht eq_refl).
    cbn [Eval.eval_word]. unfold st_scalar. rewrite Gv. reflexivity. }
  assert (HArr : forall n idx, Forall seg_simV idx -> seg_simV (SArr n idx)).
  { intros n idx Hidx g g' sv E Hn HG st HR st0 t s0 Ht. rewrite spec_arr in E. cbn [xp_seg] in Hn.
    destruct (spec_segs g idx) as [[g1 i]|] eqn:Ei; [|discriminate E].
    destruct (env_get _ (g_env g1)) as [v|] eqn:Eg; [|discriminate E]. inversion E. subst g' sv.
    destruct (segs_simV idx Hidx g g1 i Ei Hn HG st HR st tk_new [] (tk_semV_new st)) as (st1 & R1 & T1).
    cbn [app] in T1. destruct (tk_takeV _ _ _ _ T1) as (Ev & _).
    pose proof (R_elem _ _ _ _ _ R1 Eg) as Gv.
    exists st1. split; [assumption|]. cbn [tok_seg0].
    apply (tk_semV_push st0 t st s0 (WArrayRef n (tk_take (fold_left tok_seg0 idx tk_new))) st1 v Ht eq_refl).
    cbn [Eval.eval_word]. rewrite Ev. unfold st_element. cbn [as_str]. rewrite Gv. reflexivity. }
  assert (HCmd : forall sc, Forall item_simV sc -> seg_simV (SCmd sc)).
  { intros sc Hsc g g' sv E Hn HG st HR st0 t s0 Ht. rewrite spec_scmd in E. cbn [xp_seg] in Hn.
    destruct (items_simV sc Hsc g g' [] sv E Hn HG st HR false) as (st1 & Ev & R1).
    exists st1. split; [assumption|]. cbn [tok_seg0].
    apply (tk_semV_push st0 t st s0 (WScript (items_with ast_item0 sc false)) st1 sv Ht eq_refl).
    cbn [Eval.eval_word]. exact Ev. }
  assert (HBrace : forall b, word_simV (CBrace b)).
  { intros b g g' sv E _ _ st HR. cbn in E. inversion E. subst.
    exists st. repeat split. assumption. }
  assert (HSegsWord : forall l, Forall seg_simV l -> forall g g' sv, spec_segs g l = Some (g', sv) ->
            forallb xp_seg l = true -> Good g' -> forall st, R g st ->
            exists st', ew st (tk_take (fold_left tok_seg0 l tk_new)) = (st', Ok (VStr sv)) /\ R g' st'
              /\ not_expand (tk_take (fold_left tok_seg0 l tk_new)) = true).
  { intros l Hl g g' sv E Hn HG st HR.
    destruct (segs_simV l Hl g g' sv E Hn HG st HR st tk_new [] (tk_semV_new st)) as (st1 & R1 & T1).
    cbn [app] in T1. destruct (tk_takeV _ _ _ _ T1) as (Ev & Xv).
    exists st1. repeat split; assumption. }
  assert (HQuote : forall l, Forall seg_simV l -> word_simV (CQuote l)).
  { intros l Hl g g' sv E Hn HG st HR. rewrite spec_quote in E. cbn [xp_word] in Hn.
    exact (HSegsWord l Hl g g' sv E Hn HG st HR). }
  assert (HBare : forall l, Forall seg_simV l -> word_simV (CBare l)).
  { intros l Hl g g' sv E Hn HG st HR. rewrite spec_bare in E. cbn [xp_word] in Hn.
    exact (HSegsWord l Hl g g' sv E Hn HG st HR). }
  assert (HExpand : forall w, word_simV w -> word_simV (CExpand w)).
  { intros w Hw g g' sv E Hn HG st HR. cbn [xp_word] in Hn. apply andb_prop in Hn.
    destruct Hn as [Hne Hx]. cbn [inner_ast].
    assert (Ei : inner_ast w = ast_word0 w) by (destruct w; try reflexivity; discriminate Hne).
    rewrite <- Ei. exact (Hw g g' sv E Hx HG st HR). }
  assert (HICmd : forall pre ws post term, Forall (fun gw => word_simV (snd gw)) ws ->
                  item_simV (ICmd pre ws post term)).
  { intros pre ws post term Hws g g' r E Hn HG st HR result. rewrite spec_icmd in E.
    cbn [xp_item] in Hn. cbn [ast_item0].
    destruct (spec_words g ws) as [[g1 argv]|] eqn:Ew; [|discriminate E].
    destruct (run_command g1 argv) as [[g2 v]|] eqn:Erun; [|discriminate E].
    inversion E. subst g' r.
    pose proof (Good_step _ _ _ _ Erun HG) as HG1.
    destruct (words_simV ws Hws g g1 argv Ew Hn HG1 st HR []) as (st1 & Ev & R1).
    cbn [rev app] in Ev.
    destruct (R_cmd _ _ _ _ _ R1 Erun HG) as (cmd & st2 & Ecmd & Eexec & R2).
    exists st2, (VStr v). split; [exact R2|]. split; [|reflexivity].
    intros rest_cmds. cbn [eval_cmds_with]. rewrite Ev.
    destruct argv as [|a argv']; [cbn in Erun; discriminate Erun|].
    cbn [map hd as_str] in *. rewrite Ecmd, Eexec. reflexivity. }
  assert (HComment : forall pre text term, item_simV (IComment pre text term)).
  { intros pre text term g g' r E _ _ st HR result. cbn in E. inversion E. subst. split; reflexivity. }
  assert (HEmpty : forall pre term, item_simV (IEmpty pre term)).
  { intros pre term g g' r E _ _ st HR result. cbn in E. inversion E. subst.
    cbn [ast_item0]. destruct (str_eqb term [c_semi]); [|split; reflexivity].
    exists st, result. split; [assumption|]. split; [|reflexivity]. intros rest_cmds. reflexivity. }
  split; [|split].
  - exact (seg_ind3 seg_simV word_simV item_simV HLit HEsc HVar HBVar HArr HCmd HBrace HQuote HBare
             HExpand HICmd HComment HEmpty).
  - exact (word_ind3 seg_simV word_simV item_simV HLit HEsc HVar HBVar HArr HCmd HBrace HQuote HBare
             HExpand HICmd HComment HEmpty).
  - exact (item_ind3 seg_simV word_simV item_simV HLit HEsc HVar HBVar HArr HCmd HBrace HQuote HBare
             HExpand HICmd HComment HEmpty).
Qed.

(* G4 with {*}: the commands invoked, their order and arguments, the variables left and the
   result are those the specification computes on the tree *)
Theorem eval_agrees_with_expected2 : forall sc env trace env' res st,
  forallb xp_item sc = true ->
  expected env sc = Some (trace, env', res) ->
  (forall g, g_env g = env' -> Good g) ->
  R {| g_env := env; g_trace := [] |} st ->
  exists st' g', eval_script exec st (ast_of sc) = (st', Ok (VStr res))
    /\ R g' st' /\ rev (g_trace g') = trace /\ g_env g' = env'.
Proof.
  intros sc env trace env' res st Hn E HGood HR. unfold expected in E.
  destruct (eval_items {| g_env := env; g_trace := [] |} sc []) as [[g' v]|] eqn:Ei; [|discriminate E].
  inversion E. subst trace env' res.
  destruct (items_simV sc) with (g := {| g_env := env; g_trace := [] |}) (g' := g') (res := @nil char)
    (res' := v) (st := st) (p := false) as (st' & Ev & R'); try assumption.
  { apply Forall_forall. intros i _. exact (proj2 (proj2 tree_simV) i). }
  { apply HGood. reflexivity. }
  exists st', g'. repeat split; assumption.
Qed.

End Sim2.

Print Assumptions eval_agrees_with_expected2.

(* ====================================================================== *)
(* 4. the model's own executor with the checker's commands rec, set, c     *)
(* ====================================================================== *)

Definition akey (n i : str) : str := n ++ [c_lparen] ++ i ++ [c_rparen].

Lemma akey_paren n i : has_char c_lparen (akey n i) = true.
Proof.
  unfold akey, has_char. rewrite existsb_app. cbn [app existsb].
  change (c_lparen =? c_lparen) with true. cbn [orb]. apply orb_true_r.
Qed.

Lemma akey_neq n i k : has_char c_lparen k = false -> akey n i <> k.
Proof. intros H E. subst k. rewrite akey_paren in H. discriminate H. Qed.

(* a name is not both a scalar and the name of array elements *)
Definition consistent (env : list (str * str)) : Prop :=
  forall n i, has_char c_lparen n = false -> env_get n env <> None -> env_get (akey n i) env = None.

Lemma run_command_env g argv g' s : run_command g argv = Some (g', s) ->
  g_env g' = g_env g
  \/ exists n v, has_char c_lparen n = false /\ g_env g' = env_set n v (g_env g).
Proof.
  unfold run_command. destruct argv as [|name args]; [discriminate|].
  destruct (str_eqb name (lit "rec")); [intros H; inversion H; left; reflexivity|].
  destruct (str_eqb name (lit "c")); [intros H; inversion H; left; reflexivity|].
  destruct (str_eqb name (lit "set")); [|discriminate].
  destruct args as [|n [|v [|? ?]]]; try discriminate.
  - destruct (has_char c_lparen n); [discriminate|].
    destruct (env_get n (g_env g)); [|discriminate]. intros H; inversion H; left; reflexivity.
  - destruct (has_char c_lparen n) eqn:Hp; [discriminate|].
    intros H; inversion H. subst. right. exists n, s. split; [exact Hp|reflexivity].
Qed.

Lemma consistent_step g argv g' s : run_command g argv = Some (g', s) ->
  consistent (g_env g') -> consistent (g_env g).
Proof.
  intros E HC. destruct (run_command_env g argv g' s E) as [Ee|(n & v & Hp & Ee)]; rewrite Ee in HC.
  - exact HC.
  - intros k i Hk Hget.
    assert (Hk' : env_get k (env_set n v (g_env g)) <> None).
    { destruct (list_eq_dec N.eq_dec k n) as [En|En].
      - subst k. rewrite env_get_set_same. discriminate.
      - rewrite (env_get_set_other _ _ _ En). exact Hget. }
    pose proof (HC k i Hk Hk') as H. rewrite env_get_set_other in H; [exact H|].
    apply akey_neq. exact Hp.
Qed.

Section Concrete2.
Variable U : uni.
Variable fuel : nat.
Hypothesis HU : name_ok (u_alnum U).

Definition cexec2 : executor := run_exec U (S (S fuel)).

Definition Rc2 (g : gst) (st : interp) : Prop :=
  i_trace st = g_trace g
  /\ (exists c1, assoc_get (lit "rec") (i_cmds st) = Some (CmdNative NRecorder c1))
  /\ (exists c2, assoc_get (lit "set") (i_cmds st) = Some (CmdNative NSet c2))
  /\ assoc_get (lit "c") (i_cmds st) = Some c_proc
  /\ scope_inv (i_scopes st)
  /\ i_levels st < i_limit st
  /\ (forall n, has_char c_lparen n = false ->
        match env_get n (g_env g) with
        | Some s => shape_of (i_scopes st) n = Scalar (VStr s)
        | None => (forall m, shape_of (i_scopes st) n <> Array m)
                  \/ (exists i, env_get (akey n i) (g_env g) <> None)
        end)
  /\ (forall n i s, env_get (akey n i) (g_env g) = Some s ->
        sc_get_elem (i_scopes st) n i = Ok (VStr s)).

Lemma Rc2_var : forall g st n s, Rc2 g st -> has_char c_lparen n = false ->
  env_get n (g_env g) = Some s -> sc_get (i_scopes st) n = Ok (VStr s).
Proof.
  intros g st n s (_ & _ & _ & _ & Hinv & _ & Henv & _) Hp E. specialize (Henv n Hp). rewrite E in Henv.
  rewrite (sc_get_by_shape _ _ Hinv), Henv. reflexivity.
Qed.

Lemma Rc2_elem : forall g st n i s, Rc2 g st ->
  env_get (n ++ [c_lparen] ++ i ++ [c_rparen]) (g_env g) = Some s ->
  sc_get_elem (i_scopes st) n i = Ok (VStr s).
Proof. intros g st n i s (_ & _ & _ & _ & _ & _ & _ & Hel) E. exact (Hel n i s E). Qed.

Lemma Rc2_cmd : forall g st strs g' s, Rc2 g st ->
  run_command g strs = Some (g', s) -> consistent (g_env g') ->
  exists cmd st', assoc_get (hd [] strs) (i_cmds st) = Some cmd
    /\ cexec2 st cmd (map VStr strs) = (st', Ok (VStr s)) /\ Rc2 g' st'.
Proof.
  intros g st strs g' s HR E HG.
  destruct HR as (Htr & (c1 & Hrec) & (c2 & Hset) & Hc & Hinv & Hlev & Henv & Hel).
  destruct strs as [|name args]; [discriminate E|].
  cbn [run_command hd] in *.
  destruct (str_eqb name (lit "rec")) eqn:Er.
  { apply str_eqb_eq in Er. subst name. inversion E. subst g' s.
    exists (CmdNative NRecorder c1),
           (set_trace st (map as_str (map VStr (lit "rec" :: args)) :: i_trace st)).
    split; [exact Hrec|]. split.
    - change (cexec2 st (CmdNative NRecorder c1) (map VStr (lit "rec" :: args)))
        with (cmd_recorder st (map VStr (lit "rec" :: args))).
      unfold cmd_recorder, ret. rewrite last_VStr. reflexivity.
    - unfold Rc2. cbn [i_trace set_trace i_cmds i_scopes i_levels i_limit g_trace g_env].
      rewrite map_as_str_VStr, Htr.
      split; [reflexivity|]. split; [eauto|]. split; [eauto|]. split; [exact Hc|].
      split; [exact Hinv|]. split; [exact Hlev|]. split; [exact Henv|exact Hel]. }
  destruct (str_eqb name (lit "c")) eqn:Ec.
  { apply str_eqb_eq in Ec. subst name. inversion E. subst g' s.
    exists c_proc, (set_trace st ((lit "rec" :: lit "c" :: map as_str (map VStr args)) :: i_trace st)).
    split; [exact Hc|]. split.
    - unfold cexec2. cbn [map].
      rewrite (c_proc_behaves U fuel st (VStr (lit "c")) (map VStr args) c1 HU Hrec Hlev).
      f_equal. f_equal.
      change (VStr (lit "rec") :: VStr (lit "c") :: map VStr args)
        with (map VStr (lit "rec" :: lit "c" :: args)).
      rewrite last_VStr. reflexivity.
    - unfold Rc2. cbn [i_trace set_trace i_cmds i_scopes i_levels i_limit g_trace g_env].
      rewrite map_as_str_VStr, Htr.
      split; [reflexivity|]. split; [eauto|]. split; [eauto|]. split; [exact Hc|].
      split; [exact Hinv|]. split; [exact Hlev|]. split; [exact Henv|exact Hel]. }
  destruct (str_eqb name (lit "set")) eqn:Es; [|discriminate E].
  apply str_eqb_eq in Es. subst name.
  destruct args as [|n [|v [|? ?]]]; try discriminate E.
  - (* set name *)
    destruct (has_char c_lparen n) eqn:Hp; [discriminate E|].
    pose proof (Henv n Hp) as Hn.
    destruct (env_get n (g_env g)) as [w|] eqn:Eg; [|discriminate E].
    inversion E. subst g' s.
    exists (CmdNative NSet c2), st. split; [exact Hset|]. split.
    + change (cexec2 st (CmdNative NSet c2) (map VStr [lit "set"; n]))
        with (cmd_set st [VStr (lit "set"); VStr n]).
      unfold cmd_set.
      change (check_args "cmd_set" [VStr (lit "set"); VStr n]) with (@Ok unit tt). cbn [lift bind].
      cbn [length Nat.eqb]. unfold arg. cbn [nth]. unfold lift, st_var, as_var_name. cbn [as_str].
      rewrite (no_paren_literal _ Hp).
      unfold st_scalar. rewrite (sc_get_by_shape _ _ Hinv), Hn. reflexivity.
    + unfold Rc2.
      split; [exact Htr|]. split; [eauto|]. split; [eauto|]. split; [exact Hc|].
      split; [exact Hinv|]. split; [exact Hlev|]. split; [exact Henv|exact Hel].
  - (* set name value *)
    destruct (has_char c_lparen n) eqn:Hp; [discriminate E|].
    inversion E. subst g' s. cbn [g_env] in HG.
    assert (Hkey : forall i, env_get (akey n i) (g_env g) = None).
    { intros i. pose proof (HG n i Hp) as H. rewrite env_get_set_same in H.
      rewrite env_get_set_other in H by (apply akey_neq; exact Hp). apply H. discriminate. }
    assert (Hna : forall m, shape_of (i_scopes st) n <> Array m).
    { pose proof (Henv n Hp) as Hn. destruct (env_get n (g_env g)).
      - intros m. rewrite Hn. discriminate.
      - destruct Hn as [Hn|(i & Hn)]; [exact Hn|]. rewrite Hkey in Hn. congruence. }
    destruct (sc_set_on_unset_or_scalar (i_scopes st) n (VStr v) Hinv Hna) as [Eset Hsh].
    destruct (sc_set_get _ _ _ _ Hinv Eset) as (Hinv' & _ & _ & Hoth & _ & Hothel).
    set (ss' := sc_put (i_scopes st) (sc_target (i_scopes st) n) n (VarScalar (VStr v))) in *.
    exists (CmdNative NSet c2), (set_scopes st ss'). split; [exact Hset|]. split.
    + change (cexec2 st (CmdNative NSet c2) (map VStr [lit "set"; n; v]))
        with (cmd_set st [VStr (lit "set"); VStr n; VStr v]).
      unfold cmd_set.
      change (check_args "cmd_set" [VStr (lit "set"); VStr n; VStr v]) with (@Ok unit tt).
      cbn [lift bind]. cbn [length Nat.eqb]. unfold arg. cbn [nth].
      unfold st_set_var_return, st_set_var, as_var_name. cbn [as_str].
      rewrite (no_paren_literal _ Hp). unfold st_set_scalar. rewrite Eset. reflexivity.
    + unfold Rc2. cbn [i_trace set_scopes i_cmds i_scopes i_levels i_limit g_trace g_env].
      split; [exact Htr|]. split; [eauto|]. split; [eauto|]. split; [exact Hc|].
      split; [exact Hinv'|]. split; [exact Hlev|]. split.
      * intros k Hk. destruct (list_eq_dec N.eq_dec k n) as [En|En].
        -- subst k. rewrite env_get_set_same. exact Hsh.
        -- rewrite (env_get_set_other _ _ _ En).
           assert (Esh : shape_of ss' k = shape_of (i_scopes st) k).
           { unfold shape_of. rewrite (Hoth k En). reflexivity. }
           rewrite Esh. pose proof (Henv k Hk) as Hkk.
           destruct (env_get k (g_env g)); [exact Hkk|].
           destruct Hkk as [Hkk|(i & Hkk)]; [left; exact Hkk|right].
           exists i. rewrite env_get_set_other by (apply akey_neq; exact Hp). exact Hkk.
      * intros k i s Hs. rewrite env_get_set_other in Hs by (apply akey_neq; exact Hp).
        destruct (list_eq_dec N.eq_dec k n) as [En|En].
        -- subst k. rewrite Hkey in Hs. discriminate Hs.
        -- rewrite (Hothel k i En). exact (Hel k i s Hs).
Qed.

(* C02 for the model's own executor, {*} and the procedure c included *)
Theorem eval_agrees_concrete2 : forall sc env trace env' res st,
  wf sc = true ->
  expected env sc = Some (trace, env', res) ->
  consistent env' ->
  Rc2 {| g_env := env; g_trace := [] |} st ->
  exists st', eval_script cexec2 st (ast_of sc) = (st', Ok (VStr res))
    /\ rev (i_trace st') = trace
    /\ (forall n s, has_char c_lparen n = false -> env_get n env' = Some s ->
          sc_get (i_scopes st') n = Ok (VStr s))
    /\ (forall n i s, env_get (akey n i) env' = Some s ->
          sc_get_elem (i_scopes st') n i = Ok (VStr s))
    /\ i_levels st' = i_levels st.
Proof.
  intros sc env trace env' res st Hw E HC HR.
  destruct (eval_agrees_with_expected2 cexec2 Rc2 (fun g => consistent (g_env g))
              consistent_step Rc2_var Rc2_elem Rc2_cmd sc env trace env' res st
              (wf_xp_items sc Hw) E) as (st' & g' & Ev & R' & Htr & Henv); [|exact HR|].
  { intros g Eg. rewrite Eg. exact HC. }
  exists st'. split; [exact Ev|]. split; [|split; [|split]].
  - destruct R' as (Ht & _). rewrite Ht. exact Htr.
  - intros n s Hp En. subst env'. exact (Rc2_var g' st' n s R' Hp En).
  - intros n i s En. subst env'. exact (Rc2_elem g' st' n i s R' En).
  - pose proof (eval_script_pres cexec2 (run_exec_ok U (S (S fuel))) st st (ast_of sc) (ctl_eq_refl st)) as P.
    unfold pres_M in P. rewrite Ev in P. cbn [fst snd] in P.
    exact (proj1 (P (normal_ok (VStr res)))).
Qed.

(* through the top-level entry point on the text; the level headroom is what the procedure c
   needs: one more level below the limit than the evaluation of the script itself *)
Theorem eval_text_agrees2 : forall sc env trace env' res st,
  wf sc = true -> star_safe sc = true ->
  expected env sc = Some (trace, env', res) ->
  consistent env' ->
  Rc2 {| g_env := env; g_trace := [] |} st -> i_levels st + 1 < i_limit st ->
  exists st', eval U (S (S fuel)) st (SpecGrammar.render sc) = (st', Ok (VStr res))
    /\ rev (i_trace st') = trace /\ i_levels st' = i_levels st
    /\ (forall n s, has_char c_lparen n = false -> env_get n env' = Some s ->
          sc_get (i_scopes st') n = Ok (VStr s))
    /\ (forall n i s, env_get (akey n i) env' = Some s ->
          sc_get_elem (i_scopes st') n i = Ok (VStr s)).
Proof.
  intros sc env trace env' res st Hw Hs E HC HR Hlim.
  set (st1 := set_levels st (i_levels st + 1)).
  assert (HR1 : Rc2 {| g_env := env; g_trace := [] |} st1).
  { destruct HR as (A & B & C & D & F & _ & G & H).
    unfold Rc2, st1. cbn [i_trace i_cmds i_scopes i_levels i_limit set_levels].
    split; [exact A|]. split; [exact B|]. split; [exact C|]. split; [exact D|].
    split; [exact F|]. split; [exact Hlim|]. split; [exact G|exact H]. }
  destruct (eval_agrees_concrete2 sc env trace env' res st1 Hw E HC HR1)
    as (st2 & Ev & Htr & Hvars & Hels & Hlev).
  exists (set_levels st2 (i_levels st2 - 1)).
  split.
  - unfold eval, eval_value, eval_value_with. cbn [i_limit i_levels set_levels].
    destruct (N.ltb_spec (i_limit st) (i_levels st + 1)) as [C|_]; [lia|].
    cbn [as_str]. rewrite (parse_render (u_alnum U) sc HU Hw Hs).
    unfold cexec2, st1 in Ev. rewrite Ev. cbn [i_levels set_levels].
    destruct (i_levels st2 - 1 =? 0); reflexivity.
  - cbn [i_trace i_levels i_scopes set_levels]. split; [exact Htr|]. split.
    + rewrite Hlev. unfold st1. cbn [i_levels set_levels]. lia.
    + split; assumption.
Qed.

End Concrete2.

Print Assumptions eval_agrees_concrete2.
Print Assumptions eval_text_agrees2.

(* ====================================================================== *)
(* 5. non-vacuity: the checker's prelude state and a tree over c02_env0    *)
(* ====================================================================== *)
Import Check.ScriptObs Check.C02.

(* a prelude producing the environment Check.C02.c02_env0 and the procedure c *)
Definition prelude_text : str :=
  lit "proc c args {rec c {*}$args}
set a 1
set l {p q r}
set r rec
set d ""\$a \[rec boom\] \\n \{""
set e {}
set {a b} sp
set \xe9 \xfc
set b(1) x
set b(a) y
".
Definition prelude_state : interp := fst (eval std_uni 50 (harness_interp 0) prelude_text).

Definition prelude_scopes : scopes :=
  let s := fst (sc_set [[]] (lit "errorInfo") v_empty) in
  let s := fst (sc_set s (lit "a") (VStr (lit "1"))) in
  let s := fst (sc_set s (lit "l") (VStr (lit "p q r"))) in
  let s := fst (sc_set s (lit "r") (VStr (lit "rec"))) in
  let s := fst (sc_set s (lit "d") (VStr (lit "$a [rec boom] \n {"))) in
  let s := fst (sc_set s (lit "e") (VStr [])) in
  let s := fst (sc_set s (lit "a b") (VStr (lit "sp"))) in
  let s := fst (sc_set s [233] (VStr [252])) in
  let s := fst (sc_set_elem s (lit "b") (lit "1") (VStr (lit "x"))) in
  fst (sc_set_elem s (lit "b") (lit "a") (VStr (lit "y"))).

Lemma prelude_scopes_eq : i_scopes prelude_state = prelude_scopes.
Proof. vm_compute. reflexivity. Qed.

Lemma prelude_scopes_inv : scope_inv prelude_scopes.
Proof.
  unfold prelude_scopes. cbv zeta.
  do 2 apply sc_set_elem_inv. do 8 apply sc_set_inv. exact scope_inv_init.
Qed.

Lemma str_eqb_sym : forall a b, str_eqb a b = str_eqb b a.
Proof.
  induction a as [|x a IH]; destruct b as [|y b]; try reflexivity.
  cbn [str_eqb]. rewrite IH, N.eqb_sym. reflexivity.
Qed.

(* one global frame without links *)
Lemma shape_one_frame sc n :
  shape_of [sc] n = match assoc_get n sc with
                    | Some (VarScalar v) => Scalar v
                    | Some (VarArray m) => Array m
                    | _ => Unset
                    end.
Proof.
  unfold shape_of, sc_lookup, sc_current. cbn [length pred sc_var]. unfold sc_get_scope. cbn [nth].
  destruct (assoc_get n sc) as [[v|m|l|]|]; reflexivity.
Qed.

Lemma akey_inj : forall n' n i i', has_char c_lparen n' = false -> has_char c_lparen i' = false ->
  akey n i = akey n' i' -> n = n' /\ i = i'.
Proof.
  unfold akey, has_char. induction n' as [|c' n' IH]; intros n i i' Hn Hi E.
  - destruct n as [|c n].
    + cbn [app] in E. inversion E. apply app_inv_tail in H0. split; [reflexivity|exact H0].
    + cbn [app] in E. inversion E. subst c. exfalso.
      assert (T : existsb (fun d => d =? c_lparen) (i' ++ [c_rparen]) = true).
      { rewrite <- H1. rewrite existsb_app. cbn [app existsb]. change (c_lparen =? c_lparen) with true.
        cbn [orb]. apply orb_true_r. }
      rewrite existsb_app in T. apply orb_prop in T. destruct T as [T|T].
      * exact (eq_true_false_abs _ T Hi).
      * cbn in T. discriminate T.
  - cbn [existsb] in Hn. apply orb_false_iff in Hn. destruct Hn as [Hc Hn].
    destruct n as [|c n].
    + cbn [app] in E. inversion E. subst c'. discriminate Hc.
    + cbn [app] in E. inversion E. subst c. destruct (IH n i i' Hn Hi H1) as [A B]. subst. split; reflexivity.
Qed.

Ltac key_case n k :=
  let E := fresh "E" in
  destruct (str_eqb n k) eqn:E; [apply str_eqb_eq in E; subst n|].

Theorem prelude_Rc2 : Rc2 {| g_env := c02_env0; g_trace := [] |} prelude_state.
Proof.
  unfold Rc2. rewrite prelude_scopes_eq.
  split; [vm_compute; reflexivity|].
  split; [exists 0; vm_compute; reflexivity|].
  split; [exists 0; vm_compute; reflexivity|].
  split; [vm_compute; reflexivity|].
  split; [exact prelude_scopes_inv|].
  split; [vm_compute; reflexivity|].
  assert (Esc : exists sc, prelude_scopes = [sc] /\ sc =
      [(lit "errorInfo", VarScalar (VStr [])); (lit "a", VarScalar (VStr (lit "1")));
       (lit "l", VarScalar (VStr (lit "p q r"))); (lit "r", VarScalar (VStr (lit "rec")));
       (lit "d", VarScalar (VStr (lit "$a [rec boom] \n {"))); (lit "e", VarScalar (VStr []));
       (lit "a b", VarScalar (VStr (lit "sp"))); ([233], VarScalar (VStr [252]));
       (lit "b", VarArray [(lit "1", VStr (lit "x")); (lit "a", VStr (lit "y"))])]).
  { eexists. split; [vm_compute; reflexivity|reflexivity]. }
  destruct Esc as (sc & Ess & Esc). rewrite Ess. cbn [g_env].
  split.
  - intros n Hp. rewrite shape_one_frame. unfold c02_env0. cbn [env_get].
    key_case n (lit "a"); [subst sc; reflexivity|].
    key_case n (lit "l"); [subst sc; reflexivity|].
    key_case n (lit "r"); [subst sc; reflexivity|].
    key_case n (lit "d"); [subst sc; reflexivity|].
    key_case n (lit "e"); [subst sc; reflexivity|].
    key_case n (lit "a b"); [subst sc; reflexivity|].
    key_case n [233]; [subst sc; reflexivity|].
    key_case n (lit "b(1)"); [vm_compute in Hp; discriminate Hp|].
    key_case n (lit "b(a)"); [vm_compute in Hp; discriminate Hp|].
    key_case n (lit "b").
    { right. exists (lit "1"). vm_compute. discriminate. }
    left. intros m. subst sc. cbn [assoc_get].
    rewrite (str_eqb_sym (lit "a") n), E, (str_eqb_sym (lit "l") n), E0, (str_eqb_sym (lit "r") n), E1,
      (str_eqb_sym (lit "d") n), E2, (str_eqb_sym (lit "e") n), E3, (str_eqb_sym (lit "a b") n), E4,
      (str_eqb_sym [233] n), E5, (str_eqb_sym (lit "b") n), E8.
    destruct (str_eqb (lit "errorInfo") n); discriminate.
  - intros n i s. unfold c02_env0. cbn [env_get].
    assert (Hno : forall k, has_char c_lparen k = false -> str_eqb (akey n i) k = false).
    { intros k Hk. destruct (str_eqb (akey n i) k) eqn:E; [|reflexivity].
      apply str_eqb_eq in E. exfalso. exact (akey_neq n i k Hk E). }
    rewrite !Hno by reflexivity.
    destruct (str_eqb (akey n i) (lit "b(1)")) eqn:E1.
    { apply str_eqb_eq in E1. change (lit "b(1)") with (akey (lit "b") (lit "1")) in E1.
      apply akey_inj in E1; [|reflexivity|reflexivity]. destruct E1; subst n i.
      intros H. inversion H. subst sc. vm_compute. reflexivity. }
    destruct (str_eqb (akey n i) (lit "b(a)")) eqn:E2; [|discriminate].
    apply str_eqb_eq in E2. change (lit "b(a)") with (akey (lit "b") (lit "a")) in E2.
    apply akey_inj in E2; [|reflexivity|reflexivity]. destruct E2; subst n i.
    intros H. inversion H. subst sc. vm_compute. reflexivity.
Qed.
Print Assumptions prelude_Rc2.

(* a boolean test for [consistent] *)
Definition consistentb (env : list (str * str)) : bool :=
  forallb (fun k => has_char c_lparen k
                    || forallb (fun k' => negb (starts_with (k ++ [c_lparen]) k')) (map fst env))
          (map fst env).

Lemma env_get_in k : forall env, env_get k env <> None -> In k (map fst env).
Proof.
  induction env as [|[k' v] env IH]; intros H; [cbn in H; congruence|].
  cbn [env_get] in H. cbn [map fst In]. destruct (str_eqb k k') eqn:E.
  - left. apply str_eqb_eq in E. congruence.
  - right. exact (IH H).
Qed.

Lemma starts_with_app : forall p s, starts_with p (p ++ s) = true.
Proof.
  induction p as [|c p IH]; intros s; [reflexivity|]. cbn [app starts_with].
  rewrite N.eqb_refl. exact (IH s).
Qed.

Lemma consistentb_sound env : consistentb env = true -> consistent env.
Proof.
  intros H n i Hp Hn. unfold consistentb in H. rewrite forallb_forall in H.
  specialize (H n (env_get_in n env Hn)). rewrite Hp in H. cbn [orb] in H.
  destruct (env_get (akey n i) env) eqn:Eg; [|reflexivity]. exfalso.
  rewrite forallb_forall in H.
  assert (Hin : In (akey n i) (map fst env)) by (apply env_get_in; congruence).
  specialize (H _ Hin). unfold akey in H.
  replace (n ++ [c_lparen] ++ i ++ [c_rparen]) with ((n ++ [c_lparen]) ++ i ++ [c_rparen]) in H
    by (rewrite <- app_assoc; reflexivity).
  rewrite starts_with_app in H. discriminate H.
Qed.

(* a tree over the prelude's variables: computed command name ($r), the procedure c, {*} on a
   variable, on a quoted word and on an empty value, array elements, ${a b}, a non-ASCII name,
   a value full of special characters passed through untouched *)
Definition bw2 (s : string) : wordc := CBare [SLit (lit s)].
Definition example_tree_c02 : list item :=
  [ IComment [] (lit " C02 example") [c_nl];
    ICmd [] [([], bw2 "rec"); ([c_space], CBare [SVar (lit "a")]);
             ([c_space], CQuote [SLit (lit "x"); SVar (lit "l"); SLit (lit "-");
                                 SCmd [ICmd [] [([], bw2 "c"); ([c_space], CBare [SBVar (lit "a b")]);
                                                ([c_space], CBare [SArr (lit "b") [SLit (lit "1")]])] [] []]]);
             ([c_space], CExpand (CBare [SVar (lit "l")]));
             ([c_space], CBare [SArr (lit "b") [SLit (lit "a")]])] [] [c_nl];
    ICmd [c_space] [([], bw2 "set"); ([c_space], bw2 "n1");
                    ([c_space], CBare [SCmd [ICmd [] [([], bw2 "c");
                                                       ([c_space], CExpand (CQuote [SLit (lit "u v")]));
                                                       ([c_space], CExpand (CBare [SVar (lit "e")]))]
                                                  [c_space] []]])] [] [c_semi];
    ICmd [] [([], CBare [SVar (lit "r")]);
             ([c_space], CBare [SVar [233]; SEsc 1 c_dollar; SVar (lit "n1")]);
             ([c_space], CBrace [BText (lit "$a [rec no]")])] [c_space] [c_nl];
    ICmd [] [([], bw2 "set"); ([c_space], bw2 "n2"); ([c_space], CBare [SVar (lit "d")])] [] [c_nl];
    IEmpty [] [c_semi];
    ICmd [] [([], bw2 "rec"); ([c_space], CBare [SVar (lit "n2")]); ([c_space], CBrace [BText [c_star]])]
         [] [c_nl];
    ICmd [] [([], bw2 "c")] [] [] ].

Definition example_c02_trace : list (list str) :=
  [[lit "rec"; lit "c"; lit "sp"; lit "x"];
   [lit "rec"; lit "1"; lit "xp q r-x"; lit "p"; lit "q"; lit "r"; lit "y"];
   [lit "rec"; lit "c"; lit "u"; lit "v"];
   [lit "rec"; [252; 36; 118]; lit "$a [rec no]"];
   [lit "rec"; lit "$a [rec boom] \n {"; lit "*"];
   [lit "rec"; lit "c"]].
Definition example_c02_env : list (str * str) :=
  c02_env0 ++ [(lit "n1", lit "v"); (lit "n2", lit "$a [rec boom] \n {")].

Example example_c02_facts :
  wf example_tree_c02 = true /\ star_safe example_tree_c02 = true
  /\ expected c02_env0 example_tree_c02 = Some (example_c02_trace, example_c02_env, lit "c")
  /\ consistentb example_c02_env = true.
Proof. vm_compute. repeat split. Qed.

(* eval_text_agrees2 applied: the model's top-level entry on the rendered text, from the prelude
   state, does what the specification computes on the tree *)
Example example_c02_agrees : forall fuel,
  exists st', eval std_uni (S (S fuel)) prelude_state (SpecGrammar.render example_tree_c02)
              = (st', Ok (VStr (lit "c")))
    /\ rev (i_trace st') = example_c02_trace
    /\ i_levels st' = i_levels prelude_state
    /\ sc_get (i_scopes st') (lit "n1") = Ok (VStr (lit "v"))
    /\ sc_get (i_scopes st') (lit "n2") = Ok (VStr (lit "$a [rec boom] \n {"))
    /\ sc_get_elem (i_scopes st') (lit "b") (lit "a") = Ok (VStr (lit "y")).
Proof.
  intros fuel. destruct example_c02_facts as (Hw & Hs & He & Hc).
  destruct (eval_text_agrees2 std_uni fuel name_ok_std example_tree_c02 c02_env0 example_c02_trace
              example_c02_env (lit "c") prelude_state Hw Hs He (consistentb_sound _ Hc) prelude_Rc2)
    as (st' & Ev & Htr & Hlev & Hvars & Hels).
  { vm_compute. reflexivity. }
  exists st'. split; [exact Ev|]. split; [exact Htr|]. split; [exact Hlev|].
  split; [apply Hvars; reflexivity|]. split; [apply Hvars; reflexivity|].
  apply (Hels (lit "b") (lit "a")). reflexivity.
Qed.
Print Assumptions example_c02_agrees.

(* the same outcome by direct computation (fuel 2 is enough here) *)
Example example_c02_compute :
  let '(st', r) := eval std_uni 2 prelude_state (SpecGrammar.render example_tree_c02) in
  r = Ok (VStr (lit "c")) /\ rev (i_trace st') = example_c02_trace.
Proof. vm_compute. split; reflexivity. Qed.

(* GrammarFacts.example_tree reads variables the prelude does not define: the specification gives
   no expectation for it in this environment, so it cannot serve here *)
Example example_tree_outside : expected c02_env0 example_tree = None.
Proof. vm_compute. reflexivity. Qed.

(* why [consistent] is needed: the specification keeps array elements as plain keys "b(1)", so it
   lets `set b 5` succeed next to them; the implementation refuses (b is an array) *)
Definition set_array_name_tree : list item :=
  [ICmd [] [([], bw2 "set"); ([c_space], bw2 "b"); ([c_space], bw2 "5")] [] []].
Example set_array_name_disagreement :
  wf set_array_name_tree = true
  /\ expected c02_env0 set_array_name_tree = Some ([], c02_env0 ++ [(lit "b", lit "5")], lit "5")
  /\ snd (eval std_uni 5 prelude_state (SpecGrammar.render set_array_name_tree))
     = Err (add_error_info
              (add_error_info (molt_err (lit "can't set ""b"": variable is array"))
                              (lit "    while executing"))
              (lit """set b 5"""))
  /\ consistentb (c02_env0 ++ [(lit "b", lit "5")]) = false.
Proof. vm_compute. repeat split. Qed.

(* GrammarFacts.c_behaves, as far as it is true: it was stated for every state related by Rc and
   every argument list whose first element has the STRING "c".  It fails at the nesting limit
   (the procedure body needs one more level), and for a first element that is not the value
   VStr "c" the result `last argv` is the same string but not the same value.  With the headroom
   and the first element VStr "c" it holds for the registered procedure: *)
Theorem c_behaves_with_headroom : forall U f g st args,
  name_ok (u_alnum U) -> Rc c_proc g st -> i_levels st < i_limit st ->
  run_exec U (S (S f)) st c_proc (VStr (lit "c") :: args)
  = (set_trace st ((lit "rec" :: map as_str (VStr (lit "c") :: args)) :: i_trace st),
     Ok (last (VStr (lit "c") :: args) v_empty)).
Proof.
  intros U f g st args HU (_ & (c1 & Hrec) & _) Hlev.
  rewrite (c_proc_behaves U f st (VStr (lit "c")) args c1 HU Hrec Hlev). reflexivity.
Qed.
Print Assumptions c_behaves_with_headroom.
