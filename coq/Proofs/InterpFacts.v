(* InterpFacts.v — direct consequences of the definition of eval_value (C16, C17). *)
From Molt Require Import Model.Base Model.ListSyn Model.Float Model.Value Model.State Model.Script
  Model.Parser Model.Eval Model.Expr Model.Commands Model.Unicode Model.Interp.
From Coq Require Import Lia.
Local Open Scope N_scope.

Lemma set_levels_back st : set_levels (set_levels st (i_levels st + 1)) (i_levels st + 1 - 1) = st.
Proof. destruct st; unfold set_levels; cbn. f_equal. lia. Qed.

Section WithU.
Variable U : uni.

(* C16: at the limit nothing is evaluated; the error is an ordinary (catchable) error *)
Lemma eval_at_limit exec st v :
  i_limit st <= i_levels st ->
  eval_value_with U exec st v = (st, Err (molt_err too_many_nested)).
Proof.
  intros H. unfold eval_value_with. cbn [i_limit i_levels set_levels].
  destruct (N.ltb_spec (i_limit st) (i_levels st + 1)) as [_|C]; [|lia].
  rewrite set_levels_back. reflexivity.
Qed.

Lemma too_many_is_plain_error : x_code (molt_err too_many_nested) = CError.
Proof. reflexivity. Qed.

(* C16: below the limit the script runs one level deeper *)
Lemma eval_below_limit exec st v sc rest :
  i_levels st < i_limit st ->
  parse (u_alnum U) (as_str v) = POk sc rest ->
  exists st2 r, eval_script exec (set_levels st (i_levels st + 1)) sc = (st2, r)
    /\ fst (eval_value_with U exec st v) =
         fst (let st3 := set_levels st2 (i_levels st2 - 1) in
              let r' := if i_levels st3 =? 0 then toplevel_boundary r else r in
              match r' with
              | Err e => if rcode_eqb (x_code e) CError
                         then bind (set_global_error_data st3 e) (fun st4 _ => (st4, Err e))
                         else (st3, r')
              | _ => (st3, r')
              end).
Proof.
  intros H P. unfold eval_value_with. cbn [i_limit i_levels set_levels].
  destruct (N.ltb_spec (i_limit st) (i_levels st + 1)) as [C|_]; [lia|].
  rewrite P.
  destruct (eval_script exec (set_levels st (i_levels st + 1)) sc) as [st2 r] eqn:E.
  exists st2, r. split; reflexivity.
Qed.

(* C17: a script that does not parse runs nothing: the state is unchanged *)
Lemma eval_syntax_error exec st v m :
  i_levels st < i_limit st ->
  parse (u_alnum U) (as_str v) = PErr m ->
  eval_value_with U exec st v = (st, Err (molt_err m)).
Proof.
  intros H P. unfold eval_value_with. cbn [i_limit i_levels set_levels].
  destruct (N.ltb_spec (i_limit st) (i_levels st + 1)) as [C|_]; [lia|].
  rewrite P. rewrite set_levels_back. reflexivity.
Qed.

(* C17: the result does not depend on the executor at all, so no command was run *)
Lemma eval_syntax_error_runs_nothing exec1 exec2 st v m :
  parse (u_alnum U) (as_str v) = PErr m ->
  eval_value_with U exec1 st v = eval_value_with U exec2 st v.
Proof.
  intros P. unfold eval_value_with. destruct (_ <? _); [reflexivity|]. rewrite P. reflexivity.
Qed.

(* C17: complete says yes exactly for the scripts the reader accepts (same function) *)
Lemma complete_iff s : complete U s = true <-> exists sc rest, parse (u_alnum U) s = POk sc rest.
Proof.
  unfold complete. destruct (parse (u_alnum U) s) as [sc rest|m|] eqn:E; split; intros H;
    try discriminate; try (destruct H as (? & ? & ?); discriminate).
  - eauto.
  - reflexivity.
Qed.

(* C17: `complete` is a pure function of the text: it takes no interpreter *)
Lemma complete_is_pure s : complete U s = match parse (u_alnum U) s with POk _ _ => true | _ => false end.
Proof. reflexivity. Qed.

End WithU.

(* C17: `info complete` and the host call are the same function of the text *)
Lemma info_complete_same U st (s : str) :
  cmd_info U st [VStr (lit "info"); VStr (lit "complete"); VStr s]
  = (st, Ok (VBool (complete U s))).
Proof. reflexivity. Qed.
