(* FloatFacts.v — C04 for floats: the string printed by [fmt_float] reads back ([f_parse]) as the
   same float.

   Main results (all closed under the global context):
   - [f_of_ratio_scale]   f_of_ratio neg (num*c) (den*c) = f_of_ratio neg num den  (0 < num, den, c):
                          the correctly rounded value depends only on the rational (proved on the
                          SpecFloat rounding functions: the sticky bit absorbs a change of scaling).
   - [fmt_parse_found]    finite_bits a = true -> found a = true -> f_parse (fmt_float a) = Some a
     [fmt_parse_found_nonzero]  the same without the 64-bit range condition, for non-zero floats.
   - [fmt_parse_zero], [fmt_parse_inf], [fmt_parse_nan] (NaN reads back as the canonical [f_nan]).
   - [found_int], [fmt_parse_int], [f_of_Z_decimal], [fmt_parse_f_of_Z]: the search succeeds for
     every integer-valued float of absolute value below 2^53, so those round-trip unconditionally.
   NOT proved: that [found a] holds for every finite float (the "17 digits suffice" theorem). *)
From Molt Require Import Model.Base Model.Tokenizer Model.Float.
From Molt Require Import Proofs.BaseFacts Proofs.ValueFacts.
From Coq Require Import Floats.SpecFloat.
From Coq Require Import Lia ZifyBool ZifyN.

Arguments N.eqb : simpl never.
Arguments N.leb : simpl never.
Arguments N.ltb : simpl never.

Local Open Scope Z_scope.

(* ------------------------------------------------------------------------------------------ *)
(* 1. [f_of_ratio] depends only on the rational num/den                                        *)
(* ------------------------------------------------------------------------------------------ *)

Fixpoint nit {A} (f : A -> A) (n : nat) (x : A) : A :=
  match n with O => x | S k => nit f k (f x) end.

Lemma nit_add {A} (f : A -> A) n m x : nit f (n + m) x = nit f m (nit f n x).
Proof. revert x. induction n as [|n IH]; intros x; [reflexivity|]. cbn [Nat.add nit]. apply IH. Qed.

Lemma iter_pos_nit {A} (f : A -> A) p x : iter_pos f p x = nit f (Pos.to_nat p) x.
Proof.
  revert x. induction p as [p IH|p IH|]; intros x; cbn [iter_pos].
  - rewrite !IH. rewrite Pos2Nat.inj_xI.
    replace (S (2 * Pos.to_nat p))%nat with (S (Pos.to_nat p + Pos.to_nat p))%nat by lia.
    cbn [nit]. rewrite nit_add. reflexivity.
  - rewrite !IH. rewrite Pos2Nat.inj_xO.
    replace (2 * Pos.to_nat p)%nat with (Pos.to_nat p + Pos.to_nat p)%nat by lia.
    rewrite nit_add. reflexivity.
  - reflexivity.
Qed.

(* three shifts of m.b.s equal two shifts of m.(b|s): the sticky bit absorbs the difference *)
Lemma shr_1_merge p (b s : bool) :
  let m1 := Zpos (if s then (if b then p~1~1 else p~0~1) else (if b then p~1~0 else p~0~0))%positive in
  let m0 := Zpos (if (b || s)%bool then p~1 else p~0)%positive in
  shr_1 (shr_1 (shr_1 (Build_shr_record m1 false false))) =
  shr_1 (shr_1 (Build_shr_record m0 false false)).
Proof. destruct p, b, s; reflexivity. Qed.

Definition mk1 (p : positive) (b s : bool) : positive :=
  (if s then (if b then p~1~1 else p~0~1) else (if b then p~1~0 else p~0~0))%positive.
Definition mk0 (p : positive) (b s : bool) : positive :=
  (if (b || s)%bool then p~1 else p~0)%positive.

Lemma shl_align_id mx ex ex' : ex <= ex' -> shl_align mx ex ex' = (mx, ex).
Proof. intros H. unfold shl_align. destruct (ex' - ex) eqn:E; try reflexivity. lia. Qed.

Lemma fexp_unfold x : fexp 53 1024 x = Z.max (x - 53) (-1074).
Proof. reflexivity. Qed.

Lemma shr_fexp_merge p b s E : 55 <= Zpos (digits2_pos p) ->
  shr_fexp 53 1024 (Zpos (mk1 p b s)) (E - 1) loc_Exact = shr_fexp 53 1024 (Zpos (mk0 p b s)) E loc_Exact.
Proof.
  intros HD. unfold shr_fexp. rewrite !fexp_unfold.
  set (D := Zpos (digits2_pos p)) in *.
  assert (H1 : Zdigits2 (Zpos (mk1 p b s)) = D + 2).
  { unfold D. destruct b, s; cbn [mk1 Zdigits2 digits2_pos]; lia. }
  assert (H0 : Zdigits2 (Zpos (mk0 p b s)) = D + 1).
  { unfold D. destruct b, s; cbn [mk0 orb Zdigits2 digits2_pos]; lia. }
  rewrite H1, H0.
  replace (D + 2 + (E - 1) - 53) with (D + 1 + E - 53) by lia.
  set (F := Z.max (D + 1 + E - 53) (-1074)).
  assert (HF : 3 <= F - E) by lia.
  destruct (F - E) as [|pn0|pn0] eqn:En0; try lia.
  replace (F - (E - 1)) with (Zpos (pn0 + 1)) by lia.
  cbn [shr shr_record_of_loc]. f_equal; [|lia].
  rewrite !iter_pos_nit.
  destruct (Pos.to_nat pn0) as [|[|j]] eqn:Ej; try lia.
  replace (Pos.to_nat (pn0 + 1)) with (S (S (S j))) by lia.
  cbn [nit]. f_equal. exact (shr_1_merge p b s).
Qed.

Lemma binary_round_merge p b s E : 55 <= Zpos (digits2_pos p) ->
  binary_round 53 1024 false (mk1 p b s) (E - 1) = binary_round 53 1024 false (mk0 p b s) E.
Proof.
  intros HD. unfold binary_round.
  pose proof (shr_fexp_merge p b s E HD) as HS.
  assert (H1 : Zpos (digits2_pos (mk1 p b s)) = Zpos (digits2_pos p) + 2).
  { destruct b, s; cbn [mk1 digits2_pos]; lia. }
  assert (H0 : Zpos (digits2_pos (mk0 p b s)) = Zpos (digits2_pos p) + 1).
  { destruct b, s; cbn [mk0 orb digits2_pos]; lia. }
  rewrite !fexp_unfold, H1, H0.
  rewrite !shl_align_id by lia.
  unfold binary_round_aux. rewrite HS. reflexivity.
Qed.

Lemma digits2_pos_spec p : Zpos p < 2 ^ Zpos (digits2_pos p).
Proof.
  induction p as [p IH|p IH|]; cbn [digits2_pos]; [| |reflexivity];
    rewrite Pos2Z.inj_succ, Z.pow_succ_r by lia; lia.
Qed.

Lemma digits2_pos_ge p n : 0 <= n -> 2 ^ n <= Zpos p -> n + 1 <= Zpos (digits2_pos p).
Proof.
  intros Hn H. pose proof (digits2_pos_spec p) as HS.
  destruct (Z_lt_le_dec (Zpos (digits2_pos p)) (n + 1)) as [Hlt|Hge]; [|exact Hge].
  assert (Hle : 2 ^ Zpos (digits2_pos p) <= 2 ^ n) by (apply Z.pow_le_mono_r; lia). lia.
Qed.

(* the rounding step of [f_of_ratio] at scaling exponent k *)
Definition RR (num den k : Z) : spec_float :=
  normalize (2 * ((num * 2 ^ k) / den) + (if (num * 2 ^ k) mod den =? 0 then 0 else 1)) (- k - 1).

Lemma RR_step num den k : 0 < num -> 0 < den -> 0 <= k -> 2 ^ 55 <= (num * 2 ^ k) / den ->
  RR num den (k + 1) = RR num den k.
Proof.
  intros Hn Hd Hk Hq. unfold RR.
  replace (k + 1) with (Z.succ k) by lia. rewrite Z.pow_succ_r by exact Hk.
  set (X := num * 2 ^ k) in *.
  replace (num * (2 * 2 ^ k)) with (2 * X) by (unfold X; lia).
  pose proof (Z.div_mod X den ltac:(lia)) as HX.
  pose proof (Z.mod_pos_bound X den Hd) as Hr.
  set (q := X / den) in *. set (r := X mod den) in *.
  destruct q as [|p|p] eqn:Eq; try lia.
  assert (HD : 55 <= Zpos (digits2_pos p)).
  { pose proof (digits2_pos_ge p 55 ltac:(lia) Hq). lia. }
  destruct (2 * r <? den) eqn:Eb.
  - assert (E1 : (2 * X) / den = 2 * Zpos p).
    { symmetry. apply (Z.div_unique _ _ _ (2 * r)); lia. }
    assert (E2 : (2 * X) mod den = 2 * r).
    { symmetry. apply (Z.mod_unique _ _ (2 * Zpos p)); lia. }
    rewrite E1, E2.
    set (s := negb (r =? 0)).
    replace (2 * (2 * Zpos p) + (if 2 * r =? 0 then 0 else 1)) with (Zpos (mk1 p false s)).
    2:{ unfold s. destruct (r =? 0) eqn:Er; destruct (2 * r =? 0) eqn:Er2; cbn [negb mk1]; lia. }
    replace (2 * Zpos p + (if r =? 0 then 0 else 1)) with (Zpos (mk0 p false s)).
    2:{ unfold s. destruct (r =? 0) eqn:Er; cbn [negb mk0 orb]; lia. }
    unfold normalize. cbn [binary_normalize].
    replace (- Z.succ k - 1) with ((- k - 1) - 1) by lia.
    apply binary_round_merge. exact HD.
  - assert (E1 : (2 * X) / den = 2 * Zpos p + 1).
    { symmetry. apply (Z.div_unique _ _ _ (2 * r - den)); lia. }
    assert (E2 : (2 * X) mod den = 2 * r - den).
    { symmetry. apply (Z.mod_unique _ _ (2 * Zpos p + 1)); lia. }
    rewrite E1, E2.
    set (s := negb (2 * r - den =? 0)).
    replace (2 * (2 * Zpos p + 1) + (if 2 * r - den =? 0 then 0 else 1)) with (Zpos (mk1 p true s)).
    2:{ unfold s. destruct (2 * r - den =? 0) eqn:Er; cbn [negb mk1]; lia. }
    replace (2 * Zpos p + (if r =? 0 then 0 else 1)) with (Zpos (mk0 p true s)).
    2:{ destruct (r =? 0) eqn:Er; cbn [mk0 orb]; lia. }
    unfold normalize. cbn [binary_normalize].
    replace (- Z.succ k - 1) with ((- k - 1) - 1) by lia.
    apply binary_round_merge. exact HD.
Qed.

Lemma RR_shift num den k (j : nat) : 0 < num -> 0 < den -> 0 <= k -> 2 ^ 55 <= (num * 2 ^ k) / den ->
  RR num den (k + Z.of_nat j) = RR num den k /\ 2 ^ 55 <= (num * 2 ^ (k + Z.of_nat j)) / den.
Proof.
  intros Hn Hd Hk Hq. induction j as [|j [IH1 IH2]].
  - replace (k + Z.of_nat 0) with k by lia. split; [reflexivity|exact Hq].
  - replace (k + Z.of_nat (S j)) with ((k + Z.of_nat j) + 1) by lia. split.
    + rewrite RR_step by (try assumption; lia). exact IH1.
    + eapply Z.le_trans; [exact IH2|]. apply Z.div_le_mono; [lia|].
      replace (k + Z.of_nat j + 1) with (Z.succ (k + Z.of_nat j)) by lia.
      rewrite Z.pow_succ_r by lia.
      assert (0 < 2 ^ (k + Z.of_nat j)) by (apply Z.pow_pos_nonneg; lia). nia.
Qed.

Lemma RR_any num den k1 k2 : 0 < num -> 0 < den -> 0 <= k1 -> 0 <= k2 ->
  2 ^ 55 <= (num * 2 ^ k1) / den -> 2 ^ 55 <= (num * 2 ^ k2) / den ->
  RR num den k1 = RR num den k2.
Proof.
  intros Hn Hd H1 H2 Q1 Q2. destruct (Z_le_gt_dec k1 k2) as [Hle|Hgt].
  - replace k2 with (k1 + Z.of_nat (Z.to_nat (k2 - k1))) by lia.
    symmetry. apply RR_shift; assumption.
  - replace k1 with (k2 + Z.of_nat (Z.to_nat (k1 - k2))) by lia.
    apply RR_shift; assumption.
Qed.

Lemma RR_scale num den c k : 0 < den -> 0 < c -> RR (num * c) (den * c) k = RR num den k.
Proof.
  intros Hd Hc. unfold RR.
  replace (num * c * 2 ^ k) with (num * 2 ^ k * c) by lia.
  rewrite Z.div_mul_cancel_r by lia. rewrite Z.mul_mod_distr_r by lia.
  destruct ((num * 2 ^ k) mod den =? 0) eqn:E1; destruct ((num * 2 ^ k) mod den * c =? 0) eqn:E2;
    try reflexivity; nia.
Qed.

Definition ratio_k (num den : Z) : Z := Z.max 0 (Z.log2 den - Z.log2 num + 58).

Lemma ratio_k_good num den : 0 < num -> 0 < den -> 2 ^ 55 <= (num * 2 ^ ratio_k num den) / den.
Proof.
  intros Hn Hd. unfold ratio_k. set (k := Z.max 0 _).
  pose proof (Z.log2_spec num Hn) as [Ln1 Ln2]. pose proof (Z.log2_spec den Hd) as [Ld1 Ld2].
  pose proof (Z.log2_nonneg num) as Ln0. pose proof (Z.log2_nonneg den) as Ld0.
  apply Z.div_le_lower_bound; [exact Hd|].
  assert (H1 : 2 ^ (Z.log2 den + 58) <= 2 ^ (Z.log2 num + k)) by (apply Z.pow_le_mono_r; lia).
  rewrite Z.pow_add_r in H1 by lia. rewrite (Z.pow_add_r 2 (Z.log2 num) k) in H1 by lia.
  rewrite Z.pow_succ_r in Ld2 by lia.
  assert (Hk : 0 < 2 ^ k) by (apply Z.pow_pos_nonneg; lia).
  change (2 ^ 58) with (2 ^ 55 * 8) in H1. change (2 ^ 55) with 36028797018963968 in *. nia.
Qed.

Lemma f_of_ratio_RR neg num den :
  f_of_ratio neg num den =
  to_bits (if neg then SFopp (RR num den (ratio_k num den)) else RR num den (ratio_k num den)).
Proof. reflexivity. Qed.

(* scaling numerator and denominator by the same factor does not change the result *)
Lemma f_of_ratio_scale neg num den c : 0 < num -> 0 < den -> 0 < c ->
  f_of_ratio neg (num * c) (den * c) = f_of_ratio neg num den.
Proof.
  intros Hn Hd Hc. rewrite !f_of_ratio_RR.
  assert (E : RR (num * c) (den * c) (ratio_k (num * c) (den * c)) = RR num den (ratio_k num den)).
  { rewrite RR_scale by assumption.
    pose proof (ratio_k_good (num * c) (den * c) ltac:(nia) ltac:(nia)) as G1.
    replace (num * c * 2 ^ ratio_k (num * c) (den * c)) with (num * 2 ^ ratio_k (num * c) (den * c) * c) in G1 by lia.
    rewrite Z.div_mul_cancel_r in G1 by lia.
    apply RR_any; try assumption; try (unfold ratio_k; lia).
    apply ratio_k_good; assumption. }
  rewrite E. reflexivity.
Qed.
Print Assumptions f_of_ratio_scale.

(* ------------------------------------------------------------------------------------------ *)
(* 2. [f_of_decimal] depends only on the value m * 10^e (away from its cut-offs)               *)
(* ------------------------------------------------------------------------------------------ *)

(* (m, e) is not cut off by the overflow / underflow shortcuts of [f_of_decimal] *)
Definition regular (m e : Z) : Prop := 0 < m /\ e <= 310 /\ -345 <= e + (Z.log2 m / 3 + 1).

Lemma f_of_decimal_regular neg m e : regular m e ->
  f_of_decimal neg m e = if 0 <=? e then f_of_ratio neg (m * 10 ^ e) 1 else f_of_ratio neg m (10 ^ (- e)).
Proof.
  intros [Hm [He Hl]]. unfold f_of_decimal.
  destruct (m =? 0) eqn:E0; [lia|]. cbn zeta.
  destruct (310 <? e) eqn:E1; [lia|].
  destruct (e + (Z.log2 m / 3 + 1) <? -345) eqn:E2; [lia|]. reflexivity.
Qed.

Lemma f_of_decimal_eq neg m1 e1 m2 e2 : regular m1 e1 -> regular m2 e2 ->
  e1 <= e2 -> m1 = m2 * 10 ^ (e2 - e1) ->
  f_of_decimal neg m1 e1 = f_of_decimal neg m2 e2.
Proof.
  intros R1 R2 Hle Hm. rewrite (f_of_decimal_regular neg m1 e1 R1), (f_of_decimal_regular neg m2 e2 R2).
  destruct R1 as [P1 _]. destruct R2 as [P2 _].
  destruct (0 <=? e1) eqn:E1; destruct (0 <=? e2) eqn:E2; try lia.
  - f_equal. rewrite Hm. replace e2 with ((e2 - e1) + e1) at 2 by lia.
    rewrite Z.pow_add_r by lia. ring.
  - assert (Hc : 0 < 10 ^ (- e1)) by (apply Z.pow_pos_nonneg; lia).
    assert (He2 : 0 < 10 ^ e2) by (apply Z.pow_pos_nonneg; lia).
    rewrite <- (f_of_ratio_scale neg (m2 * 10 ^ e2) 1 (10 ^ (- e1))) by nia.
    f_equal; [|lia]. rewrite Hm. replace (e2 - e1) with (e2 + - e1) by lia.
    rewrite Z.pow_add_r by lia. ring.
  - assert (Hc : 0 < 10 ^ (e2 - e1)) by (apply Z.pow_pos_nonneg; lia).
    assert (Hd : 0 < 10 ^ (- e2)) by (apply Z.pow_pos_nonneg; lia).
    rewrite <- (f_of_ratio_scale neg m2 (10 ^ (- e2)) (10 ^ (e2 - e1))) by lia.
    f_equal; [exact Hm|]. replace (- e1) with (- e2 + (e2 - e1)) by lia.
    rewrite Z.pow_add_r by lia. reflexivity.
Qed.

(* a finite non-zero result was not produced by a shortcut *)
Lemma f_of_decimal_finite_regular neg m e s num den :
  0 <= m -> f_ratio (f_of_decimal neg m e) = Some (s, num, den) -> num <> 0 -> regular m e.
Proof.
  intros Hm HR Hn. unfold f_of_decimal in HR. unfold regular.
  destruct (m =? 0) eqn:E0.
  { destruct neg; vm_compute in HR; inversion HR; subst; congruence. }
  cbn zeta in HR.
  destruct (310 <? e) eqn:E1.
  { destruct neg; vm_compute in HR; discriminate. }
  destruct (e + (Z.log2 m / 3 + 1) <? -345) eqn:E2.
  { destruct neg; vm_compute in HR; inversion HR; subst; congruence. }
  lia.
Qed.

(* ------------------------------------------------------------------------------------------ *)
(* 3. the digit search, zero stripping and the decimal exponent                                *)
(* ------------------------------------------------------------------------------------------ *)

(* [shortest] without its unchecked fall-back: does some candidate pass the read-back test? *)
Fixpoint found_from (fuel : nat) (a : fl) (neg : bool) (num den p n : Z) : bool :=
  match fuel with
  | O => false
  | S f =>
      let '(d, sh) := round_sig num den p n in
      if Z.eqb (f_of_decimal neg d sh) a then true else found_from f a neg num den p (n + 1)
  end.

Lemma shortest_found fuel a neg num den p n :
  found_from fuel a neg num den p n = true ->
  exists n', n <= n' < n + Z.of_nat fuel /\
    shortest fuel a neg num den p n = round_sig num den p n' /\
    f_of_decimal neg (fst (round_sig num den p n')) (snd (round_sig num den p n')) = a.
Proof.
  revert n. induction fuel as [|f IH]; intros n H; cbn [found_from] in H; [discriminate|].
  cbn [shortest]. destruct (round_sig num den p n) as [d sh] eqn:ER.
  destruct (f_of_decimal neg d sh =? a) eqn:ET.
  - exists n. rewrite ER. cbn [fst snd]. split; [lia|]. split; [reflexivity|]. lia.
  - destruct (IH (n + 1) H) as [n' [Hn' [E1 E2]]]. exists n'. split; [lia|]. split; assumption.
Qed.

Lemma div_rne_nonneg a b : 0 <= a -> 0 < b -> 0 <= div_rne a b.
Proof.
  intros Ha Hb. unfold div_rne. pose proof (Z.div_pos a b Ha Hb).
  destruct (2 * (a mod b) <? b); lia.
Qed.

Lemma round_sig_spec num den p n : 0 < num -> 0 < den ->
  0 <= fst (round_sig num den p n) /\ snd (round_sig num den p n) = p - (n - 1).
Proof.
  intros Hn Hd. unfold round_sig. cbn [fst snd]. split; [|reflexivity].
  destruct (0 <=? p - (n - 1)) eqn:E.
  - apply div_rne_nonneg; [lia|]. assert (0 < 10 ^ (p - (n - 1))) by (apply Z.pow_pos_nonneg; lia). nia.
  - apply div_rne_nonneg; [|lia]. assert (0 < 10 ^ (- (p - (n - 1)))) by (apply Z.pow_pos_nonneg; lia). nia.
Qed.

Lemma strip_zeros_spec fuel : forall d sh, 0 < d ->
  0 < fst (strip_zeros fuel d sh) /\ sh <= snd (strip_zeros fuel d sh) /\
  d = fst (strip_zeros fuel d sh) * 10 ^ (snd (strip_zeros fuel d sh) - sh).
Proof.
  induction fuel as [|f IH]; intros d sh Hd; cbn [strip_zeros].
  - cbn [fst snd]. replace (sh - sh) with 0 by lia. lia.
  - destruct ((d mod 10 =? 0) && negb (d =? 0))%bool eqn:E.
    + pose proof (Z.div_mod d 10 ltac:(lia)) as HD.
      assert (H10 : 0 < d / 10) by lia.
      destruct (IH (d / 10) (sh + 1) H10) as [I1 [I2 I3]].
      split; [exact I1|]. split; [lia|].
      set (d' := fst (strip_zeros f (d / 10) (sh + 1))) in *.
      set (sh' := snd (strip_zeros f (d / 10) (sh + 1))) in *.
      replace (sh' - sh) with (Z.succ (sh' - (sh + 1))) by lia.
      rewrite Z.pow_succ_r by lia. lia.
    + cbn [fst snd]. replace (sh - sh) with 0 by lia. lia.
Qed.

(* value >= 10^P, in the integer form used by [dec_exp_adjust] *)
Definition ge_pow10 (num den P : Z) : bool :=
  if 0 <=? P then den * 10 ^ P <=? num else den <=? num * 10 ^ (- P).

Lemma dec_exp_adjust_lb fuel num den P : ge_pow10 num den P = true ->
  forall p, P <= p -> P <= dec_exp_adjust fuel num den p.
Proof.
  intros HP. induction fuel as [|f IH]; intros p Hp; cbn [dec_exp_adjust]; [exact Hp|].
  destruct (if 0 <=? p then num <? den * 10 ^ p else num * 10 ^ (- p) <? den) eqn:Elo.
  - apply IH. assert (P <> p); [|lia]. intros ->. unfold ge_pow10 in HP.
    destruct (0 <=? p); lia.
  - destruct (if 0 <=? p + 1 then den * 10 ^ (p + 1) <=? num else den <=? num * 10 ^ (- (p + 1))).
    + apply IH. lia.
    + exact Hp.
Qed.

(* the exact value of a finite non-zero float: positivity and a lower bound *)
Lemma f_ratio_facts a s num den : f_ratio a = Some (s, num, den) -> num <> 0 ->
  0 < num /\ 0 < den /\ (den = 1 \/ exists e, 0 < e <= 1074 /\ den = 2 ^ e).
Proof.
  unfold f_ratio. intros H Hn.
  destruct (of_bits a) as [s0|s0| |s0 m e] eqn:EB; try discriminate.
  { inversion H; subst. congruence. }
  assert (He : -1074 <= e).
  { unfold of_bits in EB.
    set (eb := (a / 2 ^ 52) mod 2 ^ 11) in *.
    pose proof (Z.mod_pos_bound (a / 2 ^ 52) (2 ^ 11) ltac:(reflexivity)) as Hb. fold eb in Hb.
    destruct (eb =? 0) eqn:E0.
    - destruct (a mod 2 ^ 52); inversion EB; lia.
    - destruct (eb =? 2047). { destruct (a mod 2 ^ 52 =? 0); discriminate. }
      destruct (a mod 2 ^ 52 + 2 ^ 52); inversion EB; lia. }
  destruct (0 <=? e) eqn:E; injection H as Es En Ed; subst s num den.
  - change (match 2 ^ e with 0 => 0 | Z.pos y1 => Z.pos (m * y1) | Z.neg y2 => Z.neg (m * y2) end)
      with (Z.pos m * 2 ^ e) in *.
    assert (0 < 2 ^ e) by (apply Z.pow_pos_nonneg; lia). split; [nia|]. split; [lia|]. left. reflexivity.
  - split; [lia|]. split; [apply Z.pow_pos_nonneg; lia|]. right. exists (- e). split; [lia|reflexivity].
Qed.

Lemma dec_exp_lb num den : 0 < num -> 0 < den -> (den = 1 \/ exists e, 0 < e <= 1074 /\ den = 2 ^ e) ->
  -324 <= dec_exp num den.
Proof.
  intros Hn Hd Hden. unfold dec_exp. apply dec_exp_adjust_lb.
  - unfold ge_pow10. change (0 <=? -324) with false. cbn iota. change (- -324) with 324.
    destruct Hden as [->|[e [He ->]]]; [lia|].
    assert (H1 : 2 ^ e <= 2 ^ 1074) by (apply Z.pow_le_mono_r; lia).
    assert (H2 : 2 ^ 1074 <= 10 ^ 324) by (vm_compute; discriminate).
    apply Z.leb_le. nia.
  - pose proof (Z.log2_nonneg num) as L0.
    assert (HL : Z.log2 den <= 1074).
    { destruct Hden as [->|[e [He ->]]]; [cbn; lia|]. rewrite Z.log2_pow2; lia. }
    change (-324) with ((-1074 * 30103) / 100000).
    apply Z.div_le_mono; lia.
Qed.

(* ------------------------------------------------------------------------------------------ *)
(* 4. digit strings                                                                            *)
(* ------------------------------------------------------------------------------------------ *)

Definition dstep (acc : Z) (d : char) : Z := acc * 10 + Z.of_N (d - 48).

Lemma digits_to_Z_fold ds : digits_to_Z ds = fold_left dstep ds 0.
Proof. reflexivity. Qed.

Lemma dfold_acc ds : forall acc,
  fold_left dstep ds acc = acc * 10 ^ Z.of_nat (length ds) + fold_left dstep ds 0.
Proof.
  induction ds as [|c r IH]; intros acc; cbn [fold_left length].
  - change (10 ^ Z.of_nat 0) with 1. lia.
  - rewrite (IH (dstep acc c)), (IH (dstep 0 c)). unfold dstep.
    rewrite Nat2Z.inj_succ, Z.pow_succ_r by lia. lia.
Qed.

Lemma digits_to_Z_app a b :
  digits_to_Z (a ++ b) = digits_to_Z a * 10 ^ Z.of_nat (length b) + digits_to_Z b.
Proof. rewrite !digits_to_Z_fold, fold_left_app. apply dfold_acc. Qed.

Lemma zeros_length n : length (zeros n) = n.
Proof. induction n as [|n IH]; cbn [zeros length]; [reflexivity|]. rewrite IH. reflexivity. Qed.

Lemma zeros_digits n : forallb is_digit10 (zeros n) = true.
Proof. induction n as [|n IH]; cbn [zeros forallb]; [reflexivity|]. rewrite IH. reflexivity. Qed.

Lemma digits_to_Z_zeros n : digits_to_Z (zeros n) = 0.
Proof.
  rewrite digits_to_Z_fold. induction n as [|n IH]; cbn [zeros fold_left]; [reflexivity|].
  change (dstep 0 c_0) with 0. exact IH.
Qed.

Lemma digits_to_Z_digits_val ds : forallb is_digit10 ds = true ->
  digits_to_Z ds = Z.of_N (digits_val 10 ds).
Proof.
  intros H. rewrite digits_to_Z_fold. unfold digits_val.
  change 0 with (Z.of_N 0%N) at 1. generalize 0%N as acc. revert H.
  induction ds as [|c r IH]; intros H acc; cbn [fold_left]; [reflexivity|].
  cbn [forallb] in H. apply andb_true_iff in H. destruct H as [Hc Hr].
  replace (dstep (Z.of_N acc) c) with (Z.of_N (acc * 10 + digit_val c)%N).
  - apply IH. exact Hr.
  - unfold dstep, digit_val. rewrite Hc. lia.
Qed.

Lemma show_Z_pos_spec d : 0 < d ->
  show_Z d <> [] /\ forallb is_digit10 (show_Z d) = true /\ digits_to_Z (show_Z d) = d.
Proof.
  intros Hd. destruct d as [|p|p]; try lia. cbn [show_Z].
  destruct (show_N_spec (Npos p)) as [H1 [H2 H3]].
  split; [exact H1|]. split; [exact H2|].
  rewrite (digits_to_Z_digits_val _ H2), H3. reflexivity.
Qed.

Lemma take_skip_while (p : char -> bool) ds rest : forallb p ds = true ->
  match rest with [] => True | c :: _ => p c = false end ->
  take_while p (ds ++ rest) = ds /\ skip_while p (ds ++ rest) = rest.
Proof.
  intros Hds Hrest. induction ds as [|c r IH]; cbn [app].
  - destruct rest as [|c r]; [split; reflexivity|]. cbn [take_while skip_while]. rewrite Hrest.
    split; reflexivity.
  - cbn [forallb] in Hds. apply andb_true_iff in Hds. destruct Hds as [Hc Hr].
    cbn [take_while skip_while]. rewrite Hc. destruct (IH Hr) as [I1 I2]. rewrite I1, I2.
    split; reflexivity.
Qed.

(* ------------------------------------------------------------------------------------------ *)
(* 5. [f_parse] on the three layouts printed by [f_display_finite]                             *)
(* ------------------------------------------------------------------------------------------ *)

Definition sign_str (neg : bool) : str := if neg then [c_minus] else [].

(* the numeric part of [f_parse], after the sign and the inf/nan words (a verbatim copy) *)
Definition parse_num (neg : bool) (s1 : str) : option fl :=
    let ip := take_while is_digit10 s1 in
    let r1 := skip_while is_digit10 s1 in
    let '(fp, r2, dot) := match r1 with
                     | c :: r => if (c =? c_dot)%N
                                 then (take_while is_digit10 r, skip_while is_digit10 r, true)
                                 else ([], r1, false)
                     | [] => ([], r1, false)
                     end in
    if (Nat.eqb (length ip) 0 && Nat.eqb (length fp) 0)%bool then None
    else
      let mant := digits_to_Z (ip ++ fp) in
      let e0 := - Z.of_nat (length fp) in
      match r2 with
      | [] => Some (f_of_decimal neg mant e0)
      | c :: r =>
          if ((c =? 101) || (c =? 69))%N then
            let '(eneg, r3) := match r with
                               | x :: y => if (x =? c_minus)%N then (true, y)
                                           else if (x =? c_plus)%N then (false, y) else (false, r)
                               | [] => (false, r)
                               end in
            let ed := take_while is_digit10 r3 in
            match ed, skip_while is_digit10 r3 with
            | _ :: _, [] =>
                let ev := if (Nat.ltb 8 (length (skip_while (fun c => (c =? 48)%N) ed)))
                          then 100000000 else digits_to_Z ed in
                Some (f_of_decimal neg mant (e0 + (if eneg then - ev else ev)))
            | _, _ => None
            end
          else None
      end.

Lemma lower_digit c : is_digit10 c = true -> lower c = c.
Proof.
  intros H. unfold lower. destruct ((65 <=? c)%N && (c <=? 90)%N)%bool eqn:E; [|reflexivity].
  unfold is_digit10 in H. lia.
Qed.

Lemma f_parse_digit_start neg c r : is_digit10 c = true ->
  f_parse (sign_str neg ++ c :: r) = parse_num neg (c :: r).
Proof.
  intros Hc.
  assert (Hw : forall x w, (x =? c)%N = false -> str_eqb (map lower (c :: r)) (x :: w) = false).
  { intros x w Hx. cbn [map str_eqb]. rewrite (lower_digit c Hc).
    replace (c =? x)%N with false by lia. reflexivity. }
  assert (H1 : (c =? c_minus)%N = false) by (unfold is_digit10, c_minus in *; lia).
  assert (H2 : (c =? c_plus)%N = false) by (unfold is_digit10, c_plus in *; lia).
  assert (W1 : str_eqb (map lower (c :: r)) (lit "inf") = false).
  { apply (Hw 105%N). unfold is_digit10 in Hc. lia. }
  assert (W2 : str_eqb (map lower (c :: r)) (lit "infinity") = false).
  { apply (Hw 105%N). unfold is_digit10 in Hc. lia. }
  assert (W3 : str_eqb (map lower (c :: r)) (lit "nan") = false).
  { apply (Hw 110%N). unfold is_digit10 in Hc. lia. }
  destruct neg; cbn [sign_str app]; unfold f_parse.
  - change (c_minus =? c_minus)%N with true. cbn iota. rewrite W1, W2, W3. reflexivity.
  - rewrite H1, H2. rewrite W1, W2, W3. reflexivity.
Qed.

Lemma parse_num_int neg ip : ip <> [] -> forallb is_digit10 ip = true ->
  parse_num neg ip = Some (f_of_decimal neg (digits_to_Z ip) 0).
Proof.
  intros Hne Hd. unfold parse_num.
  destruct (take_skip_while is_digit10 ip [] Hd I) as [T S]. rewrite app_nil_r in T, S.
  rewrite T, S. cbn zeta. cbn iota.
  destruct ip as [|c r]; [congruence|]. cbn [length Nat.eqb andb].
  rewrite app_nil_r. reflexivity.
Qed.

Lemma parse_num_frac neg ip fp : ip <> [] -> forallb is_digit10 ip = true ->
  forallb is_digit10 fp = true ->
  parse_num neg (ip ++ c_dot :: fp) =
  Some (f_of_decimal neg (digits_to_Z (ip ++ fp)) (- Z.of_nat (length fp))).
Proof.
  intros Hne Hd Hf. unfold parse_num.
  destruct (take_skip_while is_digit10 ip (c_dot :: fp) Hd eq_refl) as [T S].
  rewrite T, S. cbn zeta. change (c_dot =? c_dot)%N with true. cbn iota.
  destruct (take_skip_while is_digit10 fp [] Hf I) as [T2 S2]. rewrite app_nil_r in T2, S2.
  rewrite T2, S2.
  destruct ip as [|c r]; [congruence|]. cbn [length Nat.eqb andb]. reflexivity.
Qed.

(* ------------------------------------------------------------------------------------------ *)
(* 6. the printed decimal has the value of the digits found by the search                       *)
(* ------------------------------------------------------------------------------------------ *)

Lemma value_back_frac neg d0 sh0 d sh : regular d0 sh0 -> 0 < d -> sh0 <= sh ->
  d0 = d * 10 ^ (sh - sh0) -> sh < 0 -> -340 <= sh0 ->
  f_of_decimal neg d sh = f_of_decimal neg d0 sh0.
Proof.
  intros R0 Hd Hle Hv Hs Hlb. symmetry. apply f_of_decimal_eq; try assumption.
  unfold regular. split; [exact Hd|]. split; [lia|].
  pose proof (Z.log2_nonneg d) as HL.
  assert (0 <= Z.log2 d / 3) by (apply Z.div_pos; lia). lia.
Qed.

Lemma value_back_int neg d0 sh0 d sh : regular d0 sh0 -> 0 < d -> sh0 <= sh ->
  d0 = d * 10 ^ (sh - sh0) -> 0 <= sh ->
  f_of_decimal neg (d * 10 ^ sh) 0 = f_of_decimal neg d0 sh0.
Proof.
  intros R0 Hd Hle Hv Hs.
  assert (Hp : 0 < 10 ^ sh) by (apply Z.pow_pos_nonneg; lia).
  assert (R1 : regular (d * 10 ^ sh) 0).
  { unfold regular. split; [nia|]. split; [lia|].
    pose proof (Z.log2_nonneg (d * 10 ^ sh)) as HL.
    assert (0 <= Z.log2 (d * 10 ^ sh) / 3) by (apply Z.div_pos; lia). lia. }
  destruct (Z_le_gt_dec sh0 0) as [H0|H0].
  - symmetry. apply f_of_decimal_eq; try assumption.
    rewrite Hv. replace (sh - sh0) with (sh + (0 - sh0)) by lia.
    rewrite Z.pow_add_r by lia. ring.
  - apply f_of_decimal_eq; try assumption; [lia|].
    rewrite Hv. replace sh with ((sh - sh0) + (sh0 - 0)) at 1 by lia.
    rewrite Z.pow_add_r by lia. ring.
Qed.

Lemma forallb_cons_head (p : char -> bool) c r : forallb p (c :: r) = true -> p c = true.
Proof. cbn [forallb]. intros H. apply andb_true_iff in H. tauto. Qed.

Lemma display_parse a neg num den :
  f_ratio a = Some (neg, num, den) -> num <> 0 ->
  found_from 17 a neg num den (dec_exp num den) 1 = true ->
  f_parse (f_display_finite a) = Some a.
Proof.
  intros HR Hnz HF.
  destruct (f_ratio_facts a neg num den HR Hnz) as [Hnum [Hden Hshape]].
  pose proof (dec_exp_lb num den Hnum Hden Hshape) as Hp.
  unfold f_display_finite. rewrite HR.
  replace (num =? 0) with false by lia.
  set (p := dec_exp num den) in *.
  destruct (shortest_found 17 a neg num den p 1 HF) as [n' [Hn' [ES ET]]].
  rewrite ES.
  destruct (round_sig_spec num den p n' Hnum Hden) as [Hd0 Hsh0].
  destruct (round_sig num den p n') as [d0 sh0] eqn:ER. cbn [fst snd] in ET, Hd0, Hsh0.
  assert (R0 : regular d0 sh0).
  { apply (f_of_decimal_finite_regular neg d0 sh0 neg num den Hd0); [rewrite ET; exact HR|exact Hnz]. }
  assert (Hlb : -340 <= sh0) by lia.
  destruct (strip_zeros_spec 20 d0 sh0 ltac:(destruct R0; assumption)) as [Hd [Hle Hv]].
  destruct (strip_zeros 20 d0 sh0) as [d sh] eqn:EZ. cbn [fst snd] in Hd, Hle, Hv.
  destruct (show_Z_pos_spec d Hd) as [Hne [Hdig Hval]].
  set (ds := show_Z d) in *.
  change (if neg then [c_minus] else []) with (sign_str neg).
  destruct (0 <=? sh) eqn:E1.
  - (* integer layout: digits followed by zeros *)
    destruct ds as [|c r] eqn:Eds; [congruence|].
    cbn [app]. rewrite f_parse_digit_start by (exact (forallb_cons_head _ _ _ Hdig)).
    change (c :: r ++ zeros (Z.to_nat sh)) with ((c :: r) ++ zeros (Z.to_nat sh)).
    rewrite parse_num_int.
    2:{ discriminate. }
    2:{ rewrite forallb_app, Hdig, zeros_digits. reflexivity. }
    rewrite digits_to_Z_app, Hval, digits_to_Z_zeros, zeros_length.
    rewrite Z2Nat.id by lia. rewrite Z.add_0_r.
    rewrite (value_back_int neg d0 sh0 d sh R0 Hd Hle Hv ltac:(lia)). rewrite ET. reflexivity.
  - set (n := Z.of_nat (length ds)).
    destruct (0 <? n + sh) eqn:E2.
    + (* int.frac *)
      set (j := Z.to_nat (n + sh)).
      pose proof (firstn_skipn j ds) as HFS.
      assert (HLA : length (firstn j ds) = j) by (rewrite firstn_length; lia).
      assert (HLB : length (skipn j ds) = (length ds - j)%nat) by (apply skipn_length).
      assert (HDAB : forallb is_digit10 (firstn j ds ++ skipn j ds) = true) by (rewrite HFS; exact Hdig).
      rewrite forallb_app in HDAB. apply andb_true_iff in HDAB. destruct HDAB as [HDA HDB].
      destruct (firstn j ds) as [|c A] eqn:EA; [cbn [length] in HLA; lia|].
      cbn [app]. rewrite f_parse_digit_start by (exact (forallb_cons_head _ _ _ HDA)).
      change (c :: A ++ c_dot :: skipn j ds) with ((c :: A) ++ c_dot :: skipn j ds).
      rewrite parse_num_frac; [|discriminate|exact HDA|exact HDB].
      rewrite HFS, Hval, HLB.
      replace (- Z.of_nat (length ds - j)) with sh by lia.
      rewrite (value_back_frac neg d0 sh0 d sh R0 Hd Hle Hv ltac:(lia) Hlb). rewrite ET. reflexivity.
    + (* 0.000ddd *)
      set (z := Z.to_nat (- (n + sh))).
      cbn [app]. rewrite f_parse_digit_start by reflexivity.
      change (c_0 :: c_dot :: zeros z ++ ds) with ([c_0] ++ c_dot :: (zeros z ++ ds)).
      rewrite parse_num_frac; [|discriminate|reflexivity|].
      2:{ rewrite forallb_app, zeros_digits, Hdig. reflexivity. }
      change ([c_0] ++ zeros z ++ ds) with (zeros (S z) ++ ds).
      rewrite digits_to_Z_app, digits_to_Z_zeros, Hval, app_length, zeros_length.
      replace (- Z.of_nat (z + length ds)) with sh by lia.
      rewrite Z.mul_0_l, Z.add_0_l.
      rewrite (value_back_frac neg d0 sh0 d sh R0 Hd Hle Hv ltac:(lia) Hlb). rewrite ET. reflexivity.
Qed.
Print Assumptions display_parse.

(* ------------------------------------------------------------------------------------------ *)
(* 7. main theorems                                                                            *)
(* ------------------------------------------------------------------------------------------ *)

(* [a] is a 64-bit pattern denoting a finite float (zero, subnormal or normal) *)
Definition finite_bits (a : fl) : bool :=
  (0 <=? a) && (a <? 2 ^ 64) && match f_ratio a with Some _ => true | None => false end.

(* the digit search of [f_display_finite] succeeds for one of n = 1..17, i.e. [shortest] does not
   reach its unchecked 17-digit fall-back (no search is made for a zero) *)
Definition found (a : fl) : bool :=
  match f_ratio a with
  | Some (neg, num, den) => (num =? 0) || found_from 17 a neg num den (dec_exp num den) 1
  | None => false
  end.

Lemma fmt_float_finite a x : f_ratio a = Some x -> fmt_float a = f_display_finite a.
Proof.
  intros H. unfold fmt_float.
  destruct (a =? f_pos_inf) eqn:E1. { apply Z.eqb_eq in E1. subst a. vm_compute in H. discriminate. }
  destruct (a =? f_neg_inf) eqn:E2. { apply Z.eqb_eq in E2. subst a. vm_compute in H. discriminate. }
  unfold f_is_nan. unfold f_ratio in H. destruct (of_bits a); try reflexivity. discriminate.
Qed.

(* non-zero finite floats: no range condition on the bit pattern is needed *)
Theorem fmt_parse_found_nonzero a neg num den :
  f_ratio a = Some (neg, num, den) -> num <> 0 ->
  found_from 17 a neg num den (dec_exp num den) 1 = true ->
  f_parse (fmt_float a) = Some a.
Proof.
  intros HR Hn HF. rewrite (fmt_float_finite a _ HR). exact (display_parse a neg num den HR Hn HF).
Qed.
Print Assumptions fmt_parse_found_nonzero.

Lemma zero_bits a s : 0 <= a < 2 ^ 64 -> of_bits a = S754_zero s -> a = sign_bit s.
Proof.
  intros [Ha1 Ha2] H.
  pose proof (Z.div_mod a (2 ^ 52) ltac:(lia)) as D1.
  pose proof (Z.mod_pos_bound a (2 ^ 52) ltac:(lia)) as B1.
  pose proof (Z.div_mod (a / 2 ^ 52) (2 ^ 11) ltac:(lia)) as D2.
  pose proof (Z.mod_pos_bound (a / 2 ^ 52) (2 ^ 11) ltac:(lia)) as B2.
  unfold of_bits in H.
  set (h := a / 2 ^ 52) in *. set (e := h mod 2 ^ 11) in *. set (m := a mod 2 ^ 52) in *.
  set (h2 := h / 2 ^ 11) in *.
  destruct (e =? 0) eqn:E0.
  - assert (Hm : m = 0) by (destruct m; [reflexivity|discriminate|lia]).
    assert (Hcases : a = 0 \/ a = 2 ^ 63).
    { change (2 ^ 52) with 4503599627370496 in *. change (2 ^ 11) with 2048 in *.
      change (2 ^ 64) with 18446744073709551616 in *. change (2 ^ 63) with 9223372036854775808. lia. }
    rewrite Hm in H.
    destruct Hcases as [-> | ->]; vm_compute in H; injection H as <-; reflexivity.
  - destruct (e =? 2047). { destruct (m =? 0); discriminate. }
    destruct (m + 2 ^ 52) eqn:Em; try discriminate; lia.
Qed.

Theorem fmt_parse_zero : f_parse (fmt_float 0) = Some 0 /\
                         f_parse (fmt_float (sign_bit true)) = Some (sign_bit true).
Proof. split; vm_compute; reflexivity. Qed.

Lemma fmt_parse_sign_bit s : f_parse (fmt_float (sign_bit s)) = Some (sign_bit s).
Proof. destruct s; vm_compute; reflexivity. Qed.

Theorem fmt_parse_found : forall a, finite_bits a = true -> found a = true ->
  f_parse (fmt_float a) = Some a.
Proof.
  intros a HB HF. unfold finite_bits in HB. unfold found in HF.
  destruct (f_ratio a) as [[[neg num] den]|] eqn:HR; [|discriminate].
  destruct (num =? 0) eqn:E0.
  - (* a is one of the two zeros *)
    assert (Hrange : 0 <= a < 2 ^ 64) by lia. clear HF HB.
    assert (Hz : exists s, of_bits a = S754_zero s).
    { unfold f_ratio in HR. destruct (of_bits a) as [s0|s0| |s0 m e]; try discriminate.
      - exists s0. reflexivity.
      - exfalso. destruct (0 <=? e) eqn:Ee; injection HR as E1 E2 E3; subst num.
        + assert (0 < 2 ^ e) by (apply Z.pow_pos_nonneg; lia).
          change (match 2 ^ e with 0 => 0 | Z.pos y1 => Z.pos (m * y1) | Z.neg y2 => Z.neg (m * y2) end)
            with (Z.pos m * 2 ^ e) in *. nia.
        + lia. }
    destruct Hz as [s Hs]. rewrite (zero_bits a s Hrange Hs).
    apply fmt_parse_sign_bit.
  - rewrite Bool.orb_false_l in HF. apply (fmt_parse_found_nonzero a neg num den HR); [lia|exact HF].
Qed.
Print Assumptions fmt_parse_found.

(* infinities and NaN *)
Theorem fmt_parse_inf : f_parse (fmt_float f_pos_inf) = Some f_pos_inf /\
                        f_parse (fmt_float f_neg_inf) = Some f_neg_inf.
Proof. split; vm_compute; reflexivity. Qed.

(* every NaN prints as "NaN", which reads back as the canonical quiet NaN [f_nan] — so the bit
   pattern round-trips only for a = f_nan; e.g. f_nan + 1 does not *)
Theorem fmt_parse_nan : forall a, f_is_nan a = true ->
  fmt_float a = lit "NaN" /\ f_parse (fmt_float a) = Some f_nan.
Proof.
  intros a H.
  assert (E : fmt_float a = lit "NaN").
  { unfold fmt_float.
    destruct (a =? f_pos_inf) eqn:E1. { apply Z.eqb_eq in E1. subst a. vm_compute in H. discriminate. }
    destruct (a =? f_neg_inf) eqn:E2. { apply Z.eqb_eq in E2. subst a. vm_compute in H. discriminate. }
    rewrite H. reflexivity. }
  split; [exact E|]. rewrite E. vm_compute. reflexivity.
Qed.
Print Assumptions fmt_parse_nan.

Example nan_payload_lost :
  f_is_nan (f_nan + 1) = true /\ f_parse (fmt_float (f_nan + 1)) = Some f_nan /\ f_nan + 1 <> f_nan.
Proof. split; [vm_compute; reflexivity|]. split; [vm_compute; reflexivity|]. discriminate. Qed.

(* the hypotheses are satisfiable: bit patterns of 0.1, 1e300, 5e-324 (least subnormal),
   1.7976931348623157e308 (greatest finite), 0.30000000000000004, -2.5, 9.5e22, 1e23, 0, -0 *)
Example found_0_1 : finite_bits 4591870180066957722 = true /\ found 4591870180066957722 = true.
Proof. split; vm_compute; reflexivity. Qed.
Example found_1e300 : finite_bits 9094988921128908188 = true /\ found 9094988921128908188 = true.
Proof. split; vm_compute; reflexivity. Qed.
Example found_min_subnormal : finite_bits 1 = true /\ found 1 = true.
Proof. split; vm_compute; reflexivity. Qed.
Example found_max_finite : finite_bits 9218868437227405311 = true /\ found 9218868437227405311 = true.
Proof. split; vm_compute; reflexivity. Qed.
Example found_0_30000000000000004 : finite_bits 4599075939470750516 = true /\ found 4599075939470750516 = true.
Proof. split; vm_compute; reflexivity. Qed.
Example found_neg_2_5 : finite_bits 13836183955189006336 = true /\ found 13836183955189006336 = true.
Proof. split; vm_compute; reflexivity. Qed.
Example found_9_5e22 : finite_bits 4950614832106466717 = true /\ found 4950614832106466717 = true.
Proof. split; vm_compute; reflexivity. Qed.
Example found_1e23 : finite_bits 4950912855330343670 = true /\ found 4950912855330343670 = true.
Proof. split; vm_compute; reflexivity. Qed.
Example found_zeros : found 0 = true /\ found (sign_bit true) = true.
Proof. split; vm_compute; reflexivity. Qed.
(* and the strings, for the record *)
Example show_0_1 : fmt_float 4591870180066957722 = lit "0.1".
Proof. vm_compute. reflexivity. Qed.
Example show_9_5e22 : fmt_float 4950614832106466717 = lit "95000000000000000000000".
Proof. vm_compute. reflexivity. Qed.
Example show_min_subnormal_prefix : firstn 8 (fmt_float 1) = lit "0.000000" /\ length (fmt_float 1) = 326%nat.
Proof. split; vm_compute; reflexivity. Qed.

(* ------------------------------------------------------------------------------------------ *)
(* 8. the search succeeds for every integer of absolute value below 2^53                       *)
(* ------------------------------------------------------------------------------------------ *)

Lemma digits2_pos_lower p : 2 ^ (Zpos (digits2_pos p) - 1) <= Zpos p.
Proof.
  induction p as [p IH|p IH|]; cbn [digits2_pos]; [| |cbn; lia];
    rewrite Pos2Z.inj_succ; replace (Z.succ (Zpos (digits2_pos p)) - 1) with (Z.succ (Zpos (digits2_pos p) - 1)) by lia;
    rewrite Z.pow_succ_r by lia; lia.
Qed.

Lemma digits2_pos_unique p n : 2 ^ (n - 1) <= Zpos p < 2 ^ n -> Zpos (digits2_pos p) = n.
Proof.
  intros [H1 H2]. pose proof (digits2_pos_spec p) as U. pose proof (digits2_pos_lower p) as L.
  set (D := Zpos (digits2_pos p)) in *.
  assert (Hn : 0 < n).
  { destruct (Z_lt_le_dec 0 n) as [|Hle]; [assumption|]. exfalso.
    destruct (Z.eq_dec n 0) as [->|Hne]; [change (2 ^ 0) with 1 in H2; lia|].
    rewrite Z.pow_neg_r in H2 by lia. lia. }
  destruct (Z_lt_le_dec D n) as [Hlt|Hge].
  - assert (2 ^ D <= 2 ^ (n - 1)) by (apply Z.pow_le_mono_r; lia). lia.
  - destruct (Z_lt_le_dec n D) as [Hlt|Hge2]; [|lia].
    assert (2 ^ n <= 2 ^ (D - 1)) by (apply Z.pow_le_mono_r; lia). lia.
Qed.

Lemma log2_digits p : Z.log2 (Zpos p) = Zpos (digits2_pos p) - 1.
Proof.
  apply Z.log2_unique; [lia|]. pose proof (digits2_pos_spec p). pose proof (digits2_pos_lower p).
  replace (Z.succ (Zpos (digits2_pos p) - 1)) with (Zpos (digits2_pos p)) by lia. lia.
Qed.

Lemma nit_shr_exact n : forall p q, Zpos q = Zpos p * 2 ^ Z.of_nat n ->
  nit shr_1 n (Build_shr_record (Zpos q) false false) = Build_shr_record (Zpos p) false false.
Proof.
  induction n as [|n IH]; intros p q H.
  - cbn [nit]. change (2 ^ Z.of_nat 0) with 1 in H. f_equal. lia.
  - cbn [nit]. rewrite Nat2Z.inj_succ, Z.pow_succ_r in H by lia.
    destruct q as [q'|q'|]; try lia.
    cbn [shr_1 orb]. apply IH. lia.
Qed.

(* an integer with at most 53 bits is represented exactly *)
Lemma RR_int (m : positive) : Zpos (digits2_pos m) <= 53 ->
  exists mz, Zpos mz = Zpos m * 2 ^ (53 - Zpos (digits2_pos m)) /\ 2 ^ 52 <= Zpos mz < 2 ^ 53 /\
    RR (Zpos m) 1 (ratio_k (Zpos m) 1) = S754_finite false mz (Zpos (digits2_pos m) - 53).
Proof.
  intros HD. pose proof (digits2_pos_spec m) as U. pose proof (digits2_pos_lower m) as L.
  pose proof (log2_digits m) as HL.
  set (D := Zpos (digits2_pos m)) in *.
  assert (HD1 : 1 <= D) by (unfold D; lia).
  assert (Hk : ratio_k (Zpos m) 1 = 59 - D).
  { unfold ratio_k. rewrite HL. change (Z.log2 1) with 0. lia. }
  rewrite Hk. unfold RR. rewrite Z.div_1_r, Z.mod_1_r. change (0 =? 0) with true. cbn iota.
  assert (Hpz : 0 < 2 ^ (53 - D)) by (apply Z.pow_pos_nonneg; lia).
  destruct (Zpos m * 2 ^ (53 - D)) as [|mz|mz] eqn:Emz; try lia.
  exists mz. split; [reflexivity|].
  assert (Hmz : 2 ^ 52 <= Zpos mz < 2 ^ 53).
  { assert (E52 : 2 ^ 52 = 2 ^ (D - 1) * 2 ^ (53 - D)) by (rewrite <- Z.pow_add_r by lia; f_equal; lia).
    assert (E53 : 2 ^ 53 = 2 ^ D * 2 ^ (53 - D)) by (rewrite <- Z.pow_add_r by lia; f_equal; lia).
    rewrite <- Emz, E52, E53.
    split; [apply Z.mul_le_mono_nonneg_r; lia | apply Z.mul_lt_mono_pos_r; lia]. }
  split; [exact Hmz|].
  assert (Eq : 2 * (Zpos m * 2 ^ (59 - D)) + 0 = Zpos mz * 2 ^ 7).
  { rewrite <- Emz. replace (59 - D) with ((53 - D) + 6) by lia. rewrite Z.pow_add_r by lia.
    change (2 ^ 6) with 64. change (2 ^ 7) with 128. lia. }
  rewrite Eq.
  destruct (Zpos mz * 2 ^ 7) as [|mq|mq] eqn:Emq; try lia.
  unfold normalize. cbn [binary_normalize]. unfold binary_round.
  assert (Dq : Zpos (digits2_pos mq) = 60).
  { apply digits2_pos_unique. rewrite <- Emq. change (2 ^ 7) with 128.
    change (2 ^ (60 - 1)) with (2 ^ 52 * 128). change (2 ^ 60) with (2 ^ 53 * 128). lia. }
  assert (Dz : Zpos (digits2_pos mz) = 53).
  { apply digits2_pos_unique. exact Hmz. }
  rewrite Dq. rewrite fexp_unfold. rewrite shl_align_id by lia.
  unfold binary_round_aux. unfold prec, emax. unfold shr_fexp at 1. cbn [Zdigits2]. rewrite Dq.
  replace (fexp 53 1024 (60 + (- (59 - D) - 1)) - (- (59 - D) - 1)) with 7 by (rewrite fexp_unfold; lia).
  cbn [shr shr_record_of_loc]. rewrite iter_pos_nit. change (Pos.to_nat 7) with 7%nat.
  rewrite (nit_shr_exact 7 mz mq) by (symmetry; exact Emq).
  cbn [shr_m loc_of_shr_record round_nearest_even].
  unfold shr_fexp. cbn [Zdigits2]. rewrite Dz.
  replace (fexp 53 1024 (53 + (- (59 - D) - 1 + 7)) - (- (59 - D) - 1 + 7)) with 0 by (rewrite fexp_unfold; lia).
  cbn [shr shr_record_of_loc shr_m].
  replace (Zle_bool (- (59 - D) - 1 + 7) (1024 - 53)) with true.
  2:{ symmetry. apply Zle_imp_le_bool. lia. }
  f_equal. lia.
Qed.

(* bit patterns of normal numbers decode to themselves *)
Lemma of_bits_to_bits_normal s mz F : 2 ^ 52 <= Zpos mz < 2 ^ 53 -> -1074 <= F <= 971 ->
  0 <= to_bits (S754_finite s mz F) < 2 ^ 64 /\
  of_bits (to_bits (S754_finite s mz F)) = S754_finite s mz F.
Proof.
  intros Hm HF. unfold to_bits.
  replace (Zpos mz <? 2 ^ 52) with false by lia.
  set (x := Zpos mz - 2 ^ 52). set (E := F + 1075).
  set (sb := if s then 1 else 0).
  assert (Hsb : sign_bit s = sb * 2 ^ 63) by (destruct s; reflexivity).
  rewrite Hsb. set (b := sb * 2 ^ 63 + E * 2 ^ 52 + x).
  assert (Hx : 0 <= x < 2 ^ 52) by (unfold x; lia).
  assert (HE : 1 <= E <= 2046) by (unfold E; lia).
  assert (Hs01 : 0 <= sb <= 1) by (unfold sb; destruct s; lia).
  change (2 ^ 52) with 4503599627370496 in *. change (2 ^ 63) with 9223372036854775808 in *.
  change (2 ^ 64) with 18446744073709551616. change (2 ^ 53) with 9007199254740992 in *.
  split; [unfold b; lia|].
  unfold of_bits.
  assert (B1 : b mod 2 ^ 52 = x).
  { symmetry. apply (Z.mod_unique _ _ (sb * 2048 + E)); [left; change (2 ^ 52) with 4503599627370496; lia|].
    change (2 ^ 52) with 4503599627370496. unfold b. lia. }
  assert (B2 : b / 2 ^ 52 = sb * 2048 + E).
  { symmetry. apply (Z.div_unique _ _ _ x); [left; change (2 ^ 52) with 4503599627370496; lia|].
    change (2 ^ 52) with 4503599627370496. unfold b. lia. }
  assert (B3 : (sb * 2048 + E) mod 2 ^ 11 = E).
  { symmetry. apply (Z.mod_unique _ _ sb); [left; change (2 ^ 11) with 2048; lia|].
    change (2 ^ 11) with 2048. lia. }
  assert (B4 : Z.testbit b 63 = s).
  { rewrite Z.testbit_eqb by lia.
    assert (Q : b / 2 ^ 63 = sb).
    { symmetry. apply (Z.div_unique _ _ _ (E * 4503599627370496 + x));
        [left; change (2 ^ 63) with 9223372036854775808; lia|].
      change (2 ^ 63) with 9223372036854775808. unfold b. lia. }
    rewrite Q. unfold sb. destruct s; reflexivity. }
  rewrite B4, B2, B3, B1.
  replace (E =? 0) with false by lia. replace (E =? 2047) with false by lia.
  replace (x + 2 ^ 52) with (Zpos mz) by (unfold x; change (2 ^ 52) with 4503599627370496; lia).
  f_equal. unfold E. lia.
Qed.

Lemma dec_exp_adjust_ub fuel num den P : ge_pow10 num den (P + 1) = false ->
  forall p, p <= P -> dec_exp_adjust fuel num den p <= P.
Proof.
  intros HP. induction fuel as [|f IH]; intros p Hp; cbn [dec_exp_adjust]; [exact Hp|].
  destruct (if 0 <=? p then num <? den * 10 ^ p else num * 10 ^ (- p) <? den).
  - apply IH. lia.
  - change (if 0 <=? p + 1 then den * 10 ^ (p + 1) <=? num else den <=? num * 10 ^ (- (p + 1)))
      with (ge_pow10 num den (p + 1)).
    destruct (ge_pow10 num den (p + 1)) eqn:Ehi; [|exact Hp].
    apply IH. assert (p + 1 <> P + 1) by congruence. lia.
Qed.

Lemma dec_exp_int num den z t : num = z * den -> den = 2 ^ t -> 0 <= t -> 0 < z < 2 ^ 53 ->
  0 <= dec_exp num den <= 15.
Proof.
  intros En Ed Ht Hz.
  assert (Hden : 0 < den) by (subst den; apply Z.pow_pos_nonneg; lia).
  assert (HL : Z.log2 num - Z.log2 den = Z.log2 z).
  { rewrite En, Ed, Z.log2_mul_pow2, Z.log2_pow2 by lia. lia. }
  assert (HLz : 0 <= Z.log2 z <= 52).
  { split; [apply Z.log2_nonneg|]. assert (Z.log2 z < 53) by (apply Z.log2_lt_pow2; lia). lia. }
  unfold dec_exp. rewrite HL. split.
  - apply dec_exp_adjust_lb.
    + unfold ge_pow10. change (0 <=? 0) with true. cbn iota. change (10 ^ 0) with 1. nia.
    + apply Z.div_pos; lia.
  - apply dec_exp_adjust_ub.
    + unfold ge_pow10. change (0 <=? 15 + 1) with true. cbn iota.
      change (10 ^ (15 + 1)) with 10000000000000000. change (2 ^ 53) with 9007199254740992 in Hz. nia.
    + change 15 with ((52 * 30103) / 100000). apply Z.div_le_mono; lia.
Qed.

Lemma found_from_exists fuel a neg num den p : forall n n',
  n <= n' < n + Z.of_nat fuel ->
  f_of_decimal neg (fst (round_sig num den p n')) (snd (round_sig num den p n')) = a ->
  found_from fuel a neg num den p n = true.
Proof.
  induction fuel as [|f IH]; intros n n' Hn HT; [lia|].
  cbn [found_from]. destruct (round_sig num den p n) as [d sh] eqn:ER.
  destruct (f_of_decimal neg d sh =? a) eqn:ET; [reflexivity|].
  apply (IH (n + 1) n'); [|exact HT].
  assert (n <> n'); [|lia]. intros ->. rewrite ER in HT. cbn [fst snd] in HT. lia.
Qed.

Lemma round_sig_exact z den p : 0 < den -> round_sig (z * den) den p (p + 1) = (z, 0).
Proof.
  intros Hd. unfold round_sig. replace (p - (p + 1 - 1)) with 0 by lia.
  change (0 <=? 0) with true. cbn iota. change (10 ^ 0) with 1. rewrite Z.mul_1_r.
  unfold div_rne. rewrite Z.div_mul, Z.mod_mul by lia.
  replace (2 * 0 <? den) with true by lia. reflexivity.
Qed.

(* the float read from the decimal integer z, 0 < z < 2^53, with either sign: it is a finite
   bit pattern and the digit search succeeds (at the number of digits of z, or earlier) *)
Theorem found_int : forall neg z, 0 < z < 2 ^ 53 ->
  finite_bits (f_of_decimal neg z 0) = true /\ found (f_of_decimal neg z 0) = true.
Proof.
  intros neg z Hz. destruct z as [|m|m]; try lia.
  pose proof (digits2_pos_lower m) as L.
  assert (HD : Zpos (digits2_pos m) <= 53).
  { destruct (Z_le_gt_dec (Zpos (digits2_pos m)) 53) as [|Hgt]; [assumption|].
    assert (2 ^ 53 <= 2 ^ (Zpos (digits2_pos m) - 1)) by (apply Z.pow_le_mono_r; lia). lia. }
  destruct (RR_int m HD) as [mz [Emz [Hmz ER]]].
  set (D := Zpos (digits2_pos m)) in *.
  assert (HD1 : 1 <= D) by (unfold D; lia).
  assert (Ea : f_of_decimal neg (Zpos m) 0 = to_bits (S754_finite neg mz (D - 53))).
  { rewrite f_of_decimal_regular.
    2:{ unfold regular. split; [lia|]. split; [lia|].
        assert (0 <= Z.log2 (Zpos m) / 3) by (apply Z.div_pos; [apply Z.log2_nonneg|lia]). lia. }
    change (0 <=? 0) with true. cbn iota. change (10 ^ 0) with 1. rewrite Z.mul_1_r.
    rewrite f_of_ratio_RR, ER. destruct neg; reflexivity. }
  set (a := f_of_decimal neg (Zpos m) 0) in *.
  destruct (of_bits_to_bits_normal neg mz (D - 53) Hmz ltac:(lia)) as [Hrange Hob].
  rewrite <- Ea in Hrange, Hob.
  assert (HR : exists num den t, f_ratio a = Some (neg, num, den) /\ num = Zpos m * den /\ den = 2 ^ t /\ 0 <= t).
  { unfold f_ratio. rewrite Hob. destruct (0 <=? D - 53) eqn:E.
    - exists (Zpos mz * 2 ^ (D - 53)), 1, 0. split; [reflexivity|]. split; [|split; [reflexivity|lia]].
      rewrite Emz. replace (D - 53) with 0 by lia. replace (53 - D) with 0 by lia. change (2 ^ 0) with 1. lia.
    - exists (Zpos mz), (2 ^ (- (D - 53))), (- (D - 53)). split; [reflexivity|].
      split; [|split; [reflexivity|lia]]. rewrite Emz. f_equal. f_equal. lia. }
  destruct HR as [num [den [t [HR [En [Ed Ht]]]]]].
  assert (Hden : 0 < den) by (subst den; apply Z.pow_pos_nonneg; lia).
  split.
  - unfold finite_bits. rewrite HR. lia.
  - unfold found. rewrite HR.
    replace (num =? 0) with false by nia. rewrite Bool.orb_false_l.
    pose proof (dec_exp_int num den (Zpos m) t En Ed Ht Hz) as Hp.
    set (p := dec_exp num den) in *.
    apply (found_from_exists 17 a neg num den p 1 (p + 1)); [lia|].
    rewrite En, round_sig_exact by exact Hden. reflexivity.
Qed.
Print Assumptions found_int.

Corollary fmt_parse_int : forall neg z, 0 < z < 2 ^ 53 ->
  f_parse (fmt_float (f_of_decimal neg z 0)) = Some (f_of_decimal neg z 0).
Proof. intros neg z Hz. destruct (found_int neg z Hz) as [H1 H2]. apply fmt_parse_found; assumption. Qed.
Print Assumptions fmt_parse_int.

(* the same float is [f_of_Z z] (molt's i64 -> f64 conversion) *)
Lemma binary_round_int s (m : positive) : Zpos (digits2_pos m) <= 53 ->
  forall mz, Zpos mz = Zpos m * 2 ^ (53 - Zpos (digits2_pos m)) ->
  binary_round 53 1024 s m 0 = S754_finite s mz (Zpos (digits2_pos m) - 53).
Proof.
  intros HD mz Emz. pose proof (digits2_pos_spec m) as U. pose proof (digits2_pos_lower m) as L.
  set (D := Zpos (digits2_pos m)) in *.
  assert (HD1 : 1 <= D) by (unfold D; lia).
  assert (Hmz : 2 ^ 52 <= Zpos mz < 2 ^ 53).
  { assert (E52 : 2 ^ 52 = 2 ^ (D - 1) * 2 ^ (53 - D)) by (rewrite <- Z.pow_add_r by lia; f_equal; lia).
    assert (E53 : 2 ^ 53 = 2 ^ D * 2 ^ (53 - D)) by (rewrite <- Z.pow_add_r by lia; f_equal; lia).
    assert (Hpz : 0 < 2 ^ (53 - D)) by (apply Z.pow_pos_nonneg; lia).
    rewrite Emz, E52, E53.
    split; [apply Z.mul_le_mono_nonneg_r; lia | apply Z.mul_lt_mono_pos_r; lia]. }
  assert (Dz : Zpos (digits2_pos mz) = 53) by (apply digits2_pos_unique; exact Hmz).
  unfold binary_round. fold D. rewrite fexp_unfold.
  assert (ES : shl_align m 0 (Z.max (D + 0 - 53) (-1074)) = (mz, D - 53)).
  { unfold shl_align. replace (Z.max (D + 0 - 53) (-1074) - 0) with (D - 53) by lia.
    destruct (D - 53) as [|d|d] eqn:Ed; try lia.
    - replace (53 - D) with 0 in Emz by lia. change (2 ^ 0) with 1 in Emz.
      assert (mz = m) by lia. subst mz. reflexivity.
    - assert (Hs : shift_pos d m = mz).
      { apply Pos2Z.inj. rewrite shift_pos_correct, Emz.
        replace (53 - D) with (Zpos d) by lia. change (2 ^ Zpos d) with (Z.pow_pos 2 d). lia. }
      rewrite Hs. f_equal. lia. }
  rewrite ES. unfold binary_round_aux.
  assert (SH : forall x, Zpos (digits2_pos x) = 53 ->
            shr_fexp 53 1024 (Zpos x) (D - 53) loc_Exact = (Build_shr_record (Zpos x) false false, D - 53)).
  { intros x Hx. unfold shr_fexp. cbn [Zdigits2]. rewrite Hx.
    replace (fexp 53 1024 (53 + (D - 53)) - (D - 53)) with 0 by (rewrite fexp_unfold; lia). reflexivity. }
  rewrite (SH mz Dz). cbn [shr_m loc_of_shr_record round_nearest_even]. rewrite (SH mz Dz). cbn [shr_m].
  replace (Zle_bool (D - 53) (1024 - 53)) with true; [reflexivity|].
  symmetry. apply Zle_imp_le_bool. lia.
Qed.

Theorem f_of_Z_decimal : forall z, 0 < Z.abs z < 2 ^ 53 ->
  f_of_Z z = f_of_decimal (z <? 0) (Z.abs z) 0.
Proof.
  intros z Hz.
  assert (G : forall s m, Zpos m < 2 ^ 53 ->
            to_bits (binary_round 53 1024 s m 0) = f_of_decimal s (Zpos m) 0).
  { intros s m Hm. pose proof (digits2_pos_lower m) as L.
    assert (HD : Zpos (digits2_pos m) <= 53).
    { destruct (Z_le_gt_dec (Zpos (digits2_pos m)) 53) as [|Hgt]; [assumption|].
      assert (2 ^ 53 <= 2 ^ (Zpos (digits2_pos m) - 1)) by (apply Z.pow_le_mono_r; lia). lia. }
    destruct (RR_int m HD) as [mz [Emz [Hmz ER]]].
    rewrite (binary_round_int s m HD mz Emz).
    rewrite f_of_decimal_regular.
    2:{ unfold regular. split; [lia|]. split; [lia|].
        assert (0 <= Z.log2 (Zpos m) / 3) by (apply Z.div_pos; [apply Z.log2_nonneg|lia]). lia. }
    change (0 <=? 0) with true. cbn iota. change (10 ^ 0) with 1. rewrite Z.mul_1_r.
    rewrite f_of_ratio_RR, ER. destruct s; reflexivity. }
  destruct z as [|m|m]; try lia.
  - exact (G false m ltac:(lia)).
  - exact (G true m ltac:(lia)).
Qed.
Print Assumptions f_of_Z_decimal.

(* every i64 of absolute value below 2^53, converted to a float, prints and reads back *)
Theorem fmt_parse_f_of_Z : forall z, Z.abs z < 2 ^ 53 ->
  f_parse (fmt_float (f_of_Z z)) = Some (f_of_Z z).
Proof.
  intros z Hz. destruct (Z.eq_dec z 0) as [->|Hnz]; [vm_compute; reflexivity|].
  rewrite f_of_Z_decimal by lia. apply fmt_parse_int. lia.
Qed.
Print Assumptions fmt_parse_f_of_Z.
