(* CtlProgFacts2.v — C09, continued: the checker's oracle (Check/C09.v: ev9, cond9, stmt9, block9)
   against the reference semantics [run] of Proofs/CtlProgFacts.v, on encoded programs.

   The checker's program trees have no general `while`: their ("while" c k body) is the counting
   loop   set c 0; while {$c < k} {incr c; body}.   So the encoded language is [cblock] below
   (set / incr / if / if-else / counting while / break / continue); [to_prog] expands it into the
   language of CtlProgFacts.v and [to_term] encodes it as the checker's terms.

   Main statements: [ev9_enc] / [cond9_enc] (expressions), [checker_agrees] (block9 on
   [to_term cp] = [run] on [to_prog cp], for every checker fuel >= the nesting depth),
   [model_matches_oracle] (with CtlProgFacts.run_agrees: the model on the rendered text of
   [to_prog cp] = the oracle on [to_term cp]).  Side conditions: [wfc_block] (as wf_block, and a
   loop body does not assign the loop's counter: [nw_block], needed, see section 7), the
   environment holds i64 values ([env_i64]) and the oracle's store holds their decimal texts
   ([venv_rel]).  Section 7: a program outside [wfc_block] on which the oracle differs from
   [run] and from the model. *)
From Molt Require Import Model.Base Model.Tokenizer Model.ListSyn Model.Float Model.Value
  Model.State Model.Script Model.Parser Model.Eval Model.Expr Model.Commands Model.Unicode
  Model.Interp.
From Molt Require Import Spec.SpecExpr Check.C09.
From Molt Require Import Proofs.BaseFacts Proofs.ValueFacts Proofs.BindFacts Proofs.ExprFacts
  Proofs.RepFacts Proofs.CtlProgFacts.
From Coq Require Import Lia ZifyBool ZifyN.

Arguments N.eqb : simpl never.
Arguments N.leb : simpl never.
Arguments N.ltb : simpl never.
Arguments Z.eqb : simpl never.
Arguments Z.leb : simpl never.
Arguments Z.ltb : simpl never.

Local Open Scope Z_scope.

(* ====================================================================================== *)
(* 1. expressions                                                                          *)
(* ====================================================================================== *)

Fixpoint enc_expr (e : expr) : term :=
  match e with
  | Lit z => TList [TStr (lit "lit"); TInt z]
  | Var v => TList [TStr (lit "var"); TStr v]
  | Bin o a b => TList [TStr (lit "bin"); TStr (opstr o); enc_expr a; enc_expr b]
  end.

(* the checker's string-valued environment holds the decimal text of every variable *)
Definition venv_rel (en : env) (ve : venv) : Prop :=
  forall v, v_get ve v = match assoc_get v en with Some z => Some (show_Z z) | None => None end.

Definition env_i64 (en : env) : Prop := forall v z, assoc_get v en = Some z -> in_i64 z = true.

Lemma v_get_set_same e n s : v_get (v_set e n s) n = Some s.
Proof.
  unfold v_get, v_set. destruct (existsb (fun kv => str_eqb (fst kv) n) e) eqn:Ex.
  - induction e as [|[k x] r IH]; [discriminate|]. cbn [existsb fst map find] in *.
    destruct (str_eqb k n) eqn:Ek.
    + cbn [find fst]. rewrite str_eqb_refl. reflexivity.
    + cbn [find fst]. rewrite Ek. cbn [orb] in Ex. apply IH, Ex.
  - induction e as [|[k x] r IH]; cbn [app find fst].
    + rewrite str_eqb_refl. reflexivity.
    + cbn [existsb fst] in Ex. apply orb_false_iff in Ex. destruct Ex as [Ek Er]. rewrite Ek. apply IH, Er.
Qed.

Lemma v_get_set_other e n s m : n <> m -> v_get (v_set e n s) m = v_get e m.
Proof.
  intros Hne. assert (Hnm : str_eqb n m = false).
  { destruct (str_eqb n m) eqn:E; [apply str_eqb_eq in E; congruence|reflexivity]. }
  unfold v_get, v_set. destruct (existsb (fun kv => str_eqb (fst kv) n) e).
  - induction e as [|[k x] r IH]; [reflexivity|]. cbn [map find fst].
    destruct (str_eqb k n) eqn:Ek.
    + apply str_eqb_eq in Ek. subst k. cbn [find fst]. rewrite Hnm.
      destruct (find (fun kv => str_eqb (fst kv) m) (map (fun kv => if str_eqb (fst kv) n then (n, s) else kv) r));
        destruct (find (fun kv => str_eqb (fst kv) m) r); cbn in IH |- *; congruence.
    + cbn [find fst]. destruct (str_eqb k m); [reflexivity|]. exact IH.
  - induction e as [|[k x] r IH]; cbn [app find fst].
    + rewrite Hnm. reflexivity.
    + destruct (str_eqb k m); [reflexivity|]. exact IH.
Qed.

Lemma venv_rel_set en ve v z : venv_rel en ve -> venv_rel (assoc_set v z en) (v_set ve v (show_Z z)).
Proof.
  intros H w. destruct (list_eq_dec N.eq_dec v w) as [->|Hne].
  - rewrite v_get_set_same, assoc_get_set_same. reflexivity.
  - rewrite v_get_set_other by exact Hne. rewrite BindFacts.assoc_get_set_other by exact Hne. apply H.
Qed.

Lemma env_i64_set en v z : env_i64 en -> in_i64 z = true -> env_i64 (assoc_set v z en).
Proof.
  intros H Hz w x. destruct (list_eq_dec N.eq_dec v w) as [->|Hne].
  - rewrite assoc_get_set_same. intros E. injection E as <-. exact Hz.
  - rewrite BindFacts.assoc_get_set_other by exact Hne. apply H.
Qed.

Lemma tok_of_binop_opstr o : sym_op o = true ->
  tok_of_binop (opstr o) = tok_of o /\
  (str_eqb (opstr o) (lit "&&") || str_eqb (opstr o) (lit "||")) = false.
Proof. destruct o; intros H; try discriminate H; vm_compute; split; reflexivity. Qed.

Lemma lit_ok_i64 z : lit_ok z = true -> in_i64 z = true.
Proof. unfold lit_ok, in_i64, i64_min, i64_max. lia. Qed.

Lemma xev_i64 en e z : env_i64 en -> wf_expr e = true -> xev en e = Ok z -> in_i64 z = true.
Proof.
  intros Hen. revert z. induction e as [z0|v|o a IHa b IHb]; cbn [wf_expr xev]; intros z Hw H.
  - injection H as <-. apply lit_ok_i64, Hw.
  - destruct (assoc_get v en) as [x|] eqn:E; [|discriminate]. injection H as <-. exact (Hen v x E).
  - apply andb_true_iff in Hw. destruct Hw as [Hw Hb]. apply andb_true_iff in Hw. destruct Hw as [_ Ha].
    destruct (xev en a) as [x| | |]; try discriminate. destruct (xev en b) as [y| | |]; try discriminate.
    destruct (apply_binop (tok_of o) (DInt x) (DInt y)) as [[z1| |]| | |] eqn:E; try discriminate.
    injection H as <-. exact (apply_binop_int_range _ _ _ _ (IHa x Ha eq_refl) (IHb y Hb eq_refl) E).
Qed.

(* the checker's expression evaluator on the encoded tree *)
Lemma ev9_enc en ve e : venv_rel en ve -> env_i64 en -> wf_expr e = true ->
  ev9 ve (enc_expr e) = match xev en e with Ok z => Some (DInt z) | _ => None end.
Proof.
  intros Hr Hen. induction e as [z|v|o a IHa b IHb]; cbn [wf_expr]; intros Hw.
  - reflexivity.
  - cbn [enc_expr ev9 xev]. change (str_eqb (lit "var") (lit "var")) with true. cbv iota.
    rewrite (Hr v). destruct (assoc_get v en) as [z|] eqn:E; [|reflexivity].
    rewrite (expr_parse_string_show_Z z (Hen v z E)). reflexivity.
  - apply andb_true_iff in Hw. destruct Hw as [Hw Hb]. apply andb_true_iff in Hw. destruct Hw as [Ho Ha].
    destruct (tok_of_binop_opstr o Ho) as [T1 T2].
    cbn [enc_expr ev9 xev]. rewrite T2, T1, (IHa Ha), (IHb Hb).
    destruct (xev_total en a Ha) as [[x ->]|[m ->]]; [|reflexivity].
    destruct (xev_total en b Hb) as [[y ->]|[m ->]]; [|reflexivity].
    destruct (apply_binop_sym_total o x y Ho) as [[z ->]|[m ->]]; reflexivity.
Qed.

(* ====================================================================================== *)
(* 2. the encoded language                                                                 *)
(* ====================================================================================== *)

Inductive cstmt :=
| CSet (v : str) (e : expr)
| CIncr (v : str) (k : Z)
| CIf (c : expr) (t : cblock)
| CIfElse (c : expr) (t e : cblock)
| CWhile (c : str) (k : Z) (b : cblock)      (* set c 0; while {$c < k} {incr c; b} *)
| CBreak
| CContinue
with cblock :=
| CNil
| CCons (s : cstmt) (r : cblock).

Scheme cstmt_mut := Induction for cstmt Sort Prop
with cblock_mut := Induction for cblock Sort Prop.
Combined Scheme cstmt_cblock_ind from cstmt_mut, cblock_mut.

Fixpoint bapp (a b : block) : block :=
  match a with BNil => b | BCons s r => BCons s (bapp r b) end.

Definition while_of (c : str) (k : Z) (body : block) : stmt :=
  While (Bin OLt (Var c) (Lit k)) (BCons (Incr c 1) body).

(* expansion into the language of CtlProgFacts.v *)
Fixpoint frag (s : cstmt) : block :=
  match s with
  | CSet v e => BCons (Set_ v e) BNil
  | CIncr v k => BCons (Incr v k) BNil
  | CIf c t => BCons (If c (to_prog t)) BNil
  | CIfElse c t e => BCons (IfElse c (to_prog t) (to_prog e)) BNil
  | CWhile c k b => BCons (Set_ c (Lit 0)) (BCons (while_of c k (to_prog b)) BNil)
  | CBreak => BCons Break BNil
  | CContinue => BCons Continue BNil
  end
with to_prog (b : cblock) : block :=
  match b with
  | CNil => BNil
  | CCons s r => bapp (frag s) (to_prog r)
  end.

(* the checker's terms (Check/C09.v stmt9; harness_c09.rs) *)
Fixpoint enc_stmt (s : cstmt) : term :=
  match s with
  | CSet v e => TList [TStr (lit "set"); TStr v; enc_expr e]
  | CIncr v k => TList [TStr (lit "incr"); TStr v; TInt k]
  | CIf c t => TList [TStr (lit "if"); TList [TList [enc_expr c; TList (to_term t)]]; TList []; TInt 0]
  | CIfElse c t e => TList [TStr (lit "if"); TList [TList [enc_expr c; TList (to_term t)]];
                            TList [TList (to_term e)]; TInt 2]
  | CWhile c k b => TList [TStr (lit "while"); TStr c; TInt k; TList (to_term b)]
  | CBreak => TList [TStr (lit "break")]
  | CContinue => TList [TStr (lit "continue")]
  end
with to_term (b : cblock) : list term :=
  match b with
  | CNil => []
  | CCons s r => enc_stmt s :: to_term r
  end.

(* c is not assigned (and is not the counter of a loop) *)
Fixpoint nw_stmt (c : str) (s : cstmt) : bool :=
  match s with
  | CSet v _ => negb (str_eqb v c)
  | CIncr v _ => negb (str_eqb v c)
  | CIf _ t => nw_block c t
  | CIfElse _ t e => nw_block c t && nw_block c e
  | CWhile c' _ b => negb (str_eqb c' c) && nw_block c b
  | CBreak | CContinue => true
  end
with nw_block (c : str) (b : cblock) : bool :=
  match b with CNil => true | CCons s r => nw_stmt c s && nw_block c r end.

(* well-formed: as in CtlProgFacts.v, and a loop body does not assign the loop's counter *)
Fixpoint wfc_stmt (s : cstmt) : bool :=
  match s with
  | CSet v e => good_name v && wf_expr e
  | CIncr v k => good_name v && in_i64 k
  | CIf c t => wf_expr c && wfc_block t
  | CIfElse c t e => wf_expr c && wfc_block t && wfc_block e
  | CWhile c k b => good_name c && lit_ok k && wfc_block b && nw_block c b
  | CBreak | CContinue => true
  end
with wfc_block (b : cblock) : bool :=
  match b with CNil => true | CCons s r => wfc_stmt s && wfc_block r end.

(* checker fuel: the nesting depth *)
Fixpoint dep_stmt (s : cstmt) : nat :=
  match s with
  | CIf _ t => S (dep_block t)
  | CIfElse _ t e => S (max (dep_block t) (dep_block e))
  | CWhile _ _ b => S (dep_block b)
  | _ => 1
  end
with dep_block (b : cblock) : nat :=
  match b with CNil => 0 | CCons s r => max (dep_stmt s) (dep_block r) end.

(* ====================================================================================== *)
(* 3. the checker's interpreter, one rule per statement                                     *)
(* ====================================================================================== *)

Definition mk9 (ve : venv) (tr : list (list str)) : st9 := {| genv := ve; lenv := None; tr9 := tr |}.

(* the block function and the counting loop inside [stmt9 (S f)] *)
Definition blk (f : nat) : st9 -> list term -> str -> st9 * out9 :=
  fix block (s : st9) (b : list term) (last : str) : st9 * out9 :=
    match b with
    | [] => (s, C09.ONorm last)
    | x :: r => match stmt9 [] f s x with
                | (s1, C09.ONorm v) => block s1 r v
                | other => other
                end
    end.

Lemma blk_block9 f s b last : blk f s b last = block9 [] f s b last.
Proof.
  revert s last. induction b as [|x r IH]; intros s last; [reflexivity|].
  cbn [blk block9]. destruct (stmt9 [] f s x) as [s1 [v| | | | |]]; try reflexivity. apply IH.
Qed.

Definition lw (f : nat) : nat -> st9 -> str -> Z -> list term -> st9 * out9 :=
  fix loop (n : nat) (s : st9) (c : str) (k : Z) (body : list term) : st9 * out9 :=
    match n with
    | O => (s, C09.ONorm [])
    | S n' =>
        match v_get (cur9 s) c with
        | Some cs =>
            match get_int cs with
            | Some cv =>
                if cv <? k then
                  match blk f (upd9 s (fun e => v_set e c (show_Z (cv + 1)))) body [] with
                  | (s2, C09.ONorm _) | (s2, C09.OContinue) => loop n' s2 c k body
                  | (s2, C09.OBreak) => (s2, C09.ONorm [])
                  | other => other
                  end
                else (s, C09.ONorm [])
            | None => (s, OError)
            end
        | None => (s, OError)
        end
    end.

Lemma st_set f s v e :
  stmt9 [] (S f) s (TList [TStr (lit "set"); TStr v; e]) =
  match ev9s (cur9 s) e with
  | Some x => (upd9 s (fun en => v_set en v x), C09.ONorm x)
  | None => (s, OError)
  end.
Proof. reflexivity. Qed.

Lemma st_incr f s v k :
  stmt9 [] (S f) s (TList [TStr (lit "incr"); TStr v; TInt k]) =
  match (match v_get (cur9 s) v with Some cs => get_int cs | None => Some 0 end) with
  | Some z => if in_i64 (z + k) then (upd9 s (fun en => v_set en v (show_Z (z + k))), C09.ONorm (show_Z (z + k)))
              else (s, OError)
  | None => (s, OError)
  end.
Proof. reflexivity. Qed.

Lemma st_if f s c tb :
  stmt9 [] (S f) s (TList [TStr (lit "if"); TList [TList [c; TList tb]]; TList []; TInt 0]) =
  match cond9 (cur9 s) c with
  | Some true => blk f s tb []
  | Some false => (s, C09.ONorm [])
  | None => (s, OError)
  end.
Proof. reflexivity. Qed.

Lemma st_ifelse f s c tb eb :
  stmt9 [] (S f) s (TList [TStr (lit "if"); TList [TList [c; TList tb]]; TList [TList eb]; TInt 2]) =
  match cond9 (cur9 s) c with
  | Some true => blk f s tb []
  | Some false => blk f s eb []
  | None => (s, OError)
  end.
Proof. reflexivity. Qed.

Lemma st_break f s : stmt9 [] (S f) s (TList [TStr (lit "break")]) = (s, C09.OBreak).
Proof. reflexivity. Qed.
Lemma st_continue f s : stmt9 [] (S f) s (TList [TStr (lit "continue")]) = (s, C09.OContinue).
Proof. reflexivity. Qed.

(* the loop as written inside stmt9 (shared by `while` and `for`) *)
Definition lwf (f : nat) : nat -> st9 -> str -> Z -> list term -> bool -> st9 * out9 :=
  fix loop_while (n : nat) (s : st9) (c : str) (k : Z) (body : list term) (is_for : bool) : st9 * out9 :=
    match n with
    | O => (s, C09.ONorm [])
    | S n' =>
        match v_get (cur9 s) c with
        | Some cs =>
            match get_int cs with
            | Some cv =>
                if cv <? k then
                  let s1 := if is_for then s else upd9 s (fun e => v_set e c (show_Z (cv + 1))) in
                  match blk f s1 body [] with
                  | (s2, C09.ONorm _) | (s2, C09.OContinue) =>
                      let s3 := if is_for then
                                  match v_get (cur9 s2) c with
                                  | Some cs2 => match get_int cs2 with
                                                | Some c2 => upd9 s2 (fun e => v_set e c (show_Z (c2 + 1)))
                                                | None => s2
                                                end
                                  | None => s2
                                  end
                                else s2 in
                      loop_while n' s3 c k body is_for
                  | (s2, C09.OBreak) => (s2, C09.ONorm [])
                  | other => other
                  end
                else (s, C09.ONorm [])
            | None => (s, OError)
            end
        | None => (s, OError)
        end
    end.

Lemma lwf_lw f n : forall s c k body, lwf f n s c k body false = lw f n s c k body.
Proof.
  induction n as [|n IH]; intros s c k body; [reflexivity|].
  cbn [lwf lw]. destruct (v_get (cur9 s) c) as [cs|]; [|reflexivity].
  destruct (get_int cs) as [cv|]; [|reflexivity]. destruct (cv <? k); [|reflexivity].
  cbv zeta. destruct (blk f (upd9 s (fun e => v_set e c (show_Z (cv + 1)))) body []) as [s2 [v| | | | |]];
    try reflexivity; apply IH.
Qed.

Lemma st_while f s c k body :
  stmt9 [] (S f) s (TList [TStr (lit "while"); TStr c; TInt k; TList body]) =
  lw f (S (Z.to_nat k)) (upd9 s (fun e => v_set e c (lit "0"))) c k body.
Proof. rewrite <- lwf_lw. reflexivity. Qed.

(* ====================================================================================== *)
(* 4. agreement                                                                            *)
(* ====================================================================================== *)

Definition outrel (o : outcome) (o9 : out9) : Prop :=
  match o, o9 with
  | ONorm v, C09.ONorm v9 => v = v9
  | OBreak, C09.OBreak => True
  | OContinue, C09.OContinue => True
  | OErr _, OError => True
  | _, _ => False
  end.

(* for blocks started with possibly different "results so far" *)
Definition outrelB (o : outcome) (o9 : out9) (last last9 : str) : Prop :=
  match o, o9 with
  | ONorm v, C09.ONorm v9 => last = last9 -> v = v9
  | OBreak, C09.OBreak => True
  | OContinue, C09.OContinue => True
  | OErr _, OError => True
  | _, _ => False
  end.

Lemma run_with_bapp ex a : forall b en last,
  run_with ex en (bapp a b) last =
  match run_with ex en a last with
  | (en1, ONorm v) => run_with ex en1 b v
  | other => other
  end.
Proof.
  induction a as [|s r IH]; intros b en last; [reflexivity|].
  cbn [bapp run_with]. destruct (ex en s) as [en1 [v| | |m|]]; try reflexivity. apply IH.
Qed.

Lemma run_single ex en s last : run_with ex en (BCons s BNil) last = ex en s.
Proof. cbn [run_with]. destruct (ex en s) as [en1 [v| | |m|]]; reflexivity. Qed.

Lemma venv_get en ve v z : venv_rel en ve -> env_i64 en -> assoc_get v en = Some z ->
  v_get ve v = Some (show_Z z) /\ get_int (show_Z z) = Some z.
Proof. intros Hr Hi E. split; [rewrite (Hr v), E; reflexivity|apply int_roundtrip, (Hi v z E)]. Qed.

Lemma cond9_enc en ve c : venv_rel en ve -> env_i64 en -> wf_expr c = true ->
  cond9 ve (enc_expr c) = match xev en c with Ok z => Some (negb (z =? 0)) | _ => None end.
Proof.
  intros Hr Hi Hw. unfold cond9. rewrite (ev9_enc en ve c Hr Hi Hw).
  destruct (xev en c); reflexivity.
Qed.

Definition Pst (cs : cstmt) : Prop :=
  forall n en en' o last, run_with (exec n) en (frag cs) last = (en', o) -> o <> OFuel ->
  wfc_stmt cs = true -> env_i64 en ->
  forall f, (dep_stmt cs <= f)%nat -> forall ve tr, venv_rel en ve ->
  exists ve' o9, stmt9 [] f (mk9 ve tr) (enc_stmt cs) = (mk9 ve' tr, o9) /\ outrel o o9 /\
                 venv_rel en' ve' /\ env_i64 en' /\
                 (forall c, nw_stmt c cs = true -> assoc_get c en' = assoc_get c en).

Definition Pbl (cb : cblock) : Prop :=
  forall n en en' o last, run_with (exec n) en (to_prog cb) last = (en', o) -> o <> OFuel ->
  wfc_block cb = true -> env_i64 en ->
  forall f, (dep_block cb <= f)%nat -> forall ve tr last9, venv_rel en ve ->
  exists ve' o9, blk f (mk9 ve tr) (to_term cb) last9 = (mk9 ve' tr, o9) /\ outrelB o o9 last last9 /\
                 venv_rel en' ve' /\ env_i64 en' /\
                 (forall c, nw_block c cb = true -> assoc_get c en' = assoc_get c en).

Lemma negb_str_eqb a b : negb (str_eqb a b) = true -> a <> b.
Proof. intros H ->. rewrite str_eqb_refl in H. discriminate. Qed.

Lemma Pst_set v e : Pst (CSet v e).
Proof.
  intros n en en' o last H Ho Hw Hi f Hf ve tr Hr. cbn [frag] in H. rewrite run_single in H.
  cbn [wfc_stmt] in Hw. apply andb_true_iff in Hw. destruct Hw as [Hv He].
  destruct n as [|n]; [cbn [exec] in H; injection H as <- <-; congruence|]. cbn [exec] in H.
  cbn [dep_stmt] in Hf. destruct f as [|f]; [lia|]. cbn [enc_stmt]. rewrite st_set.
  unfold ev9s. cbn [cur9 mk9 lenv genv]. rewrite (ev9_enc en ve e Hr Hi He).
  destruct (xev_total en e He) as [[z Ez]|[m Em]].
  - rewrite Ez in H |- *. injection H as <- <-. exists (v_set ve v (show_Z z)), (C09.ONorm (show_Z z)).
    split; [reflexivity|]. split; [reflexivity|]. split; [apply venv_rel_set, Hr|].
    split; [apply env_i64_set; [exact Hi|exact (xev_i64 en e z Hi He Ez)]|].
    intros c Hc. cbn [nw_stmt] in Hc. apply BindFacts.assoc_get_set_other, negb_str_eqb, Hc.
  - rewrite Em in H |- *. injection H as <- <-. exists ve, OError.
    split; [reflexivity|]. split; [exact I|]. auto.
Qed.

Lemma Pst_incr v k : Pst (CIncr v k).
Proof.
  intros n en en' o last H Ho Hw Hi f Hf ve tr Hr. cbn [frag] in H. rewrite run_single in H.
  cbn [wfc_stmt] in Hw. apply andb_true_iff in Hw. destruct Hw as [Hv Hk].
  destruct n as [|n]; [cbn [exec] in H; injection H as <- <-; congruence|]. cbn [exec] in H.
  cbn [dep_stmt] in Hf. destruct f as [|f]; [lia|]. cbn [enc_stmt]. rewrite st_incr.
  cbn [cur9 mk9 lenv genv].
  assert (E : (match v_get ve v with Some cs => get_int cs | None => Some 0 end) =
              Some (match assoc_get v en with Some z => z | None => 0 end)).
  { destruct (assoc_get v en) as [z|] eqn:Eg.
    - destruct (venv_get en ve v z Hr Hi Eg) as [-> ->]. reflexivity.
    - rewrite (Hr v), Eg. reflexivity. }
  rewrite E. set (old := match assoc_get v en with Some z => z | None => 0 end) in *.
  rewrite (Z.add_comm old k). destruct (in_i64 (k + old)) eqn:Ei.
  - injection H as <- <-. exists (v_set ve v (show_Z (k + old))), (C09.ONorm (show_Z (k + old))).
    split; [reflexivity|]. split; [reflexivity|]. split; [apply venv_rel_set, Hr|].
    split; [apply env_i64_set; assumption|].
    intros c Hc. cbn [nw_stmt] in Hc. apply BindFacts.assoc_get_set_other, negb_str_eqb, Hc.
  - injection H as <- <-. exists ve, OError. split; [reflexivity|]. split; [exact I|]. auto.
Qed.

Lemma outrelB_nil o o9 : outrelB o o9 [] [] -> outrel o o9.
Proof. destruct o, o9; cbn [outrelB outrel]; auto. Qed.

Lemma Pst_if c t : Pbl t -> Pst (CIf c t).
Proof.
  intros IH n en en' o last H Ho Hw Hi f Hf ve tr Hr. cbn [frag] in H. rewrite run_single in H.
  cbn [wfc_stmt] in Hw. apply andb_true_iff in Hw. destruct Hw as [Hc Ht].
  destruct n as [|n]; [cbn [exec] in H; injection H as <- <-; congruence|]. cbn [exec] in H.
  cbn [dep_stmt] in Hf. destruct f as [|f]; [lia|]. cbn [enc_stmt]. rewrite st_if.
  cbn [cur9 mk9 lenv genv]. rewrite (cond9_enc en ve c Hr Hi Hc).
  destruct (xev_total en c Hc) as [[z Ez]|[m Em]].
  2:{ rewrite Em in H |- *. injection H as <- <-. exists ve, OError. split; [reflexivity|]. split; [exact I|]. auto. }
  rewrite Ez in H |- *. destruct (z =? 0); cbn [negb].
  - injection H as <- <-. exists ve, (C09.ONorm []). split; [reflexivity|]. split; [reflexivity|]. auto.
  - destruct (IH n en en' o [] H Ho Ht Hi f ltac:(lia) ve tr [] Hr) as (ve' & o9 & E & Ho9 & Hr' & Hi' & Hnw).
    exists ve', o9. split; [exact E|]. split; [apply outrelB_nil, Ho9; reflexivity|]. auto.
Qed.

Lemma Pst_ifelse c t e : Pbl t -> Pbl e -> Pst (CIfElse c t e).
Proof.
  intros IHt IHe n en en' o last H Ho Hw Hi f Hf ve tr Hr. cbn [frag] in H. rewrite run_single in H.
  cbn [wfc_stmt] in Hw. apply andb_true_iff in Hw. destruct Hw as [Hw He].
  apply andb_true_iff in Hw. destruct Hw as [Hc Ht].
  destruct n as [|n]; [cbn [exec] in H; injection H as <- <-; congruence|]. cbn [exec] in H.
  cbn [dep_stmt] in Hf. destruct f as [|f]; [lia|]. cbn [enc_stmt]. rewrite st_ifelse.
  cbn [cur9 mk9 lenv genv]. rewrite (cond9_enc en ve c Hr Hi Hc).
  destruct (xev_total en c Hc) as [[z Ez]|[m Em]].
  2:{ rewrite Em in H |- *. injection H as <- <-. exists ve, OError. split; [reflexivity|]. split; [exact I|]. auto. }
  rewrite Ez in H |- *. destruct (z =? 0); cbn [negb].
  - destruct (IHe n en en' o [] H Ho He Hi f ltac:(lia) ve tr [] Hr) as (ve' & o9 & E & Ho9 & Hr' & Hi' & Hnw).
    exists ve', o9. split; [exact E|]. split; [apply outrelB_nil, Ho9; reflexivity|].
    split; [exact Hr'|]. split; [exact Hi'|]. intros c0 Hc0. cbn [nw_stmt] in Hc0.
    apply andb_true_iff in Hc0. apply Hnw, Hc0.
  - destruct (IHt n en en' o [] H Ho Ht Hi f ltac:(lia) ve tr [] Hr) as (ve' & o9 & E & Ho9 & Hr' & Hi' & Hnw).
    exists ve', o9. split; [exact E|]. split; [apply outrelB_nil, Ho9; reflexivity|].
    split; [exact Hr'|]. split; [exact Hi'|]. intros c0 Hc0. cbn [nw_stmt] in Hc0.
    apply andb_true_iff in Hc0. apply Hnw, Hc0.
Qed.

Lemma Pst_break : Pst CBreak.
Proof.
  intros n en en' o last H Ho Hw Hi f Hf ve tr Hr. cbn [frag] in H. rewrite run_single in H.
  destruct n as [|n]; [cbn [exec] in H; injection H as <- <-; congruence|]. cbn [exec] in H.
  injection H as <- <-. cbn [dep_stmt] in Hf. destruct f as [|f]; [lia|]. cbn [enc_stmt]. rewrite st_break.
  exists ve, C09.OBreak. split; [reflexivity|]. split; [exact I|]. auto.
Qed.

Lemma Pst_continue : Pst CContinue.
Proof.
  intros n en en' o last H Ho Hw Hi f Hf ve tr Hr. cbn [frag] in H. rewrite run_single in H.
  destruct n as [|n]; [cbn [exec] in H; injection H as <- <-; congruence|]. cbn [exec] in H.
  injection H as <- <-. cbn [dep_stmt] in Hf. destruct f as [|f]; [lia|]. cbn [enc_stmt]. rewrite st_continue.
  exists ve, C09.OContinue. split; [reflexivity|]. split; [exact I|]. auto.
Qed.

Lemma Pbl_nil : Pbl CNil.
Proof.
  intros n en en' o last H Ho Hw Hi f Hf ve tr last9 Hr. cbn [to_prog run_with] in H. injection H as <- <-.
  exists ve, (C09.ONorm last9). split; [reflexivity|]. split; [cbn [outrelB]; auto|]. auto.
Qed.

Lemma Pbl_cons s r : Pst s -> Pbl r -> Pbl (CCons s r).
Proof.
  intros IHs IHr n en en' o last H Ho Hw Hi f Hf ve tr last9 Hr.
  cbn [to_prog] in H. rewrite run_with_bapp in H.
  cbn [wfc_block] in Hw. apply andb_true_iff in Hw. destruct Hw as [Hws Hwr].
  cbn [dep_block] in Hf.
  destruct (run_with (exec n) en (frag s) last) as [en1 o1] eqn:E1.
  assert (Ho1 : o1 <> OFuel) by (intros ->; injection H as <- <-; congruence).
  destruct (IHs n en en1 o1 last E1 Ho1 Hws Hi f ltac:(lia) ve tr Hr) as (ve1 & o91 & Es & Ho91 & Hr1 & Hi1 & Hnw1).
  cbn [to_term blk]. fold (blk f). rewrite Es.
  destruct o1 as [v| | |m|]; destruct o91 as [v9| | | | |]; cbn [outrel] in Ho91; try contradiction.
  - subst v9.
    destruct (IHr n en1 en' o v H Ho Hwr Hi1 f ltac:(lia) ve1 tr v Hr1) as (ve2 & o92 & Er & Ho92 & Hr2 & Hi2 & Hnw2).
    exists ve2, o92. split; [exact Er|]. split.
    + destruct o, o92; cbn [outrelB] in *; auto.
    + split; [exact Hr2|]. split; [exact Hi2|]. intros c Hc. cbn [nw_block] in Hc.
      apply andb_true_iff in Hc. destruct Hc as [Hc1 Hc2]. rewrite (Hnw2 c Hc2). apply Hnw1, Hc1.
  - injection H as <- <-. exists ve1, C09.OBreak. split; [reflexivity|]. split; [exact I|].
    split; [exact Hr1|]. split; [exact Hi1|]. intros c Hc. cbn [nw_block] in Hc.
    apply andb_true_iff in Hc. apply Hnw1, Hc.
  - injection H as <- <-. exists ve1, C09.OContinue. split; [reflexivity|]. split; [exact I|].
    split; [exact Hr1|]. split; [exact Hi1|]. intros c Hc. cbn [nw_block] in Hc.
    apply andb_true_iff in Hc. apply Hnw1, Hc.
  - injection H as <- <-. exists ve1, OError. split; [reflexivity|]. split; [exact I|].
    split; [exact Hr1|]. split; [exact Hi1|]. intros c Hc. cbn [nw_block] in Hc.
    apply andb_true_iff in Hc. apply Hnw1, Hc.
Qed.

Lemma xev_lt en c k cv : assoc_get c en = Some cv ->
  xev en (Bin OLt (Var c) (Lit k)) = Ok (if cv <? k then 1 else 0).
Proof. intros E. cbn [xev]. rewrite E. reflexivity. Qed.

(* the counting loop, by induction on the reference fuel *)
Lemma while_loop_agrees c k b f tr : Pbl b ->
  good_name c = true -> lit_ok k = true -> wfc_block b = true -> nw_block c b = true ->
  (dep_block b <= f)%nat ->
  forall n en en' o, exec n en (while_of c k (to_prog b)) = (en', o) -> o <> OFuel -> env_i64 en ->
  forall cv, assoc_get c en = Some cv -> 0 <= cv ->
  forall m, (Z.to_nat (k - cv) < m)%nat -> forall ve, venv_rel en ve ->
  exists ve' o9, lw f m (mk9 ve tr) c k (to_term b) = (mk9 ve' tr, o9) /\ outrel o o9 /\
                 venv_rel en' ve' /\ env_i64 en' /\
                 (forall c2, c <> c2 -> nw_block c2 b = true -> assoc_get c2 en' = assoc_get c2 en).
Proof.
  intros IHb Hc Hk Hwb Hnw Hf. induction n as [|n IHn]; intros en en' o H Ho Hi cv Hcv Hcv0 m Hm ve Hr.
  { cbn [exec] in H. injection H as <- <-. congruence. }
  unfold while_of in H. cbn [exec] in H. fold (while_of c k (to_prog b)) in H.
  rewrite (xev_lt en c k cv Hcv) in H.
  destruct m as [|m]; [lia|]. cbn [lw]. fold (lw f). cbn [cur9 mk9 lenv genv].
  destruct (venv_get en ve c cv Hr Hi Hcv) as [-> ->].
  unfold lit_ok, i64_min, i64_max in Hk.
  destruct (cv <? k) eqn:Elt.
  2:{ change (1 =? 0) with false in H. change (0 =? 0) with true in H. cbv iota in H. injection H as <- <-.
      exists ve, (C09.ONorm []). split; [reflexivity|]. split; [reflexivity|]. auto. }
  change (1 =? 0) with false in H. cbv iota in H.
  (* the body: incr c, then b *)
  cbn [run_with] in H.
  assert (Ei : in_i64 (1 + cv) = true) by (unfold in_i64, i64_min, i64_max; lia).
  assert (EI : exec n en (Incr c 1) = (assoc_set c (1 + cv) en, ONorm (show_Z (1 + cv)))).
  { destruct n as [|n'].
    - exfalso. cbn [exec] in H. injection H as <- <-. congruence.
    - cbn [exec]. rewrite Hcv, Ei. reflexivity. }
  rewrite EI in H.
  set (en_a := assoc_set c (1 + cv) en) in *.
  assert (Hr_a : venv_rel en_a (v_set ve c (show_Z (cv + 1)))).
  { rewrite (Z.add_comm cv 1). apply venv_rel_set, Hr. }
  assert (Hi_a : env_i64 en_a) by (apply env_i64_set; assumption).
  destruct (run_with (exec n) en_a (to_prog b) (show_Z (1 + cv))) as [en1 o1] eqn:Eb.
  assert (Ho1 : o1 <> OFuel) by (intros ->; injection H as <- <-; congruence).
  destruct (IHb n en_a en1 o1 _ Eb Ho1 Hwb Hi_a f Hf (v_set ve c (show_Z (cv + 1))) tr [] Hr_a)
    as (ve1 & o91 & Eblk & Ho91 & Hr1 & Hi1 & Hnw1).
  change (upd9 (mk9 ve tr) (fun e => v_set e c (show_Z (cv + 1)))) with (mk9 (v_set ve c (show_Z (cv + 1))) tr).
  rewrite Eblk.
  assert (Hc1 : assoc_get c en1 = Some (1 + cv)).
  { rewrite (Hnw1 c Hnw). unfold en_a. apply assoc_get_set_same. }
  assert (Hother : forall c2, c <> c2 -> nw_block c2 b = true -> assoc_get c2 en1 = assoc_get c2 en).
  { intros c2 Hne H2. rewrite (Hnw1 c2 H2). unfold en_a. apply BindFacts.assoc_get_set_other, Hne. }
  destruct o1 as [v| | |msg|]; destruct o91 as [v9| | | | |]; cbn [outrelB] in Ho91; try contradiction.
  - destruct (IHn en1 en' o H Ho Hi1 (1 + cv) Hc1 ltac:(lia) m ltac:(lia) ve1 Hr1)
      as (ve2 & o92 & E2 & Ho92 & Hr2 & Hi2 & Hnw2).
    exists ve2, o92. split; [exact E2|]. split; [exact Ho92|]. split; [exact Hr2|]. split; [exact Hi2|].
    intros c2 Hne H2. rewrite (Hnw2 c2 Hne H2). apply Hother; assumption.
  - injection H as <- <-. exists ve1, (C09.ONorm []). split; [reflexivity|]. split; [reflexivity|]. auto.
  - destruct (IHn en1 en' o H Ho Hi1 (1 + cv) Hc1 ltac:(lia) m ltac:(lia) ve1 Hr1)
      as (ve2 & o92 & E2 & Ho92 & Hr2 & Hi2 & Hnw2).
    exists ve2, o92. split; [exact E2|]. split; [exact Ho92|]. split; [exact Hr2|]. split; [exact Hi2|].
    intros c2 Hne H2. rewrite (Hnw2 c2 Hne H2). apply Hother; assumption.
  - injection H as <- <-. exists ve1, OError. split; [reflexivity|]. split; [exact I|]. auto.
Qed.

Lemma Pst_while c k b : Pbl b -> Pst (CWhile c k b).
Proof.
  intros IHb n en en' o last H Ho Hw Hi f Hf ve tr Hr.
  cbn [wfc_stmt] in Hw. apply andb_true_iff in Hw. destruct Hw as [Hw Hnw].
  apply andb_true_iff in Hw. destruct Hw as [Hw Hwb]. apply andb_true_iff in Hw. destruct Hw as [Hc Hk].
  cbn [frag run_with] in H.
  destruct n as [|n]; [cbn [exec] in H; injection H as <- <-; congruence|].
  change (exec (S n) en (Set_ c (Lit 0))) with (assoc_set c 0 en, ONorm (show_Z 0)) in H. cbv iota in H.
  set (en0 := assoc_set c 0 en) in *.
  assert (H' : exec (S n) en0 (while_of c k (to_prog b)) = (en', o)).
  { destruct (exec (S n) en0 (while_of c k (to_prog b))) as [en1 [v| | |m|]]; exact H. }
  cbn [dep_stmt] in Hf. destruct f as [|f]; [lia|]. cbn [enc_stmt]. rewrite st_while.
  change (upd9 (mk9 ve tr) (fun e => v_set e c (lit "0"))) with (mk9 (v_set ve c (show_Z 0)) tr).
  destruct (while_loop_agrees c k b f tr IHb Hc Hk Hwb Hnw ltac:(lia) (S n) en0 en' o H' Ho
              (env_i64_set en c 0 Hi eq_refl) 0 (assoc_get_set_same _ _ _) ltac:(lia)
              (S (Z.to_nat k)) ltac:(rewrite Z.sub_0_r; lia) (v_set ve c (show_Z 0)) (venv_rel_set en ve c 0 Hr))
    as (ve' & o9 & E & Ho9 & Hr' & Hi' & Hnw').
  exists ve', o9. split; [exact E|]. split; [exact Ho9|]. split; [exact Hr'|]. split; [exact Hi'|].
  intros c2 Hc2. cbn [nw_stmt] in Hc2. apply andb_true_iff in Hc2. destruct Hc2 as [Hne H2].
  apply negb_str_eqb in Hne. rewrite (Hnw' c2 Hne H2). unfold en0. apply BindFacts.assoc_get_set_other, Hne.
Qed.

Theorem checker_agrees_all : (forall cs, Pst cs) /\ (forall cb, Pbl cb).
Proof.
  apply cstmt_cblock_ind.
  - exact Pst_set.
  - exact Pst_incr.
  - exact Pst_if.
  - intros c t Ht e He. apply Pst_ifelse; assumption.
  - exact Pst_while.
  - exact Pst_break.
  - exact Pst_continue.
  - exact Pbl_nil.
  - intros s Hs r Hr. apply Pbl_cons; assumption.
Qed.

(* ====================================================================================== *)
(* 5. the theorems                                                                         *)
(* ====================================================================================== *)

(* the checker's oracle on the encoded tree = the reference semantics on the expanded program *)
Theorem checker_agrees : forall n cp en en' o ve tr,
  run n en (to_prog cp) = (en', o) -> o <> OFuel -> wfc_block cp = true ->
  env_i64 en -> venv_rel en ve ->
  forall f, (dep_block cp <= f)%nat ->
  exists ve' o9, block9 [] f (mk9 ve tr) (to_term cp) [] = (mk9 ve' tr, o9) /\
                 outrel o o9 /\ venv_rel en' ve' /\ env_i64 en'.
Proof.
  intros n cp en en' o ve tr H Ho Hw Hi Hr f Hf. unfold run in H.
  destruct (proj2 checker_agrees_all cp n en en' o [] H Ho Hw Hi f Hf ve tr [] Hr)
    as (ve' & o9 & E & Ho9 & Hr' & Hi' & _).
  exists ve', o9. rewrite <- blk_block9. split; [exact E|]. split; [apply outrelB_nil, Ho9|]. auto.
Qed.
Print Assumptions checker_agrees.

(* ---- the expansion of a well-formed encoded program is well-formed ---- *)
Lemma wf_bapp a : forall b, wf_block (bapp a b) = wf_block a && wf_block b.
Proof. induction a as [|s r IH]; intros b; [reflexivity|]. cbn [bapp wf_block]. rewrite IH, andb_assoc. reflexivity. Qed.

Lemma wf_to_prog :
  (forall cs, wfc_stmt cs = true -> wf_block (frag cs) = true) /\
  (forall cb, wfc_block cb = true -> wf_block (to_prog cb) = true).
Proof.
  apply cstmt_cblock_ind; intros; cbn [frag to_prog wfc_stmt wfc_block wf_block wf_stmt] in *.
  - rewrite H. reflexivity.
  - rewrite H. reflexivity.
  - apply andb_true_iff in H0. destruct H0 as [Hc Ht]. rewrite Hc, (H Ht). reflexivity.
  - apply andb_true_iff in H1. destruct H1 as [H1 He]. apply andb_true_iff in H1. destruct H1 as [Hc Ht].
    rewrite Hc, (H Ht), (H0 He). reflexivity.
  - apply andb_true_iff in H0. destruct H0 as [H0 _]. apply andb_true_iff in H0. destruct H0 as [H0 Hb].
    apply andb_true_iff in H0. destruct H0 as [Hc Hk].
    unfold while_of. cbn [wf_stmt wf_expr wf_block]. rewrite Hc, Hk, (H Hb). reflexivity.
  - reflexivity.
  - reflexivity.
  - reflexivity.
  - apply andb_true_iff in H1. destruct H1 as [Hs Hr]. rewrite wf_bapp, (H Hs), (H0 Hr). reflexivity.
Qed.

(* the model's result against the checker's outcome; [top]: evaluated at level 0, where an
   escaping break / continue is an error for molt while the oracle reports OBreak / OContinue
   (c09_spec_ok accepts exactly an "Err" observation for them) *)
Definition res9 (top : bool) (o9 : out9) (r : res value) : Prop :=
  match o9 with
  | C09.ONorm v => exists a, r = Ok a /\ as_str a = v
  | C09.OBreak => if top then exists e, r = Err e /\ x_code e = CError else r = Err molt_break
  | C09.OContinue => if top then exists e, r = Err e /\ x_code e = CError else r = Err molt_continue
  | OError => exists e, r = Err e /\ x_code e = CError
  | _ => False
  end.

Lemma res9_of top o o9 r : outrel o o9 -> res_ok (finish top o) r -> res9 top o9 r.
Proof.
  destruct o as [v| | |m|], o9 as [v9| | | | |]; cbn [outrel]; try contradiction; intros H Hr.
  - subst v9. destruct top; exact Hr.
  - destruct top; cbn [finish res_ok res9] in *; [|exact Hr]. destruct Hr as (e & -> & Hc & _). eauto.
  - destruct top; cbn [finish res_ok res9] in *; [|exact Hr]. destruct Hr as (e & -> & Hc & _). eauto.
  - destruct top; cbn [finish res_ok res9] in *; destruct Hr as (e & -> & Hc & _); eauto.
Qed.

(* THE COROLLARY: the model on the rendered text = the checker's oracle on the encoded tree.
   [en'] is the common final environment: the model's current scope holds exactly en' (Rel) and
   the oracle's variable store holds exactly the decimal texts of en' (venv_rel). *)
Theorem model_matches_oracle : forall n cp en en' o st ve tr,
  run n en (to_prog cp) = (en', o) -> o <> OFuel -> wfc_block cp = true ->
  env_i64 en -> venv_rel en ve -> Rel en st -> cmds_ok st ->
  (i_levels st + 1 + depth_block (to_prog cp) <= i_limit st)%N ->
  exists F, forall fuel f9, (F <= fuel)%nat -> (dep_block cp <= f9)%nat ->
  exists st' r ve' o9,
    eval std_uni fuel st (render_block (to_prog cp)) = (st', r) /\
    block9 [] f9 (mk9 ve tr) (to_term cp) [] = (mk9 ve' tr, o9) /\
    res9 (i_levels st =? 0)%N o9 r /\
    Rel en' st' /\ venv_rel en' ve' /\ same_ctl st st'.
Proof.
  intros n cp en en' o st ve tr H Ho Hw Hi Hr HR Hc Hl.
  destruct (run_agrees n (to_prog cp) en en' o st H Ho (proj2 wf_to_prog cp Hw) HR Hc Hl) as (F & HF).
  exists F. intros fuel f9 Hfu Hf9.
  destruct (HF fuel Hfu) as (st' & r & E & Hres & HR' & Hs).
  destruct (checker_agrees n cp en en' o ve tr H Ho Hw Hi Hr f9 Hf9) as (ve' & o9 & E9 & Ho9 & Hr' & _).
  exists st', r, ve', o9. split; [exact E|]. split; [exact E9|]. split; [exact (res9_of _ _ _ _ Ho9 Hres)|]. auto.
Qed.
Print Assumptions model_matches_oracle.

(* ====================================================================================== *)
(* 6. an instance, by computation on all three sides                                       *)
(* ====================================================================================== *)
Definition vc : str := lit "c1".
Definition ex_c : cblock :=
  CCons (CSet vx (Lit 0)) (CCons (CSet vs (Lit 0))
  (CCons (CWhile vc 10
     (CCons (CIncr vx 2)
     (CCons (CIf (Bin OEq (Var vc) (Lit 3)) (CCons CContinue CNil))
     (CCons (CIfElse (Bin OGt (Var vx) (Lit 12)) (CCons CBreak CNil)
                     (CCons (CSet vs (Bin OAdd (Var vs) (Var vc))) CNil)) CNil)))) CNil)).

Example ex_c_wf : wfc_block ex_c = true.
Proof. vm_compute. reflexivity. Qed.

Example ex_c_ref : run 30 [] (to_prog ex_c) = ([(vx, 14); (vs, 18); (vc, 7)], ONorm []).
Proof. vm_compute. reflexivity. Qed.

Example ex_c_oracle :
  block9 [] 3 (mk9 [] []) (to_term ex_c) [] =
  (mk9 [(vx, lit "14"); (vs, lit "18"); (vc, lit "7")] [], C09.ONorm []).
Proof. vm_compute. reflexivity. Qed.

Example ex_c_model :
  let '(st', r) := eval std_uni 30 interp_new (render_block (to_prog ex_c)) in
  (match r with Ok a => Some (as_str a) | _ => None end,
   st_scalar st' vx, st_scalar st' vs, st_scalar st' vc) = (Some [], Ok (VInt 14), Ok (VInt 18), Ok (VInt 7)).
Proof. vm_compute. reflexivity. Qed.

Example ex_c_theorem :
  exists F, forall fuel f9, (F <= fuel)%nat -> (dep_block ex_c <= f9)%nat ->
  exists st' r ve' o9,
    eval std_uni fuel interp_new (render_block (to_prog ex_c)) = (st', r) /\
    block9 [] f9 (mk9 [] []) (to_term ex_c) [] = (mk9 ve' [], o9) /\
    res9 true o9 r /\ Rel [(vx, 14); (vs, 18); (vc, 7)] st' /\
    venv_rel [(vx, 14); (vs, 18); (vc, 7)] ve' /\ same_ctl interp_new st'.
Proof.
  apply (model_matches_oracle 30 ex_c [] _ _ interp_new [] [] ex_c_ref ltac:(discriminate) ex_c_wf).
  - intros v z H. discriminate.
  - intros v. reflexivity.
  - exact Rel_new.
  - exact cmds_ok_new.
  - vm_compute. discriminate.
Qed.

(* ====================================================================================== *)
(* 7. the side condition [nw_block c b] of a loop is needed                                 *)
(* ====================================================================================== *)
(* The oracle gives ("while" c k body) a budget of k+1 iterations and then stops SILENTLY with a
   normal outcome.  If the body re-assigns the counter the real loop (and [run], and the model)
   goes on: here the body resets c twice; the loop really runs 4 iterations and leaves c = 2,
   the oracle stops after 3 with c = 1.  (The generator never produces such a body: counters are
   named c<i> and bodies only use x y z w u l m a b; inside [wfc_block] the case is excluded.) *)
Definition ex_bad : cblock :=
  CCons (CSet vx (Lit 0))
  (CCons (CWhile vc 2
     (CCons (CIf (Bin OLt (Var vx) (Lit 2)) (CCons (CSet vc (Lit 0)) (CCons (CIncr vx 1) CNil))) CNil)) CNil).

Example ex_bad_not_wf : wfc_block ex_bad = false.
Proof. vm_compute. reflexivity. Qed.

Example ex_bad_ref : run 30 [] (to_prog ex_bad) = ([(vx, 2); (vc, 2)], ONorm []).
Proof. vm_compute. reflexivity. Qed.

Example ex_bad_oracle :
  block9 [] 5 (mk9 [] []) (to_term ex_bad) [] = (mk9 [(vx, lit "2"); (vc, lit "1")] [], C09.ONorm []).
Proof. vm_compute. reflexivity. Qed.

Example ex_bad_model :
  let '(st', r) := eval std_uni 30 interp_new (render_block (to_prog ex_bad)) in
  (st_scalar st' vx, st_scalar st' vc) = (Ok (VInt 2), Ok (VInt 2)).
Proof. vm_compute. reflexivity. Qed.
