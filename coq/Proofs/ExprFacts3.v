(* ExprFacts3.v — C03: the completeness theorem of ExprFacts2.v extended to every kind of operand
   the expression lexer accepts.

   ExprFacts2.v proves, for the full operator grammar over NUMERIC LITERAL leaves ([tree2]), that
   [expr_eval] returns the value of the tree and the state it was given.  Here the leaves may
   also be ([leaf], constructor [X3] of [tree3])
       $name   ${name}          a scalar variable of the current scope            [KVar] [KVarB]
       a quoted string          dquote ... dquote, without $ [ backslash dquote    [KQuo]
       {...}                    a braced string without { } backslash             [KBrace]
       [script]                 a command substitution, any well-formed script    [KCmd]
                                tree of Spec/SpecGrammar.v, any executor
       true false yes no on off                                                   [KBool]

   Because a [script] operand changes the interpreter state, the reference evaluator [ev3] is
   written in state-passing style:  ev3 exec t st = (st', result).  It follows C's rules: the
   right operand of a decided && / || and the arm of ?: that is not chosen are NOT evaluated —
   no variable is read and no script is run there.

   Sections: 1 leaves, trees, [render3], [ok3], [ev3]; 2 what may follow an operand; 3 the
   parsing invariant [parses3] (the induction of ExprFacts2 section 4, with the state threaded
   and with string values), for an abstract leaf hypothesis [leaf_spec]; 4 [leaf_spec] for every
   kind of leaf; 5 the theorems about [expr_eval]; 6 the frame: trees without [script] leaves
   leave the state alone, and in general the state is the fold of the leaves' effects over the
   trace [run3] of evaluated leaves; 7 conversion of operand values, the embedding of [tree2],
   plain errors; 8 examples on concrete states.

   Main statements:
     [expr_eval_render3_ws]    value, error and state of [expr_eval] on any well-formed tree, any
                               executor, any lead/trail blanks:  (fst (ev3 ..), top_res (snd (ev3 ..)))
     [expr_eval_render3_std]   the same for the interpreter's own character predicates
     [ev3_frame], [expr_eval_render3_frame], [expr_eval_render3_pure]
                               no [script] leaf: the state is returned unchanged (and the result
                               is [res_value] of the tree's value, as in ExprFacts2)
     [ev3_trace], [run3_subseq] the final state is the initial state threaded through exactly the
                               evaluated leaves ([run3]), left to right; they are a subsequence
                               of the tree's leaves
     [ev3_no_cmd_exec]         without [script] leaves the value does not depend on the executor
     [var_leaf_value], [string_leaf_value], [cmd_leaf_value], [unknown_var_message]
                               how an operand's value enters the arithmetic
     [expr_eval_tree2_again]   on embedded [tree2] the main theorem is ExprFacts2's
   Not covered: array elements $a(idx); quoted strings containing $ [ backslash; braced strings
   containing braces or backslash. *)
From Molt Require Import Model.Base Model.Tokenizer Model.ListSyn Model.Float Model.Value
  Model.State Model.Script Model.Parser Model.Eval Model.Expr Spec.SpecExpr.
From Molt Require Gen.SrcFacts.
From Molt Require Import Proofs.BaseFacts Proofs.ValueFacts Proofs.NoEvalFacts Proofs.ExprFacts
  Proofs.ExprFacts2.
From Molt Require Model.Commands Model.Unicode Model.Interp Model.Harness Check.ScriptObs.
From Molt Require Spec.SpecGrammar Proofs.TotalFacts Proofs.GrammarFacts.
From Coq Require Import Lia ZifyBool ZifyN.

Arguments N.eqb : simpl never.
Arguments N.leb : simpl never.
Arguments N.ltb : simpl never.
Arguments Z.eqb : simpl never.
Arguments Z.leb : simpl never.
Arguments Z.ltb : simpl never.

Local Open Scope Z_scope.

(* ====================================================================================== *)
(* 1. leaves, trees, the reference evaluator                                               *)
(* ====================================================================================== *)

Inductive bword := BTrue | BFalse | BYes | BNo | BOn | BOff.
Definition bstr (w : bword) : str :=
  match w with
  | BTrue => lit "true" | BFalse => lit "false" | BYes => lit "yes" | BNo => lit "no"
  | BOn => lit "on" | BOff => lit "off"
  end.
Definition bval (w : bword) : Z := match w with BTrue | BYes | BOn => 1 | _ => 0 end.

Inductive leaf :=
| KVar (name : str)                       (* $name *)
| KVarB (name : str)                      (* ${name} *)
| KQuo (s : str)                          (* s between double quotes *)
| KBrace (s : str)                        (* {s} *)
| KCmd (sc : list SpecGrammar.item)       (* [script] *)
| KBool (w : bword).

Local Open Scope N_scope.
Definition ltext (k : leaf) : str :=
  match k with
  | KVar n => 36 :: n
  | KVarB n => 36 :: 123 :: n ++ [125]
  | KQuo s => 34 :: s ++ [34]
  | KBrace s => 123 :: s ++ [125]
  | KCmd sc => 91 :: SpecGrammar.render sc ++ [93]
  | KBool w => bstr w
  end.

Definition quo_char (c : char) : bool :=
  negb (c =? 91) && negb (c =? 36) && negb (c =? 92) && negb (c =? 34).
Definition brace_char (c : char) : bool :=
  negb (c =? 123) && negb (c =? 125) && negb (c =? 92).
Definition bvar_char (c : char) : bool := negb (c =? 125) && negb (c =? 40).

(* well-formed leaves; [ia] is char::is_alphanumeric *)
Definition lok (ia : char -> bool) (k : leaf) : bool :=
  match k with
  | KVar n => nonempty n && forallb (is_varname_char ia) n
  | KVarB n => forallb bvar_char n
  | KQuo s => forallb quo_char s
  | KBrace s => forallb brace_char s
  | KCmd sc => SpecGrammar.wf_items true sc
  | KBool _ => true
  end.
Local Open Scope Z_scope.

Definition rb {A B} (r : res A) (k : A -> res B) : res B :=
  match r with Ok a => k a | Err e => Err e | Panic p => Panic p | Fuel => Fuel end.

(* the script a [script] leaf is read as *)
Definition cmd_script (sc : list SpecGrammar.item) : script := GrammarFacts.ast_items true false sc.

(* what a leaf contributes: the state after it and its value as the arithmetic sees it.
   A variable's value enters through [expr_parse_value], a string through [expr_parse_string]. *)
Definition lsem (exec : executor) (k : leaf) (st : interp) : interp * res datum :=
  match k with
  | KVar n | KVarB n => (st, rb (st_scalar st n) expr_parse_value)
  | KQuo s | KBrace s => (st, expr_parse_string s)
  | KCmd sc =>
      let '(st1, rv) := eval_script exec st (cmd_script sc) in (st1, rb rv expr_parse_value)
  | KBool w => (st, Ok (DInt (bval w)))
  end.

(* the trees of ExprFacts2 with one more leaf *)
Inductive tree3 :=
| L3 (z : Z)
| X3 (k : leaf)
| P3 (s1 s2 : str) (t : tree3)
| U3 (u : uop) (s : str) (t : tree3)
| B3 (o : bop) (s1 s2 : str) (l r : tree3)
| A3 (o : lop) (s1 s2 : str) (l r : tree3)
| Q3 (s1 s2 s3 s4 : str) (c a b : tree3)
| Fn3 (f : fnm) (s1 s2 s3 : str) (t : tree3)
| F3 (ip fp es ed : str).

Local Open Scope N_scope.
Fixpoint render3 (t : tree3) : str :=
  match t with
  | L3 z => show_Z z
  | X3 k => ltext k
  | P3 s1 s2 t => 40 :: s1 ++ render3 t ++ s2 ++ [41]
  | U3 u s t => ustr u ++ s ++ render3 t
  | B3 o s1 s2 l r => render3 l ++ s1 ++ opstr o ++ s2 ++ render3 r
  | A3 o s1 s2 l r => render3 l ++ s1 ++ lstr o ++ s2 ++ render3 r
  | Q3 s1 s2 s3 s4 c a b =>
      render3 c ++ s1 ++ 63 :: s2 ++ render3 a ++ s3 ++ 58 :: s4 ++ render3 b
  | Fn3 f s1 s2 s3 t => fstr f ++ s1 ++ 40 :: s2 ++ render3 t ++ s3 ++ [41]
  | F3 ip fp es ed => ftext ip fp es ed
  end.
Local Open Scope Z_scope.

Definition topl3 (t : tree3) : Z :=
  match t with
  | B3 o _ _ _ _ => oprec o
  | A3 o _ _ _ _ => lprec o
  | Q3 _ _ _ _ _ _ _ => 2
  | _ => 16
  end.
Definition topr3 (t : tree3) : Z :=
  match t with
  | B3 o _ _ _ _ => oprec o
  | A3 o _ _ _ _ => lprec o
  | Q3 _ _ _ _ _ _ _ => 1
  | _ => 16
  end.

(* the side condition of ExprFacts2 ([ok]) plus well-formed leaves *)
Fixpoint ok3 (ia : char -> bool) (t : tree3) : bool :=
  match t with
  | L3 z => (0 <=? z) && (z <=? i64_max)
  | X3 k => lok ia k
  | P3 s1 s2 t => ws s1 && ws s2 && ok3 ia t
  | U3 u s t => ws s && ok3 ia t && (15 <? topl3 t)
  | B3 o s1 s2 l r =>
      ws s1 && ws s2 && (if alpha_op o then nonempty s1 && nonempty s2 else true)
      && ok3 ia l && ok3 ia r && (oprec o <=? topl3 l) && (oprec o <=? topr3 l) && (oprec o <? topl3 r)
  | A3 o s1 s2 l r =>
      ws s1 && ws s2 && ok3 ia l && ok3 ia r && (lprec o <=? topl3 l) && (lprec o <=? topr3 l)
      && (lprec o <? topl3 r)
  | Q3 s1 s2 s3 s4 c a b =>
      ws s1 && ws s2 && ws s3 && ws s4 && ok3 ia c && ok3 ia a && ok3 ia b && (2 <=? topr3 c)
  | Fn3 f s1 s2 s3 t => ws s1 && ws s2 && ws s3 && ok3 ia t
  | F3 ip fp es ed =>
      digits ip && digits fp && exp_shape es ed
      && match get_float (ftext ip fp es ed) with Some _ => true | None => false end
  end.

(* the truth value of an operand of && || ?: ; a string is the model's type error *)
Definition truth3 (op : Z) (v : datum) : res bool :=
  match v with
  | DInt z => Ok (negb (z =? 0))
  | DFlt x => Ok (negb (f_is_zero x))
  | DStr _ => illegal_type v op
  end.

Definition fn_apply (f : fnm) (v : datum) : res datum :=
  match v with
  | DStr _ => err (lit "argument to math function didn't have numeric value")
  | _ => call_func (fstr f) v
  end.

Definition float_lit (ip fp es ed : str) : res datum :=
  match get_float (ftext ip fp es ed) with
  | Some f => Ok (DFlt f)
  | None => err (lit "bad float literal")
  end.

Section Ev3.
Variable exec : executor.

(* the reference evaluator: state in, state and result out.  Operands are evaluated left to
   right; an error stops the evaluation with the state reached so far; the operand that C skips
   is not evaluated at all. *)
Fixpoint ev3 (t : tree3) (st : interp) : interp * res datum :=
  match t with
  | L3 z => (st, Ok (DInt z))
  | X3 k => lsem exec k st
  | P3 _ _ t => ev3 t st
  | U3 u _ t => let '(st1, r) := ev3 t st in (st1, rb r (unary_apply (utok u)))
  | B3 o _ _ l r =>
      let '(st1, rl) := ev3 l st in
      match rl with
      | Ok a => let '(st2, rr) := ev3 r st1 in (st2, rb rr (apply_binop (tok_of o) a))
      | other => (st1, other)
      end
  | A3 o _ _ l r =>
      let '(st1, rl) := ev3 l st in
      match rb rl (truth3 (ltok o)) with
      | Ok ta =>
          if is_and o && negb ta then (st1, Ok (DInt 0))
          else if negb (is_and o) && ta then (st1, Ok (DInt 1))
          else
            let '(st2, rr) := ev3 r st1 in
            (st2, rb (rb rr (truth3 (ltok o))) (fun tb : bool => Ok (DInt (if tb then 1 else 0))))
      | Err e => (st1, Err e) | Panic p => (st1, Panic p) | Fuel => (st1, Fuel)
      end
  | Q3 _ _ _ _ c a b =>
      let '(st1, rc) := ev3 c st in
      match rb rc (truth3 T_QUESTY) with
      | Ok tc => if tc then ev3 a st1 else ev3 b st1
      | Err e => (st1, Err e) | Panic p => (st1, Panic p) | Fuel => (st1, Fuel)
      end
  | Fn3 f _ _ _ t => let '(st1, r) := ev3 t st in (st1, rb r (fn_apply f))
  | F3 ip fp es ed => (st, float_lit ip fp es ed)
  end.

End Ev3.

Fixpoint sz3 (t : tree3) : nat :=
  match t with
  | L3 _ => 1
  | X3 _ => 1
  | P3 _ _ t => sz3 t + 2
  | U3 _ _ t => sz3 t + 1
  | B3 _ _ _ l r => sz3 l + sz3 r + 1
  | A3 _ _ _ l r => sz3 l + sz3 r + 1
  | Q3 _ _ _ _ c a b => sz3 c + sz3 a + sz3 b + 2
  | Fn3 _ _ _ _ t => sz3 t + 3
  | F3 _ _ _ _ => 1
  end.

Fixpoint nsp3 (t : tree3) : nat :=
  match t with
  | B3 _ _ _ l _ => S (nsp3 l)
  | A3 _ _ _ l _ => S (nsp3 l)
  | Q3 _ _ _ _ c _ _ => S (nsp3 c)
  | _ => 0
  end.

Lemma nsp3_lt_sz3 t : (nsp3 t < sz3 t)%nat.
Proof. induction t; cbn [nsp3 sz3]; lia. Qed.

Lemma topl3_bounds t : 2 <= topl3 t <= 16.
Proof.
  destruct t; cbn [topl3]; try lia; [pose proof (oprec_bounds o)|pose proof (lprec_bounds o)]; lia.
Qed.

Lemma topr3_bounds t : 1 <= topr3 t <= 16 /\ topl3 t - 1 <= topr3 t <= topl3 t.
Proof.
  destruct t; cbn [topl3 topr3]; try lia; [pose proof (oprec_bounds o)|pose proof (lprec_bounds o)]; lia.
Qed.

(* ====================================================================================== *)
(* 2. what may follow an operand                                                           *)
(* ====================================================================================== *)

(* the characters that can come directly after a complete operand in a rendered tree: a blank,
   a close parenthesis, or the first character of an operator written with symbols *)
Local Open Scope N_scope.
Definition opc (c : char) : bool :=
  (c =? 32) || (c =? 9) || (c =? 41) || (c =? 42) || (c =? 47) || (c =? 37) || (c =? 43) || (c =? 45)
  || (c =? 60) || (c =? 62) || (c =? 61) || (c =? 33) || (c =? 38) || (c =? 94) || (c =? 124)
  || (c =? 63) || (c =? 58).
Local Open Scope Z_scope.

Definition op_follow (rest : str) : Prop :=
  match rest with [] => True | c :: _ => opc c = true end.

Lemma op_follow_lit rest : op_follow rest -> lit_follow rest.
Proof.
  destruct rest as [|c r]; [auto|]. cbn [op_follow lit_follow]. unfold opc, is_digit10. lia.
Qed.

Lemma op_follow_ws sp r : ws sp = true -> op_follow r -> op_follow (sp ++ r).
Proof.
  destruct sp as [|c sp]; [intros _ H; exact H|]. intros H _. apply ws_head in H.
  cbn [app op_follow]. unfold opc. lia.
Qed.

Lemma op_follow_sym_op o r : alpha_op o = false -> op_follow (opstr o ++ r).
Proof.
  intros Ha. destruct o; try discriminate;
    match goal with |- context [opstr ?o] =>
      let v := eval vm_compute in (opstr o) in change (opstr o) with v end;
    cbn [app op_follow]; reflexivity.
Qed.

Lemma op_follow_lop o r : op_follow (lstr o ++ r).
Proof. destruct o; reflexivity. Qed.

Lemma op_follow_bop o s1 s2 x :
  ws s1 = true -> (alpha_op o = true -> nonempty s1 = true) ->
  op_follow (s1 ++ opstr o ++ s2 ++ x).
Proof.
  intros Hs1 Hal. destruct s1 as [|c s1'].
  - cbn [app]. apply op_follow_sym_op. destruct (alpha_op o); [discriminate (Hal eq_refl)|reflexivity].
  - apply ws_head in Hs1. cbn [app op_follow]. unfold opc. lia.
Qed.

Lemma ltext_next_ok k rest : next_ok (ltext k ++ rest).
Proof.
  destruct k as [n|n|s|s|sc|w]; cbn [ltext app next_ok]; try lia.
  destruct w;
    match goal with |- context [bstr ?w] =>
      let v := eval vm_compute in (bstr w) in change (bstr w) with v end; cbn [app next_ok]; lia.
Qed.

Lemma render3_next_ok ia t rest : ok3 ia t = true -> next_ok (render3 t ++ rest).
Proof.
  revert rest.
  induction t as [z|k|s1 s2 t IH|u s t IH|o s1 s2 l IHl r IHr|o s1 s2 l IHl r IHr
                 |s1 s2 s3 s4 c IHc a IHa b IHb|f s1 s2 s3 t IH|ip fp es ed]; intros rest Hok; cbn [render3].
  - cbn [ok3] in Hok. destruct (show_Z_head z rest ltac:(lia)) as (c & r & -> & Hc).
    cbn [next_ok]. unfold is_digit10 in Hc. lia.
  - apply ltext_next_ok.
  - cbn [app next_ok]. lia.
  - destruct u;
      match goal with |- context [ustr ?u] =>
        let v := eval vm_compute in (ustr u) in change (ustr u) with v end; cbn [app next_ok]; lia.
  - cbn [ok3] in Hok. rewrite <- app_assoc. apply IHl. repeat (apply andb_true_iff in Hok; destruct Hok as [Hok ?]). assumption.
  - cbn [ok3] in Hok. rewrite <- app_assoc. apply IHl. repeat (apply andb_true_iff in Hok; destruct Hok as [Hok ?]). assumption.
  - cbn [ok3] in Hok. rewrite <- app_assoc. apply IHc. repeat (apply andb_true_iff in Hok; destruct Hok as [Hok ?]). assumption.
  - destruct f;
      match goal with |- context [fstr ?u] =>
        let v := eval vm_compute in (fstr u) in change (fstr u) with v end; cbn [app next_ok]; lia.
  - cbn [ok3] in Hok. repeat (apply andb_true_iff in Hok; destruct Hok as [Hok ?]).
    destruct (ftext_head ip fp es ed rest Hok) as (c0 & p' & -> & Hc0).
    cbn [next_ok]. unfold is_digit10 in Hc0. lia.
Qed.

(* ====================================================================================== *)
(* 3. the parsing invariant                                                                *)
(* ====================================================================================== *)

Definition head_ok3 (t : tree3) (tk : Z) : Prop :=
  ftok tk /\ (T_MULT <= tk -> prec tk <= topr3 t).

Lemma head_ok3_close t : head_ok3 t T_CLOSE_PAREN.
Proof. split; [left; reflexivity|]. unfold T_MULT, T_CLOSE_PAREN. lia. Qed.

Lemma head_ok3_end t : head_ok3 t T_END.
Proof. split; [right; right; left; reflexivity|]. unfold T_MULT, T_END. lia. Qed.

(* the conversion of the left operand of && || ?: in evaluation mode is [truth3] *)
Lemma conv_left_cases info v : noeval info = false ->
  match truth3 (e_token info) v with
  | Ok b => exists x, conv_left info v = Ok (DInt x) /\ (x =? 0) = negb b
  | Err e => conv_left info v = Err e
  | _ => False
  end.
Proof.
  intros Hn. destruct v as [z|x|s]; cbn [truth3 conv_left].
  - exists z. split; [reflexivity|]. destruct (z =? 0); reflexivity.
  - unfold d_bool. destruct (negb (f_is_zero x)); eexists; split; reflexivity.
  - rewrite Hn. unfold illegal_type, err. reflexivity.
Qed.

Lemma apply_binop_lop3 o x v2 :
  apply_binop (ltok o) (DInt x) v2 =
  rb (truth3 (ltok o) v2)
     (fun tb : bool => Ok (d_bool (if is_and o then negb (x =? 0) && tb else negb (x =? 0) || tb))).
Proof.
  destruct v2 as [z|y|s], o; cbn [ltok is_and truth3 rb]; binop_red;
    unfold illegal_type, err; cbn [rb]; reflexivity.
Qed.

(* errors of the conversion stop the loop *)
Lemma loop_step_conv_err ia ib exec original f st info pr v e :
  e_token info = T_AND \/ e_token info = T_OR \/ e_token info = T_QUESTY ->
  pr < prec (e_token info) -> conv_left info v = Err e ->
  expr_loop ia ib exec original (S f) st info pr v = (st, Err e).
Proof.
  intros Ht Hpr Hc. rewrite expr_loop_S. cbv zeta. rewrite Hc.
  destruct Ht as [Ht|[Ht|Ht]]; rewrite Ht in *; tok_tests; cbv beta iota.
  - change (prec T_AND) with 4 in *. replace (4 <=? pr) with false by lia. reflexivity.
  - change (prec T_OR) with 3 in *. replace (3 <=? pr) with false by lia. reflexivity.
  - change (prec T_QUESTY) with 2 in *. replace (2 <=? pr) with false by lia. reflexivity.
Qed.

(* a property of every leaf of a tree *)
Fixpoint all_leaves (P : leaf -> Prop) (t : tree3) : Prop :=
  match t with
  | X3 k => P k
  | P3 _ _ t | U3 _ _ t | Fn3 _ _ _ _ t => all_leaves P t
  | B3 _ _ _ l r | A3 _ _ _ l r => all_leaves P l /\ all_leaves P r
  | Q3 _ _ _ _ c a b => all_leaves P c /\ all_leaves P a /\ all_leaves P b
  | _ => True
  end.

Section Completeness3.
Variable ia ib : char -> bool.
Variable exec : executor.
Variable original : str.

Local Notation GV := (expr_get_value ia ib exec original).
Local Notation LOOP := (expr_loop ia ib exec original).
Local Notation LEX := (expr_lex ia ib exec original).
Local Notation MF := (expr_math_func ia ib exec original).
Local Notation follows := (follows ia ib exec original).
Local Notation lexes := (lexes ia ib exec original).
Local Notation ev3 := (ev3 exec).

(* [rest] may follow any operand, and lexes to the operator-like token [tk] leaving [rest'] *)
Definition follows3 (rest : str) (tk : Z) (rest' : str) : Prop :=
  op_follow rest /\ lexes rest tk rest'.

Lemma follows3_intro rest tk rest' : op_follow rest -> follows rest tk rest' -> follows3 rest tk rest'.
Proof. intros H1 [_ H2]. split; [exact H1|exact H2]. Qed.

Lemma follows3_follows rest tk rest' : follows3 rest tk rest' -> follows rest tk rest'.
Proof. intros [H1 H2]. split; [apply op_follow_lit, H1|exact H2]. Qed.

(* the hypothesis on a leaf: from its text followed by anything that may follow an operand, the
   lexer yields T_VALUE; in evaluation mode with the state and value of [lsem], in no-eval mode
   with the state untouched *)
Definition leaf_spec (k : leaf) : Prop :=
  forall rest, op_follow rest ->
  forall f st info, e_rest info = ltext k ++ rest ->
    (noeval info = true ->
       exists d, LEX (S f) st info = (st, Ok (d, with_tok_rest info T_VALUE rest))) /\
    (noeval info = false ->
       LEX (S f) st info =
       lift_res (fst (lsem exec k st)) (snd (lsem exec k st))
         (fun d => (fst (lsem exec k st), Ok (d, with_tok_rest info T_VALUE rest)))).

(* the value a tree contributes: in evaluation mode the state and value of [ev3], in no-eval
   mode (counter n > 0) the state untouched and some value that is never used *)
Definition val3 (n : N) (t : tree3) (st st' : interp) (r : res datum) : Prop :=
  if (n =? 0)%N then (st', r) = ev3 t st else st' = st /\ exists v, r = Ok v.

Definition parses3 (t : tree3) : Prop :=
  forall n pr, pr < topl3 t ->
  forall rest tk rest', follows3 rest tk rest' -> head_ok3 t tk ->
  forall fuel, (2 * sz3 t <= fuel)%nat ->
  forall st info sp, forallb is_whitespace sp = true ->
    e_rest info = sp ++ render3 t ++ rest -> e_noeval info = n ->
    exists st' r, val3 n t st st' r /\
      GV fuel st info pr =
      lift_res st' r (fun v => LOOP (fuel - 1 - nsp3 t) st' (with_tok_rest info tk rest') pr v).

Lemma val3_const n t st r : ev3 t st = (st, r) -> (exists v, r = Ok v) -> val3 n t st st r.
Proof. intros H1 H2. unfold val3. destruct (n =? 0)%N; [symmetry; exact H1|split; [reflexivity|exact H2]]. Qed.

Lemma parses3_L z : 0 <= z <= i64_max -> parses3 (L3 z).
Proof.
  intros Hz n pr _ rest tk rest' [Hof Hlex] _ fuel Hfuel st info sp Hsp He Hn.
  cbn [sz3] in Hfuel. destruct fuel as [|[|f]]; try lia.
  cbn [render3] in He.
  exists st, (Ok (DInt z)). split.
  { apply val3_const; [reflexivity|eexists; reflexivity]. }
  rewrite expr_get_value_S,
    (lex_literal ia ib exec original f st info sp z rest Hsp Hz (op_follow_lit rest Hof) He).
  unfold gv_first, unary_tok. tok_red.
  rewrite (Hlex f st (with_tok_rest info T_VALUE rest) eq_refl).
  cbn [lift_res nsp3]. replace (S (S f) - 1 - 0)%nat with (S f) by lia. reflexivity.
Qed.

Lemma parses3_F ip fp es ed :
  digits ip = true -> digits fp = true -> exp_shape es ed = true ->
  get_float (ftext ip fp es ed) <> None -> parses3 (F3 ip fp es ed).
Proof.
  intros Hip Hfp Hex Hg n pr _ rest tk rest' [Hof Hlex] _ fuel Hfuel st info sp Hsp He Hn.
  cbn [sz3] in Hfuel. destruct fuel as [|[|f]]; try lia.
  cbn [render3] in He.
  destruct (get_float (ftext ip fp es ed)) as [x|] eqn:Eg; [|congruence].
  exists st, (Ok (DFlt x)). split.
  { apply val3_const; [cbn [ev3]; unfold float_lit; rewrite Eg; reflexivity|eexists; reflexivity]. }
  rewrite expr_get_value_S,
    (lex_float ia ib exec original f st info sp ip fp es ed rest x Hsp Hip Hfp Hex
       (op_follow_lit rest Hof) Eg He).
  unfold gv_first, unary_tok. tok_red.
  rewrite (Hlex f st (with_tok_rest info T_VALUE rest) eq_refl).
  cbn [lift_res nsp3]. replace (S (S f) - 1 - 0)%nat with (S f) by lia. reflexivity.
Qed.

Lemma parses3_X k : leaf_spec k -> parses3 (X3 k).
Proof.
  intros Hk n pr _ rest tk rest' [Hof Hlex] _ fuel Hfuel st info sp Hsp He Hn.
  cbn [sz3] in Hfuel. destruct fuel as [|[|f]]; try lia.
  cbn [render3] in He.
  rewrite expr_get_value_S, (lex_skip_ws ia ib exec original f st info sp _ Hsp He).
  set (i0 := with_rest info (ltext k ++ rest)).
  destruct (Hk rest Hof f st i0 eq_refl) as [Hne Hev].
  assert (Hno : noeval i0 = negb (n =? 0)%N) by (apply noeval_n; unfold i0; info_red; exact Hn).
  unfold val3. cbn [nsp3]. replace (S (S f) - 1 - 0)%nat with (S f) by lia.
  destruct (n =? 0)%N eqn:En; cbn [negb] in Hno.
  - rewrite (Hev Hno). cbn [ev3]. destruct (lsem exec k st) as [st1 r]. cbn [fst snd].
    exists st1, r. split; [reflexivity|].
    destruct r as [d|e|p|]; cbn [lift_res]; try reflexivity.
    unfold gv_first, unary_tok. tok_red.
    rewrite (Hlex f st1 (with_tok_rest i0 T_VALUE rest) eq_refl). reflexivity.
  - destruct (Hne Hno) as [d Ed]. rewrite Ed.
    exists st, (Ok d). split; [split; [reflexivity|eexists; reflexivity]|].
    cbn [lift_res]. unfold gv_first, unary_tok. tok_red.
    rewrite (Hlex f st (with_tok_rest i0 T_VALUE rest) eq_refl). reflexivity.
Qed.

Lemma follows3_close_ws s r : ws s = true -> follows3 (s ++ 41%N :: r) T_CLOSE_PAREN r.
Proof.
  intros Hs. apply follows3_intro; [|apply follows_close_ws, Hs].
  apply op_follow_ws; [exact Hs|reflexivity].
Qed.

Lemma parses3_P s1 s2 t : ws s1 = true -> ws s2 = true -> parses3 t -> parses3 (P3 s1 s2 t).
Proof.
  intros Hs1 Hs2 IH n pr _ rest tk rest' [Hof Hlex] _ fuel Hfuel st info sp Hsp He Hn.
  cbn [sz3] in Hfuel. destruct fuel as [|[|f]]; try lia.
  assert (He' : e_rest info = sp ++ 40%N :: s1 ++ render3 t ++ s2 ++ 41%N :: rest).
  { rewrite He. cbn [render3 app]. rewrite <- !app_assoc. reflexivity. }
  assert (Hfu : (2 * sz3 t <= S f)%nat) by lia.
  pose proof (topl3_bounds t) as Htl.
  destruct (IH n (-1) ltac:(lia) (s2 ++ 41%N :: rest) T_CLOSE_PAREN rest (follows3_close_ws s2 rest Hs2)
              (head_ok3_close t) (S f) Hfu st
              (with_tok_rest info T_OPEN_PAREN (s1 ++ render3 t ++ s2 ++ 41%N :: rest)) s1
              (ws_whitespace s1 Hs1) eq_refl Hn) as (st1 & r & Hr & Eg).
  exists st1, r. split; [exact Hr|].
  rewrite expr_get_value_S, (lex_open_paren ia ib exec original f st info sp _ Hsp He').
  unfold gv_first. tok_red. rewrite Eg.
  destruct r as [v|e|p|]; cbn [lift_res]; try reflexivity.
  pose proof (nsp3_lt_sz3 t) as Hns.
  destruct (S f - 1 - nsp3 t)%nat as [|k] eqn:Ek; [lia|].
  rewrite loop_stops_at_end by (info_red; tauto).
  tok_red.
  match goal with |- context [LEX (S f) st1 ?i] => rewrite (Hlex f st1 i eq_refl) end.
  cbn [nsp3]. replace (S (S f) - 1 - 0)%nat with (S f) by lia. reflexivity.
Qed.

Lemma parses3_U u s t :
  ws s = true -> ok3 ia t = true -> 15 < topl3 t -> parses3 t -> parses3 (U3 u s t).
Proof.
  intros Hs Hok Htop IH n pr _ rest tk rest' Hfol Hh fuel Hfuel st info sp Hsp He Hn.
  cbn [sz3] in Hfuel. destruct fuel as [|[|f]]; try lia.
  assert (He' : e_rest info = sp ++ ustr u ++ s ++ render3 t ++ rest).
  { rewrite He. cbn [render3]. rewrite <- !app_assoc. reflexivity. }
  assert (Hlexu : LEX (S f) st info =
                  (st, Ok (d_none, with_tok_rest info (ulex u) (s ++ render3 t ++ rest)))).
  { refine (lexes_ws ia ib exec original sp (ustr u ++ s ++ render3 t ++ rest) (ulex u)
                      (s ++ render3 t ++ rest) Hsp _ f st info He').
    apply lexes_unary. apply next_ok_ws; [exact Hs|]. apply (render3_next_ok ia), Hok. }
  destruct Hh as [Hft _].
  assert (Hh' : head_ok3 t tk).
  { split; [exact Hft|]. intros H8. pose proof (ftok_prec tk Hft H8). pose proof (topr3_bounds t). lia. }
  assert (Hfu : (2 * sz3 t <= S f)%nat) by lia.
  destruct (IH n 15 Htop rest tk rest' Hfol Hh' (S f) Hfu st
              (with_token (with_tok_rest info (ulex u) (s ++ render3 t ++ rest)) (utok u)) s
              (ws_whitespace s Hs) eq_refl Hn) as (st1 & r & Hr & Eg).
  exists st1, (match r with
               | Ok v => if (n =? 0)%N then unary_apply (utok u) v else Ok v
               | other => other
               end).
  split.
  { unfold val3 in *. destruct (n =? 0)%N.
    - cbn [ev3]. rewrite <- Hr. destruct r as [v|e|p|]; reflexivity.
    - destruct Hr as [-> [v ->]]. split; [reflexivity|eexists; reflexivity]. }
  rewrite expr_get_value_S, Hlexu,
    (gv_first_unary ia ib exec original (S f) st d_none
       (with_tok_rest info (ulex u) (s ++ render3 t ++ rest)) u eq_refl), Eg.
  destruct r as [v|e|p|]; cbn [lift_res]; try reflexivity.
  pose proof (nsp3_lt_sz3 t) as Hns.
  destruct (S f - 1 - nsp3 t)%nat as [|k] eqn:Ek; [lia|].
  rewrite loop_stop_ftok.
  2:{ info_red. exact Hft. }
  2:{ info_red. intros H8. pose proof (ftok_prec tk Hft H8). lia. }
  rewrite (noeval_n _ n) by (info_red; exact Hn).
  cbn [nsp3]. replace (S (S f) - 1 - 0)%nat with (S f) by lia.
  destruct (n =? 0)%N; cbn [negb]; [|reflexivity].
  destruct (unary_apply (utok u) v); cbn [lift_res]; reflexivity.
Qed.

(* ---- ordinary binary operators ---- *)

Lemma follows3_bop o s1 s2 x :
  ws s1 = true -> ws s2 = true ->
  (alpha_op o = true -> ib_ok2 ib /\ nonempty s1 = true /\ nonempty s2 = true) ->
  next_ok x ->
  follows3 (s1 ++ opstr o ++ s2 ++ x) (tok_of o) (s2 ++ x).
Proof.
  intros Hs1 Hs2 Hal Hx. apply follows3_intro; [|apply follows_bop; assumption].
  apply op_follow_bop; [exact Hs1|]. intros Ha. apply (Hal Ha).
Qed.

Lemma parses3_B o s1 s2 l r :
  (forall x, next_ok x -> follows3 (s1 ++ opstr o ++ s2 ++ x) (tok_of o) (s2 ++ x)) ->
  ws s2 = true -> ok3 ia r = true ->
  oprec o <= topl3 l -> oprec o <= topr3 l -> oprec o < topl3 r ->
  parses3 l -> parses3 r -> parses3 (B3 o s1 s2 l r).
Proof.
  intros Hfo Hs2 Hokr Hgel Hger Hgtr IHl IHr n pr Hgt rest tk rest' Hfol Hh fuel Hfuel st info sp Hsp He Hn.
  cbn [topl3] in Hgt. cbn [sz3] in Hfuel.
  pose proof (nsp3_lt_sz3 l) as Hnl. pose proof (nsp3_lt_sz3 r) as Hnr.
  destruct Hh as [Hft Hhp]. cbn [topr3] in Hhp.
  assert (He' : e_rest info = sp ++ render3 l ++ s1 ++ opstr o ++ s2 ++ render3 r ++ rest).
  { rewrite He. cbn [render3]. rewrite <- !app_assoc. reflexivity. }
  assert (Hhl : head_ok3 l (tok_of o)).
  { split; [right; right; right; pose proof (tok_of_ordinary o) as Ho;
            unfold ordinary, T_BIT_OR, T_COLON in *; lia|]. intros _. exact Hger. }
  assert (Hfl : (2 * sz3 l <= fuel)%nat) by lia.
  destruct (IHl n pr ltac:(lia) _ (tok_of o) _
              (Hfo (render3 r ++ rest) (render3_next_ok ia r rest Hokr)) Hhl fuel Hfl st info sp Hsp He' Hn)
    as (st1 & rl & Hrl & Egl).
  set (f1 := (fuel - 2 - nsp3 l)%nat).
  assert (Ef1 : (fuel - 1 - nsp3 l = S f1)%nat) by lia.
  set (i_o := with_tok_rest info (tok_of o) (s2 ++ render3 r ++ rest)) in *.
  assert (Hhr : head_ok3 r tk).
  { split; [exact Hft|]. intros H8. specialize (Hhp H8). pose proof (topr3_bounds r). lia. }
  assert (Hfr : (2 * sz3 r <= f1)%nat) by lia.
  destruct (IHr n (oprec o) Hgtr rest tk rest' Hfol Hhr f1 Hfr st1 i_o s2 (ws_whitespace s2 Hs2) eq_refl Hn)
    as (st2 & rr & Hrr & Egr).
  rewrite Egl. cbn [nsp3]. replace (fuel - 1 - S (nsp3 l))%nat with f1 by lia.
  destruct rl as [vl|e|p|].
  2,3,4: (eexists st1, _; split;
          [unfold val3 in *; destruct (n =? 0)%N;
           [cbn [ev3]; rewrite <- Hrl; reflexivity|destruct Hrl as [_ [v Hv]]; discriminate Hv]
          |reflexivity]).
  exists st2, (match rr with
               | Ok v2 => if (n =? 0)%N then apply_binop (tok_of o) vl v2 else Ok vl
               | other => other
               end).
  split.
  { unfold val3 in *. destruct (n =? 0)%N.
    - cbn [ev3]. rewrite <- Hrl, <- Hrr. destruct rr; reflexivity.
    - destruct Hrl as [-> _]. destruct Hrr as [-> [v2 ->]]. split; [reflexivity|eexists; reflexivity]. }
  cbn [lift_res]. rewrite Ef1.
  rewrite (loop_step_ordinary ia ib exec original f1 st1 i_o pr vl (tok_of_ordinary o) Hgt).
  change (prec (e_token i_o)) with (oprec o). change (e_token i_o) with (tok_of o).
  rewrite Egr. destruct rr as [v2|e|p|]; cbn [lift_res]; try reflexivity.
  destruct (f1 - 1 - nsp3 r)%nat as [|f2] eqn:Ef2; [lia|].
  rewrite loop_stop_ftok by (info_red; assumption).
  rewrite ftok_not_bad by (info_red; exact Hft).
  rewrite (noeval_n _ n) by (unfold i_o; info_red; exact Hn).
  destruct (n =? 0)%N; cbn [negb]; [|reflexivity].
  destruct (apply_binop (tok_of o) vl v2); reflexivity.
Qed.

(* ---- && and || ---- *)

Lemma follows3_lop o s1 s2 x :
  ws s1 = true -> follows3 (s1 ++ lstr o ++ s2 ++ x) (ltok o) (s2 ++ x).
Proof.
  intros Hs1. apply follows3_intro; [|apply follows_lop, Hs1].
  apply op_follow_ws; [exact Hs1|apply op_follow_lop].
Qed.

Lemma parses3_A o s1 s2 l r :
  ws s1 = true -> ws s2 = true ->
  lprec o <= topl3 l -> lprec o <= topr3 l -> lprec o < topl3 r ->
  parses3 l -> parses3 r -> parses3 (A3 o s1 s2 l r).
Proof.
  intros Hs1 Hs2 Hgel Hger Hgtr IHl IHr n pr Hgt rest tk rest' Hfol Hh fuel Hfuel st info sp Hsp He Hn.
  cbn [topl3] in Hgt. cbn [sz3] in Hfuel.
  pose proof (nsp3_lt_sz3 l) as Hnl. pose proof (nsp3_lt_sz3 r) as Hnr.
  pose proof (lprec_bounds o) as Hlb.
  destruct Hh as [Hft Hhp]. cbn [topr3] in Hhp.
  assert (He' : e_rest info = sp ++ render3 l ++ s1 ++ lstr o ++ s2 ++ render3 r ++ rest).
  { rewrite He. cbn [render3]. rewrite <- !app_assoc. reflexivity. }
  assert (Hhl : head_ok3 l (ltok o)).
  { split; [right; right; right; destruct o; vm_compute; split; discriminate|]. intros _. exact Hger. }
  assert (Hfl : (2 * sz3 l <= fuel)%nat) by lia.
  destruct (IHl n pr ltac:(lia) _ (ltok o) _ (follows3_lop o s1 s2 (render3 r ++ rest) Hs1) Hhl fuel Hfl
              st info sp Hsp He' Hn) as (st1 & rl & Hrl & Egl).
  set (f1 := (fuel - 2 - nsp3 l)%nat).
  assert (Ef1 : (fuel - 1 - nsp3 l = S f1)%nat) by lia.
  set (i_o := with_tok_rest info (ltok o) (s2 ++ render3 r ++ rest)) in *.
  assert (Hhr : head_ok3 r tk).
  { split; [exact Hft|]. intros H8. specialize (Hhp H8). pose proof (topr3_bounds r). lia. }
  assert (Hfr : (2 * sz3 r <= f1)%nat) by lia.
  (* the right operand evaluated, from the state after the left operand ... *)
  destruct (IHr n (lprec o) Hgtr rest tk rest' Hfol Hhr f1 Hfr st1 i_o s2 (ws_whitespace s2 Hs2) eq_refl Hn)
    as (st2 & rr & Hrr & Egr).
  (* ... and skipped *)
  assert (Hns : e_noeval (with_noeval i_o (e_noeval i_o + 1)) = (n + 1)%N).
  { unfold i_o. info_red. rewrite Hn. reflexivity. }
  destruct (IHr (n + 1)%N (lprec o) Hgtr rest tk rest' Hfol Hhr f1 Hfr st1
              (with_noeval i_o (e_noeval i_o + 1)) s2 (ws_whitespace s2 Hs2) eq_refl Hns)
    as (st2s & rs & Hrs & Egs).
  unfold val3 in Hrs. replace (n + 1 =? 0)%N with false in Hrs by lia. destruct Hrs as [-> [vs ->]].
  cbn [lift_res] in Egs.
  destruct (f1 - 1 - nsp3 r)%nat as [|f2] eqn:Ef2; [lia|].
  assert (Hstop : forall sx i v, e_token i = tk -> LOOP (S f2) sx i (lprec o) v = (sx, Ok (v, i))).
  { intros sx i v Hi. apply loop_stop_ftok; rewrite Hi; [exact Hft|]. intros H8. specialize (Hhp H8). lia. }
  rewrite Hstop in Egs by reflexivity.
  (* the short-circuit step *)
  assert (Hskip : forall res,
            loop_skip_right ia ib exec original f1 st1 i_o pr res =
            LOOP f1 st1 (with_tok_rest info tk rest') pr res).
  { intros res. unfold loop_skip_right. change (prec (e_token i_o)) with (lprec o).
    rewrite Egs. unfold i_o.
    match goal with |- LOOP _ _ ?X _ _ = _ => replace X with (with_tok_rest info tk rest'); [reflexivity|] end.
    unfold with_noeval, with_tok_rest. cbn [e_rest e_token e_noeval]. f_equal. lia. }
  (* the step that evaluates the right operand *)
  assert (Hfull : forall x,
            match GV f1 st1 i_o (lprec o) with
            | (sx, Ok (v2, i2)) => loop_after ia ib exec original f1 (ltok o) pr sx i2 (DInt x) v2
            | (sx, Err e) => (sx, Err e)
            | (sx, Panic p) => (sx, Panic p)
            | (sx, Fuel) => (sx, Fuel)
            end =
            lift_res st2 rr (fun v2 =>
              if (n =? 0)%N then
                lift_res st2 (apply_binop (ltok o) (DInt x) v2)
                         (fun v' => LOOP f1 st2 (with_tok_rest info tk rest') pr v')
              else LOOP f1 st2 (with_tok_rest info tk rest') pr (DInt x))).
  { intros x. rewrite Egr. destruct rr as [v2|e|p|]; cbn [lift_res]; try reflexivity.
    rewrite Hstop by reflexivity. unfold loop_after.
    rewrite ftok_not_bad by (info_red; exact Hft).
    rewrite (noeval_n _ n) by (unfold i_o; info_red; exact Hn).
    destruct (n =? 0)%N; cbn [negb]; [|reflexivity].
    destruct (apply_binop (ltok o) (DInt x) v2); reflexivity. }
  cbn [nsp3]. replace (fuel - 1 - S (nsp3 l))%nat with f1 by lia.
  rewrite Egl. unfold val3 in *. destruct (n =? 0)%N eqn:En.
  - (* evaluation mode *)
    assert (Hne : noeval i_o = false).
    { rewrite (noeval_n _ n) by (unfold i_o; info_red; exact Hn). rewrite En. reflexivity. }
    cbn [ev3]. rewrite <- Hrl.
    destruct rl as [vl|e|p|]; cbn [rb lift_res]; [|eexists _, _; split; reflexivity..].
    pose proof (conv_left_cases i_o vl Hne) as Hc. change (e_token i_o) with (ltok o) in Hc.
    destruct (truth3 (ltok o) vl) as [ta|e|p|] eqn:Et; [| |contradiction..].
    + destruct Hc as (x & Hc & Hx).
      rewrite Ef1, (loop_step_lop ia ib exec original f1 st1 i_o pr vl o x eq_refl Hgt Hc).
      rewrite Hskip, Hfull. rewrite <- Hrr.
      destruct (is_and o) eqn:Eo; destruct ta; cbn [negb andb] in *; rewrite Hx.
      * (* && , left true *)
        destruct rr as [v2|e|p|]; cbn [rb lift_res]; [|eexists _, _; split; reflexivity..].
        rewrite (apply_binop_lop3 o x v2), Eo, Hx.
        destruct (truth3 (ltok o) v2) as [tb|e|p|]; cbn [rb lift_res negb andb d_bool];
          eexists _, _; split; reflexivity.
      * (* && , left false: skipped *)
        assert (x = 0) by lia. subst x. eexists _, _; split; reflexivity.
      * (* || , left true: skipped *)
        eexists _, _; split; reflexivity.
      * (* || , left false *)
        destruct rr as [v2|e|p|]; cbn [rb lift_res]; [|eexists _, _; split; reflexivity..].
        rewrite (apply_binop_lop3 o x v2), Eo, Hx.
        destruct (truth3 (ltok o) v2) as [tb|e|p|]; cbn [rb lift_res negb orb d_bool];
          eexists _, _; split; reflexivity.
    + rewrite Ef1, (loop_step_conv_err ia ib exec original f1 st1 i_o pr vl e) by
        (first [destruct o; cbn [ltok]; tauto | exact Hgt | exact Hc]).
      eexists _, _; split; reflexivity.
  - (* no-eval mode *)
    destruct Hrl as [-> [vl ->]]. destruct Hrr as [-> [v2 ->]]. cbn [lift_res].
    assert (Hne : noeval i_o = true).
    { rewrite (noeval_n _ n) by (unfold i_o; info_red; exact Hn). rewrite En. reflexivity. }
    destruct (conv_left_noeval i_o vl Hne) as (x & Hc).
    rewrite Ef1, (loop_step_lop ia ib exec original f1 st i_o pr vl o x eq_refl Hgt Hc).
    rewrite Hskip, Hfull. cbn [lift_res].
    destruct (if is_and o then x =? 0 else negb (x =? 0));
      eexists st, _; (split; [split; [reflexivity|eexists; reflexivity]|reflexivity]).
Qed.

(* ---- ?: ---- *)

Lemma follows3_char_ws s c r tk :
  ws s = true -> opc c = true -> lexes (c :: r) tk r -> follows3 (s ++ c :: r) tk r.
Proof.
  intros Hs Hc Hx. split; [apply op_follow_ws; [exact Hs|exact Hc]|].
  apply lexes_ws; [apply ws_whitespace, Hs|exact Hx].
Qed.

Lemma parses3_Q s1 s2 s3 s4 c a b :
  ws s1 = true -> ws s2 = true -> ws s3 = true -> ws s4 = true -> 2 <= topr3 c ->
  parses3 c -> parses3 a -> parses3 b -> parses3 (Q3 s1 s2 s3 s4 c a b).
Proof.
  intros Hs1 Hs2 Hs3 Hs4 Htc IHc IHa IHb n pr Hgt rest tk rest' Hfol Hh fuel Hfuel st info sp Hsp He Hn.
  cbn [topl3] in Hgt. cbn [sz3] in Hfuel.
  pose proof (nsp3_lt_sz3 c) as Hnc. pose proof (nsp3_lt_sz3 a) as Hna. pose proof (nsp3_lt_sz3 b) as Hnb.
  destruct Hh as [Hft Hhp]. cbn [topr3] in Hhp.
  set (R4 := s4 ++ render3 b ++ rest).
  set (R2 := s2 ++ render3 a ++ s3 ++ 58%N :: R4).
  assert (He' : e_rest info = sp ++ render3 c ++ s1 ++ 63%N :: R2).
  { rewrite He. unfold R2, R4. cbn [render3]. rewrite <- !app_assoc. cbn [app].
    rewrite <- !app_assoc. cbn [app]. rewrite <- !app_assoc. reflexivity. }
  assert (Hfq : follows3 (s1 ++ 63%N :: R2) T_QUESTY R2).
  { apply follows3_char_ws; [exact Hs1|reflexivity|apply lexes_questy]. }
  assert (Hfc : follows3 (s3 ++ 58%N :: R4) T_COLON R4).
  { apply follows3_char_ws; [exact Hs3|reflexivity|apply lexes_colon]. }
  assert (Hhc : head_ok3 c T_QUESTY).
  { split; [right; right; right; vm_compute; split; discriminate|]. intros _. exact Htc. }
  assert (Hha : head_ok3 a T_COLON).
  { split; [right; right; right; vm_compute; split; discriminate|]. intros _.
    pose proof (topr3_bounds a). change (prec T_COLON) with 1. lia. }
  assert (Hhb : head_ok3 b tk).
  { split; [exact Hft|]. intros H8. specialize (Hhp H8). pose proof (topr3_bounds b). lia. }
  pose proof (topr3_bounds c) as Hbc. pose proof (topl3_bounds a) as Hba. pose proof (topl3_bounds b) as Hbb.
  assert (Hfcnd : (2 * sz3 c <= fuel)%nat) by lia.
  destruct (IHc n pr ltac:(lia) _ T_QUESTY _ Hfq Hhc fuel Hfcnd st info sp Hsp He' Hn)
    as (st1 & rc & Hrc & Egc).
  set (f1 := (fuel - 2 - nsp3 c)%nat).
  assert (Ef1 : (fuel - 1 - nsp3 c = S f1)%nat) by lia.
  set (i_q := with_tok_rest info T_QUESTY R2) in *.
  assert (Hfa : (2 * sz3 a <= f1)%nat) by lia.
  assert (Hfb : (2 * sz3 b <= f1)%nat) by lia.
  destruct (f1 - 1 - nsp3 a)%nat as [|fa] eqn:Efa; [lia|].
  destruct (f1 - 1 - nsp3 b)%nat as [|fb] eqn:Efb; [lia|].
  assert (HstopC : forall k sx i v, e_token i = T_COLON -> LOOP (S k) sx i pq v = (sx, Ok (v, i))).
  { intros k sx i v Hi. apply loop_stop_ftok; rewrite Hi; [right; right; right; vm_compute; split; discriminate|].
    intros _. vm_compute. discriminate. }
  assert (HstopT : forall k sx i v, e_token i = tk -> LOOP (S k) sx i pq v = (sx, Ok (v, i))).
  { intros k sx i v Hi. apply loop_stop_ftok; rewrite Hi; [exact Hft|]. intros H8. specialize (Hhp H8).
    change pq with 1. lia. }
  assert (Hpqa : pq < topl3 a) by (change pq with 1; lia).
  assert (Hpqb : pq < topl3 b) by (change pq with 1; lia).
  (* the condition is true: the first arm is evaluated, the second skipped *)
  assert (Htrue : exists st2 ra, val3 n a st1 st2 ra /\
            loop_questy_true ia ib exec original f1 st1 i_q pr =
            lift_res st2 ra (fun v => LOOP f1 st2 (with_tok_rest info tk rest') pr v)).
  { unfold loop_questy_true.
    destruct (IHa n pq Hpqa _ T_COLON _ Hfc Hha f1 Hfa st1 i_q s2 (ws_whitespace s2 Hs2) eq_refl Hn)
      as (st2 & ra & Hra & Ega).
    exists st2, ra. split; [exact Hra|]. rewrite Ega.
    destruct ra as [va|e|p|]; cbn [lift_res]; try reflexivity.
    rewrite Efa, HstopC by reflexivity.
    change (e_token (with_tok_rest i_q T_COLON R4) =? T_COLON) with true. cbn [negb].
    match goal with |- context [GV f1 st2 ?i pq] =>
      assert (Hni : e_noeval i = (n + 1)%N) by (unfold i_q; info_red; rewrite Hn; reflexivity);
      destruct (IHb (n + 1)%N pq Hpqb rest tk rest' Hfol Hhb f1 Hfb st2 i s4 (ws_whitespace s4 Hs4)
                    eq_refl Hni) as (st3 & rb0 & Hrb & Egb)
    end.
    unfold val3 in Hrb. replace (n + 1 =? 0)%N with false in Hrb by lia. destruct Hrb as [-> [vb ->]].
    rewrite Egb. cbn [lift_res]. rewrite Efb, HstopT by reflexivity.
    unfold loop_after. rewrite ftok_not_bad by (info_red; exact Hft).
    match goal with |- context [noeval ?i] =>
      rewrite (noeval_n i n) by (unfold i_q; info_red; rewrite Hn; lia) end.
    match goal with |- context [LOOP f1 st2 ?X pr va] =>
      replace X with (with_tok_rest info tk rest')
        by (unfold i_q, with_noeval, with_tok_rest; cbn [e_rest e_token e_noeval]; f_equal; lia) end.
    change (e_token i_q) with T_QUESTY. rewrite apply_binop_questy.
    destruct (n =? 0)%N; reflexivity. }
  (* the condition is false: the first arm is skipped, the second evaluated *)
  assert (Hfalse : exists st2 rb0, val3 n b st1 st2 rb0 /\
            loop_questy_false ia ib exec original f1 st1 i_q pr =
            lift_res st2 rb0 (fun v => LOOP f1 st2 (with_tok_rest info tk rest') pr v)).
  { unfold loop_questy_false.
    match goal with |- context [GV f1 st1 ?i pq] =>
      assert (Hni : e_noeval i = (n + 1)%N) by (unfold i_q; info_red; rewrite Hn; reflexivity);
      destruct (IHa (n + 1)%N pq Hpqa _ T_COLON _ Hfc Hha f1 Hfa st1 i s2 (ws_whitespace s2 Hs2)
                    eq_refl Hni) as (st2 & ra & Hra & Ega)
    end.
    unfold val3 in Hra. replace (n + 1 =? 0)%N with false in Hra by lia. destruct Hra as [-> [va ->]].
    rewrite Ega. cbn [lift_res]. rewrite Efa, HstopC by reflexivity. cbv zeta.
    match goal with |- context [negb (e_token ?i =? T_COLON)] =>
      change (e_token i =? T_COLON) with true end.
    cbn [negb].
    match goal with |- context [GV f1 st1 ?i pq] =>
      assert (Hni' : e_noeval i = n) by (unfold i_q; info_red; rewrite Hn; lia);
      destruct (IHb n pq Hpqb rest tk rest' Hfol Hhb f1 Hfb st1 i s4 (ws_whitespace s4 Hs4)
                    eq_refl Hni') as (st3 & rb0 & Hrb & Egb)
    end.
    exists st3, rb0. split; [exact Hrb|]. rewrite Egb.
    destruct rb0 as [vb|e|p|]; cbn [lift_res]; try reflexivity.
    rewrite Efb, HstopT by reflexivity.
    unfold loop_after. rewrite ftok_not_bad by (info_red; exact Hft).
    match goal with |- context [noeval ?i] =>
      rewrite (noeval_n i n) by (unfold i_q; info_red; rewrite Hn; lia) end.
    match goal with |- context [LOOP f1 st3 ?X pr vb] =>
      replace X with (with_tok_rest info tk rest')
        by (unfold i_q, with_noeval, with_tok_rest; cbn [e_rest e_token e_noeval]; f_equal; lia) end.
    change (e_token i_q) with T_QUESTY. rewrite apply_binop_questy.
    destruct (n =? 0)%N; reflexivity. }
  destruct Htrue as (st2a & ra & Hra & Etrue). destruct Hfalse as (st2b & rb0 & Hrb & Efalse).
  cbn [nsp3]. replace (fuel - 1 - S (nsp3 c))%nat with f1 by lia.
  rewrite Egc. unfold val3 in *. destruct (n =? 0)%N eqn:En.
  - assert (Hne : noeval i_q = false).
    { rewrite (noeval_n _ n) by (unfold i_q; info_red; exact Hn). rewrite En. reflexivity. }
    cbn [ev3]. rewrite <- Hrc.
    destruct rc as [vc|e|p|]; cbn [rb lift_res]; [|eexists _, _; split; reflexivity..].
    pose proof (conv_left_cases i_q vc Hne) as Hc. change (e_token i_q) with T_QUESTY in Hc.
    destruct (truth3 T_QUESTY vc) as [tc|e|p|] eqn:Et; [| |contradiction..].
    + destruct Hc as (x & Hc & Hx).
      rewrite Ef1, (loop_step_questy ia ib exec original f1 st1 i_q pr vc x eq_refl Hgt Hc), Hx.
      destruct tc; cbn [negb].
      * rewrite <- Hra. exists st2a, ra. split; [reflexivity|exact Etrue].
      * rewrite <- Hrb. exists st2b, rb0. split; [reflexivity|exact Efalse].
    + rewrite Ef1, (loop_step_conv_err ia ib exec original f1 st1 i_q pr vc e) by
        (first [right; right; reflexivity | exact Hgt | exact Hc]).
      eexists _, _; split; reflexivity.
  - destruct Hrc as [-> [vc ->]]. cbn [lift_res].
    assert (Hne : noeval i_q = true).
    { rewrite (noeval_n _ n) by (unfold i_q; info_red; exact Hn). rewrite En. reflexivity. }
    destruct (conv_left_noeval i_q vc Hne) as (x & Hc).
    rewrite Ef1, (loop_step_questy ia ib exec original f1 st i_q pr vc x eq_refl Hgt Hc).
    destruct (negb (x =? 0)).
    + exists st2a, ra. split; [exact Hra|exact Etrue].
    + exists st2b, rb0. split; [exact Hrb|exact Efalse].
Qed.

(* ---- math functions ---- *)

Lemma parses3_Fn fn s1 s2 s3 t :
  ib_ok2 ib -> ws s1 = true -> ws s2 = true -> ws s3 = true -> parses3 t ->
  parses3 (Fn3 fn s1 s2 s3 t).
Proof.
  intros Hib Hs1 Hs2 Hs3 IH n pr _ rest tk rest' [Hof Hlex] _ fuel Hfuel st info sp Hsp He Hn.
  cbn [sz3] in Hfuel. destruct fuel as [|[|[|[|f]]]]; try lia.
  set (R3 := s3 ++ 41%N :: rest).
  set (R2 := s2 ++ render3 t ++ R3).
  assert (He' : e_rest info = sp ++ fstr fn ++ s1 ++ 40%N :: R2).
  { rewrite He. unfold R2, R3. cbn [render3]. rewrite <- !app_assoc. cbn [app].
    rewrite <- !app_assoc. cbn [app]. reflexivity. }
  set (i0 := with_rest info (s1 ++ 40%N :: R2)).
  assert (Hname : LEX (S (S (S f))) st info = MF (S (S f)) st i0 (fstr fn)).
  { rewrite (lex_skip_ws ia ib exec original _ st info sp _ Hsp He'). unfold i0.
    destruct s1 as [|c s1'].
    - cbn [app].
      rewrite (lex_fn_name ia ib exec original _ st (with_rest info (fstr fn ++ 40%N :: R2)) fn 40%N R2
                 Hib ltac:(tauto) eq_refl). reflexivity.
    - destruct (ws_head c s1' Hs1) as [Hc _]. cbn [app].
      rewrite (lex_fn_name ia ib exec original _ st
                 (with_rest info (fstr fn ++ c :: s1' ++ 40%N :: R2)) fn c (s1' ++ 40%N :: R2)
                 Hib ltac:(tauto) eq_refl). reflexivity. }
  set (i1 := with_tok_rest i0 T_OPEN_PAREN R2).
  assert (Hopen : LEX (S f) st i0 = (st, Ok (d_none, i1))).
  { apply (lex_open_paren ia ib exec original f st i0 s1 R2 (ws_whitespace s1 Hs1)). reflexivity. }
  assert (Hfu : (2 * sz3 t <= S f)%nat) by lia.
  pose proof (topl3_bounds t) as Htl.
  destruct (IH n (-1) ltac:(lia) R3 T_CLOSE_PAREN rest (follows3_close_ws s3 rest Hs3)
              (head_ok3_close t) (S f) Hfu st i1 s2 (ws_whitespace s2 Hs2) eq_refl Hn)
    as (st1 & r & Hr & Eg).
  exists st1, (match r with
               | Ok arg => if (n =? 0)%N then fn_apply fn arg else Ok d_none
               | other => other
               end).
  split.
  { unfold val3 in *. destruct (n =? 0)%N.
    - cbn [ev3]. rewrite <- Hr. destruct r; reflexivity.
    - destruct Hr as [-> [v ->]]. split; [reflexivity|eexists; reflexivity]. }
  rewrite expr_get_value_S, Hname, expr_math_func_S.
  replace (expr_find_func (fstr fn)) with true by (destruct fn; reflexivity). cbn [negb].
  rewrite Hopen. change (e_token i1 =? T_OPEN_PAREN) with true. cbn [negb].
  rewrite Eg. destruct r as [arg|e|p|]; cbn [lift_res]; try reflexivity.
  pose proof (nsp3_lt_sz3 t) as Hns.
  destruct (S f - 1 - nsp3 t)%nat as [|k] eqn:Ek; [lia|].
  rewrite loop_stops_at_end by (right; left; reflexivity).
  match goal with |- context [noeval ?i] =>
    rewrite (noeval_n i n) by (unfold i1, i0; info_red; exact Hn) end.
  change (e_token (with_tok_rest i1 T_CLOSE_PAREN rest) =? T_CLOSE_PAREN) with true.
  cbv iota zeta.
  assert (Hfin : forall d,
    match gv_first ia ib exec original (S (S (S f))) st1 d
            (with_token (with_tok_rest i1 T_CLOSE_PAREN rest) T_VALUE) with
    | (sx, Ok (v, i2, got_op)) =>
        if got_op then LOOP (S (S (S f))) sx i2 pr v
        else
          match LEX (S (S (S f))) sx i2 with
          | (sy, Ok (_, i3)) => LOOP (S (S (S f))) sy i3 pr v
          | (sy, Err e) => (sy, Err e)
          | (sy, Panic p) => (sy, Panic p)
          | (sy, Fuel) => (sy, Fuel)
          end
    | (sx, Err e) => (sx, Err e)
    | (sx, Panic p) => (sx, Panic p)
    | (sx, Fuel) => (sx, Fuel)
    end = LOOP (S (S (S (S f))) - 1 - nsp3 (Fn3 fn s1 s2 s3 t)) st1 (with_tok_rest info tk rest') pr d).
  { intros d. unfold gv_first, unary_tok. tok_red.
    match goal with |- context [LEX (S (S (S f))) st1 ?i] => rewrite (Hlex _ st1 i eq_refl) end.
    reflexivity. }
  destruct (n =? 0)%N eqn:En; cbn [negb andb].
  - destruct arg as [z|x|s]; cbn [is_string fn_apply]; cbv iota.
    + destruct (call_func (fstr fn) (DInt z)) as [d|e|p|]; cbn [lift_res]; try reflexivity. apply Hfin.
    + destruct (call_func (fstr fn) (DFlt x)) as [d|e|p|]; cbn [lift_res]; try reflexivity. apply Hfin.
    + reflexivity.
  - cbn [lift_res]. apply Hfin.
Qed.

(* ---- all constructors together ---- *)

Fixpoint uses_alpha3 (t : tree3) : bool :=
  match t with
  | L3 _ => false
  | X3 _ => false
  | P3 _ _ t => uses_alpha3 t
  | U3 _ _ t => uses_alpha3 t
  | B3 o _ _ l r => alpha_op o || uses_alpha3 l || uses_alpha3 r
  | A3 _ _ _ l r => uses_alpha3 l || uses_alpha3 r
  | Q3 _ _ _ _ c a b => uses_alpha3 c || uses_alpha3 a || uses_alpha3 b
  | Fn3 _ _ _ _ _ => true
  | F3 _ _ _ _ => false
  end.

Ltac zb := first [apply Z.leb_le; assumption | apply Z.ltb_lt; assumption].

Theorem parses3_all : forall t, all_leaves leaf_spec t ->
  ok3 ia t = true -> (uses_alpha3 t = true -> ib_ok2 ib) -> parses3 t.
Proof.
  induction t as [z|k|s1 s2 t IH|u s t IH|o s1 s2 l IHl r IHr|o s1 s2 l IHl r IHr
                 |s1 s2 s3 s4 c IHc a IHa b IHb|f s1 s2 s3 t IH|ip fp es ed];
    cbn [ok3 uses_alpha3 all_leaves]; intros Hlf Hok Hal;
    repeat (apply andb_true_iff in Hok; let H' := fresh "Hk" in destruct Hok as [Hok H']).
  - apply parses3_L. lia.
  - apply parses3_X, Hlf.
  - apply parses3_P; auto.
  - apply parses3_U; try assumption; [zb|auto].
  - destruct Hlf as [Hlf1 Hlf2]. apply parses3_B; try assumption; [|zb|zb|zb| |].
    + intros x Hx. apply follows3_bop; auto.
      intros Ha. rewrite Ha in *. apply andb_true_iff in Hk4. destruct Hk4 as [Hn1 Hn2].
      split; [|split]; auto.
    + apply IHl; auto. intros Hu. apply Hal. rewrite Hu. apply orb_true_iff. left. apply orb_true_r.
    + apply IHr; auto. intros Hu. apply Hal. rewrite Hu. apply orb_true_r.
  - destruct Hlf as [Hlf1 Hlf2]. apply parses3_A; try assumption; [zb|zb|zb| |].
    + apply IHl; auto. intros Hu. apply Hal. rewrite Hu. reflexivity.
    + apply IHr; auto. intros Hu. apply Hal. rewrite Hu. apply orb_true_r.
  - destruct Hlf as (Hlf1 & Hlf2 & Hlf3). apply parses3_Q; try assumption; [zb| | |].
    + apply IHc; auto. intros Hu. apply Hal. rewrite Hu. reflexivity.
    + apply IHa; auto. intros Hu. apply Hal. rewrite Hu. apply orb_true_iff. left. apply orb_true_r.
    + apply IHb; auto. intros Hu. apply Hal. rewrite Hu. apply orb_true_r.
  - apply parses3_Fn; auto.
  - apply parses3_F; auto. destruct (get_float (ftext ip fp es ed)); [discriminate|discriminate].
Qed.

End Completeness3.
Print Assumptions parses3_all.

(* ====================================================================================== *)
(* 4. every kind of leaf satisfies the leaf hypothesis                                     *)
(* ====================================================================================== *)

Local Open Scope N_scope.
Lemma opc_not_varname ia c : GrammarFacts.name_ok ia -> opc c = true ->
  is_varname_char ia c = false /\ c <> 40.
Proof.
  intros (H1 & _) Hc. assert (L : c < 128) by (unfold opc in Hc; lia).
  unfold is_varname_char. rewrite (H1 c L). unfold Model.Unicode.ascii_alnum, c_underscore, opc in *. lia.
Qed.

Lemma varname_not_lbrace ia c : GrammarFacts.name_ok ia -> is_varname_char ia c = true -> c <> 123.
Proof.
  intros (H1 & _) Hc E. subst c. unfold is_varname_char in Hc. rewrite (H1 123 ltac:(lia)) in Hc.
  vm_compute in Hc. discriminate.
Qed.
Local Open Scope Z_scope.

Lemma lift_res_value_of info st rv rest fs :
  noeval info = false ->
  lex_value_of info st rv rest fs =
  lift_res st (rb rv (fun v => if fs then expr_parse_string (as_str v) else expr_parse_value v))
    (fun d => (st, Ok (d, with_tok_rest info T_VALUE rest))).
Proof.
  intros Hn. unfold lex_value_of. rewrite Hn. destruct rv as [v|e|p|]; cbn [rb lift_res]; try reflexivity.
Qed.

Section Leaves.
Variable ia ib : char -> bool.
Variable exec : executor.
Variable original : str.
Hypothesis Hia : GrammarFacts.name_ok ia.

Local Notation LEX := (expr_lex ia ib exec original).
Local Notation leaf_spec := (leaf_spec ia ib exec original).

Lemma parse_fuel_S s : exists f, parse_fuel s = S f.
Proof. unfold parse_fuel. exists (8 * length s + 15)%nat. lia. Qed.

(* ---- $name ---- *)
Lemma leaf_KVar n : lok ia (KVar n) = true -> leaf_spec (KVar n).
Proof.
  cbn [lok]. intros Hok. apply andb_true_iff in Hok. destruct Hok as [Hne Hall].
  destruct n as [|d n']; [discriminate|]. clear Hne.
  assert (Hd : is_varname_char ia d = true) by (cbn [forallb] in Hall; apply andb_true_iff in Hall; tauto).
  pose proof (varname_not_lbrace ia d Hia Hd) as Hd123.
  intros rest Hof f st info He. cbn [ltext app] in He.
  assert (Hstop : match rest with [] => True | c :: _ => is_varname_char ia c = false end).
  { destruct rest as [|c r]; [exact I|]. apply (opc_not_varname ia c Hia Hof). }
  assert (Hpv : parse_varname ia (parse_fuel (d :: n' ++ rest)) parse_bt (d :: n' ++ rest)
                = POk (WVarRef (d :: n')) rest).
  { destruct (parse_fuel_S (d :: n' ++ rest)) as [k ->]. cbn [parse_varname].
    replace (N.eqb d c_lbrace) with false by (unfold c_lbrace; lia).
    change (d :: n' ++ rest) with ((d :: n') ++ rest).
    rewrite (take_while_app_stop _ (d :: n') rest Hall Hstop),
            (skip_while_app_stop _ (d :: n') rest Hall Hstop).
    destruct rest as [|c r]; [reflexivity|].
    replace (N.eqb c c_lparen) with false
      by (pose proof (opc_not_varname ia c Hia Hof); unfold c_lparen; lia).
    reflexivity. }
  assert (Hlx : LEX (S f) st info =
                if noeval info then lex_value_of info st (Ok v_empty) rest false
                else lex_value_of info st (st_scalar st (d :: n')) rest false).
  { rewrite expr_lex_S, He. remember (n' ++ rest) as tl eqn:Etl. lex_head. rewrite Hd. cbn [orb]. cbv iota.
    subst tl. unfold char in *. rewrite Hpv. cbn [lift_p].
    destruct (noeval info); reflexivity. }
  rewrite Hlx. split; intros Hn; rewrite Hn.
  - unfold lex_value_of. rewrite Hn. eexists; reflexivity.
  - rewrite (lift_res_value_of info st _ rest false Hn). reflexivity.
Qed.

(* ---- ${name} ---- *)
Lemma forallb_imp {A} (p q : A -> bool) l :
  (forall c, p c = true -> q c = true) -> forallb p l = true -> forallb q l = true.
Proof.
  intros H. induction l as [|a l IH]; [reflexivity|]. cbn [forallb]. intros Hl.
  apply andb_true_iff in Hl. destruct Hl as [Ha Hl]. rewrite (H a Ha), (IH Hl). reflexivity.
Qed.

Lemma pvl_plain n : forallb (fun c : char => negb (N.eqb c c_lparen)) n = true -> parse_varname_literal n = (n, None).
Proof.
  intros H. unfold parse_varname_literal.
  match goal with |- context [skip_while ?p n] => rewrite (GrammarFacts.sw_all p n H) end. reflexivity.
Qed.

Lemma leaf_KVarB n : lok ia (KVarB n) = true -> leaf_spec (KVarB n).
Proof.
  cbn [lok]. intros Hall rest Hof f st info He. cbn [ltext app] in He. rewrite <- app_assoc in He. cbn [app] in He.
  assert (H1 : forallb (fun c : char => negb (N.eqb c c_rbrace)) n = true).
  { apply (forallb_imp bvar_char); [|exact Hall]. intros c. unfold bvar_char, c_rbrace. lia. }
  assert (H2 : forallb (fun c : char => negb (N.eqb c c_lparen)) n = true).
  { apply (forallb_imp bvar_char); [|exact Hall]. intros c. unfold bvar_char, c_lparen. lia. }
  assert (Hpv : parse_varname ia (parse_fuel (123%N :: n ++ 125%N :: rest)) parse_bt (123%N :: n ++ 125%N :: rest)
                = POk (WVarRef n) rest).
  { destruct (parse_fuel_S (123%N :: n ++ 125%N :: rest)) as [k ->]. cbn [parse_varname].
    change (N.eqb 123 c_lbrace) with true. cbv iota. unfold parse_braced_varname.
    cbv zeta.
    match goal with |- context [take_while ?p (n ++ 125%N :: rest)] =>
      destruct (GrammarFacts.tw_until p n 125%N rest H1 eq_refl) as [E1 E2] end.
    unfold char in *. rewrite E1, E2.
    rewrite (pvl_plain n H2). reflexivity. }
  assert (Hlx : LEX (S f) st info =
                if noeval info then lex_value_of info st (Ok v_empty) rest false
                else lex_value_of info st (st_scalar st n) rest false).
  { rewrite expr_lex_S, He.
    match goal with |- context [skip_while is_whitespace (_ :: _ :: ?t)] => remember t as tl eqn:Etl end. lex_head.
    rewrite orb_true_r. subst tl. unfold char in *. rewrite Hpv. cbn [lift_p].
    destruct (noeval info); reflexivity. }
  rewrite Hlx. split; intros Hn; rewrite Hn.
  - unfold lex_value_of. rewrite Hn. eexists; reflexivity.
  - rewrite (lift_res_value_of info st _ rest false Hn). reflexivity.
Qed.

(* ---- {string} ---- *)
Lemma leaf_KBrace s : lok ia (KBrace s) = true -> leaf_spec (KBrace s).
Proof.
  cbn [lok]. intros Hall rest Hof f st info He. cbn [ltext app] in He. rewrite <- app_assoc in He. cbn [app] in He.
  assert (H1 : forallb SpecGrammar.brace_text_char s = true).
  { apply (forallb_imp brace_char); [|exact Hall]. intros c.
    unfold brace_char, SpecGrammar.brace_text_char, c_lbrace, c_rbrace, c_bslash. lia. }
  assert (Hpb : parse_braced_string (123%N :: s ++ 125%N :: rest) = POk (WValue s) rest).
  { unfold parse_braced_string. rewrite (GrammarFacts.pbb_text s (125%N :: rest) O [] H1).
    cbn [parse_braced_body]. change (N.eqb 125 c_lbrace) with false. change (N.eqb 125 c_rbrace) with true.
    cbv iota. rewrite rev_fast_eq, app_nil_r, rev_involutive. reflexivity. }
  assert (Hlx : LEX (S f) st info = lex_value_of info st (Ok (VStr s)) rest true).
  { rewrite expr_lex_S, He.
    match goal with |- context [skip_while is_whitespace (_ :: ?t)] => remember t as tl eqn:Etl end. lex_head.
    subst tl. unfold char in *. rewrite Hpb. reflexivity. }
  rewrite Hlx. split; intros Hn.
  - unfold lex_value_of. rewrite Hn. eexists; reflexivity.
  - rewrite (lift_res_value_of info st _ rest true Hn). reflexivity.
Qed.

(* ---- "string" ---- *)
Lemma tk_chars : forall s acc,
  fold_left tk_push_char s {| tk_list := []; tk_str := Some acc |} =
  {| tk_list := []; tk_str := Some (rev s ++ acc) |}.
Proof.
  induction s as [|c s IH]; intros acc; [reflexivity|].
  cbn [fold_left]. unfold tk_push_char at 2. cbn [tk_str tk_list]. rewrite IH. cbn [rev].
  rewrite <- app_assoc. reflexivity.
Qed.

Lemma tk_take_chars s : tk_take (fold_left tk_push_char s tk_new) = WValue s.
Proof.
  destruct s as [|c s]; [reflexivity|]. cbn [fold_left]. unfold tk_push_char at 2, tk_new. cbn [tk_str tk_list].
  rewrite tk_chars. unfold tk_take. cbn [tk_str tk_list]. rewrite rev_app_distr, rev_involutive. reflexivity.
Qed.

Lemma pq_plain rest : forall s f t, (length s < f)%nat -> forallb quo_char s = true ->
  parse_quoted ia f parse_bt false (s ++ 34%N :: rest) t = POk (tk_take (fold_left tk_push_char s t)) rest.
Proof.
  induction s as [|c s IH]; intros f t Hf Hall; (destruct f as [|k]; [cbn [length] in Hf; lia|]).
  - cbn [app parse_quoted fold_left]. change (N.eqb 34 c_lbracket) with false.
    change (N.eqb 34 c_dollar) with false. change (N.eqb 34 c_bslash) with false.
    change (N.eqb 34 c_dquote) with true. reflexivity.
  - cbn [forallb] in Hall. apply andb_true_iff in Hall. destruct Hall as [Hc Hall].
    cbn [app fold_left]. rewrite GrammarFacts.quoted_char.
    2:{ unfold quo_char, SpecGrammar.quote_lit_char, c_lbracket, c_dollar, c_bslash, c_dquote in *. lia. }
    apply IH; [cbn [length] in Hf; lia|exact Hall].
Qed.

Lemma leaf_KQuo s : lok ia (KQuo s) = true -> leaf_spec (KQuo s).
Proof.
  cbn [lok]. intros Hall rest Hof f st info He. cbn [ltext app] in He. rewrite <- app_assoc in He. cbn [app] in He.
  assert (Hpq : parse_quoted ia (parse_fuel (s ++ 34%N :: rest)) parse_bt false (s ++ 34%N :: rest) tk_new
                = POk (WValue s) rest).
  { rewrite (pq_plain rest s _ tk_new); [rewrite tk_take_chars; reflexivity| |exact Hall].
    unfold parse_fuel. rewrite app_length. lia. }
  assert (Hlx : LEX (S f) st info =
                if noeval info then lex_value_of info st (Ok v_empty) rest true
                else lex_value_of info st (Ok (VStr s)) rest true).
  { rewrite expr_lex_S, He.
    match goal with |- context [skip_while is_whitespace (_ :: ?t)] => remember t as tl eqn:Etl end. lex_head.
    subst tl. unfold char in *. rewrite Hpq. cbn [lift_p eval_word]. destruct (noeval info); reflexivity. }
  rewrite Hlx. split; intros Hn; rewrite Hn.
  - unfold lex_value_of. rewrite Hn. eexists; reflexivity.
  - rewrite (lift_res_value_of info st _ rest true Hn). reflexivity.
Qed.

(* ---- [script] ---- *)
Lemma leaf_KCmd sc : lok ia (KCmd sc) = true -> leaf_spec (KCmd sc).
Proof.
  cbn [lok]. intros Hwf rest Hof f st info He. cbn [ltext app] in He. rewrite <- app_assoc in He. cbn [app] in He.
  assert (Hps : parse_script ia (parse_fuel (SpecGrammar.render sc ++ 93%N :: rest)) true
                  (SpecGrammar.render sc ++ 93%N :: rest) [] = POk (cmd_script sc) (93%N :: rest)).
  { destruct (GrammarFacts.script_items ia true sc) as (f0 & H0).
    { apply Forall_forall. intros i _. exact (proj2 (proj2 (GrammarFacts.tree_ok ia Hia)) i). }
    { exact Hwf. }
    pose proof (H0 (f0 + parse_fuel (SpecGrammar.render sc ++ 93%N :: rest))%nat ltac:(lia) [] []
                  (93%N :: rest) GrammarFacts.junk_nil (conj eq_refl eq_refl)) as E.
    cbn [app rev] in E. rewrite GrammarFacts.parse_script_mono in E; [exact E|].
    apply TotalFacts.parse_script_total. unfold parse_fuel. lia. }
  assert (Hlx : LEX (S f) st info =
                let '(st1, rv) := if noeval info then (st, Ok v_empty)
                                  else eval_script exec st (cmd_script sc) in
                lex_value_of info st1 rv rest false).
  { rewrite expr_lex_S, He.
    match goal with |- context [skip_while is_whitespace (_ :: ?t)] => remember t as tl eqn:Etl end. lex_head.
    subst tl. unfold char in *. rewrite Hps. cbn [lift_p].
    destruct (if noeval info then (st, Ok v_empty) else eval_script exec st (cmd_script sc)) as [st1 rv].
    destruct rv as [v|e|p|]; reflexivity. }
  rewrite Hlx. split; intros Hn; rewrite Hn.
  - unfold lex_value_of. rewrite Hn. eexists; reflexivity.
  - cbn [lsem]. destruct (eval_script exec st (cmd_script sc)) as [st1 rv]. cbn [fst snd].
    rewrite (lift_res_value_of info st1 _ rest false Hn). reflexivity.
Qed.

(* ---- true false yes no on off ---- *)
Local Open Scope N_scope.
Definition ib_ok3 : Prop :=
  (forall c, opc c = true -> ib c = false) /\
  ib 116 = true /\ ib 114 = true /\ ib 117 = true /\ ib 101 = true /\ ib 102 = true /\ ib 97 = true /\
  ib 108 = true /\ ib 115 = true /\ ib 121 = true /\ ib 110 = true /\ ib 111 = true.
Local Open Scope Z_scope.

Lemma leaf_KBool w : ib_ok3 -> leaf_spec (KBool w).
Proof.
  intros (Hop & H116 & H114 & H117 & H101 & H102 & H97 & H108 & H115 & H121 & H110 & H111)
         rest Hof f st info He. cbn [ltext] in He.
  assert (Hlx : LEX (S f) st info = (st, Ok (DInt (bval w), with_tok_rest info T_VALUE rest))).
  { rewrite expr_lex_S, He.
    assert (Hr : match rest with [] => True | c :: _ => ib c = false /\ is_digit10 c = false end).
    { destruct rest as [|c r]; [exact I|]. cbn [op_follow] in Hof. split; [apply Hop, Hof|].
      unfold opc, is_digit10 in *. lia. }
    destruct w;
      match goal with |- context [bstr ?w] =>
        let v := eval vm_compute in (bstr w) in change (bstr w) with v end; cbn [app].
    all: cbv zeta;
      match goal with |- context [skip_while is_whitespace ?s] =>
        let v := eval vm_compute in (skip_while is_whitespace s) in
        change (skip_while is_whitespace s) with v end;
      cbv iota;
      match goal with |- context [lex_number ?i ?p ?c] =>
        let v := eval vm_compute in (lex_number i p c) in
        change (lex_number i p c) with v end;
      cbv iota; closed_N; cbv iota;
      match goal with |- context [lex_operator ?p] =>
        let v := eval vm_compute in (lex_operator p) in
        change (lex_operator p) with v end;
      cbv iota; rewrite ?H116, ?H102, ?H121, ?H110, ?H111; cbv beta iota zeta.
    all: destruct rest as [|c r]; [|destruct Hr as [Hc1 Hc2]].
    all: repeat progress (cbn [take_while skip_while orb];
                          rewrite ?H116, ?H114, ?H117, ?H101, ?H102, ?H97, ?H108, ?H115, ?H121, ?H110, ?H111,
                            ?Hc1, ?Hc2;
                          closed_digit; cbv beta iota).
    all: closed_str_eqb.
    all: cbn [orb]; cbv iota; reflexivity. }
  rewrite Hlx. split; intros Hn; [eexists; reflexivity|reflexivity].
Qed.

End Leaves.

Print Assumptions leaf_KVar.
Print Assumptions leaf_KCmd.
Print Assumptions leaf_KBool.

(* every leaf of a well-formed tree satisfies the leaf hypothesis *)
Fixpoint uses_bool3 (t : tree3) : bool :=
  match t with
  | X3 (KBool _) => true
  | P3 _ _ t | U3 _ _ t | Fn3 _ _ _ _ t => uses_bool3 t
  | B3 _ _ _ l r | A3 _ _ _ l r => uses_bool3 l || uses_bool3 r
  | Q3 _ _ _ _ c a b => uses_bool3 c || uses_bool3 a || uses_bool3 b
  | _ => false
  end.

Lemma leaves_spec ia ib exec original t : GrammarFacts.name_ok ia ->
  ok3 ia t = true -> (uses_bool3 t = true -> ib_ok3 ib) ->
  all_leaves (leaf_spec ia ib exec original) t.
Proof.
  intros Hia.
  induction t as [z|k|s1 s2 t IH|u s t IH|o s1 s2 l IHl r IHr|o s1 s2 l IHl r IHr
                 |s1 s2 s3 s4 c IHc a IHa b IHb|f s1 s2 s3 t IH|ip fp es ed];
    cbn [ok3 uses_bool3 all_leaves]; intros Hok Hb;
    repeat (apply andb_true_iff in Hok; let H' := fresh "Hk" in destruct Hok as [Hok H']); auto.
  - destruct k as [n|n|s|s|sc|w].
    + apply leaf_KVar; assumption.
    + apply leaf_KVarB; assumption.
    + apply leaf_KQuo; assumption.
    + apply leaf_KBrace; assumption.
    + apply leaf_KCmd; assumption.
    + apply leaf_KBool. apply Hb. reflexivity.
  - split; [apply IHl|apply IHr]; auto; intros Hu; apply Hb; rewrite Hu; auto using orb_true_r.
  - split; [apply IHl|apply IHr]; auto; intros Hu; apply Hb; rewrite Hu; auto using orb_true_r.
  - split; [apply IHc|split; [apply IHa|apply IHb]]; auto; intros Hu; apply Hb; rewrite Hu;
      rewrite ?orb_true_r; reflexivity.
Qed.

(* ====================================================================================== *)
(* 5. from the invariant to expr_eval                                                      *)
(* ====================================================================================== *)

Lemma ltext_length k : (1 <= length (ltext k))%nat.
Proof. destruct k as [n|n|s|s|sc|w]; cbn [ltext length]; try lia. destruct w; vm_compute; lia. Qed.

Lemma sz3_le_length t : (sz3 t <= length (render3 t))%nat.
Proof.
  induction t as [z|k|s1 s2 t IH|u s t IH|o s1 s2 l IHl r IHr|o s1 s2 l IHl r IHr
                 |s1 s2 s3 s4 c IHc a IHa b IHb|f s1 s2 s3 t IH|ip fp es ed]; cbn [sz3 render3].
  - pose proof (show_Z_nonempty z). destruct (show_Z z); [congruence|cbn [length]; lia].
  - apply ltext_length.
  - cbn [length]. rewrite !app_length. cbn [length]. lia.
  - rewrite !app_length, ustr_length. lia.
  - rewrite !app_length. pose proof (opstr_length o). lia.
  - rewrite !app_length, lstr_length. lia.
  - rewrite !app_length. cbn [length]. rewrite !app_length. cbn [length]. rewrite !app_length. lia.
  - rewrite !app_length. cbn [length]. rewrite !app_length. cbn [length]. pose proof (fstr_length f). lia.
  - unfold ftext. rewrite !app_length. cbn [length]. lia.
Qed.

(* what expr_eval does with the result of the top-level operand: a value is converted as in
   ExprFacts2 ([datum_value]); break / continue raised by a [script] operand become errors *)
Definition top_res (r : res datum) : res value :=
  match r with
  | Ok v => Ok (datum_value v)
  | Err ex =>
      match x_code ex with
      | CBreak => err (lit "invoked ""break"" outside of a loop")
      | CContinue => err (lit "invoked ""continue"" outside of a loop")
      | _ => Err ex
      end
  | Panic p => Panic p
  | Fuel => Fuel
  end.

(* THE MAIN THEOREM: value, error and state of a well-formed tree, with arbitrary spaces and
   tabs before and after *)
Theorem expr_eval_render3_ws : forall ia ib exec st t lead trail,
  GrammarFacts.name_ok ia -> ok3 ia t = true ->
  (uses_alpha3 t = true -> ib_ok2 ib) -> (uses_bool3 t = true -> ib_ok3 ib) ->
  ws lead = true -> ws trail = true ->
  expr_eval ia ib exec st (VStr (lead ++ render3 t ++ trail)) =
  (fst (ev3 exec t st), top_res (snd (ev3 exec t st))).
Proof.
  intros ia ib exec st t lead trail Hia Hok Hal Hbo Hlead Htrail. unfold expr_eval. cbn [as_str].
  set (s := lead ++ render3 t ++ trail).
  pose proof (parses3_all ia ib exec s t (leaves_spec ia ib exec s t Hia Hok Hbo) Hok Hal) as PP.
  assert (Hfu : (2 * sz3 t <= expr_fuel s)%nat).
  { unfold expr_fuel, s. rewrite !app_length. pose proof (sz3_le_length t). lia. }
  assert (Hfol : follows3 ia ib exec s trail T_END []).
  { rewrite <- (app_nil_r trail). apply follows3_intro.
    - apply op_follow_ws; [exact Htrail|exact I].
    - apply follows_ws; [exact Htrail|apply follows_end]. }
  pose proof (topl3_bounds t) as Htl.
  destruct (PP 0%N (-1) ltac:(lia) trail T_END [] Hfol (head_ok3_end t) (expr_fuel s) Hfu st
               {| e_rest := s; e_token := -1; e_noeval := 0 |} lead
               (ws_whitespace lead Hlead) eq_refl eq_refl) as (st1 & r & Hr & Eg).
  change ((st1, r) = ev3 exec t st) in Hr. rewrite <- Hr. cbn [fst snd]. rewrite Eg.
  destruct r as [v|e|p|]; cbn [lift_res top_res];
    [|destruct (x_code e); reflexivity|reflexivity|reflexivity].
  pose proof (nsp3_lt_sz3 t).
  destruct (expr_fuel s - 1 - nsp3 t)%nat as [|k] eqn:Ek; [lia|].
  rewrite loop_stops_at_end by (info_red; tauto).
  info_red. tok_tests. reflexivity.
Qed.
Print Assumptions expr_eval_render3_ws.

Corollary expr_eval_render3 : forall ia ib exec st t,
  GrammarFacts.name_ok ia -> ok3 ia t = true ->
  (uses_alpha3 t = true -> ib_ok2 ib) -> (uses_bool3 t = true -> ib_ok3 ib) ->
  expr_eval ia ib exec st (VStr (render3 t)) = (fst (ev3 exec t st), top_res (snd (ev3 exec t st))).
Proof.
  intros ia ib exec st t Hia Hok Hal Hbo.
  pose proof (expr_eval_render3_ws ia ib exec st t [] [] Hia Hok Hal Hbo eq_refl eq_refl) as H.
  cbn [app] in H. rewrite app_nil_r in H. exact H.
Qed.
Print Assumptions expr_eval_render3.

(* for the interpreter's own character predicates *)
Local Notation std_ia := (Model.Commands.u_alnum Model.Unicode.std_uni).
Local Notation std_ib := (Model.Commands.u_alpha Model.Unicode.std_uni).

Lemma std_ib_ok3 : ib_ok3 std_ib.
Proof.
  split; [|vm_compute; repeat split].
  intros c Hc. unfold opc in Hc.
  repeat (apply orb_true_iff in Hc; destruct Hc as [Hc|Hc]);
    apply N.eqb_eq in Hc; subst c; vm_compute; reflexivity.
Qed.

Definition ok3_std : tree3 -> bool := ok3 std_ia.

Theorem expr_eval_render3_std : forall exec st t lead trail,
  ok3_std t = true -> ws lead = true -> ws trail = true ->
  expr_eval std_ia std_ib exec st (VStr (lead ++ render3 t ++ trail)) =
  (fst (ev3 exec t st), top_res (snd (ev3 exec t st))).
Proof.
  intros exec st t lead trail Hok Hl Ht.
  apply expr_eval_render3_ws; [exact GrammarFacts.name_ok_std|exact Hok|intros _; exact std_ib_ok2
                              |intros _; exact std_ib_ok3|exact Hl|exact Ht].
Qed.
Print Assumptions expr_eval_render3_std.

(* ====================================================================================== *)
(* 6. the frame                                                                            *)
(* ====================================================================================== *)

Definition is_cmd (k : leaf) : bool := match k with KCmd _ => true | _ => false end.

Fixpoint no_cmd (t : tree3) : bool :=
  match t with
  | X3 k => negb (is_cmd k)
  | P3 _ _ t | U3 _ _ t | Fn3 _ _ _ _ t => no_cmd t
  | B3 _ _ _ l r | A3 _ _ _ l r => no_cmd l && no_cmd r
  | Q3 _ _ _ _ c a b => no_cmd c && no_cmd a && no_cmd b
  | _ => true
  end.

(* only a [script] leaf touches the state *)
Lemma lsem_frame exec k st : is_cmd k = false -> fst (lsem exec k st) = st.
Proof. destruct k; try discriminate; reflexivity. Qed.

Ltac ev_step IH st :=
  let H := fresh "H" in
  pose proof (IH st) as H;
  match goal with |- context [ev3 ?e ?t st] => destruct (ev3 e t st) as [? ?] end;
  cbn [fst] in H; try (specialize (H ltac:(assumption))); subst.

(* (frame) a tree without [script] leaves returns the state it was given *)
Theorem ev3_frame : forall exec t st, no_cmd t = true -> fst (ev3 exec t st) = st.
Proof.
  intros exec.
  induction t as [z|k|s1 s2 t IH|u s t IH|o s1 s2 l IHl r IHr|o s1 s2 l IHl r IHr
                 |s1 s2 s3 s4 c IHc a IHa b IHb|f s1 s2 s3 t IH|ip fp es ed];
    intros st Hn; cbn [no_cmd] in Hn; cbn [ev3];
    repeat (apply andb_true_iff in Hn; let H' := fresh "Hn" in destruct Hn as [Hn H']).
  - reflexivity.
  - apply lsem_frame. destruct (is_cmd k); [discriminate|reflexivity].
  - apply IH, Hn.
  - specialize (IH st Hn). destruct (ev3 exec t st) as [st1 r]. exact IH.
  - specialize (IHl st Hn). destruct (ev3 exec l st) as [st1 rl]. cbn [fst] in IHl. subst st1.
    destruct rl as [a|e|p|]; try reflexivity.
    specialize (IHr st Hn0). destruct (ev3 exec r st) as [st2 rr]. exact IHr.
  - specialize (IHl st Hn). destruct (ev3 exec l st) as [st1 rl]. cbn [fst] in IHl. subst st1.
    destruct (rb rl (truth3 (ltok o))) as [ta|e|p|]; try reflexivity.
    destruct (is_and o && negb ta); [reflexivity|]. destruct (negb (is_and o) && ta); [reflexivity|].
    specialize (IHr st Hn0). destruct (ev3 exec r st) as [st2 rr]. exact IHr.
  - specialize (IHc st Hn). destruct (ev3 exec c st) as [st1 rc]. cbn [fst] in IHc. subst st1.
    destruct (rb rc (truth3 T_QUESTY)) as [tc|e|p|]; try reflexivity.
    destruct tc; [apply IHa, Hn1|apply IHb, Hn0].
  - specialize (IH st Hn). destruct (ev3 exec t st) as [st1 r]. exact IH.
  - reflexivity.
Qed.
Print Assumptions ev3_frame.

(* ... and its value does not depend on the executor *)
Theorem ev3_no_cmd_exec : forall exec1 exec2 t st, no_cmd t = true -> ev3 exec1 t st = ev3 exec2 t st.
Proof.
  intros exec1 exec2.
  induction t as [z|k|s1 s2 t IH|u s t IH|o s1 s2 l IHl r IHr|o s1 s2 l IHl r IHr
                 |s1 s2 s3 s4 c IHc a IHa b IHb|f s1 s2 s3 t IH|ip fp es ed];
    intros st Hn; cbn [no_cmd] in Hn; cbn [ev3];
    repeat (apply andb_true_iff in Hn; let H' := fresh "Hn" in destruct Hn as [Hn H']).
  - reflexivity.
  - destruct k; try discriminate; reflexivity.
  - apply IH, Hn.
  - rewrite (IH st Hn). reflexivity.
  - rewrite (IHl st Hn). destruct (ev3 exec2 l st) as [st1 rl].
    destruct rl as [a|e|p|]; try reflexivity. rewrite (IHr st1 Hn0). reflexivity.
  - rewrite (IHl st Hn). destruct (ev3 exec2 l st) as [st1 rl].
    destruct (rb rl (truth3 (ltok o))) as [ta|e|p|]; try reflexivity.
    destruct (is_and o && negb ta); [reflexivity|]. destruct (negb (is_and o) && ta); [reflexivity|].
    rewrite (IHr st1 Hn0). reflexivity.
  - rewrite (IHc st Hn). destruct (ev3 exec2 c st) as [st1 rc].
    destruct (rb rc (truth3 T_QUESTY)) as [tc|e|p|]; try reflexivity.
    destruct tc; [apply IHa, Hn1|apply IHb, Hn0].
  - rewrite (IH st Hn). reflexivity.
  - reflexivity.
Qed.
Print Assumptions ev3_no_cmd_exec.

Corollary expr_eval_render3_frame : forall exec st t lead trail,
  ok3_std t = true -> no_cmd t = true -> ws lead = true -> ws trail = true ->
  expr_eval std_ia std_ib exec st (VStr (lead ++ render3 t ++ trail)) =
  (st, top_res (snd (ev3 exec t st))).
Proof.
  intros exec st t lead trail Hok Hn Hl Ht.
  rewrite (expr_eval_render3_std exec st t lead trail Hok Hl Ht), (ev3_frame exec t st Hn). reflexivity.
Qed.
Print Assumptions expr_eval_render3_frame.

(* the leaves that C's rules evaluate, in the order in which they are evaluated *)
Section Trace.
Variable exec : executor.
Local Notation ev3 := (ev3 exec).

Fixpoint run3 (t : tree3) (st : interp) : list leaf :=
  match t with
  | X3 k => [k]
  | P3 _ _ t | U3 _ _ t | Fn3 _ _ _ _ t => run3 t st
  | B3 _ _ _ l r =>
      run3 l st ++ match ev3 l st with (st1, Ok _) => run3 r st1 | _ => [] end
  | A3 o _ _ l r =>
      run3 l st ++
      match ev3 l st with
      | (st1, rl) =>
          match rb rl (truth3 (ltok o)) with
          | Ok ta => if (is_and o && negb ta) || (negb (is_and o) && ta) then [] else run3 r st1
          | _ => []
          end
      end
  | Q3 _ _ _ _ c a b =>
      run3 c st ++
      match ev3 c st with
      | (st1, rc) =>
          match rb rc (truth3 T_QUESTY) with
          | Ok tc => if tc then run3 a st1 else run3 b st1
          | _ => []
          end
      end
  | _ => []
  end.

(* the state effect of one evaluated leaf: a [script] leaf runs its script, any other leaf
   leaves the state alone ([lsem_frame]) *)
Definition leaf_step (st : interp) (k : leaf) : interp := fst (lsem exec k st).

(* (frame, general form) the final state is the initial state threaded through exactly the
   evaluated leaves, left to right — hence through exactly the scripts of the evaluated
   [script] leaves, and through no others *)
Theorem ev3_trace : forall t st, fst (ev3 t st) = fold_left leaf_step (run3 t st) st.
Proof.
  induction t as [z|k|s1 s2 t IH|u s t IH|o s1 s2 l IHl r IHr|o s1 s2 l IHl r IHr
                 |s1 s2 s3 s4 c IHc a IHa b IHb|f s1 s2 s3 t IH|ip fp es ed];
    intros st; cbn [run3 ExprFacts3.ev3 fold_left]; try reflexivity.
  - apply IH.
  - specialize (IH st). destruct (ev3 t st) as [st1 r]. exact IH.
  - rewrite fold_left_app, <- (IHl st). destruct (ev3 l st) as [st1 rl]. cbn [fst].
    destruct rl as [a|e|p|]; try reflexivity.
    specialize (IHr st1). destruct (ev3 r st1) as [st2 rr]. exact IHr.
  - rewrite fold_left_app, <- (IHl st). destruct (ev3 l st) as [st1 rl]. cbn [fst].
    destruct (rb rl (truth3 (ltok o))) as [ta|e|p|]; try reflexivity.
    destruct (is_and o && negb ta); [reflexivity|]. destruct (negb (is_and o) && ta); [reflexivity|].
    cbn [orb]. specialize (IHr st1). destruct (ev3 r st1) as [st2 rr]. exact IHr.
  - rewrite fold_left_app, <- (IHc st). destruct (ev3 c st) as [st1 rc]. cbn [fst].
    destruct (rb rc (truth3 T_QUESTY)) as [tc|e|p|]; try reflexivity.
    destruct tc; [apply IHa|apply IHb].
  - specialize (IH st). destruct (ev3 t st) as [st1 r]. exact IH.
Qed.

(* all leaves, left to right *)
Fixpoint leaves3 (t : tree3) : list leaf :=
  match t with
  | X3 k => [k]
  | P3 _ _ t | U3 _ _ t | Fn3 _ _ _ _ t => leaves3 t
  | B3 _ _ _ l r | A3 _ _ _ l r => leaves3 l ++ leaves3 r
  | Q3 _ _ _ _ c a b => leaves3 c ++ leaves3 a ++ leaves3 b
  | _ => []
  end.

(* [a] is [b] with some elements removed, order kept *)
Inductive subseq {A} : list A -> list A -> Prop :=
| sub_nil : subseq [] []
| sub_skip x a b : subseq a b -> subseq a (x :: b)
| sub_take x a b : subseq a b -> subseq (x :: a) (x :: b).

Lemma subseq_refl {A} (l : list A) : subseq l l.
Proof. induction l; constructor; assumption. Qed.

Lemma subseq_nil_l {A} (l : list A) : subseq [] l.
Proof. induction l; constructor; assumption. Qed.

Lemma subseq_app {A} (a b c d : list A) : subseq a b -> subseq c d -> subseq (a ++ c) (b ++ d).
Proof.
  intros H. induction H; intros Hc; cbn [app]; [exact Hc|apply sub_skip; auto|apply sub_take; auto].
Qed.

(* the evaluated leaves are leaves of the tree, in the tree's own order, each at most once *)
Theorem run3_subseq : forall t st, subseq (run3 t st) (leaves3 t).
Proof.
  induction t as [z|k|s1 s2 t IH|u s t IH|o s1 s2 l IHl r IHr|o s1 s2 l IHl r IHr
                 |s1 s2 s3 s4 c IHc a IHa b IHb|f s1 s2 s3 t IH|ip fp es ed];
    intros st; cbn [run3 leaves3]; try apply subseq_refl; try apply IH.
  - apply subseq_app; [apply IHl|]. destruct (ev3 l st) as [st1 rl].
    destruct rl; [apply IHr|apply subseq_nil_l..].
  - apply subseq_app; [apply IHl|]. destruct (ev3 l st) as [st1 rl].
    destruct (rb rl (truth3 (ltok o))) as [ta|e|p|]; try apply subseq_nil_l.
    destruct ((is_and o && negb ta) || (negb (is_and o) && ta)); [apply subseq_nil_l|apply IHr].
  - apply subseq_app; [apply IHc|]. destruct (ev3 c st) as [st1 rc].
    destruct (rb rc (truth3 T_QUESTY)) as [tc|e|p|]; try apply subseq_nil_l.
    destruct tc.
    + rewrite <- (app_nil_r (run3 a st1)). apply subseq_app; [apply IHa|apply subseq_nil_l].
    + change (run3 b st1) with ([] ++ run3 b st1). apply subseq_app; [apply subseq_nil_l|apply IHb].
Qed.

End Trace.
Print Assumptions ev3_trace.
Print Assumptions run3_subseq.

(* ====================================================================================== *)
(* 7. conversion of operand values; the trees of ExprFacts2 are trees of this file         *)
(* ====================================================================================== *)

(* (conversion) by definition of [lsem]: a variable's value and a script's result enter the
   arithmetic through [expr_parse_value], a quoted or braced string through
   [expr_parse_string]; an unknown variable is the model's own error *)
Theorem var_leaf_value : forall exec n st,
  ev3 exec (X3 (KVar n)) st = (st, rb (st_scalar st n) expr_parse_value) /\
  ev3 exec (X3 (KVarB n)) st = (st, rb (st_scalar st n) expr_parse_value).
Proof. intros. split; reflexivity. Qed.

Theorem string_leaf_value : forall exec s st,
  ev3 exec (X3 (KQuo s)) st = (st, expr_parse_string s) /\
  ev3 exec (X3 (KBrace s)) st = (st, expr_parse_string s).
Proof. intros. split; reflexivity. Qed.

Theorem cmd_leaf_value : forall exec sc st,
  ev3 exec (X3 (KCmd sc)) st =
  (fst (eval_script exec st (cmd_script sc)),
   rb (snd (eval_script exec st (cmd_script sc))) expr_parse_value).
Proof. intros. cbn [ev3 lsem]. destruct (eval_script exec st (cmd_script sc)); reflexivity. Qed.

Theorem unknown_var_message : forall exec n st,
  sc_lookup (i_scopes st) n = None ->
  ev3 exec (X3 (KVar n)) st = (st, err (lit "can't read """ ++ n ++ lit """: no such variable")).
Proof. intros exec n st H. cbn [ev3 lsem]. unfold st_scalar, sc_get. rewrite H. reflexivity. Qed.
Print Assumptions var_leaf_value.
Print Assumptions string_leaf_value.
Print Assumptions cmd_leaf_value.
Print Assumptions unknown_var_message.

(* how texts convert: an integer if it reads as one (leading zeros, surrounding blanks), else a
   floating-point number, else the string itself *)
Example conversion_examples :
  expr_parse_value (VStr (lit "012")) = Ok (DInt 12) /\
  expr_parse_value (VStr (lit " 5 ")) = Ok (DInt 5) /\
  expr_parse_value (VStr (lit "1e3")) = Ok (DFlt (f_of_Z 1000)) /\
  expr_parse_value (VStr (lit "0x1F")) = Ok (DInt 31) /\
  expr_parse_value (VStr (lit "abc")) = Ok (DStr (lit "abc")) /\
  expr_parse_value (VStr (lit "5 x")) = Ok (DStr (lit "5 x")) /\
  expr_parse_value (VInt 7) = Ok (DInt 7) /\
  expr_parse_string (lit "012") = Ok (DInt 12) /\
  expr_parse_string [] = Ok (DStr []).
Proof. vm_compute. repeat split. Qed.

(* ---- the embedding of tree2 ---- *)
Fixpoint inj2 (t : tree2) : tree3 :=
  match t with
  | L z => L3 z
  | P s1 s2 t => P3 s1 s2 (inj2 t)
  | U u s t => U3 u s (inj2 t)
  | B o s1 s2 l r => B3 o s1 s2 (inj2 l) (inj2 r)
  | A o s1 s2 l r => A3 o s1 s2 (inj2 l) (inj2 r)
  | Q s1 s2 s3 s4 c a b => Q3 s1 s2 s3 s4 (inj2 c) (inj2 a) (inj2 b)
  | Fn f s1 s2 s3 t => Fn3 f s1 s2 s3 (inj2 t)
  | F ip fp es ed => F3 ip fp es ed
  end.

Lemma inj2_render t : render3 (inj2 t) = render2 t.
Proof. induction t; cbn [inj2 render3 render2]; congruence. Qed.

Lemma inj2_top t : topl3 (inj2 t) = topl t /\ topr3 (inj2 t) = topr t.
Proof. destruct t; split; reflexivity. Qed.

Lemma inj2_ok ia t : ok3 ia (inj2 t) = ok t.
Proof.
  induction t as [z|s1 s2 t IH|u s t IH|o s1 s2 l IHl r IHr|o s1 s2 l IHl r IHr
                 |s1 s2 s3 s4 c IHc a IHa b IHb|f s1 s2 s3 t IH|ip fp es ed]; cbn [inj2 ok3 ok];
    rewrite ?IH, ?IHl, ?IHr, ?IHc, ?IHa, ?IHb;
    rewrite ?(proj1 (inj2_top _)), ?(proj2 (inj2_top _)); reflexivity.
Qed.

Lemma truth3_numeric op v : is_string v = false -> truth3 op v = truth v.
Proof. destruct v; [reflexivity|reflexivity|discriminate]. Qed.

(* on the trees of ExprFacts2 the reference evaluator is ExprFacts2's [evm], state untouched *)
Lemma inj2_ev3 exec t st : ev3 exec (inj2 t) st = (st, evm t).
Proof.
  revert st.
  induction t as [z|s1 s2 t IH|u s t IH|o s1 s2 l IHl r IHr|o s1 s2 l IHl r IHr
                 |s1 s2 s3 s4 c IHc a IHa b IHb|f s1 s2 s3 t IH|ip fp es ed]; intros st; cbn [inj2 ev3 evm].
  - reflexivity.
  - apply IH.
  - rewrite IH. destruct (evm t); reflexivity.
  - rewrite IHl. destruct (evm l); try reflexivity. rewrite IHr. destruct (evm r); reflexivity.
  - rewrite IHl. pose proof (evm_numeric l) as Hl. destruct (evm l) as [va|e|p|]; try reflexivity.
    cbn [rb numeric] in *. rewrite (truth3_numeric _ va Hl).
    destruct (truth va) as [ta|e|p|]; try reflexivity.
    destruct (is_and o && negb ta); [reflexivity|]. destruct (negb (is_and o) && ta); [reflexivity|].
    rewrite IHr. pose proof (evm_numeric r) as Hr. destruct (evm r) as [vb|e|p|]; try reflexivity.
    cbn [rb numeric] in *. rewrite (truth3_numeric _ vb Hr). destruct (truth vb); reflexivity.
  - rewrite IHc. pose proof (evm_numeric c) as Hc. destruct (evm c) as [vc|e|p|]; try reflexivity.
    cbn [rb numeric] in *. rewrite (truth3_numeric _ vc Hc).
    destruct (truth vc) as [tc|e|p|]; try reflexivity. destruct tc; [apply IHa|apply IHb].
  - rewrite IH. destruct (evm t) as [v|e|p|]; try reflexivity.
  - reflexivity.
Qed.

Lemma inj2_no_cmd t : no_cmd (inj2 t) = true.
Proof. induction t; cbn [inj2 no_cmd]; rewrite ?IHt, ?IHt1, ?IHt2, ?IHt3; reflexivity. Qed.

Lemma inj2_uses t : uses_alpha3 (inj2 t) = uses_alpha2 t /\ uses_bool3 (inj2 t) = false.
Proof.
  induction t; cbn [inj2 uses_alpha3 uses_alpha2 uses_bool3]; try (split; reflexivity);
    repeat match goal with H : _ /\ _ |- _ => let E1 := fresh "E" in let E2 := fresh "E" in
             destruct H as [E1 E2]; rewrite ?E1, ?E2 end; split; reflexivity.
Qed.

(* ExprFacts2's theorem [expr_eval_render2_ws] is the special case of the main theorem *)
Theorem expr_eval_tree2_again : forall ia ib exec st t lead trail,
  GrammarFacts.name_ok ia -> ok t = true -> (uses_alpha2 t = true -> ib_ok2 ib) ->
  ws lead = true -> ws trail = true ->
  expr_eval ia ib exec st (VStr (lead ++ render2 t ++ trail)) = (st, res_value (evm t)).
Proof.
  intros ia ib exec st t lead trail Hia Hok Hal Hl Ht.
  rewrite <- inj2_render.
  rewrite (expr_eval_render3_ws ia ib exec st (inj2 t) lead trail Hia); try assumption.
  - rewrite inj2_ev3. cbn [fst snd]. f_equal.
    destruct (evm t) as [v|e|p|] eqn:Ev; try reflexivity.
    destruct (evm_err_plain t e Ev) as [m ->]. reflexivity.
  - rewrite inj2_ok. exact Hok.
  - rewrite (proj1 (inj2_uses t)). exact Hal.
  - rewrite (proj2 (inj2_uses t)). discriminate.
Qed.
Print Assumptions expr_eval_tree2_again.

(* ---- without [script] leaves every error is a plain Tcl error, so [top_res] is ExprFacts2's
   [res_value] ---- *)
Ltac plain_cases H :=
  repeat match type of H with
         | context [if ?c then _ else _] => destruct c
         | context [match ?c with _ => _ end] => destruct c
         end; try discriminate; injection H as <-; eexists; reflexivity.

Lemma expr_parse_string_err_plain s e : expr_parse_string s = Err e -> exists m, e = molt_err m.
Proof. unfold expr_parse_string, err. intros H. plain_cases H. Qed.

Lemma expr_parse_value_err_plain v e : expr_parse_value v = Err e -> exists m, e = molt_err m.
Proof.
  unfold expr_parse_value. destruct (already_number v) as [[z|x]|]; try discriminate.
  apply expr_parse_string_err_plain.
Qed.

Lemma st_scalar_err_plain st n e : st_scalar st n = Err e -> exists m, e = molt_err m.
Proof. unfold st_scalar, sc_get, err. intros H. plain_cases H. Qed.

Lemma truth3_err_plain op v e : truth3 op v = Err e -> exists m, e = molt_err m.
Proof. destruct v; cbn [truth3]; unfold illegal_type, err; intros H; plain_cases H. Qed.

Lemma fn_apply_err_plain f v e : fn_apply f v = Err e -> exists m, e = molt_err m.
Proof.
  destruct v; cbn [fn_apply]; try apply call_func_err_plain.
  unfold err. intros H. injection H as <-. eexists; reflexivity.
Qed.

Definition plain_res {A} (r : res A) : Prop :=
  match r with Err e => exists m, e = molt_err m | _ => True end.

Lemma rb_plain {A B} (r : res A) (k : A -> res B) :
  (forall e, r = Err e -> exists m, e = molt_err m) ->
  (forall a e, k a = Err e -> exists m, e = molt_err m) -> plain_res (rb r k).
Proof.
  intros H1 H2. destruct r as [a|e|p|]; cbn [rb plain_res]; try exact I.
  - destruct (k a) eqn:E; try exact I. eapply H2; exact E.
  - apply H1. reflexivity.
Qed.

Lemma plain_res_inv {A} (r : res A) : plain_res r -> forall e, r = Err e -> exists m, e = molt_err m.
Proof. intros H e ->. exact H. Qed.

Theorem ev3_err_plain : forall exec t st, no_cmd t = true -> plain_res (snd (ev3 exec t st)).
Proof.
  intros exec.
  induction t as [z|k|s1 s2 t IH|u s t IH|o s1 s2 l IHl r IHr|o s1 s2 l IHl r IHr
                 |s1 s2 s3 s4 c IHc a IHa b IHb|f s1 s2 s3 t IH|ip fp es ed];
    intros st Hn; cbn [no_cmd] in Hn; cbn [ev3];
    repeat (apply andb_true_iff in Hn; let H' := fresh "Hn" in destruct Hn as [Hn H']).
  - exact I.
  - destruct k as [n|n|s|s|sc|w]; try discriminate; cbn [lsem snd].
    + apply rb_plain; [apply st_scalar_err_plain|apply expr_parse_value_err_plain].
    + apply rb_plain; [apply st_scalar_err_plain|apply expr_parse_value_err_plain].
    + destruct (expr_parse_string s) eqn:E; try exact I. eapply expr_parse_string_err_plain; exact E.
    + destruct (expr_parse_string s) eqn:E; try exact I. eapply expr_parse_string_err_plain; exact E.
    + exact I.
  - apply IH, Hn.
  - specialize (IH st Hn). destruct (ev3 exec t st) as [st1 r]. cbn [snd] in *.
    apply rb_plain; [apply plain_res_inv, IH|intros a e; apply unary_apply_err_plain].
  - specialize (IHl st Hn). destruct (ev3 exec l st) as [st1 rl]. cbn [snd] in *.
    destruct rl as [a|e|p|]; try exact I; [|exact IHl].
    specialize (IHr st1 Hn0). destruct (ev3 exec r st1) as [st2 rr]. cbn [snd] in *.
    apply rb_plain; [apply plain_res_inv, IHr|intros b e; apply apply_binop_err_plain].
  - specialize (IHl st Hn). destruct (ev3 exec l st) as [st1 rl]. cbn [snd] in *.
    pose proof (rb_plain rl (truth3 (ltok o)) (plain_res_inv _ IHl) (truth3_err_plain _)) as Hl.
    destruct (rb rl (truth3 (ltok o))) as [ta|e|p|]; try exact I; [|exact Hl].
    destruct (is_and o && negb ta); [exact I|]. destruct (negb (is_and o) && ta); [exact I|].
    specialize (IHr st1 Hn0). destruct (ev3 exec r st1) as [st2 rr]. cbn [snd] in *.
    pose proof (rb_plain rr (truth3 (ltok o)) (plain_res_inv _ IHr) (truth3_err_plain _)) as Hr.
    destruct (rb rr (truth3 (ltok o))) as [tb|e|p|]; try exact I. exact Hr.
  - specialize (IHc st Hn). destruct (ev3 exec c st) as [st1 rc]. cbn [snd] in *.
    pose proof (rb_plain rc (truth3 T_QUESTY) (plain_res_inv _ IHc) (truth3_err_plain _)) as Hc.
    destruct (rb rc (truth3 T_QUESTY)) as [tc|e|p|]; try exact I; [|exact Hc].
    destruct tc; [apply IHa, Hn1|apply IHb, Hn0].
  - specialize (IH st Hn). destruct (ev3 exec t st) as [st1 r]. cbn [snd] in *.
    apply rb_plain; [apply plain_res_inv, IH|apply fn_apply_err_plain].
  - cbn [snd]. unfold float_lit. destruct (get_float (ftext ip fp es ed)); [exact I|eexists; reflexivity].
Qed.
Print Assumptions ev3_err_plain.

Lemma top_res_plain (r : res datum) : plain_res r -> top_res r = res_value r.
Proof. destruct r as [v|e|p|]; try reflexivity. intros [m ->]. reflexivity. Qed.

(* the statement in the shape of ExprFacts2's: no [script] leaf, state unchanged, the value
   converted with [res_value] *)
Theorem expr_eval_render3_pure : forall exec st t lead trail,
  ok3_std t = true -> no_cmd t = true -> ws lead = true -> ws trail = true ->
  expr_eval (Model.Commands.u_alnum Model.Unicode.std_uni) (Model.Commands.u_alpha Model.Unicode.std_uni)
            exec st (VStr (lead ++ render3 t ++ trail)) =
  (st, res_value (snd (ev3 exec t st))).
Proof.
  intros exec st t lead trail Hok Hn Hl Ht.
  rewrite (expr_eval_render3_frame exec st t lead trail Hok Hn Hl Ht).
  rewrite (top_res_plain _ (ev3_err_plain exec t st Hn)). reflexivity.
Qed.
Print Assumptions expr_eval_render3_pure.

(* ====================================================================================== *)
(* 8. examples on concrete states                                                          *)
(* ====================================================================================== *)

Module Examples3.
Import Model.Commands Model.Unicode Model.Interp Check.ScriptObs.
Import SpecGrammar.

Definition std_exec : executor := run_exec std_uni model_fuel.
Definition std_eval3 (st : interp) (s : str) : interp * res value :=
  expr_eval (u_alnum std_uni) (u_alpha std_uni) std_exec st (VStr s).

(* the state after a few assignments, as the checker builds it *)
Definition st0 : interp :=
  Eval vm_compute in
    fst (eval std_uni model_fuel (harness_interp 0)
           (lit "set a 5; set s abc; set f 1e3; set o 012; set p { 5 }")).

Definition var (s : string) : tree3 := X3 (KVar (lit s)).
Definition bw (s : string) : wordc := CBare [SLit (lit s)].
(* the command  set a 9  as a tree of Spec/SpecGrammar.v *)
Definition set_a_9 : list item :=
  [ICmd [] [([], bw "set"); ([c_space], bw "a"); ([c_space], bw "9")] [] []].

Definition e1 : tree3 := B3 OAdd sp1 sp1 (var "a") (L3 1).                          (* $a + 1 *)
Definition e2 : tree3 := A3 LAnd sp1 sp1 (L3 0) (var "nosuch").                     (* 0 && $nosuch *)
Definition e3 : tree3 := A3 LOr sp1 sp1 (L3 1) (X3 (KCmd set_a_9)).                 (* 1 || [set a 9] *)
Definition e4 : tree3 := A3 LOr sp1 sp1 (L3 0) (X3 (KCmd set_a_9)).                 (* 0 || [set a 9] *)
Definition e5 : tree3 :=                                                            (* $o + $p * ${f} *)
  B3 OAdd sp1 sp1 (var "o") (B3 OMul sp1 sp1 (var "p") (X3 (KVarB (lit "f")))).
Definition e6 : tree3 :=                                                            (* "abc" eq $s ? {1e3} : yes *)
  Q3 sp1 sp1 sp1 sp1 (B3 OSeq sp1 sp1 (X3 (KQuo (lit "abc"))) (var "s"))
     (X3 (KBrace (lit "1e3"))) (X3 (KBool BYes)).
Definition e7 : tree3 :=                                                            (* [set a 9] + $a *)
  B3 OAdd sp1 sp1 (X3 (KCmd set_a_9)) (var "a").
Definition e8 : tree3 :=                                                            (* 1 ? $a : [set a 9] *)
  Q3 sp1 sp1 sp1 sp1 (L3 1) (var "a") (X3 (KCmd set_a_9)).
Definition e9 : tree3 := B3 OAdd sp1 sp1 (var "s") (L3 1).                          (* $s + 1 *)

Example renderings3 :
  render3 e1 = lit "$a + 1" /\ render3 e2 = lit "0 && $nosuch" /\
  render3 e3 = lit "1 || [set a 9]" /\ render3 e4 = lit "0 || [set a 9]" /\
  render3 e5 = lit "$o + $p * ${f}" /\ render3 e6 = lit """abc"" eq $s ? {1e3} : yes" /\
  render3 e7 = lit "[set a 9] + $a" /\ render3 e8 = lit "1 ? $a : [set a 9]" /\
  render3 e9 = lit "$s + 1" /\
  forallb ok3_std [e1; e2; e3; e4; e5; e6; e7; e8; e9] = true.
Proof. vm_compute. repeat split. Qed.

(* the theorem applied (no computation of the interpreter's expression evaluator), then the
   reference evaluator computed *)
Ltac by_theorem t :=
  refine (eq_trans (expr_eval_render3_std _ _ t [] [] eq_refl eq_refl eq_refl) _);
  vm_compute; reflexivity.

Ltac use_theorem t :=
  match goal with |- context [expr_eval _ _ _ _ (VStr ?s)] => change s with ([] ++ render3 t ++ []) end;
  rewrite (expr_eval_render3_std _ _ t [] [] eq_refl eq_refl eq_refl).

Example e1_by_theorem : std_eval3 st0 (lit "$a + 1") = (st0, Ok (VInt 6)).
Proof. unfold std_eval3. by_theorem e1. Qed.

(* a skipped unknown variable is not read: no error *)
Example e2_by_theorem :
  std_eval3 st0 (lit "0 && $nosuch") = (st0, Ok (VInt 0)) /\
  std_eval3 st0 (lit "$nosuch") = (st0, err (lit "can't read ""nosuch"": no such variable")) /\
  run3 std_exec e2 st0 = [].
Proof.
  unfold std_eval3. split; [by_theorem e2|split; [by_theorem (var "nosuch")|reflexivity]].
Qed.

(* a skipped [script] is not run: the state is the one given, a is still 5 ... *)
Example e3_by_theorem :
  std_eval3 st0 (lit "1 || [set a 9]") = (st0, Ok (VInt 1)) /\ run3 std_exec e3 st0 = [].
Proof. unfold std_eval3. split; [by_theorem e3|reflexivity]. Qed.

(* ... and an evaluated one is: the state is the one after the script, a is 9 *)
Example e4_by_theorem :
  snd (std_eval3 st0 (lit "0 || [set a 9]")) = Ok (VInt 1) /\
  fst (std_eval3 st0 (lit "0 || [set a 9]")) = fst (eval_script std_exec st0 (cmd_script set_a_9)) /\
  st_scalar (fst (std_eval3 st0 (lit "0 || [set a 9]"))) (lit "a") = Ok (VStr (lit "9")) /\
  run3 std_exec e4 st0 = [KCmd set_a_9].
Proof.
  unfold std_eval3.
  use_theorem e4.
  vm_compute. repeat split.
Qed.

(* conversions: o = "012" is 12, p = " 5 " is 5, f = "1e3" is 1000.0 *)
Example e5_by_theorem : std_eval3 st0 (lit "$o + $p * ${f}") = (st0, Ok (VFlt (f_of_Z 5012))).
Proof. unfold std_eval3. by_theorem e5. Qed.

Example e6_by_theorem :
  std_eval3 st0 (lit """abc"" eq $s ? {1e3} : yes") = (st0, Ok (VFlt (f_of_Z 1000))).
Proof. unfold std_eval3. by_theorem e6. Qed.

(* left to right: the script runs first, then $a reads the new value *)
Example e7_by_theorem :
  snd (std_eval3 st0 (lit "[set a 9] + $a")) = Ok (VInt 18) /\
  run3 std_exec e7 st0 = [KCmd set_a_9; KVar (lit "a")].
Proof.
  unfold std_eval3.
  use_theorem e7.
  vm_compute. repeat split.
Qed.

Example e8_by_theorem :
  std_eval3 st0 (lit "1 ? $a : [set a 9]") = (st0, Ok (VInt 5)) /\
  run3 std_exec e8 st0 = [KVar (lit "a")].
Proof. unfold std_eval3. split; [by_theorem e8|reflexivity]. Qed.

(* a string where a number is needed: the model's message *)
Example e9_by_theorem :
  std_eval3 st0 (lit "$s + 1") = (st0, err (lit "can't use non-numeric string as operand of ""+""")).
Proof. unfold std_eval3. by_theorem e9. Qed.

(* the same results by running the model's evaluator itself *)
Example by_computation :
  std_eval3 st0 (lit "$a + 1") = (st0, Ok (VInt 6)) /\
  std_eval3 st0 (lit "0 && $nosuch") = (st0, Ok (VInt 0)) /\
  std_eval3 st0 (lit "1 || [set a 9]") = (st0, Ok (VInt 1)) /\
  snd (std_eval3 st0 (lit "0 || [set a 9]")) = Ok (VInt 1) /\
  snd (std_eval3 st0 (lit "[set a 9] + $a")) = Ok (VInt 18) /\
  std_eval3 st0 (lit "1 ? $a : [set a 9]") = (st0, Ok (VInt 5)).
Proof. vm_compute. repeat split. Qed.

End Examples3.
