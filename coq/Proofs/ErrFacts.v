(* ErrFacts.v — C14: the channels on which an error is reported agree. *)
From Molt Require Import Model.Base Model.ListSyn Model.Float Model.Value Model.State Model.Script
  Model.Parser Model.Eval Model.Expr Model.Commands Model.Unicode Model.Interp.
From Molt Require Import Proofs.BaseFacts.
From Coq Require Import Lia.
Local Open Scope N_scope.

(* ---------- the trace begins with the message, and frames only append ---------- *)
Definition trace_head (e : exn) : option str :=
  match x_data e with Some d => hd_error (ed_trace d) | None => None end.

Lemma new_error_trace msg : trace_head (molt_err_v msg) = Some (as_str msg) /\ is_new_error (molt_err_v msg) = true.
Proof. split; reflexivity. Qed.

Lemma throw_trace code msg :
  trace_head (molt_err2 code msg) = Some (as_str msg)
  /\ (exists d, x_data (molt_err2 code msg) = Some d /\ ed_code d = code).
Proof. split; [reflexivity|]. eexists. split; reflexivity. Qed.

Lemma add_error_info_head e line h : trace_head e = Some h -> trace_head (add_error_info e line) = Some h.
Proof.
  unfold trace_head, add_error_info. cbn [x_data]. destruct (x_data e) as [d|]; [|discriminate].
  cbn [ed_add_info ed_trace]. destruct (ed_trace d) as [|x t]; [discriminate|]. cbn. intros H. exact H.
Qed.

Lemma add_error_info_value e line : x_value (add_error_info e line) = x_value e /\ x_code (add_error_info e line) = x_code e.
Proof. split; reflexivity. Qed.

Lemma add_error_info_code e line d :
  x_data e = Some d -> exists d', x_data (add_error_info e line) = Some d' /\ ed_code d' = ed_code d
                                  /\ ed_trace d' = ed_trace d ++ [line] /\ ed_new d' = false.
Proof. intros H. unfold add_error_info. cbn [x_data]. rewrite H. eexists. repeat split. Qed.

(* what eval_script does with a failing command: a new error gets the failing command, an error
   coming out of a procedure gets the procedure's entry, anything else passes unchanged; in all
   cases message, code and the head of the trace are kept *)
Lemma command_outcome_keeps st cmd name argv e :
  x_code e = CError ->
  exists e', command_outcome st cmd name argv e = (st, Err e')
    /\ x_value e' = x_value e /\ x_code e' = CError
    /\ (forall h, trace_head e = Some h -> trace_head e' = Some h)
    /\ (forall d, x_data e = Some d -> exists d', x_data e' = Some d' /\ ed_code d' = ed_code d
                                                  /\ exists more, ed_trace d' = ed_trace d ++ more).
Proof.
  intros Hc. unfold command_outcome. rewrite Hc.
  destruct (is_new_error e) eqn:En.
  - eexists. split; [reflexivity|]. split; [reflexivity|]. split; [exact Hc|]. split.
    + intros h Hh. do 2 apply add_error_info_head. exact Hh.
    + intros d Hd. destruct (add_error_info_code e (lit "    while executing") d Hd) as (d1 & H1 & C1 & T1 & _).
      destruct (add_error_info_code _ (lit """" ++ list_to_string (map as_str argv) ++ lit """") d1 H1) as (d2 & H2 & C2 & T2 & _).
      exists d2. split; [exact H2|]. split; [congruence|]. eexists. rewrite T2, T1, <- app_assoc. reflexivity.
  - destruct (is_proc cmd).
    + eexists. split; [reflexivity|]. split; [reflexivity|]. split; [exact Hc|]. split.
      * intros h Hh. do 3 apply add_error_info_head. exact Hh.
      * intros d Hd.
        destruct (add_error_info_code e (lit "    invoked from within") d Hd) as (d1 & H1 & C1 & T1 & _).
        destruct (add_error_info_code _ (lit "    (procedure """ ++ name ++ lit """ line TODO)") d1 H1) as (d2 & H2 & C2 & T2 & _).
        destruct (add_error_info_code _ (lit """" ++ list_to_string (map as_str argv) ++ lit """") d2 H2) as (d3 & H3 & C3 & T3 & _).
        exists d3. split; [exact H3|]. split; [congruence|]. eexists. rewrite T3, T2, T1, <- !app_assoc. reflexivity.
    + exists e. split; [reflexivity|]. split; [reflexivity|]. split; [exact Hc|]. split.
      * intros h Hh. exact Hh.
      * intros d Hd. exists d. split; [exact Hd|]. split; [reflexivity|]. exists []. rewrite app_nil_r. reflexivity.
Qed.

(* an error passing out of a procedure call names the procedure *)
Lemma command_outcome_names_proc st parms body name argv e d :
  x_code e = CError -> x_data e = Some d -> ed_new d = false ->
  exists e' d', command_outcome st (CmdProc parms body) name argv e = (st, Err e')
    /\ x_data e' = Some d'
    /\ ed_trace d' = ed_trace d ++ [lit "    invoked from within";
                                    lit "    (procedure """ ++ name ++ lit """ line TODO)";
                                    lit """" ++ list_to_string (map as_str argv) ++ lit """"].
Proof.
  intros Hc Hd Hn. unfold command_outcome. rewrite Hc.
  assert (En : is_new_error e = false) by (unfold is_new_error; rewrite Hd; exact Hn).
  rewrite En. cbn [is_proc].
  eexists. eexists. split; [reflexivity|]. unfold add_error_info. cbn [x_data]. rewrite Hd. cbn [ed_add_info x_data].
  split; [reflexivity|]. unfold ed_add_info. cbn [ed_trace]. rewrite <- !app_assoc. reflexivity.
Qed.

(* ---------- globals errorInfo / errorCode ---------- *)
Definition global_is_array (st : interp) (n : string) : Prop :=
  exists m, assoc_get (lit n) (sc_get_scope (i_scopes st) O) = Some (VarArray m).
Definition global_is_upvar (st : interp) (n : string) : Prop :=
  exists l, assoc_get (lit n) (sc_get_scope (i_scopes st) O) = Some (VarUpvar l).

Definition global_scalar (st : interp) (n : string) : option value :=
  match assoc_get (lit n) (sc_get_scope (i_scopes st) O) with
  | Some (VarScalar v) => Some v
  | _ => None
  end.

Lemma assoc_get_set_same {A} k (a : A) m : assoc_get k (assoc_set k a m) = Some a.
Proof.
  induction m as [|[k' a'] r IH]; cbn.
  - rewrite str_eqb_refl. reflexivity.
  - destruct (str_eqb k' k) eqn:E; cbn; rewrite ?E; [reflexivity|exact IH].
Qed.

Lemma assoc_get_set_other {A} k k' (a : A) m : str_eqb k' k = false -> str_eqb k k' = false ->
  assoc_get k' (assoc_set k a m) = assoc_get k' m.
Proof.
  intros H H'. induction m as [|[k2 a2] r IH]; cbn.
  - rewrite H'. reflexivity.
  - destruct (str_eqb k2 k) eqn:E; cbn.
    + apply str_eqb_eq in E. subst k2. rewrite H'. reflexivity.
    + destruct (str_eqb k2 k'); [reflexivity|exact IH].
Qed.

(* after a failing evaluation whose error record could be stored, the globals hold exactly the
   exception's error code and trace *)
Lemma set_global_error_data_spec st e d st' :
  i_scopes st <> [] ->
  x_data e = Some d ->
  set_global_error_data st e = (st', Ok tt) ->
  global_scalar st' "errorInfo" = Some (VStr (ed_info d)) /\ global_scalar st' "errorCode" = Some (ed_code d).
Proof.
  intros Hne Hd. unfold set_global_error_data. rewrite Hd.
  unfold sc_set_global, sc_set_at.
  destruct (i_scopes st) as [|g rest] eqn:Es; [congruence|].
  cbn [sc_get_scope nth].
  destruct (assoc_get (lit "errorInfo") g) as [[v|m|l|]|] eqn:E1; try (intros H; discriminate H).
  all: cbn [sc_put update_nth sc_get_scope nth].
  all: rewrite (assoc_get_set_other (lit "errorInfo") (lit "errorCode")) by reflexivity.
  all: destruct (assoc_get (lit "errorCode") g) as [[v2|m2|l2|]|] eqn:E2; try (intros H; discriminate H).
  all: intros H; inversion H; subst st'; clear H.
  all: unfold global_scalar; cbn [set_scopes i_scopes sc_get_scope nth sc_put update_nth].
  all: split; [rewrite (assoc_get_set_other (lit "errorCode") (lit "errorInfo")) by reflexivity;
               rewrite assoc_get_set_same; reflexivity
              | rewrite assoc_get_set_same; reflexivity].
Qed.

Section WithU.
Variable U : uni.
Variable exec : executor.

(* eval_value: an error result is recorded in the globals before it is returned ... *)
Lemma eval_value_records_error st v st' e d :
  eval_value_with U exec st v = (st', Err e) ->
  x_code e = CError -> x_data e = Some d ->
  (* ... unless recording itself failed (errorInfo / errorCode is an array: known finding) or the
     evaluation never started (nesting limit, syntax error: the record is left as it was) *)
  (exists stm, set_global_error_data stm e = (st', Ok tt))
  \/ (exists stm e0, set_global_error_data stm e0 = (st', Err e))
  \/ st' = st.
Proof.
  unfold eval_value_with. intros H Hc Hd.
  destruct (i_limit (set_levels st (i_levels st + 1)) <? i_levels (set_levels st (i_levels st + 1))).
  { inversion H. right. right. destruct st; unfold set_levels; cbn. f_equal. lia. }
  destruct (parse (u_alnum U) (as_str v)) as [sc rest|m|].
  - destruct (eval_script exec (set_levels st (i_levels st + 1)) sc) as [st2 r] eqn:Er.
    set (st3 := set_levels st2 (i_levels st2 - 1)) in *.
    set (r' := if i_levels st3 =? 0 then toplevel_boundary r else r) in *.
    destruct r' as [a|e1|p|] eqn:Er'; try (inversion H; fail).
    destruct (rcode_eqb (x_code e1) CError) eqn:Ee.
    + unfold bind in H.
      destruct (set_global_error_data st3 e1) as [st4 [u|e2|p2|]] eqn:Es; inversion H; subst.
      * left. exists st3. destruct u. exact Es.
      * right. left. exists st3, e1. exact Es.
    + inversion H; subst. destruct (x_code e); try discriminate.
  - inversion H. right. right. destruct st; unfold set_levels; cbn. f_equal. lia.
  - inversion H.
Qed.

(* an evaluation whose own outcome is not an error does not write the record at this level:
   the state is the one the script left, with the level released *)
Lemma eval_value_quiet st v sc rest st2 r :
  negb (i_limit (set_levels st (i_levels st + 1)) <? i_levels (set_levels st (i_levels st + 1))) = true ->
  parse (u_alnum U) (as_str v) = POk sc rest ->
  eval_script exec (set_levels st (i_levels st + 1)) sc = (st2, r) ->
  let st3 := set_levels st2 (i_levels st2 - 1) in
  let r' := if i_levels st3 =? 0 then toplevel_boundary r else r in
  (forall e, r' = Err e -> x_code e <> CError) ->
  eval_value_with U exec st v = (st3, r').
Proof.
  intros Hl Hp Hs st3 r' Hq. unfold eval_value_with.
  apply negb_true_iff in Hl. rewrite Hl, Hp, Hs. fold st3. fold r'.
  destruct r' as [a|e|p|] eqn:E; try reflexivity.
  specialize (Hq e eq_refl).
  destruct (x_code e); try reflexivity. congruence.
Qed.

End WithU.

(* the -errorinfo option given to `return -code error` is kept as the start of the trace, and
   the -errorcode as the code (re-raising an error with its options) *)
Lemma rethrow_keeps msg level code info :
  let e := molt_return_err msg level (Some code) (Some info) in
  x_value e = msg /\ (exists d, x_data e = Some d /\ ed_code d = code /\ ed_trace d = [as_str info] /\ ed_new d = false).
Proof. cbn. split; [reflexivity|]. eexists. repeat split. Qed.

(* without -errorcode the code is NONE; an `error` has code NONE *)
Lemma default_code_none msg : exists d, x_data (molt_err_v msg) = Some d /\ ed_code d = v_NONE.
Proof. eexists. split; reflexivity. Qed.
