(* ListSynFacts.v — C05: get_list (list_to_string l) = l, for every list of strings. *)
From Molt Require Import Model.Base Model.Tokenizer Model.ListSyn Proofs.BaseFacts.
From Coq Require Import Lia ZifyBool ZifyN.

Arguments N.eqb : simpl never.
Arguments N.leb : simpl never.
Arguments N.ltb : simpl never.

Local Open Scope N_scope.

(* ---------- character facts ---------- *)

Ltac unfold_chars :=
  unfold is_list_white, is_whitespace, is_escape_special, is_quote_special, is_digit8, is_digit10,
    is_digit16, c_tab, c_nl, c_vt, c_ff, c_cr, c_space, c_dquote, c_hash, c_dollar, c_semi,
    c_lbracket, c_bslash, c_rbracket, c_lbrace, c_rbrace in *.

Lemma list_white_is_white c : is_list_white c = true -> is_whitespace c = true.
Proof. unfold_chars. lia. Qed.

(* a backslash before a blank or a quoting-significant character stands for that character *)
Lemma bsubst_self c r :
  is_whitespace c || is_escape_special c = true -> bsubst (c :: r) = (c, r).
Proof.
  intros H. unfold bsubst.
  assert (c <> 97 /\ c <> 98 /\ c <> 102 /\ c <> 110 /\ c <> 114 /\ c <> 116 /\ c <> 118
          /\ c <> 120 /\ c <> 117 /\ c <> 85 /\ is_digit8 c = false) as Hc.
  { revert H. unfold_chars. lia. }
  destruct Hc as (H1 & H2 & H3 & H4 & H5 & H6 & H7 & H8 & H9 & H10 & H11).
  repeat match goal with
         | |- context [?a =? ?b] => destruct (N.eqb_spec a b); [congruence|]
         end.
  rewrite H11. reflexivity.
Qed.

Lemma bsubst_hash r : bsubst (c_hash :: r) = (c_hash, r).
Proof. reflexivity. Qed.

(* ---------- braced mode ---------- *)

(* the readers' brace scan: a backslash hides the next character *)
Fixpoint brace_ok (w : str) (depth : nat) : bool :=
  match w with
  | [] => Nat.eqb depth 0
  | c :: r =>
      if c =? c_bslash then
        match r with
        | [] => false
        | d :: r' => if d =? c_nl then false else brace_ok r' depth
        end
      else if c =? c_lbrace then brace_ok r (S depth)
      else if c =? c_rbrace then match depth with O => false | S k => brace_ok r k end
      else brace_ok r depth
  end.

Definition follows_ok (rest : str) : Prop :=
  match rest with [] => True | n :: _ => is_list_white n = true end.

Lemma pbi_roundtrip : forall n w d acc rest,
  (length w <= n)%nat -> brace_ok w d = true -> follows_ok rest ->
  pbi (w ++ c_rbrace :: rest) d acc = inr (rev acc ++ w, rest).
Proof.
  induction n as [|n IH]; intros w d acc rest Hn Hs Hr.
  - destruct w; [|cbn in Hn; lia].
    cbn in Hs. apply Nat.eqb_eq in Hs. subst d. cbn [app pbi].
    change (c_rbrace =? c_bslash) with false. change (c_rbrace =? c_lbrace) with false.
    change (c_rbrace =? c_rbrace) with true. cbn iota. rewrite !rev_fast_eq.
    rewrite app_nil_r. destruct rest as [|x rest']; [reflexivity|]. cbn in Hr. rewrite Hr. reflexivity.
  - destruct w as [|c r].
    + apply (IH [] d acc rest); [cbn; lia|assumption|assumption].
    + cbn [brace_ok] in Hs. cbn [app pbi].
      destruct (c =? c_bslash) eqn:Eb.
      * destruct r as [|e r']; [discriminate|].
        destruct (e =? c_nl); [discriminate|]. cbn [app].
        rewrite IH; [|cbn in Hn |- *; lia|assumption|assumption].
        cbn [rev]. rewrite <- !app_assoc. reflexivity.
      * destruct (c =? c_lbrace) eqn:El.
        -- rewrite IH; [|cbn in Hn |- *; lia|assumption|assumption].
           cbn [rev]. rewrite <- app_assoc. reflexivity.
        -- destruct (c =? c_rbrace) eqn:Er.
           ++ destruct d as [|k]; [discriminate|].
              rewrite IH; [|cbn in Hn |- *; lia|assumption|assumption].
              cbn [rev]. rewrite <- app_assoc. reflexivity.
           ++ rewrite IH; [|cbn in Hn |- *; lia|assumption|assumption].
              cbn [rev]. rewrite <- app_assoc. reflexivity.
Qed.

(* once the scan has found the word unsafe it stays unsafe *)
Lemma mode_scan_unsafe : forall n w nq d, (length w <= n)%nat ->
  snd (fst (mode_scan w nq false d)) = false.
Proof.
  induction n as [|n IH]; intros w nq d Hn.
  - destruct w; [reflexivity|cbn in Hn; lia].
  - destruct w as [|c r]; [reflexivity|]. cbn [mode_scan].
    assert (Hr : (length r <= n)%nat) by (cbn in Hn; lia).
    destruct (is_whitespace c); [apply IH; assumption|].
    destruct (is_quote_special c); [apply IH; assumption|].
    destruct (c =? c_lbrace); [apply IH; assumption|].
    destruct (c =? c_rbrace); [destruct d; apply IH; assumption|].
    destruct (c =? c_bslash); [|apply IH; assumption].
    destruct r as [|e r']; [reflexivity|].
    assert ((length r' <= n)%nat) by (cbn in Hr; lia).
    destruct (e =? c_nl); apply IH; assumption.
Qed.

(* get_mode's verdict "safe and balanced" implies the readers' scan accepts the word *)
Lemma mode_scan_brace_ok : forall n w nq d nq', (length w <= n)%nat ->
  mode_scan w nq true d = (nq', true, O) -> brace_ok w d = true.
Proof.
  induction n as [|n IH]; intros w nq d nq' Hn H.
  - destruct w; [|cbn in Hn; lia]. cbn in H. inversion H. reflexivity.
  - destruct w as [|c r]; [cbn in H; inversion H; reflexivity|].
    cbn [mode_scan] in H. cbn [brace_ok].
    assert (Hr : (length r <= n)%nat) by (cbn in Hn; lia).
    destruct (is_whitespace c) eqn:Ew.
    { assert (c =? c_bslash = false /\ c =? c_lbrace = false /\ c =? c_rbrace = false) as (A & B & C)
        by (revert Ew; unfold_chars; lia).
      rewrite A, B, C. eapply IH; eassumption. }
    destruct (is_quote_special c) eqn:Eq.
    { assert (c =? c_bslash = false /\ c =? c_lbrace = false /\ c =? c_rbrace = false) as (A & B & C)
        by (revert Eq; unfold_chars; lia).
      rewrite A, B, C. eapply IH; eassumption. }
    destruct (c =? c_lbrace) eqn:El.
    { assert (c =? c_bslash = false) as A by (revert El; unfold_chars; lia).
      rewrite A. eapply IH; eassumption. }
    destruct (c =? c_rbrace) eqn:Er.
    { assert (c =? c_bslash = false) as A by (revert Er; unfold_chars; lia).
      rewrite A. destruct d as [|k].
      - pose proof (mode_scan_unsafe n r true O Hr) as U. rewrite H in U. discriminate.
      - eapply IH; eassumption. }
    destruct (c =? c_bslash) eqn:Eb.
    { destruct r as [|e r']; [inversion H|].
      assert (Hr' : (length r' <= n)%nat) by (cbn in Hr; lia).
      destruct (e =? c_nl).
      - pose proof (mode_scan_unsafe n r' true d Hr') as U. rewrite H in U. discriminate.
      - eapply IH; eassumption. }
    eapply IH; eassumption.
Qed.

(* ---------- bare / escaped mode ---------- *)

Definition plain (c : char) : bool := negb (is_whitespace c || is_escape_special c).

Lemma plain_facts c : plain c = true ->
  is_list_white c = false /\ c =? c_bslash = false /\ c =? c_lbrace = false /\ c =? c_dquote = false.
Proof. unfold plain. unfold_chars. lia. Qed.

Lemma pbare_escaped : forall w fuel acc rest,
  (length w < fuel)%nat -> follows_ok rest ->
  pbare fuel (escape_chars w ++ rest) acc = (rev acc ++ w, rest).
Proof.
  induction w as [|c r IH]; intros fuel acc rest Hf Hr.
  - destruct fuel as [|f]; [cbn in Hf; lia|]. cbn [escape_chars app pbare]. rewrite !rev_fast_eq, app_nil_r.
    destruct rest as [|x rest']; [reflexivity|]. cbn in Hr. rewrite Hr. reflexivity.
  - destruct fuel as [|f]; [cbn in Hf; lia|].
    assert (Hf' : (length r < f)%nat) by (cbn in Hf; lia).
    cbn [escape_chars].
    destruct (is_whitespace c || is_escape_special c) eqn:E.
    + cbn [app pbare]. change (is_list_white c_bslash) with false. change (c_bslash =? c_bslash) with true.
      cbn iota. change (c :: escape_chars r ++ rest) with (c :: (escape_chars r ++ rest)).
      rewrite bsubst_self by assumption. rewrite IH by assumption.
      cbn [rev]. rewrite <- app_assoc. reflexivity.
    + assert (P : plain c = true) by (unfold plain; rewrite E; reflexivity).
      destruct (plain_facts c P) as (A & B & _).
      cbn [app pbare]. rewrite A, B. rewrite IH by assumption.
      cbn [rev]. rewrite <- app_assoc. reflexivity.
Qed.

(* a word get_mode leaves as it is contains only plain characters *)
Lemma mode_scan_asis : forall n w d s dep, (length w <= n)%nat ->
  mode_scan w false true d = (false, s, dep) -> forallb plain w = true.
Proof.
  assert (G : forall n w safe d, (length w <= n)%nat -> fst (fst (mode_scan w true safe d)) = true).
  { induction n as [|n IH]; intros w safe d Hn.
    - destruct w; [reflexivity|cbn in Hn; lia].
    - destruct w as [|c r]; [reflexivity|]. cbn [mode_scan].
      assert (Hr : (length r <= n)%nat) by (cbn in Hn; lia).
      destruct (is_whitespace c); [apply IH; assumption|].
      destruct (is_quote_special c); [apply IH; assumption|].
      destruct (c =? c_lbrace); [apply IH; assumption|].
      destruct (c =? c_rbrace); [destruct d; apply IH; assumption|].
      destruct (c =? c_bslash); [|apply IH; assumption].
      destruct r as [|e r']; [reflexivity|].
      assert ((length r' <= n)%nat) by (cbn in Hr; lia).
      destruct (e =? c_nl); apply IH; assumption. }
  induction n as [|n IH]; intros w d s dep Hn H.
  - destruct w; [reflexivity|cbn in Hn; lia].
  - destruct w as [|c r]; [reflexivity|]. cbn [mode_scan] in H.
    assert (Hr : (length r <= n)%nat) by (cbn in Hn; lia).
    destruct (is_whitespace c) eqn:Ew.
    { pose proof (G n r true d Hr) as U. rewrite H in U. discriminate. }
    destruct (is_quote_special c) eqn:Eq.
    { pose proof (G n r true d Hr) as U. rewrite H in U. discriminate. }
    destruct (c =? c_lbrace) eqn:El.
    { pose proof (G n r true (S d) Hr) as U. rewrite H in U. discriminate. }
    destruct (c =? c_rbrace) eqn:Er.
    { destruct d.
      - pose proof (G n r false O Hr) as U. rewrite H in U. discriminate.
      - pose proof (G n r true d Hr) as U. rewrite H in U. discriminate. }
    destruct (c =? c_bslash) eqn:Eb.
    { destruct r as [|e r']; [inversion H|].
      assert (Hr' : (length r' <= n)%nat) by (cbn in Hr; lia).
      destruct (e =? c_nl).
      - pose proof (G n r' false d Hr') as U. rewrite H in U. discriminate.
      - pose proof (G n r' true d Hr') as U. rewrite H in U. discriminate. }
    cbn [forallb]. rewrite (IH r d s dep Hr H).
    assert (plain c = true) as ->; [|reflexivity].
    unfold plain. revert Ew Eq El Er Eb. unfold_chars. lia.
Qed.

Lemma escape_chars_plain w : forallb plain w = true -> escape_chars w = w.
Proof.
  induction w as [|c r IH]; [reflexivity|]. cbn [forallb escape_chars]. intros H.
  apply andb_true_iff in H. destruct H as [Hc Hr]. unfold plain in Hc.
  destruct (is_whitespace c || is_escape_special c); [discriminate|]. rewrite IH by assumption. reflexivity.
Qed.

Lemma plain_brace_ok w : forallb plain w = true -> forall d, brace_ok w d = Nat.eqb d 0.
Proof.
  induction w as [|c r IH]; intros H d; [reflexivity|].
  cbn [forallb] in H. apply andb_true_iff in H. destruct H as [Pc Pr].
  assert (c =? c_bslash = false /\ c =? c_lbrace = false /\ c =? c_rbrace = false) as (A & B & C)
    by (revert Pc; unfold plain; unfold_chars; lia).
  cbn [brace_ok]. rewrite A, B, C. apply IH. assumption.
Qed.

(* ---------- one formatted item ---------- *)

Definition fmt_item (hash : bool) (w : str) : str :=
  match get_mode w with
  | AsIs => if hash then brace_item w else w
  | Brace => brace_item w
  | Escape => escape_item hash w
  end.

Definition hash_ok (hash : bool) (w : str) : Prop :=
  hash = true -> exists r, w = c_hash :: r.

Lemma parse_item_braced w rest :
  brace_ok w O = true -> follows_ok rest ->
  parse_item (brace_item w ++ rest) = inr (w, rest).
Proof.
  intros Hb Hr. unfold brace_item. cbn [app parse_item].
  change (c_lbrace =? c_lbrace) with true. cbn iota.
  rewrite <- app_assoc. cbn [app].
  rewrite (pbi_roundtrip (length w)); [reflexivity|lia|assumption|assumption].
Qed.

Lemma escape_chars_length w : (length w <= length (escape_chars w))%nat.
Proof.
  induction w as [|c r IH]; [cbn; lia|]. cbn [escape_chars].
  destruct (is_whitespace c || is_escape_special c); cbn [length]; lia.
Qed.

Lemma item_roundtrip hash w rest :
  hash_ok hash w -> follows_ok rest ->
  parse_item (fmt_item hash w ++ rest) = inr (w, rest).
Proof.
  intros Hh Hr. unfold fmt_item, get_mode.
  destruct w as [|c0 w0].
  { apply parse_item_braced; [reflexivity|assumption]. }
  set (w := c0 :: w0) in *.
  destruct (mode_scan w false true O) as [[nq safe] depth] eqn:Hs.
  destruct nq; cbn [negb].
  - (* needs quoting *)
    destruct (safe && Nat.eqb depth 0) eqn:Hsafe.
    + apply andb_true_iff in Hsafe. destruct Hsafe as [-> Hd]. apply Nat.eqb_eq in Hd. subst depth.
      apply parse_item_braced; [|assumption].
      eapply (mode_scan_brace_ok (length w)); [lia|eassumption].
    + (* escaped *)
      unfold escape_item. destruct hash.
      * destruct (Hh eq_refl) as [r Hw]. rewrite Hw.
        cbn [escape_chars]. change (is_whitespace c_hash || is_escape_special c_hash) with false. cbn iota.
        cbn [app]. unfold parse_item.
        change (c_bslash =? c_lbrace) with false. change (c_bslash =? c_dquote) with false. cbn iota.
        match goal with |- context [pbare (S ?n)] => set (fuel := n) end.
        cbn [pbare]. change (is_list_white c_bslash) with false.
        change (c_bslash =? c_bslash) with true. cbn iota.
        change (c_hash :: escape_chars r ++ rest) with (c_hash :: (escape_chars r ++ rest)).
        rewrite bsubst_hash.
        rewrite pbare_escaped; [reflexivity| |assumption].
        subst fuel. cbn [length]. rewrite app_length. pose proof (escape_chars_length r). lia.
      * subst w. cbn [escape_chars].
        destruct (is_whitespace c0 || is_escape_special c0) eqn:E.
        -- cbn [app]. unfold parse_item.
           change (c_bslash =? c_lbrace) with false. change (c_bslash =? c_dquote) with false. cbn iota.
           match goal with |- context [pbare (S ?n)] => set (fuel := n) end.
           cbn [pbare]. change (is_list_white c_bslash) with false.
           change (c_bslash =? c_bslash) with true. cbn iota.
           change (c0 :: escape_chars w0 ++ rest) with (c0 :: (escape_chars w0 ++ rest)).
           rewrite bsubst_self by assumption.
           rewrite pbare_escaped; [reflexivity| |assumption].
           subst fuel. cbn [length]. rewrite app_length. pose proof (escape_chars_length w0). lia.
        -- assert (P : plain c0 = true) by (unfold plain; rewrite E; reflexivity).
           destruct (plain_facts c0 P) as (A & B & C & D).
           cbn [app]. unfold parse_item. rewrite C, D.
           match goal with |- context [pbare (S ?n)] => set (fuel := n) end.
           cbn [pbare]. rewrite A, B.
           rewrite pbare_escaped; [reflexivity| |assumption].
           subst fuel. cbn [length]. rewrite app_length. pose proof (escape_chars_length w0). lia.
  - (* as is *)
    pose proof (mode_scan_asis (length w) w O safe depth (le_n _) Hs) as Hp.
    destruct hash.
    + apply parse_item_braced; [|assumption].
      rewrite plain_brace_ok by assumption. reflexivity.
    + subst w. cbn [forallb] in Hp. apply andb_true_iff in Hp. destruct Hp as [Pc Pr].
      destruct (plain_facts c0 Pc) as (A & B & C & D).
      cbn [app]. unfold parse_item. rewrite C, D.
      match goal with |- context [pbare (S ?n)] => set (fuel := n) end.
      cbn [pbare]. rewrite A, B.
      rewrite <- (escape_chars_plain w0 Pr) at 1.
      rewrite pbare_escaped; [reflexivity| |assumption].
      subst fuel. cbn [length]. rewrite app_length. lia.
Qed.

(* ---------- the whole list ---------- *)

Lemma format_items_cons hash w r :
  format_items hash (w :: r) = fmt_item hash w :: format_items false r.
Proof.
  cbn [format_items]. unfold fmt_item. destruct (get_mode w); destruct hash; reflexivity.
Qed.

(* every formatted item starts with a character that is not list white space *)
Lemma fmt_item_head hash w : hash_ok hash w ->
  exists c t, fmt_item hash w = c :: t /\ is_list_white c = false.
Proof.
  intros Hh. unfold fmt_item, get_mode.
  destruct w as [|c0 w0]; [exists c_lbrace; eexists; split; reflexivity|].
  set (w := c0 :: w0) in *.
  destruct (mode_scan w false true O) as [[nq safe] depth] eqn:Hs.
  destruct nq; cbn [negb].
  - destruct (safe && Nat.eqb depth 0); [exists c_lbrace; eexists; split; reflexivity|].
    unfold escape_item. destruct hash; [exists c_bslash; eexists; split; reflexivity|].
    subst w. cbn [escape_chars].
    destruct (is_whitespace c0 || is_escape_special c0) eqn:E; [exists c_bslash; eexists; split; reflexivity|].
    exists c0; eexists; split; [reflexivity|].
    assert (P : plain c0 = true) by (unfold plain; rewrite E; reflexivity).
    apply (plain_facts c0 P).
  - destruct hash; [exists c_lbrace; eexists; split; reflexivity|].
    pose proof (mode_scan_asis (length w) w O safe depth (le_n _) Hs) as Hp.
    subst w. cbn [forallb] in Hp. apply andb_true_iff in Hp. destruct Hp as [Pc _].
    exists c0, w0. split; [reflexivity|]. apply (plain_facts c0 Pc).
Qed.

Lemma parse_list_skip_space f s acc :
  parse_list f (c_space :: s) acc = parse_list f s acc.
Proof. destruct f; reflexivity. Qed.

Definition list_hash_ok (hash : bool) (l : list str) : Prop :=
  match l with [] => True | w :: _ => hash_ok hash w end.

Lemma parse_list_roundtrip : forall l hash fuel acc,
  (length l < fuel)%nat -> list_hash_ok hash l ->
  parse_list fuel (join_str [c_space] (format_items hash l)) acc = Some (inr (rev acc ++ l)).
Proof.
  induction l as [|w r IH]; intros hash fuel acc Hf Hh.
  - destruct fuel; [cbn in Hf; lia|]. cbn. rewrite rev_fast_eq, app_nil_r. reflexivity.
  - destruct fuel as [|f]; [cbn in Hf; lia|].
    rewrite format_items_cons. cbn [list_hash_ok] in Hh.
    destruct (fmt_item_head hash w Hh) as (c & t & Hx & Hc).
    destruct r as [|w' r'].
    + cbn [format_items join_str]. cbn [parse_list].
      rewrite Hx. cbn [skip_while]. rewrite Hc. rewrite <- Hx.
      rewrite <- (app_nil_r (fmt_item hash w)).
      rewrite item_roundtrip; [|assumption|exact I].
      destruct f; [cbn in Hf; lia|]. cbn [parse_list skip_while]. rewrite rev_fast_eq. reflexivity.
    + assert (Hj : join_str [c_space] (fmt_item hash w :: format_items false (w' :: r'))
                   = fmt_item hash w ++ c_space :: join_str [c_space] (format_items false (w' :: r'))).
      { rewrite (format_items_cons false w' r'). reflexivity. }
      rewrite Hj. cbn [parse_list].
      rewrite Hx. cbn [app skip_while]. rewrite Hc.
      change (c :: t ++ ?z) with ((c :: t) ++ z). rewrite <- Hx.
      rewrite item_roundtrip; [|assumption|reflexivity].
      rewrite parse_list_skip_space.
      rewrite IH; [|cbn in Hf |- *; lia|intro; discriminate].
      cbn [rev]. rewrite <- app_assoc. reflexivity.
Qed.

Lemma fmt_item_nonempty hash w : hash_ok hash w -> (1 <= length (fmt_item hash w))%nat.
Proof. intros H. destruct (fmt_item_head hash w H) as (c & t & -> & _). cbn. lia. Qed.

Lemma join_nonempty_len : forall (xs : list str) sep,
  Forall (fun x => (1 <= length x)%nat) xs -> (length xs <= length (join_str sep xs))%nat.
Proof.
  induction xs as [|x xs IH]; intros sep H; [cbn; lia|].
  inversion H as [|? ? Hx Hxs]; subst.
  destruct xs as [|y ys]; [cbn [join_str length]; lia|].
  specialize (IH sep Hxs).
  change (join_str sep (x :: y :: ys)) with (x ++ sep ++ join_str sep (y :: ys)).
  rewrite !app_length. cbn [length] in *. lia.
Qed.

Lemma format_items_nonempty : forall l hash, list_hash_ok hash l ->
  Forall (fun x => (1 <= length x)%nat) (format_items hash l).
Proof.
  induction l as [|w r IH]; intros hash Hh; [constructor|].
  rewrite format_items_cons. constructor.
  - apply fmt_item_nonempty. exact Hh.
  - apply IH. destruct r; [exact I|intro; discriminate].
Qed.

Lemma format_items_length : forall l hash, length (format_items hash l) = length l.
Proof.
  induction l as [|w r IH]; intros hash; [reflexivity|].
  rewrite format_items_cons. cbn [length]. rewrite IH. reflexivity.
Qed.

Lemma join_length_ge : forall l hash, list_hash_ok hash l ->
  (length l <= length (join_str [c_space] (format_items hash l)))%nat.
Proof.
  intros l hash Hh. rewrite <- (format_items_length l hash) at 1.
  apply join_nonempty_len. apply format_items_nonempty. assumption.
Qed.

Lemma starts_with_hash_ok l : list_hash_ok (starts_with_hash l) l.
Proof.
  destruct l as [|w r]; [exact I|]. cbn. intros H. destruct w as [|c t]; [discriminate|].
  apply N.eqb_eq in H. subst c. exists t. reflexivity.
Qed.

Theorem list_roundtrip : forall l : list str, get_list (list_to_string l) = Some (inr l).
Proof.
  intros l. unfold get_list, list_to_string.
  rewrite parse_list_roundtrip; [reflexivity| |apply starts_with_hash_ok].
  pose proof (join_length_ge l _ (starts_with_hash_ok l)). lia.
Qed.

(* formatting the re-parsed list gives the same string again *)
Corollary list_format_idempotent : forall l : list str,
  match get_list (list_to_string l) with
  | Some (inr l') => list_to_string l' = list_to_string l
  | _ => False
  end.
Proof. intros l. rewrite list_roundtrip. reflexivity. Qed.

Lemma list_nested_roundtrip : forall ll : list (list str),
  get_list (list_to_string (map list_to_string ll)) = Some (inr (map list_to_string ll))
  /\ Forall (fun l => get_list (list_to_string l) = Some (inr l)) ll.
Proof.
  intros ll. split; [apply list_roundtrip|]. apply Forall_forall. intros l _. apply list_roundtrip.
Qed.
