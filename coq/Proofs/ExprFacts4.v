(* ExprFacts4.v — C03: three more kinds of operand for the completeness theorem of ExprFacts3.v.

   New leaves ([leaf4]; [K3] embeds every leaf of ExprFacts3):
     [KArr n idx]    $n(index)   an element of an array variable; the index is ANY well-formed
                                 list of segments of Spec/SpecGrammar.v (literal text, escapes,
                                 $name, ${name}, nested $a(i), [script])
     [KQuoS l]       a quoted string of ANY well-formed segments: literal text, every backslash
                                 escape of the specification, $name ${name} $a(i), [script]
     [KBraceN b]     a braced string with nested braces, backslash-escaped characters and
                                 backslash-newline ([bseg])
   The reader side comes from Proofs/GrammarFacts.v (arr_good / quoted_segs / pbb_list), fuel from
   Proofs/TotalFacts.v and monotonicity.

   Sections: 1 the leaves and their leaf hypothesis ([gspec]: ExprFacts3's [leaf_spec] for an
   arbitrary text and meaning; [leaf_KArr], [leaf_KQuoS], [leaf_KBraceN]); 2 [tree4] = the trees
   of ExprFacts3 over [leaf4]: because ExprFacts3's [leaf] is a closed inductive type its
   induction is repeated verbatim (generated from ExprFacts3.v by renaming; [follows3],
   [truth3], [top_res], ... are reused, not copied); 3 the theorem about [expr_eval];
   4 what the new leaves mean; 5 the frame; 6 examples on a concrete state.

   Main statements: [expr_eval_render4_ws], [expr_eval_render4_std] (value, error, state);
   [arr_leaf_value], [arr_leaf_value_var], [unknown_element_message], [unknown_array_message];
   [quo_leaf_value] (the string is the concatenation of the pieces evaluated left to right by
   [eval_seq], state threaded, stop at the first error); [brace_leaf_value];
   [ev4_frame], [expr_eval_render4_frame] (no script anywhere: state unchanged).
   In no-eval mode (skipped operands) nothing is read or run: that is the first half of [gspec]
   and is used by the induction exactly as in ExprFacts3. *)
From Molt Require Import Model.Base Model.Tokenizer Model.ListSyn Model.Float Model.Value
  Model.State Model.Script Model.Parser Model.Eval Model.Expr Spec.SpecExpr.
From Molt Require Gen.SrcFacts.
From Molt Require Import Proofs.BaseFacts Proofs.ValueFacts Proofs.NoEvalFacts Proofs.ExprFacts
  Proofs.ExprFacts2 Proofs.ExprFacts3.
From Molt Require Model.Commands Model.Unicode Model.Interp Model.Harness Check.ScriptObs.
From Molt Require Spec.SpecGrammar Proofs.TotalFacts Proofs.GrammarFacts.
From Coq Require Import Lia ZifyBool ZifyN.

Arguments N.eqb : simpl never.
Arguments N.leb : simpl never.
Arguments N.ltb : simpl never.
Arguments Z.eqb : simpl never.
Arguments Z.leb : simpl never.
Arguments Z.ltb : simpl never.

Local Open Scope Z_scope.

(* ====================================================================================== *)
(* 1. the new leaves                                                                       *)
(* ====================================================================================== *)

Inductive leaf4 :=
| K3 (k : leaf)                                   (* every leaf of ExprFacts3 *)
| KArr (n : str) (idx : list SpecGrammar.seg)     (* $n(index) *)
| KQuoS (l : list SpecGrammar.seg)                (* a quoted string of segments *)
| KBraceN (b : list SpecGrammar.bseg).            (* a braced string, braces nest *)

Definition ltext4 (k : leaf4) : str :=
  match k with
  | K3 k => ltext k
  | KArr n idx => SpecGrammar.render_seg (SpecGrammar.SArr n idx)
  | KQuoS l => SpecGrammar.render_word (SpecGrammar.CQuote l)
  | KBraceN b => SpecGrammar.render_word (SpecGrammar.CBrace b)
  end.

Definition lok4 (ia : char -> bool) (k : leaf4) : bool :=
  match k with
  | K3 k => lok ia k
  | KArr n idx => SpecGrammar.wf_seg SpecGrammar.quote_lit_char (SpecGrammar.SArr n idx)
  | KQuoS l => SpecGrammar.wf_word (SpecGrammar.CQuote l)
  | KBraceN b => SpecGrammar.wf_word (SpecGrammar.CBrace b)
  end.

(* the words the reader makes of an index and of a quoted string *)
Definition idx_word (idx : list SpecGrammar.seg) : word :=
  tk_take (fold_left GrammarFacts.tok_seg idx tk_new).
Definition quo_word (l : list SpecGrammar.seg) : word := GrammarFacts.ast_word (SpecGrammar.CQuote l).

Definition str_datum (v : value) : res datum := expr_parse_string (as_str v).

Definition lsem4 (exec : executor) (k : leaf4) (st : interp) : interp * res datum :=
  match k with
  | K3 k => lsem exec k st
  | KArr n idx =>
      let '(st1, rv) := eval_word exec st (WArrayRef n (idx_word idx)) in (st1, rb rv expr_parse_value)
  | KQuoS l =>
      let '(st1, rv) := eval_word exec st (quo_word l) in (st1, rb rv str_datum)
  | KBraceN b => (st, expr_parse_string (flat_map SpecGrammar.bseg_value b))
  end.

(* more fuel never changes an answer of the two readers the lexer calls *)
Lemma parse_varname_mono isa f k bt s :
  parse_varname isa f bt s <> PFuel -> parse_varname isa (k + f) bt s = parse_varname isa f bt s.
Proof.
  intros H. induction k as [|k IH]; [reflexivity|]. cbn [Nat.add].
  destruct (GrammarFacts.mono_holds isa (k + f)) as (_ & _ & _ & _ & _ & _ & _ & _ & Hv).
  destruct (Hv bt s) as [E|E]; [rewrite IH in E; contradiction|rewrite E; exact IH].
Qed.

Lemma parse_quoted_mono isa f k bt chk s t :
  parse_quoted isa f bt chk s t <> PFuel ->
  parse_quoted isa (k + f) bt chk s t = parse_quoted isa f bt chk s t.
Proof.
  intros H. induction k as [|k IH]; [reflexivity|]. cbn [Nat.add].
  destruct (GrammarFacts.mono_holds isa (k + f)) as (_ & _ & _ & _ & Hq & _).
  destruct (Hq bt chk s t) as [E|E]; [rewrite IH in E; contradiction|rewrite E; exact IH].
Qed.

Lemma parse_dollar_S isa f bt s t :
  parse_dollar isa (S f) bt s t =
  match s with
  | c :: _ =>
      if is_varname_char isa c || N.eqb c c_lbrace then
        match parse_varname isa f bt s with
        | POk w rest => POk (tk_push t w) rest
        | PErr m => PErr m
        | PFuel => PFuel
        end
      else POk (tk_push_char t c_dollar) s
  | [] => POk (tk_push_char t c_dollar) s
  end.
Proof. reflexivity. Qed.

Lemma parse_quoted_close isa f bt r t : parse_quoted isa (S f) bt false (34%N :: r) t = POk (tk_take t) r.
Proof. reflexivity. Qed.

Section Leaves4.
Variable ia ib : char -> bool.
Variable exec : executor.
Variable original : str.
Hypothesis Hia : GrammarFacts.name_ok ia.

Local Notation LEX := (expr_lex ia ib exec original).

(* the leaf hypothesis of ExprFacts3 for an arbitrary text and meaning *)
Definition gspec (txt : str) (sem : interp -> interp * res datum) : Prop :=
  forall rest, op_follow rest ->
  forall f st info, e_rest info = txt ++ rest ->
    (noeval info = true ->
       exists d, LEX (S f) st info = (st, Ok (d, with_tok_rest info T_VALUE rest))) /\
    (noeval info = false ->
       LEX (S f) st info =
       lift_res (fst (sem st)) (snd (sem st))
         (fun d => (fst (sem st), Ok (d, with_tok_rest info T_VALUE rest)))).

Lemma gspec_K3 k : leaf_spec ia ib exec original k -> gspec (ltext k) (lsem exec k).
Proof. intros H. exact H. Qed.

(* ---- $name(index) ---- *)
Lemma array_varname n idx rest :
  SpecGrammar.wf_seg SpecGrammar.quote_lit_char (SpecGrammar.SArr n idx) = true ->
  let r := tl (SpecGrammar.render_seg (SpecGrammar.SArr n idx)) ++ rest in
  parse_varname ia (parse_fuel r) parse_bt r = POk (WArrayRef n (idx_word idx)) rest.
Proof.
  intros Hwf r.
  destruct (proj1 (GrammarFacts.tree_ok ia Hia) (SpecGrammar.SArr n idx) _ Hwf) as (f0 & H0).
  pose proof (H0 (S (f0 + parse_fuel r)) ltac:(lia) parse_bt tk_new rest I) as E. fold r in E.
  rewrite <- (parse_varname_mono ia (parse_fuel r) f0 parse_bt r)
    by apply TotalFacts.expr_lex_varname_total.
  rewrite parse_dollar_S in E. destruct r as [|c r'] eqn:Er.
  - discriminate E.
  - destruct (is_varname_char ia c || N.eqb c c_lbrace); [|discriminate E].
    destruct (parse_varname ia (f0 + parse_fuel (c :: r')) parse_bt (c :: r')) as [w rest0| |];
      try discriminate E.
    change (GrammarFacts.tok_seg tk_new (SpecGrammar.SArr n idx))
      with (tk_push tk_new (WArrayRef n (idx_word idx))) in E.
    unfold tk_push, tk_new in E. cbn [tk_str tk_list] in E. 
    injection E as <- <-. reflexivity.
Qed.

Lemma leaf_KArr n idx : lok4 ia (KArr n idx) = true -> gspec (ltext4 (KArr n idx)) (lsem4 exec (KArr n idx)).
Proof.
  cbn [lok4 ltext4]. intros Hwf rest Hof f st info He.
  pose proof (array_varname n idx rest Hwf) as Hpv. cbv zeta in Hpv.
  assert (Hn : exists c n', n = c :: n' /\ is_varname_char ia c = true).
  { cbn [SpecGrammar.wf_seg] in Hwf. repeat (apply andb_true_iff in Hwf; destruct Hwf as [Hwf ?]).
    destruct n as [|c n']; [discriminate|]. exists c, n'. split; [reflexivity|].
    apply (GrammarFacts.vn_true ia Hia). cbn [forallb] in H1. apply andb_true_iff in H1. tauto. }
  destruct Hn as (c & n' & -> & Hc).
  cbn [SpecGrammar.render_seg tl app] in He, Hpv.
  assert (Hlx : LEX (S f) st info =
                if noeval info then lex_value_of info st (Ok v_empty) rest false
                else let '(st1, rv) := eval_word exec st (WArrayRef (c :: n') (idx_word idx)) in
                     lex_value_of info st1 rv rest false).
  { rewrite expr_lex_S, He.
    match goal with |- context [skip_while is_whitespace (_ :: _ :: ?t)] => remember t as tl0 eqn:Etl end.
    lex_head. rewrite Hc. cbn [orb]. cbv iota. subst tl0. unfold char in *. rewrite Hpv. cbn [lift_p].
    destruct (noeval info); reflexivity. }
  rewrite Hlx. split; intros Hne; rewrite Hne.
  - unfold lex_value_of. rewrite Hne. eexists; reflexivity.
  - cbn [lsem4]. destruct (eval_word exec st (WArrayRef (c :: n') (idx_word idx))) as [st1 rv].
    cbn [fst snd]. rewrite (lift_res_value_of info st1 _ rest false Hne). reflexivity.
Qed.

(* ---- quoted strings of segments ---- *)
Lemma quoted_word l rest :
  SpecGrammar.wf_word (SpecGrammar.CQuote l) = true ->
  let r := flat_map SpecGrammar.render_seg l ++ 34%N :: rest in
  parse_quoted ia (parse_fuel r) parse_bt false r tk_new = POk (quo_word l) rest.
Proof.
  intros Hwf r. cbn [SpecGrammar.wf_word] in Hwf. apply andb_true_iff in Hwf. destruct Hwf as [Hw Ha].
  destruct (GrammarFacts.quoted_segs ia Hia false l) as (f0 & H0); [|exact Hw|exact Ha|].
  { apply (GrammarFacts.segs_good ia SpecGrammar.quote_lit_char); [|exact Hw].
    apply Forall_forall. intros s _. exact (proj1 (GrammarFacts.tree_ok ia Hia) s). }
  rewrite <- (parse_quoted_mono ia (parse_fuel r) (GrammarFacts.segs_steps l + S f0) parse_bt false r tk_new)
    by apply TotalFacts.expr_lex_quoted_total.
  replace (GrammarFacts.segs_steps l + S f0 + parse_fuel r)%nat
    with (GrammarFacts.segs_steps l + S (f0 + parse_fuel r))%nat by lia.
  unfold r at 2. rewrite H0; [|lia|].
  - rewrite parse_quoted_close. reflexivity.
  - cbn [GrammarFacts.follow_ok]. split; [|unfold c_lparen; lia].
    apply (GrammarFacts.vn_false ia Hia); [lia|reflexivity].
Qed.

Lemma leaf_KQuoS l : lok4 ia (KQuoS l) = true -> gspec (ltext4 (KQuoS l)) (lsem4 exec (KQuoS l)).
Proof.
  cbn [lok4 ltext4]. intros Hwf rest Hof f st info He.
  pose proof (quoted_word l rest Hwf) as Hpq. cbv zeta in Hpq.
  cbn [SpecGrammar.render_word app] in He. rewrite <- app_assoc in He. cbn [app] in He.
  unfold c_dquote, c_lbrace, c_rbrace in He.
  assert (Hlx : LEX (S f) st info =
                if noeval info then lex_value_of info st (Ok v_empty) rest true
                else let '(st1, rv) := eval_word exec st (quo_word l) in
                     lex_value_of info st1 rv rest true).
  { rewrite expr_lex_S, He.
    match goal with |- context [skip_while is_whitespace (_ :: ?t)] => remember t as tl0 eqn:Etl end.
    lex_head. subst tl0. unfold char in *. rewrite Hpq. cbn [lift_p].
    destruct (noeval info); reflexivity. }
  rewrite Hlx. split; intros Hne; rewrite Hne.
  - unfold lex_value_of. rewrite Hne. eexists; reflexivity.
  - cbn [lsem4]. destruct (eval_word exec st (quo_word l)) as [st1 rv].
    cbn [fst snd]. rewrite (lift_res_value_of info st1 _ rest true Hne). reflexivity.
Qed.

(* ---- braced strings, braces nest ---- *)
Lemma leaf_KBraceN b : lok4 ia (KBraceN b) = true -> gspec (ltext4 (KBraceN b)) (lsem4 exec (KBraceN b)).
Proof.
  cbn [lok4 ltext4 SpecGrammar.wf_word]. intros Hwf rest Hof f st info He.
  cbn [SpecGrammar.render_word app] in He. rewrite <- app_assoc in He. cbn [app] in He.
  unfold c_dquote, c_lbrace, c_rbrace in He.
  assert (Hpb : parse_braced_string (123%N :: flat_map SpecGrammar.render_bseg b ++ 125%N :: rest)
                = POk (WValue (flat_map SpecGrammar.bseg_value b)) rest).
  { unfold parse_braced_string.
    rewrite (GrammarFacts.pbb_list b); [|apply Forall_forall; intros; apply GrammarFacts.pbb_all|exact Hwf].
    cbn [parse_braced_body]. change (N.eqb 125 c_lbrace) with false. change (N.eqb 125 c_rbrace) with true.
    cbv iota. rewrite rev_fast_eq, app_nil_r, rev_involutive. reflexivity. }
  assert (Hlx : LEX (S f) st info =
                lex_value_of info st (Ok (VStr (flat_map SpecGrammar.bseg_value b))) rest true).
  { rewrite expr_lex_S, He.
    match goal with |- context [skip_while is_whitespace (_ :: ?t)] => remember t as tl0 eqn:Etl end.
    lex_head. subst tl0. unfold char in *. rewrite Hpb. reflexivity. }
  rewrite Hlx. split; intros Hne.
  - unfold lex_value_of. rewrite Hne. eexists; reflexivity.
  - rewrite (lift_res_value_of info st _ rest true Hne). reflexivity.
Qed.

End Leaves4.
Print Assumptions leaf_KArr.
Print Assumptions leaf_KQuoS.
Print Assumptions leaf_KBraceN.

(* ====================================================================================== *)
(* 2. trees over the new leaves: the definitions and the induction of ExprFacts3, verbatim  *)
(*    (ExprFacts3's [leaf] is a closed type, so its [tree4] cannot hold the new leaves)     *)
(* ====================================================================================== *)

Inductive tree4 :=
| L4 (z : Z)
| X4 (k : leaf4)
| P4 (s1 s2 : str) (t : tree4)
| U4 (u : uop) (s : str) (t : tree4)
| B4 (o : bop) (s1 s2 : str) (l r : tree4)
| A4 (o : lop) (s1 s2 : str) (l r : tree4)
| Q4 (s1 s2 s3 s4 : str) (c a b : tree4)
| Fn4 (f : fnm) (s1 s2 s3 : str) (t : tree4)
| F4 (ip fp es ed : str).

Local Open Scope N_scope.
Fixpoint render4 (t : tree4) : str :=
  match t with
  | L4 z => show_Z z
  | X4 k => ltext4 k
  | P4 s1 s2 t => 40 :: s1 ++ render4 t ++ s2 ++ [41]
  | U4 u s t => ustr u ++ s ++ render4 t
  | B4 o s1 s2 l r => render4 l ++ s1 ++ opstr o ++ s2 ++ render4 r
  | A4 o s1 s2 l r => render4 l ++ s1 ++ lstr o ++ s2 ++ render4 r
  | Q4 s1 s2 s3 s4 c a b =>
      render4 c ++ s1 ++ 63 :: s2 ++ render4 a ++ s3 ++ 58 :: s4 ++ render4 b
  | Fn4 f s1 s2 s3 t => fstr f ++ s1 ++ 40 :: s2 ++ render4 t ++ s3 ++ [41]
  | F4 ip fp es ed => ftext ip fp es ed
  end.
Local Open Scope Z_scope.

Definition topl4 (t : tree4) : Z :=
  match t with
  | B4 o _ _ _ _ => oprec o
  | A4 o _ _ _ _ => lprec o
  | Q4 _ _ _ _ _ _ _ => 2
  | _ => 16
  end.
Definition topr4 (t : tree4) : Z :=
  match t with
  | B4 o _ _ _ _ => oprec o
  | A4 o _ _ _ _ => lprec o
  | Q4 _ _ _ _ _ _ _ => 1
  | _ => 16
  end.

(* the side condition of ExprFacts2 ([ok]) plus well-formed leaves *)
Fixpoint ok4 (ia : char -> bool) (t : tree4) : bool :=
  match t with
  | L4 z => (0 <=? z) && (z <=? i64_max)
  | X4 k => lok4 ia k
  | P4 s1 s2 t => ws s1 && ws s2 && ok4 ia t
  | U4 u s t => ws s && ok4 ia t && (15 <? topl4 t)
  | B4 o s1 s2 l r =>
      ws s1 && ws s2 && (if alpha_op o then nonempty s1 && nonempty s2 else true)
      && ok4 ia l && ok4 ia r && (oprec o <=? topl4 l) && (oprec o <=? topr4 l) && (oprec o <? topl4 r)
  | A4 o s1 s2 l r =>
      ws s1 && ws s2 && ok4 ia l && ok4 ia r && (lprec o <=? topl4 l) && (lprec o <=? topr4 l)
      && (lprec o <? topl4 r)
  | Q4 s1 s2 s3 s4 c a b =>
      ws s1 && ws s2 && ws s3 && ws s4 && ok4 ia c && ok4 ia a && ok4 ia b && (2 <=? topr4 c)
  | Fn4 f s1 s2 s3 t => ws s1 && ws s2 && ws s3 && ok4 ia t
  | F4 ip fp es ed =>
      digits ip && digits fp && exp_shape es ed
      && match get_float (ftext ip fp es ed) with Some _ => true | None => false end
  end.

Section Ev4.
Variable exec : executor.

(* the reference evaluator: state in, state and result out.  Operands are evaluated left to
   right; an error stops the evaluation with the state reached so far; the operand that C skips
   is not evaluated at all. *)
Fixpoint ev4 (t : tree4) (st : interp) : interp * res datum :=
  match t with
  | L4 z => (st, Ok (DInt z))
  | X4 k => lsem4 exec k st
  | P4 _ _ t => ev4 t st
  | U4 u _ t => let '(st1, r) := ev4 t st in (st1, rb r (unary_apply (utok u)))
  | B4 o _ _ l r =>
      let '(st1, rl) := ev4 l st in
      match rl with
      | Ok a => let '(st2, rr) := ev4 r st1 in (st2, rb rr (apply_binop (tok_of o) a))
      | other => (st1, other)
      end
  | A4 o _ _ l r =>
      let '(st1, rl) := ev4 l st in
      match rb rl (truth3 (ltok o)) with
      | Ok ta =>
          if is_and o && negb ta then (st1, Ok (DInt 0))
          else if negb (is_and o) && ta then (st1, Ok (DInt 1))
          else
            let '(st2, rr) := ev4 r st1 in
            (st2, rb (rb rr (truth3 (ltok o))) (fun tb : bool => Ok (DInt (if tb then 1 else 0))))
      | Err e => (st1, Err e) | Panic p => (st1, Panic p) | Fuel => (st1, Fuel)
      end
  | Q4 _ _ _ _ c a b =>
      let '(st1, rc) := ev4 c st in
      match rb rc (truth3 T_QUESTY) with
      | Ok tc => if tc then ev4 a st1 else ev4 b st1
      | Err e => (st1, Err e) | Panic p => (st1, Panic p) | Fuel => (st1, Fuel)
      end
  | Fn4 f _ _ _ t => let '(st1, r) := ev4 t st in (st1, rb r (fn_apply f))
  | F4 ip fp es ed => (st, float_lit ip fp es ed)
  end.

End Ev4.

Fixpoint sz4 (t : tree4) : nat :=
  match t with
  | L4 _ => 1
  | X4 _ => 1
  | P4 _ _ t => sz4 t + 2
  | U4 _ _ t => sz4 t + 1
  | B4 _ _ _ l r => sz4 l + sz4 r + 1
  | A4 _ _ _ l r => sz4 l + sz4 r + 1
  | Q4 _ _ _ _ c a b => sz4 c + sz4 a + sz4 b + 2
  | Fn4 _ _ _ _ t => sz4 t + 3
  | F4 _ _ _ _ => 1
  end.

Fixpoint nsp4 (t : tree4) : nat :=
  match t with
  | B4 _ _ _ l _ => S (nsp4 l)
  | A4 _ _ _ l _ => S (nsp4 l)
  | Q4 _ _ _ _ c _ _ => S (nsp4 c)
  | _ => 0
  end.

Lemma nsp4_lt_sz4 t : (nsp4 t < sz4 t)%nat.
Proof. induction t; cbn [nsp4 sz4]; lia. Qed.

Lemma topl4_bounds t : 2 <= topl4 t <= 16.
Proof.
  destruct t; cbn [topl4]; try lia; [pose proof (oprec_bounds o)|pose proof (lprec_bounds o)]; lia.
Qed.

Lemma topr4_bounds t : 1 <= topr4 t <= 16 /\ topl4 t - 1 <= topr4 t <= topl4 t.
Proof.
  destruct t; cbn [topl4 topr4]; try lia; [pose proof (oprec_bounds o)|pose proof (lprec_bounds o)]; lia.
Qed.

(* ====================================================================================== *)

Lemma ltext_next_ok k rest : next_ok (ltext4 k ++ rest).
Proof.
  destruct k as [k|n idx|l|b]; [apply ExprFacts3.ltext_next_ok|..];
    cbn [ltext4 SpecGrammar.render_seg SpecGrammar.render_word app next_ok];
    unfold c_dollar, c_dquote, c_lbrace; lia.
Qed.

Lemma render4_next_ok ia t rest : ok4 ia t = true -> next_ok (render4 t ++ rest).
Proof.
  revert rest.
  induction t as [z|k|s1 s2 t IH|u s t IH|o s1 s2 l IHl r IHr|o s1 s2 l IHl r IHr
                 |s1 s2 s3 s4 c IHc a IHa b IHb|f s1 s2 s3 t IH|ip fp es ed]; intros rest Hok; cbn [render4].
  - cbn [ok4] in Hok. destruct (show_Z_head z rest ltac:(lia)) as (c & r & -> & Hc).
    cbn [next_ok]. unfold is_digit10 in Hc. lia.
  - apply ltext_next_ok.
  - cbn [app next_ok]. lia.
  - destruct u;
      match goal with |- context [ustr ?u] =>
        let v := eval vm_compute in (ustr u) in change (ustr u) with v end; cbn [app next_ok]; lia.
  - cbn [ok4] in Hok. rewrite <- app_assoc. apply IHl. repeat (apply andb_true_iff in Hok; destruct Hok as [Hok ?]). assumption.
  - cbn [ok4] in Hok. rewrite <- app_assoc. apply IHl. repeat (apply andb_true_iff in Hok; destruct Hok as [Hok ?]). assumption.
  - cbn [ok4] in Hok. rewrite <- app_assoc. apply IHc. repeat (apply andb_true_iff in Hok; destruct Hok as [Hok ?]). assumption.
  - destruct f;
      match goal with |- context [fstr ?u] =>
        let v := eval vm_compute in (fstr u) in change (fstr u) with v end; cbn [app next_ok]; lia.
  - cbn [ok4] in Hok. repeat (apply andb_true_iff in Hok; destruct Hok as [Hok ?]).
    destruct (ftext_head ip fp es ed rest Hok) as (c0 & p' & -> & Hc0).
    cbn [next_ok]. unfold is_digit10 in Hc0. lia.
Qed.

(* ====================================================================================== *)
Definition head_ok4 (t : tree4) (tk : Z) : Prop :=
  ftok tk /\ (T_MULT <= tk -> prec tk <= topr4 t).

Lemma head_ok4_close t : head_ok4 t T_CLOSE_PAREN.
Proof. split; [left; reflexivity|]. unfold T_MULT, T_CLOSE_PAREN. lia. Qed.

Lemma head_ok4_end t : head_ok4 t T_END.
Proof. split; [right; right; left; reflexivity|]. unfold T_MULT, T_END. lia. Qed.

(* the conversion of the left operand of && || ?: in evaluation mode is [truth3] *)
(* a property of every leaf of a tree *)
Fixpoint all_leaves4 (P : leaf4 -> Prop) (t : tree4) : Prop :=
  match t with
  | X4 k => P k
  | P4 _ _ t | U4 _ _ t | Fn4 _ _ _ _ t => all_leaves4 P t
  | B4 _ _ _ l r | A4 _ _ _ l r => all_leaves4 P l /\ all_leaves4 P r
  | Q4 _ _ _ _ c a b => all_leaves4 P c /\ all_leaves4 P a /\ all_leaves4 P b
  | _ => True
  end.

Ltac zb := first [apply Z.leb_le; assumption | apply Z.ltb_lt; assumption].

Definition leaf_spec4 ia ib exec original (k : leaf4) : Prop :=
  gspec ia ib exec original (ltext4 k) (lsem4 exec k).

Section Completeness4.
Variable ia ib : char -> bool.
Variable exec : executor.
Variable original : str.

Local Notation GV := (expr_get_value ia ib exec original).
Local Notation LOOP := (expr_loop ia ib exec original).
Local Notation LEX := (expr_lex ia ib exec original).
Local Notation MF := (expr_math_func ia ib exec original).
Local Notation follows := (follows ia ib exec original).
Local Notation lexes := (lexes ia ib exec original).
Local Notation ev4 := (ev4 exec).
Local Notation leaf_spec := (leaf_spec4 ia ib exec original).
Local Notation follows3 := (ExprFacts3.follows3 ia ib exec original).
Local Notation follows3_close_ws := (ExprFacts3.follows3_close_ws ia ib exec original).
Local Notation follows3_bop := (ExprFacts3.follows3_bop ia ib exec original).
Local Notation follows3_lop := (ExprFacts3.follows3_lop ia ib exec original).
Local Notation follows3_char_ws := (ExprFacts3.follows3_char_ws ia ib exec original).


(* the value a tree contributes: in evaluation mode the state and value of [ev4], in no-eval
   mode (counter n > 0) the state untouched and some value that is never used *)
Definition val4 (n : N) (t : tree4) (st st' : interp) (r : res datum) : Prop :=
  if (n =? 0)%N then (st', r) = ev4 t st else st' = st /\ exists v, r = Ok v.

Definition parses4 (t : tree4) : Prop :=
  forall n pr, pr < topl4 t ->
  forall rest tk rest', follows3 rest tk rest' -> head_ok4 t tk ->
  forall fuel, (2 * sz4 t <= fuel)%nat ->
  forall st info sp, forallb is_whitespace sp = true ->
    e_rest info = sp ++ render4 t ++ rest -> e_noeval info = n ->
    exists st' r, val4 n t st st' r /\
      GV fuel st info pr =
      lift_res st' r (fun v => LOOP (fuel - 1 - nsp4 t) st' (with_tok_rest info tk rest') pr v).

Lemma val4_const n t st r : ev4 t st = (st, r) -> (exists v, r = Ok v) -> val4 n t st st r.
Proof. intros H1 H2. unfold val4. destruct (n =? 0)%N; [symmetry; exact H1|split; [reflexivity|exact H2]]. Qed.

Lemma parses4_L z : 0 <= z <= i64_max -> parses4 (L4 z).
Proof.
  intros Hz n pr _ rest tk rest' [Hof Hlex] _ fuel Hfuel st info sp Hsp He Hn.
  cbn [sz4] in Hfuel. destruct fuel as [|[|f]]; try lia.
  cbn [render4] in He.
  exists st, (Ok (DInt z)). split.
  { apply val4_const; [reflexivity|eexists; reflexivity]. }
  rewrite expr_get_value_S,
    (lex_literal ia ib exec original f st info sp z rest Hsp Hz (op_follow_lit rest Hof) He).
  unfold gv_first, unary_tok. tok_red.
  rewrite (Hlex f st (with_tok_rest info T_VALUE rest) eq_refl).
  cbn [lift_res nsp4]. replace (S (S f) - 1 - 0)%nat with (S f) by lia. reflexivity.
Qed.

Lemma parses4_F ip fp es ed :
  digits ip = true -> digits fp = true -> exp_shape es ed = true ->
  get_float (ftext ip fp es ed) <> None -> parses4 (F4 ip fp es ed).
Proof.
  intros Hip Hfp Hex Hg n pr _ rest tk rest' [Hof Hlex] _ fuel Hfuel st info sp Hsp He Hn.
  cbn [sz4] in Hfuel. destruct fuel as [|[|f]]; try lia.
  cbn [render4] in He.
  destruct (get_float (ftext ip fp es ed)) as [x|] eqn:Eg; [|congruence].
  exists st, (Ok (DFlt x)). split.
  { apply val4_const; [cbn [ev4]; unfold float_lit; rewrite Eg; reflexivity|eexists; reflexivity]. }
  rewrite expr_get_value_S,
    (lex_float ia ib exec original f st info sp ip fp es ed rest x Hsp Hip Hfp Hex
       (op_follow_lit rest Hof) Eg He).
  unfold gv_first, unary_tok. tok_red.
  rewrite (Hlex f st (with_tok_rest info T_VALUE rest) eq_refl).
  cbn [lift_res nsp4]. replace (S (S f) - 1 - 0)%nat with (S f) by lia. reflexivity.
Qed.

Lemma parses4_X k : leaf_spec k -> parses4 (X4 k).
Proof.
  intros Hk n pr _ rest tk rest' [Hof Hlex] _ fuel Hfuel st info sp Hsp He Hn.
  cbn [sz4] in Hfuel. destruct fuel as [|[|f]]; try lia.
  cbn [render4] in He.
  rewrite expr_get_value_S, (lex_skip_ws ia ib exec original f st info sp _ Hsp He).
  set (i0 := with_rest info (ltext4 k ++ rest)).
  destruct (Hk rest Hof f st i0 eq_refl) as [Hne Hev].
  assert (Hno : noeval i0 = negb (n =? 0)%N) by (apply noeval_n; unfold i0; info_red; exact Hn).
  unfold val4. cbn [nsp4]. replace (S (S f) - 1 - 0)%nat with (S f) by lia.
  destruct (n =? 0)%N eqn:En; cbn [negb] in Hno.
  - rewrite (Hev Hno). cbn [ev4]. destruct (lsem4 exec k st) as [st1 r]. cbn [fst snd].
    exists st1, r. split; [reflexivity|].
    destruct r as [d|e|p|]; cbn [lift_res]; try reflexivity.
    unfold gv_first, unary_tok. tok_red.
    rewrite (Hlex f st1 (with_tok_rest i0 T_VALUE rest) eq_refl). reflexivity.
  - destruct (Hne Hno) as [d Ed]. rewrite Ed.
    exists st, (Ok d). split; [split; [reflexivity|eexists; reflexivity]|].
    cbn [lift_res]. unfold gv_first, unary_tok. tok_red.
    rewrite (Hlex f st (with_tok_rest i0 T_VALUE rest) eq_refl). reflexivity.
Qed.

Lemma parses4_P s1 s2 t : ws s1 = true -> ws s2 = true -> parses4 t -> parses4 (P4 s1 s2 t).
Proof.
  intros Hs1 Hs2 IH n pr _ rest tk rest' [Hof Hlex] _ fuel Hfuel st info sp Hsp He Hn.
  cbn [sz4] in Hfuel. destruct fuel as [|[|f]]; try lia.
  assert (He' : e_rest info = sp ++ 40%N :: s1 ++ render4 t ++ s2 ++ 41%N :: rest).
  { rewrite He. cbn [render4 app]. rewrite <- !app_assoc. reflexivity. }
  assert (Hfu : (2 * sz4 t <= S f)%nat) by lia.
  pose proof (topl4_bounds t) as Htl.
  destruct (IH n (-1) ltac:(lia) (s2 ++ 41%N :: rest) T_CLOSE_PAREN rest (follows3_close_ws s2 rest Hs2)
              (head_ok4_close t) (S f) Hfu st
              (with_tok_rest info T_OPEN_PAREN (s1 ++ render4 t ++ s2 ++ 41%N :: rest)) s1
              (ws_whitespace s1 Hs1) eq_refl Hn) as (st1 & r & Hr & Eg).
  exists st1, r. split; [exact Hr|].
  rewrite expr_get_value_S, (lex_open_paren ia ib exec original f st info sp _ Hsp He').
  unfold gv_first. tok_red. rewrite Eg.
  destruct r as [v|e|p|]; cbn [lift_res]; try reflexivity.
  pose proof (nsp4_lt_sz4 t) as Hns.
  destruct (S f - 1 - nsp4 t)%nat as [|k] eqn:Ek; [lia|].
  rewrite loop_stops_at_end by (info_red; tauto).
  tok_red.
  match goal with |- context [LEX (S f) st1 ?i] => rewrite (Hlex f st1 i eq_refl) end.
  cbn [nsp4]. replace (S (S f) - 1 - 0)%nat with (S f) by lia. reflexivity.
Qed.

Lemma parses4_U u s t :
  ws s = true -> ok4 ia t = true -> 15 < topl4 t -> parses4 t -> parses4 (U4 u s t).
Proof.
  intros Hs Hok Htop IH n pr _ rest tk rest' Hfol Hh fuel Hfuel st info sp Hsp He Hn.
  cbn [sz4] in Hfuel. destruct fuel as [|[|f]]; try lia.
  assert (He' : e_rest info = sp ++ ustr u ++ s ++ render4 t ++ rest).
  { rewrite He. cbn [render4]. rewrite <- !app_assoc. reflexivity. }
  assert (Hlexu : LEX (S f) st info =
                  (st, Ok (d_none, with_tok_rest info (ulex u) (s ++ render4 t ++ rest)))).
  { refine (lexes_ws ia ib exec original sp (ustr u ++ s ++ render4 t ++ rest) (ulex u)
                      (s ++ render4 t ++ rest) Hsp _ f st info He').
    apply lexes_unary. apply next_ok_ws; [exact Hs|]. apply (render4_next_ok ia), Hok. }
  destruct Hh as [Hft _].
  assert (Hh' : head_ok4 t tk).
  { split; [exact Hft|]. intros H8. pose proof (ftok_prec tk Hft H8). pose proof (topr4_bounds t). lia. }
  assert (Hfu : (2 * sz4 t <= S f)%nat) by lia.
  destruct (IH n 15 Htop rest tk rest' Hfol Hh' (S f) Hfu st
              (with_token (with_tok_rest info (ulex u) (s ++ render4 t ++ rest)) (utok u)) s
              (ws_whitespace s Hs) eq_refl Hn) as (st1 & r & Hr & Eg).
  exists st1, (match r with
               | Ok v => if (n =? 0)%N then unary_apply (utok u) v else Ok v
               | other => other
               end).
  split.
  { unfold val4 in *. destruct (n =? 0)%N.
    - cbn [ev4]. rewrite <- Hr. destruct r as [v|e|p|]; reflexivity.
    - destruct Hr as [-> [v ->]]. split; [reflexivity|eexists; reflexivity]. }
  rewrite expr_get_value_S, Hlexu,
    (gv_first_unary ia ib exec original (S f) st d_none
       (with_tok_rest info (ulex u) (s ++ render4 t ++ rest)) u eq_refl), Eg.
  destruct r as [v|e|p|]; cbn [lift_res]; try reflexivity.
  pose proof (nsp4_lt_sz4 t) as Hns.
  destruct (S f - 1 - nsp4 t)%nat as [|k] eqn:Ek; [lia|].
  rewrite loop_stop_ftok.
  2:{ info_red. exact Hft. }
  2:{ info_red. intros H8. pose proof (ftok_prec tk Hft H8). lia. }
  rewrite (noeval_n _ n) by (info_red; exact Hn).
  cbn [nsp4]. replace (S (S f) - 1 - 0)%nat with (S f) by lia.
  destruct (n =? 0)%N; cbn [negb]; [|reflexivity].
  destruct (unary_apply (utok u) v); cbn [lift_res]; reflexivity.
Qed.

(* ---- ordinary binary operators ---- *)

Lemma parses4_B o s1 s2 l r :
  (forall x, next_ok x -> follows3 (s1 ++ opstr o ++ s2 ++ x) (tok_of o) (s2 ++ x)) ->
  ws s2 = true -> ok4 ia r = true ->
  oprec o <= topl4 l -> oprec o <= topr4 l -> oprec o < topl4 r ->
  parses4 l -> parses4 r -> parses4 (B4 o s1 s2 l r).
Proof.
  intros Hfo Hs2 Hokr Hgel Hger Hgtr IHl IHr n pr Hgt rest tk rest' Hfol Hh fuel Hfuel st info sp Hsp He Hn.
  cbn [topl4] in Hgt. cbn [sz4] in Hfuel.
  pose proof (nsp4_lt_sz4 l) as Hnl. pose proof (nsp4_lt_sz4 r) as Hnr.
  destruct Hh as [Hft Hhp]. cbn [topr4] in Hhp.
  assert (He' : e_rest info = sp ++ render4 l ++ s1 ++ opstr o ++ s2 ++ render4 r ++ rest).
  { rewrite He. cbn [render4]. rewrite <- !app_assoc. reflexivity. }
  assert (Hhl : head_ok4 l (tok_of o)).
  { split; [right; right; right; pose proof (tok_of_ordinary o) as Ho;
            unfold ordinary, T_BIT_OR, T_COLON in *; lia|]. intros _. exact Hger. }
  assert (Hfl : (2 * sz4 l <= fuel)%nat) by lia.
  destruct (IHl n pr ltac:(lia) _ (tok_of o) _
              (Hfo (render4 r ++ rest) (render4_next_ok ia r rest Hokr)) Hhl fuel Hfl st info sp Hsp He' Hn)
    as (st1 & rl & Hrl & Egl).
  set (f1 := (fuel - 2 - nsp4 l)%nat).
  assert (Ef1 : (fuel - 1 - nsp4 l = S f1)%nat) by lia.
  set (i_o := with_tok_rest info (tok_of o) (s2 ++ render4 r ++ rest)) in *.
  assert (Hhr : head_ok4 r tk).
  { split; [exact Hft|]. intros H8. specialize (Hhp H8). pose proof (topr4_bounds r). lia. }
  assert (Hfr : (2 * sz4 r <= f1)%nat) by lia.
  destruct (IHr n (oprec o) Hgtr rest tk rest' Hfol Hhr f1 Hfr st1 i_o s2 (ws_whitespace s2 Hs2) eq_refl Hn)
    as (st2 & rr & Hrr & Egr).
  rewrite Egl. cbn [nsp4]. replace (fuel - 1 - S (nsp4 l))%nat with f1 by lia.
  destruct rl as [vl|e|p|].
  2,3,4: (eexists st1, _; split;
          [unfold val4 in *; destruct (n =? 0)%N;
           [cbn [ev4]; rewrite <- Hrl; reflexivity|destruct Hrl as [_ [v Hv]]; discriminate Hv]
          |reflexivity]).
  exists st2, (match rr with
               | Ok v2 => if (n =? 0)%N then apply_binop (tok_of o) vl v2 else Ok vl
               | other => other
               end).
  split.
  { unfold val4 in *. destruct (n =? 0)%N.
    - cbn [ev4]. rewrite <- Hrl, <- Hrr. destruct rr; reflexivity.
    - destruct Hrl as [-> _]. destruct Hrr as [-> [v2 ->]]. split; [reflexivity|eexists; reflexivity]. }
  cbn [lift_res]. rewrite Ef1.
  rewrite (loop_step_ordinary ia ib exec original f1 st1 i_o pr vl (tok_of_ordinary o) Hgt).
  change (prec (e_token i_o)) with (oprec o). change (e_token i_o) with (tok_of o).
  rewrite Egr. destruct rr as [v2|e|p|]; cbn [lift_res]; try reflexivity.
  destruct (f1 - 1 - nsp4 r)%nat as [|f2] eqn:Ef2; [lia|].
  rewrite loop_stop_ftok by (info_red; assumption).
  rewrite ftok_not_bad by (info_red; exact Hft).
  rewrite (noeval_n _ n) by (unfold i_o; info_red; exact Hn).
  destruct (n =? 0)%N; cbn [negb]; [|reflexivity].
  destruct (apply_binop (tok_of o) vl v2); reflexivity.
Qed.

(* ---- && and || ---- *)

Lemma parses4_A o s1 s2 l r :
  ws s1 = true -> ws s2 = true ->
  lprec o <= topl4 l -> lprec o <= topr4 l -> lprec o < topl4 r ->
  parses4 l -> parses4 r -> parses4 (A4 o s1 s2 l r).
Proof.
  intros Hs1 Hs2 Hgel Hger Hgtr IHl IHr n pr Hgt rest tk rest' Hfol Hh fuel Hfuel st info sp Hsp He Hn.
  cbn [topl4] in Hgt. cbn [sz4] in Hfuel.
  pose proof (nsp4_lt_sz4 l) as Hnl. pose proof (nsp4_lt_sz4 r) as Hnr.
  pose proof (lprec_bounds o) as Hlb.
  destruct Hh as [Hft Hhp]. cbn [topr4] in Hhp.
  assert (He' : e_rest info = sp ++ render4 l ++ s1 ++ lstr o ++ s2 ++ render4 r ++ rest).
  { rewrite He. cbn [render4]. rewrite <- !app_assoc. reflexivity. }
  assert (Hhl : head_ok4 l (ltok o)).
  { split; [right; right; right; destruct o; vm_compute; split; discriminate|]. intros _. exact Hger. }
  assert (Hfl : (2 * sz4 l <= fuel)%nat) by lia.
  destruct (IHl n pr ltac:(lia) _ (ltok o) _ (follows3_lop o s1 s2 (render4 r ++ rest) Hs1) Hhl fuel Hfl
              st info sp Hsp He' Hn) as (st1 & rl & Hrl & Egl).
  set (f1 := (fuel - 2 - nsp4 l)%nat).
  assert (Ef1 : (fuel - 1 - nsp4 l = S f1)%nat) by lia.
  set (i_o := with_tok_rest info (ltok o) (s2 ++ render4 r ++ rest)) in *.
  assert (Hhr : head_ok4 r tk).
  { split; [exact Hft|]. intros H8. specialize (Hhp H8). pose proof (topr4_bounds r). lia. }
  assert (Hfr : (2 * sz4 r <= f1)%nat) by lia.
  (* the right operand evaluated, from the state after the left operand ... *)
  destruct (IHr n (lprec o) Hgtr rest tk rest' Hfol Hhr f1 Hfr st1 i_o s2 (ws_whitespace s2 Hs2) eq_refl Hn)
    as (st2 & rr & Hrr & Egr).
  (* ... and skipped *)
  assert (Hns : e_noeval (with_noeval i_o (e_noeval i_o + 1)) = (n + 1)%N).
  { unfold i_o. info_red. rewrite Hn. reflexivity. }
  destruct (IHr (n + 1)%N (lprec o) Hgtr rest tk rest' Hfol Hhr f1 Hfr st1
              (with_noeval i_o (e_noeval i_o + 1)) s2 (ws_whitespace s2 Hs2) eq_refl Hns)
    as (st2s & rs & Hrs & Egs).
  unfold val4 in Hrs. replace (n + 1 =? 0)%N with false in Hrs by lia. destruct Hrs as [-> [vs ->]].
  cbn [lift_res] in Egs.
  destruct (f1 - 1 - nsp4 r)%nat as [|f2] eqn:Ef2; [lia|].
  assert (Hstop : forall sx i v, e_token i = tk -> LOOP (S f2) sx i (lprec o) v = (sx, Ok (v, i))).
  { intros sx i v Hi. apply loop_stop_ftok; rewrite Hi; [exact Hft|]. intros H8. specialize (Hhp H8). lia. }
  rewrite Hstop in Egs by reflexivity.
  (* the short-circuit step *)
  assert (Hskip : forall res,
            loop_skip_right ia ib exec original f1 st1 i_o pr res =
            LOOP f1 st1 (with_tok_rest info tk rest') pr res).
  { intros res. unfold loop_skip_right. change (prec (e_token i_o)) with (lprec o).
    rewrite Egs. unfold i_o.
    match goal with |- LOOP _ _ ?X _ _ = _ => replace X with (with_tok_rest info tk rest'); [reflexivity|] end.
    unfold with_noeval, with_tok_rest. cbn [e_rest e_token e_noeval]. f_equal. lia. }
  (* the step that evaluates the right operand *)
  assert (Hfull : forall x,
            match GV f1 st1 i_o (lprec o) with
            | (sx, Ok (v2, i2)) => loop_after ia ib exec original f1 (ltok o) pr sx i2 (DInt x) v2
            | (sx, Err e) => (sx, Err e)
            | (sx, Panic p) => (sx, Panic p)
            | (sx, Fuel) => (sx, Fuel)
            end =
            lift_res st2 rr (fun v2 =>
              if (n =? 0)%N then
                lift_res st2 (apply_binop (ltok o) (DInt x) v2)
                         (fun v' => LOOP f1 st2 (with_tok_rest info tk rest') pr v')
              else LOOP f1 st2 (with_tok_rest info tk rest') pr (DInt x))).
  { intros x. rewrite Egr. destruct rr as [v2|e|p|]; cbn [lift_res]; try reflexivity.
    rewrite Hstop by reflexivity. unfold loop_after.
    rewrite ftok_not_bad by (info_red; exact Hft).
    rewrite (noeval_n _ n) by (unfold i_o; info_red; exact Hn).
    destruct (n =? 0)%N; cbn [negb]; [|reflexivity].
    destruct (apply_binop (ltok o) (DInt x) v2); reflexivity. }
  cbn [nsp4]. replace (fuel - 1 - S (nsp4 l))%nat with f1 by lia.
  rewrite Egl. unfold val4 in *. destruct (n =? 0)%N eqn:En.
  - (* evaluation mode *)
    assert (Hne : noeval i_o = false).
    { rewrite (noeval_n _ n) by (unfold i_o; info_red; exact Hn). rewrite En. reflexivity. }
    cbn [ev4]. rewrite <- Hrl.
    destruct rl as [vl|e|p|]; cbn [rb lift_res]; [|eexists _, _; split; reflexivity..].
    pose proof (conv_left_cases i_o vl Hne) as Hc. change (e_token i_o) with (ltok o) in Hc.
    destruct (truth3 (ltok o) vl) as [ta|e|p|] eqn:Et; [| |contradiction..].
    + destruct Hc as (x & Hc & Hx).
      rewrite Ef1, (loop_step_lop ia ib exec original f1 st1 i_o pr vl o x eq_refl Hgt Hc).
      rewrite Hskip, Hfull. rewrite <- Hrr.
      destruct (is_and o) eqn:Eo; destruct ta; cbn [negb andb] in *; rewrite Hx.
      * (* && , left true *)
        destruct rr as [v2|e|p|]; cbn [rb lift_res]; [|eexists _, _; split; reflexivity..].
        rewrite (apply_binop_lop3 o x v2), Eo, Hx.
        destruct (truth3 (ltok o) v2) as [tb|e|p|]; cbn [rb lift_res negb andb d_bool];
          eexists _, _; split; reflexivity.
      * (* && , left false: skipped *)
        assert (x = 0) by lia. subst x. eexists _, _; split; reflexivity.
      * (* || , left true: skipped *)
        eexists _, _; split; reflexivity.
      * (* || , left false *)
        destruct rr as [v2|e|p|]; cbn [rb lift_res]; [|eexists _, _; split; reflexivity..].
        rewrite (apply_binop_lop3 o x v2), Eo, Hx.
        destruct (truth3 (ltok o) v2) as [tb|e|p|]; cbn [rb lift_res negb orb d_bool];
          eexists _, _; split; reflexivity.
    + rewrite Ef1, (loop_step_conv_err ia ib exec original f1 st1 i_o pr vl e) by
        (first [destruct o; cbn [ltok]; tauto | exact Hgt | exact Hc]).
      eexists _, _; split; reflexivity.
  - (* no-eval mode *)
    destruct Hrl as [-> [vl ->]]. destruct Hrr as [-> [v2 ->]]. cbn [lift_res].
    assert (Hne : noeval i_o = true).
    { rewrite (noeval_n _ n) by (unfold i_o; info_red; exact Hn). rewrite En. reflexivity. }
    destruct (conv_left_noeval i_o vl Hne) as (x & Hc).
    rewrite Ef1, (loop_step_lop ia ib exec original f1 st i_o pr vl o x eq_refl Hgt Hc).
    rewrite Hskip, Hfull. cbn [lift_res].
    destruct (if is_and o then x =? 0 else negb (x =? 0));
      eexists st, _; (split; [split; [reflexivity|eexists; reflexivity]|reflexivity]).
Qed.

(* ---- ?: ---- *)

Lemma parses4_Q s1 s2 s3 s4 c a b :
  ws s1 = true -> ws s2 = true -> ws s3 = true -> ws s4 = true -> 2 <= topr4 c ->
  parses4 c -> parses4 a -> parses4 b -> parses4 (Q4 s1 s2 s3 s4 c a b).
Proof.
  intros Hs1 Hs2 Hs3 Hs4 Htc IHc IHa IHb n pr Hgt rest tk rest' Hfol Hh fuel Hfuel st info sp Hsp He Hn.
  cbn [topl4] in Hgt. cbn [sz4] in Hfuel.
  pose proof (nsp4_lt_sz4 c) as Hnc. pose proof (nsp4_lt_sz4 a) as Hna. pose proof (nsp4_lt_sz4 b) as Hnb.
  destruct Hh as [Hft Hhp]. cbn [topr4] in Hhp.
  set (R4 := s4 ++ render4 b ++ rest).
  set (R2 := s2 ++ render4 a ++ s3 ++ 58%N :: R4).
  assert (He' : e_rest info = sp ++ render4 c ++ s1 ++ 63%N :: R2).
  { rewrite He. unfold R2, R4. cbn [render4]. rewrite <- !app_assoc. cbn [app].
    rewrite <- !app_assoc. cbn [app]. rewrite <- !app_assoc. reflexivity. }
  assert (Hfq : follows3 (s1 ++ 63%N :: R2) T_QUESTY R2).
  { apply follows3_char_ws; [exact Hs1|reflexivity|apply lexes_questy]. }
  assert (Hfc : follows3 (s3 ++ 58%N :: R4) T_COLON R4).
  { apply follows3_char_ws; [exact Hs3|reflexivity|apply lexes_colon]. }
  assert (Hhc : head_ok4 c T_QUESTY).
  { split; [right; right; right; vm_compute; split; discriminate|]. intros _. exact Htc. }
  assert (Hha : head_ok4 a T_COLON).
  { split; [right; right; right; vm_compute; split; discriminate|]. intros _.
    pose proof (topr4_bounds a). change (prec T_COLON) with 1. lia. }
  assert (Hhb : head_ok4 b tk).
  { split; [exact Hft|]. intros H8. specialize (Hhp H8). pose proof (topr4_bounds b). lia. }
  pose proof (topr4_bounds c) as Hbc. pose proof (topl4_bounds a) as Hba. pose proof (topl4_bounds b) as Hbb.
  assert (Hfcnd : (2 * sz4 c <= fuel)%nat) by lia.
  destruct (IHc n pr ltac:(lia) _ T_QUESTY _ Hfq Hhc fuel Hfcnd st info sp Hsp He' Hn)
    as (st1 & rc & Hrc & Egc).
  set (f1 := (fuel - 2 - nsp4 c)%nat).
  assert (Ef1 : (fuel - 1 - nsp4 c = S f1)%nat) by lia.
  set (i_q := with_tok_rest info T_QUESTY R2) in *.
  assert (Hfa : (2 * sz4 a <= f1)%nat) by lia.
  assert (Hfb : (2 * sz4 b <= f1)%nat) by lia.
  destruct (f1 - 1 - nsp4 a)%nat as [|fa] eqn:Efa; [lia|].
  destruct (f1 - 1 - nsp4 b)%nat as [|fb] eqn:Efb; [lia|].
  assert (HstopC : forall k sx i v, e_token i = T_COLON -> LOOP (S k) sx i pq v = (sx, Ok (v, i))).
  { intros k sx i v Hi. apply loop_stop_ftok; rewrite Hi; [right; right; right; vm_compute; split; discriminate|].
    intros _. vm_compute. discriminate. }
  assert (HstopT : forall k sx i v, e_token i = tk -> LOOP (S k) sx i pq v = (sx, Ok (v, i))).
  { intros k sx i v Hi. apply loop_stop_ftok; rewrite Hi; [exact Hft|]. intros H8. specialize (Hhp H8).
    change pq with 1. lia. }
  assert (Hpqa : pq < topl4 a) by (change pq with 1; lia).
  assert (Hpqb : pq < topl4 b) by (change pq with 1; lia).
  (* the condition is true: the first arm is evaluated, the second skipped *)
  assert (Htrue : exists st2 ra, val4 n a st1 st2 ra /\
            loop_questy_true ia ib exec original f1 st1 i_q pr =
            lift_res st2 ra (fun v => LOOP f1 st2 (with_tok_rest info tk rest') pr v)).
  { unfold loop_questy_true.
    destruct (IHa n pq Hpqa _ T_COLON _ Hfc Hha f1 Hfa st1 i_q s2 (ws_whitespace s2 Hs2) eq_refl Hn)
      as (st2 & ra & Hra & Ega).
    exists st2, ra. split; [exact Hra|]. rewrite Ega.
    destruct ra as [va|e|p|]; cbn [lift_res]; try reflexivity.
    rewrite Efa, HstopC by reflexivity.
    change (e_token (with_tok_rest i_q T_COLON R4) =? T_COLON) with true. cbn [negb].
    match goal with |- context [GV f1 st2 ?i pq] =>
      assert (Hni : e_noeval i = (n + 1)%N) by (unfold i_q; info_red; rewrite Hn; reflexivity);
      destruct (IHb (n + 1)%N pq Hpqb rest tk rest' Hfol Hhb f1 Hfb st2 i s4 (ws_whitespace s4 Hs4)
                    eq_refl Hni) as (st3 & rb0 & Hrb & Egb)
    end.
    unfold val4 in Hrb. replace (n + 1 =? 0)%N with false in Hrb by lia. destruct Hrb as [-> [vb ->]].
    rewrite Egb. cbn [lift_res]. rewrite Efb, HstopT by reflexivity.
    unfold loop_after. rewrite ftok_not_bad by (info_red; exact Hft).
    match goal with |- context [noeval ?i] =>
      rewrite (noeval_n i n) by (unfold i_q; info_red; rewrite Hn; lia) end.
    match goal with |- context [LOOP f1 st2 ?X pr va] =>
      replace X with (with_tok_rest info tk rest')
        by (unfold i_q, with_noeval, with_tok_rest; cbn [e_rest e_token e_noeval]; f_equal; lia) end.
    change (e_token i_q) with T_QUESTY. rewrite apply_binop_questy.
    destruct (n =? 0)%N; reflexivity. }
  (* the condition is false: the first arm is skipped, the second evaluated *)
  assert (Hfalse : exists st2 rb0, val4 n b st1 st2 rb0 /\
            loop_questy_false ia ib exec original f1 st1 i_q pr =
            lift_res st2 rb0 (fun v => LOOP f1 st2 (with_tok_rest info tk rest') pr v)).
  { unfold loop_questy_false.
    match goal with |- context [GV f1 st1 ?i pq] =>
      assert (Hni : e_noeval i = (n + 1)%N) by (unfold i_q; info_red; rewrite Hn; reflexivity);
      destruct (IHa (n + 1)%N pq Hpqa _ T_COLON _ Hfc Hha f1 Hfa st1 i s2 (ws_whitespace s2 Hs2)
                    eq_refl Hni) as (st2 & ra & Hra & Ega)
    end.
    unfold val4 in Hra. replace (n + 1 =? 0)%N with false in Hra by lia. destruct Hra as [-> [va ->]].
    rewrite Ega. cbn [lift_res]. rewrite Efa, HstopC by reflexivity. cbv zeta.
    match goal with |- context [negb (e_token ?i =? T_COLON)] =>
      change (e_token i =? T_COLON) with true end.
    cbn [negb].
    match goal with |- context [GV f1 st1 ?i pq] =>
      assert (Hni' : e_noeval i = n) by (unfold i_q; info_red; rewrite Hn; lia);
      destruct (IHb n pq Hpqb rest tk rest' Hfol Hhb f1 Hfb st1 i s4 (ws_whitespace s4 Hs4)
                    eq_refl Hni') as (st3 & rb0 & Hrb & Egb)
    end.
    exists st3, rb0. split; [exact Hrb|]. rewrite Egb.
    destruct rb0 as [vb|e|p|]; cbn [lift_res]; try reflexivity.
    rewrite Efb, HstopT by reflexivity.
    unfold loop_after. rewrite ftok_not_bad by (info_red; exact Hft).
    match goal with |- context [noeval ?i] =>
      rewrite (noeval_n i n) by (unfold i_q; info_red; rewrite Hn; lia) end.
    match goal with |- context [LOOP f1 st3 ?X pr vb] =>
      replace X with (with_tok_rest info tk rest')
        by (unfold i_q, with_noeval, with_tok_rest; cbn [e_rest e_token e_noeval]; f_equal; lia) end.
    change (e_token i_q) with T_QUESTY. rewrite apply_binop_questy.
    destruct (n =? 0)%N; reflexivity. }
  destruct Htrue as (st2a & ra & Hra & Etrue). destruct Hfalse as (st2b & rb0 & Hrb & Efalse).
  cbn [nsp4]. replace (fuel - 1 - S (nsp4 c))%nat with f1 by lia.
  rewrite Egc. unfold val4 in *. destruct (n =? 0)%N eqn:En.
  - assert (Hne : noeval i_q = false).
    { rewrite (noeval_n _ n) by (unfold i_q; info_red; exact Hn). rewrite En. reflexivity. }
    cbn [ev4]. rewrite <- Hrc.
    destruct rc as [vc|e|p|]; cbn [rb lift_res]; [|eexists _, _; split; reflexivity..].
    pose proof (conv_left_cases i_q vc Hne) as Hc. change (e_token i_q) with T_QUESTY in Hc.
    destruct (truth3 T_QUESTY vc) as [tc|e|p|] eqn:Et; [| |contradiction..].
    + destruct Hc as (x & Hc & Hx).
      rewrite Ef1, (loop_step_questy ia ib exec original f1 st1 i_q pr vc x eq_refl Hgt Hc), Hx.
      destruct tc; cbn [negb].
      * rewrite <- Hra. exists st2a, ra. split; [reflexivity|exact Etrue].
      * rewrite <- Hrb. exists st2b, rb0. split; [reflexivity|exact Efalse].
    + rewrite Ef1, (loop_step_conv_err ia ib exec original f1 st1 i_q pr vc e) by
        (first [right; right; reflexivity | exact Hgt | exact Hc]).
      eexists _, _; split; reflexivity.
  - destruct Hrc as [-> [vc ->]]. cbn [lift_res].
    assert (Hne : noeval i_q = true).
    { rewrite (noeval_n _ n) by (unfold i_q; info_red; exact Hn). rewrite En. reflexivity. }
    destruct (conv_left_noeval i_q vc Hne) as (x & Hc).
    rewrite Ef1, (loop_step_questy ia ib exec original f1 st i_q pr vc x eq_refl Hgt Hc).
    destruct (negb (x =? 0)).
    + exists st2a, ra. split; [exact Hra|exact Etrue].
    + exists st2b, rb0. split; [exact Hrb|exact Efalse].
Qed.

(* ---- math functions ---- *)

Lemma parses4_Fn fn s1 s2 s3 t :
  ib_ok2 ib -> ws s1 = true -> ws s2 = true -> ws s3 = true -> parses4 t ->
  parses4 (Fn4 fn s1 s2 s3 t).
Proof.
  intros Hib Hs1 Hs2 Hs3 IH n pr _ rest tk rest' [Hof Hlex] _ fuel Hfuel st info sp Hsp He Hn.
  cbn [sz4] in Hfuel. destruct fuel as [|[|[|[|f]]]]; try lia.
  set (R3 := s3 ++ 41%N :: rest).
  set (R2 := s2 ++ render4 t ++ R3).
  assert (He' : e_rest info = sp ++ fstr fn ++ s1 ++ 40%N :: R2).
  { rewrite He. unfold R2, R3. cbn [render4]. rewrite <- !app_assoc. cbn [app].
    rewrite <- !app_assoc. cbn [app]. reflexivity. }
  set (i0 := with_rest info (s1 ++ 40%N :: R2)).
  assert (Hname : LEX (S (S (S f))) st info = MF (S (S f)) st i0 (fstr fn)).
  { rewrite (lex_skip_ws ia ib exec original _ st info sp _ Hsp He'). unfold i0.
    destruct s1 as [|c s1'].
    - cbn [app].
      rewrite (lex_fn_name ia ib exec original _ st (with_rest info (fstr fn ++ 40%N :: R2)) fn 40%N R2
                 Hib ltac:(tauto) eq_refl). reflexivity.
    - destruct (ws_head c s1' Hs1) as [Hc _]. cbn [app].
      rewrite (lex_fn_name ia ib exec original _ st
                 (with_rest info (fstr fn ++ c :: s1' ++ 40%N :: R2)) fn c (s1' ++ 40%N :: R2)
                 Hib ltac:(tauto) eq_refl). reflexivity. }
  set (i1 := with_tok_rest i0 T_OPEN_PAREN R2).
  assert (Hopen : LEX (S f) st i0 = (st, Ok (d_none, i1))).
  { apply (lex_open_paren ia ib exec original f st i0 s1 R2 (ws_whitespace s1 Hs1)). reflexivity. }
  assert (Hfu : (2 * sz4 t <= S f)%nat) by lia.
  pose proof (topl4_bounds t) as Htl.
  destruct (IH n (-1) ltac:(lia) R3 T_CLOSE_PAREN rest (follows3_close_ws s3 rest Hs3)
              (head_ok4_close t) (S f) Hfu st i1 s2 (ws_whitespace s2 Hs2) eq_refl Hn)
    as (st1 & r & Hr & Eg).
  exists st1, (match r with
               | Ok arg => if (n =? 0)%N then fn_apply fn arg else Ok d_none
               | other => other
               end).
  split.
  { unfold val4 in *. destruct (n =? 0)%N.
    - cbn [ev4]. rewrite <- Hr. destruct r; reflexivity.
    - destruct Hr as [-> [v ->]]. split; [reflexivity|eexists; reflexivity]. }
  rewrite expr_get_value_S, Hname, expr_math_func_S.
  replace (expr_find_func (fstr fn)) with true by (destruct fn; reflexivity). cbn [negb].
  rewrite Hopen. change (e_token i1 =? T_OPEN_PAREN) with true. cbn [negb].
  rewrite Eg. destruct r as [arg|e|p|]; cbn [lift_res]; try reflexivity.
  pose proof (nsp4_lt_sz4 t) as Hns.
  destruct (S f - 1 - nsp4 t)%nat as [|k] eqn:Ek; [lia|].
  rewrite loop_stops_at_end by (right; left; reflexivity).
  match goal with |- context [noeval ?i] =>
    rewrite (noeval_n i n) by (unfold i1, i0; info_red; exact Hn) end.
  change (e_token (with_tok_rest i1 T_CLOSE_PAREN rest) =? T_CLOSE_PAREN) with true.
  cbv iota zeta.
  assert (Hfin : forall d,
    match gv_first ia ib exec original (S (S (S f))) st1 d
            (with_token (with_tok_rest i1 T_CLOSE_PAREN rest) T_VALUE) with
    | (sx, Ok (v, i2, got_op)) =>
        if got_op then LOOP (S (S (S f))) sx i2 pr v
        else
          match LEX (S (S (S f))) sx i2 with
          | (sy, Ok (_, i3)) => LOOP (S (S (S f))) sy i3 pr v
          | (sy, Err e) => (sy, Err e)
          | (sy, Panic p) => (sy, Panic p)
          | (sy, Fuel) => (sy, Fuel)
          end
    | (sx, Err e) => (sx, Err e)
    | (sx, Panic p) => (sx, Panic p)
    | (sx, Fuel) => (sx, Fuel)
    end = LOOP (S (S (S (S f))) - 1 - nsp4 (Fn4 fn s1 s2 s3 t)) st1 (with_tok_rest info tk rest') pr d).
  { intros d. unfold gv_first, unary_tok. tok_red.
    match goal with |- context [LEX (S (S (S f))) st1 ?i] => rewrite (Hlex _ st1 i eq_refl) end.
    reflexivity. }
  destruct (n =? 0)%N eqn:En; cbn [negb andb].
  - destruct arg as [z|x|s]; cbn [is_string fn_apply]; cbv iota.
    + destruct (call_func (fstr fn) (DInt z)) as [d|e|p|]; cbn [lift_res]; try reflexivity. apply Hfin.
    + destruct (call_func (fstr fn) (DFlt x)) as [d|e|p|]; cbn [lift_res]; try reflexivity. apply Hfin.
    + reflexivity.
  - cbn [lift_res]. apply Hfin.
Qed.

(* ---- all constructors together ---- *)

Fixpoint uses_alpha4 (t : tree4) : bool :=
  match t with
  | L4 _ => false
  | X4 _ => false
  | P4 _ _ t => uses_alpha4 t
  | U4 _ _ t => uses_alpha4 t
  | B4 o _ _ l r => alpha_op o || uses_alpha4 l || uses_alpha4 r
  | A4 _ _ _ l r => uses_alpha4 l || uses_alpha4 r
  | Q4 _ _ _ _ c a b => uses_alpha4 c || uses_alpha4 a || uses_alpha4 b
  | Fn4 _ _ _ _ _ => true
  | F4 _ _ _ _ => false
  end.

Theorem parses4_all : forall t, all_leaves4 leaf_spec t ->
  ok4 ia t = true -> (uses_alpha4 t = true -> ib_ok2 ib) -> parses4 t.
Proof.
  induction t as [z|k|s1 s2 t IH|u s t IH|o s1 s2 l IHl r IHr|o s1 s2 l IHl r IHr
                 |s1 s2 s3 s4 c IHc a IHa b IHb|f s1 s2 s3 t IH|ip fp es ed];
    cbn [ok4 uses_alpha4 all_leaves4]; intros Hlf Hok Hal;
    repeat (apply andb_true_iff in Hok; let H' := fresh "Hk" in destruct Hok as [Hok H']).
  - apply parses4_L. lia.
  - apply parses4_X, Hlf.
  - apply parses4_P; auto.
  - apply parses4_U; try assumption; [zb|auto].
  - destruct Hlf as [Hlf1 Hlf2]. apply parses4_B; try assumption; [|zb|zb|zb| |].
    + intros x Hx. apply follows3_bop; auto.
      intros Ha. rewrite Ha in *. apply andb_true_iff in Hk4. destruct Hk4 as [Hn1 Hn2].
      split; [|split]; auto.
    + apply IHl; auto. intros Hu. apply Hal. rewrite Hu. apply orb_true_iff. left. apply orb_true_r.
    + apply IHr; auto. intros Hu. apply Hal. rewrite Hu. apply orb_true_r.
  - destruct Hlf as [Hlf1 Hlf2]. apply parses4_A; try assumption; [zb|zb|zb| |].
    + apply IHl; auto. intros Hu. apply Hal. rewrite Hu. reflexivity.
    + apply IHr; auto. intros Hu. apply Hal. rewrite Hu. apply orb_true_r.
  - destruct Hlf as (Hlf1 & Hlf2 & Hlf3). apply parses4_Q; try assumption; [zb| | |].
    + apply IHc; auto. intros Hu. apply Hal. rewrite Hu. reflexivity.
    + apply IHa; auto. intros Hu. apply Hal. rewrite Hu. apply orb_true_iff. left. apply orb_true_r.
    + apply IHb; auto. intros Hu. apply Hal. rewrite Hu. apply orb_true_r.
  - apply parses4_Fn; auto.
  - apply parses4_F; auto. destruct (get_float (ftext ip fp es ed)); [discriminate|discriminate].
Qed.

End Completeness4.
Print Assumptions parses4_all.

(* every leaf of a well-formed tree satisfies the leaf hypothesis *)
Fixpoint uses_bool4 (t : tree4) : bool :=
  match t with
  | X4 (K3 (KBool _)) => true
  | P4 _ _ t | U4 _ _ t | Fn4 _ _ _ _ t => uses_bool4 t
  | B4 _ _ _ l r | A4 _ _ _ l r => uses_bool4 l || uses_bool4 r
  | Q4 _ _ _ _ c a b => uses_bool4 c || uses_bool4 a || uses_bool4 b
  | _ => false
  end.

Lemma leaves_spec4 ia ib exec original t : GrammarFacts.name_ok ia ->
  ok4 ia t = true -> (uses_bool4 t = true -> ib_ok3 ib) ->
  all_leaves4 (leaf_spec4 ia ib exec original) t.
Proof.
  intros Hia.
  induction t as [z|k|s1 s2 t IH|u s t IH|o s1 s2 l IHl r IHr|o s1 s2 l IHl r IHr
                 |s1 s2 s3 s4 c IHc a IHa b IHb|f s1 s2 s3 t IH|ip fp es ed];
    cbn [ok4 uses_bool4 all_leaves4]; intros Hok Hb;
    repeat (apply andb_true_iff in Hok; let H' := fresh "Hk" in destruct Hok as [Hok H']); auto.
  - destruct k as [k|n idx|l|b].
    + apply (leaves_spec ia ib exec original (X3 k) Hia Hok). cbn [uses_bool3]. destruct k; auto.
    + apply leaf_KArr; assumption.
    + apply leaf_KQuoS; assumption.
    + apply leaf_KBraceN; assumption.
  - split; [apply IHl|apply IHr]; auto; intros Hu; apply Hb; rewrite Hu; auto using orb_true_r.
  - split; [apply IHl|apply IHr]; auto; intros Hu; apply Hb; rewrite Hu; auto using orb_true_r.
  - split; [apply IHc|split; [apply IHa|apply IHb]]; auto; intros Hu; apply Hb; rewrite Hu;
      rewrite ?orb_true_r; reflexivity.
Qed.

Lemma ltext4_length k : (1 <= length (ltext4 k))%nat.
Proof.
  destruct k as [k|n idx|l|b]; [apply ltext_length|..];
    cbn [ltext4 SpecGrammar.render_seg SpecGrammar.render_word app length]; lia.
Qed.

Lemma sz4_le_length t : (sz4 t <= length (render4 t))%nat.
Proof.
  induction t as [z|k|s1 s2 t IH|u s t IH|o s1 s2 l IHl r IHr|o s1 s2 l IHl r IHr
                 |s1 s2 s3 s4 c IHc a IHa b IHb|f s1 s2 s3 t IH|ip fp es ed]; cbn [sz4 render4].
  - pose proof (show_Z_nonempty z). destruct (show_Z z); [congruence|cbn [length]; lia].
  - apply ltext4_length.
  - cbn [length]. rewrite !app_length. cbn [length]. lia.
  - rewrite !app_length, ustr_length. lia.
  - rewrite !app_length. pose proof (opstr_length o). lia.
  - rewrite !app_length, lstr_length. lia.
  - rewrite !app_length. cbn [length]. rewrite !app_length. cbn [length]. rewrite !app_length. lia.
  - rewrite !app_length. cbn [length]. rewrite !app_length. cbn [length]. pose proof (fstr_length f). lia.
  - unfold ftext. rewrite !app_length. cbn [length]. lia.
Qed.

(* ====================================================================================== *)
(* 3. from the invariant to expr_eval                                                      *)
(* ====================================================================================== *)

(* THE MAIN THEOREM: value, error and state of a well-formed tree, with arbitrary spaces and
   tabs before and after *)
Theorem expr_eval_render4_ws : forall ia ib exec st t lead trail,
  GrammarFacts.name_ok ia -> ok4 ia t = true ->
  (uses_alpha4 t = true -> ib_ok2 ib) -> (uses_bool4 t = true -> ib_ok3 ib) ->
  ws lead = true -> ws trail = true ->
  expr_eval ia ib exec st (VStr (lead ++ render4 t ++ trail)) =
  (fst (ev4 exec t st), top_res (snd (ev4 exec t st))).
Proof.
  intros ia ib exec st t lead trail Hia Hok Hal Hbo Hlead Htrail. unfold expr_eval. cbn [as_str].
  set (s := lead ++ render4 t ++ trail).
  pose proof (parses4_all ia ib exec s t (leaves_spec4 ia ib exec s t Hia Hok Hbo) Hok Hal) as PP.
  assert (Hfu : (2 * sz4 t <= expr_fuel s)%nat).
  { unfold expr_fuel, s. rewrite !app_length. pose proof (sz4_le_length t). lia. }
  assert (Hfol : follows3 ia ib exec s trail T_END []).
  { rewrite <- (app_nil_r trail). apply follows3_intro.
    - apply op_follow_ws; [exact Htrail|exact I].
    - apply follows_ws; [exact Htrail|apply follows_end]. }
  pose proof (topl4_bounds t) as Htl.
  destruct (PP 0%N (-1) ltac:(lia) trail T_END [] Hfol (head_ok4_end t) (expr_fuel s) Hfu st
               {| e_rest := s; e_token := -1; e_noeval := 0 |} lead
               (ws_whitespace lead Hlead) eq_refl eq_refl) as (st1 & r & Hr & Eg).
  change ((st1, r) = ev4 exec t st) in Hr. rewrite <- Hr. cbn [fst snd]. rewrite Eg.
  destruct r as [v|e|p|]; cbn [lift_res top_res];
    [|destruct (x_code e); reflexivity|reflexivity|reflexivity].
  pose proof (nsp4_lt_sz4 t).
  destruct (expr_fuel s - 1 - nsp4 t)%nat as [|k] eqn:Ek; [lia|].
  rewrite loop_stops_at_end by (info_red; tauto).
  info_red. tok_tests. reflexivity.
Qed.
Print Assumptions expr_eval_render4_ws.

Local Notation std_ia := (Model.Commands.u_alnum Model.Unicode.std_uni).
Local Notation std_ib := (Model.Commands.u_alpha Model.Unicode.std_uni).
Definition ok4_std : tree4 -> bool := ok4 std_ia.

Theorem expr_eval_render4_std : forall exec st t lead trail,
  ok4_std t = true -> ws lead = true -> ws trail = true ->
  expr_eval std_ia std_ib exec st (VStr (lead ++ render4 t ++ trail)) =
  (fst (ev4 exec t st), top_res (snd (ev4 exec t st))).
Proof.
  intros exec st t lead trail Hok Hl Ht.
  apply expr_eval_render4_ws; [exact GrammarFacts.name_ok_std|exact Hok|intros _; exact std_ib_ok2
                              |intros _; exact std_ib_ok3|exact Hl|exact Ht].
Qed.
Print Assumptions expr_eval_render4_std.

(* ====================================================================================== *)
(* 4. what the new leaves mean                                                             *)
(* ====================================================================================== *)

(* ---- array elements ---- *)
Lemma idx_word_lit x : idx_word [SpecGrammar.SLit x] = WValue x.
Proof. unfold idx_word. cbn [fold_left GrammarFacts.tok_seg]. apply tk_take_chars. Qed.

Lemma idx_word_var m : idx_word [SpecGrammar.SVar m] = WVarRef m.
Proof. reflexivity. Qed.

(* a literal index: the element is looked up, the state is unchanged *)
Theorem arr_leaf_value : forall exec n x st,
  ev4 exec (X4 (KArr n [SpecGrammar.SLit x])) st = (st, rb (st_element st n x) expr_parse_value).
Proof. intros. cbn [ev4 lsem4]. rewrite idx_word_lit. reflexivity. Qed.

(* an index that is one $name: the variable is read first *)
Theorem arr_leaf_value_var : forall exec n m st,
  ev4 exec (X4 (KArr n [SpecGrammar.SVar m])) st =
  (st, rb (rb (st_scalar st m) (fun i => st_element st n (as_str i))) expr_parse_value).
Proof.
  intros. cbn [ev4 lsem4]. rewrite idx_word_var. cbn [eval_word].
  destruct (st_scalar st m); reflexivity.
Qed.

Theorem unknown_element_message : forall exec n x st m,
  sc_lookup (i_scopes st) n = Some (VarArray m) -> assoc_get x m = None ->
  ev4 exec (X4 (KArr n [SpecGrammar.SLit x])) st =
  (st, err (lit "can't read """ ++ n ++ lit "(" ++ x ++ lit ")"": no such element in array")).
Proof.
  intros exec n x st m H1 H2. rewrite arr_leaf_value. unfold st_element, sc_get_elem. rewrite H1, H2.
  reflexivity.
Qed.

Theorem unknown_array_message : forall exec n x st,
  sc_lookup (i_scopes st) n = None ->
  ev4 exec (X4 (KArr n [SpecGrammar.SLit x])) st =
  (st, err (lit "can't read """ ++ n ++ lit """: no such variable")).
Proof.
  intros exec n x st H1. rewrite arr_leaf_value. unfold st_element, sc_get_elem. rewrite H1. reflexivity.
Qed.

(* ---- braced strings ---- *)
Theorem brace_leaf_value : forall exec b st,
  ev4 exec (X4 (KBraceN b)) st = (st, expr_parse_string (flat_map SpecGrammar.bseg_value b)).
Proof. reflexivity. Qed.
Print Assumptions arr_leaf_value.
Print Assumptions arr_leaf_value_var.
Print Assumptions unknown_element_message.
Print Assumptions unknown_array_message.
Print Assumptions brace_leaf_value.

(* ---- quoted strings: the value is the concatenation of the pieces, evaluated left to right ---- *)
Section QuoSem.
Variable exec : executor.
Local Notation ew := (eval_word exec).
Local Notation eval_seq := (GrammarFacts.eval_seq exec).
Local Notation tk_pieces := GrammarFacts.tk_pieces.
Local Notation not_expand := GrammarFacts.not_expand.

(* the string of a word's value, and the concatenation of the strings of a sequence's values *)
Definition str_of (x : interp * res value) : interp * res str :=
  (fst x, rb (snd x) (fun v => Ok (as_str v))).
Definition cat_of (x : interp * res (list value)) : interp * res str :=
  (fst x, rb (snd x) (fun l => Ok (concat_str (map as_str l)))).

Lemma take_list_eval st P : forallb not_expand P = true ->
  str_of (ew st (GrammarFacts.take_list P)) = cat_of (eval_seq st P).
Proof.
  intros Hn. destruct P as [|w [|w2 P']].
  - reflexivity.
  - cbn [GrammarFacts.take_list GrammarFacts.eval_seq]. unfold str_of, cat_of.
    destruct (ew st w) as [st1 [v|e|p|]]; cbn [fst snd rb map concat_str]; try reflexivity.
    rewrite app_nil_r. reflexivity.
  - cbn [GrammarFacts.take_list]. rewrite (GrammarFacts.tokens_concat_in_order exec st _ Hn).
    unfold str_of, cat_of. destruct (eval_seq st (w :: w2 :: P')) as [st1 [l|e|p|]]; reflexivity.
Qed.

Lemma tk_take_eval st t : forallb not_expand (tk_pieces t) = true ->
  str_of (ew st (tk_take t)) = cat_of (eval_seq st (tk_pieces t)).
Proof.
  intros Hn. destruct t as [tl [x|]].
  - destruct tl as [|w tl'].
    + unfold str_of, cat_of, tk_take, GrammarFacts.tk_pieces.
      cbn [tk_str tk_list rev app GrammarFacts.eval_seq eval_word fst snd rb map concat_str as_str].
      rewrite ?app_nil_r. reflexivity.
    + change (tk_take {| tk_list := w :: tl'; tk_str := Some x |})
        with (GrammarFacts.take_list (rev (WString (rev x) :: w :: tl'))).
      apply take_list_eval. exact Hn.
  - destruct tl as [|w [|w2 tl']].
    + reflexivity.
    + apply (take_list_eval st [w]). exact Hn.
    + unfold tk_take. cbn [tk_str tk_list].
      change (tk_pieces {| tk_list := w :: w2 :: tl'; tk_str := None |}) with (rev (w :: w2 :: tl')) in *.
      rewrite (GrammarFacts.tokens_concat_in_order exec st _ Hn).
      unfold str_of, cat_of. destruct (eval_seq st (rev (w :: w2 :: tl'))) as [st1 [l|e|p|]]; reflexivity.
Qed.

Lemma pieces_push t w : tk_pieces (tk_push t w) = tk_pieces t ++ [w].
Proof. unfold GrammarFacts.tk_pieces, tk_push. destruct (tk_str t); reflexivity. Qed.

Lemma pieces_char_ne t c : forallb not_expand (tk_pieces t) = true ->
  forallb not_expand (tk_pieces (tk_push_char t c)) = true.
Proof.
  destruct t as [tl [x|]]; unfold GrammarFacts.tk_pieces, tk_push_char; cbn [tk_str tk_list rev];
    rewrite !forallb_app; cbn [forallb GrammarFacts.not_expand]; intros H.
  - apply andb_true_iff in H. rewrite (proj1 H). reflexivity.
  - rewrite H. reflexivity.
Qed.

Lemma pieces_chars_ne x : forall t, forallb not_expand (tk_pieces t) = true ->
  forallb not_expand (tk_pieces (fold_left tk_push_char x t)) = true.
Proof. induction x as [|c x IH]; intros t H; [exact H|]. apply IH, pieces_char_ne, H. Qed.

Lemma pieces_segs_ne l : forall t, forallb not_expand (tk_pieces t) = true ->
  forallb not_expand (tk_pieces (fold_left GrammarFacts.tok_seg l t)) = true.
Proof.
  induction l as [|s l IH]; intros t H; [exact H|]. cbn [fold_left]. apply IH.
  destruct s; cbn [GrammarFacts.tok_seg];
    try (rewrite pieces_push, forallb_app, H; reflexivity).
  - apply pieces_chars_ne, H.
  - apply pieces_char_ne, H.
Qed.

(* the pieces of a quoted string: runs of literal characters and escapes ([WString]), variable
   and element references, scripts *)
Definition quo_pieces (l : list SpecGrammar.seg) : list word :=
  tk_pieces (fold_left GrammarFacts.tok_seg l tk_new).

(* (2) the string a quoted-string operand stands for is the concatenation of the values of its
   pieces; [eval_seq] evaluates them left to right, threading the state, and stops at the first
   error with the state reached *)
Theorem quo_leaf_value : forall l st,
  ev4 exec (X4 (KQuoS l)) st =
  (fst (eval_seq st (quo_pieces l)),
   rb (snd (cat_of (eval_seq st (quo_pieces l)))) expr_parse_string).
Proof.
  intros l st. cbn [ev4 lsem4]. unfold quo_word. cbn [GrammarFacts.ast_word].
  pose proof (tk_take_eval st (fold_left GrammarFacts.tok_seg l tk_new)
                (pieces_segs_ne l tk_new eq_refl)) as E.
  fold (quo_pieces l) in E. unfold str_of, cat_of in *.
  destruct (ew st (tk_take (fold_left GrammarFacts.tok_seg l tk_new))) as [st1 rv].
  destruct (eval_seq st (quo_pieces l)) as [st2 rl]. cbn [fst snd] in *.
  injection E as -> E. rewrite <- E. destruct rv; reflexivity.
Qed.

End QuoSem.
Print Assumptions quo_leaf_value.

Example quo_pieces_example :
  quo_pieces [SpecGrammar.SLit (lit "x"); SpecGrammar.SEsc 0 116; SpecGrammar.SVar (lit "a");
              SpecGrammar.SLit (lit "y")] =
  [WString (lit "x" ++ [9%N]); WVarRef (lit "a"); WString (lit "y")].
Proof. reflexivity. Qed.

(* ====================================================================================== *)
(* 5. the frame                                                                            *)
(* ====================================================================================== *)

(* pieces that cannot touch the state: literal text and scalar variables *)
Definition pure_piece (w : word) : bool :=
  match w with WString _ | WVarRef _ | WValue _ => true | _ => false end.

Lemma eval_seq_pure exec : forall P st, forallb pure_piece P = true ->
  fst (GrammarFacts.eval_seq exec st P) = st.
Proof.
  induction P as [|w P IH]; intros st H; [reflexivity|].
  cbn [forallb] in H. apply andb_true_iff in H. destruct H as [Hw HP].
  cbn [GrammarFacts.eval_seq].
  assert (E : fst (eval_word exec st w) = st) by (destruct w; try discriminate; reflexivity).
  destruct (eval_word exec st w) as [st1 [v|e|p|]]; cbn [fst] in E; subst st1; try reflexivity.
  specialize (IH st HP). destruct (GrammarFacts.eval_seq exec st P) as [st2 [l|e|p|]]; exact IH.
Qed.

(* leaves that cannot touch the state: no [script] anywhere; an element reference with a
   literal index or an index that is one $name *)
Definition lpure4 (k : leaf4) : bool :=
  match k with
  | K3 k => negb (is_cmd k)
  | KArr _ [SpecGrammar.SLit _] | KArr _ [SpecGrammar.SVar _] => true
  | KArr _ _ => false
  | KQuoS l => forallb pure_piece (quo_pieces l)
  | KBraceN _ => true
  end.

Lemma lsem4_frame exec k st : lpure4 k = true -> fst (lsem4 exec k st) = st.
Proof.
  destruct k as [k|n idx|l|b]; cbn [lpure4]; intros H.
  - apply lsem_frame. destruct (is_cmd k); [discriminate|reflexivity].
  - destruct idx as [|[x|? ?|m|?|? ?|?] [|? ?]]; try discriminate.
    + pose proof (arr_leaf_value exec n x st) as E. cbn [ev4] in E. rewrite E. reflexivity.
    + pose proof (arr_leaf_value_var exec n m st) as E. cbn [ev4] in E. rewrite E. reflexivity.
  - pose proof (quo_leaf_value exec l st) as E. cbn [ev4] in E. rewrite E. cbn [fst].
    apply eval_seq_pure, H.
  - reflexivity.
Qed.

Fixpoint pure4 (t : tree4) : bool :=
  match t with
  | X4 k => lpure4 k
  | P4 _ _ t | U4 _ _ t | Fn4 _ _ _ _ t => pure4 t
  | B4 _ _ _ l r | A4 _ _ _ l r => pure4 l && pure4 r
  | Q4 _ _ _ _ c a b => pure4 c && pure4 a && pure4 b
  | _ => true
  end.


Theorem ev4_frame : forall exec t st, pure4 t = true -> fst (ev4 exec t st) = st.
Proof.
  intros exec.
  induction t as [z|k|s1 s2 t IH|u s t IH|o s1 s2 l IHl r IHr|o s1 s2 l IHl r IHr
                 |s1 s2 s3 s4 c IHc a IHa b IHb|f s1 s2 s3 t IH|ip fp es ed];
    intros st Hn; cbn [pure4] in Hn; cbn [ev4];
    repeat (apply andb_true_iff in Hn; let H' := fresh "Hn" in destruct Hn as [Hn H']).
  - reflexivity.
  - apply lsem4_frame, Hn.
  - apply IH, Hn.
  - specialize (IH st Hn). destruct (ev4 exec t st) as [st1 r]. exact IH.
  - specialize (IHl st Hn). destruct (ev4 exec l st) as [st1 rl]. cbn [fst] in IHl. subst st1.
    destruct rl as [a|e|p|]; try reflexivity.
    specialize (IHr st Hn0). destruct (ev4 exec r st) as [st2 rr]. exact IHr.
  - specialize (IHl st Hn). destruct (ev4 exec l st) as [st1 rl]. cbn [fst] in IHl. subst st1.
    destruct (rb rl (truth3 (ltok o))) as [ta|e|p|]; try reflexivity.
    destruct (is_and o && negb ta); [reflexivity|]. destruct (negb (is_and o) && ta); [reflexivity|].
    specialize (IHr st Hn0). destruct (ev4 exec r st) as [st2 rr]. exact IHr.
  - specialize (IHc st Hn). destruct (ev4 exec c st) as [st1 rc]. cbn [fst] in IHc. subst st1.
    destruct (rb rc (truth3 T_QUESTY)) as [tc|e|p|]; try reflexivity.
    destruct tc; [apply IHa, Hn1|apply IHb, Hn0].
  - specialize (IH st Hn). destruct (ev4 exec t st) as [st1 r]. exact IH.
  - reflexivity.
Qed.
Print Assumptions ev4_frame.
Corollary expr_eval_render4_frame : forall exec st t lead trail,
  ok4_std t = true -> pure4 t = true -> ws lead = true -> ws trail = true ->
  expr_eval std_ia std_ib exec st (VStr (lead ++ render4 t ++ trail)) =
  (st, top_res (snd (ev4 exec t st))).
Proof.
  intros exec st t lead trail Hok Hn Hl Ht.
  rewrite (expr_eval_render4_std exec st t lead trail Hok Hl Ht), (ev4_frame exec t st Hn). reflexivity.
Qed.
Print Assumptions expr_eval_render4_frame.

(* ====================================================================================== *)
(* 6. examples on a concrete state                                                         *)
(* ====================================================================================== *)

Module Examples4.
Import Model.Commands Model.Unicode Model.Interp Check.ScriptObs.
Import SpecGrammar.

Definition std_exec : executor := run_exec std_uni model_fuel.
Definition std_eval4 (st : interp) (s : str) : interp * res value :=
  expr_eval (u_alnum std_uni) (u_alpha std_uni) std_exec st (VStr s).

Definition st0 : interp :=
  Eval vm_compute in
    fst (eval std_uni model_fuel (harness_interp 0)
           (lit "set a 5; set i 1; set b(1) 41; set b(k) 012; set s abc")).

Definition bw (s : string) : wordc := CBare [SLit (lit s)].
Definition set_a_9 : list item :=
  [ICmd [] [([], bw "set"); ([c_space], bw "a"); ([c_space], bw "9")] [] []].
Definition arr (n i : string) : tree4 := X4 (KArr (lit n) [SLit (lit i)]).
Definition quo (l : list seg) : tree4 := X4 (KQuoS l).

Definition x1 : tree4 := B4 OAdd sp1 sp1 (arr "b" "1") (L4 1).                     (* $b(1) + 1 *)
Definition x2 : tree4 := B4 OSeq sp1 sp1 (quo [SLit (lit "x"); SVar (lit "a")]) (quo [SLit (lit "x5")]).
Definition x3 : tree4 := A4 LAnd sp1 sp1 (L4 0) (arr "b" "nosuch").                (* 0 && $b(nosuch) *)
Definition x4 : tree4 := A4 LOr sp1 sp1 (L4 1) (quo [SCmd set_a_9]).               (* 1 || "[set a 9]" *)
Definition x5 : tree4 := A4 LOr sp1 sp1 (L4 0) (quo [SCmd set_a_9]).               (* 0 || "[set a 9]" *)
Definition x6 : tree4 := B4 OAdd sp1 sp1 (X4 (KArr (lit "b") [SVar (lit "i")])) (arr "b" "k").  (* $b($i) + $b(k) *)
Definition x7 : tree4 :=                                                           (* "[set a 9]$a\t\$" eq {9{x}} *)
  B4 OSeq sp1 sp1 (quo [SCmd set_a_9; SVar (lit "a"); SEsc 0 116; SEsc 1 36])
                  (X4 (KBraceN [BText (lit "9"); BNest [BText (lit "x")]])).
Definition x8 : tree4 := B4 OSeq sp1 sp1 (X4 (KBraceN [BText (lit "a"); BNest [BText (lit "b"); BNest []]]))
                                         (quo [SLit (lit "a{b{}}")]).              (* {a{b{}}} eq "a{b{}}" *)

Example renderings4 :
  render4 x1 = lit "$b(1) + 1" /\ render4 x2 = lit """x$a"" eq ""x5""" /\
  render4 x3 = lit "0 && $b(nosuch)" /\ render4 x4 = lit "1 || ""[set a 9]""" /\
  render4 x5 = lit "0 || ""[set a 9]""" /\ render4 x6 = lit "$b($i) + $b(k)" /\
  render4 x7 = lit """[set a 9]$a\t\$"" eq {9{x}}" /\ render4 x8 = lit "{a{b{}}} eq ""a{b{}}""" /\
  forallb ok4_std [x1; x2; x3; x4; x5; x6; x7; x8; arr "b" "nosuch"; arr "nosuch" "1"] = true.
Proof. vm_compute. repeat split. Qed.

Ltac by_theorem t :=
  refine (eq_trans (expr_eval_render4_std _ _ t [] [] eq_refl eq_refl eq_refl) _);
  vm_compute; reflexivity.
Ltac use_theorem t :=
  match goal with |- context [expr_eval _ _ _ _ (VStr ?s)] => change s with ([] ++ render4 t ++ []) end;
  rewrite (expr_eval_render4_std _ _ t [] [] eq_refl eq_refl eq_refl).

Example x1_by_theorem : std_eval4 st0 (lit "$b(1) + 1") = (st0, Ok (VInt 42)).
Proof. unfold std_eval4. by_theorem x1. Qed.

Example x2_by_theorem : std_eval4 st0 (lit """x$a"" eq ""x5""") = (st0, Ok (VInt 1)).
Proof. unfold std_eval4. by_theorem x2. Qed.

(* a skipped element is not read: no error; read, it is the model's message *)
Example x3_by_theorem :
  std_eval4 st0 (lit "0 && $b(nosuch)") = (st0, Ok (VInt 0)) /\
  std_eval4 st0 (lit "$b(nosuch)") =
    (st0, err (lit "can't read ""b(nosuch)"": no such element in array")) /\
  std_eval4 st0 (lit "$nosuch(1)") = (st0, err (lit "can't read ""nosuch"": no such variable")).
Proof.
  unfold std_eval4.
  split; [by_theorem x3|split; [by_theorem (arr "b" "nosuch")|by_theorem (arr "nosuch" "1")]].
Qed.

(* a script inside a skipped quoted string is not run; inside an evaluated one it is *)
Example x4_by_theorem : std_eval4 st0 (lit "1 || ""[set a 9]""") = (st0, Ok (VInt 1)).
Proof. unfold std_eval4. by_theorem x4. Qed.

Example x5_by_theorem :
  snd (std_eval4 st0 (lit "0 || ""[set a 9]""")) = Ok (VInt 1) /\
  st_scalar (fst (std_eval4 st0 (lit "0 || ""[set a 9]"""))) (lit "a") = Ok (VStr (lit "9")).
Proof. unfold std_eval4. use_theorem x5. vm_compute. repeat split. Qed.

(* an index with a substitution; an element holding "012" is the integer 12 *)
Example x6_by_theorem : std_eval4 st0 (lit "$b($i) + $b(k)") = (st0, Ok (VInt 53)).
Proof. unfold std_eval4. by_theorem x6. Qed.

(* left to right inside the string: the script runs, then $a reads 9; escapes; nested braces *)
Example x7_by_theorem :
  snd (std_eval4 st0 (lit """[set a 9]$a\t\$"" eq {9{x}}")) = Ok (VInt 0) /\
  snd (ev4 std_exec (quo [SCmd set_a_9; SVar (lit "a"); SEsc 0 116; SEsc 1 36]) st0)
    = Ok (DStr (lit "99" ++ [9%N; 36%N])).
Proof. unfold std_eval4. use_theorem x7. vm_compute. repeat split. Qed.

Example x8_by_theorem : std_eval4 st0 (lit "{a{b{}}} eq ""a{b{}}""") = (st0, Ok (VInt 1)).
Proof. unfold std_eval4. by_theorem x8. Qed.

(* the same by running the model's evaluator itself *)
Example by_computation4 :
  std_eval4 st0 (lit "$b(1) + 1") = (st0, Ok (VInt 42)) /\
  std_eval4 st0 (lit """x$a"" eq ""x5""") = (st0, Ok (VInt 1)) /\
  std_eval4 st0 (lit "0 && $b(nosuch)") = (st0, Ok (VInt 0)) /\
  std_eval4 st0 (lit "1 || ""[set a 9]""") = (st0, Ok (VInt 1)) /\
  std_eval4 st0 (lit "$b($i) + $b(k)") = (st0, Ok (VInt 53)) /\
  std_eval4 st0 (lit "{a{b{}}} eq ""a{b{}}""") = (st0, Ok (VInt 1)).
Proof. vm_compute. repeat split. Qed.

End Examples4.
