(* CtlStructFacts.v — C09: the model's if / while / for / foreach / procedure call / script
   evaluation follow the big-step rules of Spec/SpecCtl.v, for an ARBITRARY evaluator [rec] of
   bodies and conditions (and an arbitrary command executor [exec] for scripts). *)
From Molt Require Import Model.Base Model.Tokenizer Model.ListSyn Model.Float Model.Value
  Model.State Model.Script Model.Parser Model.Eval Model.Expr Model.Commands Model.Unicode
  Model.Interp.
From Molt Require Import Spec.SpecCtl.
From Molt Require Check.ScriptObs.
From Coq Require Import Lia ZifyBool ZifyN.

Arguments N.eqb : simpl never.
Arguments N.leb : simpl never.
Arguments N.ltb : simpl never.

Local Open Scope N_scope.

(* ====================================================================================== *)
(* generalities                                                                           *)
(* ====================================================================================== *)

Lemma skipn_cons_inv {A} (d : A) : forall i (l : list A) x r,
  skipn i l = x :: r -> nth i l d = x /\ skipn (S i) l = r /\ (i < length l)%nat.
Proof.
  induction i as [|i IH]; intros [|y l] x r H; cbn [skipn] in H; try discriminate.
  - inversion H; subst. cbn. repeat split. lia.
  - destruct (IH l x r H) as (h1 & h2 & h3). cbn [nth length]. repeat split; try assumption. lia.
Qed.

Lemma skipn_nil_inv {A} : forall i (l : list A), skipn i l = [] -> (length l <= i)%nat.
Proof.
  induction i as [|i IH]; intros [|y l] H; cbn [skipn] in H; try discriminate; cbn [length]; try lia.
  specialize (IH l H). lia.
Qed.

Lemma skipn_arg i argv x r :
  skipn i argv = x :: r -> arg argv i = x /\ skipn (S i) argv = r /\ (i < length argv)%nat.
Proof. apply skipn_cons_inv. Qed.

Lemma bind_ok {A B} st (a : A) (k : interp -> A -> M B) : bind (st, Ok a) k = k st a.
Proof. reflexivity. Qed.

Lemma classify_outcome r :
  loop_body_outcome r =
  match classify r with
  | BNormal | BContinue => Some true
  | BBreak => Some false
  | BOther => None
  end.
Proof. destruct r as [v|e|p|]; try reflexivity. cbn. destruct (x_code e); reflexivity. Qed.

(* ====================================================================================== *)
(* 1. if                                                                                  *)
(* ====================================================================================== *)

Section If.
Variable rec : recfns.

Lemma is_word_kw argv i w : is_word argv i w = is_kw w (arg argv i).
Proof. reflexivity. Qed.

(* what follows the body of a clause *)
Definition if_after (rest2 : list value) : list (value * value) * if_tail :=
  match rest2 with
  | [] => ([], IfEnd)
  | k :: rest3 =>
      if is_kw "elseif" k then if_parse k rest3
      else if is_kw "else" k then
        match rest3 with
        | [] => ([], IfBad None (if_no_script k))
        | b :: _ => ([], IfElse b)
        end
      else ([], IfElse k)
  end.

Lemma if_parse_cons prev cond rest :
  if_parse prev (cond :: rest) =
  match strip_then rest with
  | [] => ([], IfBad (Some cond) (if_no_script (then_prev cond rest)))
  | body :: rest2 => let '(cl, t) := if_after rest2 in ((cond, body) :: cl, t)
  end.
Proof.
  cbn [if_parse]. destruct (strip_then rest) as [|body [|k rest3]]; try reflexivity.
  cbn [if_after]. destruct (is_kw "elseif" k); [reflexivity|].
  destruct (is_kw "else" k); [|reflexivity]. destruct rest3; reflexivity.
Qed.

Lemma strip_then_length l : (length (strip_then l) <= length l)%nat.
Proof. destruct l as [|t r]; cbn; [lia|]. destruct (is_kw "then" t); cbn; lia. Qed.

(* --- the machine, state by state --- *)

Lemma if_then_body f st argv argi rest :
  skipn argi argv = rest ->
  if_machine rec (S f) st argv argi WThenBody =
  match strip_then rest with
  | [] => fail st (if_no_script (then_prev (arg argv (argi - 1)) rest))
  | body :: _ => r_eval rec st body
  end.
Proof.
  intros Hs. cbn [if_machine].
  destruct rest as [|t rest'].
  - apply skipn_nil_inv in Hs.
    assert (E : Nat.ltb argi (length argv) = false) by (apply Nat.ltb_ge; lia).
    rewrite E. cbn [negb]. reflexivity.
  - destruct (skipn_arg _ _ _ _ Hs) as (Ht & Hs' & Hlt).
    assert (E : Nat.ltb argi (length argv) = true) by (apply Nat.ltb_lt; lia).
    rewrite E. cbn [negb]. rewrite is_word_kw. rewrite Ht.
    cbn [strip_then then_prev].
    destruct (is_kw "then" t) eqn:Ek.
    + destruct rest' as [|b rest''].
      * apply skipn_nil_inv in Hs'.
        assert (E' : Nat.ltb (S argi) (length argv) = false) by (apply Nat.ltb_ge; lia).
        rewrite E'.
        replace (S argi - 1)%nat with argi by lia. rewrite Ht. reflexivity.
      * destruct (skipn_arg _ _ _ _ Hs') as (Hb & _ & Hlt').
        assert (E' : Nat.ltb (S argi) (length argv) = true) by (apply Nat.ltb_lt; lia).
        rewrite E'. rewrite Hb. reflexivity.
    + rewrite E. rewrite Ht. reflexivity.
Qed.

Lemma if_else_body f st argv argi k rest3 :
  skipn argi argv = k :: rest3 ->
  if_machine rec (S f) st argv argi WElseBody =
  if is_kw "else" k then
    match rest3 with
    | [] => fail st (if_no_script k)
    | b :: _ => r_eval rec st b
    end
  else r_eval rec st k.
Proof.
  intros Hs. cbn [if_machine].
  destruct (skipn_arg _ _ _ _ Hs) as (Ht & Hs' & Hlt).
  assert (E : Nat.ltb argi (length argv) = true) by (apply Nat.ltb_lt; lia).
  rewrite E. cbn [negb]. rewrite is_word_kw. rewrite Ht.
  destruct (is_kw "else" k); [|reflexivity].
  destruct rest3 as [|b rest4].
  - apply skipn_nil_inv in Hs'.
    assert (E' : Nat.eqb (S argi) (length argv) = true) by (apply Nat.eqb_eq; lia).
    rewrite E'. replace (S argi - 1)%nat with argi by lia. rewrite Ht. reflexivity.
  - destruct (skipn_arg _ _ _ _ Hs') as (Hb & _ & Hlt').
    assert (E' : Nat.eqb (S argi) (length argv) = false) by (apply Nat.eqb_neq; lia).
    rewrite E'. rewrite Hb. reflexivity.
Qed.

Definition spec_pair (st : interp) (p : list (value * value) * if_tail) : M value :=
  spec_if_tail rec st (fst p) (snd p).

Lemma if_machine_states : forall fuel st argv argi rest,
  skipn argi argv = rest -> (length rest < fuel)%nat ->
  (* WExpr *)
  if_machine rec fuel st argv argi WExpr = spec_pair st (if_parse (arg argv (argi - 1)) rest) /\
  (* WElseClause *)
  if_machine rec fuel st argv argi WElseClause = spec_pair st (if_after rest) /\
  (* WSkipThen *)
  if_machine rec fuel st argv argi WSkipThen =
    match strip_then rest with
    | [] => fail st (if_no_script (then_prev (arg argv (argi - 1)) rest))
    | _ :: rest2 => spec_pair st (if_after rest2)
    end.
Proof.
  induction fuel as [|f IH]; intros st argv argi rest Hs Hf; [lia|].
  split; [|split].
  - (* WExpr *)
    cbn [if_machine].
    destruct rest as [|c rest'].
    + apply skipn_nil_inv in Hs.
      assert (E : Nat.ltb argi (length argv) = false) by (apply Nat.ltb_ge; lia).
      rewrite E. cbn [negb]. reflexivity.
    + destruct (skipn_arg _ _ _ _ Hs) as (Ht & Hs' & Hlt).
      assert (E : Nat.ltb argi (length argv) = true) by (apply Nat.ltb_lt; lia).
      rewrite E. cbn [negb]. rewrite Ht.
      rewrite if_parse_cons. cbn [length] in Hf.
      assert (Hprev : arg argv (S argi - 1) = c).
      { replace (S argi - 1)%nat with argi by lia. exact Ht. }
      destruct (expr_bool rec st c) as [st1 [b|e|p|]] eqn:Eb.
      * rewrite bind_ok.
        destruct b.
        -- destruct f as [|f']; [lia|].
           rewrite (if_then_body f' st1 argv (S argi) rest' Hs'). rewrite Hprev.
           destruct (strip_then rest') as [|body rest2].
           ++ unfold spec_pair. cbn [fst snd spec_if_tail]. rewrite Eb. reflexivity.
           ++ destruct (if_after rest2) as [cl t]. unfold spec_pair. cbn [fst snd spec_if_tail].
              rewrite Eb. reflexivity.
        -- destruct (IH st1 argv (S argi) rest' Hs') as (_ & _ & HS); [lia|].
           rewrite HS. rewrite Hprev.
           destruct (strip_then rest') as [|body rest2].
           ++ unfold spec_pair. cbn [fst snd spec_if_tail]. rewrite Eb. reflexivity.
           ++ destruct (if_after rest2) as [cl t]. unfold spec_pair. cbn [fst snd spec_if_tail].
              rewrite Eb. reflexivity.
      * destruct (strip_then rest') as [|body rest2]; [|destruct (if_after rest2) as [cl t]];
          unfold spec_pair; cbn [fst snd spec_if_tail]; rewrite Eb; reflexivity.
      * destruct (strip_then rest') as [|body rest2]; [|destruct (if_after rest2) as [cl t]];
          unfold spec_pair; cbn [fst snd spec_if_tail]; rewrite Eb; reflexivity.
      * destruct (strip_then rest') as [|body rest2]; [|destruct (if_after rest2) as [cl t]];
          unfold spec_pair; cbn [fst snd spec_if_tail]; rewrite Eb; reflexivity.
  - (* WElseClause *)
    destruct rest as [|k rest3].
    + cbn [if_machine]. apply skipn_nil_inv in Hs.
      assert (E : Nat.ltb argi (length argv) = false) by (apply Nat.ltb_ge; lia).
      rewrite E. cbn [negb]. reflexivity.
    + cbn [if_machine].
      destruct (skipn_arg _ _ _ _ Hs) as (Ht & Hs' & Hlt).
      assert (E : Nat.ltb argi (length argv) = true) by (apply Nat.ltb_lt; lia).
      rewrite E. cbn [negb]. rewrite is_word_kw. rewrite Ht.
      cbn [if_after length] in *.
      destruct (is_kw "elseif" k) eqn:Ek.
      * destruct (IH st argv (S argi) rest3 Hs') as (HE & _ & _); [lia|].
        rewrite HE. replace (S argi - 1)%nat with argi by lia. rewrite Ht.
        reflexivity.
      * destruct f as [|f']; [lia|].
        rewrite (if_else_body f' st argv argi k rest3 Hs).
        destruct (is_kw "else" k); [|reflexivity]. destruct rest3; reflexivity.
  - (* WSkipThen *)
    cbn [if_machine].
    destruct rest as [|t rest'].
    + apply skipn_nil_inv in Hs.
      assert (E : Nat.ltb argi (length argv) = false) by (apply Nat.ltb_ge; lia).
      rewrite E. cbn [negb]. reflexivity.
    + destruct (skipn_arg _ _ _ _ Hs) as (Ht & Hs' & Hlt).
      assert (E : Nat.ltb argi (length argv) = true) by (apply Nat.ltb_lt; lia).
      rewrite E. cbn [negb]. rewrite is_word_kw. rewrite Ht.
      cbn [strip_then then_prev length] in *.
      destruct (is_kw "then" t) eqn:Ek.
      * destruct rest' as [|b rest2].
        -- assert (Hs2 := Hs'). apply skipn_nil_inv in Hs2.
           assert (E' : Nat.ltb (S argi) (length argv) = false) by (apply Nat.ltb_ge; lia).
           rewrite E'.
           destruct (IH st argv (S argi) [] Hs') as (_ & _ & HS); [cbn [length] in *; lia|].
           rewrite HS. cbn [strip_then then_prev].
           replace (S argi - 1)%nat with argi by lia. rewrite Ht. reflexivity.
        -- destruct (skipn_arg _ _ _ _ Hs') as (Hb & Hs2 & Hlt').
           assert (E' : Nat.ltb (S argi) (length argv) = true) by (apply Nat.ltb_lt; lia).
           rewrite E'.
           destruct (IH st argv (S (S argi)) rest2 Hs2) as (_ & HC & _); [cbn [length] in *; lia|].
           exact HC.
      * rewrite E.
        destruct (IH st argv (S argi) rest' Hs') as (_ & HC & _); [lia|].
        exact HC.
Qed.

(* THE GENERAL STATEMENT: on every argument list the model's [if] is the lazy big-step semantics
   of the parsed form. *)
Theorem cmd_if_parse st argv :
  cmd_if rec st argv =
  let '(cl, t) := if_parse (arg argv 0) (tl argv) in spec_if_tail rec st cl t.
Proof.
  unfold cmd_if.
  destruct (if_machine_states (S (2 * length argv)) st argv 1 (tl argv)) as (HE & _ & _).
  - destruct argv; reflexivity.
  - destruct argv; cbn [tl length]; lia.
  - rewrite HE. cbn [Nat.sub]. destruct (if_parse (arg argv 0) (tl argv)). reflexivity.
Qed.

(* a well-shaped argument list parses to its clauses *)
Lemma if_shape_parse_n : forall n args, (length args <= n)%nat ->
  forall prev cl els, if_shape args = Some (cl, els) -> if_parse prev args = (cl, tail_of_else els).
Proof.
  induction n as [|n IH]; intros [|cond rest] Hn prev cl els H; try discriminate.
  - cbn [length] in Hn. lia.
  - cbn [if_shape] in H. cbn [if_parse].
    assert (HL := strip_then_length rest).
    destruct (strip_then rest) as [|body [|k rest3]]; [discriminate| |].
    + inversion H; subst. reflexivity.
    + destruct (is_kw "elseif" k).
      * destruct (if_shape rest3) as [[cl' e']|] eqn:E3; [|discriminate].
        inversion H; subst.
        rewrite (IH rest3) with (cl := cl') (els := els); [reflexivity| |assumption].
        cbn [length] in *. lia.
      * destruct (is_kw "else" k).
        -- destruct rest3 as [|b [|x y]]; try discriminate. inversion H; subst. reflexivity.
        -- destruct rest3; [|discriminate]. inversion H; subst. reflexivity.
Qed.

Lemma if_shape_parse args prev cl els :
  if_shape args = Some (cl, els) -> if_parse prev args = (cl, tail_of_else els).
Proof. apply (if_shape_parse_n (length args)). lia. Qed.

Lemma spec_if_tail_else st cl els :
  spec_if_tail rec st cl (tail_of_else els) = spec_if rec st cl els.
Proof.
  revert st. induction cl as [|[c b] r IH]; intros st.
  - destruct els; reflexivity.
  - cbn [spec_if_tail spec_if]. destruct (expr_bool rec st c) as [st1 [[|]|e|p|]]; try reflexivity.
    rewrite bind_ok. apply IH.
Qed.

(* THEOREM if_spec *)
Theorem if_spec : forall st argv clauses els,
  if_shape (tl argv) = Some (clauses, els) ->
  cmd_if rec st argv = spec_if rec st clauses els.
Proof.
  intros st argv clauses els H. rewrite cmd_if_parse.
  rewrite (if_shape_parse _ (arg argv 0) _ _ H). apply spec_if_tail_else.
Qed.

(* --- exactly one branch runs, and its outcome is the outcome of the command --- *)

Lemma spec_if_tail_skip st pre st1 post t :
  skip_clauses rec st pre st1 ->
  spec_if_tail rec st (pre ++ post) t = spec_if_tail rec st1 post t.
Proof.
  induction 1 as [st|st c b st1 r st' Hc Hr IH]; [reflexivity|].
  cbn [app spec_if_tail]. rewrite Hc. rewrite bind_ok. exact IH.
Qed.

Lemma spec_if_skip st pre st1 post els :
  skip_clauses rec st pre st1 ->
  spec_if rec st (pre ++ post) els = spec_if rec st1 post els.
Proof. intros H. rewrite <- !spec_if_tail_else. apply spec_if_tail_skip. exact H. Qed.

(* the first true condition selects its body; nothing after it is looked at *)
Theorem if_branch_taken st pre st1 c b st2 post els :
  skip_clauses rec st pre st1 ->
  expr_bool rec st1 c = (st2, Ok true) ->
  spec_if rec st (pre ++ (c, b) :: post) els = r_eval rec st2 b.
Proof.
  intros Hs Hc. rewrite (spec_if_skip _ _ _ _ _ Hs). cbn [spec_if]. rewrite Hc. reflexivity.
Qed.

(* all conditions false: the else body, or the empty string *)
Theorem if_else_taken st cl st1 b :
  skip_clauses rec st cl st1 -> spec_if rec st cl (Some b) = r_eval rec st1 b.
Proof.
  intros Hs. rewrite <- (app_nil_r cl). rewrite (spec_if_skip _ _ _ _ _ Hs). reflexivity.
Qed.

Theorem if_no_branch st cl st1 :
  skip_clauses rec st cl st1 -> spec_if rec st cl None = (st1, Ok v_empty).
Proof.
  intros Hs. rewrite <- (app_nil_r cl). rewrite (spec_if_skip _ _ _ _ _ Hs). reflexivity.
Qed.

(* a condition that fails ends the command; neither a body nor a later condition runs *)
Theorem if_cond_error st pre st1 c b st2 r post els :
  skip_clauses rec st pre st1 ->
  expr_bool rec st1 c = (st2, r) -> is_ok r = false ->
  spec_if rec st (pre ++ (c, b) :: post) els = (st2, coerce r).
Proof.
  intros Hs Hc Hr. rewrite (spec_if_skip _ _ _ _ _ Hs). cbn [spec_if]. rewrite Hc.
  destruct r; try discriminate; reflexivity.
Qed.

(* --- malformed argument lists ---
   The words are read lazily.  If the argument list is malformed ([if_parse] ends in IfBad) and
   all the conditions of the well-formed clauses before the malformation are false, the
   outcome is the "wrong # args" error in the state reached by evaluating those conditions
   only: no body was evaluated.  A condition that is not followed by a body is still evaluated
   first (and its own error wins).
   What does NOT hold: "malformed => error".  If a condition before the malformation is true,
   its body is evaluated and its outcome is the outcome of the command, exactly as in
   [if_branch_taken] (Example if_lazy_example below: [if 1 {set x a} elseif] returns a). *)
Theorem if_malformed st argv cl oc msg st1 :
  if_parse (arg argv 0) (tl argv) = (cl, IfBad oc msg) ->
  skip_clauses rec st cl st1 ->
  cmd_if rec st argv =
  match oc with
  | None => (st1, err msg)
  | Some c => do (st2, _) <- expr_bool rec st1 c; (st2, err msg)
  end.
Proof.
  intros Hp Hs. rewrite cmd_if_parse. rewrite Hp.
  rewrite <- (app_nil_r cl). rewrite (spec_if_tail_skip _ _ _ _ _ Hs).
  destruct oc; reflexivity.
Qed.

Theorem if_malformed_taken st argv pre c b post oc msg st1 st2 :
  if_parse (arg argv 0) (tl argv) = (pre ++ (c, b) :: post, IfBad oc msg) ->
  skip_clauses rec st pre st1 ->
  expr_bool rec st1 c = (st2, Ok true) ->
  cmd_if rec st argv = r_eval rec st2 b.
Proof.
  intros Hp Hs Hc. rewrite cmd_if_parse. rewrite Hp.
  rewrite (spec_if_tail_skip _ _ _ _ _ Hs). cbn [spec_if_tail]. rewrite Hc. reflexivity.
Qed.

(* the message of a malformed if is a "wrong # args" message *)
Lemma if_bad_msg_n : forall n args, (length args <= n)%nat ->
  forall prev cl oc msg, if_parse prev args = (cl, IfBad oc msg) ->
  exists m, msg = lit "wrong # args: " ++ m.
Proof.
  induction n as [|n IH]; intros [|cond rest] Hn prev cl oc msg H.
  - inversion H. eexists. reflexivity.
  - cbn [length] in Hn. lia.
  - inversion H. eexists. reflexivity.
  - cbn [if_parse] in H.
    assert (HL := strip_then_length rest).
    destruct (strip_then rest) as [|body [|k rest3]].
    + inversion H. eexists. reflexivity.
    + discriminate.
    + destruct (is_kw "elseif" k).
      * destruct (if_parse k rest3) as [cl' t'] eqn:E3. inversion H; subst.
        apply (IH rest3) with (prev := k) (cl := cl') (oc := oc). { cbn [length] in *. lia. }
        exact E3.
      * destruct (is_kw "else" k); [|discriminate].
        destruct rest3; [|discriminate]. inversion H. eexists. reflexivity.
Qed.

Theorem if_bad_msg args prev cl oc msg :
  if_parse prev args = (cl, IfBad oc msg) -> exists m, msg = lit "wrong # args: " ++ m.
Proof. apply (if_bad_msg_n (length args)). lia. Qed.

(* --- words after an else body are ignored --- *)
Lemma strip_then_app l extra : strip_then l <> [] -> strip_then (l ++ extra) = strip_then l ++ extra.
Proof.
  destruct l as [|t r]; cbn [strip_then app]; [congruence|]. intros _.
  destruct (is_kw "then" t); reflexivity.
Qed.

Lemma if_parse_extra_n : forall n args, (length args <= n)%nat ->
  forall prev cl b extra, if_shape args = Some (cl, Some b) ->
  if_parse prev (args ++ extra) = (cl, IfElse b).
Proof.
  induction n as [|n IH]; intros [|cond rest] Hn prev cl b extra H; try discriminate.
  - cbn [length] in Hn. lia.
  - cbn [if_shape] in H. cbn [app if_parse].
    assert (HL := strip_then_length rest).
    destruct (strip_then rest) as [|body [|k rest3]] eqn:ES; [discriminate|discriminate|].
    rewrite strip_then_app by (rewrite ES; discriminate). rewrite ES. cbn [app].
    destruct (is_kw "elseif" k).
    + destruct (if_shape rest3) as [[cl' e']|] eqn:E3; [|discriminate].
      inversion H; subst.
      rewrite (IH rest3) with (cl := cl') (b := b); [reflexivity| |assumption].
      cbn [length] in *. lia.
    + destruct (is_kw "else" k).
      * destruct rest3 as [|b' [|x y]]; try discriminate. inversion H; subst. reflexivity.
      * destruct rest3; [|discriminate]. inversion H; subst. reflexivity.
Qed.

Theorem if_extra_ignored st cmd args extra cl b :
  if_shape args = Some (cl, Some b) ->
  cmd_if rec st (cmd :: args ++ extra) = spec_if rec st cl (Some b).
Proof.
  intros H. rewrite cmd_if_parse. cbn [tl].
  rewrite (if_parse_extra_n (length args) args (le_n _) _ cl b extra H).
  apply (spec_if_tail_else st cl (Some b)).
Qed.

End If.

Print Assumptions cmd_if_parse.
Print Assumptions if_spec.
Print Assumptions if_branch_taken.
Print Assumptions if_else_taken.
Print Assumptions if_no_branch.
Print Assumptions if_cond_error.
Print Assumptions if_malformed.
Print Assumptions if_malformed_taken.
Print Assumptions if_bad_msg.
Print Assumptions if_extra_ignored.

(* ====================================================================================== *)
(* 2. while                                                                               *)
(* ====================================================================================== *)

Lemma check_args_while argv : length argv = 3%nat -> check_args "cmd_while" argv = Ok tt.
Proof. destruct argv as [|a [|b [|c [|d r]]]]; try discriminate. reflexivity. Qed.

Lemma check_args_for argv : length argv = 5%nat -> check_args "cmd_for" argv = Ok tt.
Proof. destruct argv as [|a [|b [|c [|d [|e [|f r]]]]]]; try discriminate. reflexivity. Qed.

Lemma check_args_foreach argv : length argv = 4%nat -> check_args "cmd_foreach" argv = Ok tt.
Proof. destruct argv as [|a [|b [|c [|d [|e r]]]]]; try discriminate. reflexivity. Qed.

Section While.
Variable rec : recfns.

(* --- unrolling lemmas --- *)
Lemma while_unroll_cond_error n st test body st1 r :
  expr_bool rec st test = (st1, r) -> is_ok r = false ->
  while_loop rec (S n) st test body = (st1, coerce r).
Proof.
  intros Hc Hr. cbn [while_loop]. rewrite Hc. destruct r; try discriminate; reflexivity.
Qed.

Lemma while_unroll_false n st test body st1 :
  expr_bool rec st test = (st1, Ok false) ->
  while_loop rec (S n) st test body = (st1, Ok v_empty).
Proof. intros Hc. cbn [while_loop]. rewrite Hc. reflexivity. Qed.

Lemma while_unroll_body_ok n st test body st1 st2 v :
  expr_bool rec st test = (st1, Ok true) ->
  r_eval rec st1 body = (st2, Ok v) ->
  while_loop rec (S n) st test body = while_loop rec n st2 test body.
Proof. intros Hc Hb. cbn [while_loop]. rewrite Hc, bind_ok, Hb. reflexivity. Qed.

Lemma while_unroll_break n st test body st1 st2 e :
  expr_bool rec st test = (st1, Ok true) ->
  r_eval rec st1 body = (st2, Err e) -> x_code e = CBreak ->
  while_loop rec (S n) st test body = (st2, Ok v_empty).
Proof.
  intros Hc Hb He. cbn [while_loop]. rewrite Hc, bind_ok, Hb. cbn [loop_body_outcome].
  rewrite He. reflexivity.
Qed.

Lemma while_unroll_continue n st test body st1 st2 e :
  expr_bool rec st test = (st1, Ok true) ->
  r_eval rec st1 body = (st2, Err e) -> x_code e = CContinue ->
  while_loop rec (S n) st test body = while_loop rec n st2 test body.
Proof.
  intros Hc Hb He. cbn [while_loop]. rewrite Hc, bind_ok, Hb. cbn [loop_body_outcome].
  rewrite He. reflexivity.
Qed.

(* any other outcome of the body (error, return, other codes, model panic / fuel) is the outcome *)
Lemma while_unroll_error n st test body st1 st2 r :
  expr_bool rec st test = (st1, Ok true) ->
  r_eval rec st1 body = (st2, r) -> classify r = BOther ->
  while_loop rec (S n) st test body = (st2, r).
Proof.
  intros Hc Hb Hr. cbn [while_loop]. rewrite Hc, bind_ok, Hb. rewrite classify_outcome, Hr. reflexivity.
Qed.

(* in particular for errors proper *)
Lemma while_unroll_error_code n st test body st1 st2 e :
  expr_bool rec st test = (st1, Ok true) ->
  r_eval rec st1 body = (st2, Err e) -> x_code e <> CBreak -> x_code e <> CContinue ->
  while_loop rec (S n) st test body = (st2, Err e).
Proof.
  intros Hc Hb H1 H2. apply (while_unroll_error n st test body st1 st2 (Err e) Hc Hb).
  cbn [classify]. destruct (x_code e); try reflexivity; congruence.
Qed.

(* THEOREM while_spec: the model's loop is the fuelled specification *)
Theorem while_spec : forall n st test body,
  while_loop rec n st test body = spec_while rec n st test body.
Proof.
  induction n as [|n IH]; intros st test body; [reflexivity|].
  cbn [while_loop spec_while].
  destruct (expr_bool rec st test) as [st1 [[|]|e|p|]]; try reflexivity.
  rewrite bind_ok. destruct (r_eval rec st1 body) as [st2 r].
  rewrite classify_outcome. destruct (classify r); try reflexivity; apply IH.
Qed.

Theorem cmd_while_spec st argv :
  length argv = 3%nat ->
  cmd_while rec st argv = while_loop rec (r_loop rec) st (arg argv 1) (arg argv 2).
Proof. intros H. unfold cmd_while. rewrite (check_args_while argv H). reflexivity. Qed.

Theorem cmd_while_wrong_args st argv :
  length argv <> 3%nat ->
  cmd_while rec st argv =
  (st, err (wrong_args_msg 1 argv (lit "test command"))).
Proof.
  intros H. unfold cmd_while.
  destruct argv as [|a [|b [|c [|d r]]]]; try reflexivity. exfalso. apply H. reflexivity.
Qed.

(* --- the fuel-free big-step relation --- *)

(* soundness: an outcome of the model other than fuel exhaustion is derivable *)
Theorem while_loop_sound : forall n st test body st' r,
  while_loop rec n st test body = (st', r) -> r <> Fuel ->
  while_eval rec test body st (st', r).
Proof.
  induction n as [|n IH]; intros st test body st' r H Hr.
  - inversion H; subst. congruence.
  - rewrite while_spec in H. cbn [spec_while] in H.
    destruct (expr_bool rec st test) as [st1 [[|]|e|p|]] eqn:Ec.
    + destruct (r_eval rec st1 body) as [st2 rb] eqn:Eb.
      destruct (classify rb) eqn:Ek.
      * eapply WhileNext; eauto. apply IH; [|assumption]. rewrite while_spec. exact H.
      * eapply WhileNext; eauto. apply IH; [|assumption]. rewrite while_spec. exact H.
      * inversion H; subst. eapply WhileBreak; eauto.
      * inversion H; subst. eapply WhileOther; eauto.
    + inversion H; subst. apply WhileFalse. exact Ec.
    + inversion H; subst. apply (WhileCondErr rec test body st st' (Err e) Ec). reflexivity.
    + inversion H; subst. apply (WhileCondErr rec test body st st' (Panic p) Ec). reflexivity.
    + inversion H; subst. congruence.
Qed.

(* completeness: a derivable outcome is the model's outcome for every sufficient budget *)
Theorem while_loop_complete : forall test body st out,
  while_eval rec test body st out ->
  exists n, forall m, (n <= m)%nat -> while_loop rec m st test body = out.
Proof.
  induction 1 as [st st1 r Hc Hr|st st1 Hc|st st1 st2 r Hc Hb Hk|st st1 st2 r Hc Hb Hk
                 |st st1 st2 r out Hc Hb Hk Hw [n IH]].
  - exists 1%nat. intros [|m] Hm; [lia|]. apply while_unroll_cond_error; assumption.
  - exists 1%nat. intros [|m] Hm; [lia|]. apply while_unroll_false; assumption.
  - exists 1%nat. intros [|m] Hm; [lia|]. rewrite while_spec. cbn [spec_while].
    rewrite Hc, Hb, Hk. reflexivity.
  - exists 1%nat. intros [|m] Hm; [lia|]. eapply while_unroll_error; eassumption.
  - exists (S n). intros [|m] Hm; [lia|]. rewrite while_spec. cbn [spec_while].
    rewrite Hc, Hb. rewrite <- while_spec.
    destruct Hk as [Hk|Hk]; rewrite Hk; apply IH; lia.
Qed.

(* hence the relation is deterministic *)
Corollary while_eval_det test body st out1 out2 :
  while_eval rec test body st out1 -> while_eval rec test body st out2 -> out1 = out2.
Proof.
  intros H1 H2.
  destruct (while_loop_complete _ _ _ _ H1) as [n1 K1].
  destruct (while_loop_complete _ _ _ _ H2) as [n2 K2].
  rewrite <- (K1 (n1 + n2)%nat) by lia. apply K2. lia.
Qed.

(* --- the number of iterations --- *)

(* if the test is true and the body completes normally k = |l| times in a row and the test is
   then false, the loop ends with the empty string in that state, and the body was started
   exactly in the states [l] (so exactly k times) *)
Theorem while_count : forall test body st l st' st'' n,
  while_iters rec test body st l st' ->
  expr_bool rec st' test = (st'', Ok false) ->
  (length l < n)%nat ->
  while_loop rec n st test body = (st'', Ok v_empty) /\
  while_trace rec n st test body = l.
Proof.
  intros test body st l st' st'' n Hi. revert n.
  induction Hi as [st|st st1 st2 v l st' Hc Hb Hi IH]; intros n Hf Hn.
  - destruct n as [|n]; [cbn [length] in Hn; lia|]. split.
    + apply while_unroll_false. exact Hf.
    + cbn [while_trace]. rewrite Hf. reflexivity.
  - destruct n as [|n]; [lia|]. cbn [length] in Hn.
    destruct (IH n Hf) as [H1 H2]; [lia|]. split.
    + rewrite (while_unroll_body_ok n st test body st1 st2 v Hc Hb). exact H1.
    + cbn [while_trace]. rewrite Hc, Hb. cbn [classify]. rewrite H2. reflexivity.
Qed.

(* the trace is the trace: its length never exceeds the budget, and each of its states is a
   state in which the test had just been found true *)
Lemma while_trace_length : forall n st test body, (length (while_trace rec n st test body) <= n)%nat.
Proof.
  induction n as [|n IH]; intros st test body; [cbn; lia|].
  cbn [while_trace]. destruct (expr_bool rec st test) as [st1 [[|]|e|p|]]; cbn [length]; try lia.
  destruct (r_eval rec st1 body) as [st2 r]. destruct (classify r); cbn [length]; try lia.
  - specialize (IH st2 test body). lia.
  - specialize (IH st2 test body). lia.
Qed.

End While.

Print Assumptions while_unroll_false.
Print Assumptions while_unroll_body_ok.
Print Assumptions while_unroll_break.
Print Assumptions while_unroll_continue.
Print Assumptions while_unroll_error.
Print Assumptions while_spec.
Print Assumptions cmd_while_spec.
Print Assumptions while_loop_sound.
Print Assumptions while_loop_complete.
Print Assumptions while_count.

(* ====================================================================================== *)
(* 3. for                                                                                 *)
(* ====================================================================================== *)

Section For.
Variable rec : recfns.

(* THEOREM for_spec *)
Theorem for_spec : forall n st test next body,
  for_loop rec n st test next body = spec_for rec n st test next body.
Proof.
  induction n as [|n IH]; intros st test next body; [reflexivity|].
  cbn [for_loop spec_for].
  destruct (expr_bool rec st test) as [st1 [[|]|e|p|]]; try reflexivity.
  rewrite bind_ok. destruct (r_eval rec st1 body) as [st2 r].
  rewrite classify_outcome. destruct (classify r); try reflexivity.
  - destruct (r_eval rec st2 next) as [st3 [v|e|p|]]; try reflexivity; [apply IH|].
    cbn [classify]. destruct (x_code e); reflexivity.
  - destruct (r_eval rec st2 next) as [st3 [v|e|p|]]; try reflexivity; [apply IH|].
    cbn [classify]. destruct (x_code e); reflexivity.
Qed.

(* [start] is evaluated once, before the loop; if it does not complete normally, that is the
   outcome (also for break / continue: they are not caught here) *)
Theorem cmd_for_spec st argv :
  length argv = 5%nat ->
  cmd_for rec st argv =
  do (st1, _) <- r_eval rec st (arg argv 1);
  for_loop rec (r_loop rec) st1 (arg argv 2) (arg argv 3) (arg argv 4).
Proof. intros H. unfold cmd_for. rewrite (check_args_for argv H). reflexivity. Qed.

Theorem cmd_for_wrong_args st argv :
  length argv <> 5%nat ->
  cmd_for rec st argv = (st, err (wrong_args_msg 1 argv (lit "start test next command"))).
Proof.
  intros H. unfold cmd_for.
  destruct argv as [|a [|b [|c [|d [|e [|f r]]]]]]; try reflexivity. exfalso. apply H. reflexivity.
Qed.

(* --- unrolling lemmas --- *)
Lemma for_unroll_cond_error n st test next body st1 r :
  expr_bool rec st test = (st1, r) -> is_ok r = false ->
  for_loop rec (S n) st test next body = (st1, coerce r).
Proof.
  intros Hc Hr. cbn [for_loop]. rewrite Hc. destruct r; try discriminate; reflexivity.
Qed.

Lemma for_unroll_false n st test next body st1 :
  expr_bool rec st test = (st1, Ok false) ->
  for_loop rec (S n) st test next body = (st1, Ok v_empty).
Proof. intros Hc. cbn [for_loop]. rewrite Hc. reflexivity. Qed.

(* break: [next] is NOT evaluated *)
Lemma for_unroll_break n st test next body st1 st2 e :
  expr_bool rec st test = (st1, Ok true) ->
  r_eval rec st1 body = (st2, Err e) -> x_code e = CBreak ->
  for_loop rec (S n) st test next body = (st2, Ok v_empty).
Proof.
  intros Hc Hb He. cbn [for_loop]. rewrite Hc, bind_ok, Hb. cbn [loop_body_outcome].
  rewrite He. reflexivity.
Qed.

Lemma for_unroll_error n st test next body st1 st2 r :
  expr_bool rec st test = (st1, Ok true) ->
  r_eval rec st1 body = (st2, r) -> classify r = BOther ->
  for_loop rec (S n) st test next body = (st2, r).
Proof.
  intros Hc Hb Hr. cbn [for_loop]. rewrite Hc, bind_ok, Hb. rewrite classify_outcome, Hr. reflexivity.
Qed.

(* normal completion: [next] runs, then the loop goes on *)
Lemma for_unroll_body_ok n st test next body st1 st2 v st3 w :
  expr_bool rec st test = (st1, Ok true) ->
  r_eval rec st1 body = (st2, Ok v) ->
  r_eval rec st2 next = (st3, Ok w) ->
  for_loop rec (S n) st test next body = for_loop rec n st3 test next body.
Proof. intros Hc Hb Hn. cbn [for_loop]. rewrite Hc, bind_ok, Hb. cbn [loop_body_outcome]. rewrite Hn. reflexivity. Qed.

(* continue: [next] still runs *)
Lemma for_unroll_continue n st test next body st1 st2 e st3 w :
  expr_bool rec st test = (st1, Ok true) ->
  r_eval rec st1 body = (st2, Err e) -> x_code e = CContinue ->
  r_eval rec st2 next = (st3, Ok w) ->
  for_loop rec (S n) st test next body = for_loop rec n st3 test next body.
Proof.
  intros Hc Hb He Hn. cbn [for_loop]. rewrite Hc, bind_ok, Hb. cbn [loop_body_outcome].
  rewrite He, Hn. reflexivity.
Qed.

(* the outcome of [next], after a body that completed or continued *)
Lemma for_unroll_next n st test next body st1 st2 r st3 r3 :
  expr_bool rec st test = (st1, Ok true) ->
  r_eval rec st1 body = (st2, r) -> (classify r = BNormal \/ classify r = BContinue) ->
  r_eval rec st2 next = (st3, r3) ->
  for_loop rec (S n) st test next body =
  match classify r3 with
  | BNormal => for_loop rec n st3 test next body
  | BBreak => (st3, Ok v_empty)
  | BContinue => (st3, err (lit "invoked ""continue"" outside of a loop"))
  | BOther => (st3, r3)
  end.
Proof.
  intros Hc Hb Hk Hn. rewrite !for_spec. cbn [spec_for]. rewrite Hc, Hb.
  destruct Hk as [Hk|Hk]; rewrite Hk, Hn; reflexivity.
Qed.

Lemma for_unroll_next_break n st test next body st1 st2 r st3 e :
  expr_bool rec st test = (st1, Ok true) ->
  r_eval rec st1 body = (st2, r) -> (classify r = BNormal \/ classify r = BContinue) ->
  r_eval rec st2 next = (st3, Err e) -> x_code e = CBreak ->
  for_loop rec (S n) st test next body = (st3, Ok v_empty).
Proof.
  intros Hc Hb Hk Hn He. rewrite (for_unroll_next n _ _ _ _ _ _ _ _ _ Hc Hb Hk Hn).
  cbn [classify]. rewrite He. reflexivity.
Qed.

Lemma for_unroll_next_continue n st test next body st1 st2 r st3 e :
  expr_bool rec st test = (st1, Ok true) ->
  r_eval rec st1 body = (st2, r) -> (classify r = BNormal \/ classify r = BContinue) ->
  r_eval rec st2 next = (st3, Err e) -> x_code e = CContinue ->
  for_loop rec (S n) st test next body = (st3, err (lit "invoked ""continue"" outside of a loop")).
Proof.
  intros Hc Hb Hk Hn He. rewrite (for_unroll_next n _ _ _ _ _ _ _ _ _ Hc Hb Hk Hn).
  cbn [classify]. rewrite He. reflexivity.
Qed.

Lemma for_unroll_next_error n st test next body st1 st2 r st3 r3 :
  expr_bool rec st test = (st1, Ok true) ->
  r_eval rec st1 body = (st2, r) -> (classify r = BNormal \/ classify r = BContinue) ->
  r_eval rec st2 next = (st3, r3) -> classify r3 = BOther ->
  for_loop rec (S n) st test next body = (st3, r3).
Proof.
  intros Hc Hb Hk Hn He. rewrite (for_unroll_next n _ _ _ _ _ _ _ _ _ Hc Hb Hk Hn).
  rewrite He. reflexivity.
Qed.

(* --- the fuel-free big-step relation --- *)
Theorem for_loop_sound : forall n st test next body st' r,
  for_loop rec n st test next body = (st', r) -> r <> Fuel ->
  for_eval rec test next body st (st', r).
Proof.
  induction n as [|n IH]; intros st test next body st' r H Hr.
  - inversion H; subst. congruence.
  - rewrite for_spec in H. cbn [spec_for] in H.
    destruct (expr_bool rec st test) as [st1 [[|]|e|p|]] eqn:Ec.
    + destruct (r_eval rec st1 body) as [st2 rb] eqn:Eb.
      assert (Hnext : (classify rb = BNormal \/ classify rb = BContinue) ->
                      (let '(st3, r3) := r_eval rec st2 next in
                       match classify r3 with
                       | BNormal => spec_for rec n st3 test next body
                       | BContinue => (st3, err continue_outside_loop)
                       | BBreak => (st3, Ok v_empty)
                       | BOther => (st3, r3)
                       end) = (st', r) -> for_eval rec test next body st (st', r)).
      { intros Hk H'. destruct (r_eval rec st2 next) as [st3 r3] eqn:En.
        destruct (classify r3) eqn:Ek3.
        - eapply ForNext; eauto. apply IH; [|assumption]. rewrite for_spec. exact H'.
        - inversion H'; subst. eapply ForNextContinue; eauto.
        - inversion H'; subst. eapply ForNextBreak; eauto.
        - inversion H'; subst. eapply ForNextOther; eauto. }
      destruct (classify rb) eqn:Ek.
      * apply Hnext; [left; reflexivity|exact H].
      * apply Hnext; [right; reflexivity|exact H].
      * inversion H; subst. eapply ForBreak; eauto.
      * inversion H; subst. eapply ForOther; eauto.
    + inversion H; subst. apply ForFalse. exact Ec.
    + inversion H; subst. apply (ForCondErr rec test next body st st' (Err e) Ec). reflexivity.
    + inversion H; subst. apply (ForCondErr rec test next body st st' (Panic p) Ec). reflexivity.
    + inversion H; subst. congruence.
Qed.

Theorem for_loop_complete : forall test next body st out,
  for_eval rec test next body st out ->
  exists n, forall m, (n <= m)%nat -> for_loop rec m st test next body = out.
Proof.
  induction 1 as [st st1 r Hc Hr|st st1 Hc|st st1 st2 r Hc Hb Hk|st st1 st2 r Hc Hb Hk
                 |st st1 st2 r st3 r3 Hc Hb Hk Hn Hk3|st st1 st2 r st3 r3 Hc Hb Hk Hn Hk3
                 |st st1 st2 r st3 r3 Hc Hb Hk Hn Hk3
                 |st st1 st2 r st3 r3 out Hc Hb Hk Hn Hk3 Hw [n IH]].
  - exists 1%nat. intros [|m] Hm; [lia|]. apply for_unroll_cond_error; assumption.
  - exists 1%nat. intros [|m] Hm; [lia|]. apply for_unroll_false; assumption.
  - exists 1%nat. intros [|m] Hm; [lia|]. rewrite for_spec. cbn [spec_for].
    rewrite Hc, Hb, Hk. reflexivity.
  - exists 1%nat. intros [|m] Hm; [lia|]. eapply for_unroll_error; eassumption.
  - exists 1%nat. intros [|m] Hm; [lia|].
    rewrite (for_unroll_next m _ _ _ _ _ _ _ _ _ Hc Hb Hk Hn), Hk3. reflexivity.
  - exists 1%nat. intros [|m] Hm; [lia|].
    rewrite (for_unroll_next m _ _ _ _ _ _ _ _ _ Hc Hb Hk Hn), Hk3. reflexivity.
  - exists 1%nat. intros [|m] Hm; [lia|].
    rewrite (for_unroll_next m _ _ _ _ _ _ _ _ _ Hc Hb Hk Hn), Hk3. reflexivity.
  - exists (S n). intros [|m] Hm; [lia|].
    rewrite (for_unroll_next m _ _ _ _ _ _ _ _ _ Hc Hb Hk Hn), Hk3. apply IH. lia.
Qed.

Corollary for_eval_det test next body st out1 out2 :
  for_eval rec test next body st out1 -> for_eval rec test next body st out2 -> out1 = out2.
Proof.
  intros H1 H2.
  destruct (for_loop_complete _ _ _ _ _ H1) as [n1 K1].
  destruct (for_loop_complete _ _ _ _ _ H2) as [n2 K2].
  rewrite <- (K1 (n1 + n2)%nat) by lia. apply K2. lia.
Qed.

(* --- the number of iterations: [next] runs once after every completed or continued body --- *)
Theorem for_count : forall test next body st bs ns st' st'' n,
  for_iters rec test next body st bs ns st' ->
  expr_bool rec st' test = (st'', Ok false) ->
  (length bs < n)%nat ->
  for_loop rec n st test next body = (st'', Ok v_empty) /\
  for_trace rec n st test next body = (bs, ns) /\
  length ns = length bs.
Proof.
  intros test next body st bs ns st' st'' n Hi. revert n.
  induction Hi as [st|st st1 st2 r st3 v bs ns st' Hc Hb Hk Hn Hi IH]; intros n Hf Hlen.
  - destruct n as [|n]; [cbn [length] in Hlen; lia|]. split; [|split].
    + apply for_unroll_false. exact Hf.
    + cbn [for_trace]. rewrite Hf. reflexivity.
    + reflexivity.
  - destruct n as [|n]; [lia|]. cbn [length] in Hlen.
    destruct (IH n Hf) as (H1 & H2 & H3); [lia|]. split; [|split].
    + rewrite (for_unroll_next n _ _ _ _ _ _ _ _ _ Hc Hb Hk Hn). exact H1.
    + cbn [for_trace]. rewrite Hc, Hb.
      destruct Hk as [Hk|Hk]; rewrite Hk, Hn; cbn [classify]; rewrite H2; reflexivity.
    + cbn [length]. rewrite H3. reflexivity.
Qed.

(* a loop ended by break: [next] ran once per iteration before the last, not after the break *)
Theorem for_count_break : forall test next body st bs ns st' st1 st2 e n,
  for_iters rec test next body st bs ns st' ->
  expr_bool rec st' test = (st1, Ok true) ->
  r_eval rec st1 body = (st2, Err e) -> x_code e = CBreak ->
  (length bs < n)%nat ->
  for_loop rec n st test next body = (st2, Ok v_empty) /\
  for_trace rec n st test next body = (bs ++ [st1], ns).
Proof.
  intros test next body st bs ns st' sa sb e n Hi. revert n.
  induction Hi as [st|st st1 st2 r st3 v bs ns st' Hc Hb Hk Hn Hi IH]; intros n Hf Hbd He Hlen.
  - destruct n as [|n]; [cbn [length] in Hlen; lia|]. split.
    + eapply for_unroll_break; eassumption.
    + cbn [for_trace]. rewrite Hf, Hbd. cbn [classify]. rewrite He. reflexivity.
  - destruct n as [|n]; [lia|]. cbn [length] in Hlen.
    destruct (IH n Hf Hbd He) as (H1 & H2); [lia|]. split.
    + rewrite (for_unroll_next n _ _ _ _ _ _ _ _ _ Hc Hb Hk Hn). exact H1.
    + cbn [for_trace]. rewrite Hc, Hb.
      destruct Hk as [Hk|Hk]; rewrite Hk, Hn; cbn [classify]; rewrite H2; reflexivity.
Qed.

End For.

Print Assumptions for_spec.
Print Assumptions cmd_for_spec.
Print Assumptions for_unroll_false.
Print Assumptions for_unroll_break.
Print Assumptions for_unroll_body_ok.
Print Assumptions for_unroll_continue.
Print Assumptions for_unroll_next.
Print Assumptions for_unroll_next_break.
Print Assumptions for_unroll_next_continue.
Print Assumptions for_unroll_next_error.
Print Assumptions for_loop_sound.
Print Assumptions for_loop_complete.
Print Assumptions for_count.
Print Assumptions for_count_break.

(* ====================================================================================== *)
(* 4. foreach                                                                             *)
(* ====================================================================================== *)

Section Foreach.
Variable rec : recfns.

(* --- arithmetic and lists --- *)
Lemma ceil_div_0 m : (0 < m)%nat -> ceil_div 0 m = 0%nat.
Proof. intros H. unfold ceil_div. apply Nat.div_small. lia. Qed.

Lemma ceil_div_step a m : (0 < m)%nat -> (0 < a)%nat -> ceil_div a m = S (ceil_div (a - m) m).
Proof.
  intros Hm Ha. unfold ceil_div.
  replace (a + m - 1)%nat with ((a - 1) + 1 * m)%nat by lia.
  rewrite Nat.div_add by lia.
  destruct (Nat.le_gt_cases m a) as [H|H].
  - replace (a - m + m - 1)%nat with (a - 1)%nat by lia. lia.
  - replace (a - m + m - 1)%nat with (m - 1)%nat by lia.
    rewrite (Nat.div_small (a - 1)) by lia. rewrite (Nat.div_small (m - 1)) by lia. reflexivity.
Qed.

(* ceil_div is the ceiling of the quotient *)
Lemma ceil_div_spec a m : (0 < m)%nat ->
  (a <= ceil_div a m * m)%nat /\ (ceil_div a m * m < a + m)%nat.
Proof.
  intros Hm. unfold ceil_div.
  assert (H1 := Nat.div_mod (a + m - 1) m ltac:(lia)).
  assert (H2 := Nat.mod_upper_bound (a + m - 1) m ltac:(lia)).
  nia.
Qed.

Lemma nth_skipn_add {A} (d : A) : forall i (l : list A) j, nth j (skipn i l) d = nth (i + j) l d.
Proof.
  induction i as [|i IH]; intros l j; [reflexivity|].
  destruct l as [|x l]; cbn [skipn Nat.add nth]; [destruct j; reflexivity|apply IH].
Qed.

Lemma skipn_add {A} : forall i j (l : list A), skipn i (skipn j l) = skipn (j + i) l.
Proof.
  intros i j. revert i. induction j as [|j IH]; intros i l; [reflexivity|].
  destruct l as [|x l]; cbn [skipn Nat.add]; [destruct i; reflexivity|apply IH].
Qed.

(* --- one iteration's assignments --- *)
Fixpoint zip_pad (vars l : list value) : list (value * value) :=
  match vars with
  | [] => []
  | v :: vs =>
      match l with
      | x :: r => (v, x) :: zip_pad vs r
      | [] => (v, v_empty) :: zip_pad vs []
      end
  end.

Lemma zip_pad_nth : forall vars l,
  zip_pad vars l = map (fun j => (nth j vars v_empty, nth j l v_empty)) (seq 0 (length vars)).
Proof.
  induction vars as [|v vs IH]; intros l; [reflexivity|].
  cbn [length seq map]. rewrite <- seq_shift, map_map.
  destruct l as [|x r]; cbn [zip_pad nth]; rewrite IH; f_equal.
  apply map_ext. intros j. destruct j; reflexivity.
Qed.

Lemma zip_pad_chunk vars l k :
  zip_pad vars (skipn (k * length vars) l) = chunk_bindings vars l k.
Proof.
  rewrite zip_pad_nth. unfold chunk_bindings. apply map_ext. intros j.
  rewrite nth_skipn_add. reflexivity.
Qed.

Lemma assign_vars_zip : forall vars st l,
  assign_vars st vars l =
  do (st1, _) <- set_vars st (zip_pad vars l); ret st1 (skipn (length vars) l).
Proof.
  induction vars as [|v vs IH]; intros st l; [reflexivity|].
  destruct l as [|x r]; cbn [assign_vars zip_pad set_vars length skipn].
  - destruct (st_set_var st v v_empty) as [st1 [[]|e|p|]]; try reflexivity.
    rewrite !bind_ok. rewrite IH. destruct vs; reflexivity.
  - destruct (st_set_var st v x) as [st1 [[]|e|p|]]; try reflexivity.
    rewrite !bind_ok. apply IH.
Qed.

(* THEOREM: [assign_vars] assigns the next |vars| elements in order, padding with the empty
   string, and returns the remaining elements *)
Theorem assign_vars_spec st vars l :
  assign_vars st vars l =
  do (st1, _) <- set_vars st (chunk_bindings vars l 0); ret st1 (skipn (length vars) l).
Proof. rewrite assign_vars_zip. rewrite <- (zip_pad_chunk vars l 0). reflexivity. Qed.

Lemma chunk_bindings_length vars l k : length (chunk_bindings vars l k) = length vars.
Proof. unfold chunk_bindings. rewrite map_length, seq_length. reflexivity. Qed.

Lemma chunk_bindings_nth vars l k j : (j < length vars)%nat ->
  nth j (chunk_bindings vars l k) (v_empty, v_empty) =
  (nth j vars v_empty, nth (k * length vars + j) l v_empty).
Proof.
  intros H. unfold chunk_bindings.
  set (f := fun j : nat => (nth j vars v_empty, nth (k * length vars + j) l v_empty)).
  rewrite (nth_indep _ _ (f O)) by (rewrite map_length, seq_length; exact H).
  rewrite map_nth. rewrite seq_nth by exact H. reflexivity.
Qed.

(* --- the loop --- *)
Lemma foreach_gen : forall n st vars l body k,
  (0 < length vars)%nat ->
  (length l - k * length vars < n)%nat ->
  foreach_loop rec n st vars (skipn (k * length vars) l) body =
  spec_foreach rec (ceil_div (length l - k * length vars) (length vars)) st vars l body k.
Proof.
  induction n as [|n IH]; intros st vars l body k Hm Hn; [lia|].
  assert (HL : length (skipn (k * length vars) l) = (length l - k * length vars)%nat)
    by apply skipn_length.
  destruct (skipn (k * length vars) l) as [|x r] eqn:El.
  - cbn [length] in HL. rewrite <- HL. rewrite ceil_div_0 by assumption. reflexivity.
  - cbn [length] in HL.
    rewrite ceil_div_step by lia.
    cbn [foreach_loop spec_foreach].
    rewrite assign_vars_zip. rewrite <- El. rewrite zip_pad_chunk.
    destruct (set_vars st (chunk_bindings vars l k)) as [st1 [[]|e|p|]]; try reflexivity.
    rewrite !bind_ok. unfold ret. rewrite bind_ok.
    destruct (r_eval rec st1 body) as [st2 rb].
    rewrite classify_outcome.
    assert (Hk : skipn (length vars) (skipn (k * length vars) l) = skipn (S k * length vars) l).
    { rewrite skipn_add. f_equal. lia. }
    assert (Hlen : (length l - k * length vars - length vars = length l - S k * length vars)%nat) by lia.
    destruct (classify rb); try reflexivity.
    + rewrite Hk, Hlen. apply IH; [assumption|lia].
    + rewrite Hk, Hlen. apply IH; [assumption|lia].
Qed.

(* THEOREM foreach_chunks: with a non-empty variable list, the loop given the budget that
   cmd_foreach gives it performs ceil(|l| / |vars|) iterations (unless ended by break or another
   exception); iteration k assigns [chunk_bindings vars l k], i.e. variable j gets element
   k * |vars| + j or the empty string (chunk_bindings_nth); the result is the empty string.
   [spec_foreach] has no budget, so the budget suffices. *)
Theorem foreach_chunks st vars l body :
  vars <> [] ->
  foreach_loop rec (S (length l)) st vars l body =
  spec_foreach rec (ceil_div (length l) (length vars)) st vars l body 0.
Proof.
  intros Hv.
  assert (Hm : (0 < length vars)%nat) by (destruct vars; [congruence|cbn; lia]).
  assert (H := foreach_gen (S (length l)) st vars l body 0 Hm).
  cbn [Nat.mul skipn] in H. rewrite Nat.sub_0_r in H. apply H. lia.
Qed.

Theorem cmd_foreach_spec st argv vars l :
  length argv = 4%nat ->
  v_as_list (arg argv 1) = inr vars -> v_as_list (arg argv 2) = inr l ->
  cmd_foreach rec st argv =
  match vars with
  | [] => (st, err (lit "foreach varlist is empty"))
  | _ => foreach_loop rec (S (length l)) st vars l (arg argv 3)
  end.
Proof.
  intros H Hv Hl. unfold cmd_foreach. rewrite (check_args_foreach argv H).
  unfold lift, lift_sum. rewrite bind_ok. rewrite Hv. cbn [of_sum]. rewrite bind_ok.
  rewrite Hl. cbn [of_sum]. rewrite bind_ok. destruct vars; reflexivity.
Qed.

Corollary cmd_foreach_empty_varlist st argv l :
  length argv = 4%nat ->
  v_as_list (arg argv 1) = inr [] -> v_as_list (arg argv 2) = inr l ->
  cmd_foreach rec st argv = (st, err (lit "foreach varlist is empty")).
Proof. intros H Hv Hl. rewrite (cmd_foreach_spec st argv [] l H Hv Hl). reflexivity. Qed.

Corollary cmd_foreach_chunks st argv vars l :
  length argv = 4%nat ->
  v_as_list (arg argv 1) = inr vars -> v_as_list (arg argv 2) = inr l -> vars <> [] ->
  cmd_foreach rec st argv =
  spec_foreach rec (ceil_div (length l) (length vars)) st vars l (arg argv 3) 0.
Proof.
  intros H Hv Hl Hne. rewrite (cmd_foreach_spec st argv vars l H Hv Hl).
  rewrite <- foreach_chunks by assumption. destruct vars; [congruence|reflexivity].
Qed.

(* a list argument that is not a list: that error, nothing is evaluated *)
Theorem cmd_foreach_bad_list st argv m :
  length argv = 4%nat ->
  (v_as_list (arg argv 1) = inl m \/
   (exists vars, v_as_list (arg argv 1) = inr vars) /\ v_as_list (arg argv 2) = inl m) ->
  cmd_foreach rec st argv = (st, err m).
Proof.
  intros H Hc. unfold cmd_foreach. rewrite (check_args_foreach argv H).
  unfold lift, lift_sum. rewrite bind_ok.
  destruct Hc as [Hv|[[vars Hv] Hl]]; rewrite Hv; cbn [of_sum]; [reflexivity|].
  rewrite bind_ok. rewrite Hl. reflexivity.
Qed.

(* --- the number of iterations --- *)
Lemma spec_foreach_iters vars l body : forall k st tr st' i,
  foreach_iters rec vars l body k st tr st' ->
  spec_foreach rec (length tr + i) st vars l body k =
  spec_foreach rec i st' vars l body (k + length tr).
Proof.
  intros k st tr st' i H. induction H as [k st|k st st1 st2 v tr st' Hs Hb Hi IH].
  - cbn [length Nat.add]. rewrite Nat.add_0_r. reflexivity.
  - cbn [length Nat.add spec_foreach]. rewrite Hs, bind_ok, Hb. cbn [classify].
    rewrite IH. f_equal. lia.
Qed.

(* if ceil(|l| / |vars|) iterations in a row complete normally, the loop ends there with the
   empty string: the body runs exactly that many times *)
Theorem foreach_count st vars l body tr st' :
  vars <> [] ->
  foreach_iters rec vars l body 0 st tr st' ->
  length tr = ceil_div (length l) (length vars) ->
  foreach_loop rec (S (length l)) st vars l body = (st', Ok v_empty).
Proof.
  intros Hv Hi Hlen. rewrite foreach_chunks by assumption. rewrite <- Hlen.
  rewrite <- (Nat.add_0_r (length tr)). rewrite (spec_foreach_iters vars l body 0 st tr st' 0 Hi).
  reflexivity.
Qed.

(* fewer normal iterations are not the end: the next iteration's assignments are made *)
Theorem foreach_next_iteration st vars l body tr st' :
  vars <> [] ->
  foreach_iters rec vars l body 0 st tr st' ->
  (length tr < ceil_div (length l) (length vars))%nat ->
  foreach_loop rec (S (length l)) st vars l body =
  spec_foreach rec (ceil_div (length l) (length vars) - length tr) st' vars l body (length tr).
Proof.
  intros Hv Hi Hlen. rewrite foreach_chunks by assumption.
  replace (ceil_div (length l) (length vars))
    with (length tr + (ceil_div (length l) (length vars) - length tr))%nat at 1 by lia.
  rewrite (spec_foreach_iters vars l body 0 st tr st' _ Hi). reflexivity.
Qed.

(* --- the budget given by cmd_foreach suffices --- *)
Lemma st_set_var_no_fuel st x v : snd (st_set_var st x v) <> Fuel.
Proof.
  unfold st_set_var. destruct (as_var_name x) as [n [i|]].
  - unfold st_set_element, sc_set_elem.
    destruct (assoc_get n (sc_get_scope (i_scopes st) (sc_target (i_scopes st) n))) as [[| | |]|];
      cbn; discriminate.
  - unfold st_set_scalar, sc_set, sc_set_at.
    destruct (assoc_get n (sc_get_scope (i_scopes st) (sc_target (i_scopes st) n))) as [[| | |]|];
      cbn; discriminate.
Qed.

Lemma set_vars_no_fuel : forall b st, snd (set_vars st b) <> Fuel.
Proof.
  induction b as [|[x v] r IH]; intros st; cbn [set_vars]; [cbn; discriminate|].
  assert (H := st_set_var_no_fuel st x v).
  destruct (st_set_var st x v) as [st1 [[]|e|p|]]; cbn [bind snd] in *;
    try discriminate; [apply IH|congruence].
Qed.

Lemma spec_foreach_no_fuel vars l body :
  (forall st, snd (r_eval rec st body) <> Fuel) ->
  forall i st k, snd (spec_foreach rec i st vars l body k) <> Fuel.
Proof.
  intros Hb. induction i as [|i IH]; intros st k; cbn [spec_foreach]; [cbn; discriminate|].
  assert (H := set_vars_no_fuel (chunk_bindings vars l k) st).
  destruct (set_vars st (chunk_bindings vars l k)) as [st1 [[]|e|p|]]; cbn [bind snd] in *;
    try discriminate; [|congruence].
  assert (H2 := Hb st1). destruct (r_eval rec st1 body) as [st2 rb]. cbn [snd] in H2.
  destruct (classify rb); try apply IH; [cbn; discriminate|exact H2].
Qed.

Theorem foreach_no_fuel st vars l body :
  vars <> [] ->
  (forall st, snd (r_eval rec st body) <> Fuel) ->
  snd (foreach_loop rec (S (length l)) st vars l body) <> Fuel.
Proof.
  intros Hv Hb. rewrite foreach_chunks by assumption. apply spec_foreach_no_fuel. exact Hb.
Qed.

End Foreach.

Print Assumptions assign_vars_spec.
Print Assumptions chunk_bindings_nth.
Print Assumptions foreach_chunks.
Print Assumptions cmd_foreach_spec.
Print Assumptions cmd_foreach_empty_varlist.
Print Assumptions cmd_foreach_chunks.
Print Assumptions foreach_count.
Print Assumptions foreach_next_iteration.
Print Assumptions foreach_no_fuel.

(* ====================================================================================== *)
(* 5. procedure calls                                                                     *)
(* ====================================================================================== *)

Section Proc.
Variable rec : recfns.

(* the call: a new scope is pushed, the parameters are bound in it, the body is evaluated,
   the scope is popped and the body's outcome passes the procedure boundary *)
Theorem proc_execute_spec st parms body argv st2 st3 r :
  bind_parms (push_scope st) (arg argv 0) parms parms (skipn 1 argv) = (st2, Ok tt) ->
  r_eval rec st2 body = (st3, r) ->
  proc_execute rec st parms body argv = proc_boundary (pop_scope st3) r.
Proof. intros Hb He. unfold proc_execute. rewrite Hb, He. reflexivity. Qed.

(* a binding error: the body is not evaluated, the scope is popped *)
Theorem proc_execute_bind_error st parms body argv st2 e :
  bind_parms (push_scope st) (arg argv 0) parms parms (skipn 1 argv) = (st2, Err e) ->
  proc_execute rec st parms body argv = (pop_scope st2, Err e).
Proof. intros Hb. unfold proc_execute. rewrite Hb. reflexivity. Qed.

(* THEOREM proc_result_last_command: the value of a procedure is the value of its body, i.e. of
   the last command executed in it, or the value given to a plain [return] *)
Theorem proc_result_last_command st parms body argv st2 st3 v :
  bind_parms (push_scope st) (arg argv 0) parms parms (skipn 1 argv) = (st2, Ok tt) ->
  (r_eval rec st2 body = (st3, Ok v) \/
   r_eval rec st2 body = (st3, Err (molt_return_ext v 1 COkay))) ->
  proc_execute rec st parms body argv = (pop_scope st3, Ok v).
Proof.
  intros Hb [He|He]; rewrite (proc_execute_spec _ _ _ _ _ _ _ Hb He); reflexivity.
Qed.

(* the other rules of the boundary *)
Lemma proc_boundary_ok st v : proc_boundary st (Ok v) = (st, Ok v).
Proof. reflexivity. Qed.

Lemma proc_boundary_return st v : proc_boundary st (Err (molt_return_ext v 1 COkay)) = (st, Ok v).
Proof. reflexivity. Qed.

Lemma proc_boundary_error st e : x_code e = CError -> proc_boundary st (Err e) = (st, Err e).
Proof. intros H. unfold proc_boundary. rewrite H. reflexivity. Qed.

Lemma proc_boundary_break st e :
  x_code e = CBreak -> proc_boundary st (Err e) = (st, err (lit "invoked ""break"" outside of a loop")).
Proof. intros H. unfold proc_boundary. rewrite H. reflexivity. Qed.

Lemma proc_boundary_continue st e :
  x_code e = CContinue ->
  proc_boundary st (Err e) = (st, err (lit "invoked ""continue"" outside of a loop")).
Proof. intros H. unfold proc_boundary. rewrite H. reflexivity. Qed.

(* [return -code c -level 1 v] (c not return): the procedure ends with code c *)
Lemma proc_boundary_return_code st v c :
  c <> CReturn -> c <> COkay ->
  proc_boundary st (Err (molt_return_ext v 1 c)) =
  (st, Err {| x_code := c; x_value := v; x_level := 0; x_next := c; x_data := None |}).
Proof. intros H1 H2. destruct c; try congruence; reflexivity. Qed.

(* [return -level n] with n > 1 stays a return with one level less *)
Lemma proc_boundary_return_level st v (n : N) c :
  (2 <= n)%N ->
  proc_boundary st (Err (molt_return_ext v n c)) =
  (st, Err {| x_code := CReturn; x_value := v; x_level := n - 1; x_next := c; x_data := None |}).
Proof.
  intros Hn. unfold molt_return_ext.
  assert (E0 : (n =? 0) = false) by lia. rewrite E0. cbn [andb].
  assert (E1 : (0 <? n) = true) by lia. rewrite E1.
  unfold proc_boundary. cbn [x_code]. unfold decrement_level. cbn [x_level x_code x_next x_value x_data].
  assert (E2 : (n - 1 =? 0) = false) by lia. rewrite E2. reflexivity.
Qed.

End Proc.

Print Assumptions proc_execute_spec.
Print Assumptions proc_execute_bind_error.
Print Assumptions proc_result_last_command.
Print Assumptions proc_boundary_return_level.

(* ====================================================================================== *)
(* 6. scripts                                                                             *)
(* ====================================================================================== *)

Section Scripts.
Variable exec : executor.

Section AnyWordEval.
Variable ew : interp -> word -> interp * res value.

(* evaluation over an append is sequential composition: state and "result so far" are
   threaded, anything but normal completion ends the script *)
Theorem eval_cmds_with_app : forall c1 c2 st r,
  eval_cmds_with exec ew st (c1 ++ c2) r =
  do (st1, v) <- eval_cmds_with exec ew st c1 r; eval_cmds_with exec ew st1 c2 v.
Proof.
  induction c1 as [|ws c1 IH]; intros c2 st r; [reflexivity|].
  cbn [app eval_cmds_with].
  destruct (eval_words_with ew st ws []) as [st1 [[|name args]|e|p|]]; try reflexivity.
  - apply IH.
  - destruct (assoc_get (as_str name) (i_cmds st1)) as [cmd|]; [|reflexivity].
    destruct (exec st1 cmd (name :: args)) as [st2 [v|e|p|]]; try reflexivity.
    + apply IH.
    + unfold command_outcome. destruct (x_code e); try reflexivity.
      destruct (is_new_error e); [reflexivity|]. destruct (is_proc cmd); reflexivity.
Qed.

(* the rules for one command *)
Lemma eval_cmds_with_nil st r : eval_cmds_with exec ew st [] r = (st, Ok r).
Proof. reflexivity. Qed.

(* a command without words is skipped and does not change the result so far *)
Lemma eval_cmds_with_skip st ws rest r st1 :
  eval_words_with ew st ws [] = (st1, Ok []) ->
  eval_cmds_with exec ew st (ws :: rest) r = eval_cmds_with exec ew st1 rest r.
Proof. intros H. cbn [eval_cmds_with]. rewrite H. reflexivity. Qed.

(* a command that completes: its value becomes the result so far *)
Lemma eval_cmds_with_cmd_ok st ws rest r st1 name args cmd st2 v :
  eval_words_with ew st ws [] = (st1, Ok (name :: args)) ->
  assoc_get (as_str name) (i_cmds st1) = Some cmd ->
  exec st1 cmd (name :: args) = (st2, Ok v) ->
  eval_cmds_with exec ew st (ws :: rest) r = eval_cmds_with exec ew st2 rest v.
Proof. intros H1 H2 H3. cbn [eval_cmds_with]. rewrite H1, H2, H3. reflexivity. Qed.

(* a command that raises: the rest of the script is not evaluated *)
Lemma eval_cmds_with_cmd_err st ws rest r st1 name args cmd st2 e :
  eval_words_with ew st ws [] = (st1, Ok (name :: args)) ->
  assoc_get (as_str name) (i_cmds st1) = Some cmd ->
  exec st1 cmd (name :: args) = (st2, Err e) ->
  eval_cmds_with exec ew st (ws :: rest) r = command_outcome st2 cmd (as_str name) (name :: args) e.
Proof. intros H1 H2 H3. cbn [eval_cmds_with]. rewrite H1, H2, H3. reflexivity. Qed.

Lemma eval_cmds_with_unknown st ws rest r st1 name args :
  eval_words_with ew st ws [] = (st1, Ok (name :: args)) ->
  assoc_get (as_str name) (i_cmds st1) = None ->
  eval_cmds_with exec ew st (ws :: rest) r =
  (st1, Err (add_error_info
               (add_error_info (molt_err (lit "invalid command name """ ++ as_str name ++ lit """"))
                               (lit "    while executing"))
               (lit """" ++ list_to_string (map as_str (name :: args)) ++ lit """"))).
Proof. intros H1 H2. cbn [eval_cmds_with]. rewrite H1, H2. reflexivity. Qed.

Lemma eval_cmds_with_words_err st ws rest r st1 x :
  eval_words_with ew st ws [] = (st1, x) -> is_ok x = false ->
  eval_cmds_with exec ew st (ws :: rest) r = (st1, coerce x).
Proof.
  intros H1 H2. cbn [eval_cmds_with]. rewrite H1. destruct x; try discriminate; reflexivity.
Qed.

(* only exceptions with code Error are decorated; the others pass unchanged *)
Lemma command_outcome_non_error st cmd name argv e :
  x_code e <> CError -> command_outcome st cmd name argv e = (st, Err e).
Proof. intros H. unfold command_outcome. destruct (x_code e); try reflexivity. congruence. Qed.

(* an outcome other than normal completion ends the script *)
Theorem eval_cmds_with_stops c1 c2 st r st1 x :
  eval_cmds_with exec ew st c1 r = (st1, x) -> is_ok x = false ->
  eval_cmds_with exec ew st (c1 ++ c2) r = (st1, x).
Proof.
  intros H Hx. rewrite eval_cmds_with_app, H. destruct x; try discriminate; reflexivity.
Qed.

Lemma cmd_step_eval st r ws st1 r1 rest :
  cmd_step exec ew st r ws st1 r1 ->
  eval_cmds_with exec ew st (ws :: rest) r = eval_cmds_with exec ew st1 rest r1.
Proof.
  intros [st0 r0 ws0 st2 H|st0 r0 ws0 st2 name args cmd st3 v H1 H2 H3].
  - apply eval_cmds_with_skip. exact H.
  - eapply eval_cmds_with_cmd_ok; eassumption.
Qed.

(* all commands complete: the result is the value of the last command that has words (the
   initial result if there is none) *)
Theorem cmds_run_eval st r cmds st' r' :
  cmds_run exec ew st r cmds st' r' -> eval_cmds_with exec ew st cmds r = (st', Ok r').
Proof.
  induction 1 as [st r|st r ws st1 r1 rest st' r' Hs Hr IH]; [reflexivity|].
  rewrite (cmd_step_eval _ _ _ _ _ rest Hs). exact IH.
Qed.

End AnyWordEval.

(* --- eval_script --- *)
Theorem eval_script_nil st : eval_script exec st [] = (st, Ok v_empty).
Proof. reflexivity. Qed.

Theorem eval_script_app st c1 c2 :
  eval_script exec st (c1 ++ c2) =
  do (st1, v) <- eval_script exec st c1; eval_cmds exec st1 c2 v.
Proof. unfold eval_script, eval_cmds. apply eval_cmds_with_app. Qed.

(* THEOREM: when all commands complete, the value of a script is the value of its last command *)
Theorem eval_script_last st cmds st1 r1 c st2 v :
  cmds_run exec (eval_word exec) st v_empty cmds st1 r1 ->
  cmd_step exec (eval_word exec) st1 r1 c st2 v ->
  eval_script exec st (cmds ++ [c]) = (st2, Ok v).
Proof.
  intros Hr Hs. rewrite eval_script_app. unfold eval_script, eval_cmds.
  rewrite (cmds_run_eval _ _ _ _ _ _ Hr). rewrite bind_ok.
  rewrite (cmd_step_eval _ _ _ _ _ _ [] Hs). reflexivity.
Qed.

(* in particular: a last command with words gives its own value, a last command without words
   leaves the value of the commands before it *)
Corollary eval_script_last_value st cmds st1 r1 c st2 name args cmd st3 v :
  cmds_run exec (eval_word exec) st v_empty cmds st1 r1 ->
  eval_words exec st1 c [] = (st2, Ok (name :: args)) ->
  assoc_get (as_str name) (i_cmds st2) = Some cmd ->
  exec st2 cmd (name :: args) = (st3, Ok v) ->
  eval_script exec st (cmds ++ [c]) = (st3, Ok v).
Proof.
  intros Hr H1 H2 H3. eapply eval_script_last; [exact Hr|].
  eapply StepCmd; eassumption.
Qed.

Corollary eval_script_last_empty st cmds st1 r1 c st2 :
  cmds_run exec (eval_word exec) st v_empty cmds st1 r1 ->
  eval_words exec st1 c [] = (st2, Ok []) ->
  eval_script exec st (cmds ++ [c]) = (st2, Ok r1).
Proof.
  intros Hr H1. eapply eval_script_last; [exact Hr|]. apply StepEmpty. exact H1.
Qed.

End Scripts.

Print Assumptions eval_cmds_with_app.
Print Assumptions eval_cmds_with_stops.
Print Assumptions cmds_run_eval.
Print Assumptions eval_script_nil.
Print Assumptions eval_script_app.
Print Assumptions eval_script_last.

(* ====================================================================================== *)
(* the shapes of if, completed: every argument list is well-shaped, well-shaped with an else  *)
(* body followed by ignored words, or malformed                                           *)
(* ====================================================================================== *)

Lemma strip_then_replace rest body tl0 :
  strip_then rest = body :: tl0 ->
  exists pre, rest = pre ++ body :: tl0 /\ forall tl1, strip_then (pre ++ body :: tl1) = body :: tl1.
Proof.
  destruct rest as [|t r]; cbn [strip_then]; [discriminate|].
  destruct (is_kw "then" t) eqn:Et; intros H.
  - subst r. exists [t]. split; [reflexivity|]. intros tl1. cbn [app strip_then]. rewrite Et. reflexivity.
  - inversion H; subst. exists []. split; [reflexivity|]. intros tl1. cbn [app strip_then].
    rewrite Et. reflexivity.
Qed.

Lemma if_shape_none_n : forall n args, (length args <= n)%nat ->
  forall prev, if_shape args = None ->
  (exists cl oc msg, if_parse prev args = (cl, IfBad oc msg)) \/
  (exists args0 extra cl b,
     extra <> [] /\ args = args0 ++ extra /\ if_shape args0 = Some (cl, Some b)).
Proof.
  induction n as [|n IH]; intros [|cond rest] Hn prev H.
  - left. do 3 eexists. reflexivity.
  - cbn [length] in Hn. lia.
  - left. do 3 eexists. reflexivity.
  - cbn [if_shape] in H. cbn [if_parse].
    assert (HL := strip_then_length rest).
    destruct (strip_then rest) as [|body [|k rest3]] eqn:ES.
    + left. do 3 eexists. reflexivity.
    + discriminate.
    + destruct (strip_then_replace _ _ _ ES) as [pre [Hrest Hpre]].
      destruct (is_kw "elseif" k) eqn:Ek1.
      * destruct (if_shape rest3) as [[cl' e']|] eqn:E3; [discriminate|].
        destruct (IH rest3 ltac:(cbn [length] in *; lia) k E3)
          as [[cl' [oc [msg Hp]]]|[args0 [extra [cl' [b [Hne [Hsplit Hsh]]]]]]].
        -- left. rewrite Hp. do 3 eexists. reflexivity.
        -- right. exists (cond :: pre ++ body :: k :: args0), extra, ((cond, body) :: cl'), b.
           split; [exact Hne|]. split.
           ++ rewrite Hrest, Hsplit. cbn [app]. rewrite <- app_assoc. reflexivity.
           ++ cbn [if_shape]. rewrite Hpre. rewrite Ek1, Hsh. reflexivity.
      * destruct (is_kw "else" k) eqn:Ek2.
        -- destruct rest3 as [|b [|x y]].
           ++ left. do 3 eexists. reflexivity.
           ++ discriminate.
           ++ right. exists (cond :: pre ++ [body; k; b]), (x :: y), [(cond, body)], b.
              split; [discriminate|]. split.
              ** rewrite Hrest. cbn [app]. rewrite <- app_assoc. reflexivity.
              ** cbn [if_shape]. rewrite Hpre. rewrite Ek1, Ek2. reflexivity.
        -- destruct rest3 as [|x y]; [discriminate|].
           right. exists (cond :: pre ++ [body; k]), (x :: y), [(cond, body)], k.
           split; [discriminate|]. split.
           ++ rewrite Hrest. cbn [app]. rewrite <- app_assoc. reflexivity.
           ++ cbn [if_shape]. rewrite Hpre. rewrite Ek1, Ek2. reflexivity.
Qed.

(* THEOREM: an argument list that does not have the documented shape is either malformed for
   the model as well (and then if_malformed / if_malformed_taken say what happens), or it is a
   well-shaped list with an else body followed by extra words, which are ignored
   (if_extra_ignored) *)
Theorem if_shape_none args prev :
  if_shape args = None ->
  (exists cl oc msg, if_parse prev args = (cl, IfBad oc msg)) \/
  (exists args0 extra cl b,
     extra <> [] /\ args = args0 ++ extra /\ if_shape args0 = Some (cl, Some b)).
Proof. apply (if_shape_none_n (length args)). lia. Qed.

Print Assumptions if_shape_none.

(* conversely a well-shaped list is never malformed for the model (if_shape_parse) *)

(* ====================================================================================== *)
(* Examples on the real interpreter (Interp::new() plus the harness commands)             *)
(* ====================================================================================== *)

Definition run_script (s : string) : str + str :=
  match snd (eval std_uni Check.ScriptObs.model_fuel (Check.ScriptObs.harness_interp 0) (lit s)) with
  | Ok v => inr (as_str v)
  | Err e => inl (as_str (x_value e))
  | Panic p => inl p
  | Fuel => inl (lit "FUEL")
  end.

(* exactly one branch runs *)
Example if_example :
  run_script "set x {}; if 0 {append x a} elseif 1 {append x b} else {append x c}; set x" = inr (lit "b").
Proof. vm_compute. reflexivity. Qed.

Example if_value_example : run_script "if 0 {set x a} elseif 1 {set x b} else {set x c}" = inr (lit "b").
Proof. vm_compute. reflexivity. Qed.

Example if_else_example : run_script "if 0 {set x a} elseif 0 {set x b} else {set x c}" = inr (lit "c").
Proof. vm_compute. reflexivity. Qed.

Example if_none_example : run_script "if 0 {set x a} elseif 0 {set x b}" = inr (lit "").
Proof. vm_compute. reflexivity. Qed.

(* the words are read lazily: a true condition hides a malformation after its body *)
Example if_lazy_example : run_script "if 1 {set x a} elseif" = inr (lit "a").
Proof. vm_compute. reflexivity. Qed.

Example if_malformed_example :
  run_script "if 0 {set x a} elseif" = inl (lit "wrong # args: no expression after ""elseif"" argument").
Proof. vm_compute. reflexivity. Qed.

(* a condition without body is evaluated before the malformation is reported *)
Example if_malformed_cond_example :
  run_script "set x 0; catch {if 0 {set x a} elseif {[incr x]}} msg; list $x $msg"
  = inr (lit "1 {wrong # args: no script following after ""[incr x]"" argument}").
Proof. vm_compute. reflexivity. Qed.

(* words after an else body are ignored *)
Example if_extra_example : run_script "if 0 {set x a} else {set x c} extra words" = inr (lit "c").
Proof. vm_compute. reflexivity. Qed.

Example if_extra_example2 : run_script "if 0 {set x a} {set x c} extra words" = inr (lit "c").
Proof. vm_compute. reflexivity. Qed.

(* a body spelled "then" is the keyword *)
Example if_then_keyword_example :
  run_script "if 1 then" = inl (lit "wrong # args: no script following after ""then"" argument").
Proof. vm_compute. reflexivity. Qed.

(* while with break and continue: 2 is skipped by continue, the loop is left by break at 6 *)
Example while_example :
  run_script "set i 0; set acc {}; while {1} {incr i; if {$i > 5} break; if {$i == 2} continue; append acc $i}; set acc"
  = inr (lit "1345").
Proof. vm_compute. reflexivity. Qed.

Example while_result_example : run_script "set i 0; while {$i < 3} {incr i}" = inr (lit "").
Proof. vm_compute. reflexivity. Qed.

(* for: continue still runs [next] (else the loop would not end); break does not *)
Example for_continue_example :
  run_script "set acc {}; for {set i 0} {$i < 4} {incr i} {if {$i == 1} continue; append acc $i}; list $acc $i"
  = inr (lit "023 4").
Proof. vm_compute. reflexivity. Qed.

Example for_break_example :
  run_script "set acc {}; for {set i 0} {$i < 4} {incr i} {if {$i == 2} break; append acc $i}; list $acc $i"
  = inr (lit "01 2").
Proof. vm_compute. reflexivity. Qed.

Example for_next_continue_example :
  run_script "for {set i 0} {$i < 4} {continue} {incr i}"
  = inl (lit "invoked ""continue"" outside of a loop").
Proof. vm_compute. reflexivity. Qed.

Example for_next_break_example :
  run_script "for {set i 0} {$i < 4} {break} {incr i}; set i" = inr (lit "1").
Proof. vm_compute. reflexivity. Qed.

(* foreach: two variables over three elements: two iterations, the second padded *)
Example foreach_example :
  run_script "set acc {}; foreach {a b} {1 2 3} {append acc <$a,$b>}; set acc" = inr (lit "<1,2><3,>").
Proof. vm_compute. reflexivity. Qed.

Example foreach_empty_varlist_example :
  run_script "foreach {} {1 2 3} {set x 1}" = inl (lit "foreach varlist is empty").
Proof. vm_compute. reflexivity. Qed.

(* procedures: the value of the last command, or of return *)
Example proc_example : run_script "proc f {a} {set b 1; set a}; f 7" = inr (lit "7").
Proof. vm_compute. reflexivity. Qed.

Example proc_return_example : run_script "proc f {a} {return $a; set a 0}; f 7" = inr (lit "7").
Proof. vm_compute. reflexivity. Qed.

Example proc_break_example :
  run_script "proc f {} {break}; f" = inl (lit "invoked ""break"" outside of a loop").
Proof. vm_compute. reflexivity. Qed.

(* scripts: the value of the last command; an empty command does not change it *)
Example script_example : run_script "set a 1; set b 2" = inr (lit "2").
Proof. vm_compute. reflexivity. Qed.

Example script_empty_command_example : run_script "set a 1; {*}{}" = inr (lit "1").
Proof. vm_compute. reflexivity. Qed.

Example script_empty_example : run_script "" = inr (lit "").
Proof. vm_compute. reflexivity. Qed.

(* ====================================================================================== *)
(* the real interpreter: the evaluator the model ties in (Interp.v) is one instance of [rec] *)
(* ====================================================================================== *)

Section Real.
Variable U : uni.

(* the evaluator of bodies and conditions that [run_exec U (S f)] hands to the commands *)
Definition real_rec (f : nat) : recfns :=
  {| r_eval := eval_value_with U (run_exec U f);
     r_expr := expr_with U (run_exec U f);
     r_loop := S f |}.

Lemma run_exec_native f st n ctx argv :
  run_exec U (S f) st (CmdNative n ctx) argv = run_native U (real_rec f) n st argv.
Proof. reflexivity. Qed.

Theorem real_if_spec f st ctx argv clauses els :
  if_shape (tl argv) = Some (clauses, els) ->
  run_exec U (S f) st (CmdNative NIf ctx) argv = spec_if (real_rec f) st clauses els.
Proof. intros H. rewrite run_exec_native. cbn [run_native]. apply if_spec. exact H. Qed.

Theorem real_while_spec f st ctx argv :
  length argv = 3%nat ->
  run_exec U (S f) st (CmdNative NWhile ctx) argv =
  spec_while (real_rec f) (S f) st (arg argv 1) (arg argv 2).
Proof.
  intros H. rewrite run_exec_native. cbn [run_native].
  rewrite cmd_while_spec by exact H. apply while_spec.
Qed.

Theorem real_for_spec f st ctx argv :
  length argv = 5%nat ->
  run_exec U (S f) st (CmdNative NFor ctx) argv =
  do (st1, _) <- eval_value_with U (run_exec U f) st (arg argv 1);
  spec_for (real_rec f) (S f) st1 (arg argv 2) (arg argv 3) (arg argv 4).
Proof.
  intros H. rewrite run_exec_native. cbn [run_native].
  rewrite cmd_for_spec by exact H.
  change (r_eval (real_rec f)) with (eval_value_with U (run_exec U f)).
  destruct (eval_value_with U (run_exec U f) st (arg argv 1)) as [st1 [v|e|p|]]; try reflexivity.
  rewrite !bind_ok. apply for_spec.
Qed.

Theorem real_foreach_spec f st ctx argv vars l :
  length argv = 4%nat ->
  v_as_list (arg argv 1) = inr vars -> v_as_list (arg argv 2) = inr l -> vars <> [] ->
  run_exec U (S f) st (CmdNative NForeach ctx) argv =
  spec_foreach (real_rec f) (ceil_div (length l) (length vars)) st vars l (arg argv 3) 0.
Proof.
  intros H Hv Hl Hne. rewrite run_exec_native. cbn [run_native].
  apply cmd_foreach_chunks; assumption.
Qed.

Theorem real_proc_result f st parms body argv st2 st3 v :
  bind_parms (push_scope st) (arg argv 0) parms parms (skipn 1 argv) = (st2, Ok tt) ->
  (eval_value_with U (run_exec U f) st2 body = (st3, Ok v) \/
   eval_value_with U (run_exec U f) st2 body = (st3, Err (molt_return_ext v 1 COkay))) ->
  run_exec U (S f) st (CmdProc parms body) argv = (pop_scope st3, Ok v).
Proof.
  intros Hb He. cbn [run_exec].
  apply (proc_result_last_command (real_rec f) st parms body argv st2 st3 v Hb He).
Qed.

End Real.

Print Assumptions real_if_spec.
Print Assumptions real_while_spec.
Print Assumptions real_for_spec.
Print Assumptions real_foreach_spec.
Print Assumptions real_proc_result.
