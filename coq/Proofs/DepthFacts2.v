(* DepthFacts2.v — C16, continued: the nesting limit is exact when PROCEDURES do the nesting.

   One procedure frame costs one evaluation level (the body) plus whatever the body needs.  For
   the checker's counting procedures (Check/C16.v [procs_text])
       proc down {n} {if {$n <= 0} {rec deep; return ok}; down [expr {$n - 1}]}
       proc ping {n} {if {$n <= 0} {rec deep; return ok}; pong [expr {$n - 1}]}
       proc pong {n} {ping $n}
   `down k` needs exactly k+3 levels and `ping k` exactly 2k+3: from level 0 with limit N the call
   reaches the recorder and returns "ok" iff that many levels are available; otherwise it fails
   with the ordinary 'too many nested calls' error, the recorder is not reached, the level
   counter is back where it was and every procedure frame has been popped.

   Contents
     1. the two conditions `$n <= 0` and `$n - 1` of the procedures, for an integer n
     2. the reader on `name digits`
     3. scope stack: the frame of a call
     4. states; commands `if`, `expr`, `return`; scripts of literal words
     5. what a call has to satisfy ([Spec]); one frame of a counting procedure; `pong`
     6. `down`, `ping`: induction on the counter
     7. C16 for `down k` and `ping k` from the top level
     8. the checker: procs_text creates these procedures; script_for; instances by computation
     9. the `for` wrapper of the checker's nest builder (kind 3):
            for {set u<i> 0} {$u<i> < 1} {incr u<i>} {..}
        a nest of d wrappers around `rec deep` needs exactly d+1 levels *)
From Molt Require Import Model.Base Model.Tokenizer Model.ListSyn Model.Float Model.Value
  Model.State Model.Script Model.Parser Model.Eval Model.Expr Model.Commands Model.Unicode
  Model.Interp.
From Molt Require Import Spec.SpecCtl Spec.SpecVars.
From Molt Require Import Proofs.BaseFacts Proofs.ValueFacts Proofs.ListSynFacts
  Proofs.ListAsCommandFacts Proofs.BindFacts Proofs.NoEvalFacts Proofs.ExprFacts
  Proofs.InterpFacts Proofs.ErrFacts Proofs.ScopeFacts Proofs.CtlStructFacts Proofs.DepthFacts.
From Molt Require Check.ScriptObs Check.C16 Proofs.RepFacts.
From Coq Require Import Lia ZifyBool ZifyN.

Arguments N.eqb : simpl never.
Arguments N.leb : simpl never.
Arguments N.ltb : simpl never.

Local Open Scope N_scope.

(* ====================================================================================== *)
(* 1. the expressions of the counting procedures                                          *)
(* ====================================================================================== *)

Definition var_n : str := lit "n".

(* the value reads as the integer z in an expression *)
Definition int_like (a : value) (z : Z) : Prop := expr_parse_value a = Ok (DInt z).

Lemma int_like_int z : int_like (VInt z) z.
Proof. reflexivity. Qed.

Lemma digit_plain c : is_digit10 c = true -> plain c = true.
Proof.
  unfold is_digit10, plain, is_whitespace, is_escape_special, c_tab, c_nl, c_vt, c_ff, c_cr, c_space,
    c_dquote, c_dollar, c_semi, c_lbracket, c_bslash, c_rbracket, c_lbrace, c_rbrace. lia.
Qed.

Lemma digits_plain ds : forallb is_digit10 ds = true -> forallb plain ds = true.
Proof.
  induction ds as [|c r IH]; [reflexivity|]. cbn [forallb]. intros H.
  apply andb_true_iff in H. destruct H as [Hc Hr]. rewrite (digit_plain c Hc), (IH Hr). reflexivity.
Qed.

(* the decimal text of a non-negative machine integer reads as that integer *)
Lemma int_like_show z : (0 <= z <= i64_max)%Z -> int_like (VStr (show_Z z)) z.
Proof.
  intros Hz. destruct (show_Z_digits z ltac:(lia)) as (Hne & Hd & Hv).
  unfold int_like, expr_parse_value. cbn [already_number as_str]. unfold expr_parse_string.
  pose proof (int_roundtrip z) as RT.
  remember (show_Z z) as ds eqn:E. destruct ds as [|c r]; [congruence|].
  pose proof (looks_like_int_digits (c :: r) [] Hne Hd I) as L. rewrite app_nil_r in L. rewrite L.
  assert (Hc : is_digit10 c = true).
  { cbn [forallb] in Hd. apply andb_true_iff in Hd. tauto. }
  rewrite (skip_while_head_false is_whitespace (c :: r)).
  2:{ unfold is_digit10, is_whitespace in *. lia. }
  pose proof (read_int_digits (c :: r) [] Hne Hd I) as R. rewrite app_nil_r in R. rewrite R.
  cbn [skip_while]. rewrite RT; [reflexivity|].
  unfold in_i64, i64_min, i64_max in *. lia.
Qed.

Section Expressions.
Variable ia ib : char -> bool.
Variable exec : executor.
Hypothesis ia_n : ia 110 = true.        (* the letter n is alphanumeric *)
Hypothesis ia_sp : ia 32 = false.       (* the space is not *)

Lemma parse_varname_n f rest :
  parse_varname ia (S f) false (110 :: 32 :: rest) = POk (WVarRef var_n) (32 :: rest).
Proof.
  cbn [parse_varname]. change (110 =? c_lbrace) with false. cbn iota.
  cbn [take_while skip_while]. unfold is_varname_char. rewrite ia_n, ia_sp.
  change (32 =? c_underscore) with false. cbn [orb]. reflexivity.
Qed.

(* lexing `$n` followed by a space: the value of the variable *)
Lemma lex_var_n orig f st rest tok v d :
  st_scalar st var_n = Ok v -> expr_parse_value v = Ok d ->
  expr_lex ia ib exec orig (S f) st
    {| e_rest := c_dollar :: 110 :: 32 :: rest; e_token := tok; e_noeval := 0 |}
  = (st, Ok (d, {| e_rest := 32 :: rest; e_token := T_VALUE; e_noeval := 0 |})).
Proof.
  intros Hv Hd. rewrite expr_lex_S. cbn [e_rest].
  change (skip_while is_whitespace (c_dollar :: 110 :: 32 :: rest)) with (c_dollar :: 110 :: 32 :: rest).
  cbv zeta.
  assert (L : lex_number {| e_rest := c_dollar :: 110 :: 32 :: rest; e_token := tok; e_noeval := 0 |}
                (c_dollar :: 110 :: 32 :: rest) c_dollar = None) by reflexivity.
  cbv beta iota. rewrite L. change (c_dollar =? c_dollar) with true. cbn iota.
  unfold is_varname_char at 1. rewrite ia_n. cbn [orb].
  assert (F : exists g, parse_fuel (110 :: 32 :: rest) = S g).
  { eexists. unfold parse_fuel. cbn [length]. rewrite Nat.add_comm. reflexivity. }
  destruct F as (g & ->). unfold parse_bt. rewrite parse_varname_n.
  unfold lift_p.
  change (noeval {| e_rest := c_dollar :: 110 :: 32 :: rest; e_token := tok; e_noeval := 0 |}) with false.
  cbn iota. cbn [eval_word]. fold var_n. rewrite Hv. unfold lex_value_of.
  change (noeval {| e_rest := c_dollar :: 110 :: 32 :: rest; e_token := tok; e_noeval := 0 |}) with false.
  cbn iota. rewrite Hd. reflexivity.
Qed.

Definition cond_text : str := lit "$n <= 0".
Definition pred_text : str := lit "$n - 1".

Lemma expr_eval_cond st v z :
  st_scalar st var_n = Ok v -> int_like v z ->
  expr_eval ia ib exec st (VStr cond_text) = (st, Ok (VInt (if (z <=? 0)%Z then 1 else 0))).
Proof.
  intros Hv Hd. unfold expr_eval. cbn [as_str].
  change (expr_fuel cond_text) with (S 43).
  rewrite expr_get_value_S.
  change cond_text with (c_dollar :: 110 :: 32 :: lit "<= 0") at 2.
  rewrite (lex_var_n _ _ _ _ _ _ _ Hv Hd).
  vm_compute. reflexivity.
Qed.

Lemma expr_eval_pred st v z :
  st_scalar st var_n = Ok v -> int_like v z ->
  in_i64 (z - 1) = true ->
  expr_eval ia ib exec st (VStr pred_text) = (st, Ok (VInt (z - 1))).
Proof.
  intros Hv Hd Hr. unfold expr_eval. cbn [as_str].
  change (expr_fuel pred_text) with (S (S 38)).
  rewrite expr_get_value_S.
  change pred_text with (c_dollar :: 110 :: 32 :: lit "- 1") at 2.
  rewrite (lex_var_n _ _ _ _ _ _ _ Hv Hd).
  set (orig := pred_text).
  set (i1 := {| e_rest := 32 :: lit "- 1"; e_token := T_VALUE; e_noeval := 0 |}).
  set (i3 := {| e_rest := lit " 1"; e_token := T_MINUS; e_noeval := 0 |}).
  set (i5 := {| e_rest := []; e_token := T_END; e_noeval := 0 |}).
  assert (G1 : gv_first ia ib exec orig (S 38) st (DInt z) i1 = (st, Ok (DInt z, i1, false)))
    by (vm_compute; reflexivity).
  rewrite G1. cbv beta iota.
  assert (G2 : expr_lex ia ib exec orig (S 38) st i1 = (st, Ok (d_none, i3))) by (vm_compute; reflexivity).
  rewrite G2. cbv beta iota.
  assert (G3 : expr_get_value ia ib exec orig 38 st i3 (prec (e_token i3)) = (st, Ok (DInt 1, i5)))
    by (vm_compute; reflexivity).
  rewrite (loop_left_assoc ia ib exec orig 38 st i3 (-1) (DInt z) st (DInt 1) i5);
    [|vm_compute; split; discriminate|reflexivity|exact G3|reflexivity|reflexivity].
  change (e_token i3) with T_MINUS. rewrite int_minus. rewrite Hr.
  rewrite loop_stops_at_end by (left; reflexivity).
  reflexivity.
Qed.

End Expressions.

(* ====================================================================================== *)
(* 2. the reader on a call `name digits`                                                  *)
(* ====================================================================================== *)

Section Reader2.
Variable isa : char -> bool.

(* the last word of a command: a bare word of ordinary characters *)
Lemma parse_words_last_bare f w c t acc :
  w = c :: t -> escape_chars w = w -> (c =? c_nl) = false -> (c =? c_semi) = false ->
  (length w < f)%nat ->
  parse_words isa (S (S f)) false w acc = POk (rev (WValue w :: acc)) [].
Proof.
  intros Hw He Hn Hsemi Hf. rewrite parse_words_eq.
  assert (A : at_end_of_command false w = false).
  { rewrite Hw. cbn [at_end_of_command andb]. rewrite Hn, Hsemi. reflexivity. }
  rewrite A. cbn iota.
  pose proof (next_word_escaped isa f w []) as H. rewrite He, app_nil_r in H.
  rewrite H; [|rewrite Hw; discriminate|apply word_end_nil|exact Hf].
  change (skip_while is_line_white []) with (@nil char). apply parse_words_end.
Qed.

Lemma parse_call name c t ds :
  name = c :: t -> escape_chars name = name ->
  is_whitespace c = false -> (c =? c_hash) = false -> (c =? c_nl) = false -> (c =? c_semi) = false ->
  ds <> [] -> forallb is_digit10 ds = true ->
  parse isa (name ++ c_space :: ds) = POk [map WValue [name; ds]] [].
Proof.
  intros Hn He Hw Hh Hnl Hsemi Hne Hd. unfold parse.
  set (s := name ++ c_space :: ds).
  assert (Hs : s = c :: (t ++ c_space :: ds)) by (unfold s; rewrite Hn; reflexivity).
  assert (Hfuel : exists f, parse_fuel s = S (S (S (S (S f)))) /\ (length name < f)%nat /\ (length ds < f)%nat).
  { exists (8 * length s + 11)%nat. unfold parse_fuel. split; [lia|].
    unfold s. rewrite app_length. cbn [length]. lia. }
  destruct Hfuel as (f & -> & Hf1 & Hf2).
  rewrite parse_script_eq. rewrite Hs at 1. cbn [at_end_of_script andb].
  rewrite parse_command_eq. cbv zeta.
  rewrite (skip_to_command_head _ _ c (t ++ c_space :: ds) Hs Hw Hh).
  unfold s. rewrite (parse_words_bare isa (S f) name c t ds []); [|assumption..|lia].
  destruct ds as [|d r] eqn:Eds; [congruence|]. rewrite <- Eds in *.
  assert (Hdc : is_digit10 d = true).
  { rewrite Eds in Hd. cbn [forallb] in Hd. apply andb_true_iff in Hd. tauto. }
  rewrite (skip_while_head_false is_line_white ds).
  2:{ rewrite Eds. unfold is_digit10, is_line_white, is_whitespace in *. lia. }
  rewrite (parse_words_last_bare f ds d r [WValue name]);
    [|exact Eds|apply escape_chars_plain, digits_plain, Hd
     |unfold is_digit10, c_nl in *; lia|unfold is_digit10, c_semi in *; lia|exact Hf2].
  cbn [rev app]. rewrite parse_script_eq. reflexivity.
Qed.

Lemma parse_dollar_eq f bt s t :
  parse_dollar isa (S f) bt s t =
  match s with
  | c :: _ =>
      if is_varname_char isa c || (c =? c_lbrace) then
        match parse_varname isa f bt s with
        | POk w rest => POk (tk_push t w) rest
        | PErr m => PErr m
        | PFuel => PFuel
        end
      else POk (tk_push_char t c_dollar) s
  | [] => POk (tk_push_char t c_dollar) s
  end.
Proof. reflexivity. Qed.

Lemma parse_varname_eq f bt s :
  parse_varname isa (S f) bt s =
  match s with
  | c :: r =>
      if c =? c_lbrace then parse_braced_varname r
      else
        let name := take_while (is_varname_char isa) s in
        let rest := skip_while (is_varname_char isa) s in
        match rest with
        | d :: r' =>
            if d =? c_lparen then
              match parse_bare isa f bt true r' tk_new with
              | POk idx rest' =>
                  match rest' with
                  | e :: r'' => if e =? c_rparen then POk (WArrayRef name idx) r''
                                else PErr (lit "missing )")
                  | [] => PErr (lit "missing )")
                  end
              | PErr m => PErr m
              | PFuel => PFuel
              end
            else POk (WVarRef name) rest
        | [] => POk (WVarRef name) rest
        end
  | [] => POk (WVarRef []) s
  end.
Proof. reflexivity. Qed.

Lemma parse_forward_n : isa 110 = true ->
  parse isa (lit "ping $n") = POk [[WValue (lit "ping"); WVarRef var_n]] [].
Proof.
  intros H. unfold parse. change (parse_fuel (lit "ping $n")) with 72%nat.
  rewrite parse_script_eq. change (at_end_of_script false (lit "ping $n")) with false. cbn iota.
  rewrite parse_command_eq. cbv zeta.
  rewrite (skip_to_command_head _ (lit "ping $n") 112 (lit "ing $n")); try reflexivity.
  change (lit "ping $n") with (lit "ping" ++ c_space :: lit "$n").
  rewrite (parse_words_bare isa 68 (lit "ping") 112 (lit "ing")); try reflexivity; [|cbn; lia].
  change (skip_while is_line_white (lit "$n")) with (lit "$n").
  change (lit "$n") with (c_dollar :: [110]).
  rewrite parse_words_eq. change (at_end_of_command false (c_dollar :: [110])) with false. cbv beta iota.
  rewrite parse_next_word_bare by reflexivity.
  rewrite parse_bare_eq.
  change (at_end_of_command false (c_dollar :: [110]) || next_is_line_white (c_dollar :: [110])) with false.
  cbv beta iota. change (false && (c_dollar =? c_rparen)) with false.
  change (c_dollar =? c_lbracket) with false. change (c_dollar =? c_dollar) with true. cbv beta iota.
  rewrite parse_dollar_eq. unfold is_varname_char at 1. rewrite H. cbn [orb]. cbv beta iota.
  rewrite parse_varname_eq. change (110 =? c_lbrace) with false. cbv beta iota zeta.
  cbn [take_while skip_while]. unfold is_varname_char. rewrite H. cbn [orb]. cbv beta iota.
  rewrite parse_bare_eq. cbn [at_end_of_command orb]. cbv beta iota.
  change (tk_take (tk_push tk_new (WVarRef [110]))) with (WVarRef var_n).
  cbn [skip_while]. rewrite parse_words_eq. cbn [at_end_of_command rev app]. cbv beta iota.
  rewrite parse_script_eq. reflexivity.
Qed.

End Reader2.

(* ====================================================================================== *)
(* 3. the scope stack: the frame of a call                                                *)
(* ====================================================================================== *)

Definition frame (a : value) : scope := [(var_n, VarScalar a)].

Lemma update_nth_app_last {A} (f : A -> A) : forall (l : list A) x,
  update_nth (length l) f (l ++ [x]) = l ++ [f x].
Proof. induction l as [|y l IH]; intros x; [reflexivity|]. cbn [length app update_nth]. rewrite IH. reflexivity. Qed.

Lemma sc_current_app ss fr : sc_current (ss ++ [fr]) = length ss.
Proof. unfold sc_current. rewrite app_length. cbn [length]. lia. Qed.

Lemma top_frame ss fr : sc_get_scope (ss ++ [fr]) (length ss) = fr.
Proof. unfold sc_get_scope. rewrite app_nth2 by lia. rewrite Nat.sub_diag. reflexivity. Qed.

(* binding the parameter in the fresh frame *)
Lemma sc_set_fresh ss a : sc_set (sc_push ss) var_n a = (ss ++ [frame a], Ok tt).
Proof.
  unfold sc_push, sc_set, sc_target. rewrite sc_current_app.
  cbn [sc_resolve]. rewrite top_frame. cbn [assoc_get].
  unfold sc_set_at. rewrite top_frame. cbn [assoc_get].
  unfold sc_put. rewrite update_nth_app_last. reflexivity.
Qed.

(* reading it back *)
Lemma sc_get_frame ss a : sc_get (ss ++ [frame a]) var_n = Ok a.
Proof.
  unfold sc_get, sc_lookup. rewrite sc_current_app. cbn [sc_var]. rewrite top_frame.
  unfold frame. cbn [assoc_get]. rewrite str_eqb_refl. reflexivity.
Qed.

Lemma sc_pop_app ss fr : sc_pop (ss ++ [fr]) = ss.
Proof. unfold sc_pop. apply removelast_last. Qed.

(* errorInfo / errorCode live in the global frame *)
Lemma errvars_ok_app ss more : ss <> [] -> errvars_ok ss -> errvars_ok (ss ++ more).
Proof.
  intros Hne H. destruct ss as [|g r]; [congruence|]. exact H.
Qed.

Lemma errvars_ok_pop ss : (2 <= length ss)%nat -> errvars_ok ss -> errvars_ok (sc_pop ss).
Proof.
  intros Hl [A B]. unfold errvars_ok, gvar_settable, sc_pop, sc_get_scope in *.
  rewrite nth_removelast by lia. split; assumption.
Qed.

(* recording the error: DepthFacts.set_global_error_data_ok, and the stack keeps its height *)
Lemma set_global_error_data_height st e :
  errvars_ok (i_scopes st) ->
  exists ss', set_global_error_data st e = (set_scopes st ss', Ok tt)
              /\ errvars_ok ss' /\ length ss' = length (i_scopes st).
Proof.
  intros [Hi Hc]. unfold set_global_error_data. destruct (x_data e) as [d|].
  - rewrite (sc_set_global_ok _ _ _ Hi).
    assert (Hc1 : gvar_settable (sc_put (i_scopes st) O (lit "errorInfo") (VarScalar (VStr (ed_info d))))
                                (lit "errorCode")).
    { apply gvar_settable_put_other; [reflexivity|reflexivity|exact Hc]. }
    rewrite (sc_set_global_ok _ _ _ Hc1).
    eexists. split; [reflexivity|]. split; [split|].
    + apply gvar_settable_put_other; [reflexivity|reflexivity|]. apply gvar_settable_put_same.
    + apply gvar_settable_put_same.
    + unfold sc_put. rewrite !length_update_nth. reflexivity.
  - exists (i_scopes st). rewrite set_scopes_same. split; [reflexivity|]. split; [split; assumption|reflexivity].
Qed.

(* ====================================================================================== *)
(* 4. states, commands, scripts of literal words                                          *)
(* ====================================================================================== *)

(* the state [st] with level counter, scope stack and trace replaced *)
Definition mk (st : interp) (l : N) (ss : scopes) (t : list (list str)) : interp :=
  {| i_cmds := i_cmds st; i_scopes := ss; i_limit := i_limit st; i_levels := l;
     i_ctx := i_ctx st; i_last_ctx := i_last_ctx st; i_trace := t; i_test := i_test st |}.

Lemma mk_self st : mk st (i_levels st) (i_scopes st) (i_trace st) = st.
Proof. destruct st; reflexivity. Qed.

Lemma mk_levels st l l' ss t : l = l' -> mk st l ss t = mk st l' ss t.
Proof. intros ->. reflexivity. Qed.

(* an evaluation that ends with a non-error exception below the top level passes it on *)
Lemma wrap_up_passes st2 e :
  i_levels st2 - 1 <> 0 -> x_code e <> CError ->
  wrap_up (st2, Err e) = (set_levels st2 (i_levels st2 - 1), Err e).
Proof.
  intros Hl Hc. unfold wrap_up. cbn [i_levels set_levels].
  destruct (N.eqb_spec (i_levels st2 - 1) 0) as [E|_]; [contradiction|].
  destruct (x_code e); try reflexivity. congruence.
Qed.

(* a script whose first command consists of literal words *)
Lemma eval_cmds_literal exec st (w : str) (r : list str) rest res0 :
  eval_cmds_with exec (eval_word exec) st (map WValue (w :: r) :: rest) res0 =
  match assoc_get w (i_cmds st) with
  | None =>
      (st, Err (add_error_info
                  (add_error_info (molt_err (lit "invalid command name """ ++ w ++ lit """"))
                                  (lit "    while executing"))
                  (lit """" ++ list_to_string (map as_str (map VStr (w :: r))) ++ lit """")))
  | Some cmd =>
      match exec st cmd (map VStr (w :: r)) with
      | (st2, Ok v) => eval_cmds_with exec (eval_word exec) st2 rest v
      | (st2, Err e) => command_outcome st2 cmd w (map VStr (w :: r)) e
      | (st2, Panic p) => (st2, Panic p)
      | (st2, Fuel) => (st2, Fuel)
      end
  end.
Proof.
  cbn [eval_cmds_with].
  pose proof (eval_literal_words exec st (w :: r) []) as H. unfold eval_words in H.
  rewrite H. cbn [rev app map as_str].
  destruct (assoc_get w (i_cmds st)) as [cmd|]; [|reflexivity].
  destruct (exec st cmd (VStr w :: map VStr r)) as [st2 [v|e|p|]]; reflexivity.
Qed.

(* a command `callee [inner script]` and a command `callee $name` *)
Lemma eval_cmds_bracket_call exec st callee inner rest res0 st1 v cmd :
  eval_cmds_with exec (eval_word exec) st inner v_empty = (st1, Ok v) ->
  assoc_get callee (i_cmds st1) = Some cmd ->
  eval_cmds_with exec (eval_word exec) st ([WValue callee; WScript inner] :: rest) res0 =
  match exec st1 cmd [VStr callee; v] with
  | (st2, Ok v') => eval_cmds_with exec (eval_word exec) st2 rest v'
  | (st2, Err e) => command_outcome st2 cmd callee [VStr callee; v] e
  | (st2, Panic p) => (st2, Panic p)
  | (st2, Fuel) => (st2, Fuel)
  end.
Proof.
  intros Hi Hc. cbn [eval_cmds_with eval_words_with eval_word]. rewrite Hi.
  cbn [rev app as_str]. rewrite Hc.
  destruct (exec st1 cmd [VStr callee; v]) as [st2 [v'|e|p|]]; reflexivity.
Qed.

Lemma eval_cmds_var_call exec st callee name rest res0 v cmd :
  st_scalar st name = Ok v ->
  assoc_get callee (i_cmds st) = Some cmd ->
  eval_cmds_with exec (eval_word exec) st ([WValue callee; WVarRef name] :: rest) res0 =
  match exec st cmd [VStr callee; v] with
  | (st2, Ok v') => eval_cmds_with exec (eval_word exec) st2 rest v'
  | (st2, Err e) => command_outcome st2 cmd callee [VStr callee; v] e
  | (st2, Panic p) => (st2, Panic p)
  | (st2, Fuel) => (st2, Fuel)
  end.
Proof.
  intros Hv Hc. cbn [eval_cmds_with eval_words_with eval_word]. rewrite Hv.
  cbn [rev app as_str]. rewrite Hc.
  destruct (exec st cmd [VStr callee; v]) as [st2 [v'|e|p|]]; reflexivity.
Qed.

Section Commands2.
Variable U : uni.

Lemma expr_with_ok exec st e v :
  expr_eval (u_alnum U) (u_alpha U) exec st e = (st, Ok v) -> expr_with U exec st e = (st, Ok v).
Proof. intros H. unfold expr_with. rewrite H. reflexivity. Qed.

Lemma exec_expr f st ctx e :
  run_exec U (S f) st (CmdNative NExpr ctx) (map VStr [lit "expr"; e])
  = expr_with U (run_exec U f) st (VStr e).
Proof. reflexivity. Qed.

Lemma exec_return_ok f st ctx :
  run_exec U (S f) st (CmdNative NReturn ctx) (map VStr [lit "return"; lit "ok"])
  = (st, Err (molt_return_ext (VStr (lit "ok")) 1 COkay)).
Proof. reflexivity. Qed.

(* `if {cond} {body}` when the condition evaluates to an integer *)
Lemma exec_if_true f st ctx cond body b :
  str_eqb body (lit "then") = false ->
  expr_with U (run_exec U f) st (VStr cond) = (st, Ok (VInt b)) -> b <> 0%Z ->
  run_exec U (S f) st (CmdNative NIf ctx) (map VStr [lit "if"; cond; body])
  = eval_value_with U (run_exec U f) st (VStr body).
Proof.
  intros Hthen He Hb.
  rewrite (real_if_spec U f st ctx _ [(VStr cond, VStr body)] None).
  - cbn [spec_if]. unfold expr_bool. cbn [real_rec r_expr r_eval]. rewrite He. rewrite bind_ok.
    cbn [v_as_bool]. destruct (Z.eqb_spec b 0) as [E|E]; [contradiction|]. reflexivity.
  - cbn [map tl if_shape strip_then]. unfold is_kw. cbn [as_str]. rewrite Hthen. reflexivity.
Qed.

Lemma exec_if_false f st ctx cond body :
  str_eqb body (lit "then") = false ->
  expr_with U (run_exec U f) st (VStr cond) = (st, Ok (VInt 0)) ->
  run_exec U (S f) st (CmdNative NIf ctx) (map VStr [lit "if"; cond; body]) = (st, Ok v_empty).
Proof.
  intros Hthen He.
  rewrite (real_if_spec U f st ctx _ [(VStr cond, VStr body)] None).
  - cbn [spec_if]. unfold expr_bool. cbn [real_rec r_expr r_eval]. rewrite He. rewrite bind_ok. reflexivity.
  - cbn [map tl if_shape strip_then]. unfold is_kw. cbn [as_str]. rewrite Hthen. reflexivity.
Qed.

End Commands2.

(* ====================================================================================== *)
(* 5. one procedure frame = one level                                                     *)
(* ====================================================================================== *)

Definition then_text : str := lit "rec deep; return ok".

(* the body of a counting procedure whose recursive call goes to [callee] *)
Definition body_text (callee : str) : str :=
  lit "if {$n <= 0} {rec deep; return ok}; " ++ callee ++ lit " [expr {$n - 1}]".

Definition body_script (callee : str) : script :=
  [ map WValue [lit "if"; cond_text; then_text];
    [WValue callee; WScript [map WValue [lit "expr"; pred_text]]] ].

Definition counter_proc (callee : str) : command := CmdProc [VStr var_n] (VStr (body_text callee)).

Definition pong_text : str := lit "ping $n".
Definition pong_proc : command := CmdProc [VStr var_n] (VStr pong_text).

Definition ok_value : value := VStr (lit "ok").
Definition return_ok : exn := molt_return_ext ok_value 1 COkay.

Section Frames.
Variable U : uni.
Hypothesis U_n : u_alnum U 110 = true.
Hypothesis U_sp : u_alnum U 32 = false.

(* the base state: command table, limit (and the fields no command here touches) *)
Variable st0 : interp.
Variables c_if c_expr c_return c_rec : N.
Hypothesis H_if : assoc_get (lit "if") (i_cmds st0) = Some (CmdNative NIf c_if).
Hypothesis H_expr : assoc_get (lit "expr") (i_cmds st0) = Some (CmdNative NExpr c_expr).
Hypothesis H_return : assoc_get (lit "return") (i_cmds st0) = Some (CmdNative NReturn c_return).
Hypothesis H_rec : assoc_get (lit "rec") (i_cmds st0) = Some (CmdNative NRecorder c_rec).

Local Notation N0 := (i_limit st0).
Local Notation MK := (mk st0).

(* What a call `cname arg` of the command C has to satisfy, when it needs [need] evaluation
   levels (and [fneed] units of fuel): made at level l with stack ss it reaches the recorder
   and returns "ok" iff l + need <= N, leaving everything but the trace as it was; otherwise
   it fails with the 'too many nested calls' error, the recorder is not reached, and the stack
   has its height again (only errorInfo / errorCode in the global frame were assigned). *)
Definition Spec (C : command) (cname : str) (arg : value) (need fneed : nat) : Prop :=
  forall fuel l ss t, (fneed <= fuel)%nat -> 1 <= l -> ss <> [] ->
    (l + N.of_nat need <= N0 ->
       run_exec U fuel (MK l ss t) C [VStr cname; arg] = (MK l ss (deep_call :: t), Ok ok_value))
    /\
    (N0 < l + N.of_nat need -> errvars_ok ss ->
       exists ss' e,
         run_exec U fuel (MK l ss t) C [VStr cname; arg] = (MK l ss' t, Err e)
         /\ x_code e = CError /\ x_value e = VStr too_many_nested
         /\ length ss' = length ss /\ errvars_ok ss').

(* ---- calling a one-parameter procedure: push a frame, bind, evaluate the body one level
        deeper, pop ---- *)
Lemma proc_call_frame body name a f l ss t :
  run_exec U (S f) (MK l ss t) (CmdProc [VStr var_n] body) [VStr name; a] =
  let '(st3, r) := eval_value_with U (run_exec U f) (MK l (ss ++ [frame a]) t) body in
  proc_boundary (pop_scope st3) r.
Proof.
  cbn [run_exec]. unfold proc_execute.
  change (push_scope (MK l ss t)) with (MK l (sc_push ss) t).
  cbn [bind_parms skipn].
  change (v_as_list (VStr var_n)) with (@inr str (list value) [VStr var_n]). cbn iota.
  change (str_eqb (as_str (VStr var_n)) (lit "args") && Nat.eqb (length (@nil value)) 0) with false.
  cbn iota. unfold st_set_scalar. cbn [i_scopes mk as_str]. rewrite sc_set_fresh.
  change (set_scopes (MK l (sc_push ss) t) (ss ++ [frame a])) with (MK l (ss ++ [frame a]) t).
  rewrite bind_ok. cbn [bind_parms]. unfold ret. cbn [r_eval]. reflexivity.
Qed.

(* ---- leaving the frame ---- *)
Lemma leave_frame_ok l ss fr t v :
  1 <= l ->
  (let '(st3, r) := wrap_up (MK (l + 1) (ss ++ [fr]) t, Ok v) in proc_boundary (pop_scope st3) r)
  = (MK l ss t, Ok v).
Proof.
  intros Hl. rewrite wrap_up_ok. cbn [proc_boundary]. unfold pop_scope.
  cbn [mk set_levels set_scopes i_levels i_scopes i_cmds i_limit i_ctx i_last_ctx i_trace i_test].
  rewrite sc_pop_app. replace (l + 1 - 1) with l by lia. reflexivity.
Qed.

Lemma leave_frame_return l ss fr t :
  1 <= l ->
  (let '(st3, r) := wrap_up (MK (l + 1) (ss ++ [fr]) t, Err return_ok) in proc_boundary (pop_scope st3) r)
  = (MK l ss t, Ok ok_value).
Proof.
  intros Hl. rewrite wrap_up_passes; [|cbn [mk i_levels]; lia|discriminate].
  unfold pop_scope.
  cbn [mk set_levels set_scopes i_levels i_scopes i_cmds i_limit i_ctx i_last_ctx i_trace i_test].
  rewrite sc_pop_app. replace (l + 1 - 1) with l by lia. reflexivity.
Qed.

Lemma leave_frame_error l (ss ss1 : scopes) t e :
  ss <> [] -> length ss1 = S (length ss) -> errvars_ok ss1 -> x_code e = CError ->
  exists ss',
    (let '(st3, r) := wrap_up (MK (l + 1) ss1 t, Err e) in proc_boundary (pop_scope st3) r)
    = (MK l ss' t, Err e)
    /\ length ss' = length ss /\ errvars_ok ss'.
Proof.
  intros Hne Hlen Hv Hc. rewrite wrap_up_error by exact Hc.
  destruct (set_global_error_data_height (set_levels (MK (l + 1) ss1 t) (i_levels (MK (l + 1) ss1 t) - 1)) e Hv)
    as (ss2 & -> & V2 & L2).
  rewrite bind_ok. unfold proc_boundary. rewrite Hc. unfold pop_scope.
  cbn [mk set_levels set_scopes i_levels i_scopes i_cmds i_limit i_ctx i_last_ctx i_trace i_test] in *.
  exists (sc_pop ss2). split; [|split].
  - replace (l + 1 - 1) with l by lia. reflexivity.
  - unfold sc_pop. rewrite length_removelast. rewrite L2, Hlen. reflexivity.
  - apply errvars_ok_pop; [|exact V2]. rewrite L2, Hlen. destruct ss; [congruence|cbn [length]; lia].
Qed.

(* the body is not even entered: the limit is reached *)
Lemma call_at_limit body name a f l ss t :
  N0 <= l ->
  run_exec U (S f) (MK l ss t) (CmdProc [VStr var_n] body) [VStr name; a]
  = (MK l ss t, Err (molt_err too_many_nested)).
Proof.
  intros Hl. rewrite proc_call_frame. rewrite eval_at_limit by (cbn [mk i_limit i_levels]; exact Hl).
  unfold proc_boundary. cbn [x_code molt_err molt_err_v]. unfold pop_scope.
  cbn [mk set_scopes i_scopes i_cmds i_limit i_levels i_ctx i_last_ctx i_trace i_test].
  rewrite sc_pop_app. reflexivity.
Qed.


(* ---- a counting procedure ---- *)

Lemma st_scalar_frame l ss a t : st_scalar (MK l (ss ++ [frame a]) t) var_n = Ok a.
Proof. unfold st_scalar. cbn [mk i_scopes]. apply sc_get_frame. Qed.

Lemma cond_value exec l ss a t z :
  int_like a z ->
  expr_with U exec (MK l (ss ++ [frame a]) t) (VStr cond_text)
  = (MK l (ss ++ [frame a]) t, Ok (VInt (if (z <=? 0)%Z then 1 else 0))).
Proof.
  intros Ha. apply expr_with_ok.
  apply (expr_eval_cond (u_alnum U) (u_alpha U) exec U_n U_sp _ a z (st_scalar_frame l ss a t) Ha).
Qed.

Lemma pred_value exec l ss a t z :
  int_like a z -> (0 < z <= i64_max)%Z ->
  expr_with U exec (MK l (ss ++ [frame a]) t) (VStr pred_text)
  = (MK l (ss ++ [frame a]) t, Ok (VInt (z - 1))).
Proof.
  intros Ha Hz. apply expr_with_ok.
  apply (expr_eval_pred (u_alnum U) (u_alpha U) exec U_n U_sp _ a z (st_scalar_frame l ss a t) Ha).
  unfold in_i64, i64_min, i64_max in *. lia.
Qed.

Lemma parse_then : parse (u_alnum U) then_text = POk [map WValue deep_call; map WValue [lit "return"; lit "ok"]] [].
Proof. vm_compute. reflexivity. Qed.

(* the body of the `if` at the bottom: the recorder, then `return ok` *)
Lemma then_body f l ss t :
  1 <= l -> l < N0 ->
  eval_value_with U (run_exec U (S f)) (MK l ss t) (VStr then_text)
  = (MK l ss (deep_call :: t), Err return_ok).
Proof.
  intros H1 Hl.
  rewrite (eval_level U _ (MK l ss t) _ _ Hl parse_then).
  change (enter (MK l ss t)) with (MK (l + 1) ss t).
  unfold eval_script, eval_cmds. unfold deep_call at 1.
  rewrite eval_cmds_literal. cbn [mk i_cmds]. rewrite H_rec. fold deep_call. rewrite exec_rec.
  change (set_trace (MK (l + 1) ss t) (deep_call :: i_trace (MK (l + 1) ss t)))
    with (MK (l + 1) ss (deep_call :: t)).
  rewrite eval_cmds_literal. cbn [mk i_cmds]. rewrite H_return. rewrite exec_return_ok.
  change (command_outcome ?s ?c ?w ?argv (molt_return_ext (VStr (lit "ok")) 1 COkay))
    with (s, @Err value return_ok).
  rewrite wrap_up_passes; [|cbn [mk i_levels]; lia|discriminate].
  cbn [mk set_levels i_levels i_scopes i_cmds i_limit i_ctx i_last_ctx i_trace i_test].
  replace (l + 1 - 1) with l by lia. reflexivity.
Qed.

Section Counter.
Variable callee name : str.
Hypothesis H_parse : parse (u_alnum U) (body_text callee) = POk (body_script callee) [].

(* entering the body *)
Lemma body_entry a f l ss t :
  l < N0 ->
  run_exec U (S f) (MK l ss t) (counter_proc callee) [VStr name; a] =
  let '(st3, r) := wrap_up (eval_script (run_exec U f) (MK (l + 1) (ss ++ [frame a]) t) (body_script callee)) in
  proc_boundary (pop_scope st3) r.
Proof.
  intros Hl. unfold counter_proc. rewrite proc_call_frame.
  rewrite (eval_level U _ (MK l (ss ++ [frame a]) t) _ _ Hl H_parse). reflexivity.
Qed.

(* the counter has reached 0: the `if` body runs one level deeper and returns *)
Lemma counter_bottom a z : int_like a z -> (z <= 0)%Z -> Spec (counter_proc callee) name a 2 3.
Proof.
  intros Ha Hz fuel l ss t Hf H1 Hne.
  destruct fuel as [|[|[|f]]]; try lia.
  destruct (N.lt_ge_cases l N0) as [Hl|Hl].
  2:{ (* not even the body *)
    split; [intros; lia|]. intros _ He. unfold counter_proc. rewrite call_at_limit by exact Hl.
    exists ss, (molt_err too_many_nested). repeat split; try reflexivity; apply He. }
  rewrite body_entry by exact Hl.
  unfold eval_script, eval_cmds, body_script.
  rewrite eval_cmds_literal. cbn [mk i_cmds]. rewrite H_if.
  rewrite (exec_if_true U (S f) _ c_if cond_text then_text 1); [|reflexivity| |discriminate].
  2:{ rewrite (cond_value _ _ _ _ _ z Ha). replace (z <=? 0)%Z with true by lia. reflexivity. }
  destruct (N.lt_ge_cases (l + 1) N0) as [Hl2|Hl2].
  - (* the `if` body fits *)
    split; [|intros; lia]. intros _.
    rewrite then_body by lia.
    change (command_outcome ?s ?c ?w ?argv return_ok) with (s, @Err value return_ok).
    apply leave_frame_return. exact H1.
  - (* it does not *)
    split; [intros; lia|]. intros _ He.
    rewrite eval_at_limit by (cbn [mk i_limit i_levels]; exact Hl2).
    destruct (command_outcome_keeps (MK (l + 1) (ss ++ [frame a]) t) (CmdNative NIf c_if) (lit "if")
                (map VStr [lit "if"; cond_text; then_text]) (molt_err too_many_nested))
      as (e' & -> & C' & X').
    destruct (leave_frame_error l ss (ss ++ [frame a]) t e' Hne) as (ss' & E' & L' & V');
      [rewrite app_length; cbn [length]; lia|apply errvars_ok_app; assumption|exact C'|].
    exists ss', e'. split; [exact E'|]. split; [exact C'|]. split; [exact X'|].
    split; [exact L'|exact V'].
Qed.

(* the counter is positive: the body calls [callee] with the predecessor, one level deeper *)
Lemma counter_step a z C need fneed :
  int_like a z -> (0 < z <= i64_max)%Z ->
  assoc_get callee (i_cmds st0) = Some C ->
  (1 <= fneed)%nat ->
  Spec C callee (VInt (z - 1)) need fneed ->
  Spec (counter_proc callee) name a (S need) (S fneed).
Proof.
  intros Ha Hz HC Hfn HS fuel l ss t Hf H1 Hne.
  destruct fuel as [|f]; [lia|]. destruct f as [|f]; [lia|].
  destruct (N.lt_ge_cases l N0) as [Hl|Hl].
  2:{ split; [intros; lia|]. intros _ He. unfold counter_proc. rewrite call_at_limit by exact Hl.
      exists ss, (molt_err too_many_nested). repeat split; try reflexivity; apply He. }
  rewrite body_entry by exact Hl.
  unfold eval_script, eval_cmds, body_script.
  rewrite eval_cmds_literal. cbn [mk i_cmds]. rewrite H_if.
  rewrite (exec_if_false U f _ c_if cond_text then_text); [|reflexivity|].
  2:{ rewrite (cond_value _ _ _ _ _ z Ha). replace (z <=? 0)%Z with false by lia. reflexivity. }
  (* the second command: callee [expr {$n - 1}] *)
  rewrite (eval_cmds_bracket_call _ _ callee _ _ _ (MK (l + 1) (ss ++ [frame a]) t) (VInt (z - 1)) C);
    [| |exact HC].
  2:{ rewrite eval_cmds_literal. cbn [mk i_cmds]. rewrite H_expr. rewrite exec_expr.
      rewrite (pred_value _ _ _ _ _ z Ha Hz). reflexivity. }
  destruct (HS (S f) (l + 1) (ss ++ [frame a]) t ltac:(lia) ltac:(lia)) as [Fit Deep].
  { intros X. apply app_eq_nil in X. destruct X; discriminate. }
  split.
  - intros Hfit. rewrite Fit by lia. apply leave_frame_ok. exact H1.
  - intros Hdeep He.
    destruct (Deep ltac:(lia) (errvars_ok_app ss [frame a] Hne He)) as (ss1 & e & E1 & Ce & Xe & L1 & V1).
    rewrite E1.
    destruct (command_outcome_keeps (MK (l + 1) ss1 t) C callee [VStr callee; VInt (z - 1)] e)
      as (e' & -> & C' & X').
    destruct (leave_frame_error l ss ss1 t e' Hne) as (ss' & E' & L' & V');
      [rewrite L1, app_length; cbn [length]; lia|exact V1|congruence|].
    exists ss', e'. split; [exact E'|]. split; [congruence|]. split; [congruence|].
    split; [exact L'|exact V'].
Qed.

End Counter.

(* ---- a procedure that passes its argument on: `proc pong {n} {ping $n}` ---- *)
Lemma parse_pong : parse (u_alnum U) pong_text = POk [[WValue (lit "ping"); WVarRef var_n]] [].
Proof. apply parse_forward_n. exact U_n. Qed.

Lemma forward_step name a C need fneed :
  assoc_get (lit "ping") (i_cmds st0) = Some C ->
  Spec C (lit "ping") a need fneed ->
  Spec pong_proc name a (S need) (S fneed).
Proof.
  intros HC HS fuel l ss t Hf H1 Hne.
  destruct fuel as [|f]; [lia|].
  destruct (N.lt_ge_cases l N0) as [Hl|Hl].
  2:{ split; [intros; lia|]. intros _ He. unfold pong_proc. rewrite call_at_limit by exact Hl.
      exists ss, (molt_err too_many_nested). repeat split; try reflexivity; apply He. }
  unfold pong_proc. rewrite proc_call_frame.
  rewrite (eval_level U _ (MK l (ss ++ [frame a]) t) _ _ Hl parse_pong).
  change (enter (MK l (ss ++ [frame a]) t)) with (MK (l + 1) (ss ++ [frame a]) t).
  unfold eval_script, eval_cmds.
  rewrite (eval_cmds_var_call _ _ (lit "ping") var_n [] _ a C (st_scalar_frame (l + 1) ss a t) HC).
  destruct (HS f (l + 1) (ss ++ [frame a]) t ltac:(lia) ltac:(lia)) as [Fit Deep].
  { intros X. apply app_eq_nil in X. destruct X; discriminate. }
  split.
  - intros Hfit. rewrite Fit by lia. apply leave_frame_ok. exact H1.
  - intros Hdeep He.
    destruct (Deep ltac:(lia) (errvars_ok_app ss [frame a] Hne He)) as (ss1 & e & E1 & Ce & Xe & L1 & V1).
    rewrite E1.
    destruct (command_outcome_keeps (MK (l + 1) ss1 t) C (lit "ping") [VStr (lit "ping"); a] e)
      as (e' & -> & C' & X').
    destruct (leave_frame_error l ss ss1 t e' Hne) as (ss' & E' & L' & V');
      [rewrite L1, app_length; cbn [length]; lia|exact V1|congruence|].
    exists ss', e'. split; [exact E'|]. split; [congruence|]. split; [congruence|].
    split; [exact L'|exact V'].
Qed.

(* ====================================================================================== *)
(* 6. `down` and `ping`: induction on the counter                                         *)
(* ====================================================================================== *)

Definition down_proc : command := counter_proc (lit "down").
Definition ping_proc : command := counter_proc (lit "pong").

Lemma parse_down_body : parse (u_alnum U) (body_text (lit "down")) = POk (body_script (lit "down")) [].
Proof. vm_compute. reflexivity. Qed.

Lemma parse_ping_body : parse (u_alnum U) (body_text (lit "pong")) = POk (body_script (lit "pong")) [].
Proof. vm_compute. reflexivity. Qed.

(* `down` called with the integer m needs m+1 procedure bodies and the `if` body *)
Theorem down_spec :
  assoc_get (lit "down") (i_cmds st0) = Some down_proc ->
  forall m a, int_like a (Z.of_nat m) -> (Z.of_nat m <= i64_max)%Z ->
  Spec down_proc (lit "down") a (m + 2) (m + 3).
Proof.
  intros Hd. induction m as [|m IH]; intros a Ha Hm.
  - apply (counter_bottom (lit "down") (lit "down") parse_down_body a 0 Ha). lia.
  - change (S m + 2)%nat with (S (m + 2)). change (S m + 3)%nat with (S (m + 3)).
    apply (counter_step (lit "down") (lit "down") parse_down_body a (Z.of_nat (S m)) down_proc);
      [exact Ha|lia|exact Hd|lia|].
    replace (Z.of_nat (S m) - 1)%Z with (Z.of_nat m) by lia.
    apply IH; [apply int_like_int|lia].
Qed.

(* `ping` called with m needs m+1 bodies of ping, m bodies of pong and the `if` body *)
Theorem ping_spec :
  assoc_get (lit "ping") (i_cmds st0) = Some ping_proc ->
  assoc_get (lit "pong") (i_cmds st0) = Some pong_proc ->
  forall m a, int_like a (Z.of_nat m) -> (Z.of_nat m <= i64_max)%Z ->
  Spec ping_proc (lit "ping") a (2 * m + 2) (2 * m + 3).
Proof.
  intros Hpi Hpo. induction m as [|m IH]; intros a Ha Hm.
  - apply (counter_bottom (lit "pong") (lit "ping") parse_ping_body a 0 Ha). lia.
  - replace (2 * S m + 2)%nat with (S (S (2 * m + 2))) by lia.
    replace (2 * S m + 3)%nat with (S (S (2 * m + 3))) by lia.
    apply (counter_step (lit "pong") (lit "ping") parse_ping_body a (Z.of_nat (S m)) pong_proc);
      [exact Ha|lia|exact Hpo|lia|].
    replace (Z.of_nat (S m) - 1)%Z with (Z.of_nat m) by lia.
    apply (forward_step (lit "pong") _ ping_proc _ _ Hpi).
    apply IH; [apply int_like_int|lia].
Qed.

End Frames.

Print Assumptions down_spec.
Print Assumptions ping_spec.

(* ====================================================================================== *)
(* 7. C16 for `down k` and `ping k` from the top level                                    *)
(* ====================================================================================== *)

Definition native_bound (st : interp) (name : string) (n : native) : Prop :=
  exists ctx, assoc_get (lit name) (i_cmds st) = Some (CmdNative n ctx).

(* the natives the counting procedures use *)
Definition counting_natives (st : interp) : Prop :=
  native_bound st "if" NIf /\ native_bound st "expr" NExpr
  /\ native_bound st "return" NReturn /\ native_bound st "rec" NRecorder.

(* the two characters the procedures' texts ask the Unicode tables about *)
Definition uni_ok (U : uni) : Prop := u_alnum U 110 = true /\ u_alnum U 32 = false.

Lemma std_uni_ok : uni_ok std_uni.
Proof. split; vm_compute; reflexivity. Qed.

Section Top.
Variable U : uni.
Variable st : interp.
Hypothesis H_top : i_levels st = 0.
Hypothesis H_scopes : i_scopes st <> [].

(* a top-level script `cname k` whose command satisfies [Spec] needs one level more *)
Lemma call_from_top C cname c t k need fneed fuel :
  cname = c :: t -> escape_chars cname = cname ->
  is_whitespace c = false -> (c =? c_hash) = false -> (c =? c_nl) = false -> (c =? c_semi) = false ->
  assoc_get cname (i_cmds st) = Some C ->
  (0 <= k)%Z ->
  Spec U st C cname (VStr (show_Z k)) need fneed -> (fneed <= fuel)%nat ->
  (1 + N.of_nat need <= i_limit st ->
     eval U fuel st (cname ++ c_space :: show_Z k)
     = (set_trace st (deep_call :: i_trace st), Ok ok_value))
  /\
  (i_limit st < 1 + N.of_nat need -> errvars_ok (i_scopes st) ->
     exists st' e,
       eval U fuel st (cname ++ c_space :: show_Z k) = (st', Err e)
       /\ x_code e = CError /\ x_value e = VStr too_many_nested
       /\ i_levels st' = 0 /\ i_limit st' = i_limit st /\ i_cmds st' = i_cmds st
       /\ i_trace st' = i_trace st
       /\ length (i_scopes st') = length (i_scopes st) /\ errvars_ok (i_scopes st')).
Proof.
  intros Hn He Hw Hh Hnl Hsemi HC Hk HS Hf. unfold eval, eval_value.
  destruct (show_Z_digits k Hk) as (Dne & Dd & _).
  pose proof (parse_call (u_alnum U) cname c t (show_Z k) Hn He Hw Hh Hnl Hsemi Dne Dd) as P.
  assert (Hent : enter st = mk st 1 (i_scopes st) (i_trace st)).
  { unfold enter, mk, set_levels. rewrite H_top. reflexivity. }
  destruct (HS fuel 1 (i_scopes st) (i_trace st) Hf ltac:(lia) H_scopes) as [Fit Deep].
  split.
  - intros Hl.
    rewrite (eval_level_command U _ st _ cname [show_Z k] C); [|lia|exact P|exact HC].
    unfold one_command. rewrite Hent. cbn [map]. rewrite Fit by lia.
    rewrite wrap_up_ok. f_equal.
    unfold mk, set_levels, set_trace. cbn [i_levels i_cmds i_scopes i_limit i_ctx i_last_ctx i_trace i_test].
    rewrite H_top. reflexivity.
  - intros Hl Hv.
    destruct (N.eq_dec (i_limit st) 0) as [Z0|Z0].
    { (* a limit of 0: the script itself is refused *)
      rewrite eval_at_limit by lia.
      exists st, (molt_err too_many_nested). repeat split; try reflexivity; try assumption; apply Hv. }
    rewrite (eval_level_command U _ st _ cname [show_Z k] C); [|lia|exact P|exact HC].
    unfold one_command. rewrite Hent. cbn [map].
    destruct (Deep ltac:(lia) Hv) as (ss1 & e & E1 & Ce & Xe & L1 & V1). rewrite E1.
    destruct (command_outcome_keeps (mk st 1 ss1 (i_trace st)) C cname [VStr cname; VStr (show_Z k)] e)
      as (e' & -> & C' & X').
    rewrite wrap_up_error by congruence.
    destruct (set_global_error_data_height
                (set_levels (mk st 1 ss1 (i_trace st)) (i_levels (mk st 1 ss1 (i_trace st)) - 1)) e' V1)
      as (ss2 & -> & V2 & L2).
    rewrite bind_ok. eexists. exists e'. split; [reflexivity|].
    cbn [mk set_levels set_scopes i_levels i_scopes i_cmds i_limit i_ctx i_last_ctx i_trace i_test] in *.
    split; [congruence|]. split; [congruence|]. split; [reflexivity|]. split; [reflexivity|].
    split; [reflexivity|]. split; [reflexivity|]. split; [congruence|exact V2].
Qed.

End Top.

(* ---- procedure recursion: `down k` needs exactly k + 3 levels ---- *)
Theorem C16_down_exact : forall U (N : N) (k : Z) (fuel : nat) st,
  uni_ok U ->
  i_levels st = 0 -> i_limit st = N -> i_scopes st <> [] ->
  counting_natives st ->
  assoc_get (lit "down") (i_cmds st) = Some down_proc ->
  (0 <= k <= i64_max)%Z -> (Z.to_nat k + 3 <= fuel)%nat ->
  (Z.to_N k + 3 <= N ->
     eval U fuel st (lit "down " ++ show_Z k)
     = (set_trace st (deep_call :: i_trace st), Ok (VStr (lit "ok"))))
  /\
  (N < Z.to_N k + 3 -> errvars_ok (i_scopes st) ->
     exists st' e,
       eval U fuel st (lit "down " ++ show_Z k) = (st', Err e)
       /\ x_code e = CError /\ x_value e = VStr too_many_nested
       /\ i_levels st' = 0 /\ i_limit st' = N /\ i_cmds st' = i_cmds st
       /\ i_trace st' = i_trace st
       /\ length (i_scopes st') = length (i_scopes st) /\ errvars_ok (i_scopes st')).
Proof.
  intros U N k fuel st [Un Usp] H0 HN Hss ((cif & Hif) & (cex & Hex) & (cre & Hre) & (crc & Hrc)) Hd Hk Hf.
  pose proof (down_spec U Un Usp st cif cex cre crc Hif Hex Hre Hrc Hd (Z.to_nat k) (VStr (show_Z k))) as HS.
  rewrite Z2Nat.id in HS by lia. specialize (HS (int_like_show k Hk) ltac:(lia)).
  destruct (call_from_top U st H0 Hss down_proc (lit "down") 100 (lit "own") k _ _ fuel
              eq_refl eq_refl eq_refl eq_refl eq_refl eq_refl Hd ltac:(lia) HS Hf) as [Fit Deep].
  change (lit "down" ++ c_space :: show_Z k) with (lit "down " ++ show_Z k) in Fit, Deep.
  rewrite HN in Fit, Deep. split.
  - intros Hl. apply Fit. lia.
  - intros Hl Hv. destruct (Deep ltac:(lia) Hv) as (st' & e & E & R). exists st', e. split; [exact E|exact R].
Qed.

(* ---- mutual recursion: `ping k` needs exactly 2k + 3 levels ---- *)
Theorem C16_ping_exact : forall U (N : N) (k : Z) (fuel : nat) st,
  uni_ok U ->
  i_levels st = 0 -> i_limit st = N -> i_scopes st <> [] ->
  counting_natives st ->
  assoc_get (lit "ping") (i_cmds st) = Some ping_proc ->
  assoc_get (lit "pong") (i_cmds st) = Some pong_proc ->
  (0 <= k <= i64_max)%Z -> (2 * Z.to_nat k + 3 <= fuel)%nat ->
  (2 * Z.to_N k + 3 <= N ->
     eval U fuel st (lit "ping " ++ show_Z k)
     = (set_trace st (deep_call :: i_trace st), Ok (VStr (lit "ok"))))
  /\
  (N < 2 * Z.to_N k + 3 -> errvars_ok (i_scopes st) ->
     exists st' e,
       eval U fuel st (lit "ping " ++ show_Z k) = (st', Err e)
       /\ x_code e = CError /\ x_value e = VStr too_many_nested
       /\ i_levels st' = 0 /\ i_limit st' = N /\ i_cmds st' = i_cmds st
       /\ i_trace st' = i_trace st
       /\ length (i_scopes st') = length (i_scopes st) /\ errvars_ok (i_scopes st')).
Proof.
  intros U N k fuel st [Un Usp] H0 HN Hss ((cif & Hif) & (cex & Hex) & (cre & Hre) & (crc & Hrc)) Hpi Hpo Hk Hf.
  pose proof (ping_spec U Un Usp st cif cex cre crc Hif Hex Hre Hrc Hpi Hpo (Z.to_nat k) (VStr (show_Z k))) as HS.
  rewrite Z2Nat.id in HS by lia. specialize (HS (int_like_show k Hk) ltac:(lia)).
  destruct (call_from_top U st H0 Hss ping_proc (lit "ping") 112 (lit "ing") k _ _ fuel
              eq_refl eq_refl eq_refl eq_refl eq_refl eq_refl Hpi ltac:(lia) HS Hf) as [Fit Deep].
  change (lit "ping" ++ c_space :: show_Z k) with (lit "ping " ++ show_Z k) in Fit, Deep.
  rewrite HN in Fit, Deep. split.
  - intros Hl. apply Fit. lia.
  - intros Hl Hv. destruct (Deep ltac:(lia) Hv) as (st' & e & E & R). exists st', e. split; [exact E|exact R].
Qed.

Print Assumptions C16_down_exact.
Print Assumptions C16_ping_exact.

(* ====================================================================================== *)
(* 8. the checker                                                                         *)
(* ====================================================================================== *)

Import Check.ScriptObs.

(* the interpreter of Check/C16 after its first script (the procedure definitions, no
   history), with the limit set to n *)
Definition procs_state : interp := fst (eval std_uni model_fuel (harness_interp 0) Molt.Check.C16.procs_text).
Definition checker_state (n : N) : interp := set_limit procs_state n.

(* `proc down ...`, `proc ping ...`, `proc pong ...` of procs_text create exactly the
   procedures of this file *)
Lemma procs_text_defines :
  snd (eval std_uni model_fuel (harness_interp 0) Molt.Check.C16.procs_text) = Ok v_empty
  /\ assoc_get (lit "down") (i_cmds procs_state) = Some down_proc
  /\ assoc_get (lit "ping") (i_cmds procs_state) = Some ping_proc
  /\ assoc_get (lit "pong") (i_cmds procs_state) = Some pong_proc.
Proof. vm_compute. repeat split. Qed.

Lemma checker_state_ok n :
  i_levels (checker_state n) = 0 /\ i_limit (checker_state n) = n
  /\ i_scopes (checker_state n) <> [] /\ sc_current (i_scopes (checker_state n)) = 0%nat
  /\ i_trace (checker_state n) = []
  /\ counting_natives (checker_state n)
  /\ assoc_get (lit "down") (i_cmds (checker_state n)) = Some down_proc
  /\ assoc_get (lit "ping") (i_cmds (checker_state n)) = Some ping_proc
  /\ assoc_get (lit "pong") (i_cmds (checker_state n)) = Some pong_proc
  /\ errvars_ok (i_scopes (checker_state n)).
Proof.
  assert (S : i_scopes (checker_state n) = i_scopes procs_state) by reflexivity.
  assert (C : i_cmds (checker_state n) = i_cmds procs_state) by reflexivity.
  split; [vm_compute; reflexivity|]. split; [reflexivity|].
  split; [rewrite S; vm_compute; discriminate|]. split; [rewrite S; vm_compute; reflexivity|].
  split; [vm_compute; reflexivity|].
  split; [unfold counting_natives, native_bound; rewrite C;
          repeat split; exists 0; vm_compute; reflexivity|].
  rewrite C, S. destruct procs_text_defines as (_ & A & B & D).
  split; [exact A|]. split; [exact B|]. split; [exact D|]. split; vm_compute; exact I.
Qed.

(* the checker's cases of kind 4 and 5 *)
Theorem checker_script_down target ce :
  Molt.Check.C16.script_for 4 target ce
  = (lit "down " ++ show_Z (Z.max (target - 3) 0), (Z.max (target - 3) 0 + 3)%Z).
Proof. reflexivity. Qed.

Theorem checker_script_ping target ce :
  Molt.Check.C16.script_for 5 target ce
  = (lit "ping " ++ show_Z (Z.max ((target - 3) / 2) 0), (2 * Z.max ((target - 3) / 2) 0 + 3)%Z).
Proof. reflexivity. Qed.

(* C16 on the checker's interpreter: procedure recursion and mutual recursion, every limit,
   every counter *)
Theorem C16_harness_down : forall (N : N) (k : Z) (fuel : nat),
  (0 <= k <= i64_max)%Z -> (Z.to_nat k + 3 <= fuel)%nat ->
  (Z.to_N k + 3 <= N ->
     exists st',
       eval std_uni fuel (checker_state N) (lit "down " ++ show_Z k) = (st', Ok (VStr (lit "ok")))
       /\ i_levels st' = 0 /\ i_trace st' = [deep_call] /\ sc_current (i_scopes st') = 0%nat)
  /\
  (N < Z.to_N k + 3 ->
     exists st' e,
       eval std_uni fuel (checker_state N) (lit "down " ++ show_Z k) = (st', Err e)
       /\ x_code e = CError /\ x_value e = VStr too_many_nested
       /\ i_levels st' = 0 /\ i_limit st' = N /\ i_trace st' = []
       /\ sc_current (i_scopes st') = 0%nat).
Proof.
  intros N k fuel Hk Hf.
  destruct (checker_state_ok N) as (L & M & Hss & Hcur & Htr & Hnat & Hd & Hpi & Hpo & Hv).
  destruct (C16_down_exact std_uni N k fuel (checker_state N) std_uni_ok L M Hss Hnat Hd Hk Hf)
    as [Fit Deep].
  split.
  - intros Hl. rewrite (Fit Hl). eexists. split; [reflexivity|].
    cbn [set_trace i_levels i_trace i_scopes]. rewrite Htr. repeat split; assumption.
  - intros Hl. destruct (Deep Hl Hv) as (st' & e & E & C & X & L' & M' & K & T & Len & V).
    exists st', e. split; [exact E|]. split; [exact C|]. split; [exact X|]. split; [exact L'|].
    split; [exact M'|]. split; [congruence|].
    unfold sc_current in *. rewrite Len. exact Hcur.
Qed.

Theorem C16_harness_ping : forall (N : N) (k : Z) (fuel : nat),
  (0 <= k <= i64_max)%Z -> (2 * Z.to_nat k + 3 <= fuel)%nat ->
  (2 * Z.to_N k + 3 <= N ->
     exists st',
       eval std_uni fuel (checker_state N) (lit "ping " ++ show_Z k) = (st', Ok (VStr (lit "ok")))
       /\ i_levels st' = 0 /\ i_trace st' = [deep_call] /\ sc_current (i_scopes st') = 0%nat)
  /\
  (N < 2 * Z.to_N k + 3 ->
     exists st' e,
       eval std_uni fuel (checker_state N) (lit "ping " ++ show_Z k) = (st', Err e)
       /\ x_code e = CError /\ x_value e = VStr too_many_nested
       /\ i_levels st' = 0 /\ i_limit st' = N /\ i_trace st' = []
       /\ sc_current (i_scopes st') = 0%nat).
Proof.
  intros N k fuel Hk Hf.
  destruct (checker_state_ok N) as (L & M & Hss & Hcur & Htr & Hnat & Hd & Hpi & Hpo & Hv).
  destruct (C16_ping_exact std_uni N k fuel (checker_state N) std_uni_ok L M Hss Hnat Hpi Hpo Hk Hf)
    as [Fit Deep].
  split.
  - intros Hl. rewrite (Fit Hl). eexists. split; [reflexivity|].
    cbn [set_trace i_levels i_trace i_scopes]. rewrite Htr. repeat split; assumption.
  - intros Hl. destruct (Deep Hl Hv) as (st' & e & E & C & X & L' & M' & K & T & Len & V).
    exists st', e. split; [exact E|]. split; [exact C|]. split; [exact X|]. split; [exact L'|].
    split; [exact M'|]. split; [congruence|].
    unfold sc_current in *. rewrite Len. exact Hcur.
Qed.

Print Assumptions C16_harness_down.
Print Assumptions C16_harness_ping.

(* the checker's case (kind 4, target): its script needs [need] levels and succeeds iff
   need <= N *)
Theorem C16_checker_down_script : forall (N : N) (target : Z) (ce : bool) (fuel : nat),
  let s := fst (Molt.Check.C16.script_for 4 target ce) in
  let need := snd (Molt.Check.C16.script_for 4 target ce) in
  (need <= i64_max)%Z -> (Z.to_nat need <= fuel)%nat ->
  ((need <= Z.of_N N)%Z ->
     exists st', eval std_uni fuel (checker_state N) s = (st', Ok (VStr (lit "ok")))
                 /\ i_levels st' = 0 /\ i_trace st' = [deep_call] /\ sc_current (i_scopes st') = 0%nat)
  /\
  ((Z.of_N N < need)%Z ->
     exists st' e, eval std_uni fuel (checker_state N) s = (st', Err e)
                   /\ x_code e = CError /\ x_value e = VStr too_many_nested
                   /\ i_levels st' = 0 /\ i_limit st' = N /\ i_trace st' = []
                   /\ sc_current (i_scopes st') = 0%nat).
Proof.
  intros N target ce fuel. rewrite checker_script_down. cbn [fst snd].
  set (k := Z.max (target - 3) 0). intros Hm Hf.
  assert (Hk : (0 <= k)%Z) by (unfold k; lia).
  destruct (C16_harness_down N k fuel ltac:(lia) ltac:(lia)) as [Fit Deep]. split.
  - intros Hl. apply Fit. lia.
  - intros Hl. apply Deep. lia.
Qed.

Print Assumptions C16_checker_down_script.

(* ---- instances by computation: N = 6 ---- *)
Example down_limit6 :
  (* down 3 needs 6 levels *)
  snd (eval std_uni 20 (checker_state 6) (lit "down 3")) = Ok (VStr (lit "ok"))
  /\ i_trace (fst (eval std_uni 20 (checker_state 6) (lit "down 3"))) = [deep_call]
  /\ sc_current (i_scopes (fst (eval std_uni 20 (checker_state 6) (lit "down 3")))) = 0%nat
  (* down 4 needs 7 *)
  /\ (exists e, snd (eval std_uni 20 (checker_state 6) (lit "down 4")) = Err e
                /\ x_code e = CError /\ x_value e = VStr too_many_nested)
  /\ i_trace (fst (eval std_uni 20 (checker_state 6) (lit "down 4"))) = []
  /\ i_levels (fst (eval std_uni 20 (checker_state 6) (lit "down 4"))) = 0
  /\ sc_current (i_scopes (fst (eval std_uni 20 (checker_state 6) (lit "down 4")))) = 0%nat
  (* and afterwards depth 6 is available again *)
  /\ snd (eval std_uni 20 (fst (eval std_uni 20 (checker_state 6) (lit "down 4"))) (lit "down 3"))
     = Ok (VStr (lit "ok")).
Proof.
  vm_compute. split; [reflexivity|]. split; [reflexivity|]. split; [reflexivity|].
  split; [eexists; repeat split|]. repeat split.
Qed.

Example ping_limit6 :
  (* ping 1 needs 5 levels, ping 2 needs 7 *)
  snd (eval std_uni 20 (checker_state 6) (lit "ping 1")) = Ok (VStr (lit "ok"))
  /\ i_trace (fst (eval std_uni 20 (checker_state 6) (lit "ping 1"))) = [deep_call]
  /\ (exists e, snd (eval std_uni 20 (checker_state 6) (lit "ping 2")) = Err e
                /\ x_code e = CError /\ x_value e = VStr too_many_nested)
  /\ i_trace (fst (eval std_uni 20 (checker_state 6) (lit "ping 2"))) = []
  /\ sc_current (i_scopes (fst (eval std_uni 20 (checker_state 6) (lit "ping 2")))) = 0%nat
  (* with limit 7 it fits *)
  /\ snd (eval std_uni 20 (checker_state 7) (lit "ping 2")) = Ok (VStr (lit "ok")).
Proof.
  vm_compute. split; [reflexivity|]. split; [reflexivity|].
  split; [eexists; repeat split|]. repeat split.
Qed.

(* ====================================================================================== *)
(* 9. the `for` wrapper (kind 3 of the checker's nest builder)                            *)
(* ====================================================================================== *)

(* the characters of the loop variables u0, u1, ...: the letter u and the decimal digits *)
Definition name_char (c : char) : bool := is_digit10 c || (c =? 117).

Definition good_name (x : str) : Prop := x <> [] /\ forallb name_char x = true.

Definition uname (i : nat) : str := 117 :: show_Z (Z.of_nat i).

Lemma uname_good i : good_name (uname i).
Proof.
  split; [discriminate|]. unfold uname. cbn [forallb]. 
  destruct (show_Z_digits (Z.of_nat i) ltac:(lia)) as (_ & Hd & _).
  change (name_char 117) with true. cbn [andb].
  apply forallb_forall. intros c Hc. rewrite forallb_forall in Hd. unfold name_char. rewrite (Hd c Hc). reflexivity.
Qed.

Lemma uname_inj i j : uname i = uname j -> i = j.
Proof.
  unfold uname. intros H. injection H as H.
  destruct (show_Z_digits (Z.of_nat i) ltac:(lia)) as (_ & _ & Hi).
  destruct (show_Z_digits (Z.of_nat j) ltac:(lia)) as (_ & _ & Hj).
  rewrite H in Hi. lia.
Qed.

Lemma name_char_plain c : name_char c = true -> plain c = true.
Proof.
  unfold name_char, is_digit10, plain, is_whitespace, is_escape_special, c_tab, c_nl, c_vt, c_ff, c_cr,
    c_space, c_dquote, c_dollar, c_semi, c_lbracket, c_bslash, c_rbracket, c_lbrace, c_rbrace. lia.
Qed.

Lemma forallb_impl {A} (p q : A -> bool) l :
  (forall a, p a = true -> q a = true) -> forallb p l = true -> forallb q l = true.
Proof.
  intros H. induction l as [|a l IH]; [reflexivity|]. cbn [forallb]. intros E.
  apply andb_true_iff in E. destruct E as [E1 E2]. rewrite (H a E1), (IH E2). reflexivity.
Qed.

Lemma good_name_plain x : good_name x -> forallb plain x = true.
Proof. intros [_ H]. exact (forallb_impl _ _ _ name_char_plain H). Qed.

Lemma good_name_head x : good_name x -> exists c t, x = c :: t /\ name_char c = true.
Proof.
  intros [Hne H]. destruct x as [|c t]; [congruence|]. exists c, t. split; [reflexivity|].
  cbn [forallb] in H. apply andb_true_iff in H. tauto.
Qed.

(* ---------- the condition `$x < 1` ---------- *)
Section ForExpr.
Variable ia ib : char -> bool.
Variable exec : executor.
Hypothesis ia_name : forall c, name_char c = true -> ia c = true.
Hypothesis ia_sp : ia 32 = false.

Lemma varname_chars x : good_name x -> forallb (is_varname_char ia) x = true.
Proof.
  intros [_ H]. apply (forallb_impl name_char); [|exact H].
  intros c Hc. unfold is_varname_char. rewrite (ia_name c Hc). reflexivity.
Qed.

Lemma parse_varname_name f x rest :
  good_name x ->
  parse_varname ia (S f) false (x ++ 32 :: rest) = POk (WVarRef x) (32 :: rest).
Proof.
  intros Hx. destruct (good_name_head x Hx) as (c & t & E & Hc).
  rewrite parse_varname_eq. rewrite E at 1. cbn [app].
  replace (c =? c_lbrace) with false by (unfold name_char, is_digit10, c_lbrace in *; lia).
  cbv beta iota zeta.
  assert (Hstop : match 32 :: rest with [] => True | d :: _ => is_varname_char ia d = false end).
  { unfold is_varname_char. rewrite ia_sp. reflexivity. }
  rewrite (take_while_app_stop _ x (32 :: rest) (varname_chars x Hx) Hstop).
  rewrite (skip_while_app_stop _ x (32 :: rest) (varname_chars x Hx) Hstop).
  reflexivity.
Qed.

Lemma lex_var_name orig f st x rest tok v d :
  good_name x ->
  st_scalar st x = Ok v -> expr_parse_value v = Ok d ->
  expr_lex ia ib exec orig (S f) st
    {| e_rest := c_dollar :: x ++ 32 :: rest; e_token := tok; e_noeval := 0 |}
  = (st, Ok (d, {| e_rest := 32 :: rest; e_token := T_VALUE; e_noeval := 0 |})).
Proof.
  intros Hx Hv Hd. destruct (good_name_head x Hx) as (c & t & E & Hc). subst x.
  rewrite expr_lex_S. cbn [e_rest app].
  change (skip_while is_whitespace (c_dollar :: c :: t ++ 32 :: rest)) with (c_dollar :: c :: t ++ 32 :: rest).
  cbv zeta.
  assert (L : lex_number {| e_rest := c_dollar :: c :: t ++ 32 :: rest; e_token := tok; e_noeval := 0 |}
                (c_dollar :: c :: t ++ 32 :: rest) c_dollar = None) by reflexivity.
  cbv beta iota. rewrite L. change (c_dollar =? c_dollar) with true. cbn iota.
  unfold is_varname_char at 1. rewrite (ia_name c Hc). cbn [orb].
  assert (F : exists g, parse_fuel (c :: t ++ 32 :: rest) = S g).
  { eexists. unfold parse_fuel. rewrite Nat.add_comm. reflexivity. }
  destruct F as (g & ->). unfold parse_bt.
  change (c :: t ++ 32 :: rest) with ((c :: t) ++ 32 :: rest).
  rewrite (parse_varname_name g (c :: t) rest Hx).
  unfold lift_p.
  change (noeval {| e_rest := c_dollar :: (c :: t) ++ 32 :: rest; e_token := tok; e_noeval := 0 |}) with false.
  cbn iota. cbn [eval_word]. rewrite Hv. unfold lex_value_of.
  change (noeval {| e_rest := c_dollar :: (c :: t) ++ 32 :: rest; e_token := tok; e_noeval := 0 |}) with false.
  cbn iota. rewrite Hd. reflexivity.
Qed.

Definition lt1_text (x : str) : str := c_dollar :: x ++ lit " < 1".

Lemma expr_eval_lt1 st x v z :
  good_name x -> st_scalar st x = Ok v -> int_like v z ->
  expr_eval ia ib exec st (VStr (lt1_text x)) = (st, Ok (VInt (if (z <? 1)%Z then 1 else 0))).
Proof.
  intros Hx Hv Hd. unfold expr_eval. cbn [as_str].
  set (orig := lt1_text x).
  assert (F : exists g, expr_fuel orig = S (S (S (S (S (S (S (S g)))))))).
  { exists (4 * length orig + 8)%nat. unfold expr_fuel. lia. }
  destruct F as (g & ->).
  rewrite expr_get_value_S.
  change orig with (c_dollar :: x ++ 32 :: lit "< 1") at 2.
  rewrite (lex_var_name _ _ _ _ _ _ _ _ Hx Hv Hd).
  set (i1 := {| e_rest := 32 :: lit "< 1"; e_token := T_VALUE; e_noeval := 0 |}).
  set (i3 := {| e_rest := lit " 1"; e_token := T_LESS; e_noeval := 0 |}).
  set (i5 := {| e_rest := []; e_token := T_END; e_noeval := 0 |}).
  set (f6 := S (S (S (S (S (S g)))))).
  assert (G1 : gv_first ia ib exec orig (S f6) st (DInt z) i1 = (st, Ok (DInt z, i1, false)))
    by reflexivity.
  rewrite G1. cbv beta iota.
  assert (G2 : expr_lex ia ib exec orig (S f6) st i1 = (st, Ok (d_none, i3))) by (vm_compute; reflexivity).
  rewrite G2. cbv beta iota.
  assert (G3 : expr_get_value ia ib exec orig f6 st i3 (prec (e_token i3)) = (st, Ok (DInt 1, i5)))
    by (vm_compute; reflexivity).
  rewrite (loop_left_assoc ia ib exec orig f6 st i3 (-1) (DInt z) st (DInt 1) i5);
    [|vm_compute; split; discriminate|reflexivity|exact G3|reflexivity|reflexivity].
  change (e_token i3) with T_LESS.
  rewrite cmp_int_int by (vm_compute; tauto).
  unfold f6. rewrite loop_stops_at_end by (left; reflexivity).
  change (e_token i5 =? T_END)%Z with true. cbn [negb]. cbv beta iota.
  unfold d_bool. change (cmp_op T_LESS (z ?= 1)%Z) with (z <? 1)%Z. reflexivity.
Qed.

End ForExpr.

(* ---------- the reader: a command of plain words; braced words ---------- *)
Definition plainword (w : str) : Prop := w <> [] /\ forallb plain w = true.

Lemma plain_char_facts c : plain c = true ->
  is_whitespace c = false /\ is_line_white c = false /\ (c =? c_nl) = false /\ (c =? c_semi) = false.
Proof.
  unfold plain, is_line_white, is_whitespace, is_escape_special, c_tab, c_nl, c_vt, c_ff, c_cr,
    c_space, c_dquote, c_dollar, c_semi, c_lbracket, c_bslash, c_rbracket, c_lbrace, c_rbrace. lia.
Qed.

Lemma plainword_head w : plainword w -> exists c t, w = c :: t /\ plain c = true.
Proof.
  intros [Hne H]. destruct w as [|c t]; [congruence|]. exists c, t. split; [reflexivity|].
  cbn [forallb] in H. apply andb_true_iff in H. tauto.
Qed.

Lemma join_cons2 (w w2 : str) r :
  join_str [c_space] (w :: w2 :: r) = w ++ c_space :: join_str [c_space] (w2 :: r).
Proof. reflexivity. Qed.

Section Reader3.
Variable isa : char -> bool.

Lemma parse_words_plain : forall ws f acc,
  ws <> [] -> Forall plainword ws -> (length (join_str [c_space] ws) + 3 <= f)%nat ->
  parse_words isa f false (join_str [c_space] ws) acc = POk (rev acc ++ map WValue ws) [].
Proof.
  induction ws as [|w r IH]; intros f acc Hne Hall Hf; [congruence|].
  inversion Hall as [|w' r' Hw Hr]; subst w' r'.
  destruct (plainword_head w Hw) as (c & t & E & Pc).
  destruct (plain_char_facts c Pc) as (_ & _ & Hnl & Hsemi).
  destruct r as [|w2 r2].
  - cbn [join_str] in *. destruct f as [|[|f]]; try lia.
    rewrite (parse_words_last_bare isa f w c t acc E (escape_chars_plain w (proj2 Hw)) Hnl Hsemi); [|lia].
    cbn [rev map]. reflexivity.
  - rewrite join_cons2 in *. rewrite app_length in Hf. cbn [length] in Hf.
    destruct f as [|[|f]]; try lia.
    rewrite (parse_words_bare isa f w c t _ acc E (escape_chars_plain w (proj2 Hw)) Hnl Hsemi); [|lia].
    inversion Hr as [|w2' r2' Hw2 Hr2]; subst w2' r2'.
    destruct (plainword_head w2 Hw2) as (c2 & t2 & E2 & Pc2).
    destruct (plain_char_facts c2 Pc2) as (_ & Hlw & _ & _).
    rewrite (skip_while_head_false is_line_white (join_str [c_space] (w2 :: r2))).
    2:{ destruct r2; [cbn [join_str]|rewrite join_cons2]; rewrite E2; cbn [app]; exact Hlw. }
    rewrite IH; [|discriminate|exact Hr|].
    + cbn [rev map]. rewrite <- app_assoc. reflexivity.
    + assert (1 <= length w)%nat by (rewrite E; cbn [length]; lia). lia.
Qed.

(* a script that is one command of plain words *)
Lemma parse_plain_command ws c t :
  ws <> [] -> Forall plainword ws ->
  join_str [c_space] ws = c :: t -> (c =? c_hash) = false -> is_whitespace c = false ->
  parse isa (join_str [c_space] ws) = POk [map WValue ws] [].
Proof.
  intros Hne Hall Hs Hh Hw. unfold parse.
  set (s := join_str [c_space] ws) in *.
  assert (Hfuel : exists f, parse_fuel s = S (S (S f)) /\ (length s + 3 <= f)%nat).
  { exists (8 * length s + 13)%nat. unfold parse_fuel. lia. }
  destruct Hfuel as (f & -> & Hf).
  rewrite parse_script_eq. rewrite Hs at 1. cbn [at_end_of_script andb].
  rewrite parse_command_eq. cbv zeta.
  rewrite (skip_to_command_head _ _ c t Hs Hw Hh).
  unfold s. rewrite parse_words_plain; [|exact Hne|exact Hall|fold s; lia]. cbn [rev app].
  rewrite parse_script_eq. reflexivity.
Qed.

(* a braced word that is not the last word of its command *)
Lemma parse_words_braced f w rest acc :
  brace_ok w O = true -> w <> [c_star] ->
  parse_words isa (S (S (S f))) false (c_lbrace :: w ++ c_rbrace :: c_space :: rest) acc
  = parse_words isa (S (S f)) false (skip_while is_line_white rest) (WValue w :: acc).
Proof.
  intros Hb Hs. rewrite parse_words_eq.
  change (at_end_of_command false (c_lbrace :: w ++ c_rbrace :: c_space :: rest)) with false. cbn iota.
  pose proof (next_word_braced isa (S f) w (c_space :: rest) Hb Hs (word_end_space rest)) as H.
  unfold brace_item in H. cbn [app] in H. rewrite <- app_assoc in H. cbn [app] in H. rewrite H.
  cbn [skip_while]. change (is_line_white c_space) with true. cbn iota. reflexivity.
Qed.

End Reader3.

(* strings without braces and backslashes are brace balanced *)
Definition nobrace (c : char) : bool := negb ((c =? c_bslash) || (c =? c_lbrace) || (c =? c_rbrace)).

Lemma nobrace_brace_ok w : forallb nobrace w = true -> forall d, brace_ok w d = Nat.eqb d 0.
Proof.
  induction w as [|c r IH]; intros H d; [reflexivity|].
  cbn [forallb] in H. apply andb_true_iff in H. destruct H as [Pc Pr].
  assert (c =? c_bslash = false /\ c =? c_lbrace = false /\ c =? c_rbrace = false) as (A & B & C)
    by (revert Pc; unfold nobrace; lia).
  cbn [brace_ok]. rewrite A, B, C. apply IH. assumption.
Qed.

Lemma name_char_nobrace c : name_char c = true -> nobrace c = true.
Proof. unfold name_char, nobrace, is_digit10, c_bslash, c_lbrace, c_rbrace. lia. Qed.

Lemma good_name_nobrace x : good_name x -> forallb nobrace x = true.
Proof. intros [_ H]. exact (forallb_impl _ _ _ name_char_nobrace H). Qed.

(* ---------- the texts of the wrapper ---------- *)
Definition init_text (x : str) : str := lit "set " ++ x ++ lit " 0".
Definition next_text (x : str) : str := lit "incr " ++ x.

Definition for_wrap (x body : str) : str :=
  lit "for" ++ c_space :: c_lbrace :: init_text x ++ c_rbrace :: c_space
  :: c_lbrace :: lt1_text x ++ c_rbrace :: c_space
  :: c_lbrace :: next_text x ++ c_rbrace :: c_space
  :: c_lbrace :: body ++ [c_rbrace].

(* the checker's spelling *)
Lemma for_wrap_text x body :
  for_wrap x body =
  lit "for {set " ++ x ++ lit " 0} {$" ++ x ++ lit " < 1} {incr " ++ x ++ lit "} {" ++ body ++ lit "}".
Proof.
  unfold for_wrap, init_text, lt1_text, next_text. cbn [app].
  repeat (rewrite <- ?app_assoc; cbn [app]). reflexivity.
Qed.

Lemma init_brace_ok x : good_name x -> brace_ok (init_text x) O = true /\ init_text x <> [c_star].
Proof.
  intros Hx. split; [|discriminate].
  rewrite nobrace_brace_ok; [reflexivity|]. unfold init_text.
  rewrite !forallb_app, (good_name_nobrace x Hx). reflexivity.
Qed.

Lemma lt1_brace_ok x : good_name x -> brace_ok (lt1_text x) O = true /\ lt1_text x <> [c_star].
Proof.
  intros Hx. split; [|discriminate].
  rewrite nobrace_brace_ok; [reflexivity|]. unfold lt1_text. cbn [forallb].
  rewrite !forallb_app, (good_name_nobrace x Hx). reflexivity.
Qed.

Lemma next_brace_ok x : good_name x -> brace_ok (next_text x) O = true /\ next_text x <> [c_star].
Proof.
  intros Hx. split; [|discriminate].
  rewrite nobrace_brace_ok; [reflexivity|]. unfold next_text.
  rewrite !forallb_app, (good_name_nobrace x Hx). reflexivity.
Qed.

Lemma plainword_name x : good_name x -> plainword x.
Proof. intros Hx. split; [apply Hx|apply good_name_plain, Hx]. Qed.

Section Reader4.
Variable isa : char -> bool.

Lemma parse_for x body :
  good_name x -> brace_ok body O = true -> body <> [c_star] ->
  parse isa (for_wrap x body)
  = POk [map WValue [lit "for"; init_text x; lt1_text x; next_text x; body]] [].
Proof.
  intros Hx Hb Hs.
  destruct (init_brace_ok x Hx) as [I1 I2]. destruct (lt1_brace_ok x Hx) as [L1 L2].
  destruct (next_brace_ok x Hx) as [N1 N2].
  apply (parse_one_command _ _ 102 (tl (for_wrap x body))); try reflexivity.
  intros f. unfold for_wrap.
  rewrite (parse_words_bare _ _ (lit "for") 102 (lit "or")); try reflexivity; [|cbn; lia].
  change (skip_while is_line_white (c_lbrace :: ?r)) with (c_lbrace :: r).
  rewrite parse_words_braced by assumption.
  change (skip_while is_line_white (c_lbrace :: ?r)) with (c_lbrace :: r).
  rewrite parse_words_braced by assumption.
  change (skip_while is_line_white (c_lbrace :: ?r)) with (c_lbrace :: r).
  rewrite parse_words_braced by assumption.
  change (skip_while is_line_white (c_lbrace :: ?r)) with (c_lbrace :: r).
  rewrite parse_words_last_braced by assumption. reflexivity.
Qed.

Lemma parse_init x : good_name x ->
  parse isa (init_text x) = POk [map WValue [lit "set"; x; lit "0"]] [].
Proof.
  intros Hx.
  apply (parse_plain_command isa [lit "set"; x; lit "0"] 115 (tl (init_text x))); try reflexivity.
  - discriminate.
  - constructor; [split; [discriminate|reflexivity]|].
    constructor; [apply plainword_name, Hx|].
    constructor; [split; [discriminate|reflexivity]|constructor].
Qed.

Lemma parse_next x : good_name x ->
  parse isa (next_text x) = POk [map WValue [lit "incr"; x]] [].
Proof.
  intros Hx.
  apply (parse_plain_command isa [lit "incr"; x] 105 (tl (next_text x))); try reflexivity.
  - discriminate.
  - constructor; [split; [discriminate|reflexivity]|].
    constructor; [apply plainword_name, Hx|constructor].
Qed.

End Reader4.

(* ---------- the variables of the loops ---------- *)
Definition loop_ok (ss : scopes) (x : str) : Prop := forall m, shape_of ss x <> Array m.

(* the scope stack is well formed, errorInfo / errorCode can be assigned, and no name made of
   the letter u and digits is an array *)
Definition Ready (ss : scopes) : Prop :=
  scope_inv ss /\ errvars_ok ss /\ forall x, good_name x -> loop_ok ss x.

Lemma good_name_not_err x s c t :
  good_name x -> s = c :: t -> name_char c = false -> str_eqb s x = false /\ str_eqb x s = false.
Proof.
  intros Hx -> Hc. destruct (good_name_head x Hx) as (d & r & -> & Hd).
  assert (c <> d) by (intros ->; congruence).
  cbn [str_eqb]. split.
  - destruct (N.eqb_spec c d); [contradiction|reflexivity].
  - destruct (N.eqb_spec d c); [congruence|reflexivity].
Qed.

Lemma good_name_neq x s c t : good_name x -> s = c :: t -> name_char c = false -> s <> x.
Proof.
  intros Hx Hs Hc E. destruct (good_name_not_err x s c t Hx Hs Hc) as [A _].
  subst x. rewrite str_eqb_refl in A. discriminate.
Qed.

Lemma set_good ss x v :
  Ready ss -> good_name x ->
  exists ss', sc_set ss x v = (ss', Ok tt) /\ Ready ss' /\ sc_get ss' x = Ok v
              /\ (forall y, y <> x -> sc_lookup ss' y = sc_lookup ss y).
Proof.
  intros (Hinv & [Hi Hc] & Hl) Hx.
  destruct (sc_set_on_unset_or_scalar ss x v Hinv (Hl x Hx)) as [E Sh].
  destruct (sc_set_get ss x v _ Hinv E) as (Hinv' & Hget & _ & Hoth & _).
  eexists. split; [exact E|]. split; [|split; [exact Hget|exact Hoth]].
  split; [exact Hinv'|]. split.
  - destruct (good_name_not_err x (lit "errorInfo") 101 (lit "rrorInfo") Hx eq_refl eq_refl) as [A1 A2].
    destruct (good_name_not_err x (lit "errorCode") 101 (lit "rrorCode") Hx eq_refl eq_refl) as [B1 B2].
    split; apply gvar_settable_put_level; assumption.
  - intros y Hy m. destruct (list_eq_dec N.eq_dec y x) as [->|Hne].
    + rewrite Sh. discriminate.
    + unfold shape_of. rewrite (Hoth y Hne). exact (Hl y Hy m).
Qed.

Lemma set_global_error_data_Ready st e :
  Ready (i_scopes st) ->
  exists ss', set_global_error_data st e = (set_scopes st ss', Ok tt) /\ Ready ss'.
Proof.
  intros (Hinv & [Hi Hc] & Hl). unfold set_global_error_data. destruct (x_data e) as [d|].
  - rewrite (sc_set_global_ok _ _ _ Hi).
    set (ss1 := sc_put (i_scopes st) O (lit "errorInfo") (VarScalar (VStr (ed_info d)))).
    assert (Hc1 : gvar_settable ss1 (lit "errorCode")).
    { apply gvar_settable_put_other; [reflexivity|reflexivity|exact Hc]. }
    rewrite (sc_set_global_ok _ _ _ Hc1).
    eexists. split; [reflexivity|]. split; [|split; [split|]].
    + apply inv_put_plain; [|reflexivity|discriminate].
      apply inv_put_plain; [exact Hinv|reflexivity|discriminate].
    + apply gvar_settable_put_other; [reflexivity|reflexivity|]. apply gvar_settable_put_same.
    + apply gvar_settable_put_same.
    + intros x Hx m. unfold shape_of.
      rewrite lookup_put_other by (apply (good_name_neq x _ 101 (lit "rrorCode") Hx eq_refl eq_refl)).
      unfold ss1.
      rewrite lookup_put_other by (apply (good_name_neq x _ 101 (lit "rrorInfo") Hx eq_refl eq_refl)).
      exact (Hl x Hx m).
  - exists (i_scopes st). rewrite set_scopes_same. split; [reflexivity|].
    split; [exact Hinv|]. split; [split; assumption|exact Hl].
Qed.

(* ---------- `set x 0` and `incr x` ---------- *)
Lemma as_var_name_good x : good_name x -> as_var_name (VStr x) = (x, None).
Proof.
  intros [_ H]. unfold as_var_name, parse_varname_literal. cbn [as_str].
  rewrite Molt.Proofs.RepFacts.skip_while_all; [reflexivity|].
  apply (forallb_impl name_char); [|exact H].
  intros c Hc. unfold name_char, is_digit10, c_lparen in *. lia.
Qed.

Section ForCommands.
Variable U : uni.

Lemma exec_set0 f st ctx x ss' :
  good_name x ->
  sc_set (i_scopes st) x (VStr (lit "0")) = (ss', Ok tt) ->
  run_exec U (S f) st (CmdNative NSet ctx) (map VStr [lit "set"; x; lit "0"])
  = (set_scopes st ss', Ok (VStr (lit "0"))).
Proof.
  intros Hx Hs. cbn [run_exec run_native]. unfold cmd_set.
  change (check_args "cmd_set" (map VStr [lit "set"; x; lit "0"])) with (@Ok unit tt).
  unfold lift. rewrite bind_ok. cbn [map length Nat.eqb arg nth].
  unfold st_set_var_return, st_set_var. rewrite (as_var_name_good x Hx).
  unfold st_set_scalar. rewrite Hs. reflexivity.
Qed.

Lemma exec_incr f st ctx x v z ss' :
  good_name x ->
  st_scalar st x = Ok v -> v_as_int v = inr z -> in_i64 (1 + z) = true ->
  sc_set (i_scopes st) x (VInt (1 + z)) = (ss', Ok tt) ->
  run_exec U (S f) st (CmdNative NIncr ctx) (map VStr [lit "incr"; x])
  = (set_scopes st ss', Ok (VInt (1 + z))).
Proof.
  intros Hx Hv Hz Hr Hs. cbn [run_exec run_native]. unfold cmd_incr.
  change (check_args "cmd_incr" (map VStr [lit "incr"; x])) with (@Ok unit tt).
  unfold lift. rewrite bind_ok. cbn [map length Nat.eqb arg nth]. unfold ret. rewrite bind_ok.
  unfold st_var. rewrite (as_var_name_good x Hx). rewrite Hv. rewrite Hz.
  unfold lift_sum. cbn [of_sum]. rewrite bind_ok. cbv zeta. rewrite Hr.
  unfold st_set_var_return, st_set_var. rewrite (as_var_name_good x Hx).
  unfold st_set_scalar. rewrite Hs. reflexivity.
Qed.

End ForCommands.

(* ---------- the nest ---------- *)
Fixpoint nest_for (d : nat) : str :=
  match d with
  | O => innermost
  | S d' => for_wrap (uname d') (nest_for d')
  end.

Lemma nobrace_app_brace_ok w : forallb nobrace w = true -> forall r e, brace_ok (w ++ r) e = brace_ok r e.
Proof.
  induction w as [|c w IH]; intros H r e; [reflexivity|].
  cbn [forallb] in H. apply andb_true_iff in H. destruct H as [Pc Pr].
  assert (c =? c_bslash = false /\ c =? c_lbrace = false /\ c =? c_rbrace = false) as (A & B & C)
    by (revert Pc; unfold nobrace; lia).
  cbn [app brace_ok]. rewrite A, B, C. apply IH. exact Pr.
Qed.

Lemma braced_nobrace_ok w : forallb nobrace w = true ->
  forall r e, brace_ok (c_lbrace :: w ++ c_rbrace :: r) e = brace_ok r e.
Proof.
  intros H r e.
  change (brace_ok (c_lbrace :: w ++ c_rbrace :: r) e) with (brace_ok (w ++ c_rbrace :: r) (S e)).
  rewrite (nobrace_app_brace_ok w H). reflexivity.
Qed.

Lemma for_wrap_brace_app x body :
  good_name x -> (forall r e, brace_ok (body ++ r) e = brace_ok r e) ->
  forall r e, brace_ok (for_wrap x body ++ r) e = brace_ok r e.
Proof.
  intros Hx Hb r e. pose proof (good_name_nobrace x Hx) as Hn.
  unfold for_wrap.
  repeat (rewrite <- ?app_assoc; cbn [app]).
  change (brace_ok (lit "for" ++ c_space :: ?s) e) with (brace_ok s e).
  rewrite braced_nobrace_ok by (unfold init_text; rewrite !forallb_app, Hn; reflexivity).
  change (brace_ok (c_space :: ?s) e) with (brace_ok s e).
  rewrite braced_nobrace_ok by (unfold lt1_text; cbn [forallb]; rewrite !forallb_app, Hn; reflexivity).
  change (brace_ok (c_space :: ?s) e) with (brace_ok s e).
  rewrite braced_nobrace_ok by (unfold next_text; rewrite !forallb_app, Hn; reflexivity).
  change (brace_ok (c_space :: c_lbrace :: ?s) e) with (brace_ok s (S e)).
  rewrite Hb. reflexivity.
Qed.

Lemma nest_for_brace_app : forall d r e, brace_ok (nest_for d ++ r) e = brace_ok r e.
Proof.
  induction d as [|d IH]; intros r e; [reflexivity|].
  cbn [nest_for]. apply for_wrap_brace_app; [apply uname_good|exact IH].
Qed.

Lemma nest_for_brace_ok d : brace_ok (nest_for d) O = true.
Proof. rewrite <- (app_nil_r (nest_for d)). rewrite nest_for_brace_app. reflexivity. Qed.

Lemma nest_for_not_star d : nest_for d <> [c_star].
Proof. destruct d; discriminate. Qed.

Definition val_for (d : nat) : value := match d with O => VStr (lit "deep") | S _ => v_empty end.

(* the loop variables of the wrappers outside the nest keep their values *)
Definition keeps (d : nat) (ss ss' : scopes) : Prop :=
  forall y, good_name y -> (forall j, (j < d)%nat -> y <> uname j) -> sc_lookup ss' y = sc_lookup ss y.

Definition uni_names_ok (U : uni) : Prop :=
  (forall c, name_char c = true -> u_alnum U c = true) /\ u_alnum U 32 = false.

Section ForNest.
Variable U : uni.
Hypothesis U_ok : uni_names_ok U.

Variable st0 : interp.
Variables c_for c_set c_incr c_rec : N.
Hypothesis H_for : assoc_get (lit "for") (i_cmds st0) = Some (CmdNative NFor c_for).
Hypothesis H_set : assoc_get (lit "set") (i_cmds st0) = Some (CmdNative NSet c_set).
Hypothesis H_incr : assoc_get (lit "incr") (i_cmds st0) = Some (CmdNative NIncr c_incr).
Hypothesis H_rec : assoc_get (lit "rec") (i_cmds st0) = Some (CmdNative NRecorder c_rec).

Local Notation N0 := (i_limit st0).
Local Notation MK := (mk st0).

Lemma level_exit_ok l ss t v : wrap_up (MK (l + 1) ss t, Ok v) = (MK l ss t, Ok v).
Proof.
  rewrite wrap_up_ok. cbn [mk set_levels i_levels i_scopes i_cmds i_limit i_ctx i_last_ctx i_trace i_test].
  replace (l + 1 - 1) with l by lia. reflexivity.
Qed.

Lemma level_exit_error l ss1 t e cmd name argv :
  Ready ss1 -> x_code e = CError -> x_value e = VStr too_many_nested ->
  exists ss' e',
    wrap_up (command_outcome (MK (l + 1) ss1 t) cmd name argv e) = (MK l ss' t, Err e')
    /\ Ready ss' /\ x_code e' = CError /\ x_value e' = VStr too_many_nested.
Proof.
  intros Hr Hc Hx.
  destruct (command_outcome_keeps (MK (l + 1) ss1 t) cmd name argv e) as (e' & -> & C' & X').
  rewrite wrap_up_error by congruence.
  destruct (set_global_error_data_Ready
              (set_levels (MK (l + 1) ss1 t) (i_levels (MK (l + 1) ss1 t) - 1)) e' Hr) as (ss2 & -> & R2).
  rewrite bind_ok. exists ss2, e'.
  cbn [mk set_levels set_scopes i_levels i_scopes i_cmds i_limit i_ctx i_last_ctx i_trace i_test].
  replace (l + 1 - 1) with l by lia. split; [reflexivity|]. split; [exact R2|]. split; congruence.
Qed.

(* `set x 0` *)
Lemma eval_init f l ss t x :
  good_name x -> Ready ss -> l < N0 ->
  exists ss1,
    eval_value_with U (run_exec U (S f)) (MK l ss t) (VStr (init_text x)) = (MK l ss1 t, Ok (VStr (lit "0")))
    /\ Ready ss1 /\ sc_get ss1 x = Ok (VStr (lit "0"))
    /\ (forall y, y <> x -> sc_lookup ss1 y = sc_lookup ss y).
Proof.
  intros Hx Hr Hl.
  destruct (set_good ss x (VStr (lit "0")) Hr Hx) as (ss1 & E & R1 & G1 & O1).
  exists ss1.
  rewrite (eval_level_command U _ (MK l ss t) _ (lit "set") [x; lit "0"] (CmdNative NSet c_set));
    [|exact Hl|apply parse_init; exact Hx|exact H_set].
  unfold one_command. change (enter (MK l ss t)) with (MK (l + 1) ss t).
  rewrite (exec_set0 U f (MK (l + 1) ss t) c_set x ss1 Hx E).
  change (set_scopes (MK (l + 1) ss t) ss1) with (MK (l + 1) ss1 t).
  rewrite level_exit_ok. split; [reflexivity|]. split; [exact R1|]. split; [exact G1|exact O1].
Qed.

(* `incr x` when x holds 0 *)
Lemma eval_next f l ss t x :
  good_name x -> Ready ss -> l < N0 -> sc_get ss x = Ok (VStr (lit "0")) ->
  exists ss1,
    eval_value_with U (run_exec U (S f)) (MK l ss t) (VStr (next_text x)) = (MK l ss1 t, Ok (VInt 1))
    /\ Ready ss1 /\ sc_get ss1 x = Ok (VInt 1)
    /\ (forall y, y <> x -> sc_lookup ss1 y = sc_lookup ss y).
Proof.
  intros Hx Hr Hl Hg.
  destruct (set_good ss x (VInt (1 + 0)) Hr Hx) as (ss1 & E & R1 & G1 & O1).
  exists ss1.
  rewrite (eval_level_command U _ (MK l ss t) _ (lit "incr") [x] (CmdNative NIncr c_incr));
    [|exact Hl|apply parse_next; exact Hx|exact H_incr].
  unfold one_command. change (enter (MK l ss t)) with (MK (l + 1) ss t).
  rewrite (exec_incr U f (MK (l + 1) ss t) c_incr x (VStr (lit "0")) 0 ss1 Hx); [|exact Hg|reflexivity|reflexivity|exact E].
  change (set_scopes (MK (l + 1) ss t) ss1) with (MK (l + 1) ss1 t).
  rewrite level_exit_ok. split; [reflexivity|]. split; [exact R1|]. split; [exact G1|exact O1].
Qed.

(* the test `$x < 1` *)
Lemma test_value f l ss t x v z :
  good_name x -> sc_get ss x = Ok v -> int_like v z ->
  expr_bool (real_rec U f) (MK l ss t) (VStr (lt1_text x)) = (MK l ss t, Ok (z <? 1)%Z).
Proof.
  intros Hx Hg Hv. unfold expr_bool. cbn [real_rec r_expr].
  rewrite (expr_with_ok U _ _ _ _
             (expr_eval_lt1 (u_alnum U) (u_alpha U) _ (proj1 U_ok) (proj2 U_ok) (MK l ss t) x v z Hx Hg Hv)).
  rewrite bind_ok. destruct (z <? 1)%Z; reflexivity.
Qed.

Definition ForSpec (d : nat) : Prop :=
  forall fuel l ss t, (d + 1 <= fuel)%nat -> Ready ss ->
  exists ss' t' r,
    eval_value_with U (run_exec U fuel) (MK l ss t) (VStr (nest_for d)) = (MK l ss' t', r)
    /\ Ready ss'
    /\ (l + N.of_nat d + 1 <= N0 -> r = Ok (val_for d) /\ t' = deep_call :: t /\ keeps d ss ss')
    /\ (N0 < l + N.of_nat d + 1 -> is_too_many r /\ t' = t).

Lemma at_limit_case l ss t s :
  N0 <= l ->
  eval_value_with U (run_exec U 0) (MK l ss t) (VStr s) = (MK l ss t, Err (molt_err too_many_nested))
  /\ is_too_many (Err (molt_err too_many_nested)).
Proof.
  intros Hl. split; [apply eval_at_limit; exact Hl|].
  exists (molt_err too_many_nested). repeat split.
Qed.

Theorem for_nest : forall d, ForSpec d.
Proof.
  induction d as [|d IH]; intros fuel l ss t Hf Hr.
  - (* the recorder *)
    destruct fuel as [|f]; [lia|].
    destruct (N.lt_ge_cases l N0) as [Hl|Hl].
    + exists ss, (deep_call :: t), (Ok (VStr (lit "deep"))). cbn [nest_for].
      rewrite (eval_level_command U _ (MK l ss t) innermost (lit "rec") [lit "deep"] (CmdNative NRecorder c_rec));
        [|exact Hl|apply parse_innermost|exact H_rec].
      unfold one_command. fold deep_call. rewrite exec_rec.
      change (set_trace (enter (MK l ss t)) (deep_call :: i_trace (enter (MK l ss t))))
        with (MK (l + 1) ss (deep_call :: t)).
      rewrite level_exit_ok. split; [reflexivity|]. split; [exact Hr|]. split; [|intros; lia].
      intros _. split; [reflexivity|]. split; [reflexivity|]. intros y _ _. reflexivity.
    + exists ss, t, (Err (molt_err too_many_nested)).
      rewrite eval_at_limit by exact Hl. split; [reflexivity|]. split; [exact Hr|].
      split; [intros; lia|]. intros _. split; [|reflexivity].
      exists (molt_err too_many_nested). repeat split.
  - (* one more `for` *)
    destruct fuel as [|f]; [lia|]. cbn [nest_for]. set (x := uname d).
    assert (Hx : good_name x) by apply uname_good.
    destruct (N.lt_ge_cases l N0) as [Hl|Hl].
    2:{ exists ss, t, (Err (molt_err too_many_nested)).
        rewrite eval_at_limit by exact Hl. split; [reflexivity|]. split; [exact Hr|].
        split; [intros; lia|]. intros _. split; [|reflexivity].
        exists (molt_err too_many_nested). repeat split. }
    rewrite (eval_level_command U _ (MK l ss t) _ (lit "for")
               [init_text x; lt1_text x; next_text x; nest_for d] (CmdNative NFor c_for));
      [|exact Hl|apply parse_for; [exact Hx|apply nest_for_brace_ok|apply nest_for_not_star]|exact H_for].
    unfold one_command. change (enter (MK l ss t)) with (MK (l + 1) ss t).
    rewrite real_for_spec by reflexivity. cbn [map arg nth].
    destruct (N.lt_ge_cases (l + 1) N0) as [Hl1|Hl1].
    2:{ (* the initialisation is refused *)
        rewrite eval_at_limit by exact Hl1. cbn [bind].
        destruct (level_exit_error l ss t (molt_err too_many_nested) (CmdNative NFor c_for) (lit "for")
                    (map VStr [lit "for"; init_text x; lt1_text x; next_text x; nest_for d]) Hr eq_refl eq_refl)
          as (ss' & e' & E & R' & C' & X').
        exists ss', t, (Err e'). split; [exact E|]. split; [exact R'|].
        split; [intros; lia|]. intros _. split; [|reflexivity]. exists e'. repeat split; assumption. }
    destruct f as [|f1]; [lia|].
    destruct (eval_init f1 (l + 1) ss t x Hx Hr Hl1) as (ss1 & E1 & R1 & G1 & O1).
    rewrite E1. rewrite bind_ok.
    (* first iteration: the test is true *)
    cbn [spec_for].
    rewrite (test_value (S f1) (l + 1) ss1 t x (VStr (lit "0")) 0 Hx G1 eq_refl).
    change (0 <? 1)%Z with true. cbv beta iota.
    (* the body *)
    cbn [real_rec r_eval].
    destruct (IH (S f1) (l + 1) ss1 t ltac:(lia) R1) as (ss2 & t2 & r2 & E2 & R2 & Fit & Deep).
    rewrite E2.
    destruct (N.le_gt_cases (l + N.of_nat (S d) + 1) N0) as [Hfit|Hdeep].
    + (* it fits *)
      destruct (Fit ltac:(lia)) as (-> & -> & K2).
      cbn [classify].
      assert (G2 : sc_get ss2 x = Ok (VStr (lit "0"))).
      { unfold sc_get. rewrite (K2 x Hx); [exact G1|].
        intros j Hj E. apply uname_inj in E. lia. }
      destruct (eval_next f1 (l + 1) ss2 (deep_call :: t) x Hx R2 Hl1 G2) as (ss3 & E3 & R3 & G3 & O3).
      rewrite E3. cbn [classify].
      (* second iteration: the test is false *)
      rewrite (test_value (S f1) (l + 1) ss3 (deep_call :: t) x (VInt 1) 1 Hx G3 eq_refl).
      change (1 <? 1)%Z with false. cbv beta iota.
      rewrite level_exit_ok.
      exists ss3, (deep_call :: t), (Ok v_empty). split; [reflexivity|]. split; [exact R3|].
      split; [|intros; lia]. intros _. split; [reflexivity|]. split; [reflexivity|].
      intros y Hy Hne.
      assert (Hyx : y <> x) by (apply Hne; lia).
      rewrite (O3 y Hyx). rewrite (K2 y Hy) by (intros j Hj; apply Hne; lia). apply O1. exact Hyx.
    + (* the body is too deep *)
      destruct (Deep ltac:(lia)) as ((e & -> & Ce & Xe) & ->).
      unfold classify. rewrite Ce.
      destruct (level_exit_error l ss2 t e (CmdNative NFor c_for) (lit "for")
                  (map VStr [lit "for"; init_text x; lt1_text x; next_text x; nest_for d]) R2 Ce Xe)
        as (ss' & e' & E & R' & C' & X').
      exists ss', t, (Err e'). split; [exact E|]. split; [exact R'|].
      split; [intros; lia|]. intros _. split; [|reflexivity]. exists e'. repeat split; assumption.
Qed.

End ForNest.

Print Assumptions for_nest.

(* ---- from the top level ---- *)
Definition for_natives (st : interp) : Prop :=
  native_bound st "for" NFor /\ native_bound st "set" NSet
  /\ native_bound st "incr" NIncr /\ native_bound st "rec" NRecorder.

Theorem C16_for_nest_exact : forall U (N : N) (d fuel : nat) st,
  uni_names_ok U ->
  i_levels st = 0 -> i_limit st = N ->
  for_natives st -> Ready (i_scopes st) ->
  (d + 1 <= fuel)%nat ->
  exists st' r,
    eval U fuel st (nest_for d) = (st', r)
    /\ i_levels st' = 0 /\ i_limit st' = N /\ i_cmds st' = i_cmds st
    /\ Ready (i_scopes st')
    /\ (N.of_nat d + 1 <= N ->
          r = Ok (val_for d) /\ i_trace st' = deep_call :: i_trace st)
    /\ (N < N.of_nat d + 1 ->
          (exists e, r = Err e /\ x_code e = CError /\ x_value e = VStr too_many_nested)
          /\ i_trace st' = i_trace st).
Proof.
  intros U N d fuel st HU H0 HN ((cf & Hfor) & (cs & Hset) & (ci & Hincr) & (cr & Hrec)) Hr Hf.
  destruct (for_nest U HU st cf cs ci cr Hfor Hset Hincr Hrec d fuel 0 (i_scopes st) (i_trace st) Hf Hr)
    as (ss' & t' & r & E & R' & Fit & Deep).
  assert (Hst : mk st 0 (i_scopes st) (i_trace st) = st) by (rewrite <- H0; apply mk_self).
  rewrite Hst in E.
  exists (mk st 0 ss' t'), r. split; [exact E|]. split; [reflexivity|]. split; [exact HN|].
  split; [reflexivity|]. split; [exact R'|]. rewrite HN in Fit, Deep. split.
  - intros Hl. destruct (Fit ltac:(lia)) as (A & B & _). split; [exact A|exact B].
  - intros Hl. destruct (Deep ltac:(lia)) as (A & B). split; [exact A|exact B].
Qed.

Print Assumptions C16_for_nest_exact.

(* ---- the checker's nest builder, kind 3 ---- *)
Lemma checker_for_step i s :
  (lit "for {set u" ++ show_Z (Z.of_nat i) ++ lit " 0} {$u" ++ show_Z (Z.of_nat i)
   ++ lit " < 1} {incr u" ++ show_Z (Z.of_nat i) ++ lit "} {" ++ s ++ lit "}")
  = for_wrap (uname i) s.
Proof. rewrite for_wrap_text. reflexivity. Qed.

Theorem checker_nest_for d : Molt.Check.C16.nest 3 d false = nest_for (Z.to_nat d).
Proof.
  unfold Molt.Check.C16.nest, Molt.Check.C16.zrepeat.
  change (3 =? 0)%Z with false. change (3 =? 1)%Z with false. change (3 =? 2)%Z with false.
  cbn [andb negb]. cbv beta iota.
  set (step := fun (acc : Z * str) (_ : unit) => let '(i, s) := acc in _).
  assert (G : forall n k,
             fold_left step (repeat tt n) (Z.of_nat k, nest_for k)
             = (Z.of_nat (k + n), nest_for (k + n))).
  { induction n as [|n IH]; intros k.
    - cbn [repeat fold_left]. rewrite Nat.add_0_r. reflexivity.
    - cbn [repeat fold_left]. unfold step at 2. cbv beta iota.
      rewrite checker_for_step.
      replace (Z.of_nat k + 1)%Z with (Z.of_nat (S k)) by lia.
      change (for_wrap (uname k) (nest_for k)) with (nest_for (S k)).
      rewrite IH. replace (S k + n)%nat with (k + S n)%nat by lia. reflexivity. }
  change (0%Z, lit "rec deep") with (Z.of_nat 0, nest_for 0). rewrite G. reflexivity.
Qed.

Print Assumptions checker_nest_for.

(* ---- the checker's interpreter ---- *)
Lemma std_uni_names_ok : uni_names_ok std_uni.
Proof.
  split; [|vm_compute; reflexivity]. intros c Hc.
  assert (H : c = 48 \/ c = 49 \/ c = 50 \/ c = 51 \/ c = 52 \/ c = 53 \/ c = 54 \/ c = 55
              \/ c = 56 \/ c = 57 \/ c = 117) by (unfold name_char, is_digit10 in Hc; lia).
  repeat (destruct H as [->|H]; [vm_compute; reflexivity|]). subst c. vm_compute. reflexivity.
Qed.

Lemma limited_Ready n : Ready (i_scopes (limited n)).
Proof.
  rewrite limited_scopes. split; [|split].
  - apply inv_put_plain; [exact scope_inv_init|reflexivity|discriminate].
  - split; vm_compute; exact I.
  - intros x Hx m. unfold shape_of, sc_lookup.
    change (sc_put [[]] O (lit "errorInfo") (VarScalar v_empty)) with [[(lit "errorInfo", VarScalar v_empty)]].
    cbn [sc_current length pred sc_var sc_get_scope nth assoc_get].
    destruct (good_name_not_err x (lit "errorInfo") 101 (lit "rrorInfo") Hx eq_refl eq_refl) as [A _].
    rewrite A. discriminate.
Qed.

Lemma limited_for_natives n : for_natives (limited n).
Proof. repeat split; exists 0; vm_compute; reflexivity. Qed.

Theorem C16_harness_for_nest : forall (N : N) (d fuel : nat),
  (d + 1 <= fuel)%nat ->
  exists st' r,
    eval std_uni fuel (limited N) (Molt.Check.C16.nest 3 (Z.of_nat d) false) = (st', r)
    /\ i_levels st' = 0 /\ i_limit st' = N
    /\ (N.of_nat d + 1 <= N -> r = Ok (val_for d) /\ i_trace st' = [deep_call])
    /\ (N < N.of_nat d + 1 ->
          (exists e, r = Err e /\ x_code e = CError /\ x_value e = VStr too_many_nested)
          /\ i_trace st' = []).
Proof.
  intros N d fuel Hf. rewrite checker_nest_for, Nat2Z.id.
  destruct (C16_for_nest_exact std_uni N d fuel (limited N) std_uni_names_ok eq_refl eq_refl
              (limited_for_natives N) (limited_Ready N) Hf)
    as (st' & r & E & L & M & _ & _ & Fit & Deep).
  exists st', r. split; [exact E|]. split; [exact L|]. split; [exact M|]. split; assumption.
Qed.

Print Assumptions C16_harness_for_nest.

Example for_nest_limit3 :
  snd (eval std_uni 10 (limited 3) (nest_for 2)) = Ok v_empty
  /\ i_trace (fst (eval std_uni 10 (limited 3) (nest_for 2))) = [deep_call]
  /\ (exists e, snd (eval std_uni 10 (limited 3) (nest_for 3)) = Err e
                /\ x_code e = CError /\ x_value e = VStr too_many_nested)
  /\ i_trace (fst (eval std_uni 10 (limited 3) (nest_for 3))) = []
  /\ i_levels (fst (eval std_uni 10 (limited 3) (nest_for 3))) = 0
  /\ nest_for 2 = lit "for {set u1 0} {$u1 < 1} {incr u1} {for {set u0 0} {$u0 < 1} {incr u0} {rec deep}}".
Proof.
  vm_compute. split; [reflexivity|]. split; [reflexivity|].
  split; [eexists; repeat split|]. repeat split.
Qed.
